// C25 finding EXP1 (worker c25full, 2026-09-22): the expand setting of a mark is NOT honoured for marks created
// concurrently on two replicas whose boundary ops end up side by side in the "wrong" id order.
// Property clause: "Text inserted at a mark boundary is covered exactly when the mark's expand setting says so."
// Stand-alone probe against /repo/rust/automerge (not a harness replay: it needs two replicas and a merge, and the
// richtext expand oracle only looks at gaps holding ONE mark op).  Build:
//   mkdir -p /tmp/c25probe/src && cp <this file> /tmp/c25probe/src/main.rs   (Cargo.toml: automerge = { path = "/repo/rust/automerge" })
//   cd /tmp/c25probe && CARGO_TARGET_DIR=/verif/.cache/target-c25 cargo build --offline && /verif/.cache/target-c25/debug/c25probe
// Lean side: Props/C25Full.lean `C25_expand_boundary_refuted` (witnesses expDoc = scenario 1, expDoc2 = scenario 3; the model
// gives the same marks), `C25_expand_boundary_iff` (which boundaries are honoured, in general).
//
// Output on /repo (HEAD at the time of writing):
//   == A expand=After on [0,1), B expand=Before on [1,2), concurrent; endA id > beginB id
//   merged: text="ab"            mark A [0,1)  mark B [1,2)
//   after insert at 1: "aXb"     mark A [0,1)  mark B [1,3)     get_marks(1) = [B]          <-- X NOT in A although A expands after
//   == same, replica 2 has higher counters (beginB id > endA id)
//   after insert at 1: "aXb"     mark A [0,2)  mark B [1,3)     get_marks(1) = [A, B]       (both honoured)
//   == A expand=None, B expand=None, replica 2 higher counters: order a beginB endA b
//   after insert at 1: "aXb"     mark A [0,1)  mark B [1,3)     get_marks(1) = [B]          <-- X IS in B although B does not expand before
//   == A expand=None, B expand=None, endA id > beginB id
//   after insert at 1: "aXb"     mark A [0,1)  mark B [2,3)     get_marks(1) = []           (both honoured)
use automerge::{marks::{ExpandMark, Mark}, transaction::Transactable, AutoCommit, ObjType, ReadDoc, ActorId, ROOT, ScalarValue};

fn show(d: &AutoCommit, t: &automerge::ObjId, label: &str) {
    let txt = d.text(t).unwrap();
    let marks = d.marks(t).unwrap();
    println!("{}: text={:?}", label, txt);
    for m in &marks { println!("    mark {} = {:?} [{}, {})", m.name(), m.value(), m.start, m.end); }
}

fn scenario(actor1: &[u8], actor2: &[u8], ex_a: ExpandMark, ex_b: ExpandMark, extra_op_on_2: bool) {
    let mut d1 = AutoCommit::new().with_actor(ActorId::from(actor1));
    let t = d1.put_object(ROOT, "t", ObjType::Text).unwrap();
    d1.splice_text(&t, 0, 0, "ab").unwrap();
    d1.commit();
    let mut d2 = d1.fork().with_actor(ActorId::from(actor2));
    // replica 1: mark A over "a"
    d1.mark(&t, Mark::new("A".to_string(), true, 0, 1), ex_a).unwrap();
    d1.commit();
    // replica 2: (optionally one more op first, to raise its counters) mark B over "b"
    if extra_op_on_2 { d2.put(ROOT, "x", 1).unwrap(); d2.put(ROOT, "y", 1).unwrap(); }
    d2.mark(&t, Mark::new("B".to_string(), true, 1, 2), ex_b).unwrap();
    d2.commit();
    d1.merge(&mut d2).unwrap();
    show(&d1, &t, "merged");
    d1.splice_text(&t, 1, 0, "X").unwrap();
    d1.commit();
    show(&d1, &t, "after insert at 1");
    let gm = d1.get_marks(&t, 1, None).unwrap();
    let v: Vec<(String, ScalarValue)> = gm.iter().map(|(k, v)| (k.to_string(), v.clone())).collect();
    println!("    get_marks(1) = {:?}", v);
}

fn main() {
    println!("== A expand=After on [0,1), B expand=Before on [1,2), concurrent; endA id > beginB id");
    scenario(&[0xaa], &[0xbb], ExpandMark::After, ExpandMark::Before, false);
    println!("== same, replica 2 has higher counters (beginB id > endA id)");
    scenario(&[0xaa], &[0xbb], ExpandMark::After, ExpandMark::Before, true);
    println!("== A expand=None, B expand=None (neither should cover X), replica 2 higher counters: order a beginB endA b");
    scenario(&[0xaa], &[0xbb], ExpandMark::None, ExpandMark::None, true);
    println!("== A expand=None, B expand=None, endA id > beginB id");
    scenario(&[0xaa], &[0xbb], ExpandMark::None, ExpandMark::None, false);
}
