// C25 finding EXP2 / "marks-fast-ignores-deleted-mark-op" (worker c25full, 2026-09-22):
// marks() (present-time text read = indexed `OpSet::calculate_marks_fast`) still reports a mark whose BEGIN op was
// deleted by a (foreign, hand-built but accepted) change, while get_marks(i), spans() and the walked
// `calculate_marks_slow` (marks_at(heads), list objects) do not: the mark index (`IndexBuilder::process_op`:
// `self.marks.push(op.mark_index())`) records every mark op regardless of visibility, the walk only visits
// visible ops.  Clause violated: "marks(), get_marks(i) and spans() report this same marking".
// With feature `slow_path_assertions` the same input trips `assert_eq!(fast, slow, "indexed marks != walked marks")`.
// Stand-alone probe (needs `Change::from(ExpandedChange)`); build like EXP1.  `c25probe2 4` deletes the begin op 4@01,
// `c25probe2 5` the end op 5@01 (harmless here: the mark ends at the end of the text anyway).
// Output of `c25probe2 4` on /repo:
//   before:                  marks(): bold [0,2)   get_marks(0)=get_marks(1)=[bold]   span "ab" {bold}
//   after deleting mark op:  marks(): bold [0,2)   get_marks(0)=get_marks(1)=[]       span "ab" (no marks)     <-- disagreement
//   reloaded (save + load):  the same disagreement
// Lean side: Props/C25Full.lean, `C25_marks_fast_deleted_begin_refuted`.
use automerge::{legacy, marks::{ExpandMark, Mark}, transaction::Transactable, ActorId, AutoCommit, Change, ExpandedChange, ObjType, ReadDoc, ROOT};

fn show(d: &AutoCommit, t: &automerge::ObjId, label: &str) {
    println!("{}: text={:?}", label, d.text(t).unwrap());
    for m in d.marks(t).unwrap() { println!("    marks(): {} = {:?} [{}, {})", m.name(), m.value(), m.start, m.end); }
    for i in 0..d.length(t) {
        let gm = d.get_marks(t, i, None).unwrap();
        let v: Vec<String> = gm.iter().map(|(k, v)| format!("{}={:?}", k, v)).collect();
        println!("    get_marks({}) = {:?}", i, v);
    }
    for s in d.spans(t).unwrap() { println!("    span {:?}", s); }
}

fn main() {
    let a1 = ActorId::from(vec![1u8]);
    let mut d = AutoCommit::new().with_actor(a1.clone());
    let t = d.put_object(ROOT, "t", ObjType::Text).unwrap();          // 1@01
    d.splice_text(&t, 0, 0, "ab").unwrap();                            // 2@01 3@01
    d.mark(&t, Mark::new("bold".to_string(), true, 0, 2), ExpandMark::None).unwrap(); // 4@01 begin, 5@01 end
    let h1 = d.commit().unwrap();
    show(&d, &t, "before");
    // a foreign change deleting the mark-begin op 4@01
    let which: u64 = std::env::args().nth(1).map(|s| s.parse().unwrap()).unwrap_or(4);
    let target = legacy::OpId(which, a1.clone());
    let op = legacy::Op { action: legacy::OpType::Delete, obj: legacy::ObjectId::Id(legacy::OpId(1, a1.clone())),
        key: legacy::Key::Seq(legacy::ElementId::Id(target.clone())), pred: vec![target].into_iter().collect(), insert: false };
    let e = ExpandedChange { operations: vec![op], actor_id: ActorId::from(vec![2u8]), hash: None, seq: 1,
        start_op: std::num::NonZeroU64::new(6).unwrap(), time: 0, message: None, deps: vec![h1], extra_bytes: vec![] };
    let c = Change::from(e);
    match d.apply_changes(vec![c]) { Ok(()) => println!("applied"), Err(e) => { println!("rejected: {}", e); return; } }
    show(&d, &t, "after deleting mark op");
    let bytes = d.save();
    match AutoCommit::load(&bytes) { Ok(l) => show(&l, &t, "reloaded"), Err(e) => println!("load failed: {}", e) }
}
