use automerge::{AutoCommit, ObjType, ReadDoc, transaction::Transactable, TextEncoding, ActorId, ROOT, ScalarValue};

fn dump(d: &mut AutoCommit, label: &str) {
    d.commit();
    let c = d.get_last_local_change().unwrap().clone();
    let e = c.decode();
    println!("== {} start_op={}", label, e.start_op);
    for (i, op) in e.operations.iter().enumerate() {
        println!("  {}: key={:?} insert={} action={:?} pred={:?}", e.start_op.get() + i as u64, op.key, op.insert, op.action, op.pred);
    }
}

fn main() {
    for enc in [TextEncoding::Utf8CodeUnit, TextEncoding::Utf16CodeUnit, TextEncoding::UnicodeCodePoint] {
        println!("#### {:?}", enc);
        let mut d = AutoCommit::new_with_encoding(enc).with_actor(ActorId::from(vec![1u8]));
        let t = d.put_object(ROOT, "t", ObjType::Text).unwrap();
        d.splice_text(&t, 0, 0, "a😀b").unwrap();
        // a zero-width element (empty string scalar) right after the emoji
        let after_emoji = d.length(&t) - 1;
        let r = d.insert(&t, after_emoji, ScalarValue::Str("".into()));
        println!("insert empty string at {} -> {:?}", after_emoji, r.is_ok());
        let l = d.length(&t);
        d.splice_text(&t, l, 0, "de").unwrap();
        dump(&mut d, "setup");
        println!("text={:?} len={}", d.text(&t).unwrap(), d.length(&t));
        // 1. delete starting INSIDE the emoji (utf8: units 1..4): index 2, del 1
        let mut d1 = d.fork().with_actor(ActorId::from(vec![2u8]));
        let r = d1.splice_text(&t, 2, 1, "");
        println!("splice(2,1,\"\") -> {:?}; text={:?}", r.is_ok(), d1.text(&t).unwrap());
        dump(&mut d1, "inside-element delete");
        // 2. delete across the zero-width element: position after emoji, del 2  (b, d)
        let mut d2 = d.fork().with_actor(ActorId::from(vec![3u8]));
        let r = d2.splice_text(&t, after_emoji, 2, "XY");
        println!("splice({},2,\"XY\") -> {:?}; text={:?}", after_emoji, r.is_ok(), d2.text(&t).unwrap());
        dump(&mut d2, "across zero-width element");
        // 3. delete past the end
        let mut d3 = d.fork().with_actor(ActorId::from(vec![4u8]));
        let l = d3.length(&t);
        let r = d3.splice_text(&t, l - 1, 50, "");
        println!("splice({},50,\"\") -> {:?}; text={:?}", l - 1, r.is_ok(), d3.text(&t).unwrap());
        dump(&mut d3, "past the end");
        // 4. position past the end, nothing to insert
        let mut d4 = d.fork().with_actor(ActorId::from(vec![5u8]));
        let r = d4.splice_text(&t, l + 3, 2, "");
        println!("splice({},2,\"\") -> {:?} pending={}", l + 3, r.is_ok(), d4.pending_ops());
        let r = d4.splice_text(&t, l + 3, 2, "z");
        println!("splice({},2,\"z\") -> {:?} pending={}", l + 3, r.map_err(|e| e.to_string()), d4.pending_ops());
        // 5. negative del
        let mut d5 = d.fork().with_actor(ActorId::from(vec![6u8]));
        let r = d5.splice_text(&t, 1, -2, "");
        println!("splice(1,-2,\"\") -> {:?}", r.map_err(|e| e.to_string()));
        let r = d5.splice_text(&t, l, -1, "Q");
        println!("splice({},-1,\"Q\") -> {:?}; text={:?}", l, r.is_ok(), d5.text(&t).unwrap());
        dump(&mut d5, "negative del");
    }
}
