#!/bin/sh
# Build the framework from files on disk only (offline): Lean model + theorems + driver, Rust harness.
set -e
cd "$(dirname "$0")"
export CARGO_NET_OFFLINE=true
python3 tools/extract_consts.py
(cd lean && lake build AmVerif amdriver)
[ -f harness/Cargo.lock ] || cp /repo/rust/Cargo.lock harness/Cargo.lock
(cd harness && cargo build --offline)
echo setup-ok
