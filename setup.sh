#!/bin/sh
exec </dev/null   # children (cargo's `rustc -` probe) must not read an inherited stdin
# Build the framework from files on disk only (offline): Lean model + theorems + driver, Rust harness, CLI.
set -e
cd "$(dirname "$0")"
export CARGO_NET_OFFLINE=true
python3 tools/extract_consts.py
MODS=$(python3 -c "
import sys; sys.path.insert(0,'tools')
from registry import PROPS
print(' '.join(sorted({m for c in PROPS.values() for m in c['modules']})))")
(cd lean && lake build $MODS amdriver)
[ -f harness/Cargo.lock ] || cp /repo/rust/Cargo.lock harness/Cargo.lock
(cd harness && cargo build --offline)
(cd /repo/rust && CARGO_TARGET_DIR=/verif/.cache/target-cli cargo build --offline -p automerge-cli)
echo setup-ok
