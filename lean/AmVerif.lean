-- This module serves as the root of the `AmVerif` library.
-- Import modules here that should be built as part of the library.
import AmVerif.Basic
