import AmVerif.Model.UpdateText
import AmVerif.Model.Reconcile
import AmVerif.Model.Wire
/-
  Engine `recon` (C27), model side.  `recon.update_text` is replayed through the Myers model and the
  width-indexed text model; `recon.update_object` (without concurrent puts) through the value-level
  model of `update_map` / `update_list` / `update_value`; the bulk-construction and update_spans
  commands are decided by the direct oracles of the harness and answered `skip` here.
-/
namespace Driver.Recon
open AmVerif AmVerif.Wire AmVerif.Myers AmVerif.UpdateText

def parseEnc : String → Option Enc
  | "cp" => some .cp | "utf8" => some .utf8 | "utf16" => some .utf16 | "gc" => some .gc | _ => none

def natList (s : String) : Option (List Nat) :=
  if s == "-" then some [] else (s.splitOn ",").mapM String.toNat?

/-- the harness' normal form of the logged events: consecutive inserts that continue each other
    are joined, consecutive deletes at one index are added -/
def normEdits : List Ed → List Ed → List Ed     -- acc is newest-first
  | acc, [] => acc.reverse
  | [], e :: r => normEdits [e] r
  | .ins i s w :: acc, .ins j t v :: r =>
    if j == i + w then normEdits (.ins i (s ++ t) (w + v) :: acc) r
    else normEdits (.ins j t v :: .ins i s w :: acc) r
  | .del i n :: acc, .del j m :: r =>
    if i == j then normEdits (.del i (n + m) :: acc) r
    else normEdits (.del j m :: .del i n :: acc) r
  | a :: acc, e :: r => normEdits (e :: a :: acc) r

def showEdits (es : List Ed) : String :=
  if es.isEmpty then "-" else
  ",".intercalate (es.map fun
    | .ins i s _ => s!"I{i}.{hx s}"
    | .del i n => s!"D{i}.{n}")

/-- every grapheme cluster of the old text is a run of whole elements whose widths add up to the
    cluster's width -/
def alignedB (enc : Enc) : List Elem → List Piece → Bool
  | [], [] => true
  | _ :: _, [] => false
  | els, p :: ps =>
    let rec take (fuel : Nat) (els : List Elem) (bytes w : Nat) : Option (List Elem × Nat) :=
      if bytes ≥ p.length then some (els, w) else
      match fuel, els with
      | fuel+1, e :: r => take fuel r (bytes + e.s.length) (w + e.w)
      | _, _ => none
    match take (els.length + 1) els 0 0 with
    | some (rest, w) =>
      (textOf els).take p.length == p && w == pieceWidth enc p
        && (textOf rest).length + p.length == (textOf els).length && alignedB enc rest ps
    | none => false
termination_by els ps => ps.length

def okBad (b : Bool) : String := if b then "ok" else "BAD"

def showPanic : PanicSite → String
  | .sliceIndex => "sliceIndex" | .assertFailed => "assertFailed" | _ => "other"

def exec (toks : List String) : List String :=
  match toks with
  | ["recon.update_text", enc, _build, new, oldsegs, newsegs, oldelems, widths] =>
    match parseEnc enc, unhx new, unhxList oldsegs, unhxList newsegs, unhxList oldelems, natList widths with
    | some enc, some new, some oldsegs, some newsegs, some elemStrs, some ws =>
      if elemStrs.length != ws.length then ["bad-input"] else
      let els : List Elem := (elemStrs.zip ws).map fun (s, w) => ⟨s, w⟩
      let widthsOk := enc == .gc || els.all fun e => unitWidth enc e.s == e.w
      let l1 := s!"built old={hx (textOf els)} segs={okBad (oldsegs.flatten == textOf els)} newsegs={okBad (newsegs.flatten == new)} elems=ok widths={okBad widthsOk}"
      let l2 :=
        match updateText enc els oldsegs newsegs with
        | .ok st => s!"ok text={hx (textOf st.els)} script={if alignedB enc els oldsegs then showEdits (normEdits [] st.log.reverse) else "~"} ops=i{st.nIns}d{st.nDel}"
        | .err .invalidIndex => "err index"
        | .err .hookSlice => "panic"
        | .invalidSplit => "invalidSplit"
        | .outOfFuel => "outOfFuel"
        | .panic p => s!"panic {showPanic p}"
      [l1, l2]
    | _, _, _, _, _, _ => ["bad-input"]
  | ["recon.update_object", _enc, old, new, path, conc] =>
    -- with concurrent puts merged in, the value before the call is not the `old` of the line: not modelled
    if conc != "-" then ["skip"] else
    match Reconcile.parse old, Reconcile.parse new with
    | some oldv, some newv =>
      let target : Option Reconcile.Val :=
        if path == "_" then some oldv else
        match oldv with
        | .map kvs => match Reconcile.lookupKey path kvs with
          | some (.scalar _) => none
          | r => r
        | _ => none
      match target with
      | none => ["err path"]
      | some t =>
        match Reconcile.updateObject 64 t newv with
        | .ok v => [s!"ok {Reconcile.showVal v}"]
        | .error .changeType => ["err changetype"]
        | .error .outOfFuel => ["outOfFuel"]
    | _, _ => ["bad-input"]
  | cmd :: _ =>
    if cmd.startsWith "recon." then ["skip"] else ["unknown-cmd"]
  | [] => ["bad-input"]

end Driver.Recon
