import AmVerif.Model.Ids
import AmVerif.Model.IdsMsg
import AmVerif.Model.Wire
/-
  Driver for the `ids` engine (harness/src/engines/ids.rs): every command is stateless.
  Documents are described by their actor lists (see `build_doc` in ids.rs); the driver's `Doc` is
  the part of such a document that identifier resolution can observe: the sorted actor table, the
  objects and the order of the list elements.
-/
namespace Driver.Ids
open AmVerif AmVerif.Ids AmVerif.IdsMsg AmVerif.Wire

def ascii (bs : Bytes) : String := String.ofList (bs.map (fun b => Char.ofNat b.toNat))

def errName : IErr → String
  | .noVersion => "noVersion" | .invalidVersion => "invalidVersion" | .invalidType => "invalidType"
  | .parseActorLen => "parseActorLen" | .parseActor => "parseActor" | .parseCounter => "parseCounter"
  | .parseActorIdxHint => "parseActorIdxHint" | .cursorFormat => "cursorFormat"
  | .invalidCursor => "invalidCursor" | .objIdFormat => "objIdFormat" | .objId => "objId"
  | .actorId => "actorId" | .hashHex => "hashHex" | .hashLength => "hashLength" | .hashSlice => "hashSlice"

def mErrName : MErr → String
  | .wrongType => "wrongType" | .notEnoughInput => "notEnoughInput" | .parse => "parse"

def showExidFull (e : ExId) : String :=
  match e with
  | .root => s!"_root b={hx (exidToBytes e)}"
  | .id _ _ idx => s!"{ascii (exidToStr e)} idx={idx} b={hx (exidToBytes e)}"

def showCursorFull (c : Cursor) : String := s!"{ascii (cursorToStr c)} b={hx (cursorToBytes c)}"

def out {α : Type} (f : α → String) : Outcome IErr α → String
  | .ok a => s!"ok {f a}"
  | .err e => s!"err {errName e}"
  | .panic _ => "panic"

/-! ### the documents of `build_doc` -/

def bytesLt (a b : Bytes) : Bool := bytesLe a b && a != b

def insertSorted (a : Actor) : List Actor → List Actor
  | [] => [a]
  | b :: rest => if bytesLt a b then a :: b :: rest else b :: insertSorted a rest

def sortActors (as : List Actor) : List Actor := as.foldr insertSorted []

structure Doc where
  base : Actor
  others : List Actor
  actors : List Actor          -- `OpSet::actors`: sorted

def mkDoc (base : Actor) (others : List Actor) : Option Doc :=
  if others.contains base || !(others.eraseDups.length == others.length) then none
  else some ⟨base, others, sortActors (base :: others)⟩

/-- list elements in document order: concurrent head inserts `6@a` by descending actor, then the
    base elements -/
def Doc.elems (d : Doc) : List (Nat × Actor) :=
  (sortActors d.others).reverse.map (fun a => (6, a)) ++ [(2, d.base), (3, d.base), (4, d.base)]

def parseActors (s : String) : Option (List Actor) := if s == "-" then some [] else (s.splitOn ",").mapM unhx

/-- `describe_obj`: type, marker, length of what the resolved op id names -/
def describe (d : Doc) (o : OpId) : String :=
  -- `ObjId::is_root` tests only the counter: every resolved id with counter 0 is the root map
  if o.ctr = 0 then s!"ok M who=- len={1 + d.others.length}" else
  match denote d.actors o with
  | none => "err objId"
  | some (ctr, a) =>
    if ctr = 1 ∧ a = d.base then s!"ok L who=- len={3 + d.others.length}"
    else if ctr = 5 ∧ d.others.contains a then s!"ok M who={ascii (hexEncode a)} len=1"
    else "err objId"

def describeExid (d : Doc) (e : ExId) : String :=
  match exidToOpid d.actors e with
  | .ok o => describe d o
  | .err e => s!"err {errName e}"
  | .panic _ => "panic"

def posOf (d : Doc) (ctr : Nat) (a : Actor) : Option Nat :=
  let rec go : List (Nat × Actor) → Nat → Option Nat
    | [], _ => none
    | x :: rest, i => if x = (ctr, a) then some i else go rest (i + 1)
  go d.elems 0

/-- `get_cursor_position(list, cursor, None)` on a document without deletions -/
def cursorPos (d : Doc) (c : Cursor) : String :=
  match c with
  | .start => "ok 0"
  | .end => s!"ok {d.elems.length}"
  | .op ctr a _ =>
    match opCursorToOpid d.actors ctr a with
    | .err e => s!"err {errName e}"
    | .panic _ => "panic"
    | .ok o =>
      match denote d.actors o with
      | none => "err invalidCursor"
      | some (c, a) =>
        match posOf d c a with
        | some p => s!"ok {p}"
        | none => "err invalidCursor"

/-! ### sync text forms -/

def showHashes (hs : List Hash) : String := if hs.isEmpty then "-" else ",".intercalate (hs.map hexOfBytes)

def parseHashes (s : String) : Option (List Hash) := if s == "-" then some [] else (s.splitOn ",").mapM unhx

def optLen {α : Type} : Option (List α) → String
  | none => "none"
  | some l => s!"some{l.length}"

def showState (s : State) : String :=
  s!"shared={showHashes s.sharedHeads} last_sent={s.lastSentHeads.length} their_heads={optLen s.theirHeads} their_need={optLen s.theirNeed} their_have={optLen s.theirHave} sent={s.sentHashes.length} in_flight={showBool s.inFlight} have_responded={showBool s.haveResponded} caps={optLen s.theirCapabilities} ro={showBool s.readOnly} pro={showBool s.peerReadOnly} reset={showBool s.needsReset}"

def showEnc : Outcome MErr Bytes → String
  | .ok b => hx b
  | .err e => s!"err {mErrName e}"
  | .panic _ => "dbgassert"

def showBloom (f : Bloom.Filter) : String := s!"{f.numEntries}.{f.bitsPerEntry}.{f.numProbes}.{hx f.bits}"

def showMsg (m : Message) : String :=
  let haves := m.have_.map (fun h => s!"{showHashes h.lastSync}/{showBloom h.bloom}")
  let chs := m.changes.map hx
  let v := match m.version with | .v1 => "1" | .v2 => "2"
  let fl := match m.flags with | none => "none" | some f => toString f.toNat
  s!"v={v} heads={showHashes m.heads} need={showHashes m.need} have={if haves.isEmpty then "_" else ";".intercalate haves} changes={if chs.isEmpty then "_" else ";".intercalate chs} flags={fl}"

def parseHave (s : String) : Option Have :=
  match s.splitOn "/" with
  | [hs, b] =>
    match parseHashes hs, unhx b with
    | some hs, some b =>
      match Bloom.parse b with
      | .ok (f, _) => some ⟨hs, f⟩
      | .error _ => none
    | _, _ => none
  | _ => none

def parseMsg (toks : List String) : Option Message :=
  match toks with
  | [v, heads, need, haves, changes, flags] =>
    match parseHashes heads, parseHashes need,
          (if haves == "_" then some [] else (haves.splitOn ";").mapM parseHave),
          (if changes == "_" then some [] else (changes.splitOn ";").mapM unhx) with
    | some heads, some need, some haves, some changes =>
      let fl : Option (Option UInt8) :=
        if flags == "none" then some none else flags.toNat?.map (fun n => some (UInt8.ofNat n))
      fl.map (fun fl => ⟨heads, need, haves, changes, fl, if v == "1" then .v1 else .v2⟩)
    | _, _, _, _ => none
  | _ => none

def flagAt (s : String) (i : Nat) : Bool := (s.toList.getD i '0') == '1'

/-! ### commands -/

def exec (toks : List String) : List String :=
  match toks with
  | ["ids.exid_bytes", b] =>
    match unhx b with
    | some b => [out showExidFull (exidFromBytes b)]
    | none => ["bad-input"]
  | ["ids.exid_enc", "root"] => [s!"ok {hx (exidToBytes .root)} s={ascii (exidToStr .root)}"]
  | ["ids.exid_enc", c, a, i] =>
    match c.toNat?, unhx a, i.toNat? with
    | some c, some a, some i =>
      let e := ExId.id c a i
      [s!"ok {hx (exidToBytes e)} s={ascii (exidToStr e)}"]
    | _, _, _ => ["bad-input"]
  | ["ids.cursor_bytes", b] =>
    match unhx b with
    | some b => [out showCursorFull (cursorFromBytes b)]
    | none => ["bad-input"]
  | ["ids.cursor_str", s] =>
    match unhx s with
    | some s => [out showCursorFull (cursorFromStr s)]
    | none => ["bad-input"]
  | ["ids.actor_str", s] =>
    match unhx s with
    | some s => [out hx (actorFromHex s)]
    | none => ["bad-input"]
  | ["ids.hash_str", s] =>
    match unhx s with
    | some s => [out hexOfBytes (hashFromHex s)]
    | none => ["bad-input"]
  | ["ids.hash_bytes", b] =>
    match unhx b with
    | some b => [out hexOfBytes (hashFromBytes b)]
    | none => ["bad-input"]
  | ["ids.import", base, others, s] =>
    match unhx base, parseActors others, unhx s with
    | some base, some others, some s =>
      match mkDoc base others with
      | none => ["bad-input"]
      | some d =>
        let r := importObj d.actors s
        let a := out showExidFull r
        -- `import`: the root is a map; any other id must name an object of the document
        let b := match r with
          | .ok .root => "ok _root M"
          | .ok e =>
            let ds := describeExid d e
            if ds.startsWith "ok " then s!"ok {ascii (exidToStr e)} {((ds.drop 3).takeWhile (· != ' ')).toString}"
            else "err objId"
          | .err e => s!"err {errName e}"
          | .panic _ => "panic"
        [a, b]
    | _, _, _ => ["bad-input"]
  | ["ids.res_exid", base, others, b] =>
    match unhx base, parseActors others, unhx b with
    | some base, some others, some b =>
      match mkDoc base others with
      | none => ["bad-input"]
      | some d =>
        match exidFromBytes b with
        | .ok e => [describeExid d e]
        | .err e => [s!"err {errName e}"]
        | .panic _ => ["panic"]
    | _, _, _ => ["bad-input"]
  | ["ids.res_cursor", base, others, kind, p] =>
    match unhx base, parseActors others, unhx p with
    | some base, some others, some p =>
      match mkDoc base others with
      | none => ["bad-input"]
      | some d =>
        match (if kind == "b" then cursorFromBytes p else cursorFromStr p) with
        | .ok c => [cursorPos d c]
        | .err e => [s!"err {errName e}"]
        | .panic _ => ["panic"]
    | _, _, _ => ["bad-input"]
  | ["ids.xres", base, ox, oy] =>
    match unhx base, parseActors ox, parseActors oy with
    | some base, some ox, some oy =>
      match mkDoc base ox, mkDoc base oy with
      | some x, some y =>
        -- ids as produced on X (hint = X's index), through bytes, resolved on Y
        let objOf (key : String) (ctr : Nat) (a : Actor) : String :=
          let hint := (lookupActor x.actors a).getD 0
          let r := match exidFromBytes (exidToBytes (.id ctr a hint)) with
            | .ok e => describeExid y e
            | _ => "undecodable"
          s!"{key}:{if r.startsWith "ok" then "ok" else "err"}"
        let objs := objOf "l" 1 base :: (sortActors ox).map (fun a => objOf ("m" ++ ascii (hexEncode a)) 5 a)
        let curs := (List.range x.elems.length).zip x.elems |>.map (fun (p, (c, a)) =>
          let r := match cursorFromBytes (cursorToBytes (.op c a .after)) with
            | .ok cur => cursorPos y cur
            | _ => "err"
          s!"{p}>{if r.startsWith "ok " then (r.drop 3).toString else "err"}")
        [s!"ok objs={",".intercalate objs} cursors={",".intercalate curs}"]
      | _, _ => ["bad-input"]
    | _, _, _ => ["bad-input"]
  | ["ids.state_dec", b] =>
    match unhx b with
    | some b =>
      match stateDecode b with
      | .ok s => [s!"ok {showState s} re={showEnc (stateEncode true s)}"]
      | .err e => [s!"err {mErrName e}"]
      | .panic _ => ["panic"]
    | none => ["bad-input"]
  | ["ids.state_enc", shared, last, f] =>
    match parseHashes shared, parseHashes last with
    | some shared, some last =>
      let s : State :=
        { sharedHeads := shared, lastSentHeads := last,
          theirHeads := if flagAt f 0 then some last else none,
          theirNeed := if flagAt f 1 then some shared else none,
          theirHave := if flagAt f 2 then none else some [],
          sentHashes := if flagAt f 3 then last.eraseDups else [],
          inFlight := flagAt f 4, haveResponded := flagAt f 5,
          theirCapabilities := if flagAt f 6 then some [.messageV2] else none,
          readOnly := flagAt f 7, peerReadOnly := flagAt f 8, needsReset := flagAt f 9 }
      match stateEncode true s with
      | .ok b => [s!"ok {hx b}"]
      | .err e => [s!"err {mErrName e}"]
      | .panic _ => ["dbgassert"]
    | _, _ => ["bad-input"]
  | ["ids.msg_dec", b] =>
    match unhx b with
    | some b =>
      match messageDecode b with
      | .ok m => [s!"ok {showMsg m} re={showEnc (messageEncode true m)}"]
      | .err e => [s!"err {mErrName e}"]
      | .panic _ => ["panic"]
    | none => ["bad-input"]
  | "ids.msg_enc" :: rest =>
    match parseMsg rest with
    | none => ["bad-input"]
    | some m =>
      match messageEncode true m with
      | .ok b => [s!"ok {hx b}"]
      | .err e => [s!"err {mErrName e}"]
      | .panic _ => ["dbgassert"]
  | "ids.deep" :: _ => ["skip"]
  | _ => ["unknown-cmd"]

end Driver.Ids
