import Driver.Crdt
import AmVerif.Model.Cursor
import AmVerif.Model.MarksFast
/- Extension of the `crdt` driver engine: commands `crdt.rt.*` on the same per-case state
   (rich text: marks, spans, cursors, text edits in documents that contain marks). -/
namespace Driver.CrdtRich
open AmVerif AmVerif.Crdt AmVerif.Wire Driver.Crdt

def showSet (m : MarkSet) : String :=
  if m.isEmpty then "." else joinWith "&" (m.map (fun p => hexOfBytes p.1 ++ "=" ++ showScalar p.2))

def showMark (m : Mark) : String :=
  hexOfBytes m.name ++ ":" ++ toString m.start ++ ":" ++ toString m.stop ++ ":" ++ showScalar m.value

def showSpan : Span → String
  | .text s ms => "t:" ++ hx s ++ ":" ++ showSet ms
  | .block => "b"

/-- the op set a read sees: at heads the ancestors' ops, else applied ++ pending; the flag says whether
    the read is clock-scoped (`clock_at`: heads equal to the current heads give no clock) -/
def opsFor (st : State) (r : String) (heads : Option String) : Option (List Op × Doc × Bool) :=
  let d := getReplica st r
  let pend := match st.txs.find? (fun p => p.1 == r) with | some (_, t) => t.pending | none => []
  match heads with
  | none => some (d.ops ++ pend, d, false)
  | some hs =>
    match unhxList hs with
    | some h =>
      if sortHashes h == d.heads then some (d.ops ++ pend, d, false)
      else let d' := d.at h; some (d'.ops, d', true)
    | none => none

/-- element widths: grapheme clusters count one per element (`gOne`, see Model/TextWidth) -/
def wfOf (e : Enc) (ty : ObjType) : Op → Nat := ow gOne e (ty == .text)

def readLines (e : Enc) (clocked : Bool) (ops : List Op) (obj : ObjId) : List String :=
  match objType ops obj with
  | none => ["err objid"]
  | some ty =>
    let len := lengthWith gOne e ops obj
    -- `Automerge::calculate_marks`: a present-time read of a text object takes the indexed path
    -- (`calculate_marks_fast`), a clock-scoped read or a list the walk (`calculate_marks_slow`)
    let marks := if !clocked && ty == .text then marksOfFast (wfOf e .text) ops obj else marksOf (wfOf e .text) ops obj
    let gm := (List.range (len + 1)).map (fun i => showSet (getMarksAt (wfOf e .text) ops obj i))
    let spans := spansOf (widthWith gOne e) ops obj
    [ s!"len {len}",
      s!"text {hx (textOf ops obj)}",
      "marks " ++ (if marks.isEmpty then "-" else joinWith "," (marks.map showMark)),
      "gm " ++ joinWith "|" gm,
      "spans " ++ (if spans.isEmpty then "-" else joinWith ";" (spans.map showSpan)) ]

/-- like `Driver.Crdt.edit`, but the call reports the ops it appended separately from its result
    (a failing `mark` can leave an op behind) -/
def editRt (st : State) (r obj : String)
    (f : Enc → List Op → Tx → ObjId → Option (List Op × Except EditErr Unit × Bool)) : State × List String :=
  match parseObj obj, st.actors.find? (fun p => p.1 == r) with
  | some o, some (_, actor) =>
    let d := getReplica st r
    let isoHeads := (st.iso.find? (fun p => p.1 == r)).map (·.2)
    let (t, st1) := match st.txs.find? (fun p => p.1 == r) with
      | some (_, t) => (t, st)
      | none =>
        match isoHeads with
        | some hs => (d.beginTx (d.isolateActor actor hs), st)
        | none =>
          let d' : Doc := { d with queue := removeActorBranchFrom d.queue actor (d.seqForActor actor + 1) }
          (d.beginTx actor, setReplica st r d')
    let d := getReplica st1 r
    -- an isolated transaction reads the document at the isolation heads (plus its own ops)
    let base := match isoHeads with | some hs => (d.at hs).ops | none => d.ops
    match f st1.enc (base ++ t.pending) t o with
    | none => (st1, ["bad-input"])
    | some (newOps, res, showId) =>
      let t' : Tx := { t with pending := t.pending ++ newOps }
      let st2 := { st1 with txs := (r, t') :: st1.txs.filter (fun p => p.1 != r) }
      match res with
      | .error e => (st2, [s!"err {e.show}"])
      | .ok _ =>
        let out := if showId then
            match newOps.head? with
            | some o => s!"ok {AmVerif.Crdt.showId o.id}"
            | none => "ok"
          else "ok"
        (st2, [out])
  | _, _ => (st, ["bad-input"])

def parseExpand (s : String) : Option (Bool × Bool) :=
  match s with
  | "before" => some (true, false) | "after" => some (false, true)
  | "both" => some (true, true) | "none" => some (false, false) | _ => none

def ofExcept (x : Except EditErr (List Op)) : List Op × Except EditErr Unit :=
  match x with
  | .ok l => (l, .ok ())
  | .error e => ([], .error e)

def cutPieces (bs : Bytes) : List Nat → List Bytes
  | [] => []
  | n :: ns => bs.take n :: cutPieces (bs.drop n) ns

def parseCursor (s : String) : Option Cursor :=
  if s == "s" then some .start else if s == "e" then some .stop
  else if s.startsWith "-" then (parseId (s.drop 1).toString).map (fun i => .op i .before)
  else (parseId s).map (fun i => .op i .after)

def showCursor : Cursor → String
  | .start => "s" | .stop => "e"
  | .op id .before => "-" ++ showId id
  | .op id .after => showId id

/-- `op_cursor_to_opid`: the actor must be known to the document; at heads the clock must cover the op -/
def cursorKnown (d : Doc) (own : Option Bytes) (historical : Bool) (c : Cursor) : Bool :=
  match c with
  | .op id _ =>
    if historical then d.applied.any (fun ch => ch.actor == id.actor && ch.startOp + ch.ops.length > id.ctr)
    else d.applied.any (fun ch => ch.actor == id.actor) || own == some id.actor
  | _ => true

def exec (st : State) (toks : List String) : State × List String :=
  match toks with
  | ["crdt.rt.mark", r, obj, s, e, ex, name, v] => editRt st r obj (fun enc ops t o => do
      let s ← s.toNat?; let e ← e.toNat?; let (b, a) ← parseExpand ex; let n ← unhx name; let sv ← parseScalar v
      let (l, res) := localMark (wfOf enc .text) ops t o s e b a n sv
      pure (l, res, false))
  | ["crdt.rt.unmark", r, obj, s, e, ex, name] => editRt st r obj (fun enc ops t o => do
      let s ← s.toNat?; let e ← e.toNat?; let (b, a) ← parseExpand ex; let n ← unhx name
      let (l, res) := localMark (wfOf enc .text) ops t o s e b a n .null
      pure (l, res, false))
  -- `seg` = byte lengths of the grapheme clusters of the text (`-` = one element per scalar value)
  | ["crdt.rt.splice", r, obj, pos, del, text, seg] => editRt st r obj (fun enc ops t o => do
      let i ← pos.toNat?; let dl ← del.toNat?; let tx ← unhx text
      let pieces ← if seg == "-" then some (utf8Chars tx)
        else ((seg.splitOn ",").mapM (fun (x : String) => x.toNat?)).map (cutPieces tx)
      let (l, res) := ofExcept (localSpliceTextRt (wfOf enc .text) (widthWith gOne enc) ops t o i dl pieces)
      pure (l, res, false))
  | ["crdt.rt.block", r, obj, pos] => editRt st r obj (fun enc ops t o => do
      let i ← pos.toNat?
      let (l, res) := ofExcept (localInsertRt (wfOf enc) ops t o i (.make .map) true)
      pure (l, res, true))
  -- `join_block` at the position of a block marker: one delete op on the marker element whose pred is the
  -- marker op (the generator only names positions where a block marker with a single visible op starts),
  -- i.e. the op a one-unit `splice_text` delete at that position records
  | ["crdt.rt.join", r, obj, pos] => editRt st r obj (fun enc ops t o => do
      let i ← pos.toNat?
      let (l, res) := ofExcept (localSpliceTextRt (wfOf enc .text) (widthWith gOne enc) ops t o i 1 [])
      pure (l, res, false))
  | ["crdt.rt.put", r, obj, idx, v] => editRt st r obj (fun enc ops t o => do
      let i ← idx.toNat?; let sv ← parseScalar v
      let res := match objMeta ops o with
        | .error err => .error err
        | .ok ty => localListOpW (wfOf enc ty) ops t o ty i (.put sv)
      let (l, res) := ofExcept res
      pure (l, res, false))
  | "crdt.rt.read" :: r :: obj :: rest =>
    match parseObj obj, opsFor st r rest.head? with
    | some o, some (ops, _, clocked) => (st, readLines st.enc clocked ops o)
    | _, _ => (st, ["bad-input"])
  | ["crdt.rt.same", _, _, _, _] => (st, ["ok"])
  | "crdt.rt.cursor" :: r :: obj :: pos :: mv :: rest =>
    match parseObj obj, opsFor st r rest.head? with
    | some o, some (ops, _, _) =>
      let m : MoveCursor := if mv == "b" then .before else .after
      let res : Except CursorErr Cursor :=
        match objType ops o with
        | none => .error .objid
        | some ty =>
          if !isSeq ty then .error .invalidOp
          else if pos == "s" then .ok .start else if pos == "e" then .ok .stop
          else match pos.toNat? with
            | some i => cursorAt (wfOf st.enc) ops o i m
            | none => .error .index
      (st, [match res with | .ok c => "ok " ++ showCursor c | .error e => "err " ++ e.show])
    | _, _ => (st, ["bad-input"])
  | "crdt.rt.resolve" :: r :: obj :: cur :: rest =>
    match parseObj obj, opsFor st r rest.head? with
    | some o, some (ops, d, hist) =>
      match parseCursor cur with
      | none => (st, ["err cursorfmt"])
      | some c =>
        let own := (st.actors.find? (fun p => p.1 == r)).map (·.2)
        match cursorPosition (wfOf st.enc) hist (cursorKnown d own hist c) ops o c with
        | .ok n => (st, [s!"ok {n}"])
        | .err e => (st, ["err " ++ e.show])
        | .panic _ => (st, ["panic"])
    | _, _ => (st, ["bad-input"])
  | _ => (st, ["unknown-cmd"])

end Driver.CrdtRich
