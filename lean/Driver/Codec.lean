import AmVerif.Model.ChangeCodec
import AmVerif.Model.ChangeWF
import AmVerif.Model.Wire
import Driver.Crdt
/-
  Driver engine `codec` (stateless): the change-chunk codec of `Model/ChangeCodec.lean`.
    codec.change <raw hex>              Change::from_bytes → decode(): canonical text | err | panic
    codec.reencode <raw hex>            Change::from(change.decode()): hash + raw bytes
    codec.compressed <raw> <compressed> from_bytes of the compressed form (Model/Chunk + Inflate)
    codec.expanded <actor> <seq> <startOp> <deps> <ops> <time> <msg> <extra>
                                        Change::from(ExpandedChange): hash + raw bytes
    codec.wf <raw>                      a transaction-written change: `ChangeWF` of its expansion (the hypothesis of
                                        `C18_change_roundtrip`) and the evaluated round trip: `wf=ok|bad rt=ok|bad`
    codec.bundle …                      not modelled (`skip`)
-/
namespace Driver.Codec
open AmVerif AmVerif.Crdt AmVerif.Wire AmVerif.ChangeCodec

/-- the model's row budget per change (the generator never produces more) -/
def LIMIT : Nat := 200000

def showObjId : ObjId → String
  | .root => "_"
  | .id o => showId o

def showKey : Key → String
  | .map k => "m" ++ hexOfBytes k
  | .head => "h"
  | .elem e => "e" ++ showId e

def showObjType : ObjType → String
  | .map => "M" | .list => "L" | .text => "T" | .table => "B"

def showAction : Action → String
  | .make t => "mk" ++ showObjType t
  | .del => "d"
  | .inc n => "inc" ++ toString n
  | .put v => "p" ++ showScalar v
  | .markBegin name v e => "mb" ++ hexOfBytes name ++ "." ++ (if e then "1" else "0") ++ "." ++ showScalar v
  | .markEnd e => "me" ++ (if e then "1" else "0")

def showOp (o : Op) : String :=
  showId o.id ++ "/" ++ showObjId o.obj ++ "/" ++ showKey o.key ++ "/" ++ (if o.insert then "1" else "0") ++ "/" ++
    showAction o.action ++ "/" ++ (if o.pred.isEmpty then "-" else joinWith "," (o.pred.map showId))

def showHashList (hs : List Bytes) : String :=
  if hs.isEmpty then "-" else joinWith "," (hs.map hexOfBytes)

def showX (hash : Bytes) (x : XChange) : String :=
  joinWith " " [hexOfBytes hash, hexOfBytes x.actor, toString x.seq, toString x.startOp, showHashList x.deps,
    (if x.ops.isEmpty then "-" else joinWith ";" (x.ops.map showOp)),
    "t=" ++ toString x.time,
    "m=" ++ (match x.message with | none => "none" | some m => hx m),
    "x=" ++ hx x.extra]

def showRes (r : Res (Bytes × XChange)) : String :=
  match r with
  | .ok (h, x) => "ok " ++ showX h x
  | .err .tooManyOps => "skip"
  | .err _ => "err"
  | .panic _ => "panic"

def hashOfChunk (bs : Bytes) : Bytes :=
  match Chunk.parseChunk (fun _ _ => true) bs with
  | .ok (c, _) => c.hash
  | .error _ => []

def exec (toks : List String) : List String :=
  match toks with
  | ["codec.change", raw] =>
    match unhx raw with
    | none => ["bad-input"]
    | some bs => [showRes (decodeChange LIMIT bs)]
  | ["codec.reencode", raw, _] =>
    match unhx raw with
    | none => ["bad-input"]
    | some bs =>
      match decodeChange LIMIT bs with
      | .ok (_, x) =>
        let out := encodeChange x
        [s!"ok {hexOfBytes (hashOfChunk out)} {hx out}"]
      | .err .tooManyOps => ["skip"]
      | .err _ => ["err"]
      | .panic _ => ["panic"]
  | ["codec.wf", raw] =>
    match unhx raw with
    | none => ["bad-input"]
    | some bs =>
      match decodeChange LIMIT bs with
      | .ok (h, x) =>
        let wf := decide (Full.ChangeWF x)
        let out := encodeChange x
        let rt := out == bs && (match decodeChange LIMIT out with
          | .ok (h2, x2) => h2 == h && x2 == x
          | _ => false)
        [s!"wf={if wf then "ok" else "bad"} rt={if rt then "ok" else "bad"}"]
      | .err .tooManyOps => ["skip"]
      | .err _ => ["err"]
      | .panic _ => ["panic"]
  | ["codec.compressed", _raw, comp] =>
    match unhx comp with
    | none => ["bad-input"]
    | some bs => [showRes (decodeChange LIMIT bs)]
  | ["codec.expanded", actor, seq, startOp, deps, ops, time, msg, extra] =>
    match unhx actor, seq.toNat?, startOp.toNat?, unhxList deps, Driver.Crdt.parseOps ops, time.toInt?,
          (if msg == "none" then some none else (unhx msg).map some), unhx extra with
    | some a, some s, some so, some ds, some os, some t, some m, some e =>
      let x : XChange := ⟨a, s, so, t, m, ds, e, os⟩
      let out := encodeChange x
      [s!"ok {hexOfBytes (hashOfChunk out)} {hx out}"]
    | _, _, _, _, _, _, _, _ => ["bad-input"]
  | cmd :: _ => if cmd.startsWith "codec.bundle" || cmd.startsWith "codec.apply" || cmd.startsWith "codec.docstr" then ["skip"] else ["unknown-cmd"]
  | [] => ["bad-input"]

end Driver.Codec
