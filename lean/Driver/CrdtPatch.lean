import Driver.Crdt
import AmVerif.Model.PatchView
import AmVerif.Model.PatchDiff
/- Extension of the `crdt` driver engine: commands `crdt.patch.*` on the same per-case state.

   `crdt.patch.apply r Cxx H1 H2 obj <patches>` is the correspondence line of C08/C09: the model
   prints the view of `obj` at H1 (`hview` of `Doc.at H1`), the result of its own `applyPatches` on
   the REAL patches carried by the line, the view at H2, and whether the two agree. -/
namespace Driver.CrdtPatch
open AmVerif AmVerif.Crdt AmVerif.Wire Driver.Crdt

def parsePProp (s : String) : Option PProp :=
  let rest := (s.drop 1).toString
  match s.toList.head? with
  | some 'm' => (unhx rest).map .key
  | some 'i' => rest.toNat?.map .idx
  | _ => none

def parsePVal (s : String) : Option PVal :=
  match s with
  | "oM" => some (.obj .map) | "oL" => some (.obj .list) | "oT" => some (.obj .text) | "oB" => some (.obj .table)
  | _ => (parseScalar s).map .scalar

def parseInsertVal (s : String) : Option (PVal × Bool) :=
  match s.splitOn "," with
  | [v, _id, c] => (parsePVal v).map (fun pv => (pv, c == "1"))
  | _ => none

def parseAction (e : Enc) (s : String) : Option PatchAction :=
  match s.splitOn ":" with
  | ["pm", k, v, _id, c] => do
    let kb ← unhx k; let pv ← parsePVal v
    pure (.putMap kb pv (c == "1"))
  | ["ps", i, v, _id, c] => do
    let n ← i.toNat?; let pv ← parsePVal v
    pure (.putSeq n pv (c == "1"))
  | ["in", i, vs] => do
    let n ← i.toNat?; let l ← (vs.splitOn "|").mapM parseInsertVal
    pure (.insert n l)
  | ["sp", i, t, _marks] => do
    let n ← i.toNat?; let b ← unhx t
    pure (.spliceText n (unitsOf e b))
  | ["inc", p, n] => do
    let pp ← parsePProp p; let k ← parseInt n
    pure (.increment pp k)
  | ["cf", p] => (parsePProp p).map .conflict
  | ["dm", k] => (unhx k).map .deleteMap
  | ["ds", i, n] => do
    let a ← i.toNat?; let b ← n.toNat?
    pure (.deleteSeq a b)
  | "mk" :: _ => some .mark
  | _ => none

def parsePathElem (s : String) : Option (ObjId × PProp) :=
  match s.splitOn "^" with
  | [o, p] => do
    let ob ← parseObj o; let pp ← parsePProp p
    pure (ob, pp)
  | _ => none

/-- `<obj>/<path>/<action>`; the action may itself contain no `/` -/
def parsePatch (e : Enc) (s : String) : Option Patch :=
  match s.splitOn "/" with
  | [o, path, act] => do
    let ob ← parseObj o
    let pth ← if path == "-" then some [] else (path.splitOn ",").mapM parsePathElem
    let a ← parseAction e act
    pure ⟨ob, pth, a⟩
  | _ => none

def parsePatches (e : Enc) (s : String) : Option (List Patch) :=
  if s == "-" then some [] else (s.splitOn ";").mapM (parsePatch e)

def showOut (e : Enc) : HOut HView → String
  | .ok v => showHView e 1000 v
  | .err er => "err " ++ er.show
  | .panic .todo => "panic todo"
  | .panic _ => "panic other"

def showPVal : PVal → String
  | .scalar s => showScalar s
  | .obj .map => "oM" | .obj .list => "oL" | .obj .text => "oT" | .obj .table => "oB"

def showKey (k : Bytes) : String := if k.isEmpty then "-" else hexOfBytes k

/-- an own-level map patch in the harness's canonical text: obj, empty path, action -/
def showOwnPatch (obj : String) (p : PatchAction × OpId) : String :=
  let b (x : Bool) : String := if x then "1" else "0"
  obj ++ "/-/" ++
  (match p.1 with
   | .putMap k v c => s!"pm:{showKey k}:{showPVal v}:{showId p.2}:{b c}"
   | .increment (.key k) n => s!"inc:m{showKey k}:{n}"
   | .conflict (.key k) => s!"cf:m{showKey k}"
   | .deleteMap k => s!"dm:{showKey k}"
   | _ => "?")

/-- an own-level list patch in the harness's canonical text -/
def showSeqPatch (obj : String) (p : SeqPatch) : String :=
  let b (x : Bool) : String := if x then "1" else "0"
  obj ++ "/-/" ++
  (match p with
   | .insert i vs => s!"in:{i}:" ++ joinWith "|" (vs.map (fun x => s!"{showPVal x.1},{showId x.2.1},{b x.2.2}"))
   | .put i v id c => s!"ps:{i}:{showPVal v}:{showId id}:{b c}"
   | .inc i n => s!"inc:i{i}:{n}"
   | .conflict i => s!"cf:i{i}"
   | .del i n => s!"ds:{i}:{n}")

def setActor (st : State) (r : String) (a : Bytes) : State :=
  { st with actors := (r, a) :: st.actors.filter (fun p => p.1 != r) }

/-- merge-like ingestion: everything `q` has applied is offered to `p` -/
def ingest (st : State) (p q : String) : State × List String :=
  let (d', _) := applyBatch (getReplica st p) (getReplica st q).applied
  (setReplica st p d', [s!"ok heads={showHashes d'.heads}"])

/-- both replicas exchange everything they have applied, `fuel` times -/
def syncLoop : Nat → Doc → Doc → Doc × Doc
  | 0, p, q => (p, q)
  | fuel + 1, p, q =>
    let q' := (applyBatch q p.applied).1
    let p' := (applyBatch p q'.applied).1
    syncLoop fuel p' q'

def exec (st : State) (toks : List String) : State × List String :=
  match toks with
  | ["crdt.patch.apply", r, _pid, h1, h2, obj, ps] =>
    match unhxList h1, unhxList h2, parseObj obj, parsePatches st.enc ps with
    | some hs1, some hs2, some o, some patches =>
      let d := getReplica st r
      match objType d.ops o with
      | none => (st, ["err objid"])
      | some ty =>
        let ops1 := (d.at hs1).ops
        let ops2 := (d.at hs2).ops
        let a := hviewOf st.enc ops1 o ty
        let b := hviewOf st.enc ops2 o ty
        let applied := showOut st.enc (applyPatches st.enc a (rebasePatches o patches))
        let to := showHView st.enc 1000 b
        (st, [s!"from {showHView st.enc 1000 a}", s!"applied {applied}", s!"to {to}",
              s!"verdict {if applied == to then "same" else "differs"}"])
    | _, _, _, _ => (st, ["bad-input"])
  -- the own level of a map object, non-recursive: the Lean transcription of `MapDiff` predicts the patches
  | ["crdt.patch.diff", r, h1, h2, obj, "0"] =>
    match unhxList h1, unhxList h2, parseObj obj with
    | some hs1, some hs2, some o =>
      let d := getReplica st r
      match objType d.ops o with
      | some .map =>
        let ps := diffMapObj (d.at hs1).ops (d.at hs2).ops d.ops o
        (st, [s!"patches {if ps.isEmpty then "-" else joinWith ";" (ps.map (showOwnPatch obj))}"])
      | some .list =>
        let ps := diffListObj (d.at hs1).ops (d.at hs2).ops d.ops o
        (st, [s!"patches {if ps.isEmpty then "-" else joinWith ";" (ps.map (showSeqPatch obj))}"])
      | _ => (st, ["skip"])
    | _, _, _ => (st, ["bad-input"])
  | "crdt.patch.diff" :: _ => (st, ["skip"])
  | "crdt.patch.incr" :: _ => (st, ["skip"])
  | "crdt.patch.loadlog" :: _ => (st, ["skip"])
  | "crdt.patch.mark" :: _ => (st, ["skip"])
  | "crdt.patch.put" :: _ => (st, ["skip"])
  | ["crdt.patch.track", r, p, actor] =>
    match unhx actor with
    | some a => (setReplica (setActor st p a) p (getReplica st r), ["ok"])
    | none => (st, ["bad-input"])
  | ["crdt.patch.merge", p, q] => ingest st p q
  -- `save()` keeps the orphans (`retain_orphans` defaults to true): the queued changes travel too
  | ["crdt.patch.loadinc", p, q, after] =>
    let dq := getReplica st q
    let offered := if after == "-" then dq.applied ++ dq.queue else dq.applied
    let (d', _) := applyBatch (getReplica st p) offered
    (setReplica st p d', [s!"ok heads={showHashes d'.heads}"])
  -- the protocol runs both ways against a copy of `q` until quiet: what one side sends may release
  -- changes queued at the other, which then travel back
  | ["crdt.patch.sync", p, q] =>
    let dp := getReplica st p
    let dq := getReplica st q
    let d' := (syncLoop (dp.queue.length + dq.queue.length + 2) dp dq).1
    (setReplica st p d', [s!"ok heads={showHashes d'.heads}"])
  | ["crdt.patch.isolate", _p, hs] =>
    match unhxList hs with
    | some l => (st, [s!"ok heads={showHashes (sortHashes l)}"])
    | none => (st, ["bad-input"])
  | ["crdt.patch.integrate", p] => (st, [s!"ok heads={showHashes (getReplica st p).heads}"])
  | ["crdt.patch.local", r, h] =>
    match lookup st h with
    | none => (st, ["bad-input"])
    | some c =>
      let d := getReplica st r
      let d' : Doc := { d with applied := d.applied ++ [c] }
      (setReplica st r d', [s!"ok heads={showHashes d'.heads}"])
  | _ => (st, ["unknown-cmd"])

end Driver.CrdtPatch
