import AmVerif.Model.Bloom
import AmVerif.Model.Wire
namespace Driver.Bloom
open AmVerif AmVerif.Bloom AmVerif.Wire

def showOutcomeBool : Outcome Unit Bool → String
  | .ok b => s!"ok {showBool b}"
  | .err _ => "err"
  | .panic _ => "panic"

def exec (toks : List String) : List String :=
  match toks with
  | ["bloom.build", hs] =>
    match unhxList hs with
    | none => ["bad-input"]
    | some hs =>
      match fromHashes hs with
      | .ok f => [s!"ok {hx (toBytes f)}"]
      | .err _ => ["err"]
      | .panic _ => ["panic"]
  | ["bloom.query", fb, h] =>
    match unhx fb, unhx h with
    | some fb, some h =>
      match parse fb with
      | .ok (f, _) => [showOutcomeBool (containsHash f h)]
      | .error _ => ["err"]
    | _, _ => ["bad-input"]
  | ["bloom.parse", fb] =>
    match unhx fb with
    | some fb =>
      match parse fb with
      | .ok (f, _) => [s!"ok {hx (toBytes f)}"]
      | .error _ => ["err"]
    | none => ["bad-input"]
  | _ => ["unknown-cmd"]

end Driver.Bloom
