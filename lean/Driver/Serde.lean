import AmVerif.Model.Serde
import AmVerif.Model.JsonParse
import AmVerif.Model.Wire
/-
  Driver engine `serde` (C32, C33).

  `serde.doc <spec>`   the document state (with conflicts and deleted registers) the harness built
                       with the real API; the model answers with the JSON export, the serializer
                       call sequence and whether all announced lengths are true.
  `serde.cli <hex>`    JSON text (hex UTF-8) piped through the real `automerge import | automerge
                       export`; the model answers with `exportJson (importJson (parse text))`.

  spec grammar (no spaces):
    val   := N | T | F | I<int>; | U<nat>; | D<16 hex>; | C<int>,<int>; | Z<int>;
           | S<hex>; | B<hex>; | X<hex>; | '{' entry* '}' | '[' elem* ']'
    entry := K<hex>; reg | k<hex>;          (k = key that was put and then deleted)
    elem  := reg | ~                         (~ = element that was inserted and then deleted)
    reg   := val ('|' val)*                  (winner, then the losing concurrent values)
-/
namespace Driver.Serde
open AmVerif AmVerif.Wire

def takeUntil (stop : Char) : List Char → Option (List Char × List Char)
  | [] => none
  | c :: cs =>
    if c == stop then some ([], cs)
    else match takeUntil stop cs with
      | some (a, r) => some (c :: a, r)
      | none => none

def parseNat? (cs : List Char) : Option Nat :=
  if cs.isEmpty || !cs.all (fun c => '0' ≤ c && c ≤ '9') then none
  else some (cs.foldl (fun a c => a * 10 + (c.toNat - 48)) 0)

def parseInt? (cs : List Char) : Option Int :=
  match cs with
  | '-' :: r => (parseNat? r).map (fun n => -(n : Int))
  | _ => (parseNat? cs).map (fun n => (n : Int))

def hexBytes? (cs : List Char) : Option Bytes := bytesOfHexChars cs

def hexString? (cs : List Char) : Option String :=
  match hexBytes? cs with
  | some bs => String.fromUTF8? (ByteArray.mk bs.toArray)
  | none => none

def hexNat? (cs : List Char) : Option Nat :=
  cs.foldl (fun acc c => match acc, hexVal c with
    | some a, some d => some (a * 16 + d)
    | _, _ => none) (some 0)

mutual
def parseVal : Nat → List Char → Option (Val × List Char)
  | 0, _ => none
  | f + 1, cs =>
    match cs with
    | 'N' :: r => some (.scalar .null, r)
    | 'T' :: r => some (.scalar (.bool true), r)
    | 'F' :: r => some (.scalar (.bool false), r)
    | 'I' :: r => do let (a, r) ← takeUntil ';' r; let i ← parseInt? a; pure (.scalar (.int i), r)
    | 'U' :: r => do let (a, r) ← takeUntil ';' r; let n ← parseNat? a; pure (.scalar (.uint n), r)
    | 'D' :: r => do let (a, r) ← takeUntil ';' r; let n ← hexNat? a; pure (.scalar (.f64 n), r)
    | 'Z' :: r => do let (a, r) ← takeUntil ';' r; let i ← parseInt? a; pure (.scalar (.timestamp i), r)
    | 'C' :: r => do
      let (a, r) ← takeUntil ',' r
      let (b, r) ← takeUntil ';' r
      let s ← parseInt? a
      let i ← parseInt? b
      pure (.scalar (.counter s i), r)
    | 'S' :: r => do let (a, r) ← takeUntil ';' r; let s ← hexString? a; pure (.scalar (.str s), r)
    | 'B' :: r => do
      let (a, r) ← takeUntil ';' r
      let b ← hexBytes? a
      pure (.scalar (.bytes (b.map UInt8.toNat)), r)
    | 'X' :: r => do let (a, r) ← takeUntil ';' r; let s ← hexString? a; pure (.text s, r)
    | '{' :: r => do let (es, r) ← parseEntries f r; pure (.map es, r)
    | '[' :: r => do let (rs, r) ← parseElems f r; pure (.list rs, r)
    | _ => none
def parseLosers : Nat → List Char → Option (List Val × List Char)
  | 0, _ => none
  | f + 1, cs =>
    match cs with
    | '|' :: r => do
      let (v, r) ← parseVal f r
      let (vs, r) ← parseLosers f r
      pure (v :: vs, r)
    | _ => some ([], cs)
def parseEntries : Nat → List Char → Option (List (String × Reg) × List Char)
  | 0, _ => none
  | f + 1, cs =>
    match cs with
    | '}' :: r => some ([], r)
    | 'K' :: r => do
      let (a, r) ← takeUntil ';' r
      let k ← hexString? a
      let (w, r) ← parseVal f r
      let (ls, r) ← parseLosers f r
      let (es, r) ← parseEntries f r
      pure ((k, .live w ls) :: es, r)
    | 'k' :: r => do
      let (a, r) ← takeUntil ';' r
      let k ← hexString? a
      let (es, r) ← parseEntries f r
      pure ((k, .dead) :: es, r)
    | _ => none
def parseElems : Nat → List Char → Option (List Reg × List Char)
  | 0, _ => none
  | f + 1, cs =>
    match cs with
    | ']' :: r => some ([], r)
    | '~' :: r => do
      let (rs, r) ← parseElems f r
      pure (.dead :: rs, r)
    | _ => do
      let (w, r) ← parseVal f cs
      let (ls, r) ← parseLosers f r
      let (rs, r) ← parseElems f r
      pure (.live w ls :: rs, r)
end

def parseSpec (s : String) : Option Val :=
  let cs := s.toList
  match parseVal (cs.length + 2) cs with
  | some (v, []) => some v
  | _ => none

/- registers reachable through winners that hold more than one value (`get_all(..).len() > 1`);
   shows that the harness really produced the conflicts the spec asks for -/
mutual
def conflicts : Val → Nat
  | .map es => conflictsEntries es
  | .list rs => conflictsRegs rs
  | _ => 0
def conflictsEntries : List (String × Reg) → Nat
  | [] => 0
  | (_, .live w ls) :: es => (if ls.isEmpty then 0 else 1) + conflicts w + conflictsEntries es
  | (_, .dead) :: es => conflictsEntries es
def conflictsRegs : List Reg → Nat
  | [] => 0
  | .live w ls :: rs => (if ls.isEmpty then 0 else 1) + conflicts w + conflictsRegs rs
  | .dead :: rs => conflictsRegs rs
end

def showLen : Option Nat → String
  | some n => toString n
  | none => "-"

def showEv : Ev → String
  | .unit => "N"
  | .bool true => "T"
  | .bool false => "F"
  | .i64 i => s!"i{i}"
  | .u64 n => s!"u{n}"
  | .u8 n => s!"b{n}"
  | .f64 b => "d" ++ hex16 b
  | .str s => "s" ++ hexOfString s
  | .mapStart l => "M" ++ showLen l
  | .key k => "K" ++ hexOfString k
  | .mapEnd => "m"
  | .seqStart l => "Q" ++ showLen l
  | .seqEnd => "q"

def exec (toks : List String) : List String :=
  match toks with
  | ["serde.doc", spec] =>
    match parseSpec spec with
    | none => ["bad-input"]
    | some v =>
      let evs := v.serialize
      [ "json " ++ (exportJson v).render,
        "events " ++ " ".intercalate (evs.map showEv),
        "lens " ++ (if lengthsTrue evs then "ok" else "bad"),
        s!"conflicts {conflicts v}" ]
  | ["serde.cli", hx] =>
    match unhx hx with
    | none => ["bad-input"]
    | some bs =>
      match String.fromUTF8? (ByteArray.mk bs.toArray) with
      | none => ["parse-error"]
      | some text =>
        match JsonParse.parse text with
        | none => ["parse-error"]
        | some j =>
          match cliRoundTrip j with
          | .ok j' => ["ok " ++ j'.render]
          | .error _ => ["import-error"]
  | _ => ["unknown-cmd"]

end Driver.Serde
