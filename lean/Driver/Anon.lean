import AmVerif.Model.Anon
import Driver.Crdt
/-
  Driver engine `anon` (C31), on the per-case state of the `crdt` engine.

  `anon.check enc origs anons`: the two change lists were announced by `crdt.def`.  The driver
  (i) reads the renaming ρ off the two op lists (operations paired positionally inside paired changes),
  (ii) evaluates the hypotheses of `C31.interp_commutes_with_renaming` on this instance and prints which
  hold, (iii) prints `shapeAt` of both documents at every heads set, computed with `Spec`.
-/
namespace Driver.Anon
open AmVerif AmVerif.Crdt AmVerif.Wire Driver.Crdt

def lookupD {α β : Type} [BEq α] (tbl : List (α × β)) (dflt : β) (a : α) : β :=
  match tbl.find? (fun p => p.1 == a) with
  | some p => p.2
  | none => dflt

def idPairs (o a : Op) : List (OpId × OpId) := o.ids.zip a.ids

def keyPair (o a : Op) : List (Bytes × Bytes) :=
  match o.key, a.key with
  | .map k, .map l => [(k, l)]
  | _, _ => []

def markPair (o a : Op) : List (Bytes × Bytes) :=
  match o.action, a.action with
  | .markBegin n _ _, .markBegin m _ _ => [(n, m)]
  | _, _ => []

def valPair (o a : Op) : List (OpId × Scalar) :=
  match a.action with
  | .put v => [(o.id, v)]
  | .markBegin _ v _ => [(o.id, v)]
  | _ => []

def incPair (o a : Op) : List (OpId × Int) :=
  match a.action with
  | .inc n => [(o.id, n)]
  | _ => []

/-- the renaming read off the paired operations (first occurrence wins; `image` below checks that
    the anonymised operations are exactly the image of the originals under it) -/
def renOf (cpairs : List (Change × Change)) (pairs : List (Op × Op)) : Ren :=
  let actors := cpairs.map (fun p => (p.1.actor, p.2.actor)) ++
    (pairs.flatMap (fun p => idPairs p.1 p.2)).map (fun q => (q.1.actor, q.2.actor))
  let keys := pairs.flatMap (fun p => keyPair p.1 p.2)
  let marks := pairs.flatMap (fun p => markPair p.1 p.2)
  let vals := pairs.flatMap (fun p => valPair p.1 p.2)
  let incs := pairs.flatMap (fun p => incPair p.1 p.2)
  { actor := fun a => lookupD actors a a
    key := fun k => lookupD keys k k
    mark := fun k => lookupD marks k k
    val := fun i v => lookupD vals v i
    inc := fun i n => lookupD incs n i }

def markNames (ops : List Op) : List Bytes :=
  ops.filterMap (fun o => match o.action with | .markBegin n _ _ => some n | _ => none)

def okbad (b : Bool) : String := if b then "ok" else "bad"

def render (b : Bytes) : String := String.ofList (b.map (fun x => Char.ofNat x.toNat))

def encOf (s : String) : Enc :=
  if s == "utf8" then .utf8 else if s == "utf16" then .utf16 else if s == "gc" then .gc else .cp

def exec (st : State) (toks : List String) : State × List String :=
  match toks with
  | ["anon.run", r] => (st, [s!"ok {(getReplica st r).applied.length}"])
  | ["anon.check", enc, os, as_] =>
    let hl (s : String) := if s == "-" then [] else s.splitOn ","
    match (hl os).mapM (lookup st), (hl as_).mapM (lookup st) with
    | some orig, some anon =>
      let e := encOf enc
      let cpairs := orig.zip anon
      let pairs := cpairs.flatMap (fun p => p.1.ops.zip p.2.ops)
      let ρ := renOf cpairs pairs
      let ops := orig.flatMap (·.ops)
      let image := orig.length == anon.length &&
        cpairs.all (fun p => p.2.ops == p.1.ops.map (mapOp ρ) && p.2.actor == ρ.actor p.1.actor && p.2.startOp == p.1.startOp)
      let actorsOk := actorMonoB ρ ops &&
        cpairs.all (fun p => cpairs.all (fun q => bytesLt (ρ.actor p.1.actor) (ρ.actor q.1.actor) == bytesLt p.1.actor q.1.actor))
      let keyinj := keyInjB ρ ops
      let names := markNames ops
      let markinj := names.all (fun n => names.all (fun m => n == m || !(ρ.mark n == ρ.mark m)))
      let tags := tagPresB tagOf ρ ops && decide (WidthPres (opWidth e true) ρ ops) && kindPresB ρ ops &&
        ops.all (fun o => match o.action with | .markBegin _ v _ => tagOf (ρ.val o.id v) == tagOf v | _ => true)
      let hyp := s!"hyp image={okbad image} actors={okbad actorsOk} keyinj={okbad keyinj} markinj={okbad markinj} tags={okbad tags}"
      -- graph isomorphism along the pairing
      let η (h : Hash) : Hash := lookupD (cpairs.map (fun p => (p.1.hash, p.2.hash))) h h
      let bad :=
        if orig.length != anon.length then ["change-count"] else
        (if cpairs.all (fun p => sortHashes (p.1.deps.map η) == sortHashes p.2.deps) then [] else ["deps"]) ++
        (if (anon.map (·.hash)).eraseDups.length != anon.length then ["hash-collision"] else []) ++
        (if cpairs.all (fun p => p.1.ops.length == p.2.ops.length) then [] else ["op-count"]) ++
        (if cpairs.all (fun p => p.1.seq == p.2.seq) then [] else ["seq"]) ++
        (if cpairs.all (fun p => p.1.startOp == p.2.startOp) then [] else ["start-op"])
      let graph := "graph " ++ (if bad.isEmpty then "ok" else joinWith "," bad)
      if orig.length != anon.length then (st, [hyp, graph, "apply-failed"]) else
      let da : Doc := ⟨orig, []⟩
      let db : Doc := ⟨anon, []⟩
      let W := opWidth e true
      -- long histories (the many-actors scenario): the first and the last four changes and every 16th one
      let n := orig.length
      let picked := (orig.zip (List.range n)).filter (fun p => n ≤ 80 || p.2 < 4 || p.2 + 4 ≥ n || p.2 % 16 == 0)
      let headSets := picked.map (fun p => [p.1.hash]) ++ [da.heads]
      let lines := (headSets.zip (List.range headSets.length)).map (fun (hs, i) =>
        let sa := render (shapeAt tagOf W da hs)
        let sb := render (shapeAt tagOf W db (hs.map η))
        if sa == sb then s!"at {i} {sa} eq" else s!"at {i} {sa} ne {sb}")
      (st, [hyp, graph] ++ lines)
    | _, _ => (st, ["bad-input"])
  | _ => (st, ["unknown-cmd"])

end Driver.Anon
