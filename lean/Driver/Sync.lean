import AmVerif.Model.SyncNet
import AmVerif.Model.SyncBound
import AmVerif.Model.Wire
/-
  Driver engine `sync`: one input line carries a whole schedule,
    `sync.run <peers> <step;step;…>`
  and the model prints one line per step (several for a quiesce step).  Step syntax (fields
  separated by `:`, hash lists by `,`):
    e:<p>:<key>:<val>:<fp>:<hash>:<deps>   local edit at p producing change <hash> with <deps>
    m:<a>:<b>                              a merges b's document (out of band)
    a:<p>:<hash>                           p applies the single change <hash> (out of band)
    g:<a>:<b>                              a generates for b (message appended to link a→b)
    d:<a>:<b>                              b receives the oldest message of link a→b
    x:<a>:<b>                              the connection a–b drops (queues discarded)
    c:<a>:<b>:<f|p|r>:<f|p|r>:<0|1>        (re)connect; state of a / of b: fresh | persisted | read-only; legacy link
    r:<a>:<b>:<0|1>                        set_read_only on a's state for b
    w:<p>                                  p loses its document, all its connections drop
    q:<bound>                              quiesce: rounds of generate+deliver until a quiet round
    b:<a>:<b>                              the C20 round bound of the pair (a,b): `Prog.missingDocs` + 4
-/
namespace Driver.Sync
open AmVerif AmVerif.Wire AmVerif.Sync

def short (h : Hash) : String := hexOfBytes (h.take 4)

def hl (hs : List Hash) : String :=
  if hs.isEmpty then "-" else ",".intercalate (hs.map short)

def ohl : Option (List Hash) → String
  | none => "none"
  | some hs => hl hs

def showHave (h : Have) : String := s!"{hl h.lastSync}/{hx (Bloom.toBytes h.bloom)}"

def showHaves (hs : List Have) : String :=
  if hs.isEmpty then "-" else "|".intercalate (hs.map showHave)

def b01 (b : Bool) : String := if b then "1" else "0"

def showCap : Cap → String
  | .messageV1 => "v1"
  | .messageV2 => "v2"
  | .syncReset => "sr"

def showCaps : Option (List Cap) → String
  | none => "none"
  | some [] => "-"
  | some cs => "+".intercalate (cs.map showCap)

def showState (s : State) : String :=
  s!"sh={hl s.sharedHeads} ls={hl s.lastSentHeads} th={ohl s.theirHeads} tn={ohl s.theirNeed} " ++
  s!"tv={match s.theirHave with | none => "none" | some hs => showHaves hs} sent={hl s.sentHashes} " ++
  s!"if={b01 s.inFlight} hr={b01 s.haveResponded} caps={showCaps s.theirCaps} " ++
  s!"ro={b01 s.readOnly} pro={b01 s.peerReadOnly} nr={b01 s.needsReset}"

def showDoc (d : Doc) : String :=
  s!"heads={hl d.heads} n={d.len} miss={hl (d.getMissingDeps [])}"

def showMsg (m : Message) : String :=
  s!"v={match m.version with | .v1 => "1" | .v2 => "2"} heads={hl m.heads} need={hl m.need} " ++
  s!"have={showHaves m.have_} chg={hl (sortDedup (m.changes.map (·.hash)))} nch={m.chunks} " ++
  s!"flags={match m.flags with | none => "none" | some f => toString f}"

def showGen (a b : Nat) (m : Option Message) (s : State) : String :=
  match m with
  | none => s!"g {a} {b} none {showState s}"
  | some m => s!"g {a} {b} msg {showMsg m} {showState s}"

def showDeliver (a b : Nat) (d : Doc) (s : State) : String :=
  s!"d {a} {b} {showDoc d} {showState s}"

def showEvent : Net.Event → String
  | .generated a b m s => showGen a b m s
  | .delivered a b _ d s => showDeliver a b d s

def parseConn : String → Option Conn
  | "f" => some .fresh
  | "p" => some .persisted
  | "r" => some .readOnly
  | _ => none

def parseBool : String → Option Bool
  | "0" => some false
  | "1" => some true
  | _ => none

def step (net : Net) (s : String) : Net × List String :=
  let bad := (net, ["bad-step"])
  match s.splitOn ":" with
  | ["e", p, _key, _val, isFp, hash, deps] =>
    match p.toNat?, parseBool isFp, unhx hash, unhxList deps with
    | some p, some isFp, some hash, some deps =>
      let net := net.edit p ⟨hash, deps⟩ isFp
      (net, [s!"e {p} ok {showDoc (net.docs p)}"])
    | _, _, _, _ => bad
  | ["m", a, b] =>
    match a.toNat?, b.toNat? with
    | some a, some b =>
      let net := net.merge a b
      (net, [s!"m {a} {showDoc (net.docs a)}"])
    | _, _ => bad
  | ["a", p, hash] =>
    match p.toNat?, unhx hash with
    | some p, some hash =>
      let net := net.applyOne p hash
      (net, [s!"a {p} {showDoc (net.docs p)}"])
    | _, _ => bad
  | ["g", a, b] =>
    match a.toNat?, b.toNat? with
    | some a, some b =>
      let (net, m) := net.gen a b
      (net, [showGen a b m (net.st a b)])
    | _, _ => bad
  | ["d", a, b] =>
    match a.toNat?, b.toNat? with
    | some a, some b =>
      match net.deliver a b with
      | (net, some _) => (net, [showDeliver a b (net.docs b) (net.st b a)])
      | (net, none) => (net, [s!"d {a} {b} empty"])
    | _, _ => bad
  | ["x", a, b] =>
    match a.toNat?, b.toNat? with
    | some a, some b => (net.dropLink a b, [s!"x {a} {b}"])
    | _, _ => bad
  | ["c", a, b, ca, cb, leg] =>
    match a.toNat?, b.toNat?, parseConn ca, parseConn cb, parseBool leg with
    | some a, some b, some ca, some cb, some leg =>
      let net := net.connect a b ca cb leg
      (net, [s!"c {a} {b} {showState (net.st a b)} / {showState (net.st b a)}"])
    | _, _, _, _, _ => bad
  | ["r", a, b, v] =>
    match a.toNat?, b.toNat?, parseBool v with
    | some a, some b, some v =>
      let net := net.setReadOnly a b v
      (net, [s!"r {a} {b} {showState (net.st a b)}"])
    | _, _, _ => bad
  | ["w", p] =>
    match p.toNat? with
    | some p => (net.loseData p, [s!"w {p}"])
    | none => bad
  | ["b", a, b] =>
    match a.toNat?, b.toNat? with
    | some a, some b =>
      let k := Prog.missingDocs (net.docs a) (net.docs b)
      (net, [s!"b {a} {b} missing={k} bound={k + 4}"])
    | _, _ => bad
  | ["q", bound] =>
    match bound.toNat? with
    | some bound =>
      let (net, evs, rounds, quiet) := net.quiesce bound 0 []
      let heads := ";".intercalate ((List.range net.n).map (fun p => hl (net.docs p).heads))
      (net, evs.map showEvent ++ [s!"q rounds={rounds} quiet={b01 quiet} heads={heads}"])
    | none => bad
  | _ => bad

def runSteps : List String → Net → List String → List String
  | [], _, acc => acc.reverse
  | s :: rest, net, acc =>
    let (net, out) := step net s
    runSteps rest net (out.reverse ++ acc)

def exec (toks : List String) : List String :=
  match toks with
  | ["sync.run", n, steps] =>
    match n.toNat? with
    | some n => runSteps (steps.splitOn ";") (Net.init n) []
    | none => ["bad-input"]
  | _ => ["unknown-cmd"]

end Driver.Sync
