import AmVerif.Model.HexaneColumn
import AmVerif.Model.Wire
/-
  Model side of the `hexane` engine: executes `hexane.prog` / `hexane.load` / `hexane.probe` lines
  on the list-level column model and the codec model and prints the same `<` lines as
  `harness/src/engines/hexane.rs`.
-/
namespace Driver.Hexane
open AmVerif AmVerif.Hexane AmVerif.Wire

def showMax : Nat := 64
def bigLen : Nat := 4096

/-- FNV-1a 64 over the UTF-8 bytes -/
def fnv (s : String) : UInt64 :=
  s.toUTF8.foldl (fun h b => (h ^^^ b.toUInt64) * 0x100000001b3) 0xcbf29ce484222325

def hex16 (x : UInt64) : String :=
  String.ofList ((List.range 16).map (fun i => hexDigit ((x.toNat / 16 ^ (15 - i)) % 16)))

def showStrs (items : List String) : String :=
  if items.isEmpty then "_"
  else
    let joined := ",".intercalate items
    if items.length ≤ showMax then joined else s!"#{items.length}:{hex16 (fnv joined)}"

def showIdx (xs : List Nat) : String := showStrs (xs.map toString)

/-- what the engine needs to know about one column kind, at the level of its element type `β` -/
structure Elem (β : Type) where
  parse : String → Option β
  shw : β → String
  encode : List β → Bytes
  /-- run form of the loaded column (before `post`), or the failure -/
  load : Option Nat → Bytes → Res (List (Nat × β))
  /-- delta columns: realise the running sum over the expanded deltas -/
  post : List β → List β := id
  wt : Option (β → Int) := none
  /-- bound of the (unsigned) prefix accumulator type; `none`: signed, no index-for-prefix -/
  prefixLimit : Option Nat := none
  find : List β → β → Res (List Nat)
  frange : Option (List β → Int → Int → List Nat) := none
  hasFill : Bool := false

def itemRuns {α} : List (Item α) → List (Nat × Option α)
  | [] => []
  | .head _ :: r => itemRuns r
  | .litv v :: r => (1, some v) :: itemRuns r
  | .run n v :: r => (n, some v) :: itemRuns r
  | .null n :: r => (n, none) :: itemRuns r

def mapRes {α β} (f : α → β) : Res α → Res β
  | .ok a => .ok (f a)
  | .err e => .err e
  | .panic p => .panic p

def parseOpt {α} (p : String → Option α) (nullable : Bool) (s : String) : Option (Option α) :=
  if s == "n" then (if nullable then some none else none) else (p s).map some

def showOpt {α} (sh : α → String) : Option α → String
  | none => "n"
  | some v => sh v

def parseNatBelow (bound : Nat) (s : String) : Option Nat :=
  match s.toNat? with
  | some n => if n < bound then some n else none
  | none => none

def parseIntIn (lo hi : Int) (s : String) : Option Int :=
  match s.toInt? with
  | some z => if lo ≤ z ∧ z ≤ hi then some z else none
  | none => none

/-- plain / prefix RLE column of value type α -/
def rleElem {α} [DecidableEq α] (c : ValCodec α) (nullable : Bool) (w : Weight) (num : α → Int)
    (p : String → Option α) (sh : α → String) (pre : Bool) (limit : Option Nat) : Elem (Option α) :=
  { parse := parseOpt p nullable
    shw := showOpt sh
    encode := rleEncode c
    load := fun expected bs => mapRes itemRuns (rleLoad c nullable w num expected bs)
    wt := if pre then some (fun x => match x with | some v => num v | none => 0) else none
    prefixLimit := limit
    find := fun xs v => .ok (findAll xs v)
    hasFill := true }

def deltaElem (nullable : Bool) (lo hi : Int) : Elem (Option Int) :=
  { parse := parseOpt (parseIntIn lo hi) nullable
    shw := showOpt toString
    encode := deltaEncode
    load := fun expected bs => mapRes itemRuns (rleLoad cI64 nullable (.delta lo hi) id expected bs)
    post := fun ds => realise ds 0
    find := deltaFind
    frange := some findRange }

def boolRunsOf : List Nat → Bool → List (Nat × Bool)
  | [], _ => []
  | n :: r, b => (n, b) :: boolRunsOf r (!b)

def boolElem (pre : Bool) : Elem Bool :=
  { parse := fun s => if s == "t" then some true else if s == "f" then some false else none
    shw := fun b => if b then "t" else "f"
    encode := boolEncode
    load := fun expected bs => mapRes (fun runs => boolRunsOf runs false) (boolLoad pre expected bs)
    wt := if pre then some (fun b => if b then 1 else 0) else none
    prefixLimit := if pre then some two64 else none
    find := fun xs v => .ok (findAll xs v)
    hasFill := true }

def rawElem : Elem UInt8 :=
  { parse := fun s => (parseNatBelow 256 s).map UInt8.ofNat
    shw := fun b => toString b.toNat
    encode := rawEncode
    load := fun expected bs =>
      match expected with
      | some n => if bs.length ≠ n then .err .length else .ok (bs.map (fun b => (1, b)))
      | none => .ok (bs.map (fun b => (1, b)))
    find := fun xs v => .ok (findAll xs v) }

def parseHexBytes (s : String) : Option Bytes := unhx s
def parseHexStr (s : String) : Option Bytes :=
  match unhx s with
  | some b => if validUtf8 b then some b else none
  | none => none

def i64lo : Int := -(two63 : Int)
def i64hi : Int := (two63 : Int) - 1

/-- run `k` on the element kind selected by the two kind tokens -/
def withKind {γ} (ct vt : String) (k : {β : Type} → [DecidableEq β] → Elem β → γ) (unknown : γ) : γ :=
  let u32 := parseNatBelow (2 ^ 32)
  let u64 := parseNatBelow two64
  let i64 := parseIntIn i64lo i64hi
  let nat (n : Nat) : Int := n
  let shN (n : Nat) : String := toString n
  let shI (z : Int) : String := toString z
  match ct, vt with
  | "col", "u32" => k (rleElem cU32 false .len nat u32 shN false none)
  | "col", "u64" => k (rleElem cU64 false .len nat u64 shN false none)
  | "col", "usize" => k (rleElem cU64 false .len nat u64 shN false none)
  | "col", "i64" => k (rleElem cI64 false .len id i64 shI false none)
  | "col", "str" => k (rleElem cStr false .len (fun _ => 0) parseHexStr hx false none)
  | "col", "bytes" => k (rleElem cBytes false .len (fun _ => 0) parseHexBytes hx false none)
  | "col", "bool" => k (boolElem false)
  | "col", "ou32" => k (rleElem cU32 true .len nat u32 shN false none)
  | "col", "ou64" => k (rleElem cU64 true .len nat u64 shN false none)
  | "col", "ousize" => k (rleElem cU64 true .len nat u64 shN false none)
  | "col", "oi64" => k (rleElem cI64 true .len id i64 shI false none)
  | "col", "ostr" => k (rleElem cStr true .len (fun _ => 0) parseHexStr hx false none)
  | "col", "obytes" => k (rleElem cBytes true .len (fun _ => 0) parseHexBytes hx false none)
  | "pre", "u32" => k (rleElem cU32 false (.prefixU two64) nat u32 shN true (some two64))
  | "pre", "u64" => k (rleElem cU64 false .prefixWide nat u64 shN true (some (2 ^ 128)))
  | "pre", "i64" => k (rleElem cI64 false .prefixWide id i64 shI true none)
  | "pre", "ou32" => k (rleElem cU32 true (.prefixU two64) nat u32 shN true (some two64))
  | "pre", "ou64" => k (rleElem cU64 true .prefixWide nat u64 shN true (some (2 ^ 128)))
  | "pre", "oi64" => k (rleElem cI64 true .prefixWide id i64 shI true none)
  | "pre", "bool" => k (boolElem true)
  | "delta", "u32" => k (deltaElem false 0 (2 ^ 32 - 1))
  | "delta", "u64" => k (deltaElem false 0 i64hi)
  | "delta", "usize" => k (deltaElem false 0 i64hi)
  | "delta", "i32" => k (deltaElem false (-(2 ^ 31)) (2 ^ 31 - 1))
  | "delta", "i64" => k (deltaElem false i64lo i64hi)
  | "delta", "ou32" => k (deltaElem true 0 (2 ^ 32 - 1))
  | "delta", "ou64" => k (deltaElem true 0 i64hi)
  | "delta", "ousize" => k (deltaElem true 0 i64hi)
  | "delta", "oi32" => k (deltaElem true (-(2 ^ 31)) (2 ^ 31 - 1))
  | "delta", "oi64" => k (deltaElem true i64lo i64hi)
  | "raw", "u8" => k rawElem
  | _, _ => unknown

def parseList {β} (E : Elem β) (s : String) : Option (List β) :=
  if s == "_" then some [] else (s.splitOn ",").mapM E.parse

def showList {β} (E : Elem β) (xs : List β) : String := showStrs (xs.map E.shw)

def showRuns {β} [DecidableEq β] (E : Elem β) (xs : List β) : String :=
  showStrs ((groups xs).map (fun (n, v) => s!"{n}*{E.shw v}"))

/-- a query token → its result text; `none`: not a query -/
def query {β} [DecidableEq β] (E : Elem β) (xs : List β) (p : List String) : Option String :=
  match p with
  | ["g", i] => i.toNat?.map (fun i => match get xs i with | some v => E.shw v | none => "none")
  | ["rg", a, b] => match a.toNat?, b.toNat? with
    | some a, some b => some (showList E (range xs a b))
    | _, _ => none
  | ["runs"] => some (showRuns E xs)
  | ["fv", v] => (E.parse v).map (fun v => match E.find xs v with
    | .ok r => showIdx r
    | _ => "panic")
  | ["ps", i] => match E.wt, i.toNat? with
    | some wt, some i => some (toString (getPrefix wt xs i))
    | none, some _ => some "na"
    | _, _ => none
  | ["sr", a, b] => match E.wt, a.toNat?, b.toNat? with
    | some wt, some a, some b => some (toString (sumRange wt xs a b))
    | none, some _, some _ => some "na"
    | _, _, _ => none
  | [tag, t] =>
    if tag == "ip" ∨ tag == "it" then
      match t.toNat? with
      | none => none
      | some t =>
        match E.wt, E.prefixLimit with
        | some wt, some lim =>
          if t < lim then
            let w := fun x => (wt x).toNat
            some (toString (if tag == "it" then indexForTotal w xs t else indexForPrefix w xs t))
          else some "na"
        | _, _ => some "na"
    else none
  | ["fr", lo, hi] => match lo.toInt?, hi.toInt? with
    | some lo, some hi => match E.frange with
      | some f => some (showIdx (f xs lo hi))
      | none => some "na"
    | _, _ => none
  | _ => none

/-- an edit token; `none`: not an edit token -/
def edit {β} (E : Elem β) (xs : List β) (p : List String) : Option (Res (List β)) :=
  match p with
  | ["s", i, d, vs] => match i.toNat?, d.toNat?, parseList E vs with
    | some i, some d, some vs => some (splice xs i d vs)
    | _, _, _ => none
  | ["i", i, v] => match i.toNat?, E.parse v with
    | some i, some v => some (insert xs i v)
    | _, _ => none
  | ["r", i] => i.toNat?.map (remove xs)
  | ["p", v] => (E.parse v).map (push xs)
  | ["t", n] => n.toNat?.map (truncate xs)
  | ["c"] => some (clear xs)
  | _ => none

def runProg {β} [DecidableEq β] (E : Elem β) : List String → List β → List String → List String
  | [], xs, out => (s!"ok {hx (E.encode xs)} {showList E xs}" :: out).reverse
  | tok :: rest, xs, out =>
    let p := tok.splitOn ":"
    match edit E xs p with
    | some (.ok xs') => runProg E rest xs' out
    | some _ => ["panic"]
    | none =>
      match query E xs p with
      | some r => runProg E rest xs (s!"q {tok} {r}" :: out)
      | none => ["bad-input"]

def totalLen {β} (runs : List (Nat × β)) : Nat := (runs.map (·.1)).sum

def runLoad {β} [DecidableEq β] (E : Elem β) (bs : Bytes) (opts : List String) : List String :=
  let lenOpt : Option Nat := opts.findSome? (fun o => if o.startsWith "len=" then (o.drop 4).toString.toNat? else none)
  let fillOpt : Option String := opts.findSome? (fun o => if o.startsWith "fill=" then some (o.drop 5).toString else none)
  let res : Option (Res (List (Nat × β)) × Bool) :=
    match lenOpt, fillOpt with
    | some n, some fv =>
      if !E.hasFill then none
      else match E.parse fv with
        | none => none
        | some v =>
          if bs.isEmpty then
            -- `Column::fill` asserts `len <= i64::MAX`
            -- and `WF::compute` of the one slab multiplies in the prefix accumulator type
            let overflow := match E.wt, E.prefixLimit with
              | some wt, some lim => decide ((wt v).toNat * n ≥ lim)
              | _, _ => false
            some (if n = 0 then (.ok [], true)
                  else if ¬ (n < two63) then (.panic .assertFailed, true)
                  else if overflow then (.panic .narrowing, true)
                  else (.ok [(n, v)], true))
          else some (E.load (some n) bs, false)
    | some n, none => some (E.load (some n) bs, bs.isEmpty)
    | none, _ => some (E.load none bs, false)
  match res with
  | none => ["na"]
  | some (.err e, _) =>
    [match e with | .num => "err num" | .utf8 => "err utf8" | .value => "err value" | .length => "err length" | .format => "err format"]
  | some (.panic _, _) => ["panic"]
  | some (.ok runs, filled) =>
    let n := totalLen runs
    if n > bigLen then [s!"ok big {n}"]
    else
      let vals := E.post (expandRuns runs)
      let canon := E.encode vals
      let third := if canon == bs ∨ filled then hx canon else "noncanon"
      [s!"ok {n} {showList E vals} {third}"]

def exec (toks : List String) : List String :=
  match toks with
  | "hexane.prog" :: ct :: vt :: prog =>
    withKind ct vt (fun E => runProg E prog [] []) ["unknown-kind"]
  | "hexane.load" :: ct :: vt :: bytes :: opts =>
    match unhx bytes with
    | none => ["bad-input"]
    | some bs => withKind ct vt (fun E => runLoad E bs opts) ["unknown-kind"]
  | ["hexane.probe", _] => ["done"]
  | _ => ["unknown-cmd"]

end Driver.Hexane
