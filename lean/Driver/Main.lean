import Driver.Bloom
import Driver.Hexane
import Driver.Recon
import Driver.Ids
import Driver.Serde
import Driver.Sync
import Driver.Crdt
import Driver.Codec
import Driver.CrdtRich
import Driver.CrdtPatch
import Driver.CrdtX
import Driver.CrdtStore
import Driver.CrdtDoc
import Driver.Capi
import Driver.Anon
/-
  amdriver: replays the `>` lines of a harness trace through the executable model and prints the
  model's `<` lines.  `#` lines are copied so the two streams stay aligned by case.
-/
open AmVerif

/-- stateless engines: one line in, lines out -/
def dispatch (toks : List String) : List String :=
  match toks with
  | [] => ["bad-input"]
  | cmd :: _ =>
    match (cmd.splitOn ".").head? with
    | some "bloom" => Driver.Bloom.exec toks
    | some "hexane" => Driver.Hexane.exec toks
    | some "recon" => Driver.Recon.exec toks
    | some "ids" => Driver.Ids.exec toks
    | some "serde" => Driver.Serde.exec toks
    | some "sync" => Driver.Sync.exec toks
    | some "codec" => Driver.Codec.exec toks
    | _ => ["unknown-engine"]

/-- per-case state of the stateful engines (reset at every `# case` line) -/
structure DState where
  crdt : Driver.Crdt.State := {}

def step (st : DState) (toks : List String) : DState × List String :=
  match toks with
  | [] => (st, ["bad-input"])
  | cmd :: _ =>
    match (cmd.splitOn ".").head? with
    | some "crdt" =>
      let (c, out) :=
        if cmd.startsWith "crdt.rt." then Driver.CrdtRich.exec st.crdt toks
        else if cmd.startsWith "crdt.patch." then Driver.CrdtPatch.exec st.crdt toks
        else if cmd.startsWith "crdt.x." then Driver.CrdtX.exec st.crdt toks
        else if cmd.startsWith "crdt.st." then Driver.CrdtStore.exec st.crdt toks
        else if cmd.startsWith "crdt.dc." then Driver.CrdtDoc.exec st.crdt toks
        else Driver.Crdt.exec st.crdt toks
      ({ st with crdt := c }, out)
    | some "anon" =>
      let (c, out) := Driver.Anon.exec st.crdt toks
      ({ st with crdt := c }, out)
    | some "capi" =>
      let (c, out) := Driver.Capi.exec st.crdt toks
      ({ st with crdt := c }, out)
    | _ => (st, dispatch toks)

partial def loop (h : IO.FS.Stream) (out : IO.FS.Stream) (st : DState) : IO Unit := do
  let line ← h.getLine
  if line.isEmpty then return ()
  let line := (line.dropEndWhile (fun c => c == '\n' || c == '\r')).toString
  if line.startsWith "> " then
    out.putStrLn line
    let (st', ls) := step st (Wire.splitTokens (line.drop 2).toString)
    for l in ls do
      out.putStrLn ("< " ++ l)
    loop h out st'
  else if line.startsWith "# case" then
    out.putStrLn line
    loop h out {}
  else
    loop h out st

def main : IO Unit := do
  let stdin ← IO.getStdin
  let stdout ← IO.getStdout
  loop stdin stdout {}
