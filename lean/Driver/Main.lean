import Driver.Bloom
/-
  amdriver: replays the `>` lines of a harness trace through the executable model and prints the
  model's `<` lines.  `#` lines are copied so the two streams stay aligned by case.
-/
open AmVerif

def dispatch (toks : List String) : List String :=
  match toks with
  | [] => ["bad-input"]
  | cmd :: _ =>
    match (cmd.splitOn ".").head? with
    | some "bloom" => Driver.Bloom.exec toks
    | _ => ["unknown-engine"]

partial def loop (h : IO.FS.Stream) (out : IO.FS.Stream) : IO Unit := do
  let line ← h.getLine
  if line.isEmpty then return ()
  let line := (line.dropEndWhile (fun c => c == '\n' || c == '\r')).toString
  if line.startsWith "> " then
    out.putStrLn line
    for l in dispatch (Wire.splitTokens (line.drop 2).toString) do
      out.putStrLn ("< " ++ l)
  else if line.startsWith "# case" then
    out.putStrLn line
  loop h out

def main : IO Unit := do
  let stdin ← IO.getStdin
  let stdout ← IO.getStdout
  loop stdin stdout
