import Driver.Crdt
import AmVerif.Model.StoreLocal
/- Extension of the `crdt` driver engine: commands `crdt.st.*` (concrete op store, M4) on the same per-case state. -/
namespace Driver.CrdtStore
open AmVerif AmVerif.Crdt AmVerif.Wire Driver.Crdt

/-- the model store of a replica: `insertRemote` folded over the ops of the applied changes in
    application order; `none` when the model predicts a panic of `BatchApply` -/
def storeOf (st : State) (r : String) : Option Store :=
  let w := opWidth st.enc true
  ((getReplica st r).applied.flatMap (·.ops)).foldl
    (fun acc o => match acc with
      | none => none
      | some s => match insertRemoteO w s o with | .ok s' => some s' | _ => none)
    (some [])

def pendingOps (st : State) (r : String) : List Op :=
  match st.txs.find? (fun p => p.1 == r) with
  | some (_, t) => t.pending
  | none => []

/-- the model store inside an open transaction: the committed store, then the pending ops through the
    LOCAL path (`insertLocal`), with the undo records `rollback` would use -/
def storeWithTx (st : State) (r : String) : Option (Store × Store × List LocalUndo) :=
  match storeOf st r with
  | none => none
  | some base =>
    let w := opWidth st.enc true
    let l := insertLocalAll w base (pendingOps st r)
    some (base, l.1, l.2)

def exec (st : State) (toks : List String) : State × List String :=
  match toks with
  -- the rows of the op store with successor lists and the three index columns.  `idx=`: the
  -- incrementally maintained columns equal their from-scratch definition.  Inside an open transaction
  -- the pending ops went through the local path; `lr=`: the same ops through `insertRemote` give the
  -- same store (C03); `rb=`: undoing them with their undo records gives back the committed store (C28);
  -- `lp=`: the pending ops satisfy the hypotheses of `C03_store_local_eq_remote` (greatest id, `LocalPreds`)
  | ["crdt.st.dump", r] =>
    match storeWithTx st r with
    | none => (st, ["panic"])
    | some (base, s, undo) =>
      let w := opWidth st.enc true
      let pend := pendingOps st r
      let tail :=
        if pend.isEmpty then "" else
          let remote := pend.foldl (insertRemote w) base
          s!" lr={if remote == s then "ok" else "DIFF"} rb={if undoAll undo s == base then "ok" else "DIFF"} lp={if localTxOkB w base pend then "ok" else "NO"}"
      (st, [s!"{showStore s} idx={if indexOk w s then "ok" else "BAD"}{tail}"])
  -- direct-oracle commands of the harness (the implementation alone)
  | ["crdt.st.snap", _] => (st, ["ok"])
  | ["crdt.st.rbcheck", _] => (st, ["ok"])
  -- the document read from the store rows only
  | ["crdt.st.state", r] =>
    match storeWithTx st r with
    | none => (st, ["panic"])
    | some (_, s, _) =>
      (st, [storeShowDoc s (((getReplica st r).applied.flatMap (·.ops)).length + (pendingOps st r).length + 1)])
  -- the hypotheses of the refinement theorems (`Admissible`, `PredsOk`) evaluated on the op list of the
  -- replica in application order: every history the library makes must satisfy them
  | ["crdt.st.adm", r] =>
    let ops := (getReplica st r).applied.flatMap (·.ops)
    (st, [s!"adm={if admissibleB ops then "ok" else "NO"} preds={if predsOkB ops then "ok" else "NO"}"])
  | _ => (st, ["unknown-cmd"])

end Driver.CrdtStore
