import Driver.Crdt
import AmVerif.Model.Store
/- Extension of the `crdt` driver engine: commands `crdt.st.*` (concrete op store, M4) on the same per-case state. -/
namespace Driver.CrdtStore
open AmVerif AmVerif.Crdt AmVerif.Wire Driver.Crdt

/-- the model store of a replica: `insertRemote` folded over the ops of the applied changes in
    application order; `none` when the model predicts a panic of `BatchApply` -/
def storeOf (st : State) (r : String) : Option Store :=
  let w := opWidth st.enc true
  ((getReplica st r).applied.flatMap (·.ops)).foldl
    (fun acc o => match acc with
      | none => none
      | some s => match insertRemoteO w s o with | .ok s' => some s' | _ => none)
    (some [])

def hasPending (st : State) (r : String) : Bool :=
  match st.txs.find? (fun p => p.1 == r) with
  | some (_, t) => !t.pending.isEmpty
  | none => false

def exec (st : State) (toks : List String) : State × List String :=
  match toks with
  -- the rows of the op store with successor lists and the three index columns; `idx=` says whether
  -- the incrementally maintained columns equal their from-scratch definition
  | ["crdt.st.dump", r] =>
    if hasPending st r then (st, ["pending"]) else
    match storeOf st r with
    | none => (st, ["panic"])
    | some s =>
      let w := opWidth st.enc true
      (st, [s!"{showStore s} idx={if indexOk w s then "ok" else "BAD"}"])
  -- the document read from the store rows only
  | ["crdt.st.state", r] =>
    if hasPending st r then (st, ["pending"]) else
    match storeOf st r with
    | none => (st, ["panic"])
    | some s => (st, [storeShowDoc s (((getReplica st r).applied.flatMap (·.ops)).length + 1)])
  -- the hypotheses of the refinement theorems (`Admissible`, `PredsOk`) evaluated on the op list of the
  -- replica in application order: every history the library makes must satisfy them
  | ["crdt.st.adm", r] =>
    let ops := (getReplica st r).applied.flatMap (·.ops)
    (st, [s!"adm={if admissibleB ops then "ok" else "NO"} preds={if predsOkB ops then "ok" else "NO"}"])
  | _ => (st, ["unknown-cmd"])

end Driver.CrdtStore
