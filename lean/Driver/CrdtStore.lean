import Driver.Crdt
/- Extension of the `crdt` driver engine: commands `crdt.st.*` (concrete op store, M4) on the same per-case state. -/
namespace Driver.CrdtStore
open AmVerif AmVerif.Crdt AmVerif.Wire Driver.Crdt

def exec (st : State) (toks : List String) : State × List String :=
  match toks with
  | _ => (st, ["unknown-cmd"])

end Driver.CrdtStore
