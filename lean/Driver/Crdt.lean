import AmVerif.Model.Graph
import AmVerif.Model.Chunk
import AmVerif.Model.Wire
/-
  Driver engine `crdt`: replicas as M5 documents over a changes of changes announced by
  `crdt.def`; state reads are `Spec` interpretations of the applied op set.
-/
namespace Driver.Crdt
open AmVerif AmVerif.Crdt AmVerif.Wire

structure State where
  changes : List Change := []
  replicas : List (String × Doc) := []
  files : List (String × Bytes) := []
  /-- document / bundle chunks announced by the harness: chunk hash ↦ hashes of the changes inside -/
  docChunks : List (Bytes × List Hash) := []
  deriving Inhabited

def parseId (s : String) : Option OpId :=
  match s.splitOn "@" with
  | [c, a] => do
    let ctr ← c.toNat?
    let actor ← bytesOfHex a
    pure ⟨ctr, actor⟩
  | _ => none

def parseObj (s : String) : Option ObjId :=
  if s == "_" then some .root else (parseId s).map .id

def parseInt (s : String) : Option Int := s.toInt?

def parseScalar (s : String) : Option Scalar :=
  let rest := (s.drop 1).toString
  match s.toList.head? with
  | some 'n' => some .null
  | some 'b' => some (.bool (rest == "1"))
  | some 'i' => (parseInt rest).map .int
  | some 'u' => rest.toNat?.map .uint
  | some 'f' => rest.toNat?.map .f64
  | some 's' => (bytesOfHex rest).map .str
  | some 'x' => (bytesOfHex rest).map .bytes
  | some 'c' => (parseInt rest).map .counter
  | some 't' => (parseInt rest).map .timestamp
  | some 'k' =>
    match rest.splitOn "." with
    | [t, b] => do
      let ty ← t.toNat?
      let bs ← bytesOfHex b
      pure (.unknown ty bs)
    | _ => none
  | _ => none

def parseKey (s : String) : Option Key :=
  let rest := (s.drop 1).toString
  match s.toList.head? with
  | some 'm' => (bytesOfHex rest).map .map
  | some 'h' => some .head
  | some 'e' => (parseId rest).map .elem
  | _ => none

def parseObjType (s : String) : Option ObjType :=
  match s with
  | "M" => some .map | "L" => some .list | "T" => some .text | "B" => some .table | _ => none

def parseAction (s : String) : Option Action :=
  if s.startsWith "mk" then (parseObjType (s.drop 2).toString).map .make
  else if s.startsWith "inc" then (parseInt (s.drop 3).toString).map .inc
  else if s.startsWith "mb" then
    match (s.drop 2).toString.splitOn "." with
    | [name, ex, v] => do
      let n ← bytesOfHex name
      let sv ← parseScalar v
      pure (.markBegin n sv (ex == "1"))
    | _ => none
  else if s.startsWith "me" then some (.markEnd ((s.drop 2).toString == "1"))
  else if s == "d" then some .del
  else if s.startsWith "p" then (parseScalar (s.drop 1).toString).map .put
  else none

def parseIdList (s : String) : Option (List OpId) :=
  if s == "-" then some [] else (s.splitOn ",").mapM parseId

/-- `<id>/<obj>/<key>/<insert>/<action>/<preds>` -/
def parseOp (s : String) : Option Op :=
  match s.splitOn "/" with
  | [id, obj, key, ins, act, pred] => do
    let id ← parseId id
    let obj ← parseObj obj
    let key ← parseKey key
    let act ← parseAction act
    let pred ← parseIdList pred
    pure ⟨id, obj, key, ins == "1", act, pred⟩
  | _ => none

def parseOps (s : String) : Option (List Op) :=
  if s == "-" then some [] else (s.splitOn ";").mapM parseOp

def getReplica (st : State) (r : String) : Doc :=
  match st.replicas.find? (fun p => p.1 == r) with
  | some p => p.2
  | none => Doc.empty

def setReplica (st : State) (r : String) (d : Doc) : State :=
  { st with replicas := (r, d) :: st.replicas.filter (fun p => p.1 != r) }

def lookup (st : State) (h : String) : Option Change :=
  match unhx h with
  | some hb => st.changes.find? (fun c => c.hash == hb)
  | none => none

def showHashes (hs : List Hash) : String :=
  if hs.isEmpty then "-" else joinWith "," (hs.map hexOfBytes)

def summary (d : Doc) : String :=
  s!"heads={showHashes d.heads} missing={showHashes (d.missingDeps [])} applied={d.applied.length}"

/-- the changes a loaded chunk contributes (change chunks by their hash, document and bundle chunks
    through the announced table) -/
def chunkChanges (st : State) (c : Chunk.Chunk) : Option (List Change) :=
  if c.ty = 1 || c.ty = 2 then (st.changes.find? (fun x => x.hash == c.hash)).map (fun x => [x])
  else
    match st.docChunks.find? (fun p => p.1 == c.hash) with
    | none => none
    | some p => p.2.mapM (fun h => st.changes.find? (fun x => x.hash == h))

/-- `load_with_options` above the chunk level: document chunk first ⇒ reconstructed document, then
    every later chunk's changes through `apply_changes`; the `MissingDeps` rule for change-first files -/
def loadDoc (st : State) (mode : Chunk.OnPartial) (data : Bytes) : Option (Except Unit Doc) :=
  if data.isEmpty then some (.ok Doc.empty) else
  match Chunk.parseChunk (fun _ _ => true) data with
  | .error _ => some (.error ())
  | .ok (first, rest) =>
    if !first.checksumValid then some (.error ()) else
    let l := Chunk.loadChunks (fun _ _ => true) (rest.length + 1) rest []
    if l.error.isSome && mode == .error then some (.error ()) else
    match chunkChanges st first, l.chunks.mapM (chunkChanges st) with
    | some fc, some rcs =>
      let firstIsDoc := first.ty = 0
      let d0 : Doc := if firstIsDoc then { applied := fc, queue := [] } else Doc.empty
      -- a later document chunk whose heads are all known contributes nothing
      let later := (l.chunks.zip rcs).flatMap (fun p =>
        if p.1.ty = 0 && (headsOf p.2).all (fun h => d0.hasChange h) then [] else p.2)
      let batch := (if firstIsDoc then [] else fc) ++ later
      match applyBatch d0 batch with
      | (_, .error _) => some (.error ())
      | (d, .ok _) =>
        if l.error.isNone && !d.queue.isEmpty && !firstIsDoc && mode == .error then some (.error ())
        else some (.ok d)
    | _, _ => none

def flipBit (bs : Bytes) (i : Nat) : Bytes :=
  match bs[i / 8]? with
  | some b => bs.set (i / 8) (b ^^^ (1 <<< (UInt8.ofNat (i % 8))))
  | none => bs

def parseMode (s : String) : Chunk.OnPartial := if s == "ignore" then .ignore else .error

def loadResult (st : State) (r : String) (res : Option (Except Unit Doc)) : State × List String :=
  match res with
  | none => (st, ["unknown-chunk"])
  | some (.error _) => (st, ["err"])
  | some (.ok d) => (setReplica st r d, [s!"ok {summary d}"])

def exec (st : State) (toks : List String) : State × List String :=
  match toks with
  | ["crdt.file", f, hex, _exp] =>
    match unhx hex with
    | some b => ({ st with files := (f, b) :: st.files }, ["ok"])
    | none => (st, ["bad-input"])
  | ["crdt.docchunk", ch, hs] =>
    match unhx ch, unhxList hs with
    | some c, some l => ({ st with docChunks := (c, l) :: st.docChunks }, ["ok"])
    | _, _ => (st, ["bad-input"])
  | ["crdt.loadcut", r, mode, f, k] =>
    match st.files.find? (fun p => p.1 == f), k.toNat? with
    | some p, some k => loadResult st r (loadDoc st (parseMode mode) (p.2.take k))
    | _, _ => (st, ["bad-input"])
  | ["crdt.loadflip", r, mode, f, bit] =>
    match st.files.find? (fun p => p.1 == f), bit.toNat? with
    | some p, some b => loadResult st r (loadDoc st (parseMode mode) (flipBit p.2 b))
    | _, _ => (st, ["bad-input"])
  | ["crdt.def", hash, actor, seq, startOp, deps, ops, _raw] =>
    match unhx hash, unhx actor, seq.toNat?, startOp.toNat?, unhxList deps, parseOps ops with
    | some h, some a, some s, some so, some ds, some os =>
      ({ st with changes := ⟨h, a, s, so, ds, os⟩ :: st.changes }, ["ok"])
    | _, _, _, _, _, _ => (st, ["bad-input"])
  | ["crdt.new", r, _enc, _actor] => (setReplica st r Doc.empty, ["ok"])
  | ["crdt.fork", r, r2, _actor] => (setReplica st r2 { getReplica st r with queue := (getReplica st r).queue }, ["ok"])
  | ["crdt.apply", r, hs] =>
    let hl := if hs == "-" then [] else hs.splitOn ","
    match hl.mapM (lookup st) with
    | none => (st, ["bad-input"])
    | some cs =>
      let (d', res) := applyBatch (getReplica st r) cs
      let rs := match res with
        | .ok _ => "ok"
        | .error (.duplicateSeq s a) => s!"err dupseq {s} {hexOfBytes a}"
      (setReplica st r d', [s!"{rs} {summary d'}"])
  -- a change made locally by replica `r` (its deps are the replica's heads, so it is ready)
  | ["crdt.local", r, h] =>
    match lookup st h with
    | none => (st, ["bad-input"])
    | some c =>
      let d := getReplica st r
      -- `transaction_args`: the local change claims (actor, seq); queued changes of a conflicting
      -- branch of the same actor (and their dependents) are discarded
      let d' : Doc := { applied := d.applied ++ [c], queue := removeActorBranchFrom d.queue c.actor c.seq }
      (setReplica st r d', [s!"ok {summary d'}"])
  | ["crdt.state", r] => (st, [showDoc (getReplica st r).ops])
  | ["crdt.state_at", r, hs] =>
    match unhxList hs with
    | some heads => (st, [showDoc ((getReplica st r).at heads).ops])
    | none => (st, ["bad-input"])
  | cmd :: _ =>
    if ["crdt.put", "crdt.putobj", "crdt.ins", "crdt.insobj", "crdt.del", "crdt.inc", "crdt.splice", "crdt.commit"].contains cmd
    then (st, ["skip"]) else (st, ["unknown-cmd"])
  | [] => (st, ["unknown-cmd"])

end Driver.Crdt
