import AmVerif.Model.Local
import AmVerif.Model.Chunk
import AmVerif.Model.Wire
/-
  Driver engine `crdt`: replicas as M5 documents over a changes of changes announced by
  `crdt.def`; state reads are `Spec` interpretations of the applied op set.
-/
namespace Driver.Crdt
open AmVerif AmVerif.Crdt AmVerif.Wire

structure State where
  changes : List Change := []
  replicas : List (String × Doc) := []
  files : List (String × Bytes) := []
  /-- document / bundle chunks announced by the harness: chunk hash ↦ hashes of the changes inside -/
  docChunks : List (Bytes × List Hash) := []
  actors : List (String × Bytes) := []
  /-- open transaction per replica -/
  txs : List (String × Tx) := []
  /-- the change the model predicts for the last commit of a replica: (seq, startOp, deps, ops) -/
  predicted : List (String × (Nat × Nat × List Hash × List Op)) := []
  enc : Enc := .cp
  /-- isolation heads per replica (`AutoCommit::isolate`) -/
  iso : List (String × List Hash) := []
  /-- raw chunk bytes of every announced change -/
  raws : List (Hash × Bytes) := []
  deriving Inhabited

def parseId (s : String) : Option OpId :=
  match s.splitOn "@" with
  | [c, a] => do
    let ctr ← c.toNat?
    let actor ← bytesOfHex a
    pure ⟨ctr, actor⟩
  | _ => none

def parseObj (s : String) : Option ObjId :=
  if s == "_" then some .root else (parseId s).map .id

def parseInt (s : String) : Option Int := s.toInt?

def parseScalar (s : String) : Option Scalar :=
  let rest := (s.drop 1).toString
  match s.toList.head? with
  | some 'n' => some .null
  | some 'b' => some (.bool (rest == "1"))
  | some 'i' => (parseInt rest).map .int
  | some 'u' => rest.toNat?.map .uint
  | some 'f' => rest.toNat?.map .f64
  | some 's' => (bytesOfHex rest).map .str
  | some 'x' => (bytesOfHex rest).map .bytes
  | some 'c' => (parseInt rest).map .counter
  | some 't' => (parseInt rest).map .timestamp
  | some 'k' =>
    match rest.splitOn "." with
    | [t, b] => do
      let ty ← t.toNat?
      let bs ← bytesOfHex b
      pure (.unknown ty bs)
    | _ => none
  | _ => none

def parseKey (s : String) : Option Key :=
  let rest := (s.drop 1).toString
  match s.toList.head? with
  | some 'm' => (bytesOfHex rest).map .map
  | some 'h' => some .head
  | some 'e' => (parseId rest).map .elem
  | _ => none

def parseObjType (s : String) : Option ObjType :=
  match s with
  | "M" => some .map | "L" => some .list | "T" => some .text | "B" => some .table | _ => none

def parseAction (s : String) : Option Action :=
  if s.startsWith "mk" then (parseObjType (s.drop 2).toString).map .make
  else if s.startsWith "inc" then (parseInt (s.drop 3).toString).map .inc
  else if s.startsWith "mb" then
    match (s.drop 2).toString.splitOn "." with
    | [name, ex, v] => do
      let n ← bytesOfHex name
      let sv ← parseScalar v
      pure (.markBegin n sv (ex == "1"))
    | _ => none
  else if s.startsWith "me" then some (.markEnd ((s.drop 2).toString == "1"))
  else if s == "d" then some .del
  else if s.startsWith "p" then (parseScalar (s.drop 1).toString).map .put
  else none

def parseIdList (s : String) : Option (List OpId) :=
  if s == "-" then some [] else (s.splitOn ",").mapM parseId

/-- `<id>/<obj>/<key>/<insert>/<action>/<preds>` -/
def parseOp (s : String) : Option Op :=
  match s.splitOn "/" with
  | [id, obj, key, ins, act, pred] => do
    let id ← parseId id
    let obj ← parseObj obj
    let key ← parseKey key
    let act ← parseAction act
    let pred ← parseIdList pred
    pure ⟨id, obj, key, ins == "1", act, pred⟩
  | _ => none

def parseOps (s : String) : Option (List Op) :=
  if s == "-" then some [] else (s.splitOn ";").mapM parseOp

def getReplica (st : State) (r : String) : Doc :=
  match st.replicas.find? (fun p => p.1 == r) with
  | some p => p.2
  | none => Doc.empty

def setReplica (st : State) (r : String) (d : Doc) : State :=
  { st with replicas := (r, d) :: st.replicas.filter (fun p => p.1 != r) }

def lookup (st : State) (h : String) : Option Change :=
  match unhx h with
  | some hb => st.changes.find? (fun c => c.hash == hb)
  | none => none

def showHashes (hs : List Hash) : String :=
  if hs.isEmpty then "-" else joinWith "," (hs.map hexOfBytes)

def summary (d : Doc) (iso : Option (List Hash) := none) : String :=
  -- `AutoCommit::get_heads` returns the isolation heads while isolated
  let hs := match iso with | some i => sortHashes i | none => d.heads
  s!"heads={showHashes hs} missing={showHashes (d.missingDeps [])} applied={d.applied.length}"

def isoOf (st : State) (r : String) : Option (List Hash) := (st.iso.find? (fun p => p.1 == r)).map (·.2)

/-- the changes a loaded chunk contributes (change chunks by their hash, document and bundle chunks
    through the announced table) -/
def chunkChanges (st : State) (c : Chunk.Chunk) : Option (List Change) :=
  if c.ty = 1 || c.ty = 2 then (st.changes.find? (fun x => x.hash == c.hash)).map (fun x => [x])
  else
    match st.docChunks.find? (fun p => p.1 == c.hash) with
    | none => none
    | some p => p.2.mapM (fun h => st.changes.find? (fun x => x.hash == h))

/-- `load_with_options` above the chunk level: document chunk first ⇒ reconstructed document, then
    every later chunk's changes through `apply_changes`; the `MissingDeps` rule for change-first files -/
def loadDoc (st : State) (mode : Chunk.OnPartial) (data : Bytes) : Option (Except Unit Doc) :=
  if data.isEmpty then some (.ok Doc.empty) else
  match Chunk.parseChunk (fun _ _ => true) data with
  | .error _ => some (.error ())
  | .ok (first, rest) =>
    if !first.checksumValid then some (.error ()) else
    let l := Chunk.loadChunks (fun _ _ => true) (rest.length + 1) rest []
    if l.error.isSome && mode == .error then some (.error ()) else
    match chunkChanges st first, l.chunks.mapM (chunkChanges st) with
    | some fc, some rcs =>
      let firstIsDoc := first.ty = 0
      let d0 : Doc := if firstIsDoc then { applied := fc, queue := [] } else Doc.empty
      -- a later document chunk whose heads are all known contributes nothing
      let later := (l.chunks.zip rcs).flatMap (fun p =>
        if p.1.ty = 0 && (headsOf p.2).all (fun h => d0.hasChange h) then [] else p.2)
      let batch := (if firstIsDoc then [] else fc) ++ later
      match applyBatch d0 batch with
      | (_, .error _) => some (.error ())
      | (d, .ok _) =>
        if l.error.isNone && !d.queue.isEmpty && !firstIsDoc && mode == .error then some (.error ())
        else some (.ok d)
    | _, _ => none

def flipBit (bs : Bytes) (i : Nat) : Bytes :=
  match bs[i / 8]? with
  | some b => bs.set (i / 8) (b ^^^ (1 <<< (UInt8.ofNat (i % 8))))
  | none => bs

def parseMode (s : String) : Chunk.OnPartial := if s == "ignore" then .ignore else .error

def loadResult (st : State) (r : String) (res : Option (Except Unit Doc)) : State × List String :=
  match res with
  | none => (st, ["unknown-chunk"])
  | some (.error _) => (st, ["err"])
  | some (.ok d) => (setReplica st r d, [s!"ok {summary d}"])

def parseProp (s : String) : Option (Sum Bytes Nat) :=
  let rest := (s.drop 1).toString
  match s.toList.head? with
  | some 'm' => (bytesOfHex rest).map .inl
  | some 'i' => rest.toNat?.map .inr
  | _ => none

/-- run one editing call of replica `r`: open the transaction if needed (`ensure_transaction_open` →
    `transaction_args`), evaluate the call on applied ++ pending ops, append the new ops on success -/
def edit (st : State) (r obj : String)
    (f : Enc → List Op → Tx → ObjId → Option (Except EditErr (List Op) × Bool)) : State × List String :=
  match parseObj obj, st.actors.find? (fun p => p.1 == r) with
  | some o, some (_, actor) =>
    let d := getReplica st r
    let isoHeads := (st.iso.find? (fun p => p.1 == r)).map (·.2)
    let (t, st1) := match st.txs.find? (fun p => p.1 == r) with
      | some (_, t) => (t, st)
      | none =>
        match isoHeads with
        | some hs => (d.beginTx (d.isolateActor actor hs), st)
        | none => (d.beginTx actor, st)
    let d := getReplica st1 r
    -- an isolated transaction reads the document at the isolation heads (plus its own ops)
    let base := match isoHeads with | some hs => (d.at hs).ops | none => d.ops
    match f st1.enc (base ++ t.pending) t o with
    | none => (st1, ["bad-input"])
    | some (res, showId) =>
      match res with
      | .error e => ({ st1 with txs := (r, t) :: st1.txs.filter (fun p => p.1 != r) }, [s!"err {e.show}"])
      | .ok newOps =>
        let t' : Tx := { t with pending := t.pending ++ newOps }
        let out := if showId then
            match newOps.head? with
            | some o => s!"ok {AmVerif.Crdt.showId o.id}"
            | none => "ok"
          else "ok"
        ({ st1 with txs := (r, t') :: st1.txs.filter (fun p => p.1 != r) }, [out])
  | _, _ => (st, ["bad-input"])

def exec (st : State) (toks : List String) : State × List String :=
  match toks with
  | ["crdt.file", f, hex, _exp] =>
    match unhx hex with
    | some b => ({ st with files := (f, b) :: st.files }, ["ok"])
    | none => (st, ["bad-input"])
  | ["crdt.docchunk", ch, hs] =>
    match unhx ch, unhxList hs with
    | some c, some l => ({ st with docChunks := (c, l) :: st.docChunks }, ["ok"])
    | _, _ => (st, ["bad-input"])
  | ["crdt.loadcut", r, mode, f, k] =>
    match st.files.find? (fun p => p.1 == f), k.toNat? with
    | some p, some k => loadResult st r (loadDoc st (parseMode mode) (p.2.take k))
    | _, _ => (st, ["bad-input"])
  | ["crdt.loadflip", r, mode, f, bit] =>
    match st.files.find? (fun p => p.1 == f), bit.toNat? with
    | some p, some b => loadResult st r (loadDoc st (parseMode mode) (flipBit p.2 b))
    | _, _ => (st, ["bad-input"])
  | ["crdt.def", hash, actor, seq, startOp, deps, ops, raw] =>
    match unhx hash, unhx actor, seq.toNat?, startOp.toNat?, unhxList deps, parseOps ops, unhx raw with
    | some h, some a, some s, some so, some ds, some os, some rb =>
      ({ st with changes := ⟨h, a, s, so, ds, os⟩ :: st.changes, raws := (h, rb) :: st.raws }, ["ok"])
    | _, _, _, _, _, _, _ => (st, ["bad-input"])
  -- `load_incremental` of the concatenated raw bytes of the named changes: an EMPTY document (nothing
  -- applied, nothing queued) is replaced by `load(data)` with partial loads allowed; otherwise the
  -- chunks that parse are applied like `apply_changes`
  -- `load_incremental` of the bytes [start, end) of a registered file
  | ["crdt.loadpiece", r, f, a, b] =>
    match st.files.find? (fun p => p.1 == f), a.toNat?, b.toNat? with
    | some p, some a, some b =>
      let data := (p.2.drop a).take (b - a)
      let d := getReplica st r
      if d.applied.isEmpty && d.queue.isEmpty then
        match loadDoc st .ignore data with
        | some (.ok d') => (setReplica st r d', [s!"ok {summary d' (isoOf st r)}"])
        | some (.error _) => (st, [s!"err {summary d (isoOf st r)}"])
        | none => (st, ["unknown-chunk"])
      else
        let l := Chunk.loadChunks (fun _ _ => true) (data.length + 1) data []
        match l.chunks.mapM (chunkChanges st) with
        | none => (st, ["unknown-chunk"])
        | some css =>
          -- a document chunk whose heads are all known contributes nothing (load_changes)
          let batch := (l.chunks.zip css).flatMap (fun p =>
            if p.1.ty = 0 && (headsOf p.2).all (fun h => d.hasChange h) then [] else p.2)
          let (d', res) := applyBatch d batch
          let rs := match res with
            | .ok _ => "ok"
            | .error (.duplicateSeq s a) => s!"err dupseq {s} {hexOfBytes a}"
          (setReplica st r d', [s!"{rs} {summary d' (isoOf st r)}"])
    | _, _, _ => (st, ["bad-input"])
  | ["crdt.loadinc", r, hs] =>
    match unhxList hs with
    | none => (st, ["bad-input"])
    | some hl =>
      match hl.mapM (fun h => (st.raws.find? (fun p => p.1 == h)).map (·.2)) with
      | none => (st, ["bad-input"])
      | some rs =>
        let data := rs.flatten
        let d := getReplica st r
        if d.applied.isEmpty && d.queue.isEmpty then
          match loadDoc st .ignore data with
          | some (.ok d') => (setReplica st r d', [s!"ok {summary d' (isoOf st r)}"])
          | some (.error _) =>
            -- the data is a concatenation of valid change chunks: the error is the one `apply_changes` gives
            let l := Chunk.loadChunks (fun _ _ => true) (data.length + 1) data []
            let rs := match l.chunks.mapM (chunkChanges st) with
              | some css =>
                (match (applyBatch Doc.empty css.flatten).2 with
                 | .error (.duplicateSeq s a) => s!"err dupseq {s} {hexOfBytes a}"
                 | .ok _ => "err")
              | none => "err"
            (st, [s!"{rs} {summary d (isoOf st r)}"])
          | none => (st, ["unknown-chunk"])
        else
          let l := Chunk.loadChunks (fun _ _ => true) (data.length + 1) data []
          match l.chunks.mapM (chunkChanges st) with
          | none => (st, ["unknown-chunk"])
          | some css =>
            let (d', res) := applyBatch d css.flatten
            let rs := match res with
              | .ok _ => "ok"
              | .error (.duplicateSeq s a) => s!"err dupseq {s} {hexOfBytes a}"
            (setReplica st r d', [s!"{rs} {summary d' (isoOf st r)}"])
  | ["crdt.new", r, enc, actor] =>
    match unhx actor with
    | some a =>
      let e : Enc := if enc == "utf8" then .utf8 else if enc == "utf16" then .utf16 else if enc == "gc" then .gc else .cp
      (setReplica { st with actors := (r, a) :: st.actors.filter (fun p => p.1 != r), enc := e } r Doc.empty, ["ok"])
    | none => (st, ["bad-input"])
  | ["crdt.fork", r, r2, actor] =>
    match unhx actor with
    | some a =>
      -- `fork()` commits the open transaction first; the generator never forks mid-transaction
      (setReplica { st with actors := (r2, a) :: st.actors.filter (fun p => p.1 != r2) } r2 (getReplica st r), ["ok"])
    | none => (st, ["bad-input"])
  | ["crdt.apply", r, hs] =>
    let hl := if hs == "-" then [] else hs.splitOn ","
    match hl.mapM (lookup st) with
    | none => (st, ["bad-input"])
    | some cs =>
      let (d', res) := applyBatch (getReplica st r) cs
      let rs := match res with
        | .ok _ => "ok"
        | .error (.duplicateSeq s a) => s!"err dupseq {s} {hexOfBytes a}"
      (setReplica st r d', [s!"{rs} {summary d' (isoOf st r)}"])
  -- a change made locally by replica `r` (its deps are the replica's heads, so it is ready)
  | ["crdt.local", r, h] =>
    match lookup st h with
    | none => (st, ["bad-input"])
    | some c =>
      let d := getReplica st r
      -- `commit_impl`: the local change claims (actor, seq); queued changes of a conflicting branch of
      -- the same actor (and their dependents) are discarded, then the change enters the history
      let d' : Doc := { applied := d.applied ++ [c], queue := removeActorBranchFrom d.queue c.actor c.seq }
      let verdict :=
        match st.predicted.find? (fun p => p.1 == r) with
        | none => "unpredicted"
        | some (_, (seq, so, deps, ops)) =>
          if seq != c.seq then s!"MISMATCH seq predicted {seq}"
          else if so != c.startOp then s!"MISMATCH startOp predicted {so}"
          else if sortHashes deps != sortHashes c.deps then s!"MISMATCH deps predicted {showHashes deps}"
          else if ops != c.ops then s!"MISMATCH ops predicted {repr ops}"
          else "ok"
      -- an isolated replica continues from its own commit
      let iso' := match st.iso.find? (fun p => p.1 == r) with
        | some _ => (r, [c.hash]) :: st.iso.filter (fun p => p.1 != r)
        | none => st.iso
      let st' := setReplica { st with predicted := st.predicted.filter (fun p => p.1 != r), iso := iso' } r d'
      (st', [s!"{verdict} {summary d' (isoOf st' r)}"])
  | ["crdt.state", r] =>
    let pend := match st.txs.find? (fun p => p.1 == r) with | some (_, t) => t.pending | none => []
    let d := getReplica st r
    let base := match st.iso.find? (fun p => p.1 == r) with | some (_, hs) => (d.at hs).ops | none => d.ops
    (st, [showDoc (base ++ pend)])
  | ["crdt.expect", _r] => (st, ["ok"])
  | ["crdt.changes", r, hs] =>
    match unhxList hs with
    | some have_ =>
      let d := getReplica st r
      let anc := d.ancestors have_
      (st, [s!"ok {showHashes (sortHashes ((d.applied.filter (fun c => !anc.contains c.hash)).map (·.hash)))}"])
    | none => (st, ["bad-input"])
  | ["crdt.saveload", r, r2, _deflate] =>
    let d := getReplica st r
    match st.actors.find? (fun p => p.1 == r) with
    | some (_, a) => (setReplica { st with actors := (r2, a) :: st.actors.filter (fun p => p.1 != r2) } r2 d, [s!"ok {summary d}"])
    | none => (st, ["bad-input"])
  | ["crdt.state_at", r, hs] =>
    match unhxList hs with
    | some heads => (st, [showDoc ((getReplica st r).at heads).ops])
    | none => (st, ["bad-input"])
  | ["crdt.put", r, obj, prop, v] => edit st r obj (fun e ops t o => do
      let p ← parseProp prop; let sv ← parseScalar v
      pure (localPut e ops t o p (.put sv) true, false))
  | ["crdt.putobj", r, obj, prop, ty] => edit st r obj (fun e ops t o => do
      let p ← parseProp prop; let ot ← parseObjType ty
      -- put_object: (Map, Map) and (Seq, List) only
      let bad := match p, objType ops o with
        | .inr _, some .text => true
        | _, _ => false
      pure (if bad then .error .invalidOp else localPut e ops t o p (.make ot) true, true))
  | ["crdt.ins", r, obj, idx, v] => edit st r obj (fun e ops t o => do
      let i ← idx.toNat?; let sv ← parseScalar v
      pure (localInsert e ops t o i (.put sv), false))
  | ["crdt.insobj", r, obj, idx, ty] => edit st r obj (fun e ops t o => do
      let i ← idx.toNat?; let ot ← parseObjType ty
      pure (localInsert e ops t o i (.make ot), true))
  | ["crdt.del", r, obj, prop] => edit st r obj (fun e ops t o => do
      let p ← parseProp prop
      pure (match objType ops o, p with
        | some .text, .inr i => localSpliceText e ops t o i 1 []
        | some .text, .inl _ => .error .invalidOp
        | _, _ => localPut e ops t o p .del false, false))
  | ["crdt.inc", r, obj, prop, n] => edit st r obj (fun e ops t o => do
      let p ← parseProp prop; let k ← parseInt n
      pure (localPut e ops t o p (.inc k) false, false))
  | ["crdt.splice", r, obj, pos, del, text] => edit st r obj (fun e ops t o => do
      let i ← pos.toNat?; let tx ← unhx text
      match del.toNat? with
      | some dl => pure (localSpliceText e ops t o i dl tx, false)
      | none =>
        -- a negative count deletes backwards: `inner_splice` rewrites (index, -k) to (index - k, k) and
        -- fails with InvalidIndex when k > index
        let k ← (del.drop 1).toString.toNat?
        if !del.startsWith "-" then none
        else
          -- (the object is resolved first: an unknown / non-text object wins over the index error)
          let res := localSpliceText e ops t o (i - k) k tx
          match res with
          | .error .objid => pure (res, false)
          | .error .invalidOp => pure (res, false)
          | _ => if k > i then pure (.error .index, false) else pure (res, false))
  | ["crdt.commit", r] =>
    match st.txs.find? (fun p => p.1 == r) with
    | none => (st, ["none"])
    | some (_, t) =>
      let st' := { st with txs := st.txs.filter (fun p => p.1 != r) }
      if t.pending.isEmpty then (st', ["none"]) else
      let d := getReplica st r
      let seq := d.seqForActor t.actor + 1
      -- isolated: the deps are exactly the isolation heads
      let deps := match st.iso.find? (fun p => p.1 == r) with | some (_, hs) => hs | none => d.localDeps t.actor
      ({ st' with predicted := (r, (seq, t.startOp, deps, t.pending)) :: st'.predicted.filter (fun p => p.1 != r) }, ["ok"])
  -- `AutoCommit::empty_change`: a change without ops at the replica's heads; `TransactionInner::empty`
  -- goes through `commit_impl`, so the (actor, seq) claim and the queue purge are those of `crdt.local`
  | ["crdt.emptycommit", r] =>
    match st.txs.find? (fun p => p.1 == r), st.iso.find? (fun p => p.1 == r), st.actors.find? (fun p => p.1 == r) with
    | none, none, some (_, actor) =>
      let d := getReplica st r
      let seq := d.seqForActor actor + 1
      ({ st with predicted := (r, (seq, d.maxOp + 1, d.localDeps actor, [])) :: st.predicted.filter (fun p => p.1 != r) }, ["ok"])
    | _, _, _ => (st, ["bad-input"])
  | ["crdt.rollback", r] =>
    match st.txs.find? (fun p => p.1 == r) with
    | none => (st, ["0"])
    | some (_, t) => ({ st with txs := st.txs.filter (fun p => p.1 != r) }, [toString t.pending.length])
  | _ => (st, ["unknown-cmd"])

end Driver.Crdt
