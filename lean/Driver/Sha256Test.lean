import AmVerif.Model.Sha256
/-
  SHA-256 test vectors (FIPS 180-4 / NIST examples).  Run with
  `lake env lean Driver/Sha256Test.lean`; every line must print `true`.
-/
open AmVerif AmVerif.Sha256

def sha256Hex (s : String) : String := hexOfBytes (sha256 s.toUTF8.toList)

#eval sha256Hex "" == "e3b0c44298fc1c149afbf4c8996fb92427ae41e4649b934ca495991b7852b855"
#eval sha256Hex "abc" == "ba7816bf8f01cfea414140de5dae2223b00361a396177a9cb410ff61f20015ad"
#eval sha256Hex "abcdbcdecdefdefgefghfghighijhijkijkljklmklmnlmnomnopnopq"
  == "248d6a61d20638b8e5c026930c3e6039a33ce45964ff2167f6ecedd419db06c1"
-- 112-byte two-block vector
#eval sha256Hex ("abcdefghbcdefghicdefghijdefghijkefghijklfghijklmghijklmn" ++
    "hijklmnoijklmnopjklmnopqklmnopqrlmnopqrsmnopqrstnopqrstu")
  == "cf5b16a778af8380036ce59e7b0492370b249b11e8f07a51afac45037afee9d1"
-- padding boundaries: 55, 56, 63, 64 bytes of 'a'
#eval hexOfBytes (sha256 (List.replicate 55 97))
  == "9f4390f8d30c2dd92ec9f095b65e2b9ae9b0a925a5258e241c9f1e910f734318"
#eval hexOfBytes (sha256 (List.replicate 56 97))
  == "b35439a4ac6f0948b6d6f9e3c6af0f5f590ce20f1bde7090ef7970686ec6738a"
#eval hexOfBytes (sha256 (List.replicate 63 97))
  == "7d3e74a05d7db15bce4ad9ec0658ea98e3f06eeecf16b4c6fff2da457ddc2f34"
#eval hexOfBytes (sha256 (List.replicate 64 97))
  == "ffe054fe7ae0cb6dc65c3af9b61d5209f439851db43d0ba5997337df154668eb"
-- 100 000 and 1 000 000 × 'a'
#eval hexOfBytes (sha256 (List.replicate 100000 97))
  == "6d1cf22d7cc09b085dfc25ee1a1f3ae0265804c607bc2074ad253bcc82fd81ee"
#eval hexOfBytes (sha256 (List.replicate 1000000 97))
  == "cdc76e5c9914fb9281a1c7e284d73e67f1809a48a497200e046d39ccc7112cd0"
