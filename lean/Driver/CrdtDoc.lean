import Driver.Crdt
import AmVerif.Model.DocCodec
/- Extension of the `crdt` driver engine: commands `crdt.dc.*` (document chunk codec, M6) on the same per-case state. -/
namespace Driver.CrdtDoc
open AmVerif AmVerif.Crdt AmVerif.Wire Driver.Crdt AmVerif.DocCodec

/-- the model's budget of op rows / changes per chunk (a chunk describing more prints `skip`) -/
def limit : Nat := 20000

/-- an applied change with the metadata its raw bytes carry (time, message, extra bytes) -/
def dchangeOf (st : State) (c : Change) : DChange :=
  match st.raws.find? (fun p => p.1 == c.hash) with
  | some (_, raw) =>
    match ChangeCodec.decodeChange 1000000 raw with
    | .ok (_, x) => ⟨c, x.time, x.message, x.extra⟩
    | _ => ⟨c, 0, none, []⟩
  | none => ⟨c, 0, none, []⟩

def hasPending (st : State) (r : String) : Bool :=
  match st.txs.find? (fun p => p.1 == r) with
  | some (_, t) => !t.pending.isEmpty
  | none => false

def showAction : Action → String
  | .make .map => "mkM" | .make .list => "mkL" | .make .text => "mkT" | .make .table => "mkB"
  | .del => "d"
  | .inc n => s!"inc{n}"
  | .put v => "p" ++ showScalar v
  | .markBegin name v ex => s!"mb{hexOfBytes name}.{if ex then 1 else 0}.{showScalar v}"
  | .markEnd ex => s!"me{if ex then 1 else 0}"

def showOpFull (o : Op) : String :=
  showId o.id ++ "/" ++ showObjTok o.obj ++ "/" ++ showKeyTok o.key ++ "/" ++ (if o.insert then "1" else "0") ++ "/" ++
    showAction o.action ++ "/" ++ (if o.pred.isEmpty then "-" else joinWith "," (o.pred.map showId))

def showChange (d : DChange) : String :=
  let c := d.c
  s!"{hexOfBytes c.hash}:{hexOfBytes c.actor}:{c.seq}:{c.startOp}:{showHashes c.deps}:" ++
    (if c.ops.isEmpty then "-" else joinWith ";" (c.ops.map showOpFull)) ++
    s!":{d.time}:{hx (d.message.getD [])}:{hx d.extra}"

/-- an id of the image with its actor resolved; `none`: the index is outside the actor table -/
def resolveId (actors : List Bytes) (i : ChangeCodec.IdI) : Option String :=
  (actors[i.actor]?).map (fun a => s!"{i.ctr}@{hexOfBytes a}")

def showImgRow (actors : List Bytes) (r : OpRow) : Option String := do
  let id ← resolveId actors r.id
  let obj ← match r.obj with | none => some "_" | some o => resolveId actors o
  let key ← match r.key with
    | .prop s => some ("m" ++ hexOfBytes s)
    | .head => some "h"
    | .elem e => (resolveId actors e).map (fun t => "e" ++ t)
  let succ ← r.succ.mapM (resolveId actors)
  pure (id ++ "/" ++ obj ++ "/" ++ key ++ "/" ++ (if r.insert then "1" else "0") ++ "/" ++
    (if succ.isEmpty then "-" else joinWith "," succ))

def errClass : DErr → String
  | .parse _ => "parse" | .notNormal => "parse" | .inflate => "parse" | .layout => "parse" | .leftover => "parse"
  | .pack _ => "reconstruct" | .readOp => "reconstruct"
  | .actorId => "actorid" | .colLen => "collen" | .maxOp => "maxop" | .changes => "changes"
  | .heads => "heads" | .markOrder => "markorder" | .tooBig => "skip"

/-- `Automerge::load` of a file that starts with a document chunk -/
def loadLines (bytes : Bytes) : List String :=
  -- `load_with_options`: no bytes are the empty document
  if bytes.isEmpty then ["ok heads=-", "rows -", "changes -"] else
  match Chunk.parseHeader bytes with
  | .error _ => ["err parse"]
  | .ok (h, i) =>
    if h.ty ≠ Consts.CHUNK_TYPE_DOCUMENT then ["skip"] else
    let body := i.take h.dataLen
    let rest := i.drop h.dataLen
    -- `Chunk::parse` (the body parser), then the checksum, then `reconstruct`
    match parseBody body with
    | .err .tooBig => ["skip"]
    | .err _ => ["err parse"]
    | .panic _ => ["panic"]
    | .ok pb =>
      if (h.hash.take 4) != h.checksum then ["err checksum"] else
      -- `RawColumns::bytes` finds a change column by binary search: with two columns of one specification
      -- "any one of the matches could be returned" (std) — the model does not say which
      if !((pb.changeCols.map (·.1)).eraseDups.length == pb.changeCols.length) then ["skip"] else
      match loadDocBody limit body with
      | .err .tooBig => ["skip"]
      | .err e => [s!"err {errClass e}"]
      | .panic _ => ["panic"]
      | .ok (d, cs) =>
        if !rest.isEmpty then ["err parse"] else
        let rows := match d.ops.mapM (showImgRow d.actors) with
          | some rs => if rs.isEmpty then "-" else joinWith ";" rs
          | none => "PANIC"
        -- finding L1 (C16): nothing checks the `max_op` column against the ops of the change; when it
        -- disagrees the document loads, and the later `get_changes` (which trusts it) panics
        let maxOpOk := (d.changes.zip cs).all (fun (m, c) => m.maxOp == c.maxOp)
        [s!"ok heads={showHashes d.heads}", s!"rows {rows}",
         if maxOpOk then s!"changes {if cs.isEmpty then "-" else joinWith "|" (cs.map showChange)}" else "changes PANIC"]

def exec (st : State) (toks : List String) : State × List String :=
  match toks with
  | ["crdt.dc.commit", r, _t, _m] => Driver.Crdt.exec st ["crdt.commit", r]
  -- the model's own state of replica r: applied changes → `imageOf` → the pieces of `encodeDoc`
  | ["crdt.dc.save", r] =>
    if hasPending st r then (st, ["pending"]) else
    let applied := (getReplica st r).applied.map (dchangeOf st)
    let p := piecesOf (imageOf applied)
    (st, [s!"actors {hx p.actors}", s!"heads {hx p.heads}"]
      ++ p.changeCols.map (fun c => s!"c {c.1} {hx c.2}")
      ++ p.opCols.map (fun c => s!"o {c.1} {hx c.2}")
      ++ [s!"suffix {hx p.suffix}"])
  -- `load` of one chunk file: the error class, or heads / op rows / rebuilt changes
  | ["crdt.dc.load", hex] =>
    match unhx hex with
    | none => (st, ["bad-input"])
    | some bytes => (st, loadLines bytes)
  -- direct-oracle probes of the harness on hand-built changes
  | ["crdt.dc.probe", _] => (st, ["done"])
  -- diagnosis only (not generated): where the model stops on a chunk file
  | ["crdt.dc.debug", hex] =>
    match unhx hex with
    | none => (st, ["bad-input"])
    | some bytes =>
      match Chunk.parseHeader bytes with
      | .error _ => (st, ["header"])
      | .ok (h, i) =>
        let body := i.take h.dataLen
        let showO {α : Type} (tag : String) (o : Outcome DErr α) : String :=
          match o with | .ok _ => s!"{tag}: ok" | .err e => s!"{tag}: err {repr e}" | .panic p => s!"{tag}: panic {repr p}"
        let l1 := showO "parseBody" (parseBody body)
        let l2 := match parseBody body with
          | .ok p => [showO "opCols" (loadOpCols limit p.opCols p.opData),
                      showO "changeCols" (loadChangeCols limit p.actors.length p.changeCols p.changeData),
                      s!"cols c={repr p.changeCols} o={repr p.opCols}"]
          | _ => []
        let l3 := match decodeParts limit body with
          | .ok d => [s!"changes {repr d.changes}", s!"opsFail {repr d.opsFail} rows={d.ops.length}",
                      showO "collect" (placeAll (emitRows d.ops ⟨none, []⟩).1 (mkBuilders d.changes, 0)),
                      s!"builders {repr ((mkBuilders d.changes).map (fun b => (b.change, b.actor, b.seq, b.start, b.maxOp)))}",
                      showO "rebuild" (rebuild d.actors d.heads d.changes d.ops d.opsFail)]
          | _ => []
        (st, l1 :: l2 ++ l3)
  | _ => (st, ["unknown-cmd"])

end Driver.CrdtDoc
