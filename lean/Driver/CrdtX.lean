import Driver.Crdt
/- Extension of the `crdt` driver engine: commands `crdt.x.*` on the same per-case state. -/
namespace Driver.CrdtX
open AmVerif AmVerif.Crdt AmVerif.Wire Driver.Crdt

def exec (st : State) (toks : List String) : State × List String :=
  match toks with
  -- `AutoCommit::isolate(heads)` / `integrate()`
  | ["crdt.x.isolate", r, hs] =>
    match unhxList hs with
    | some heads => ({ st with iso := (r, heads) :: st.iso.filter (fun p => p.1 != r), txs := st.txs.filter (fun p => p.1 != r) }, ["ok"])
    | none => (st, ["bad-input"])
  -- reads on a copy isolated at a heads list repeating one hash (no transaction open): the state at {h}
  | ["crdt.x.isodup", r, h, _k] =>
    match unhxList h with
    | some [hh] => (st, [showDoc ((getReplica st r).at [hh]).ops])
    | _ => (st, ["bad-input"])
  -- direct oracle of the harness on the implementation alone (C29): nothing to predict
  | ["crdt.x.isocheck", _] => (st, ["ok"])
  | ["crdt.x.integrate", r] =>
    ({ st with iso := st.iso.filter (fun p => p.1 != r), txs := st.txs.filter (fun p => p.1 != r) }, ["ok"])
  -- crdt.x.migrate r r2 : r2 := load(save r) with StringMigration::ConvertToText; the migration
  -- change is made by a fresh actor, rendered as `4d494752`
  | ["crdt.x.migrate", r, r2] =>
    let d := getReplica st r
    let actor : Bytes := [0x4d, 0x49, 0x47, 0x52]
    let convs := conversions d.ops
    if convs.isEmpty then
      (setReplica { st with actors := (r2, actor) :: st.actors.filter (fun p => p.1 != r2) } r2 d, [s!"ok added=0 {showDoc d.ops}"])
    else
      match applyConversions st.enc d.ops (d.beginTx actor) convs with
      | .error e => (st, [s!"err {e.show}"])
      | .ok t =>
        let c : Change := ⟨[], actor, 1, t.startOp, d.heads, t.pending⟩
        let d' : Doc := { d with applied := d.applied ++ [c] }
        (setReplica { st with actors := (r2, actor) :: st.actors.filter (fun p => p.1 != r2) } r2 d', [s!"ok added=1 {showDoc d'.ops}"])
  -- an object id used on a replica: `ok <length> <contents>` if the replica contains the object
  | ["crdt.x.useid", r, obj] =>
    match parseObj obj with
    | none => (st, ["bad-input"])
    | some o =>
      let d := getReplica st r
      let pend := match st.txs.find? (fun p => p.1 == r) with | some (_, t) => t.pending | none => []
      let ops := d.ops ++ pend
      match objType ops o with
      | none => (st, ["err"])
      | some ty =>
        let len := match ty with
          | .map | .table => (mapKeys ops o).length
          | .list => (seqElems ops o).length
          | .text => ((seqRegs ops o).map (fun (p : OpId × List Op) => match p.2.getLast? with | some x => opWidth st.enc true x | none => 0)).foldl (· + ·) 0
        (st, [s!"ok {len} {showObj ops (ops.length + 1) o ty}"])
  | ["crdt.x.mutload", _r, _n, _seed] => (st, ["skip"])
  | _ => (st, ["unknown-cmd"])

end Driver.CrdtX
