import Driver.Crdt
import AmVerif.Model.Handles
/-
  Driver engine `capi` (C36).

  * `capi.x <crdt line>`: the value half.  The line is a line of the `crdt` vocabulary that the
    harness executed through the Rust API and (in `capi.check`) through the C API; here it goes to the
    Spec/Local model exactly as a `crdt.*` line does, so the model predicts the states the C API shows.
  * `capi.merge a b hs`, `capi.loadinc a b hs`, `capi.sync a b hsA hsB`, `capi.clone a b actor`,
    `capi.splicev r obj pos del vals`: state-changing C calls without a crdt word; their effect is
    replayed on the model (apply / fork / inserts+deletes) and the answer is `skip` (the Rust-vs-C
    oracle compares the answers).  The scratch replica `z` (marks, empty changes, commit messages) is
    never read back through a `capi.x` line, so the model's copy of it is allowed to go stale.
  * `capi.trace <events>`: the handle half.  The trace the C driver emitted is replayed through the
    handle-discipline model `AmVerif.Handles`; `ok <tally>` iff every event is on a live handle and all
    results are freed at the end (the tally is recomputed here and must equal the driver's own count).
  * every other `capi.*` line (reads, `capi.check`) is not modelled: `skip`.
-/
namespace Driver.Capi
open AmVerif AmVerif.Handles

def parseEv (s : String) : Option Ev :=
  match s.splitOn "." with
  | ["A", r, n] => do pure (.alloc (← r.toNat?) (← n.toNat?))
  | ["R", r', r, k] => do pure (.share (← r'.toNat?) (← r.toNat?) (← k.toNat?))
  | ["C", r', r1, r2] => do pure (.cat (← r'.toNat?) (← r1.toNat?) (← r2.toNat?))
  | ["I", r, k] => do pure (.item (← r.toNat?) (← k.toNat?))
  | ["V", r] => do pure (.view (← r.toNat?))
  | ["B", p, r, k] => do pure (.borrow (← p.toNat?) (← r.toNat?) (← k.toNat?))
  | ["U", p] => do pure (.use (← p.toNat?))
  | ["N", r, k, c] => do pure (.refcnt (← r.toNat?) (← k.toNat?) (← c.toNat?))
  | ["F", r] => do pure (.free (← r.toNat?))
  | _ => none

def showErr : Err → String
  | .notFresh => "not-fresh-id"
  | .staleResult => "stale-result"
  | .badIndex => "bad-index"
  | .unknownPtr => "unknown-pointer"
  | .deadCell => "dead-cell"
  | .refcount => "refcount"
  | .leak => "leak"

structure Tally where
  allocs : Nat := 0
  frees : Nat := 0
  items : Nat := 0
  borrows : Nat := 0
  uses : Nat := 0
  views : Nat := 0

def tally (tr : List Ev) : Tally :=
  tr.foldl (fun t e =>
    match e with
    | .alloc _ _ | .share _ _ _ | .cat _ _ _ => { t with allocs := t.allocs + 1 }
    | .free _ => { t with frees := t.frees + 1 }
    | .item _ _ => { t with items := t.items + 1 }
    | .borrow _ _ _ => { t with borrows := t.borrows + 1 }
    | .use _ => { t with uses := t.uses + 1 }
    | .view _ => { t with views := t.views + 1 }
    | .refcnt _ _ _ => t) {}

def execTrace (s : String) : List String :=
  let toks := if s == "-" then [] else s.splitOn ","
  match toks.mapM parseEv with
  | none => ["bad-input"]
  | some tr =>
    match firstBad {} 0 tr with
    | some (i, e) => [s!"bad event {i} {showErr e}"]
    | none =>
      let t := tally tr
      [s!"ok allocs={t.allocs} frees={t.frees} items={t.items} borrows={t.borrows} uses={t.uses} views={t.views}"]

def crdtStep (st : Driver.Crdt.State) (toks : List String) : Driver.Crdt.State :=
  (Driver.Crdt.exec st toks).1

def exec (st : Driver.Crdt.State) (toks : List String) : Driver.Crdt.State × List String :=
  match toks with
  | "capi.x" :: rest => Driver.Crdt.exec st rest
  | ["capi.trace", evs] => (st, execTrace evs)
  | ["capi.merge", a, _b, hs] =>
    if hs == "-" then (st, ["skip"]) else (crdtStep st ["crdt.apply", a, hs], ["skip"])
  | ["capi.loadinc", a, _b, hs] =>
    if hs == "-" then (st, ["skip"]) else (crdtStep st ["crdt.apply", a, hs], ["skip"])
  | ["capi.sync", a, b, hsA, hsB] =>
    let st1 := if hsB == "-" then st else crdtStep st ["crdt.apply", a, hsB]
    let st2 := if hsA == "-" then st1 else crdtStep st1 ["crdt.apply", b, hsA]
    (st2, ["skip"])
  | ["capi.clone", a, b, actor] => (crdtStep st ["crdt.fork", a, b, actor], ["skip"])
  | ["capi.splicev", r, obj, pos, del, vals] =>
    match pos.toNat?, del.toNat? with
    | some p, some d =>
      -- `inner_splice`: the inserts come first (at `pos`), then the deletions (at `pos + #values`)
      let vs := if vals == "-" then [] else vals.splitOn ","
      let st1 := (vs.zip (List.range vs.length)).foldl
        (fun s (v, j) => crdtStep s ["crdt.ins", r, obj, toString (p + j), v]) st
      let st2 := (List.range d).foldl (fun s _ => crdtStep s ["crdt.del", r, obj, s!"i{p + vs.length}"]) st1
      (st2, ["skip"])
    | _, _ => (st, ["skip"])
  | _ => (st, ["skip"])

end Driver.Capi
