import AmVerif.Proofs.LocalSplice
/-
  String migration (`convert_scalar_strings_to_text`): what `conversions` collects and what
  `applyConversions` does to the document, conversion by conversion.

  §1  `conversions = []` iff no map / list object has a visible string
  §2  one conversion of a map key: `put_object(Text)` + `splice_text(0, 0, s)`
  §3  the whole run over map conversions
  §4  the strings `conversions` lists for a key are the visible strings of that key, ascending by id
-/
namespace AmVerif.Crdt
open AmVerif

/-! ## §1 nothing to convert -/

def Op.isStr (o : Op) : Bool := match o.action with | .put (.str _) => true | _ => false

def Op.strOf (o : Op) : Option Bytes := match o.action with | .put (.str s) => some s | _ => none

/-- no map key and no list element of any object of the op set (reachable or not) has a visible
    string value -/
def NoVisibleStrings (ops : List Op) : Prop :=
  ∀ p ∈ allObjects ops,
    (p.2 = .map → ∀ k ∈ mapKeys ops p.1, ∀ o ∈ mapRegOps ops p.1 k, o.strOf = none) ∧
    (p.2 = .list → ∀ q ∈ seqRegs ops p.1, ∀ o ∈ q.2, o.strOf = none)

theorem filterMap_eq_nil_iff' {α β : Type} {f : α → Option β} {l : List α} :
    l.filterMap f = [] ↔ ∀ a ∈ l, f a = none := by
  induction l with
  | nil => simp
  | cons a l ih =>
    rw [List.filterMap_cons]
    cases h : f a with
    | none => simp [ih, h]
    | some b => simp [h]

theorem flatMap_eq_nil_iff' {α β : Type} {f : α → List β} {l : List α} :
    l.flatMap f = [] ↔ ∀ a ∈ l, f a = [] := by
  induction l with
  | nil => simp
  | cons a l ih => simp [List.flatMap_cons, ih]

theorem strConv_eq_none {β : Type} (o : Op) (f : Bytes → β) :
    (match o.action with | .put (.str s) => some (f s) | _ => none) = none ↔ o.strOf = none := by
  unfold Op.strOf
  split <;> simp

theorem conversions_eq_nil_iff (ops : List Op) : conversions ops = [] ↔ NoVisibleStrings ops := by
  unfold conversions NoVisibleStrings
  rw [flatMap_eq_nil_iff']
  constructor
  · intro h p hp
    have hp' := h p hp
    obtain ⟨obj, ty⟩ := p
    constructor
    · intro hty
      simp only at hty
      subst hty
      simp only at hp'
      rw [flatMap_eq_nil_iff'] at hp'
      intro k hk o ho
      have := filterMap_eq_nil_iff'.mp (hp' k hk) o ho
      exact (strConv_eq_none o _).mp this
    · intro hty
      simp only at hty
      subst hty
      simp only at hp'
      rw [flatMap_eq_nil_iff'] at hp'
      intro q hq o ho
      obtain ⟨i, hi⟩ := List.getElem?_of_mem hq
      have hi : (q, i) ∈ (seqRegs ops obj).zipIdx := List.mk_mem_zipIdx_iff_getElem?.mpr hi
      have := filterMap_eq_nil_iff'.mp (hp' (q, i) hi) o ho
      exact (strConv_eq_none o _).mp this
  · intro h p hp
    obtain ⟨h1, h2⟩ := h p hp
    obtain ⟨obj, ty⟩ := p
    cases ty with
    | map =>
      simp only
      rw [flatMap_eq_nil_iff']
      intro k hk
      rw [filterMap_eq_nil_iff']
      intro o ho
      exact (strConv_eq_none o _).mpr (h1 rfl k hk o ho)
    | list =>
      simp only
      rw [flatMap_eq_nil_iff']
      intro qi hqi
      rw [filterMap_eq_nil_iff']
      intro o ho
      have hq : qi.1 ∈ seqRegs ops obj :=
        List.mem_iff_getElem?.mpr ⟨qi.2, List.mem_zipIdx_iff_getElem?.mp hqi⟩
      exact (strConv_eq_none o _).mpr (h2 rfl qi.1 hq o ho)
    | text => rfl
    | table => rfl


/-! ## §2 one conversion of a map key -/

/-- every object an op belongs to has a counter below `b` (no op refers to a not-yet-existing
    object) -/
def ObjBelow (ops : List Op) (b : Nat) : Prop :=
  ∀ x ∈ ops, (match x.obj with | .id o => decide (o.ctr < b) | .root => true) = true

instance (ops : List Op) (b : Nat) : Decidable (ObjBelow ops b) := by unfold ObjBelow; infer_instance

theorem ObjBelow.fresh {ops : List Op} {b : Nat} (h : ObjBelow ops b) {n : OpId} (hn : b ≤ n.ctr) :
    ∀ x ∈ ops, x.obj ≠ .id n := by
  intro x hx he
  have := h x hx
  rw [he] at this
  simp at this
  omega

theorem ObjBelow.mono {ops : List Op} {b b' : Nat} (h : ObjBelow ops b) (hb : b ≤ b') : ObjBelow ops b' := by
  intro x hx
  have := h x hx
  cases hobj : x.obj with
  | root => rfl
  | id o => rw [hobj] at this; simp at this ⊢; omega

theorem CtrBelow.mono {ops : List Op} {b b' : Nat} (h : CtrBelow ops b) (hb : b ≤ b') : CtrBelow ops b' := by
  intro x hx
  obtain ⟨h1, h2, h3⟩ := h x hx
  refine ⟨by omega, fun q hq => by have := h2 q hq; omega, ?_⟩
  cases hk : x.key with
  | elem el => rw [hk] at h3; simp at h3 ⊢; omega
  | _ => rfl

/-- the well-formedness of the op list an editing call of transaction `t` sees -/
structure TxInv (ops : List Op) (t : Tx) : Prop where
  strict : StrictIds ops
  ctr : CtrBelow ops (t.startOp + t.pending.length)
  refs : RefsSmaller ops
  objs : ObjBelow ops (t.startOp + t.pending.length)

instance (ops : List Op) (t : Tx) : Decidable (TxInv ops t) :=
  decidable_of_iff
    (StrictIds ops ∧ CtrBelow ops (t.startOp + t.pending.length) ∧ RefsSmaller ops ∧
      ObjBelow ops (t.startOp + t.pending.length))
    ⟨fun ⟨a, b, c, d⟩ => ⟨a, b, c, d⟩, fun h => ⟨h.1, h.2, h.3, h.4⟩⟩

theorem insertRef_zero (e : Enc) (isText : Bool) (regs : List (OpId × List Op)) (last : Key) :
    insertRef e isText regs 0 0 last = .ok (last, 0) := by
  cases regs with
  | nil => simp [insertRef]
  | cons p rest => obtain ⟨id, r⟩ := p; rw [insertRef_cons]; simp

/-- `splice_text(0, 0, s)`: the chain of the pieces of `s`, keyed on HEAD -/
theorem splice_zero {e : Enc} {ops : List Op} {t : Tx} {obj : ObjId} {s : Bytes} {l : List Op}
    (h : localSpliceText e ops t obj 0 0 s = .ok l) :
    objType ops obj = some .text ∧ l = chainInserts t obj (utf8Chars s) .head 0 := by
  rw [localSpliceText_eq] at h
  unfold spliceWith at h
  cases hty : objType ops obj with
  | none => rw [objMeta_eq_error.mpr ⟨rfl, hty⟩] at h; cases h
  | some ty =>
    rw [objMeta_eq_ok.mpr hty] at h
    simp only at h
    by_cases htt : ty = .text
    · subst htt
      simp only [bne_self_eq_false, Bool.false_eq_true, if_false, insertRef_zero, ite_self,
        deleteLoop_zero, List.append_nil] at h
      cases h
      exact ⟨rfl, rfl⟩
    · have : (ty != .text) = true := by simpa using htt
      simp [this] at h

theorem objType_append_nonmake {ops : List Op} {o : Op} (ha : ∀ ty, o.action ≠ .make ty) (o' : ObjId) :
    objType (ops ++ [o]) o' = objType ops o' := by
  cases o' with
  | root => rfl
  | id i =>
    simp only [objType, List.find?_append]
    cases ops.find? (fun p => p.id == i) with
    | some x => rfl
    | none =>
      by_cases hi : (o.id == i) = true
      · cases hact : o.action <;> simp_all
      · simp [hi]

/-- the chain of `splice_text` into object `obj` touches no map register, no other object's
    elements, no object's type; and it keeps the well-formedness -/
theorem chain_others (t : Tx) (obj : ObjId) (b : Nat)
    (hobj : (match obj with | .id o => decide (o.ctr < b) | .root => true) = true) :
    ∀ (pieces : List Bytes) (key : Key) (n : Nat) (ops : List Op),
      StrictIds ops → CtrBelow ops (t.startOp + t.pending.length + n) → RefsSmaller ops → ObjBelow ops b →
      (key = .head ∨ ∃ el, key = .elem el ∧ el.ctr < t.startOp + t.pending.length + n) →
      (∀ obj' k', mapRegister (ops ++ chainInserts t obj pieces key n) obj' k' = mapRegister ops obj' k') ∧
      (∀ obj', obj' ≠ obj → seqElems (ops ++ chainInserts t obj pieces key n) obj' = seqElems ops obj') ∧
      (∀ o', objType (ops ++ chainInserts t obj pieces key n) o' = objType ops o') ∧
      StrictIds (ops ++ chainInserts t obj pieces key n) ∧
      CtrBelow (ops ++ chainInserts t obj pieces key n) (t.startOp + t.pending.length + n + pieces.length) ∧
      RefsSmaller (ops ++ chainInserts t obj pieces key n) ∧
      ObjBelow (ops ++ chainInserts t obj pieces key n) b
  | [], key, n, ops, hs, hb, hr, hob, _ => by
    have h0 : chainInserts t obj [] key n = [] := rfl
    rw [h0, List.append_nil]
    exact ⟨fun _ _ => rfl, fun _ _ => rfl, fun _ => rfl, hs, by simpa using hb, hr, hob⟩
  | p :: ps, key, n, ops, hs, hb, hr, hob, hkey => by
    let o : Op := ⟨t.nextId n, obj, key, true, .put (.str p), []⟩
    have hoid : o.id.ctr = t.startOp + t.pending.length + n := rfl
    obtain ⟨hlt, _, _⟩ := hb.fresh (n := o.id) (Nat.le_refl _)
    have hs' : StrictIds (ops ++ [o]) := strictIds_append_fresh hs hlt
    have hknm : ∀ k, o.key ≠ .map k := by
      intro k hk
      have hk' : key = .map k := hk
      rcases hkey with h0 | ⟨el, h0, _⟩ <;> rw [h0] at hk' <;> cases hk'
    have hb' : CtrBelow (ops ++ [o]) (t.startOp + t.pending.length + (n + 1)) := by
      intro x hx
      rcases List.mem_append.mp hx with hx | hx
      · exact (hb.mono (by omega)) x hx
      · have : x = o := by simpa using hx
        subst this
        refine ⟨by show t.startOp + t.pending.length + n < _; omega, fun q hq => (by cases hq), ?_⟩
        have hok : o.key = key := rfl
        rw [hok]
        rcases hkey with hk | ⟨el, hk, hel⟩
        · rw [hk]
        · rw [hk]; simp; omega
    have hr' : RefsSmaller (ops ++ [o]) := by
      apply refsSmaller_append hr
      intro _
      have hok : o.key = key := rfl
      rw [hok]
      rcases hkey with hk | ⟨el, hk, hel⟩
      · rw [hk]
      · rw [hk]; exact lt_of_ctr_lt (by rw [hoid]; exact hel)
    have hob' : ObjBelow (ops ++ [o]) b := by
      intro x hx
      rcases List.mem_append.mp hx with hx | hx
      · exact hob x hx
      · have : x = o := by simpa using hx
        subst this; exact hobj
    obtain ⟨i1, i2, i3, i4, i5, i6, i7⟩ := chain_others t obj b hobj ps (.elem o.id) (n + 1) (ops ++ [o]) hs' hb' hr' hob'
      (.inr ⟨o.id, rfl, by rw [hoid]; omega⟩)
    have happ : ops ++ chainInserts t obj (p :: ps) key n =
        (ops ++ [o]) ++ chainInserts t obj ps (.elem o.id) (n + 1) := by
      simp [chainInserts, o]
    rw [happ]
    refine ⟨fun obj' k' => ?_, fun obj' hne => ?_, fun o' => ?_, i4, ?_, i6, i7⟩
    · rw [i1, insert_mapRegister rfl hknm]
    · rw [i2 obj' hne]
      have ho := rgaOrder_insert_other (o := o) hlt hr (obj' := obj') hne
      exact seqElems_congr ho (fun c _ => insert_elemRegister_other rfl rfl (.inl hne))
    · rw [i3, objType_append_nonmake (by intro ty h; cases h)]
    · have : t.startOp + t.pending.length + n + (p :: ps).length =
          t.startOp + t.pending.length + (n + 1) + ps.length := by simp; omega
      rw [this]; exact i5


theorem objType_some_mem {ops : List Op} {i : OpId} {ty : ObjType} (h : objType ops (.id i) = some ty) :
    ∃ x ∈ ops, x.id = i := by
  simp only [objType] at h
  cases hf : ops.find? (fun p => p.id == i) with
  | none => rw [hf] at h; cases h
  | some x => exact ⟨x, List.mem_of_find?_eq_some hf, by simpa using List.find?_some hf⟩

/-- **one conversion of a map key** (`put_object(obj, k, Text)` then `splice_text(new, 0, 0, s)`):
    the key holds exactly the new text object, which spells `s`; every other map register, the
    elements of every other object and the type of every existing object are as before; and the
    well-formedness carries over to the next call. -/
theorem convert_map_step {e : Enc} {ops : List Op} {t : Tx} {obj : ObjId} {k : Bytes} {s : Bytes}
    {newOps more : List Op} {mk : Op} (inv : TxInv ops t)
    (h1 : localPut e ops t obj (.inl k) (.make .text) true = .ok newOps)
    (hmk : newOps.head? = some mk)
    (h2 : localSpliceText e (ops ++ newOps) { t with pending := t.pending ++ newOps } (.id mk.id) 0 0 s
      = .ok more) :
    newOps = [mk] ∧ mk.id = t.nextId ∧ objType ops obj = some .map ∧
    mapRegister (ops ++ newOps ++ more) obj k = [⟨t.nextId, .obj .text⟩] ∧
    objType (ops ++ newOps ++ more) (.id t.nextId) = some .text ∧
    textOf (seqElems (ops ++ newOps ++ more) (.id t.nextId)) = s ∧
    (∀ obj' k', (obj' ≠ obj ∨ k' ≠ k) →
      mapRegister (ops ++ newOps ++ more) obj' k' = mapRegister ops obj' k') ∧
    (∀ obj', obj' ≠ obj → obj' ≠ .id t.nextId →
      seqElems (ops ++ newOps ++ more) obj' = seqElems ops obj') ∧
    (∀ o', o' ≠ .id t.nextId → objType (ops ++ newOps ++ more) o' = objType ops o') ∧
    TxInv (ops ++ newOps ++ more) { t with pending := t.pending ++ newOps ++ more } := by
  obtain ⟨hlt, hnp, _⟩ := inv.ctr.fresh (n := t.nextId) (Nat.le_refl _)
  have hobjf := inv.objs.fresh (n := t.nextId) (Nat.le_refl _)
  obtain ⟨ty, hty, hck, hemit⟩ := localPut_map_ok h1
  have htym : ty = .map := hck rfl
  subst htym
  rw [emitOp_make] at hemit
  have hnew : newOps = [mkMapOp t obj k (.make .text) (mapRegOps ops obj k)] := by cases hemit; rfl
  subst hnew
  have hmk' : mk = mkMapOp t obj k (.make .text) (mapRegOps ops obj k) := by
    simp only [List.head?_cons, Option.some.injEq] at hmk; exact hmk.symm
  subst hmk'
  generalize ho : mkMapOp t obj k (.make .text) (mapRegOps ops obj k) = o at *
  have hoid : o.id = t.nextId := by rw [← ho]; rfl
  have hoobj : o.obj = obj := by rw [← ho]; rfl
  have hokey : o.key = .map k := by rw [← ho]; rfl
  have hoins : o.insert = false := by rw [← ho]; rfl
  have hoact : o.action = .make .text := by rw [← ho]; rfl
  have hopred : o.pred = (mapRegOps ops obj k).map (·.id) := by rw [← ho]; rfl
  obtain ⟨htx, _, _, _, _⟩ := localPut_map_txOp inv.strict hlt hnp h1
  have hreg : mapRegister (ops ++ [o]) obj k = [⟨t.nextId, .obj .text⟩] :=
    map_value_effect inv.strict hlt hnp h1 (by simp [Op.isValue, hoact])
  have hoo : o.obj ≠ .id o.id := by rw [hoobj, hoid]; exact obj_ne_next_of_objType hlt hty
  have hlt' : ∀ x ∈ ops, x.id.lt o.id = true := by rw [hoid]; exact hlt
  obtain ⟨hnty, _, hnseq⟩ := new_object_empty hlt' (by rw [hoid]; exact hobjf) hoo hoact
  rw [hoid] at hnty hnseq
  -- the state after the make op
  have hb0 : t.nextId.ctr = t.startOp + t.pending.length := rfl
  have inv1 : TxInv (ops ++ [o]) { t with pending := t.pending ++ [o] } := by
    refine ⟨htx.strict', ?_, refsSmaller_append inv.refs (by intro h; rw [hoins] at h; cases h), ?_⟩
    · intro x hx
      simp only [List.length_append, List.length_cons, List.length_nil]
      rcases List.mem_append.mp hx with hx | hx
      · exact (inv.ctr.mono (by omega)) x hx
      · have : x = o := by simpa using hx
        subst this
        refine ⟨by rw [hoid, hb0]; omega, fun q hq => ?_, by rw [hokey]⟩
        rw [hopred] at hq
        obtain ⟨y, hy, rfl⟩ := List.mem_map.mp hq
        have hyo : y ∈ ops := by
          have := mem_regOps.mp (mapRegOps_eq ops obj k ▸ hy)
          exact this.1
        have := (inv.ctr y hyo).1
        omega
    · intro x hx
      simp only [List.length_append, List.length_cons, List.length_nil]
      rcases List.mem_append.mp hx with hx | hx
      · exact (inv.objs.mono (by omega)) x hx
      · have : x = o := by simpa using hx
        subst this
        rw [hoobj]
        cases hobj : obj with
        | root => rfl
        | id i =>
          rw [hobj] at hty
          obtain ⟨y, hy, hyi⟩ := objType_some_mem hty
          have := (inv.ctr y hy).1
          rw [hyi] at this
          simp; omega
  obtain ⟨_, hmore⟩ := splice_zero h2
  rw [hoid] at hmore
  have hTb : (match (ObjId.id t.nextId) with | .id o => decide (o.ctr < t.startOp + t.pending.length + 1) | .root => true) = true := by
    simp [hb0]
  have hobjs1 : ObjBelow (ops ++ [o]) (t.startOp + t.pending.length + 1) := by
    apply inv1.objs.mono
    simp only [List.length_append, List.length_cons, List.length_nil]; omega
  have hctr1 : CtrBelow (ops ++ [o]) (({ t with pending := t.pending ++ [o] } : Tx).startOp +
      ({ t with pending := t.pending ++ [o] } : Tx).pending.length + 0) := inv1.ctr
  obtain ⟨i1, i2, i3, i4, i5, i6, i7⟩ := chain_others { t with pending := t.pending ++ [o] } (.id t.nextId)
    (t.startOp + t.pending.length + 1) hTb (utf8Chars s) .head 0 (ops ++ [o]) inv1.strict hctr1 inv1.refs
    hobjs1 (.inl rfl)
  rw [← hmore] at i1 i2 i3 i4 i5 i6 i7
  have hlen : more.length = (utf8Chars s).length := by rw [hmore, chainInserts_length]
  refine ⟨rfl, hoid, hty, ?_, ?_, ?_, ?_, ?_, ?_, ?_⟩
  · rw [i1, hreg]
  · rw [i3, hnty]
  · by_cases hs0 : s = []
    · subst hs0
      have : more = [] := by rw [hmore, utf8Chars_nil]; rfl
      rw [this, List.append_nil, hnseq]; rfl
    · obtain ⟨j, hj, _, _, htext⟩ := splice_text_content inv1.strict inv1.ctr inv1.refs
        (by rw [hoid] at h2; exact h2) hs0
      rw [htext, hnseq]
      simp [textOf]
  · intro obj' k' hne
    rw [i1, htx.map_other_register hoobj hokey hne]
  · intro obj' hne hneT
    rw [i2 obj' hneT, (htx.map_other_seq inv.refs hoobj hoins obj').2 hne]
  · intro o' hne
    rw [i3, objType_append_old (by rw [hoid]; exact hne)]
  · refine ⟨i4, ?_, i6, ?_⟩
    · have : ({ t with pending := t.pending ++ [o] ++ more } : Tx).startOp +
          ({ t with pending := t.pending ++ [o] ++ more } : Tx).pending.length =
          t.startOp + (t.pending ++ [o]).length + 0 + (utf8Chars s).length := by
        simp only [List.length_append, hlen]; omega
      rw [this]; exact i5
    · apply i7.mono
      simp only [List.length_append, List.length_cons, List.length_nil]; omega


/-! ## §3 the whole run over map conversions -/

abbrev Conv := ObjId × Sum Bytes Nat × Bytes

/-- the strings a conversion list holds for key `k` of `obj`, in list order -/
def convStrings (convs : List Conv) (obj : ObjId) (k : Bytes) : List Bytes :=
  convs.filterMap (fun c => if c.1 = obj ∧ c.2.1 = .inl k then some c.2.2 else none)

theorem applyConversions_cons (e : Enc) (base : List Op) (t : Tx) (obj : ObjId) (prop : Sum Bytes Nat)
    (s : Bytes) (rest : List Conv) :
    applyConversions e base t ((obj, prop, s) :: rest) =
      match localPut e (base ++ t.pending) t obj prop (.make .text) true with
      | .error err => .error err
      | .ok newOps =>
        match newOps.head? with
        | none => .error .other
        | some mk =>
          match localSpliceText e (base ++ (t.pending ++ newOps)) { t with pending := t.pending ++ newOps }
              (.id mk.id) 0 0 s with
          | .error err => .error err
          | .ok more => applyConversions e base { t with pending := t.pending ++ newOps ++ more } rest := rfl

/-- **the migration run over map keys.**  Running the conversions one after the other
    (`put_object` + `splice_text` each): every key the list names ends up holding exactly one
    value, a text object spelling the LAST string the list holds for that key; every key the list
    does not name keeps its register; no existing non-map object changes. -/
theorem applyConversions_map_spec (e : Enc) (base : List Op) :
    ∀ (convs : List Conv) (t t' : Tx),
      (∀ c ∈ convs, ∃ k, c.2.1 = .inl k) → applyConversions e base t convs = .ok t' →
      TxInv (base ++ t.pending) t →
      TxInv (base ++ t'.pending) t' ∧
      (∀ obj' ty, objType (base ++ t.pending) obj' = some ty → ty ≠ .map →
        seqElems (base ++ t'.pending) obj' = seqElems (base ++ t.pending) obj' ∧
        objType (base ++ t'.pending) obj' = some ty) ∧
      (∀ obj k,
        (convStrings convs obj k = [] →
          mapRegister (base ++ t'.pending) obj k = mapRegister (base ++ t.pending) obj k) ∧
        (∀ s, (convStrings convs obj k).getLast? = some s →
          ∃ id, mapRegister (base ++ t'.pending) obj k = [⟨id, .obj .text⟩] ∧
            objType (base ++ t'.pending) (.id id) = some .text ∧
            textOf (seqElems (base ++ t'.pending) (.id id)) = s))
  | [], t, t', _, h, inv => by
    have : t' = t := by simp only [applyConversions, Except.ok.injEq] at h; exact h.symm
    subst this
    refine ⟨inv, fun _ _ h _ => ⟨rfl, h⟩, fun obj k => ⟨fun _ => rfl, fun s hs => ?_⟩⟩
    simp [convStrings] at hs
  | (obj₁, prop, s₁) :: rest, t, t', hmap, h, inv => by
    obtain ⟨k₁, hk₁⟩ := hmap _ List.mem_cons_self
    simp only at hk₁
    subst hk₁
    rw [applyConversions_cons] at h
    cases h1 : localPut e (base ++ t.pending) t obj₁ (.inl k₁) (.make .text) true with
    | error err => rw [h1] at h; cases h
    | ok newOps =>
      rw [h1] at h
      simp only at h
      cases hmk : newOps.head? with
      | none => rw [hmk] at h; cases h
      | some mk =>
        rw [hmk] at h
        simp only at h
        cases h2 : localSpliceText e (base ++ (t.pending ++ newOps)) { t with pending := t.pending ++ newOps }
            (.id mk.id) 0 0 s₁ with
        | error err => rw [h2] at h; cases h
        | ok more =>
          rw [h2] at h
          simp only at h
          rw [← List.append_assoc] at h2
          obtain ⟨_, _, hty₁, hreg, hTty, hTtext, hothers, hseqs, htypes, inv2⟩ :=
            convert_map_step inv h1 hmk h2
          have hstate : base ++ t.pending ++ newOps ++ more = base ++ (t.pending ++ newOps ++ more) := by
            simp only [List.append_assoc]
          rw [hstate] at hreg hTty hTtext hothers hseqs htypes inv2
          obtain ⟨inv', pres', regs'⟩ := applyConversions_map_spec e base rest
            { t with pending := t.pending ++ newOps ++ more } t'
            (fun c hc => hmap c (List.mem_cons_of_mem _ hc)) h inv2
          obtain ⟨hlt, _, _⟩ := inv.ctr.fresh (n := t.nextId) (Nat.le_refl _)
          refine ⟨inv', ?_, ?_⟩
          · intro obj' ty hty hnm
            have hne₁ : obj' ≠ obj₁ := by
              intro he; rw [he, hty₁] at hty; cases hty; exact hnm rfl
            have hneT : obj' ≠ .id t.nextId := obj_ne_next_of_objType hlt hty
            have h2' := pres' obj' ty (by rw [htypes obj' hneT]; exact hty) hnm
            exact ⟨by rw [h2'.1]; exact hseqs obj' hne₁ hneT, h2'.2⟩
          · intro obj k
            by_cases hsame : obj₁ = obj ∧ k₁ = k
            · obtain ⟨rfl, rfl⟩ := hsame
              have hcs : convStrings ((obj₁, Sum.inl k₁, s₁) :: rest) obj₁ k₁ = s₁ :: convStrings rest obj₁ k₁ := by
                simp [convStrings]
              rw [hcs]
              refine ⟨fun hnil => (by cases hnil), fun s hs => ?_⟩
              cases hrest : convStrings rest obj₁ k₁ with
              | nil =>
                rw [hrest] at hs
                simp only [List.getLast?_singleton, Option.some.injEq] at hs
                subst hs
                have hT := pres' (.id t.nextId) .text hTty (by intro h; cases h)
                refine ⟨t.nextId, ?_, hT.2, ?_⟩
                · rw [(regs' obj₁ k₁).1 hrest]; exact hreg
                · rw [hT.1]; exact hTtext
              | cons x xs =>
                rw [hrest, List.getLast?_cons_cons] at hs
                exact (regs' obj₁ k₁).2 s (by rw [hrest]; exact hs)
            · have hcs : convStrings ((obj₁, Sum.inl k₁, s₁) :: rest) obj k = convStrings rest obj k := by
                simp [convStrings, hsame]
              rw [hcs]
              have hne : obj ≠ obj₁ ∨ k ≠ k₁ := by
                by_cases ho : obj₁ = obj
                · right; intro hk; exact hsame ⟨ho, hk.symm⟩
                · left; exact fun h => ho h.symm
              have hstep := hothers obj k hne
              refine ⟨fun hnil => (by rw [(regs' obj k).1 hnil]; exact hstep), (regs' obj k).2⟩


/-! ## §4 the strings `conversions` lists for a key -/

theorem flatMap_ite_unique {α β : Type} (P : α → Prop) [DecidablePred P] (R : List β) :
    ∀ {l : List α}, l.Pairwise (fun a b => ¬ (P a ∧ P b)) →
      l.flatMap (fun x => if P x then R else []) = if ∃ x ∈ l, P x then R else []
  | [], _ => by simp
  | a :: l, h => by
    have ih := flatMap_ite_unique P R (List.Pairwise.of_cons h)
    rw [List.flatMap_cons, ih]
    by_cases hpa : P a
    · have hno : ¬ ∃ x ∈ l, P x := fun ⟨x, hx, hpx⟩ => List.rel_of_pairwise_cons h hx ⟨hpa, hpx⟩
      have hyes : ∃ x ∈ a :: l, P x := ⟨a, List.mem_cons_self, hpa⟩
      simp [hpa, hno]
    · by_cases hex : ∃ x ∈ l, P x
      · have hyes : ∃ x ∈ a :: l, P x := by
          obtain ⟨x, hx, hpx⟩ := hex; exact ⟨x, List.mem_cons_of_mem _ hx, hpx⟩
        simp [hpa, hex]
      · have hno : ¬ ∃ x ∈ a :: l, P x := by
          rintro ⟨x, hx, hpx⟩
          rcases List.mem_cons.mp hx with rfl | hx
          · exact hpa hpx
          · exact hex ⟨x, hx, hpx⟩
        simp [hpa, hex]

/-- the objects `iter_objs` lists are pairwise distinct -/
theorem allObjects_fst_pairwise {ops : List Op} (hs : StrictIds ops) :
    (allObjects ops).Pairwise (fun a b => a.1 ≠ b.1) := by
  unfold allObjects
  refine List.Pairwise.cons ?_ ?_
  · intro p hp
    obtain ⟨o, _, ho⟩ := List.mem_filterMap.mp hp
    split at ho
    · cases ho; intro h; cases h
    · cases ho
  · refine List.Pairwise.filterMap _ ?_ (sortById_strict (hs.filter _))
    intro a a' hlt b hb b' hb' he
    split at hb
    · split at hb'
      · cases hb; cases hb'
        simp only [ObjId.id.injEq] at he
        rw [he, OpId.lt_irrefl] at hlt; cases hlt
      · cases hb'
    · cases hb

/-- the body of `conversions`, by projections -/
def convBody (ops : List Op) (p : ObjId × ObjType) : List Conv :=
  match p.2 with
  | .map =>
    (mapKeys ops p.1).flatMap (fun k =>
      (mapRegOps ops p.1 k).filterMap (fun o =>
        match o.action with | .put (.str s) => some (p.1, Sum.inl k, s) | _ => none))
  | .list =>
    ((seqRegs ops p.1).zipIdx).flatMap (fun (q : (OpId × List Op) × Nat) =>
      q.1.2.filterMap (fun o =>
        match o.action with | .put (.str s) => some (p.1, Sum.inr q.2, s) | _ => none))
  | _ => []

theorem conversions_eq (ops : List Op) : conversions ops = (allObjects ops).flatMap (convBody ops) := by
  unfold conversions
  apply flatMap_congr'
  rintro ⟨a, b⟩ _
  cases b <;> rfl

/-- **what the conversion list holds for a key**: for a map object of the op set, the strings
    among the visible values of the key, ascending by op id — so the LAST one is the string with
    the greatest id -/
theorem convStrings_conversions {ops : List Op} (hs : StrictIds ops) (obj : ObjId) (k : Bytes) :
    convStrings (conversions ops) obj k =
      if (obj, ObjType.map) ∈ allObjects ops then (mapRegOps ops obj k).filterMap Op.strOf else [] := by
  rw [conversions_eq]
  unfold convStrings
  rw [List.filterMap_flatMap]
  have hbody : ∀ p ∈ allObjects ops,
      (List.filterMap (fun c : Conv => if c.1 = obj ∧ c.2.1 = Sum.inl k then some c.2.2 else none)
        (convBody ops p)) =
      if p.1 = obj ∧ p.2 = .map then (mapRegOps ops obj k).filterMap Op.strOf else [] := by
    intro p _
    obtain ⟨obj', ty⟩ := p
    cases ty with
    | map =>
      simp only [convBody, List.filterMap_flatMap, List.filterMap_filterMap]
      have hinner : ∀ k' ∈ mapKeys ops obj',
          (mapRegOps ops obj' k').filterMap (fun o =>
            (match o.action with | .put (.str s) => some ((obj', Sum.inl k', s) : Conv) | _ => none).bind
              (fun c : Conv => if c.1 = obj ∧ c.2.1 = Sum.inl k then some c.2.2 else none)) =
          if k' = k then (if obj' = obj then (mapRegOps ops obj' k).filterMap Op.strOf else []) else [] := by
        intro k' _
        by_cases hk : k' = k
        · by_cases ho : obj' = obj
          · subst hk; subst ho
            simp only [if_true]
            apply filterMap_congr'
            intro o _
            unfold Op.strOf
            split <;> simp
          · subst hk
            simp only [ho, if_true, if_false]
            rw [filterMap_eq_nil_iff']
            intro o _
            split <;> simp [ho]
        · simp only [hk, if_false]
          rw [filterMap_eq_nil_iff']
          intro o _
          split <;> simp [hk]
      rw [flatMap_congr' hinner]
      have hpw : (mapKeys ops obj').Pairwise (fun a b => ¬ (a = k ∧ b = k)) := by
        refine List.Pairwise.imp ?_ (mapKeys_sorted ops obj')
        intro a b hab ⟨ha, hb⟩
        rw [ha, hb, bytesLt_irrefl] at hab; cases hab
      rw [flatMap_ite_unique (fun k' => k' = k) _ hpw]
      by_cases ho : obj' = obj
      · subst ho
        simp only [and_self, if_true]
        by_cases hk : k ∈ mapKeys ops obj'
        · simp [hk]
        · have hnil : mapRegOps ops obj' k = [] := by
            cases hr : mapRegOps ops obj' k with
            | nil => rfl
            | cons x xs =>
              exfalso; apply hk
              have hx : x ∈ mapRegOps ops obj' k := by rw [hr]; exact List.mem_cons_self
              have := mem_regOps.mp (mapRegOps_eq ops obj' k ▸ hx)
              simp only [mapSel, Bool.and_eq_true, beq_iff_eq] at this
              exact mem_mapKeys.mpr ⟨x, this.1, this.2.1.1, this.2.1.2, this.2.2⟩
          simp [hk, hnil]
      · simp [ho]
    | list =>
      simp only [convBody, List.filterMap_flatMap, List.filterMap_filterMap]
      have : ¬ ((obj', ObjType.list).1 = obj ∧ (obj', ObjType.list).2 = ObjType.map) := by
        intro h; cases h.2
      rw [if_neg this, flatMap_eq_nil_iff']
      intro q _
      rw [filterMap_eq_nil_iff']
      intro o _
      split <;> simp
    | text => simp [convBody]
    | table => simp [convBody]
  rw [flatMap_congr' hbody]
  have hpw : (allObjects ops).Pairwise (fun a b =>
      ¬ ((a.1 = obj ∧ a.2 = ObjType.map) ∧ (b.1 = obj ∧ b.2 = ObjType.map))) := by
    refine List.Pairwise.imp ?_ (allObjects_fst_pairwise hs)
    intro a b hab ⟨ha, hb⟩
    exact hab (ha.1.trans hb.1.symm)
  rw [flatMap_ite_unique (fun p : ObjId × ObjType => p.1 = obj ∧ p.2 = .map) _ hpw]
  have hiff : (∃ x ∈ allObjects ops, x.1 = obj ∧ x.2 = ObjType.map) ↔ (obj, ObjType.map) ∈ allObjects ops := by
    constructor
    · rintro ⟨⟨a, b⟩, hx, h1, h2⟩
      simp only at h1 h2
      subst h1; subst h2; exact hx
    · intro h; exact ⟨_, h, rfl, rfl⟩
  simp only [hiff]

end AmVerif.Crdt
