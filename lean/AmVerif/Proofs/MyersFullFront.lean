import AmVerif.Proofs.MyersFullFwdInv
/-
  C27 helper: the array-independent core of `middle_snake_in_range`.

  A "frontier" is the set of values one pass (forward or backward — the two are mirror images and
  share everything in this file) has stored for one depth `D`, seen through the read function
  `g = V.get` restricted to the diagonals `valid`.  `FrontOK` collects the invariants:
    * `G`: `D + k ≤ 2 x ≤ 2 min(n, m) + D + k`;
    * "no overlap yet" (only when this pass performs the overlap check, `chk`): on the checked
      diagonals `|k - delta| ≤ D - e` the stored point is strictly inside: `x < n`, `x - k < m`
      (`e = 1` for the forward pass / `delta` odd, `e = 0` for the backward pass / `delta` even);
    * frontier shape: `x(k+2) > n → x(k) + 1 ≥ x(k+2)` and `x(k) - k > m → x(k+2) ≥ x(k) + 1`;
    * at depth ≤ 0 the value is 0 (common prefix / suffix stripped).
  `StepFacts` is what one loop iteration does (picked `x`, stored `x1`); `ent_of_step`,
  `pair_of_ents`, `front_of_cur` rebuild the invariant for depth `d` from depth `d - 1`;
  `detect` is the detection step: on a checked diagonal the picked point lies in the rectangle and is
  not its far corner.
-/
namespace AmVerif.Myers
open AmVerif

/-- diagonals read by a pass of depth `d`: those written at depth `d - 1`, or the initial `V[1]` -/
def validP (d : Nat) (k : Int) : Prop :=
  (d = 0 ∧ k = 1) ∨ (1 ≤ d ∧ -(d : Int) + 1 ≤ k ∧ k ≤ d - 1 ∧ (k + d + 1) % 2 = 0)

/-- `|k - delta| ≤ c` -/
def inR (delta c k : Int) : Prop := k - delta ≤ c ∧ delta - k ≤ c

/-- shape of two neighbouring entries `x` on diagonal `k`, `x2` on diagonal `k + 2` -/
def Pair (n m : Nat) (k : Int) (x x2 : Nat) : Prop :=
  ((n : Int) < x2 → (x2 : Int) ≤ x + 1) ∧ ((m : Int) < (x : Int) - k → (x : Int) + 1 ≤ x2)

structure FrontOK (n m : Nat) (delta e : Int) (chk : Prop) (D : Int) (valid : Int → Prop)
    (g : Int → Option Nat) : Prop where
  ex : ∀ k, valid k → ∃ x, g k = some x
  ent : ∀ k x, valid k → g k = some x →
    G n m D k x ∧ (chk → inR delta (D - e) k → (x : Int) < n ∧ (x : Int) - k < m) ∧ (D ≤ 0 → x = 0)
  pair : ∀ k x x2, valid k → valid (k + 2) → g k = some x → g (k + 2) = some x2 → Pair n m k x x2

/-- an entry of depth `d` on diagonal `k`, relative to the previous frontier `pg` -/
structure Ent (n m : Nat) (delta e : Int) (chk : Prop) (d : Nat) (k : Int) (pg : Int → Option Nat)
    (x : Nat) : Prop where
  g : G n m d k x
  no : chk → inR delta ((d : Int) - e) k → (x : Int) < n ∧ (x : Int) - k < m
  zero : d = 0 → x = 0
  lowR : k ≠ -(d : Int) → ∀ a, pg (k - 1) = some a → a + 1 ≤ x
  lowD : k ≠ (d : Int) → ∀ b, pg (k + 1) = some b → b ≤ x
  src : ((x : Int) ≤ n ∧ (x : Int) - k ≤ m) ∨ (k ≠ -(d : Int) ∧ ∃ a, pg (k - 1) = some a ∧ x = a + 1)
        ∨ (k ≠ (d : Int) ∧ ∃ b, pg (k + 1) = some b ∧ x = b)

/-- the first `j` entries written at depth `d` -/
def FCur2 (n m : Nat) (delta e : Int) (chk : Prop) (d j : Nat) (pg g : Int → Option Nat) : Prop :=
  ∀ j' : Nat, j' < j → ∃ x, g ((d : Int) - 2 * (j' : Int)) = some x ∧
    Ent n m delta e chk d ((d : Int) - 2 * (j' : Int)) pg x ∧
    (1 ≤ j' → ∃ x2, g ((d : Int) - 2 * (j' : Int) + 2) = some x2 ∧ Pair n m ((d : Int) - 2 * (j' : Int)) x x2)

/-- one loop iteration on diagonal `k` at depth `d`: `x` picked from the neighbours, `x1` stored -/
structure StepFacts (n m : Nat) (d : Nat) (k : Int) (g : Int → Option Nat) (x x1 : Nat) : Prop where
  pick : (g (k + 1) = some x ∧ (k = -(d : Int) ∨ (k ≠ d ∧ ∃ a, g (k - 1) = some a ∧ a < x)))
       ∨ (k ≠ -(d : Int) ∧ ∃ a, g (k - 1) = some a ∧ x = a + 1 ∧
            (k = d ∨ ∃ b, g (k + 1) = some b ∧ ¬ a < b))
  snake : x ≤ x1 ∧ (x1 = x ∨ ((x1 : Int) ≤ n ∧ (x1 : Int) - k ≤ m))
  zero : d = 0 → x = 0 → x1 = 0

theorem valid_up {d j : Nat} {k : Int} (hj : j ≤ d) (hk : k = (d : Int) - 2 * (j : Int))
    (h : k = -(d : Int) ∨ k ≠ d) : validP d (k + 1) := by
  unfold validP
  by_cases hd0 : d = 0
  · left; omega
  · right; omega

theorem valid_dn {d j : Nat} {k : Int} (hj : j ≤ d) (hk : k = (d : Int) - 2 * (j : Int))
    (h : k ≠ -(d : Int)) : validP d (k - 1) := by
  unfold validP
  right; omega

theorem ent_of_step {n m : Nat} {delta e : Int} {chk : Prop} {d j : Nat} {k : Int}
    {pg g : Int → Option Nat} {x x1 : Nat}
    (hF : FrontOK n m delta e chk ((d : Int) - 1) (validP d) pg)
    (hag : ∀ k', validP d k' → g k' = pg k')
    (hj : j ≤ d) (hk : k = (d : Int) - 2 * (j : Int)) (hs : StepFacts n m d k g x x1)
    (hno : chk → inR delta ((d : Int) - e) k → (x1 : Int) < n ∧ (x1 : Int) - k < m) :
    Ent n m delta e chk d k pg x1 := by
  obtain ⟨hle, hsn⟩ := hs.snake
  rcases hs.pick with ⟨hg, hcase⟩ | ⟨hne, a, ha, hxa, hcase⟩
  · -- down move from diagonal k+1
    have hv : validP d (k + 1) := valid_up hj hk (by rcases hcase with h | ⟨h, _⟩; exact .inl h; exact .inr h)
    have hg' : pg (k + 1) = some x := by rw [← hag _ hv]; exact hg
    obtain ⟨⟨g1, g2, g3⟩, _, hz⟩ := hF.ent (k + 1) x hv hg'
    refine ⟨?_, hno, ?_, ?_, ?_, ?_⟩
    · rcases hsn with h | h
      · rw [h]; exact ⟨by omega, by omega, by omega⟩
      · exact ⟨by omega, by omega, by omega⟩
    · intro hd0
      exact hs.zero hd0 (hz (by omega))
    · intro hne a' ha'
      rcases hcase with h | ⟨_, a, ha, hlt⟩
      · exact absurd h hne
      · have hv' := valid_dn hj hk hne
        rw [hag _ hv'] at ha
        rw [ha] at ha'; cases ha'
        omega
    · intro _ b hb
      rw [hg'] at hb; cases hb
      exact hle
    · rcases hsn with h | h
      · by_cases hd0 : d = 0
        · have hx0 : x = 0 := hz (by omega)
          left; omega
        · right; right
          refine ⟨by rcases hcase with h' | ⟨h', _⟩ <;> omega, x, hg', h⟩
      · exact .inl h
  · -- right move from diagonal k-1
    have hv : validP d (k - 1) := valid_dn hj hk hne
    have ha' : pg (k - 1) = some a := by rw [← hag _ hv]; exact ha
    obtain ⟨⟨g1, g2, g3⟩, _, hz⟩ := hF.ent (k - 1) a hv ha'
    refine ⟨?_, hno, ?_, ?_, ?_, ?_⟩
    · rcases hsn with h | h
      · rw [h]; exact ⟨by omega, by omega, by omega⟩
      · exact ⟨by omega, by omega, by omega⟩
    · intro hd0; omega
    · intro _ a2 ha2
      rw [ha'] at ha2; cases ha2
      omega
    · intro hkd b hb
      rcases hcase with h | ⟨b', hb', hnlt⟩
      · exact absurd h hkd
      · have hv' := valid_up hj hk (.inr hkd)
        rw [hag _ hv'] at hb'
        rw [hb'] at hb; cases hb
        omega
    · rcases hsn with h | h
      · right; left
        exact ⟨hne, a, ha', by omega⟩
      · exact .inl h

theorem pair_of_ents {n m : Nat} {delta e : Int} {chk : Prop} {d j : Nat} {k : Int}
    {pg : Int → Option Nat} {x1 x2 : Nat}
    (hF : FrontOK n m delta e chk ((d : Int) - 1) (validP d) pg)
    (hj1 : 1 ≤ j) (hj : j ≤ d) (hk : k = (d : Int) - 2 * (j : Int))
    (h1 : Ent n m delta e chk d k pg x1) (h2 : Ent n m delta e chk d (k + 2) pg x2) :
    Pair n m k x1 x2 := by
  have hv1 : validP d (k + 1) := valid_up hj hk (.inr (by omega))
  obtain ⟨p1, hp1⟩ := hF.ex (k + 1) hv1
  have e21 : k + 2 - 1 = k + 1 := by omega
  have l1 : p1 ≤ x1 := h1.lowD (by omega) p1 hp1
  have l2 : p1 + 1 ≤ x2 := h2.lowR (by omega) p1 (by rw [e21]; exact hp1)
  constructor
  · intro hgt
    rcases h2.src with h | ⟨_, a, ha, hx⟩ | ⟨hne, b, hb, hx⟩
    · omega
    · rw [e21, hp1] at ha; cases ha
      omega
    · have hv3 : validP d (k + 1 + 2) := by unfold validP; right; omega
      have e3 : k + 2 + 1 = k + 1 + 2 := by omega
      rw [e3] at hb
      have := (hF.pair (k + 1) p1 b hv1 hv3 hp1 hb).1
      omega
  · intro hgt
    rcases h1.src with h | ⟨hne, a, ha, hx⟩ | ⟨_, b, hb, hx⟩
    · omega
    · have hv0 : validP d (k - 1) := valid_dn hj hk hne
      have e0 : k - 1 + 2 = k + 1 := by omega
      have := (hF.pair (k - 1) a p1 hv0 (by rw [e0]; exact hv1) ha (by rw [e0]; exact hp1)).2
      omega
    · rw [hp1] at hb; cases hb
      omega

theorem front_of_cur {n m : Nat} {delta e : Int} {chk : Prop} {d : Nat} {pg g : Int → Option Nat}
    (hc : FCur2 n m delta e chk d (d + 1) pg g) :
    FrontOK n m delta e chk (((d + 1 : Nat) : Int) - 1) (validP (d + 1)) g := by
  have hD : (((d + 1 : Nat) : Int) - 1) = d := by omega
  rw [hD]
  have key : ∀ k, validP (d + 1) k → ∃ j' : Nat, j' < d + 1 ∧ (d : Int) - 2 * (j' : Int) = k := by
    intro k hk
    refine ⟨(((d : Int) - k) / 2).toNat, ?_, ?_⟩ <;> (unfold validP at hk; omega)
  refine ⟨?_, ?_, ?_⟩
  · intro k hk
    obtain ⟨j', hj', ek⟩ := key k hk
    obtain ⟨x, hx, _⟩ := hc j' hj'
    exact ⟨x, ek ▸ hx⟩
  · intro k x hk hx
    obtain ⟨j', hj', ek⟩ := key k hk
    obtain ⟨x', hx', he, _⟩ := hc j' hj'
    rw [ek] at hx' he
    rw [hx] at hx'; cases hx'
    exact ⟨he.g, he.no, fun h => he.zero (by omega)⟩
  · intro k x x2 hk hk2 hx hx2
    obtain ⟨j', hj', ek⟩ := key k hk
    obtain ⟨x', hx', _, hp⟩ := hc j' hj'
    obtain ⟨x2', hx2', hpair⟩ := hp (by unfold validP at hk2; omega)
    rw [ek] at hx' hx2' hpair
    rw [hx] at hx'; cases hx'
    rw [hx2] at hx2'; cases hx2'
    exact hpair

/-- "no overlap" for a stored value whose check failed against the other pass's value `b` -/
theorem no_of_check {n m : Nat} {delta c k : Int} {x1 b : Nat} (hdelta : delta = (n : Int) - m)
    (hlt : x1 + b < n) (hb : c + (delta - k) ≤ 2 * (b : Int)) (hr : inR delta c k) :
    (x1 : Int) < n ∧ (x1 : Int) - k < m := by
  unfold inR at hr
  omega

/-- the detection step -/
theorem detect {n m : Nat} {delta e : Int} {chk : Prop} {d j : Nat} {k : Int}
    {pg g : Int → Option Nat} {x x1 : Nat}
    (hF : FrontOK n m delta e chk ((d : Int) - 1) (validP d) pg)
    (hag : ∀ k', validP d k' → g k' = pg k')
    (hj : j ≤ d) (hk : k = (d : Int) - 2 * (j : Int)) (hs : StepFacts n m d k g x x1)
    (hchk : chk) (hr : inR delta ((d : Int) - e) k) (he : e = 0 ∨ e = 1) (hpar : (delta + e) % 2 = 0)
    (hn : 1 ≤ n) (hm : 1 ≤ m) (hdelta : delta = (n : Int) - m) :
    (x : Int) ≤ n ∧ (x : Int) - k ≤ m ∧ ¬ ((x : Int) = n ∧ (x : Int) - k = m) ∧ (d : Int) + k ≤ 2 * (x : Int) := by
  unfold inR at hr
  rcases hs.pick with ⟨hg, hcase⟩ | ⟨hne, a, ha, hxa, hcase⟩
  · have hv : validP d (k + 1) := valid_up hj hk (by rcases hcase with h | ⟨h, _⟩; exact .inl h; exact .inr h)
    have hg' : pg (k + 1) = some x := by rw [← hag _ hv]; exact hg
    have hkk : k = -(d : Int) ∨ k ≠ d := by rcases hcase with h | ⟨h, _⟩; exact .inl h; exact .inr h
    clear hcase
    obtain ⟨⟨g1, g2, g3⟩, hno, hz⟩ := hF.ent (k + 1) x hv hg'
    have hno := hno hchk
    unfold inR at hno
    by_cases hkd : k = -(d : Int)
    · omega
    · have hv0 : validP d (k - 1) := valid_dn hj hk hkd
      obtain ⟨a, ha⟩ := hF.ex (k - 1) hv0
      obtain ⟨⟨a1, a2, a3⟩, hno0, hz0⟩ := hF.ent (k - 1) a hv0 ha
      have hno0 := hno0 hchk
      unfold inR at hno0
      have e0 : k - 1 + 2 = k + 1 := by omega
      obtain ⟨p1, p2⟩ := hF.pair (k - 1) a x hv0 (by rw [e0]; exact hv) ha (by rw [e0]; exact hg')
      omega
  · have hv : validP d (k - 1) := valid_dn hj hk hne
    have ha' : pg (k - 1) = some a := by rw [← hag _ hv]; exact ha
    clear hcase
    obtain ⟨⟨a1, a2, a3⟩, hno0, hz0⟩ := hF.ent (k - 1) a hv ha'
    have hno0 := hno0 hchk
    unfold inR at hno0
    by_cases hkd : k = (d : Int)
    · omega
    · have hv1 : validP d (k + 1) := valid_up hj hk (.inr hkd)
      obtain ⟨b, hb⟩ := hF.ex (k + 1) hv1
      obtain ⟨⟨g1, g2, g3⟩, hno, hz⟩ := hF.ent (k + 1) b hv1 hb
      have hno := hno hchk
      unfold inR at hno
      have e0 : k - 1 + 2 = k + 1 := by omega
      obtain ⟨p1, p2⟩ := hF.pair (k - 1) a b hv (by rw [e0]; exact hv1) ha' (by rw [e0]; exact hb)
      omega

/-- one iteration at the level of read functions: `g'` is `g` with `x1` stored on diagonal `k` -/
theorem cur_step {n m : Nat} {delta e : Int} {chk : Prop} {d j : Nat} {k : Int}
    {pg g g' : Int → Option Nat} {x x1 : Nat}
    (hF : FrontOK n m delta e chk ((d : Int) - 1) (validP d) pg)
    (hag : ∀ k', validP d k' → g k' = pg k')
    (hc : FCur2 n m delta e chk d j pg g)
    (hj : j ≤ d) (hk : k = (d : Int) - 2 * (j : Int)) (hs : StepFacts n m d k g x x1)
    (hno : chk → inR delta ((d : Int) - e) k → (x1 : Int) < n ∧ (x1 : Int) - k < m)
    (hself : g' k = some x1) (hne : ∀ k', k' ≠ k → g' k' = g k') :
    (∀ k', validP d k' → g' k' = pg k') ∧ FCur2 n m delta e chk d (j + 1) pg g' := by
  have hent := ent_of_step hF hag hj hk hs hno
  constructor
  · intro k' hk'
    rw [hne k' (by unfold validP at hk'; omega)]
    exact hag k' hk'
  · intro j' hj'
    by_cases hjj : j' = j
    · subst hjj
      rw [← hk]
      refine ⟨x1, hself, hent, ?_⟩
      intro h1
      obtain ⟨j0, rfl⟩ : ∃ j0, j' = j0 + 1 := ⟨j' - 1, by omega⟩
      obtain ⟨x2, hx2, hent2, _⟩ := hc j0 (by omega)
      have ek : (d : Int) - 2 * ((j0 : Nat) : Int) = k + 2 := by omega
      rw [ek] at hx2 hent2
      refine ⟨x2, ?_, pair_of_ents hF h1 hj hk hent hent2⟩
      rw [hne _ (by omega)]
      exact hx2
    · obtain ⟨x', hx', hent', hp'⟩ := hc j' (by omega)
      refine ⟨x', ?_, hent', ?_⟩
      · rw [hne _ (by omega)]; exact hx'
      · intro h1
        obtain ⟨x2, hx2, hp2⟩ := hp' h1
        refine ⟨x2, ?_, hp2⟩
        rw [hne _ (by omega)]; exact hx2

end AmVerif.Myers
