import AmVerif.Proofs.DocCodecChecks
import AmVerif.Proofs.DocCodecEx
/-
  The decidable hypotheses of the reconstruction theorem on the example history, part 1: the hashes of
  the first two changes (SHA-256 evaluated by the kernel).
-/
namespace AmVerif.DocCodec
open AmVerif AmVerif.Crdt

set_option maxRecDepth 100000 in
theorem Ex.history_hash0 : HashD Ex.history[0] := by decide +kernel

set_option maxRecDepth 100000 in
theorem Ex.history_hash1 : HashD Ex.history[1] := by decide +kernel

end AmVerif.DocCodec
