import AmVerif.Model.Serde
import AmVerif.Proofs.Json
/-
  Helper lemmas for C32 (the decoder rebuilds the winners-only image from the call sequence and
  accepts every announced length) and C33 (export ∘ import is the identity on serde_json values).
-/
namespace AmVerif
open Dec

/-! ### running the consumer over concatenated call sequences -/

theorem Dec.run_append : ∀ (a b : List Ev) (s : St),
    Dec.run s (a ++ b) = (Dec.run s a).bind (fun s' => Dec.run s' b)
  | [], b, s => by simp [Dec.run]
  | e :: a, b, s => by
    simp only [List.cons_append, Dec.run]
    cases h : Dec.step s e with
    | none => simp
    | some s' => simp [Dec.run_append a b s']

theorem Dec.run_append_of {a b : List Ev} {s s' : St} (h : Dec.run s a = some s') :
    Dec.run s (a ++ b) = Dec.run s' b := by
  rw [Dec.run_append, h]; rfl

theorem Dec.deliver_running {s s' : St} {x : SVal} (h : deliver s x = some s') :
    ∃ stk, s = .running stk ∧ accepts (.running stk) = true := by
  cases s with
  | done v => simp [deliver] at h
  | running stk =>
    refine ⟨stk, rfl, ?_⟩
    match stk, h with
    | [], _ => rfl
    | .map _ _ (some _) :: _, _ => rfl
    | .map _ _ none :: _, h => simp [deliver] at h
    | .seq _ _ :: _, _ => rfl

theorem Dec.push_running {stk : List Frame} (f : Frame) (h : accepts (.running stk) = true) :
    push f (.running stk) = some (.running (f :: stk)) := by
  simp [push, h]

/-- a leaf call hands its value to the innermost container -/
theorem Dec.run_leaf {s s' : St} {e : Ev} {x : SVal} (hstep : ∀ s, Dec.step s e = deliver s x)
    (h : deliver s x = some s') : Dec.run s [e] = some s' := by
  simp [Dec.run, hstep, h]

theorem run_u8s : ∀ (b : List Nat) (ann : Option Nat) (acc : List SVal) (stk : List Frame),
    Dec.run (.running (.seq ann acc :: stk)) (b.map Ev.u8)
      = some (.running (.seq ann ((b.map SVal.u8).reverse ++ acc) :: stk))
  | [], _, _, _ => by simp [Dec.run]
  | n :: b, ann, acc, stk => by
    simp only [List.map_cons, Dec.run, Dec.step, deliver]
    rw [run_u8s b ann (SVal.u8 n :: acc) stk]
    simp

theorem run_scalar (sc : Scalar) {s s' : St} (h : deliver s sc.image = some s') :
    Dec.run s sc.serialize = some s' := by
  cases sc with
  | bytes b =>
    obtain ⟨stk, rfl, hacc⟩ := Dec.deliver_running h
    simp only [Scalar.serialize, Dec.run, Dec.step, Dec.push_running _ hacc]
    rw [Dec.run_append_of (run_u8s b _ _ _)]
    simp only [Dec.run, Dec.step, List.append_nil, List.length_reverse, List.length_map, lenOk,
      beq_self_eq_true, if_true, List.reverse_reverse]
    simp only [Scalar.image] at h
    rw [h]
  | str x => exact Dec.run_leaf (fun _ => rfl) h
  | int i => exact Dec.run_leaf (fun _ => rfl) h
  | uint n => exact Dec.run_leaf (fun _ => rfl) h
  | f64 b => exact Dec.run_leaf (fun _ => rfl) h
  | counter a i => exact Dec.run_leaf (fun _ => rfl) h
  | timestamp i => exact Dec.run_leaf (fun _ => rfl) h
  | bool b => exact Dec.run_leaf (fun _ => rfl) h
  | null => exact Dec.run_leaf (fun _ => rfl) h

/-! ### `length()` counts exactly the registers that are exported -/

theorem mapLength_eq : ∀ es : List (String × Reg), mapLength es = (Val.imageEntries es).length
  | [] => rfl
  | (k, .live w ls) :: es => by
    have ih := mapLength_eq es
    unfold mapLength at ih ⊢
    rw [List.filter_cons_of_pos (by rfl)]
    simp [Val.imageEntries, ih]
  | (k, .dead) :: es => by
    have ih := mapLength_eq es
    unfold mapLength at ih ⊢
    rw [List.filter_cons_of_neg (by simp [Reg.isLive])]
    simpa [Val.imageEntries] using ih

/-! ### the consumer rebuilds the image -/

mutual
theorem run_val : ∀ (v : Val) (s s' : St), deliver s v.image = some s' →
    Dec.run s v.serialize = some s'
  | .scalar sc, s, s', h => by
    simp only [Val.image] at h
    simp only [Val.serialize]
    exact run_scalar sc h
  | .text x, s, s', h => by
    simp only [Val.image] at h
    simp only [Val.serialize]
    exact Dec.run_leaf (fun _ => rfl) h
  | .map es, s, s', h => by
    obtain ⟨stk, rfl, hacc⟩ := Dec.deliver_running h
    simp only [Val.image] at h
    simp only [Val.serialize, Dec.run, Dec.step, Dec.push_running _ hacc]
    rw [Dec.run_append_of (run_entries es _ _ _)]
    simp only [Dec.run, Dec.step, List.append_nil, List.length_reverse, lenOk, mapLength_eq,
      beq_self_eq_true, if_true, List.reverse_reverse]
    rw [h]
  | .list rs, s, s', h => by
    obtain ⟨stk, rfl, hacc⟩ := Dec.deliver_running h
    simp only [Val.image] at h
    simp only [Val.serialize, Dec.run, Dec.step, Dec.push_running _ hacc]
    rw [Dec.run_append_of (run_regs rs _ _ _)]
    simp only [Dec.run, Dec.step, List.append_nil, lenOk, if_true, List.reverse_reverse]
    rw [h]
theorem run_entries : ∀ (es : List (String × Reg)) (ann : Option Nat) (acc : List (String × SVal))
    (stk : List Frame),
    Dec.run (.running (.map ann acc none :: stk)) (Val.serializeEntries es)
      = some (.running (.map ann ((Val.imageEntries es).reverse ++ acc) none :: stk))
  | [], _, _, _ => by simp [Val.serializeEntries, Val.imageEntries, Dec.run]
  | (k, .live w ls) :: es, ann, acc, stk => by
    simp only [Val.serializeEntries, Val.imageEntries, Dec.run, Dec.step]
    rw [Dec.run_append_of (run_val w (.running (.map ann acc (some k) :: stk))
          (.running (.map ann ((k, w.image) :: acc) none :: stk)) rfl)]
    rw [run_entries es ann ((k, w.image) :: acc) stk]
    simp
  | (k, .dead) :: es, ann, acc, stk => by
    simp only [Val.serializeEntries, Val.imageEntries]
    exact run_entries es ann acc stk
theorem run_regs : ∀ (rs : List Reg) (ann : Option Nat) (acc : List SVal) (stk : List Frame),
    Dec.run (.running (.seq ann acc :: stk)) (Val.serializeRegs rs)
      = some (.running (.seq ann ((Val.imageRegs rs).reverse ++ acc) :: stk))
  | [], _, _, _ => by simp [Val.serializeRegs, Val.imageRegs, Dec.run]
  | .live w ls :: rs, ann, acc, stk => by
    simp only [Val.serializeRegs, Val.imageRegs]
    rw [Dec.run_append_of (run_val w (.running (.seq ann acc :: stk))
          (.running (.seq ann (w.image :: acc) :: stk)) rfl)]
    rw [run_regs rs ann (w.image :: acc) stk]
    simp
  | .dead :: rs, ann, acc, stk => by
    simp only [Val.serializeRegs, Val.imageRegs]
    exact run_regs rs ann acc stk
end

/-! ### the length discipline is implied by a successful strict decode -/

def eraseFrame : Dec.Frame → Len.Frame
  | .map ann acc p => ⟨true, ann, acc.length, p.isSome⟩
  | .seq ann acc => ⟨false, ann, acc.length, false⟩

def erase : Dec.St → Len.St
  | .running stk => some (stk.map eraseFrame)
  | .done _ => none

theorem sim_deliver {s s' : St} {x : SVal} (h : deliver s x = some s') :
    Len.deliver (erase s) = some (erase s') := by
  match s, h with
  | .running [], h => simp [deliver] at h; subst h; rfl
  | .running (.map ann acc (some k) :: st), h =>
    simp [deliver] at h; subst h
    simp [erase, eraseFrame, Len.deliver]
  | .running (.map _ _ none :: _), h => simp [deliver] at h
  | .running (.seq ann acc :: st), h =>
    simp [deliver] at h; subst h
    simp [erase, eraseFrame, Len.deliver]
  | .done _, h => simp [deliver] at h

theorem sim_accepts (s : St) : Len.accepts (erase s) = Dec.accepts s := by
  match s with
  | .running [] => rfl
  | .running (.map _ _ (some _) :: _) => rfl
  | .running (.map _ _ none :: _) => rfl
  | .running (.seq _ _ :: _) => rfl
  | .done _ => rfl

theorem sim_push {s s' : St} {f : Dec.Frame} (h : push f s = some s') :
    Len.push (eraseFrame f) (erase s) = some (erase s') := by
  cases s with
  | done v => simp [push] at h
  | running stk =>
    have ha := sim_accepts (.running stk)
    simp only [push] at h
    split at h
    · rename_i hacc
      simp at h; subst h
      simp only [erase] at ha ⊢
      simp [Len.push, ha, hacc]
    · simp at h

theorem sim_step {s s' : St} {e : Ev} (h : Dec.step s e = some s') :
    Len.step (erase s) e = some (erase s') := by
  cases e with
  | unit => exact sim_deliver h
  | bool b => exact sim_deliver h
  | i64 i => exact sim_deliver h
  | u64 n => exact sim_deliver h
  | u8 n => exact sim_deliver h
  | f64 b => exact sim_deliver h
  | str x => exact sim_deliver h
  | mapStart len => exact sim_push h
  | seqStart len => exact sim_push h
  | key k =>
    match s, h with
    | .running (.map ann acc none :: st), h =>
      simp [Dec.step] at h; subst h
      simp [erase, eraseFrame, Len.step]
    | .running [], h => simp [Dec.step] at h
    | .running (.map _ _ (some _) :: _), h => simp [Dec.step] at h
    | .running (.seq _ _ :: _), h => simp [Dec.step] at h
    | .done _, h => simp [Dec.step] at h
  | mapEnd =>
    match s, h with
    | .running (.map ann acc none :: st), h =>
      simp only [Dec.step] at h
      split at h
      · rename_i hl
        have := sim_deliver h
        simp only [erase] at this
        simp [erase, eraseFrame, Len.step, hl, this]
      · simp at h
    | .running [], h => simp [Dec.step] at h
    | .running (.map _ _ (some _) :: _), h => simp [Dec.step] at h
    | .running (.seq _ _ :: _), h => simp [Dec.step] at h
    | .done _, h => simp [Dec.step] at h
  | seqEnd =>
    match s, h with
    | .running (.seq ann acc :: st), h =>
      simp only [Dec.step] at h
      split at h
      · rename_i hl
        have := sim_deliver h
        simp only [erase] at this
        simp [erase, eraseFrame, Len.step, hl, this]
      · simp at h
    | .running [], h => simp [Dec.step] at h
    | .running (.map _ _ _ :: _), h => simp [Dec.step] at h
    | .done _, h => simp [Dec.step] at h

theorem sim_run : ∀ (es : List Ev) (s s' : St), Dec.run s es = some s' →
    Len.run (erase s) es = some (erase s')
  | [], s, s', h => by simp [Dec.run] at h; subst h; rfl
  | e :: es, s, s', h => by
    simp only [Dec.run] at h
    cases hs : Dec.step s e with
    | none => simp [hs] at h
    | some s1 =>
      simp only [hs] at h
      simp only [Len.run, sim_step hs]
      exact sim_run es s1 s' h

/-- a call sequence the strict decoder accepts has only true length announcements -/
theorem lengthsTrue_of_decode {evs : List Ev} {x : SVal} (h : decodeEvents evs = some x) :
    lengthsTrue evs = true := by
  unfold decodeEvents at h
  cases hr : Dec.run (.running []) evs with
  | none => simp [hr] at h
  | some s =>
    cases s with
    | running stk => simp [hr] at h
    | done v =>
      have := sim_run evs _ _ hr
      simp only [erase, List.map_nil] at this
      simp [lengthsTrue, this]

/-! ### import then export -/

theorem importEntries_keys : ∀ kvs : List (String × Json),
    (importEntries kvs).map Prod.fst = kvs.map Prod.fst
  | [] => by simp [importEntries]
  | (k, v) :: kvs => by simp [importEntries, importEntries_keys kvs]

mutual
theorem export_import_val : ∀ j : Json, j.WF → (importVal j).image.toJson = j
  | .null, _ => by simp [importVal, Val.image, Scalar.image, SVal.toJson]
  | .bool b, _ => by simp [importVal, Val.image, Scalar.image, SVal.toJson]
  | .str s, _ => by simp [importVal, Val.image, Scalar.image, SVal.toJson]
  | .num n, h => by
    cases n with
    | int i => simp [importVal, importNum, Val.image, Scalar.image, SVal.toJson]
    | uint n =>
      have h' : ¬ (n : Int) ≤ I64_MAX := by
        simp only [Json.WF, JNum.WF] at h
        omega
      simp [importVal, importNum, Val.image, Scalar.image, SVal.toJson, h']
    | float b =>
      have h' : f64Finite b = true := by simpa [Json.WF, JNum.WF] using h
      simp [importVal, importNum, Val.image, Scalar.image, SVal.toJson, h']
  | .arr xs, h => by
    simp only [Json.WF] at h
    simp [importVal, Val.image, SVal.toJson, export_import_list xs h]
  | .obj kvs, h => by
    simp only [Json.WF] at h
    have hs : KeysSorted (importEntries kvs) := keysSorted_of_keys_eq (importEntries_keys kvs) h.1
    simp only [importVal, Val.image, SVal.toJson, fromEntries_sorted _ hs,
      export_import_entries kvs h.2, fromEntries_sorted _ h.1]
theorem export_import_list : ∀ xs : List Json, Json.WFList xs →
    SVal.toJsonList (Val.imageRegs (importList xs)) = xs
  | [], _ => by simp [importList, Val.imageRegs, SVal.toJsonList]
  | x :: xs, h => by
    simp only [Json.WFList] at h
    simp [importList, Val.imageRegs, SVal.toJsonList, export_import_val x h.1,
      export_import_list xs h.2]
theorem export_import_entries : ∀ kvs : List (String × Json), Json.WFObj kvs →
    SVal.toJsonEntries (Val.imageEntries (importEntries kvs)) = kvs
  | [], _ => by simp [importEntries, Val.imageEntries, SVal.toJsonEntries]
  | (k, v) :: kvs, h => by
    simp only [Json.WFObj] at h
    simp [importEntries, Val.imageEntries, SVal.toJsonEntries, export_import_val v h.1,
      export_import_entries kvs h.2]
end

/-! ### what `export` prints is again a value `import` accepts unchanged -/

theorem insertKV_WFObj {k : String} {v : Json} (hv : v.WF) :
    ∀ (l : List (String × Json)), Json.WFObj l → Json.WFObj (insertKV k v l)
  | [], _ => by simp [insertKV, Json.WFObj, hv]
  | (k', v') :: rest, h => by
    simp only [Json.WFObj] at h
    unfold insertKV
    split
    · simp [Json.WFObj, hv, h.1, h.2]
    · split
      · simp [Json.WFObj, hv, h.2]
      · simp [Json.WFObj, h.1, insertKV_WFObj hv rest h.2]

theorem fromEntries_WFObj (kvs : List (String × Json)) (h : Json.WFObj kvs) :
    Json.WFObj (fromEntries kvs) := by
  unfold fromEntries
  have : ∀ (l acc : List (String × Json)), Json.WFObj l → Json.WFObj acc →
      Json.WFObj (l.foldl (fun m kv => insertKV kv.1 kv.2 m) acc) := by
    intro l
    induction l with
    | nil => intro acc _ h; simpa using h
    | cons kv l ih =>
      intro acc hl hacc
      obtain ⟨k, v⟩ := kv
      simp only [Json.WFObj] at hl
      simp only [List.foldl_cons]
      exact ih _ hl.2 (insertKV_WFObj hl.1 _ hacc)
  exact this kvs [] h (by simp [Json.WFObj])

theorem bytes_toJson_WF : ∀ b : List Nat, (∀ x ∈ b, x < 256) →
    Json.WFList (SVal.toJsonList (b.map SVal.u8))
  | [], _ => by simp [SVal.toJsonList, Json.WFList]
  | x :: b, h => by
    have hx : x < 256 := h x (by simp)
    have ih := bytes_toJson_WF b (fun y hy => h y (by simp [hy]))
    simp only [List.map_cons, SVal.toJsonList, SVal.toJson, Json.WFList, Json.WF, JNum.WF,
      I64_MIN, I64_MAX]
    exact ⟨by omega, ih⟩

theorem scalar_export_WF (sc : Scalar) (h : sc.InRange) : sc.image.toJson.WF := by
  cases sc with
  | bytes b => simp only [Scalar.image, SVal.toJson, Json.WF]; exact bytes_toJson_WF b h
  | str s => simp [Scalar.image, SVal.toJson, Json.WF]
  | int i => simpa [Scalar.image, SVal.toJson, Json.WF, JNum.WF, Scalar.InRange] using h
  | uint n =>
    simp only [Scalar.InRange] at h
    simp only [Scalar.image, SVal.toJson]
    split
    · rename_i hle
      simp only [Json.WF, JNum.WF, I64_MIN]
      exact ⟨by omega, hle⟩
    · rename_i hgt
      simp only [Json.WF, JNum.WF]
      exact ⟨by omega, h⟩
  | f64 b =>
    simp only [Scalar.image, SVal.toJson]
    split
    · rename_i hf; simpa [Json.WF, JNum.WF] using hf
    · simp [Json.WF]
  | counter a i => simpa [Scalar.image, SVal.toJson, Json.WF, JNum.WF, Scalar.InRange] using h
  | timestamp i => simpa [Scalar.image, SVal.toJson, Json.WF, JNum.WF, Scalar.InRange] using h
  | bool b => simp [Scalar.image, SVal.toJson, Json.WF]
  | null => simp [Scalar.image, SVal.toJson, Json.WF]

mutual
theorem export_WF : ∀ v : Val, v.InRange → (exportJson v).WF
  | .scalar sc, h => by
    simp only [Val.InRange] at h
    simp only [exportJson, Val.image]
    exact scalar_export_WF sc h
  | .text s, _ => by simp [exportJson, Val.image, SVal.toJson, Json.WF]
  | .map es, h => by
    simp only [Val.InRange] at h
    simp only [exportJson, Val.image, SVal.toJson, Json.WF]
    exact ⟨fromEntries_keysSorted _, fromEntries_WFObj _ (export_WF_entries es h)⟩
  | .list rs, h => by
    simp only [Val.InRange] at h
    simp only [exportJson, Val.image, SVal.toJson, Json.WF]
    exact export_WF_regs rs h
theorem export_WF_entries : ∀ es : List (String × Reg), Val.InRangeEntries es →
    Json.WFObj (SVal.toJsonEntries (Val.imageEntries es))
  | [], _ => by simp [Val.imageEntries, SVal.toJsonEntries, Json.WFObj]
  | (k, .live w ls) :: es, h => by
    simp only [Val.InRangeEntries] at h
    simp only [Val.imageEntries, SVal.toJsonEntries, Json.WFObj]
    exact ⟨export_WF w h.1, export_WF_entries es h.2⟩
  | (k, .dead) :: es, h => by
    simp only [Val.InRangeEntries] at h
    simp only [Val.imageEntries]
    exact export_WF_entries es h
theorem export_WF_regs : ∀ rs : List Reg, Val.InRangeRegs rs →
    Json.WFList (SVal.toJsonList (Val.imageRegs rs))
  | [], _ => by simp [Val.imageRegs, SVal.toJsonList, Json.WFList]
  | .live w ls :: rs, h => by
    simp only [Val.InRangeRegs] at h
    simp only [Val.imageRegs, SVal.toJsonList, Json.WFList]
    exact ⟨export_WF w h.1, export_WF_regs rs h.2⟩
  | .dead :: rs, h => by
    simp only [Val.InRangeRegs] at h
    simp only [Val.imageRegs]
    exact export_WF_regs rs h
end

end AmVerif
