import AmVerif.Proofs.DocCodecCanon
/-
  C11 (document chunk), reconstruction: the op rows `save` writes (the rows of the op store, `imageOf`)
  hand the collector exactly the history's ops.

  `emitOk_of_store`: for an admissible history whose ops name predecessors that are stored ops of their own
  register with smaller ids, listed in ascending order, and whose deletes name at least one predecessor
  (`OpsR`): `EmitOk applied` — the ops `ChangeCollector` receives for the rows of `imageOf applied` are,
  once each, the ops of the applied changes with their predecessor lists (deletes re-created from the
  successor lists).
-/
namespace AmVerif.DocCodec
open AmVerif AmVerif.Crdt AmVerif.ChangeCodec

/-- what the emission needs of the history's ops (`table` = the document's actor table) -/
structure OpsR (table : List Bytes) (ops : List Op) : Prop where
  adm : Admissible ops
  /-- an op's predecessors belong to its register -/
  predsReg : ∀ N ∈ ops, ∀ x ∈ ops, x.id ∈ N.pred → κ x = κ N
  idActors : ∀ o ∈ ops, o.id.actor ∈ table
  actors : ∀ o ∈ ops, ∀ a ∈ opActors o, a ∈ table
  /-- … are stored ops of the history -/
  predStored : ∀ o ∈ ops, ∀ p ∈ o.pred, ∃ q ∈ ops, q.id = p ∧ q.isDel = false
  /-- … with smaller ids -/
  predSmaller : ∀ o ∈ ops, ∀ p ∈ o.pred, p.lt o.id = true
  /-- … listed in ascending order -/
  predSorted : ∀ o ∈ ops, o.pred.Pairwise (fun a b => a.lt b = true)
  /-- a delete names a predecessor (otherwise it leaves no trace in the document, finding F4) -/
  delPred : ∀ o ∈ ops, o.isDel = true → o.pred ≠ []

theorem toIdx_inj {table : List Bytes} {a b : OpId} (ha : a.actor ∈ table) (hb : b.actor ∈ table)
    (h : toIdx table a = toIdx table b) : a = b := by
  unfold toIdx at h
  have h1 : a.ctr = b.ctr := congrArg IdI.ctr h
  have h2 : idxOf table a.actor = idxOf table b.actor := congrArg IdI.actor h
  have h3 := idxOf_inj ha hb h2
  cases a; cases b
  simp only at h1 h3
  rw [h1, h3]

/-- the row of an op of the history -/
def rowOfOp (table : List Bytes) (ops : List Op) (o : Op) : OpRow :=
  rowOf table ⟨o, succOf ops o, false, false, none⟩

theorem rowOf_eq_rowOfOp (table : List Bytes) (ops : List Op) (r : Crdt.Row) (h : r.succ = succOf ops r.op) :
    rowOf table r = rowOfOp table ops r.op := by
  unfold rowOfOp rowOf
  simp only [h]

/-- the registers as the rows show them -/
def objI (table : List Bytes) : ObjId → Option IdI
  | .root => none
  | .id i => some (toIdx table i)

def keyI (table : List Bytes) : Key → DKey
  | .map k => .prop k
  | .head => .head
  | .elem e => .elem (toIdx table e)

def ι (table : List Bytes) (k : ObjId × Key) : Option IdI × DKey := (objI table k.1, keyI table k.2)

theorem keyOf_rowOfOp (table : List Bytes) (ops : List Op) (o : Op) :
    keyOf (rowOfOp table ops o) = ι table (κ o) := by
  unfold keyOf rowOfOp rowOf OpRow.regKey ι κ Op.regKey objI keyI
  obtain ⟨id, obj, key, ins, act, pred⟩ := o
  cases ins <;> cases obj <;> cases key <;> rfl

theorem rowOfOp_id (table : List Bytes) (ops : List Op) (o : Op) : (rowOfOp table ops o).id = toIdx table o.id := rfl

theorem rowOfOp_succ (table : List Bytes) (ops : List Op) (o : Op) :
    (rowOfOp table ops o).succ = (succOf ops o).map (fun p => toIdx table p.1) := rfl

/-- the actors a register names -/
def KeyIn (table : List Bytes) (k : ObjId × Key) : Prop :=
  (∀ i, k.1 = .id i → i.actor ∈ table) ∧ (∀ e, k.2 = .elem e → e.actor ∈ table)

theorem ι_inj {table : List Bytes} {k1 k2 : ObjId × Key} (h1 : KeyIn table k1) (h2 : KeyIn table k2)
    (h : ι table k1 = ι table k2) : k1 = k2 := by
  obtain ⟨o1, y1⟩ := k1
  obtain ⟨o2, y2⟩ := k2
  unfold ι at h
  simp only [Prod.mk.injEq] at h
  obtain ⟨ho, hk⟩ := h
  have e1 : o1 = o2 := by
    cases o1 <;> cases o2 <;> simp only [objI] at ho
    · rfl
    · cases ho
    · cases ho
    · rename_i a b
      simp only [Option.some.injEq] at ho
      rw [toIdx_inj (h1.1 a rfl) (h2.1 b rfl) ho]
  have e2 : y1 = y2 := by
    cases y1 <;> cases y2 <;> simp only [keyI] at hk <;> try cases hk
    · rfl
    · rfl
    · rename_i a b
      simp only [DKey.elem.injEq] at hk
      rw [toIdx_inj (h1.2 a rfl) (h2.2 b rfl) hk]
  rw [e1, e2]

theorem keyIn_κ {table : List Bytes} {ops : List Op} (hr : OpsR table ops) {o : Op} (ho : o ∈ ops) :
    KeyIn table (κ o) := by
  refine ⟨fun i hi => hr.actors o ho _ (mem_opActors_obj hi), fun e he => ?_⟩
  unfold κ Op.regKey at he
  simp only [] at he
  split at he
  · cases he
    exact hr.idActors o ho
  · exact hr.actors o ho _ (mem_opActors_key he)

/-- the register of the op with a given (index) id -/
def kfOf (table : List Bytes) (ops : List Op) (sid : IdI) : Option IdI × DKey :=
  match ops.find? (fun o => toIdx table o.id = sid) with
  | some o => ι table (κ o)
  | none => (none, .head)

theorem kfOf_mem {table : List Bytes} {ops : List Op} (hr : OpsR table ops) {o : Op} (ho : o ∈ ops) :
    kfOf table ops (toIdx table o.id) = ι table (κ o) := by
  have hd : DistinctIds ops := StrictIds.distinctIds (Admissible.wf hr.adm).strict
  unfold kfOf
  cases hf : ops.find? (fun o' => toIdx table o'.id = toIdx table o.id) with
  | none =>
    have := List.find?_eq_none.1 hf o ho
    simp at this
  | some o' =>
    have h1 := List.mem_of_find?_eq_some hf
    have h2 : toIdx table o'.id = toIdx table o.id := by simpa using List.find?_some hf
    have := hd o' h1 o ho (toIdx_inj (hr.idActors o' h1) (hr.idActors o ho) h2)
    rw [this]

/-- who lists `p` as successor: the stored ops `p` names -/
theorem mem_succOf_ids {ops : List Op} (hd : DistinctIds ops) {o p : Op} (hp : p ∈ ops) :
    p.id ∈ (succOf ops o).map (·.1) ↔ o.id ∈ p.pred := by
  unfold succOf
  simp only [List.map_map, List.mem_map, Function.comp]
  constructor
  · rintro ⟨q, hq, hqe⟩
    have hq' := List.mem_filter.1 (mem_sortById.1 hq)
    have : q = p := hd q hq'.1 p hp hqe
    subst this
    simpa using hq'.2
  · intro h
    exact ⟨p, mem_sortById.2 (List.mem_filter.2 ⟨hp, by simpa using h⟩), rfl⟩

theorem mem_succOf_ops {ops : List Op} {o : Op} {x : OpId} (h : x ∈ (succOf ops o).map (·.1)) :
    ∃ p ∈ ops, p.id = x ∧ o.id ∈ p.pred := by
  unfold succOf at h
  simp only [List.map_map, List.mem_map, Function.comp] at h
  obtain ⟨q, hq, rfl⟩ := h
  have hq' := List.mem_filter.1 (mem_sortById.1 hq)
  exact ⟨q, hq'.1, rfl, by simpa using hq'.2⟩

section
variable {table : List Bytes} {ops : List Op}

theorem canon_sub (hr : OpsR table ops) {o : Op} (ho : o ∈ canon ops) : o ∈ ops ∧ o.isDel = false := by
  have hinv := buildStore_inv (fun _ => 0) hr.adm
  have := (List.mem_filter.1 (hinv.complete.mem_iff.1 ho))
  exact ⟨this.1, by simpa using this.2⟩

theorem mem_canon_of (hr : OpsR table ops) {o : Op} (ho : o ∈ ops) (hd : o.isDel = false) : o ∈ canon ops := by
  have hinv := buildStore_inv (fun _ => 0) hr.adm
  exact hinv.complete.mem_iff.2 (List.mem_filter.2 ⟨ho, by simp [hd]⟩)

theorem canon_strict (hr : OpsR table ops) : StrictIds (canon ops) := by
  have hinv := buildStore_inv (fun _ => 0) hr.adm
  exact ((Admissible.wf hr.adm).strict.filter _).perm hinv.complete.symm

/-- a successor id of a row is the id of an op of the history that names the row's op -/
theorem succ_of_row (hr : OpsR table ops) {o : Op} {sid : IdI}
    (h : sid ∈ (rowOfOp table ops o).succ) : ∃ p ∈ ops, sid = toIdx table p.id ∧ o.id ∈ p.pred := by
  rw [rowOfOp_succ] at h
  obtain ⟨x, hx, rfl⟩ := List.mem_map.1 h
  obtain ⟨p, hp, hpid, hpred⟩ := mem_succOf_ops (List.mem_map.2 ⟨x, hx, rfl⟩)
  exact ⟨p, hp, by rw [hpid], hpred⟩

theorem row_names_iff (hr : OpsR table ops) {o p : Op} (hp : p ∈ ops) :
    toIdx table p.id ∈ (rowOfOp table ops o).succ ↔ o.id ∈ p.pred := by
  have hd : DistinctIds ops := StrictIds.distinctIds (Admissible.wf hr.adm).strict
  constructor
  · intro h
    obtain ⟨p', hp', he, hpred⟩ := succ_of_row hr h
    have := hd p hp p' hp' (toIdx_inj (hr.idActors p hp) (hr.idActors p' hp') he)
    rw [this]; exact hpred
  · intro h
    rw [rowOfOp_succ]
    obtain ⟨x, hx, hxe⟩ := List.mem_map.1 ((mem_succOf_ids hd hp).2 h)
    exact List.mem_map.2 ⟨x, hx, by rw [hxe]⟩

/-- the image's rows are the rows of the store order -/
theorem image_rows {applied : List DChange} (hadm : Admissible (applied.flatMap (·.c.ops))) :
    (imageOf applied).ops =
      (canon (applied.flatMap (·.c.ops))).map
        (rowOfOp (actorTable applied) (applied.flatMap (·.c.ops))) := by
  have hinv := buildStore_inv (fun _ => 0) hadm
  show (buildStore (fun _ => 0) (applied.flatMap (·.c.ops))).map (rowOf (actorTable applied)) = _
  rw [← hinv.order, List.map_map]
  apply List.map_congr_left
  intro r hr
  exact rowOf_eq_rowOfOp _ _ r (hinv.succ r hr)

/-- **the rows of the store are fit for the collector** -/
theorem rowsOk_of_store (hr : OpsR table ops) :
    RowsOk (kfOf table ops) ((canon ops).map (rowOfOp table ops)) := by
  have hw := Admissible.wf hr.adm
  have hd : DistinctIds ops := StrictIds.distinctIds hw.strict
  refine ⟨?_, ?_, ?_, ?_, ?_, ?_⟩
  · -- row ids
    rw [List.map_map]
    unfold List.Nodup
    rw [List.pairwise_map]
    apply List.Pairwise.imp_of_mem _ (canon_strict hr)
    intro a b ha hb hne he
    exact hne (toIdx_inj (hr.idActors a (canon_sub hr ha).1) (hr.idActors b (canon_sub hr hb).1) he)
  · -- successor lists
    intro r hrm
    obtain ⟨o, _, rfl⟩ := List.mem_map.1 hrm
    rw [rowOfOp_succ]
    unfold succOf
    rw [List.map_map]
    unfold List.Nodup
    rw [List.pairwise_map]
    have hs : StrictIds (sortById (ops.filter (fun p => p.pred.contains o.id))) :=
      (hw.strict.filter _).perm (sortById_perm _).symm
    apply List.Pairwise.imp_of_mem _ hs
    intro a b ha hb hne he
    have ha' := (List.mem_filter.1 (mem_sortById.1 ha)).1
    have hb' := (List.mem_filter.1 (mem_sortById.1 hb)).1
    exact hne (toIdx_inj (hr.idActors a ha') (hr.idActors b hb') he)
  · intro r hrm
    obtain ⟨o, ho, rfl⟩ := List.mem_map.1 hrm
    rw [rowOfOp_id, kfOf_mem hr (canon_sub hr ho).1, keyOf_rowOfOp]
  · intro r hrm sid hs
    obtain ⟨o, ho, rfl⟩ := List.mem_map.1 hrm
    obtain ⟨p, hp, rfl, hpred⟩ := succ_of_row hr hs
    rw [kfOf_mem hr hp, keyOf_rowOfOp, hr.predsReg p hp o (canon_sub hr ho).1 hpred]
  · -- the registers are contiguous
    apply bnd_map
    apply bnd_congr (g := κ) _ (canon_bnd hw)
    intro a ha b hb
    simp only [keyOf_rowOfOp]
    constructor
    · exact ι_inj (keyIn_κ hr (canon_sub hr ha).1) (keyIn_κ hr (canon_sub hr hb).1)
    · intro h; rw [h]
  · -- a row is named by earlier rows only
    intro A y C hsplit x hx hys
    obtain ⟨l₁, l₂, hl, hA, h2⟩ := List.map_eq_append_iff.1 hsplit
    obtain ⟨oy, l₃, rfl, hy, h3⟩ := List.map_eq_cons_iff.1 h2
    subst hy h3
    have hoy : oy ∈ canon ops := by rw [hl]; simp
    have hx' : ∃ ox ∈ oy :: l₃, rowOfOp table ops ox = x := by
      rcases List.mem_cons.1 hx with rfl | h
      · exact ⟨oy, List.mem_cons_self .., rfl⟩
      · obtain ⟨ox, hox, rfl⟩ := List.mem_map.1 h
        exact ⟨ox, List.mem_cons_of_mem _ hox, rfl⟩
    obtain ⟨ox, hox, rfl⟩ := hx'
    have hoxc : ox ∈ canon ops := by rw [hl]; exact List.mem_append_right _ hox
    rw [rowOfOp_id] at hys
    have hpred : ox.id ∈ oy.pred := (row_names_iff hr (canon_sub hr hoy).1).1 hys
    have hlt := hr.predSmaller oy (canon_sub hr hoy).1 ox.id hpred
    have hκ := hr.predsReg oy (canon_sub hr hoy).1 ox (canon_sub hr hoxc).1 hpred
    rcases List.mem_cons.1 hox with rfl | hox
    · rw [OpId.lt_irrefl] at hlt; cases hlt
    · have hasc := canon_asc hw
      rw [hl, List.pairwise_append] at hasc
      have := (List.pairwise_cons.1 hasc.2.1).1 ox hox hκ.symm
      exact OpId.lt_asymm hlt this

/-- the predecessors the collector derives: the rows naming the op, in store order = the op's list -/
theorem namers_store (hr : OpsR table ops) {o : Op} (ho : o ∈ ops) :
    namers ((canon ops).map (rowOfOp table ops)) (toIdx table o.id) = o.pred.map (toIdx table) := by
  have hw := Admissible.wf hr.adm
  unfold namers
  rw [List.filter_map, List.map_map]
  have hfilter : (canon ops).filter ((fun x => x.succ.contains (toIdx table o.id)) ∘ rowOfOp table ops) =
      (canon ops).filter (fun q => o.pred.contains q.id) := by
    apply List.filter_congr
    intro q _
    have := row_names_iff hr (o := q) ho
    simp only [Function.comp]
    by_cases h : q.id ∈ o.pred
    · simp [h, this.2 h]
    · have h' : toIdx table o.id ∉ (rowOfOp table ops q).succ := fun hh => h (this.1 hh)
      simp [h, h']
  rw [hfilter]
  have hids : ((canon ops).filter (fun q => o.pred.contains q.id)).map (·.id) = o.pred := by
    apply eq_of_pairwise_of_mem_iff (r := fun a b => a.lt b = true) (fun a b h1 h2 => OpId.lt_asymm h1 h2)
    · rw [List.pairwise_map]
      apply List.Pairwise.imp_of_mem _ ((canon_asc hw).filter _)
      intro a b ha hb hab
      have ha' := List.mem_filter.1 ha
      have hb' := List.mem_filter.1 hb
      apply hab
      rw [hr.predsReg o ho a (canon_sub hr ha'.1).1 (by simpa using ha'.2),
        hr.predsReg o ho b (canon_sub hr hb'.1).1 (by simpa using hb'.2)]
    · exact hr.predSorted o ho
    · intro x
      rw [List.mem_map]
      constructor
      · rintro ⟨q, hq, rfl⟩
        simpa using (List.mem_filter.1 hq).2
      · intro hx
        obtain ⟨q, hq, hqid, hqd⟩ := hr.predStored o ho x hx
        exact ⟨q, List.mem_filter.2 ⟨mem_canon_of hr hq hqd, by simpa [hqid] using hx⟩, hqid⟩
  rw [show o.pred.map (toIdx table) =
    (((canon ops).filter (fun q => o.pred.contains q.id)).map (·.id)).map (toIdx table) from by rw [hids],
    List.map_map]
  rfl

theorem mkOp_rowOfOp (o : Op) :
    mkOp (rowOfOp table ops o) (o.pred.map (toIdx table)) = recOf table o := rfl

theorem isDel_action {o : Op} (h : o.isDel = true) : o.action = .del := by
  unfold Op.isDel at h
  cases ha : o.action <;> rw [ha] at h <;> first | rfl | cases h

theorem mkDel_recOf (hr : OpsR table ops) {p : Op} (hp : p ∈ ops) (hdel : p.isDel = true) :
    mkDel (ι table (κ p)) (toIdx table p.id, p.pred.map (toIdx table)) = recOf table p := by
  have hw := Admissible.wf hr.adm
  have hins : p.insert = false := by
    cases hi : p.insert with
    | false => rfl
    | true =>
      have := (hw.insSeq p hp hi).2
      rw [hdel] at this; cases this
  have hact := isDel_action hdel
  obtain ⟨id, obj, key, ins, act, pred⟩ := p
  simp only [] at hins hact
  subst hins hact
  unfold mkDel recOf ι κ Op.regKey objI keyI toRow
  cases obj <;> cases key <;> rfl

end

/-- **the rows of the image hand the collector exactly the history's ops** -/
theorem emitOk_of_store {applied : List DChange}
    (hr : OpsR (actorTable applied) (applied.flatMap (·.c.ops))) : EmitOk applied := by
  have hrows := image_rows hr.adm
  have hR := rowsOk_of_store hr
  rw [← hrows] at hR
  have hw := Admissible.wf hr.adm
  have hd : DistinctIds (applied.flatMap (·.c.ops)) := StrictIds.distinctIds hw.strict
  refine ⟨emitted_nodup hR, fun x => ?_⟩
  have hideal : x ∈ idealOps applied ↔ ∃ o ∈ applied.flatMap (·.c.ops), x = recOf (actorTable applied) o := by
    unfold idealOps
    simp only [List.mem_flatMap, List.mem_map]
    constructor
    · rintro ⟨d, hd', o, ho, rfl⟩
      exact ⟨o, ⟨d, hd', ho⟩, rfl⟩
    · rintro ⟨o, ⟨d, hd', ho⟩, rfl⟩
      exact ⟨d, hd', o, ho, rfl⟩
  rw [emitted_char hR, hideal, hrows]
  constructor
  · rintro (⟨r, hrm, rfl⟩ | ⟨sid, hnot, ⟨r0, hr0, hs⟩, rfl⟩)
    · obtain ⟨o, ho, rfl⟩ := List.mem_map.1 hrm
      have hom := (canon_sub hr ho).1
      rw [rowOfOp_id, namers_store hr hom]
      exact ⟨o, hom, mkOp_rowOfOp o⟩
    · obtain ⟨o0, ho0, rfl⟩ := List.mem_map.1 hr0
      obtain ⟨p, hp, rfl, hpred⟩ := succ_of_row hr hs
      -- `p` is not stored: it is a delete
      have hdel : p.isDel = true := by
        cases hdl : p.isDel with
        | true => rfl
        | false =>
          exfalso
          apply hnot
          rw [List.map_map]
          exact List.mem_map.2 ⟨p, mem_canon_of hr hp hdl, rfl⟩
      refine ⟨p, hp, ?_⟩
      rw [kfOf_mem hr hp, namers_store hr hp]
      exact mkDel_recOf hr hp hdel
  · rintro ⟨o, ho, rfl⟩
    cases hdl : o.isDel with
    | false =>
      left
      refine ⟨rowOfOp (actorTable applied) (applied.flatMap (·.c.ops)) o,
        List.mem_map.2 ⟨o, mem_canon_of hr ho hdl, rfl⟩, ?_⟩
      rw [rowOfOp_id, namers_store hr ho]
      exact (mkOp_rowOfOp o).symm
    | true =>
      right
      have hne := hr.delPred o ho hdl
      obtain ⟨p1, hp1⟩ := List.exists_mem_of_ne_nil _ hne
      obtain ⟨q, hq, hqid, hqd⟩ := hr.predStored o ho p1 hp1
      refine ⟨toIdx (actorTable applied) o.id, ?_,
        ⟨rowOfOp (actorTable applied) (applied.flatMap (·.c.ops)) q,
          List.mem_map.2 ⟨q, mem_canon_of hr hq hqd, rfl⟩, ?_⟩, ?_⟩
      · rw [List.map_map]
        intro hm
        obtain ⟨o', ho', he⟩ := List.mem_map.1 hm
        have ho'm := canon_sub hr ho'
        have : o' = o := hd o' ho'm.1 o ho
          (toIdx_inj (hr.idActors o' ho'm.1) (hr.idActors o ho) he)
        rw [this, hdl] at ho'm
        cases ho'm.2
      · exact (row_names_iff hr ho).2 (by rw [hqid]; exact hp1)
      · rw [kfOf_mem hr ho, namers_store hr ho]
        exact (mkDel_recOf hr ho hdl).symm

end AmVerif.DocCodec
