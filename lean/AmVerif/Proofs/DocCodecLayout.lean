import AmVerif.Proofs.DocCodecFrame
/-
  Helper lemmas for C11 (document chunk): `Columns::parse2` (`ChangeCodec.parseLayout`) accepts every
  column table whose columns are contiguous, non-empty and inside the data block, whose
  specifications increase strictly and carry no compression bit, and in which a raw value column
  follows its metadata column — hence the two tables `encodeDoc` writes.
-/
namespace AmVerif.DocCodec
open AmVerif
open AmVerif.ChangeCodec (Rng LP LState GState GCol Col CKind addColumn parseLayout groupRange valueRange
  specType specId T_GROUP T_VALMETA T_VALUE simpleKind)

/-- the end of the last column seen, as `check_contiguous` computes it -/
def lpEnd (p : LP) : Option Nat :=
  match p.st with
  | .ready => p.cols.getLast?.map (fun c => c.range.stop)
  | .inValue _ m => some m.stop
  | .inGroup _ (.ready _ num cols) => some (groupRange num cols).stop
  | .inGroup _ (.inValue _ _ _ vm) => some vm.stop

/-- how the parser state relates to the last specification seen -/
def StInv (p : LP) (last : Option Nat) : Prop :=
  match p.st with
  | .ready => ∀ l, last = some l → specType l ≠ T_VALMETA
  | .inValue vspec _ => last = some vspec ∧ specType vspec = T_VALMETA
  | .inGroup id (.ready _ _ _) => ∃ l, last = some l ∧ specId l = id ∧ specType l ≠ T_VALMETA
  | .inGroup id (.inValue _ _ _ _) => ∃ l, last = some l ∧ specId l = id ∧ specType l = T_VALMETA

theorem rng_zero_empty : Rng.zero.isEmpty = true := by decide

theorem valueRange_zero (m : Rng) : valueRange m Rng.zero = m := by
  simp [valueRange, rng_zero_empty]

theorem valueRange_stop (m r : Rng) (h : r.start < r.stop) : (valueRange m r).stop = r.stop := by
  have : r.isEmpty = false := by simp [Rng.isEmpty]; omega
  simp [valueRange, this]

theorem groupRange_snoc (num : Rng) (cols : List GCol) (c : GCol) :
    (groupRange num (cols ++ [c])).stop = c.range.stop := by
  simp [groupRange]

/-- the range conditions on the next column -/
structure RangeOk (total : Nat) (p : LP) (r : Rng) : Prop where
  contig : ∀ e, lpEnd p = some e → e = r.start
  bound : r.stop ≤ total
  nonempty : r.start < r.stop

theorem prevEnd_check {total : Nat} {p : LP} {r : Rng} (h : RangeOk total p r) :
    ¬ ((lpEnd p).isSome ∧ lpEnd p ≠ some r.start) := by
  intro ⟨h1, h2⟩
  cases he : lpEnd p with
  | none => rw [he] at h1; cases h1
  | some e => rw [he] at h2; exact h2 (by rw [h.contig e he])

/-- a GROUP specification of an id that was seen already cannot come later -/
theorem group_not_later {l s : Nat} (hl : l < s) (hp : s % 16 < 8) (hid : specId l = specId s)
    (hg : specType s = T_GROUP) : False := by
  unfold specId at hid
  unfold specType T_GROUP at hg
  omega

/-- the ready state accepts everything but a raw value column -/
theorem addColumn_ready (total fuel : Nat) (cols : List Col) (s : Nat) (r : Rng)
    (h : RangeOk total ⟨cols, .ready⟩ r) (hnv : specType s ≠ T_VALUE) :
    ∃ p', addColumn total (fuel + 1) ⟨cols, .ready⟩ s r = .ok p' ∧ StInv p' (some s) ∧ lpEnd p' = some r.stop := by
  have hpe := prevEnd_check h
  have hb : ¬ r.stop > total := by have := h.bound; omega
  simp only [lpEnd] at hpe
  unfold addColumn
  simp only [if_neg hpe, if_neg hb]
  by_cases hg : specType s = T_GROUP
  · simp only [if_pos hg]
    refine ⟨_, rfl, ⟨s, rfl, rfl, by rw [hg]; decide⟩, ?_⟩
    simp [lpEnd, groupRange]
  · by_cases hm : specType s = T_VALMETA
    · simp only [if_neg hg, if_pos hm]
      exact ⟨_, rfl, ⟨rfl, hm⟩, rfl⟩
    · simp only [if_neg hg, if_neg hm, if_neg hnv]
      refine ⟨_, rfl, ?_, ?_⟩
      · intro l hl
        cases hl
        exact hm
      · simp [lpEnd, Col.range]

/-- inside a group, a column of the group's id that is neither a group nor a raw value column -/
theorem addColumn_groupReady (total fuel : Nat) (cols : List Col) (id gspec : Nat) (num : Rng) (gcols : List GCol)
    (s : Nat) (r : Rng) (hid : id = specId s)
    (h : RangeOk total ⟨cols, .inGroup id (.ready gspec num gcols)⟩ r)
    (hng : specType s ≠ T_GROUP) (hnv : specType s ≠ T_VALUE) :
    ∃ p', addColumn total (fuel + 1) ⟨cols, .inGroup id (.ready gspec num gcols)⟩ s r = .ok p' ∧
      StInv p' (some s) ∧ lpEnd p' = some r.stop := by
  have hpe := prevEnd_check h
  have hb : ¬ r.stop > total := by have := h.bound; omega
  simp only [lpEnd] at hpe
  have hne : ¬ id ≠ specId s := by simp [hid]
  unfold addColumn
  simp only [if_neg hpe, if_neg hb, if_neg hne, if_neg hng, if_neg hnv]
  by_cases hm : specType s = T_VALMETA
  · simp only [if_pos hm]
    exact ⟨_, rfl, ⟨s, rfl, hid.symm, hm⟩, rfl⟩
  · simp only [if_neg hm]
    refine ⟨_, rfl, ⟨s, rfl, hid.symm, hm⟩, ?_⟩
    simp [lpEnd, groupRange, GCol.range]

/-- what the next specification must satisfy, given the last one -/
structure SpecOk (last : Option Nat) (s : Nat) : Prop where
  incr : ∀ l, last = some l → l < s
  plain : s % 16 < 8
  value : specType s = T_VALUE → ∃ l, last = some l ∧ specType l = T_VALMETA ∧ specId l = specId s

/-- **one column**: whatever the parser state, a column that satisfies `RangeOk` / `SpecOk` is accepted -/
theorem addColumn_ok (total fuel : Nat) (p : LP) (last : Option Nat) (s : Nat) (r : Rng)
    (hinv : StInv p last) (h : RangeOk total p r) (hs : SpecOk last s) :
    ∃ p', addColumn total (fuel + 3) p s r = .ok p' ∧ StInv p' (some s) ∧ lpEnd p' = some r.stop := by
  obtain ⟨cols, st⟩ := p
  have hpe := prevEnd_check h
  have hb : ¬ r.stop > total := by have := h.bound; omega
  cases st with
  | ready =>
    apply addColumn_ready total (fuel + 2) cols s r h
    intro hv
    obtain ⟨l, hl, hlt, _⟩ := hs.value hv
    exact hinv l hl hlt
  | inValue vspec m =>
    simp only [lpEnd] at hpe
    obtain ⟨hl, hvt⟩ := hinv
    by_cases hv : specType s = T_VALUE
    · obtain ⟨l', hl', _, hlid⟩ := hs.value hv
      rw [hl] at hl'
      cases hl'
      have hne : ¬ specId vspec ≠ specId s := by simp [hlid]
      unfold addColumn
      simp only [if_neg hpe, if_neg hb, if_pos hv, if_neg hne]
      refine ⟨_, rfl, ?_, ?_⟩
      · intro l hl2
        cases hl2
        rw [hv]; decide
      · simp [lpEnd, Col.range, valueRange_stop m r h.nonempty]
    · unfold addColumn
      simp only [if_neg hpe, if_neg hb, if_neg hv]
      apply addColumn_ready total (fuel + 1) _ s r _ hv
      refine ⟨?_, h.bound, h.nonempty⟩
      intro e he
      simp only [lpEnd, List.getLast?_append, List.getLast?_singleton, Option.some_or, Option.map_some, Col.range,
        valueRange_zero, Option.some.injEq] at he
      exact h.contig e (by simp [lpEnd, he])
  | inGroup id g =>
    cases g with
    | ready gspec num gcols =>
      simp only [lpEnd] at hpe
      obtain ⟨l, hl, hlid, hlt⟩ := hinv
      by_cases hid : id = specId s
      · apply addColumn_groupReady total (fuel + 2) cols id gspec num gcols s r hid h
        · exact fun hg => group_not_later (hs.incr l hl) hs.plain (by rw [hlid, hid]) hg
        · intro hv
          obtain ⟨l', hl', hlt', _⟩ := hs.value hv
          rw [hl] at hl'
          cases hl'
          exact hlt hlt'
      · unfold addColumn
        simp only [if_neg hpe, if_neg hb, if_pos hid]
        apply addColumn_ready total (fuel + 1) _ s r
        · refine ⟨?_, h.bound, h.nonempty⟩
          intro e he
          simp only [lpEnd, List.getLast?_append, List.getLast?_singleton, Option.some_or, Option.map_some,
            GState.finish, Col.range, Option.some.injEq] at he
          exact h.contig e (by simp [lpEnd, he])
        · intro hv
          obtain ⟨l', hl', _, hlid'⟩ := hs.value hv
          rw [hl] at hl'
          cases hl'
          exact hid (by rw [← hlid, hlid'])
    | inValue gspec num gcols vm =>
      simp only [lpEnd] at hpe
      obtain ⟨l, hl, hlid, hlt⟩ := hinv
      by_cases hid : id = specId s
      · have hne : ¬ id ≠ specId s := by simp [hid]
        by_cases hv : specType s = T_VALUE
        · unfold addColumn
          simp only [if_neg hpe, if_neg hb, if_neg hne, if_pos hv]
          refine ⟨_, rfl, ⟨s, rfl, hid.symm, by rw [hv]; decide⟩, ?_⟩
          simp [lpEnd, groupRange, GCol.range, valueRange_stop vm r h.nonempty]
        · unfold addColumn
          simp only [if_neg hpe, if_neg hb, if_neg hne, if_neg hv]
          apply addColumn_groupReady total (fuel + 1) cols id gspec num _ s r hid
          · refine ⟨?_, h.bound, h.nonempty⟩
            intro e he
            simp only [lpEnd, groupRange, List.getLast?_append, List.getLast?_singleton, Option.some_or,
              GCol.range, valueRange_zero, Option.some.injEq] at he
            exact h.contig e (by simp [lpEnd, he])
          · exact fun hg => group_not_later (hs.incr l hl) hs.plain (by rw [hlid, hid]) hg
          · exact hv
      · unfold addColumn
        simp only [if_neg hpe, if_neg hb, if_pos hid]
        apply addColumn_ready total (fuel + 1) _ s r
        · refine ⟨?_, h.bound, h.nonempty⟩
          intro e he
          simp only [lpEnd, List.getLast?_append, List.getLast?_singleton, Option.some_or, Option.map_some,
            GState.finish, Col.range, groupRange, GCol.range, valueRange_zero, Option.some.injEq] at he
          exact h.contig e (by simp [lpEnd, he])
        · intro hv
          obtain ⟨l', hl', _, hlid'⟩ := hs.value hv
          rw [hl] at hl'
          cases hl'
          exact hid (by rw [← hlid, hlid'])

/-- a column table every column of which is acceptable after the one before -/
inductive ColsOk (total : Nat) : Option Nat → Nat → List (Nat × Rng) → Prop
  | nil {last : Option Nat} {pos : Nat} : ColsOk total last pos []
  | cons {last : Option Nat} {pos s : Nat} {r : Rng} {rest : List (Nat × Rng)} :
      r.start = pos → r.start < r.stop → r.stop ≤ total → SpecOk last s →
      ColsOk total (some s) r.stop rest → ColsOk total last pos ((s, r) :: rest)

/-- **`Columns::parse2` accepts** such a table, from any parser state that agrees with what came before -/
theorem parseLayout_ok (total : Nat) : ∀ (cols : List (Nat × Rng)) (p : LP) (last : Option Nat) (pos : Nat),
    StInv p last → (∀ e, lpEnd p = some e → e = pos) → ColsOk total last pos cols →
    ∃ r, parseLayout total cols p = .ok r
  | [], p, _, _, _, _, _ => ⟨p.build, rfl⟩
  | (s, r) :: rest, p, last, pos, hinv, hend, hc => by
    cases hc with
    | cons h1 h2 h3 h4 h5 =>
      obtain ⟨p', hp', hinv', hend'⟩ := addColumn_ok total 0 p last s r hinv
        ⟨fun e he => by rw [h1]; exact hend e he, h3, h2⟩ h4
      obtain ⟨res, hres⟩ := parseLayout_ok total rest p' (some s) r.stop hinv'
        (fun e he => by rw [hend'] at he; cases he; rfl) h5
      exact ⟨res, by simp only [parseLayout, hp', hres]⟩

/-- a chain of acceptable specifications -/
inductive SpecsChain : Option Nat → List Nat → Prop
  | nil {last : Option Nat} : SpecsChain last []
  | cons {last : Option Nat} {s : Nat} {rest : List Nat} : SpecOk last s → SpecsChain (some s) rest → SpecsChain last (s :: rest)

/-- strictly increasing plain specifications in which the metadata column `s - 1` of every raw value
    column `s` is present form a chain -/
theorem specsChain_of_sorted : ∀ (L : List Nat) (last : Option Nat),
    L.Pairwise (· < ·) → (∀ l, last = some l → ∀ s ∈ L, l < s) → (∀ s ∈ L, s % 16 < 8) →
    (∀ s ∈ L, specType s = T_VALUE → last = some (s - 1) ∨ s - 1 ∈ L) → SpecsChain last L
  | [], _, _, _, _, _ => .nil
  | s :: rest, last, hp, hl, hpl, hv => by
    have hp' := List.pairwise_cons.mp hp
    refine .cons ⟨fun l h => hl l h s List.mem_cons_self, hpl s List.mem_cons_self, ?_⟩ ?_
    · intro hval
      have hs7 : s % 8 = 7 := hval
      have hs16 := hpl s List.mem_cons_self
      rcases hv s List.mem_cons_self hval with h | h
      · refine ⟨s - 1, h, ?_, ?_⟩
        · show (s - 1) % 8 = 6; omega
        · show (s - 1) / 16 = s / 16; omega
      · rcases List.mem_cons.mp h with h | h
        · omega
        · have := hp'.1 _ h; omega
    · apply specsChain_of_sorted rest (some s) hp'.2
      · intro l h t ht; cases h; exact hp'.1 t ht
      · exact fun t ht => hpl t (List.mem_cons_of_mem _ ht)
      · intro t ht hval
        have hlt := hp'.1 t ht
        rcases hv t (List.mem_cons_of_mem _ ht) hval with h | h
        · have := hl _ h s List.mem_cons_self; omega
        · rcases List.mem_cons.mp h with h | h
          · exact Or.inl (by rw [h])
          · exact Or.inr h

/-- the ranges `RawColumns::parse` gives to non-empty columns whose specifications form a chain -/
theorem colsOk_colRanges (total : Nat) : ∀ (pairs : List (Nat × Nat)) (last : Option Nat) (off : Nat),
    SpecsChain last (pairs.map (·.1)) → (∀ c ∈ pairs, 0 < c.2) → off + (pairs.map (·.2)).sum ≤ total →
    total < 2 ^ 64 → ColsOk total last off (ChangeCodec.colRanges pairs off)
  | [], _, _, _, _, _, _ => .nil
  | (spec, len) :: r, last, off, hc, hne, hsum, ht => by
    simp only [List.map_cons, List.sum_cons] at hsum hc
    cases hc with
    | cons h1 h2 =>
      have hm : min (off + len) ChangeCodec.usizeMax = off + len := by
        unfold ChangeCodec.usizeMax; omega
      have hpos := hne (spec, len) List.mem_cons_self
      simp only [ChangeCodec.colRanges, hm]
      refine .cons rfl (by simp only; omega) (by simp only; omega) h1 ?_
      exact colsOk_colRanges total r (some spec) (off + len) h2
        (fun c hc => hne c (List.mem_cons_of_mem _ hc)) (by omega) ht

/-- the column tables `encodeDoc` writes: a sub-table (the non-empty columns) of a table with
    increasing plain specifications, keeping the metadata column of a raw value column it keeps -/
theorem parseLayout_encoded (cols : List (Nat × Bytes))
    (hsorted : (cols.map (·.1)).Pairwise (· < ·)) (hplain : ∀ c ∈ cols, c.1 % 16 < 8)
    (hval : ∀ c ∈ nonEmptyCols cols, specType c.1 = T_VALUE → c.1 - 1 ∈ (nonEmptyCols cols).map (·.1))
    (hlen : (colData (nonEmptyCols cols)).length < 2 ^ 64) :
    ∃ r, parseLayout (colData (nonEmptyCols cols)).length (rangesOf (nonEmptyCols cols)) {} = .ok r := by
  apply parseLayout_ok _ _ {} none 0
  · intro l hl; cases hl
  · intro e he; simp [lpEnd] at he
  · unfold rangesOf
    apply colsOk_colRanges
    · have hm : (metaPairs (nonEmptyCols cols)).map (·.1) = (nonEmptyCols cols).map (·.1) := by
        simp [metaPairs, List.map_map, Function.comp_def]
      rw [hm]
      apply specsChain_of_sorted
      · unfold nonEmptyCols
        rw [List.pairwise_map] at hsorted ⊢
        exact hsorted.filter _
      · intro l hl; cases hl
      · intro s hs
        obtain ⟨c, hc, rfl⟩ := List.mem_map.mp hs
        exact hplain c (nonEmptyCols_sub cols c hc)
      · intro s hs hv
        obtain ⟨c, hc, rfl⟩ := List.mem_map.mp hs
        exact Or.inr (hval c hc hv)
    · intro c hc
      obtain ⟨x, hx, rfl⟩ := List.mem_map.mp hc
      have := (List.mem_filter.mp hx).2
      simp only [Bool.not_eq_true', List.isEmpty_eq_false_iff] at this
      exact List.length_pos_iff.mpr this
    · rw [colData_length]; omega
    · exact hlen

end AmVerif.DocCodec
