import AmVerif.Proofs.DocCodecCols
/-
  Helper lemmas for C11 (document chunk): BOOLEAN columns — `BoolLoadIter` on the run lengths
  `BoolEncoder` writes gives the values back (`insert`, `expand`).
-/
namespace AmVerif.DocCodec
open AmVerif
open AmVerif.Hexane (boolEncode boolLoad boolParse boolRuns expandBool groups GroupsOK expandRuns sumCounts
  two63 two64 encU readU)

/-- run lengths the parser accepts from a state: a zero only as the very first of several -/
def RunsOk : List Nat → Nat → Prop
  | [], _ => True
  | n :: r, idx => n < two64 ∧ (n = 0 → idx = 0 ∧ r ≠ []) ∧ RunsOk r (idx + 1)

theorem flatten_encU_ne_nil (n : Nat) (r : List Nat) : ((n :: r).map encU).flatten ≠ [] := by
  simp only [List.map_cons, List.flatten_cons]
  intro h
  exact Hexane.encU_ne_nil n (List.append_eq_nil_iff.mp h).1

theorem boolParse_runs (checked : Bool) : ∀ (rs : List Nat) (st : Hexane.BState) (fuel : Nat),
    RunsOk rs st.runIndex → ((rs.map encU).flatten).length < fuel →
    st.closed + st.slabItems + rs.sum < two64 →
    ∃ st', boolParse checked fuel ((rs.map encU).flatten) st = .ok (rs, st') ∧
      st'.closed + st'.slabItems = st.closed + st.slabItems + rs.sum
  | [], st, fuel, _, hf, _ => by
    cases fuel with
    | zero => simp at hf
    | succ f => exact ⟨st, by simp [boolParse], by simp⟩
  | n :: r, st, fuel, hok, hf, hsum => by
    cases fuel with
    | zero => simp at hf
    | succ f =>
      obtain ⟨hn, hz, hrest⟩ := hok
      simp only [List.sum_cons] at hsum
      have hne : (((n :: r).map encU).flatten).isEmpty = false := by
        cases h : ((n :: r).map encU).flatten with
        | nil => exact absurd h (flatten_encU_ne_nil n r)
        | cons a b => rfl
      have hrd : readU (((n :: r).map encU).flatten) = .ok (n, (r.map encU).flatten) := by
        simp only [List.map_cons, List.flatten_cons]
        exact Hexane.readU_encU n _ hn
      have h1 : ¬ (n = 0 ∧ st.runIndex > 0) := by
        intro ⟨h0, hi⟩
        have := (hz h0).1
        omega
      have h2 : ¬ (((r.map encU).flatten).isEmpty = true ∧ n = 0) := by
        intro ⟨he, h0⟩
        have hr := (hz h0).2
        cases r with
        | nil => exact hr rfl
        | cons a b =>
          have := flatten_encU_ne_nil a b
          cases hh : ((a :: b).map encU).flatten with
          | nil => exact this hh
          | cons x y => rw [hh] at he; simp at he
      have h3 : ¬ ¬ (st.slabItems + n < two64) := by simp; omega
      have hlen : ((r.map encU).flatten).length < f := by
        simp only [List.map_cons, List.flatten_cons, List.length_append] at hf
        have := Hexane.encU_ne_nil n
        have : 0 < (encU n).length := List.length_pos_iff.mpr this
        omega
      -- the state after this run (possibly with the slab closed)
      have hstep : ∃ st2 : Hexane.BState, st2.runIndex = st.runIndex + 1 ∧
          st2.closed + st2.slabItems = st.closed + st.slabItems + n ∧
          ∀ runs st', boolParse checked f ((r.map encU).flatten) st2 = .ok (runs, st') →
            boolParse checked (f + 1) (((n :: r).map encU).flatten) st = .ok (n :: runs, st') := by
        by_cases hseg : st.slabSegs + 1 ≥ 32
        · refine ⟨{ runIndex := st.runIndex + 1, slabItems := 0, slabSegs := 0, closed := st.closed + (st.slabItems + n) },
            rfl, by simp only; omega, ?_⟩
          intro runs st' he
          rw [boolParse]
          simp only [hne, Bool.false_eq_true, if_false, hrd, h1, h2, h3, hseg, if_true, he]
        · refine ⟨{ runIndex := st.runIndex + 1, slabItems := st.slabItems + n, slabSegs := st.slabSegs + 1, closed := st.closed },
            rfl, by simp only; omega, ?_⟩
          intro runs st' he
          rw [boolParse]
          simp only [hne, Bool.false_eq_true, if_false, hrd, h1, h2, h3, hseg, he]
      obtain ⟨st2, hr2, hc2, hp2⟩ := hstep
      obtain ⟨st', e, hs⟩ := boolParse_runs checked r st2 f (by rw [hr2]; exact hrest) hlen (by omega)
      exact ⟨st', hp2 r st' e, by simp only [List.sum_cons]; omega⟩

/-- the counts of the groups of a Boolean list alternate, starting with the value of the first -/
theorem expandBool_groups : ∀ (gs : List (Nat × Bool)) (b : Bool), GroupsOK gs →
    (∀ g, gs.head? = some g → g.2 = b) → expandBool (gs.map (·.1)) b = expandRuns gs
  | [], _, _, _ => rfl
  | [(n, x)], b, _, hb => by
    have : x = b := hb (n, x) rfl
    subst this
    simp [expandBool, expandRuns]
  | (n, x) :: (m, y) :: r, b, hok, hb => by
    have : x = b := hb (n, x) rfl
    subst this
    have hne := Hexane.groupsOK_ne n m x y r hok
    have ih := expandBool_groups ((m, y) :: r) (!x) (Hexane.groupsOK_tail _ _ hok)
      (fun g hg => by
        simp only [List.head?_cons, Option.some.injEq] at hg
        subst hg
        cases x <;> cases y <;> simp_all)
    simp only [List.map_cons, expandBool, expandRuns] at ih ⊢
    rw [ih]

theorem expandBool_boolRuns (xs : List Bool) : expandBool (boolRuns xs) false = xs := by
  cases xs with
  | nil => rfl
  | cons x r =>
    have hg := Hexane.groups_ok (x :: r)
    have he := Hexane.expandRuns_groups (x :: r)
    cases hgs : groups (x :: r) with
    | nil => rw [hgs] at he; simp [expandRuns] at he
    | cons g gs =>
      obtain ⟨n, v⟩ := g
      rw [hgs] at hg he
      cases v with
      | true =>
        simp only [boolRuns, hgs, expandBool, List.replicate_zero, List.nil_append, Bool.not_false]
        rw [expandBool_groups _ true hg (fun g hg' => by simp at hg'; rw [← hg'])]
        exact he
      | false =>
        simp only [boolRuns, hgs]
        rw [expandBool_groups _ false hg (fun g hg' => by simp at hg'; rw [← hg'])]
        exact he

/-- the run lengths of a list are acceptable -/
theorem runsOk_counts : ∀ (gs : List (Nat × Bool)) (idx : Nat), GroupsOK gs → sumCounts gs < two64 →
    RunsOk (gs.map (·.1)) idx
  | [], _, _, _ => trivial
  | (n, x) :: r, idx, hok, hs => by
    have h1 := Hexane.groupsOK_head n x r hok
    rw [Hexane.sumCounts_cons] at hs
    refine ⟨by simp only; omega, fun h0 => by simp only at h0; omega,
      runsOk_counts r (idx + 1) (Hexane.groupsOK_tail _ _ hok) (by omega)⟩

theorem boolRuns_ok (xs : List Bool) (h : xs.length < two64) : RunsOk (boolRuns xs) 0 ∧ (boolRuns xs).sum = xs.length := by
  cases xs with
  | nil => exact ⟨trivial, rfl⟩
  | cons x r =>
    have hg := Hexane.groups_ok (x :: r)
    have hs := Hexane.sumCounts_groups (x :: r)
    cases hgs : groups (x :: r) with
    | nil => rw [hgs] at hs; simp [sumCounts] at hs
    | cons g gs =>
      obtain ⟨n, v⟩ := g
      rw [hgs] at hg hs
      cases v with
      | true =>
        simp only [boolRuns, hgs]
        refine ⟨⟨by unfold two64; omega, fun _ => ⟨rfl, by simp⟩, runsOk_counts _ 1 hg (by rw [hs]; exact h)⟩, ?_⟩
        simp only [List.sum_cons, Nat.zero_add]
        exact hs
      | false =>
        simp only [boolRuns, hgs]
        exact ⟨runsOk_counts _ 0 hg (by rw [hs]; exact h), hs⟩

/-- **a Boolean column**: `load_with(with_length)` of the canonical run lengths -/
theorem boolLoad_encode (checked : Bool) (xs : List Bool) (h : xs.length < two64) :
    boolLoad checked (some xs.length) (boolEncode xs) = .ok (boolRuns xs) := by
  obtain ⟨hok, hsum⟩ := boolRuns_ok xs h
  obtain ⟨st', e, hs⟩ := boolParse_runs checked (boolRuns xs) {} ((boolEncode xs).length + 1) hok
    (by unfold boolEncode; omega) (by simp [hsum]; exact h)
  unfold boolLoad
  unfold boolEncode at e ⊢
  rw [e]
  simp only at hs ⊢
  have ht : st'.closed + st'.slabItems = xs.length := by simpa [hsum] using hs
  have h1 : ¬ ¬ (st'.closed + st'.slabItems < two64) := by rw [ht]; simpa using h
  have h2 : ¬ st'.closed + st'.slabItems ≠ xs.length := by simp [ht]
  simp only [h1, if_false, h2]

/-- `insert`: `PrefixColumn<bool>::load_with(with_length, with_fill(false))` of `save_to` -/
theorem loadBool_encode (checked : Bool) (xs : List Bool) (h : xs.length < two63) :
    loadBool checked xs.length (boolEncode xs) = .ok xs := by
  have h64 : xs.length < two64 := by unfold two63 two64 at *; omega
  unfold loadBool
  cases xs with
  | nil => rfl
  | cons x r =>
    have hne : (boolEncode (x :: r)).isEmpty = false := by
      unfold boolEncode
      have hr : boolRuns (x :: r) ≠ [] := by
        intro he
        have := (boolRuns_ok (x :: r) h64).2
        rw [he] at this
        simp at this
      cases hb : boolRuns (x :: r) with
      | nil => exact absurd hb hr
      | cons a b =>
        cases hh : ((a :: b).map encU).flatten with
        | nil => exact absurd hh (flatten_encU_ne_nil a b)
        | cons p q => rfl
    rw [hne]
    simp only [Bool.false_eq_true, if_false, boolLoad_encode checked (x :: r) h64, expandBool_boolRuns]

/-- `expand`: `Column<bool>::load_with(with_length, with_fill(false))` of `save_to_unless(false)` -/
theorem loadBool_unless (checked : Bool) (xs : List Bool) (h : xs.length < two63) :
    loadBool checked xs.length (encBoolUnless xs) = .ok xs := by
  unfold encBoolUnless
  by_cases hall : xs.all (fun b => !b) = true
  · simp only [hall, if_true]
    unfold loadBool
    simp only [List.isEmpty_nil, if_true]
    by_cases h0 : xs.length = 0
    · simp only [h0, if_true]; rw [List.eq_nil_of_length_eq_zero h0]
    · have hl : ¬ ¬ xs.length < two63 := by simpa using h
      simp only [h0, if_false, hl]
      have : ∀ ys : List Bool, ys.all (fun b => !b) = true → ys = List.replicate ys.length false := by
        intro ys
        induction ys with
        | nil => intro _; rfl
        | cons y ys ih =>
          intro hy
          simp only [List.all_cons, Bool.and_eq_true, Bool.not_eq_true'] at hy
          simp only [List.length_cons, List.replicate_succ, hy.1]
          rw [← ih hy.2]
      rw [← this xs hall]
  · simp only [hall, Bool.false_eq_true, if_false]
    exact loadBool_encode checked xs h

end AmVerif.DocCodec
