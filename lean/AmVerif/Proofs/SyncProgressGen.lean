import AmVerif.Proofs.SyncProgressInv
import AmVerif.Proofs.Bloom
/-
  Progress half of C20, part 4: what `generate_sync_message` sends.
  * a hash the peer asked for (`need`) that we have and have not sent yet is sent — whatever the
    Bloom filter or the forced-false-positive hook say (this is what makes progress independent of
    `fp`);
  * when both peers hold the same changes, the Bloom filter built by one contains every change the
    other would offer (no false negatives, C23), so nothing is offered.
-/
namespace AmVerif.Sync.Prog
open AmVerif AmVerif.Sync

/-! ### requested changes are sent -/

theorem lookup_of_mem {d : Doc} {x : Hash} (hx : x ∈ d.hashes) :
    ∃ c, d.lookup x = some c ∧ c ∈ d.applied ∧ c.hash = x := by
  cases hl : d.lookup x with
  | some c => exact ⟨c, rfl, (Doc.mem_of_lookup hl).1, (Doc.mem_of_lookup hl).2⟩
  | none =>
    exfalso
    unfold Doc.lookup at hl
    obtain ⟨c, hc, hch⟩ := Doc.mem_hashes.mp hx
    have := List.find?_eq_none.mp hl c hc
    simp [hch] at this

theorem mem_changesFor_of_mem {d : Doc} {hs : List Hash} {x : Hash} (hx : x ∈ hs) (hd : x ∈ d.hashes) :
    ∃ c ∈ d.changesFor hs, c.hash = x := by
  obtain ⟨c, hl, _, hch⟩ := lookup_of_mem hd
  exact ⟨c, List.mem_filterMap.mpr ⟨x, hx, hl⟩, hch⟩

theorem closeDependents_sub (pool : List Change) : ∀ (fuel : Nat) (stack toSend : List Hash) (y : Hash),
    y ∈ closeDependents pool fuel stack toSend → y ∈ toSend ∨ y ∈ pool.map (·.hash)
  | 0, _, _, _, h => Or.inl (by simpa [closeDependents] using h)
  | _ + 1, [], _, _, h => Or.inl (by simpa [closeDependents] using h)
  | fuel + 1, h :: stack, toSend, y, hy => by
    unfold closeDependents at hy
    simp only at hy
    rcases closeDependents_sub pool fuel _ _ y hy with h1 | h1
    · rcases List.mem_append.mp h1 with h2 | h2
      · right
        have h3 := List.mem_eraseDups.mp h2
        have h4 := (List.mem_filter.mp h3).1
        obtain ⟨c, hc, hch⟩ := List.mem_map.mp h4
        exact List.mem_map.mpr ⟨c, (List.mem_filter.mp hc).1, hch⟩
      · left; exact h2
    · right; exact h1

/-- a hash of `need` that we have is in the list `get_hashes_to_send` returns -/
theorem need_mem_hashesToSend (fp : Hash → Bool) (d : Doc) (hv : List Have) (nd : List Hash)
    {x : Hash} (hx : x ∈ nd) (hd : x ∈ d.hashes) : x ∈ hashesToSend fp d hv nd := by
  have hneed : x ∈ nd.filter d.hasChange := List.mem_filter.mpr ⟨hx, Doc.hasChange_iff.mpr hd⟩
  unfold hashesToSend
  simp only
  split
  · exact hneed
  · generalize hts : closeDependents _ _ _ _ = toSend
    by_cases hin : x ∈ toSend
    · apply List.mem_append_right
      apply List.mem_filter.mpr
      refine ⟨?_, by simpa using hin⟩
      rw [← hts] at hin
      rcases closeDependents_sub _ _ _ _ x hin with h1 | h1
      · exact (List.mem_filter.mp h1).1
      · obtain ⟨c, hc, hch⟩ := List.mem_map.mp h1
        obtain ⟨y, hy, hl⟩ := List.mem_filterMap.mp hc
        have := (Doc.mem_of_lookup hl).2
        rw [← hch, this]; exact hy
    · apply List.mem_append_left
      apply List.mem_filter.mpr
      exact ⟨hneed, by simpa using hin⟩

/-- A peer that knows what the other side needs, has it, and has not sent it yet, puts it into
    the next message. -/
theorem mkBuilder_sends_needed (fp : Hash → Bool) (d : Doc) (s : State) (hv : List Have)
    (nd : List Hash) (hpr : s.peerReadOnly = false) (hhave : s.theirHave = some hv)
    (hneed : s.theirNeed = some nd) {x : Hash} (hx : x ∈ nd) (hd : x ∈ d.hashes)
    (hns : x ∉ s.sentHashes) :
    x ∈ (mkBuilder fp d s).hashes ∧ ∃ c ∈ (mkBuilder fp d s).changes, c.hash = x := by
  have hdoc : x ∈ (Builder.ofDoc d).hashes ∧ ∃ c ∈ (Builder.ofDoc d).changes, c.hash = x := by
    obtain ⟨c, hc, hch⟩ := Doc.mem_hashes.mp hd
    refine ⟨by simpa [Builder.ofDoc] using hd, c, ?_, hch⟩
    simp only [Builder.ofDoc, List.mem_append, List.mem_reverse]
    exact Or.inl hc
  have hall := need_mem_hashesToSend fp d hv nd hx hd
  unfold mkBuilder
  simp only [hpr, hhave, hneed, Bool.false_eq_true, if_false]
  split
  · exact hdoc
  · split
    · exact hdoc
    · first
      | exact hdoc
      | have hin : x ∈ (hashesToSend fp d hv nd).filter (fun h => !s.sentHashes.contains h) :=
          List.mem_filter.mpr ⟨hall, by simpa using hns⟩
        obtain ⟨c, hc, hch⟩ := mem_changesFor_of_mem hin hd
        rw [builder_ofChanges_hashes.1, builder_ofChanges_hashes.2]
        exact ⟨List.mem_map.mpr ⟨c, hc, hch⟩, c, hc, hch⟩

theorem quiet_false_of_nonempty {d : Doc} {s : State} {b : Builder} (hf : s.inFlight = false)
    (hne : b.hashes ≠ []) : quiet d s b = false := by
  unfold quiet
  have : b.hashes.isEmpty = false := by
    cases h : b.hashes with
    | nil => exact absurd h hne
    | cons _ _ => rfl
  simp [this, hf]

/-- the shape of a generate step that does send -/
theorem generate_sends {fp : Hash → Bool} {d : Doc} {s : State} (hr : resetCond d s = false)
    (hq : quiet d s (mkBuilder fp d s) = false) :
    generate fp d s = (sentState d s (mkBuilder fp d s), some (mkMessage d s (mkBuilder fp d s))) := by
  rcases generate_cases fp d s with ⟨h1, _⟩ | ⟨_, h2, _⟩ | ⟨_, _, hg⟩
  · rw [hr] at h1; cases h1
  · rw [hq] at h2; cases h2
  · exact hg

theorem generate_quiet {fp : Hash → Bool} {d : Doc} {s : State} (hr : resetCond d s = false)
    (hq : quiet d s (mkBuilder fp d s) = true) : generate fp d s = (s, none) := by
  rcases generate_cases fp d s with ⟨h1, _⟩ | ⟨_, _, hg⟩ | ⟨_, h2, _⟩
  · rw [hr] at h1; cases h1
  · exact hg
  · rw [hq] at h2; cases h2

/-! ### `need` and `have` do not change when a message is sent -/

theorem ourNeed_sentState (d : Doc) (s : State) (b : Builder) :
    ourNeed d (sentState d s b) = ourNeed d s := rfl

theorem ourHave_sentState (d : Doc) (s : State) (b : Builder) :
    ourHave d (sentState d s b) = ourHave d s := rfl

/-! ### nothing is missing below applied hashes -/

theorem missingLoop_nil_of_applied (d : Doc) : ∀ (fuel : Nat) (stack seen missing : List Hash),
    (∀ h ∈ stack, h ∈ d.hashes) → Doc.missingLoop d fuel stack seen missing = missing
  | 0, _, _, _, _ => by simp [Doc.missingLoop]
  | _ + 1, [], _, _, _ => by simp [Doc.missingLoop]
  | fuel + 1, h :: stack, seen, missing, hs => by
    unfold Doc.missingLoop
    have : d.hasChange h = true := Doc.hasChange_iff.mpr (hs h (by simp))
    simp only [this, Bool.true_or, if_true]
    exact missingLoop_nil_of_applied d fuel stack seen missing
      (fun y hy => hs y (List.mem_cons_of_mem _ hy))

theorem missingDepsFrom_nil_of_applied (d : Doc) (start : List Hash)
    (hs : ∀ h ∈ start, h ∈ d.hashes) : d.missingDepsFrom start = [] := by
  unfold Doc.missingDepsFrom
  simp only [missingLoop_nil_of_applied d _ start [] [] hs]
  rfl

theorem ourNeed_nil_of_applied (d : Doc) (s : State)
    (hs : ∀ H, s.theirHeads = some H → ∀ h ∈ H, h ∈ d.hashes) : ourNeed d s = [] := by
  unfold ourNeed
  split
  · rfl
  · apply missingDepsFrom_nil_of_applied
    intro h hh
    cases hth : s.theirHeads with
    | none => rw [hth] at hh; cases hh
    | some H => rw [hth] at hh; exact hs H hth h hh

/-! ### no false negatives -/

theorem bloomHas_mkBloom (fp : Hash → Bool) (hs : List Hash) {h : Hash} (hm : h ∈ hs) :
    bloomHas fp (mkBloom hs) h = true := by
  have hpos : 0 < hs.length := List.length_pos_of_mem hm
  obtain ⟨f, hf, inv⟩ := Bloom.fromHashes_inv hs hpos
  have hb : f.bits ≠ [] := by
    intro he; have := inv.len; have := Bloom.cap_pos _ hpos; simp [he] at *; omega
  obtain ⟨ps, hps, _⟩ := Bloom.getProbes_ok f h hb
  have hne : ¬ (f.numEntries = 0 ∨ f.bits.isEmpty = true) := by
    rw [inv.entries]; intro hc; rcases hc with hc | hc
    · omega
    · exact hb (List.isEmpty_iff.mp hc)
  have hc : Bloom.containsHash f h = .ok true := by
    unfold Bloom.containsHash
    simp only [if_neg hne, hps]
    congr 1
    exact Bloom.allSet_of_bitSet _ _ (fun q hq => inv.members h hm ps hps q hq)
  unfold bloomHas mkBloom
  simp only [hf, if_neg hne, hc, Bool.or_true]

/-! ### converged peers offer nothing -/

theorem closeDependents_nil (pool : List Change) (fuel : Nat) :
    closeDependents pool (fuel + 1) [] [] = [] := rfl

/-- If X and Y hold the same changes and X's picture of Y (`their_have`, `their_need`,
    `their_heads`) is what Y would send now, X has nothing to offer. -/
theorem mkBuilder_empty_of_same (fp : Hash → Bool) (dX dY : Doc) (s sY : State)
    (tX : Topo dX.applied) (tY : Topo dY.applied)
    (same : ∀ x, x ∈ dX.applied ↔ x ∈ dY.applied)
    (hhave : s.theirHave = some (ourHave dY sY)) (hneed : s.theirNeed = some (ourNeed dY sY))
    (hheads : s.theirHeads = some dY.heads)
    (hY : ∀ H, sY.theirHeads = some H → ∀ h ∈ H, h ∈ dY.hashes) :
    (mkBuilder fp dX s).hashes = [] := by
  have hnd : ourNeed dY sY = [] := ourNeed_nil_of_applied dY sY hY
  have hhv : ourHave dY sY = [makeBloomFilter dY sY.sharedHeads] := by
    unfold ourHave; rw [hnd]; rfl
  have hnil : (Builder.ofChanges [] s).hashes = [] := builder_ofChanges_hashes.1
  unfold mkBuilder
  split
  · exact hnil
  · simp only [hhave, hneed]
    split
    · -- `send_doc`: the peer said its document is empty, so ours is
      rename_i hsd
      have : s.theirHeads = some [] := by
        unfold State.sendDoc at hsd
        simp only [Bool.and_eq_true, beq_iff_eq] at hsd
        exact hsd.1
      rw [hheads] at this
      have hY0 : dY.applied = [] := applied_nil_of_heads_nil tY (by injection this)
      have hX0 : dX.applied = [] := by
        cases hx : dX.applied with
        | nil => rfl
        | cons c rest =>
          have := (same c).mp (by rw [hx]; simp)
          rw [hY0] at this; cases this
      simp [Builder.ofDoc, Doc.hashes, hX0]
    · have hall : hashesToSend fp dX (ourHave dY sY) (ourNeed dY sY) = [] := by
        rw [hnd, hhv]
        unfold hashesToSend
        simp only [List.filter_nil, List.isEmpty_cons, Bool.false_eq_true, if_false, List.nil_append]
        have hdirect : ((dX.getHashes ((([makeBloomFilter dY sY.sharedHeads] : List Have).map
            (·.lastSync)).flatten)).filter (fun h => ([makeBloomFilter dY sY.sharedHeads] : List Have).all
              (fun hv => !bloomHas fp hv.bloom h))) = [] := by
          apply List.filter_eq_nil_iff.mpr
          intro h hh
          have hL : ((([makeBloomFilter dY sY.sharedHeads] : List Have).map (·.lastSync)).flatten)
              = sY.sharedHeads := by simp [makeBloomFilter]
          rw [hL] at hh
          have hinY : h ∈ dY.getHashes sY.sharedHeads :=
            (getHashes_congr tX tY same sY.sharedHeads h).mp hh
          have := bloomHas_mkBloom fp (dY.getHashes sY.sharedHeads) hinY
          simp [makeBloomFilter, this]
        rw [hdirect]
        simp only [Nat.add_zero, List.length_nil, closeDependents_nil]
        apply List.filter_eq_nil_iff.mpr
        intro h _; simp
      rw [hall]
      rw [List.filter_nil]
      split
      · rename_i h; simp at h
      · simp [Doc.changesFor, hnil]

end AmVerif.Sync.Prog
