import AmVerif.Proofs.DocCodecFrame
/-
  Helper lemmas for C11 (document chunk): the ROW level — the column values of an image's rows are
  read back into the rows by `readRows` (`OpIter::try_next`), and a column of the encoded table is
  found again by `colBytes`.
-/
namespace AmVerif.DocCodec
open AmVerif AmVerif.Leb
open AmVerif.ChangeCodec (IdI Rng slice valueMeta valueRaw)

/-- the column values of one row -/
def rawRowOf (r : OpRow) : RawRow :=
  { idActor := r.id.actor, idCtr := r.id.ctr, objActor := objActorOf r, objCtr := objCtrOf r,
    keyActor := keyActorOf r, keyCtr := keyCtrOf r, keyStr := keyStrOf r, insert := r.insert,
    action := r.action, markName := r.markName, expand := r.expand, succCount := r.succ.length,
    valMeta := valueMeta r.val }

/-- the op columns of an image as value lists -/
def colsOfRows (rows : List OpRow) : OpColsV :=
  { idActor := rows.map (·.id.actor), idCtr := rows.map (·.id.ctr), objActor := rows.map objActorOf,
    objCtr := rows.map objCtrOf, keyActor := rows.map keyActorOf, keyCtr := rows.map keyCtrOf,
    keyStr := rows.map keyStrOf, insert := rows.map (·.insert), action := rows.map (·.action),
    markName := rows.map (·.markName), expand := rows.map (·.expand), succCount := rows.map (·.succ.length),
    succActor := (rows.flatMap (·.succ)).map (·.actor), succCtr := (rows.flatMap (·.succ)).map (·.ctr),
    valMeta := rows.map (fun r => valueMeta r.val), valRaw := (rows.map (fun r => valueRaw r.val)).flatten }

theorem zipRows_colsOfRows (rows : List OpRow) : zipRows (colsOfRows rows) = rows.map rawRowOf := by
  induction rows with
  | nil => rfl
  | cons r rs ih =>
    simp only [zipRows, colsOfRows, List.map_cons, List.zip_cons_cons] at ih ⊢
    rw [ih]
    rfl

/-- what a row must satisfy to be read back as itself -/
structure RowWF (r : OpRow) : Prop where
  /-- an object id with counter 0 reads as the root -/
  objCtr : ∀ i, r.obj = some i → i.ctr ≠ 0
  /-- an element key with counter 0 is HEAD (or an error) -/
  keyCtr : ∀ e, r.key = .elem e → 0 < e.ctr
  /-- the value is read back from its metadata word and raw bytes -/
  value : valueMeta r.val / 16 = (valueRaw r.val).length ∧
    scalarOfRaw (valueMeta r.val) (valueRaw r.val) = some r.val

theorem zip_actor_ctr : ∀ (succ : List IdI),
    ((succ.map (·.actor)).zip (succ.map (·.ctr))).map (fun (a, c) => (⟨c, a⟩ : IdI)) = succ
  | [] => rfl
  | x :: xs => by simp only [List.map_cons, List.zip_cons_cons, zip_actor_ctr xs]

theorem readRow_rawRowOf (r : OpRow) (h : RowWF r) (sa sc : List Nat) (raw : Bytes) :
    readRow (rawRowOf r) (r.succ.map (·.actor) ++ sa) (r.succ.map (·.ctr) ++ sc) (valueRaw r.val ++ raw)
      = .ok (r, sa, sc, raw) := by
  obtain ⟨id, obj, key, insert, action, val, succ, expand, markName⟩ := r
  have hkey : loadKey (keyStrOf ⟨id, obj, key, insert, action, val, succ, expand, markName⟩)
      (keyActorOf ⟨id, obj, key, insert, action, val, succ, expand, markName⟩)
      (keyCtrOf ⟨id, obj, key, insert, action, val, succ, expand, markName⟩) = some key := by
    cases key with
    | prop s => rfl
    | head => rfl
    | elem e =>
      have := h.keyCtr e rfl
      simp only [loadKey, loadElem, keyStrOf, keyActorOf, keyCtrOf, if_pos this]
  have hobj : loadObj (objActorOf ⟨id, obj, key, insert, action, val, succ, expand, markName⟩)
      (objCtrOf ⟨id, obj, key, insert, action, val, succ, expand, markName⟩) = some obj := by
    cases obj with
    | none => rfl
    | some i =>
      have := h.objCtr i rfl
      simp [loadObj, objActorOf, objCtrOf, this]
  obtain ⟨hv1, hv2⟩ := h.value
  simp only at hv1 hv2
  unfold readRow
  simp only [rawRowOf] at hkey hobj ⊢
  rw [hkey, hobj]
  simp only [hv1, List.length_append]
  have hlt : ¬ (valueRaw val).length + raw.length < (valueRaw val).length := by omega
  rw [if_neg hlt, List.take_left' rfl, hv2]
  simp only [List.drop_left' rfl]
  have h1 : (List.map (fun x => x.actor) succ ++ sa).take succ.length = succ.map (·.actor) :=
    List.take_left' (by simp)
  have h2 : (List.map (fun x => x.ctr) succ ++ sc).take succ.length = succ.map (·.ctr) :=
    List.take_left' (by simp)
  have h3 : (List.map (fun x => x.actor) succ ++ sa).drop succ.length = sa := List.drop_left' (by simp)
  have h4 : (List.map (fun x => x.ctr) succ ++ sc).drop succ.length = sc := List.drop_left' (by simp)
  rw [h1, h2, h3, h4]
  rw [zip_actor_ctr]

theorem readRows_rows : ∀ (rows : List OpRow), (∀ r ∈ rows, RowWF r) → ∀ (sa sc : List Nat) (raw : Bytes),
    readRows (rows.map rawRowOf) ((rows.flatMap (·.succ)).map (·.actor) ++ sa)
      ((rows.flatMap (·.succ)).map (·.ctr) ++ sc) ((rows.map (fun r => valueRaw r.val)).flatten ++ raw)
      = (rows, none)
  | [], _, _, _, _ => rfl
  | r :: rs, h, sa, sc, raw => by
    simp only [List.map_cons, List.flatMap_cons, List.map_append, List.flatten_cons, List.append_assoc, readRows]
    rw [readRow_rawRowOf r (h r List.mem_cons_self)]
    simp only
    rw [readRows_rows rs (fun x hx => h x (List.mem_cons_of_mem _ hx))]

/-- `readRows` on the columns of an image gives its rows back -/
theorem readRows_colsOfRows (rows : List OpRow) (h : ∀ r ∈ rows, RowWF r) :
    readRows (zipRows (colsOfRows rows)) (colsOfRows rows).succActor (colsOfRows rows).succCtr
      (colsOfRows rows).valRaw = (rows, none) := by
  rw [zipRows_colsOfRows]
  have := readRows_rows rows h [] [] []
  simpa [colsOfRows] using this

/-! ### finding a column of the encoded table again -/

theorem nodup_fst_unique {cols : List (Nat × Bytes)} (hnd : (cols.map (·.1)).Nodup) {s : Nat} {a b : Bytes}
    (ha : (s, a) ∈ cols) (hb : (s, b) ∈ cols) : a = b := by
  induction cols with
  | nil => cases ha
  | cons x xs ih =>
    have hnd' := List.nodup_cons.mp (by simpa using hnd : (x.1 :: xs.map (·.1)).Nodup)
    rcases List.mem_cons.mp ha with ha | ha <;> rcases List.mem_cons.mp hb with hb | hb
    · rw [← ha] at hb; exact (Prod.mk.inj hb).2.symm ▸ rfl
    · exact absurd (List.mem_map.mpr ⟨(s, b), hb, rfl⟩ : s ∈ xs.map (·.1)) (by subst ha; exact hnd'.1)
    · exact absurd (List.mem_map.mpr ⟨(s, a), ha, rfl⟩ : s ∈ xs.map (·.1)) (by subst hb; exact hnd'.1)
    · exact ih hnd'.2 ha hb

theorem slice_mid (pre b post : Bytes) :
    slice (pre ++ (b ++ post)) ⟨pre.length, pre.length + b.length⟩ = b := by
  unfold slice
  simp only [List.drop_left' rfl]
  rw [show pre.length + b.length - pre.length = b.length by omega, List.take_left' rfl]

theorem colBytes_aux : ∀ (ne : List (Nat × Bytes)) (pre : Bytes) (spec : Nat),
    (ne.map (·.1)).Nodup → pre.length + (colData ne).length < 2 ^ 64 →
    colBytes (ChangeCodec.colRanges (metaPairs ne) pre.length) (pre ++ colData ne) spec =
      (match ne.find? (fun c => c.1 = spec) with | some c => c.2 | none => [])
  | [], pre, spec, _, _ => by simp [colBytes, metaPairs, ChangeCodec.colRanges]
  | (s, b) :: rest, pre, spec, hnd, hlen => by
    have hnd' := List.nodup_cons.mp (by simpa using hnd : (s :: rest.map (·.1)).Nodup)
    have hcd : colData ((s, b) :: rest) = b ++ colData rest := by simp [colData]
    rw [hcd] at hlen ⊢
    simp only [List.length_append] at hlen
    have hm : min (pre.length + b.length) ChangeCodec.usizeMax = pre.length + b.length := by
      unfold ChangeCodec.usizeMax; omega
    have ih := colBytes_aux rest (pre ++ b) spec hnd'.2 (by simp only [List.length_append]; omega)
    simp only [List.length_append, List.append_assoc] at ih
    simp only [metaPairs, List.map_cons, ChangeCodec.colRanges, hm]
    by_cases hs : s = spec
    · subst hs
      -- no later column has this specification
      have hnone : (ChangeCodec.colRanges (metaPairs rest) (pre.length + b.length)).filter (fun c => c.1 = s) = [] := by
        rw [List.filter_eq_nil_iff]
        intro c hc
        have hm2 : c.1 ∈ (ChangeCodec.colRanges (metaPairs rest) (pre.length + b.length)).map (·.1) :=
          List.mem_map.mpr ⟨c, hc, rfl⟩
        rw [colRanges_specs] at hm2
        simp only [metaPairs, List.map_map, Function.comp_def] at hm2
        simp only [decide_eq_true_eq]
        intro hcs
        exact hnd'.1 (by rw [← hcs]; exact hm2)
      unfold colBytes
      simp only [metaPairs] at hnone
      simp only [List.filter_cons, decide_true, if_true, hnone, List.getLast?_singleton, List.find?_cons]
      exact slice_mid pre b (colData rest)
    · unfold colBytes at ih ⊢
      simp only [metaPairs] at ih
      simp only [List.filter_cons, hs, decide_false, Bool.false_eq_true, if_false, List.find?_cons]
      exact ih

/-- **a column of the table `encodeDoc` writes is found again** by the lookup of the reader: its
    bytes, whether it was written or dropped for being empty -/
theorem colBytes_encoded (cols : List (Nat × Bytes)) (spec : Nat) (b : Bytes)
    (hnd : (cols.map (·.1)).Nodup) (hm : (spec, b) ∈ cols)
    (hlen : (colData (nonEmptyCols cols)).length < 2 ^ 64) :
    colBytes (rangesOf (nonEmptyCols cols)) (colData (nonEmptyCols cols)) spec = b := by
  have hnd' : ((nonEmptyCols cols).map (·.1)).Nodup := by
    unfold nonEmptyCols
    exact hnd.sublist (List.Sublist.map _ List.filter_sublist)
  have := colBytes_aux (nonEmptyCols cols) [] spec hnd' (by simpa using hlen)
  simp only [List.length_nil, List.nil_append] at this
  unfold rangesOf
  rw [this]
  -- the first (only) column with that specification among the non-empty ones
  by_cases hb : b = []
  · subst hb
    have : (nonEmptyCols cols).find? (fun c => c.1 = spec) = none := by
      rw [List.find?_eq_none]
      intro c hc
      simp only [decide_eq_true_eq]
      intro hcs
      have hc' := List.mem_filter.mp hc
      -- the column of that specification in `cols` is the empty one
      have : c = (spec, []) := by
        have h1 := hc'.1
        obtain ⟨c1, c2⟩ := c
        simp only at hcs
        subst hcs
        have := nodup_fst_unique hnd h1 hm
        rw [this]
      rw [this] at hc'
      simp at hc'
    rw [this]
  · have hmem : (spec, b) ∈ nonEmptyCols cols := List.mem_filter.mpr ⟨hm, by simp [hb]⟩
    cases hf : (nonEmptyCols cols).find? (fun c => c.1 = spec) with
    | none =>
      rw [List.find?_eq_none] at hf
      exact absurd (hf _ hmem) (by simp)
    | some c =>
      have hc := List.mem_of_find?_eq_some hf
      have hcs := List.find?_some hf
      simp only [decide_eq_true_eq] at hcs
      obtain ⟨c1, c2⟩ := c
      simp only at hcs
      subst hcs
      have := nodup_fst_unique hnd (nonEmptyCols_sub cols _ hc) hm
      simp only
      rw [this]

end AmVerif.DocCodec
