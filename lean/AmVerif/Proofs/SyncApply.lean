import AmVerif.Proofs.SyncBasic
/-
  `Doc.applyChanges` (= `apply_changes` / `load_incremental`): well-formedness is preserved, the
  change graph only grows, and everything new comes from the queue or from the batch.
-/
namespace AmVerif.Sync
open AmVerif

/-- applied list and queue fit together -/
structure PairWF (a q : List Change) : Prop where
  topo : Topo a
  qnodup : (q.map (·.hash)).Nodup
  qfresh : ∀ c ∈ q, c.hash ∉ a.map (·.hash)

theorem ready_iff {a : List Change} {c : Change} :
    Doc.ready a c = true ↔ ∀ h ∈ c.deps, h ∈ a.map (·.hash) := by
  simp [Doc.ready]

theorem sweep_spec : ∀ (q a : List Change), PairWF a q →
    PairWF (Doc.sweep a q).1 (Doc.sweep a q).2 ∧
    (∀ x ∈ a, x ∈ (Doc.sweep a q).1) ∧
    (∀ x ∈ (Doc.sweep a q).1, x ∈ a ∨ x ∈ q) ∧
    (∀ x ∈ (Doc.sweep a q).2, x ∈ q)
  | [], a, h => by simp [Doc.sweep]; exact h
  | c :: q, a, h => by
    have hq : (q.map (·.hash)).Nodup := (List.nodup_cons.mp h.qnodup).2
    have hcq : c.hash ∉ q.map (·.hash) := (List.nodup_cons.mp h.qnodup).1
    unfold Doc.sweep
    split
    · rename_i hr
      have hwf : PairWF (c :: a) q := by
        refine ⟨⟨ready_iff.mp hr, h.qfresh c (by simp), h.topo⟩, hq, ?_⟩
        intro c' hc' hmem
        simp only [List.map_cons, List.mem_cons] at hmem
        rcases hmem with heq | hmem
        · apply hcq; rw [← heq]; exact List.mem_map_of_mem hc'
        · exact h.qfresh c' (List.mem_cons_of_mem _ hc') hmem
      obtain ⟨i1, i2, i3, i4⟩ := sweep_spec q (c :: a) hwf
      refine ⟨i1, fun x hx => i2 x (List.mem_cons_of_mem _ hx), ?_, fun x hx => List.mem_cons_of_mem _ (i4 x hx)⟩
      intro x hx
      rcases i3 x hx with h1 | h1
      · rcases List.mem_cons.mp h1 with rfl | h1
        · right; simp
        · left; exact h1
      · right; exact List.mem_cons_of_mem _ h1
    · have hwf : PairWF a q := ⟨h.topo, hq, fun c' hc' => h.qfresh c' (List.mem_cons_of_mem _ hc')⟩
      obtain ⟨i1, i2, i3, i4⟩ := sweep_spec q a hwf
      refine ⟨⟨i1.topo, ?_, ?_⟩, i2, ?_, ?_⟩
      · simp only [List.map_cons]
        refine List.nodup_cons.mpr ⟨?_, i1.qnodup⟩
        intro hmem
        obtain ⟨y, hy, hyh⟩ := List.mem_map.mp hmem
        apply hcq; rw [← hyh]; exact List.mem_map_of_mem (i4 y hy)
      · intro c' hc' hmem
        rcases List.mem_cons.mp hc' with rfl | hc'
        · obtain ⟨y, hy, hyh⟩ := List.mem_map.mp hmem
          rcases i3 y hy with h1 | h1
          · exact h.qfresh c' (by simp) (by rw [← hyh]; exact List.mem_map_of_mem h1)
          · apply hcq; rw [← hyh]; exact List.mem_map_of_mem h1
        · exact i1.qfresh c' hc' hmem
      · intro x hx
        rcases i3 x hx with h1 | h1
        · left; exact h1
        · right; exact List.mem_cons_of_mem _ h1
      · intro x hx
        rcases List.mem_cons.mp hx with rfl | hx
        · simp
        · exact List.mem_cons_of_mem _ (i4 x hx)

theorem drain_spec : ∀ (n : Nat) (a q : List Change), PairWF a q →
    PairWF (Doc.drain n a q).1 (Doc.drain n a q).2 ∧
    (∀ x ∈ a, x ∈ (Doc.drain n a q).1) ∧
    (∀ x ∈ (Doc.drain n a q).1, x ∈ a ∨ x ∈ q) ∧
    (∀ x ∈ (Doc.drain n a q).2, x ∈ q)
  | 0, a, q, h => by
    simp only [Doc.drain]
    exact ⟨h, fun _ hx => hx, fun _ hx => Or.inl hx, fun _ hx => hx⟩
  | n + 1, a, q, h => by
    obtain ⟨i1, i2, i3, i4⟩ := sweep_spec q a h
    unfold Doc.drain
    simp only
    split
    · exact ⟨i1, i2, i3, i4⟩
    · obtain ⟨j1, j2, j3, j4⟩ := drain_spec n _ _ i1
      refine ⟨j1, fun x hx => j2 x (i2 x hx), ?_, fun x hx => i4 x (j4 x hx)⟩
      intro x hx
      rcases j3 x hx with h1 | h1
      · exact i3 x h1
      · right; exact i4 x h1

theorem enqueue_spec (d : Doc) : ∀ (cs q : List Change),
    (q.map (·.hash)).Nodup → (∀ c ∈ q, c.hash ∉ d.hashes) →
    ((Doc.enqueue d q cs).map (·.hash)).Nodup ∧
    (∀ c ∈ Doc.enqueue d q cs, c.hash ∉ d.hashes) ∧
    (∀ c ∈ q, c ∈ Doc.enqueue d q cs) ∧
    (∀ c ∈ Doc.enqueue d q cs, c ∈ q ∨ c ∈ cs)
  | [], q, h1, h2 => by simp [Doc.enqueue]; exact ⟨h1, h2⟩
  | c :: cs, q, h1, h2 => by
    unfold Doc.enqueue
    split
    · obtain ⟨i1, i2, i3, i4⟩ := enqueue_spec d cs q h1 h2
      refine ⟨i1, i2, i3, ?_⟩
      intro x hx
      rcases i4 x hx with h | h
      · left; exact h
      · right; exact List.mem_cons_of_mem _ h
    · rename_i hcond
      simp only [Bool.or_eq_true, not_or, Bool.not_eq_true] at hcond
      have hc1 : c.hash ∉ d.hashes := by
        intro hm; have := Doc.hasChange_iff.mpr hm; rw [this] at hcond; exact absurd hcond.1 (by simp)
      have hc2 : c.hash ∉ q.map (·.hash) := by
        intro hm
        have : (List.map (fun x => x.hash) q).contains c.hash = true := by simpa using hm
        rw [this] at hcond; exact absurd hcond.2 (by simp)
      have n1 : ((q ++ [c]).map (·.hash)).Nodup := by
        rw [List.map_append, List.nodup_append]
        refine ⟨h1, by simp, ?_⟩
        intro a ha b hb
        simp at hb; subst hb
        intro heq; apply hc2; rw [← heq]; exact ha
      have n2 : ∀ c' ∈ q ++ [c], c'.hash ∉ d.hashes := by
        intro c' hc'
        rcases List.mem_append.mp hc' with h | h
        · exact h2 c' h
        · simp at h; subst h; exact hc1
      obtain ⟨i1, i2, i3, i4⟩ := enqueue_spec d cs (q ++ [c]) n1 n2
      refine ⟨i1, i2, fun x hx => i3 x (List.mem_append_left _ hx), ?_⟩
      intro x hx
      rcases i4 x hx with h | h
      · rcases List.mem_append.mp h with h | h
        · left; exact h
        · right; simp at h; subst h; simp
      · right; exact List.mem_cons_of_mem _ h

/-- the facts about `apply_changes` the invariants need -/
theorem applyChanges_spec (d : Doc) (cs : List Change) (wf : DocWF d) :
    DocWF (d.applyChanges cs) ∧
    (∀ x ∈ d.applied, x ∈ (d.applyChanges cs).applied) ∧
    (∀ x ∈ (d.applyChanges cs).applied, x ∈ d.applied ∨ x ∈ d.queue ∨ x ∈ cs) ∧
    (∀ x ∈ (d.applyChanges cs).queue, x.hash ∉ d.hashes ∧ (x ∈ d.queue ∨ x ∈ cs)) := by
  obtain ⟨e1, e2, _, e4⟩ := enqueue_spec d cs d.queue wf.qnodup wf.qfresh
  have pw : PairWF d.applied (Doc.enqueue d d.queue cs) := ⟨wf.topo, e1, e2⟩
  obtain ⟨j1, j2, j3, j4⟩ := drain_spec ((Doc.enqueue d d.queue cs).length + 1) _ _ pw
  refine ⟨⟨j1.topo, j1.qnodup, j1.qfresh⟩, j2, ?_, ?_⟩
  · intro x hx
    rcases j3 x hx with h | h
    · left; exact h
    · right; exact e4 x h
  · intro x hx
    exact ⟨e2 x (j4 x hx), e4 x (j4 x hx)⟩

theorem hashes_mono_applyChanges (d : Doc) (cs : List Change) (wf : DocWF d) {h : Hash}
    (hh : h ∈ d.hashes) : h ∈ (d.applyChanges cs).hashes := by
  obtain ⟨x, hx, rfl⟩ := Doc.mem_hashes.mp hh
  exact Doc.mem_hashes.mpr ⟨x, (applyChanges_spec d cs wf).2.1 x hx, rfl⟩

end AmVerif.Sync
