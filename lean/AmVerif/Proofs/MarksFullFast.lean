import AmVerif.Proofs.MarksFullFastState
import AmVerif.Proofs.MarksFullUnique
/-
  Helper lemmas for C25 (`calculate_marks_fast` = `calculate_marks_slow`), part 2: the indexed walk covers
  exactly the units `get_marks` marks, in the canonical shape — hence (uniqueness of the canonical shape) it
  returns the same list as the plain walk whenever both see the same mark ops.
-/
namespace AmVerif.Crdt
open AmVerif

theorem getMarksGo_ne_null (wf : Op → Nat) {n : Bytes} {v : Scalar} : ∀ (its : List Item) (m : Msm) (index stop : Nat),
    (n, v) ∈ getMarksGo wf m its index stop → v ≠ .null := by
  intro its
  induction its with
  | nil => intro m index stop h; exact ((mem_withoutUnmarks _ _ _).mp h).2
  | cons it rest ih =>
    intro m index stop h
    by_cases hs : stop > index
    · rw [getMarksGo_done wf m _ hs] at h; exact ((mem_withoutUnmarks _ _ _).mp h).2
    · cases it with
      | mbegin id d => simp only [getMarksGo, hs, if_false] at h; exact ih _ _ _ h
      | mend id => simp only [getMarksGo, hs, if_false] at h; exact ih _ _ _ h
      | elem e t => simp only [getMarksGo, hs, if_false] at h; exact ih _ _ _ h

theorem FastWalk.closeSeg_covers (w : FastWalk) (n : Bytes) (v : Scalar) (i : Nat) :
    w.closeSeg.Covers n v i ↔
      (w.acc.Covers n v i ∨ ∃ s set, w.seg = some (s, set) ∧ (n, v) ∈ set ∧ s ≤ i ∧ i < w.seq) := by
  unfold FastWalk.closeSeg
  cases hseg : w.seg with
  | none => simp
  | some p =>
    obtain ⟨s, set⟩ := p
    by_cases hgt : w.seq > s
    · simp only [hgt, if_true]
      rw [MarkAcc.add_covers]
      constructor
      · rintro (h | ⟨h1, h2, h3⟩)
        · left; exact h
        · right; exact ⟨s, set, rfl, h1, h2, by omega⟩
      · rintro (h | ⟨s', set', he, h1, h2, h3⟩)
        · left; exact h
        · injection he with he
          injection he with he1 he2
          subst he1; subst he2
          right; exact ⟨h1, h2, by omega⟩
    · simp only [hgt, if_false]
      constructor
      · intro h; left; exact h
      · rintro (h | ⟨s', set', he, _, h2, h3⟩)
        · exact h
        · injection he with he
          injection he with he1 _
          subst he1
          omega

theorem withoutUnmarks_sorted {s : MarkSet} (h : s.SortedKeys) : s.withoutUnmarks.SortedKeys :=
  List.Pairwise.filter _ h

/-- what the indexed walk knows after the rows `pre`; `B` = position of the last boundary -/
structure FastWalk.Inv (wf : Op → Nat) (pre : List Item) (w : FastWalk) (B : Nat) : Prop where
  seq : w.seq = itemsWidth wf pre
  bnd : B ≤ w.seq
  perm : w.state.Perm (pre.foldl Msm.step {}).state
  seg : w.seg = (if (pre.foldl Msm.step {}).out.isEmpty then none else some (B, (pre.foldl Msm.step {}).out))
  acc : ∀ n v i, w.acc.Covers n v i ↔ (i < B ∧ (n, v) ∈ getMarksGo wf {} pre i 0)
  pending : ∀ i, B ≤ i → i < w.seq → getMarksGo wf {} pre i 0 = (pre.foldl Msm.step {}).out
  accOk : AccOk (fun _ => B) w.acc

theorem FastWalk.inv_empty (wf : Op → Nat) : FastWalk.Inv wf [] {} 0 := by
  refine ⟨rfl, Nat.le_refl _, List.Perm.refl _, rfl, ?_, ?_, ⟨List.Pairwise.nil, fun p hp => by cases hp⟩⟩
  · intro n v i; simp [MarkAcc.Covers]
  · intro i _ h; simp [itemsWidth] at h

/-- the accumulator after `closeSeg` is in shape up to the current position -/
theorem FastWalk.closeSeg_ok {wf : Op → Nat} {pre : List Item} {w : FastWalk} {B : Nat} (h : FastWalk.Inv wf pre w B) :
    AccOk (fun _ => w.seq) w.closeSeg := by
  have hmono : AccOk (fun _ => w.seq) w.acc := h.accOk.mono (fun _ => h.bnd)
  have hcs : (pre.foldl Msm.step {}).current.SortedKeys := Msm.foldl_curSorted pre List.Pairwise.nil
  unfold FastWalk.closeSeg
  rw [h.seg]
  by_cases he : (pre.foldl Msm.step {}).out.isEmpty = true
  · simp only [he, if_true]; exact hmono
  · simp only [he, Bool.false_eq_true, if_false]
    by_cases hgt : w.seq > B
    · simp only [hgt, if_true]
      have := MarkAcc.add_ok B (w.seq - B) (by omega) (pre.foldl Msm.step {}).out h.accOk (fun _ _ => Nat.le_refl _)
        (withoutUnmarks_sorted hcs).distinct
      refine this.mono ?_
      intro k
      by_cases hk : ∃ p ∈ (pre.foldl Msm.step {}).out, p.1 = k
      · simp only [hk, if_true]; omega
      · simp only [hk, if_false]; exact h.bnd
    · simp only [hgt, if_false]; exact hmono

theorem FastWalk.closeSeg_covers_inv {wf : Op → Nat} {pre : List Item} {w : FastWalk} {B : Nat} (h : FastWalk.Inv wf pre w B)
    (n : Bytes) (v : Scalar) (i : Nat) :
    w.closeSeg.Covers n v i ↔ (i < w.seq ∧ (n, v) ∈ getMarksGo wf {} pre i 0) := by
  rw [FastWalk.closeSeg_covers, h.acc]
  constructor
  · rintro (⟨h1, h2⟩ | ⟨s, set, hs, h1, h2, h3⟩)
    · exact ⟨by have := h.bnd; omega, h2⟩
    · rw [h.seg] at hs
      by_cases he : (pre.foldl Msm.step {}).out.isEmpty = true
      · simp [he] at hs
      · simp only [he, Bool.false_eq_true, if_false, Option.some.injEq, Prod.mk.injEq] at hs
        obtain ⟨hs1, hs2⟩ := hs
        subst hs1; subst hs2
        exact ⟨h3, by rw [h.pending i h2 h3]; exact h1⟩
  · rintro ⟨h1, h2⟩
    by_cases hlt : i < B
    · left; exact ⟨hlt, h2⟩
    · right
      rw [h.pending i (by omega) h1] at h2
      have hne : ¬ (pre.foldl Msm.step {}).out.isEmpty = true := by
        intro he
        have : (pre.foldl Msm.step {}).out = [] := by simpa using he
        rw [this] at h2; cases h2
      refine ⟨B, (pre.foldl Msm.step {}).out, ?_, h2, by omega, h1⟩
      rw [h.seg]; simp [hne]

theorem FastWalk.step_inv (wf : Op → Nat) (pre : List Item) (w : FastWalk) (B : Nat) (h : FastWalk.Inv wf pre w B)
    (it : Item) (hfresh : ∀ id d, it = .mbegin id d → ∀ p ∈ (pre.foldl Msm.step {}).state, p.1 ≠ id) :
    ∃ B', FastWalk.Inv wf (pre ++ [it]) (w.step wf it) B' := by
  have hold : ∀ i, i < itemsWidth wf pre → getMarksGo wf {} (pre ++ [it]) i 0 = getMarksGo wf {} pre i 0 := by
    intro i hi
    exact getMarksGo_append_lt wf pre [it] {} i 0 (by omega)
  have hsorted : (pre.foldl Msm.step {}).Sorted := Msm.foldl_sorted pre (by simp [Msm.Sorted])
  -- a boundary of the mark index
  have hboundary : ∀ (f : QState → QState), (∀ e t, it ≠ .elem e t) →
      (f w.state).Perm ((pre ++ [it]).foldl Msm.step {}).state →
      FastWalk.Inv wf (pre ++ [it]) (w.boundary f) w.seq := by
    intro f hne hperm
    have hw : itemsWidth wf (pre ++ [it]) = itemsWidth wf pre := by
      rw [itemsWidth_append]
      cases it with
      | elem e t => exact absurd rfl (hne e t)
      | mbegin id d => simp [itemsWidth]
      | mend id => simp [itemsWidth]
    have hs' : ((pre ++ [it]).foldl Msm.step {}).Sorted := Msm.foldl_sorted _ (by simp [Msm.Sorted])
    have hi' : ((pre ++ [it]).foldl Msm.step {}).Inv := Msm.foldl_inv _ Msm.inv_empty
    have hc' : ((pre ++ [it]).foldl Msm.step {}).current.SortedKeys := Msm.foldl_curSorted _ List.Pairwise.nil
    refine ⟨?_, Nat.le_refl _, hperm, ?_, ?_, ?_, FastWalk.closeSeg_ok h⟩
    · show w.seq = _
      rw [hw]; exact h.seq
    · show (fromQueryState (f w.state)).map (fun set => (w.seq, set)) = _
      rw [fromQueryState_eq hperm hs' hi' hc']
      cases hout : ((pre ++ [it]).foldl Msm.step {}).out <;> simp
    · intro n v i
      show w.closeSeg.Covers n v i ↔ _
      rw [FastWalk.closeSeg_covers_inv h]
      constructor
      · rintro ⟨h1, h2⟩; exact ⟨h1, by rw [hold i (by rw [← h.seq]; exact h1)]; exact h2⟩
      · rintro ⟨h1, h2⟩; exact ⟨h1, by rw [hold i (by rw [← h.seq]; exact h1)] at h2; exact h2⟩
    · intro i h1 h2
      have h2' : i < w.seq := h2
      omega
  cases it with
  | mbegin id d =>
    refine ⟨w.seq, ?_⟩
    show FastWalk.Inv wf _ (w.boundary (fun s => s.insert id d)) w.seq
    apply hboundary (fun s => s.insert id d) (fun e t h => by cases h)
    rw [List.foldl_append]
    exact Msm.markBegin_perm h.perm id d (hfresh id d rfl)
  | mend id =>
    refine ⟨w.seq, ?_⟩
    show FastWalk.Inv wf _ (w.boundary (fun s => s.remove id.prev)) w.seq
    apply hboundary (fun s => s.remove id.prev) (fun e t h => by cases h)
    rw [List.foldl_append]
    exact Msm.markEnd_perm h.perm hsorted id
  | elem e t =>
    have hmsm : (pre ++ [Item.elem e t]).foldl Msm.step {} = pre.foldl Msm.step {} := by
      rw [List.foldl_append]; rfl
    have hnew : ∀ i, itemsWidth wf pre ≤ i → i < itemsWidth wf pre + wf t →
        getMarksGo wf {} (pre ++ [.elem e t]) i 0 = (pre.foldl Msm.step {}).out := by
      intro i h1 h2
      exact getMarksGo_split wf pre e t [] {} i 0 (by omega) (by omega)
    have hseq := h.seq
    have hbnd := h.bnd
    refine ⟨B, ?_, ?_, ?_, ?_, ?_, ?_, h.accOk⟩
    · show w.seq + wf t = _
      rw [itemsWidth_append]; simp [itemsWidth, h.seq]
    · show B ≤ w.seq + wf t
      omega
    · rw [hmsm]; exact h.perm
    · rw [hmsm]; exact h.seg
    · intro n v i
      show w.acc.Covers n v i ↔ _
      rw [h.acc]
      constructor
      · rintro ⟨h1, h2⟩; exact ⟨h1, by rw [hold i (by omega)]; exact h2⟩
      · rintro ⟨h1, h2⟩; exact ⟨h1, by rw [hold i (by omega)] at h2; exact h2⟩
    · intro i h1 h2
      have h2' : i < w.seq + wf t := h2
      rw [hmsm]
      by_cases hlt : i < w.seq
      · rw [hold i (by omega)]; exact h.pending i h1 hlt
      · exact hnew i (by omega) (by omega)

theorem beginIds_append (a b : List Item) : beginIds (a ++ b) = beginIds a ++ beginIds b := by
  simp [beginIds, List.filterMap_append]

theorem FastWalk.foldl_inv (wf : Op → Nat) (its : List Item) :
    ∀ (pre : List Item) (w : FastWalk) (B : Nat), FastWalk.Inv wf pre w B → (beginIds (pre ++ its)).Nodup →
      ∃ B', FastWalk.Inv wf (pre ++ its) (its.foldl (FastWalk.step wf) w) B' := by
  induction its with
  | nil => intro pre w B h _; exact ⟨B, by simpa using h⟩
  | cons it rest ih =>
    intro pre w B h hnd
    have hfresh : ∀ id d, it = .mbegin id d → ∀ p ∈ (pre.foldl Msm.step {}).state, p.1 ≠ id := by
      intro id d hit p hp he
      rcases Msm.foldl_ids pre {} p hp with hc | hc
      · cases hc
      · -- `id` would occur twice among the begin ids
        rw [hit, beginIds_append] at hnd
        have hdis := (List.nodup_append.mp hnd).2.2
        exact hdis p.1 hc id (by simp [beginIds]) he
    obtain ⟨B1, h1⟩ := FastWalk.step_inv wf pre w B h it hfresh
    have := ih (pre ++ [it]) _ B1 h1 (by simpa [List.append_assoc] using hnd)
    simpa [List.append_assoc] using this

/-- `calculate_marks_fast` vs `get_marks` over the rows of the indexes, and the shape of what it returns -/
theorem fastMarks_spec (wf : Op → Nat) (its : List Item) (hnd : (beginIds its).Nodup) :
    (∀ n v i, i < itemsWidth wf its → (MarksCover (fastMarks wf its) n v i ↔ (n, v) ∈ getMarksGo wf {} its i 0)) ∧
    (fastMarks wf its).Pairwise MarkBefore ∧
    ∀ r ∈ fastMarks wf its, r.start < r.stop ∧ r.stop ≤ itemsWidth wf its ∧ r.value ≠ .null := by
  obtain ⟨B, h⟩ := FastWalk.foldl_inv wf its [] {} 0 (FastWalk.inv_empty wf) (by simpa using hnd)
  simp only [List.nil_append] at h
  unfold fastMarks
  generalize its.foldl (FastWalk.step wf) {} = w at h
  have hshape := MarkAcc.toMarks_shape (FastWalk.closeSeg_ok h)
  rw [h.seq] at hshape
  refine ⟨?_, hshape.1, hshape.2⟩
  intro n v i hi
  unfold MarksCover
  rw [MarkAcc.toMarks_covers, FastWalk.closeSeg_covers_inv h]
  constructor
  · rintro ⟨_, _, h2⟩; exact h2
  · intro h2; exact ⟨getMarksGo_ne_null wf its {} i 0 h2, by rw [h.seq]; exact hi, h2⟩

end AmVerif.Crdt

