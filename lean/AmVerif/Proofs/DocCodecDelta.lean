import AmVerif.Proofs.DocCodecCols
/-
  Helper lemmas for C11 (document chunk): DELTA columns through the validating loader
  (`DeltaColumn<T>::load_with`): the per-slab aggregates (`IndexedDeltaWeightFn::accumulate_run`,
  checked `i64` arithmetic) and the domain walk accept the encoder's bytes whenever every value lies
  in a window `[wlo, whi]` around 0 that is less than 2^63 wide and inside the type's domain.
-/
namespace AmVerif.DocCodec
open AmVerif
open AmVerif.Hexane (Item Weight cI64 rleEncode rleLoad two63 two64 itemsOf itemsLen ListValid expand account finish
  Agg AState aggStep acctStep domainCheck inI64 deltas realise)

/-- the value window -/
structure Win where
  lo : Int
  hi : Int
  zeroIn : lo ≤ 0 ∧ 0 ≤ hi
  narrow : hi - lo < (two63 : Int)

def Win.mem (w : Win) (z : Int) : Prop := w.lo ≤ z ∧ z ≤ w.hi

/-- every realised value of a delta list, started at `cur`, lies in the window -/
def PrefW (w : Win) : Int → List (Option Int) → Prop
  | _, [] => True
  | cur, none :: r => PrefW w cur r
  | cur, some d :: r => w.mem (cur + d) ∧ PrefW w (cur + d) r

/-- the same over segments: the first and the last value of every run -/
def ItemsW (w : Win) : Int → List (Item Int) → Prop
  | _, [] => True
  | cur, .head _ :: r => ItemsW w cur r
  | cur, .litv d :: r => w.mem (cur + d) ∧ ItemsW w (cur + d) r
  | cur, .run n d :: r => 1 ≤ n ∧ w.mem (cur + d) ∧ w.mem (cur + n * d) ∧ ItemsW w (cur + n * d) r
  | cur, .null n :: r => 1 ≤ n ∧ ItemsW w cur r

theorem prefW_replicate (w : Win) (d : Int) : ∀ (n : Nat) (cur : Int) (r : List (Option Int)),
    PrefW w cur (List.replicate n (some d) ++ r) →
    (1 ≤ n → w.mem (cur + d) ∧ w.mem (cur + n * d)) ∧ PrefW w (cur + n * d) r
  | 0, cur, r, h => by simpa using h
  | n + 1, cur, r, h => by
    simp only [List.replicate_succ, List.cons_append, PrefW] at h
    obtain ⟨h1, h2⟩ := h
    obtain ⟨h3, h4⟩ := prefW_replicate w d n (cur + d) r h2
    have e : cur + d + (n : Int) * d = cur + ((n + 1 : Nat) : Int) * d := by
      push_cast; rw [Int.add_mul]; omega
    rw [e] at h3 h4
    refine ⟨fun _ => ⟨h1, ?_⟩, h4⟩
    cases n with
    | zero => simpa using h1
    | succ m => exact (h3 (by omega)).2

theorem prefW_nulls (w : Win) : ∀ (n : Nat) (cur : Int) (r : List (Option Int)),
    PrefW w cur (List.replicate n none ++ r) → PrefW w cur r
  | 0, _, _, h => by simpa using h
  | n + 1, cur, r, h => by
    simp only [List.replicate_succ, List.cons_append, PrefW] at h
    exact prefW_nulls w n cur r h

/-- segments with positive counts -/
def CountsPos : List (Item Int) → Prop
  | [] => True
  | .run n _ :: r => 1 ≤ n ∧ CountsPos r
  | .null n :: r => 1 ≤ n ∧ CountsPos r
  | _ :: r => CountsPos r

theorem itemsW_of_prefW (w : Win) : ∀ (items : List (Item Int)) (cur : Int), CountsPos items →
    PrefW w cur (expand items) → ItemsW w cur items
  | [], _, _, _ => trivial
  | .head _ :: r, cur, hc, h => itemsW_of_prefW w r cur hc h
  | .litv d :: r, cur, hc, h => by
    simp only [expand, PrefW] at h
    exact ⟨h.1, itemsW_of_prefW w r _ hc h.2⟩
  | .run n d :: r, cur, hc, h => by
    simp only [expand] at h
    obtain ⟨h1, h2⟩ := prefW_replicate w d n cur _ h
    exact ⟨hc.1, (h1 hc.1).1, (h1 hc.1).2, itemsW_of_prefW w r _ hc.2 h2⟩
  | .null n :: r, cur, hc, h => by
    simp only [expand] at h
    exact ⟨hc.1, itemsW_of_prefW w r _ hc.2 (prefW_nulls w n cur _ h)⟩

theorem countsPos_of_canon {Valid : Int → Prop} (nullable : Bool) : ∀ (items : List (Item Int)) (st : Hexane.PState Int),
    Hexane.canon Valid nullable st items → CountsPos items
  | [], _, _ => trivial
  | .head _ :: r, _, h => countsPos_of_canon nullable r _ h.2.2.2.2
  | .litv _ :: r, _, h => countsPos_of_canon nullable r _ h.2.2.2.2
  | .run n _ :: r, _, h => ⟨by have := h.2.1; omega, countsPos_of_canon nullable r _ h.2.2.2.2.2⟩
  | .null n :: r, _, h => ⟨h.2.1, countsPos_of_canon nullable r _ h.2.2.2.2.2⟩

theorem prefW_deltas (w : Win) : ∀ (xs : List (Option Int)) (cur : Int),
    (∀ v, some v ∈ xs → w.mem v) → PrefW w cur (deltas xs cur)
  | [], _, _ => trivial
  | none :: r, cur, h => by
    simp only [deltas, PrefW]
    exact prefW_deltas w r cur (fun v hv => h v (List.mem_cons_of_mem _ hv))
  | some v :: r, cur, h => by
    simp only [deltas, PrefW]
    have e : cur + (v - cur) = v := by omega
    rw [e]
    exact ⟨h v List.mem_cons_self, prefW_deltas w r v (fun u hu => h u (List.mem_cons_of_mem _ hu))⟩

/-- the closed slabs walk from `b` to `b'` inside the window -/
def AggsOk (w : Win) : List Agg → Int → Int → Prop
  | [], b, b' => b = b'
  | a :: as, b, b' => a.len > 0 ∧ w.lo ≤ b + a.minOff ∧ b + a.maxOff ≤ w.hi ∧ AggsOk w as (b + a.total) b'

theorem aggsOk_snoc (w : Win) : ∀ (as : List Agg) (a : Agg) (b b' : Int), AggsOk w as b b' →
    a.len > 0 → w.lo ≤ b' + a.minOff → b' + a.maxOff ≤ w.hi → AggsOk w (as ++ [a]) b (b' + a.total)
  | [], a, b, b', h, h1, h2, h3 => by
    simp only [AggsOk] at h
    subst h
    exact ⟨h1, h2, h3, rfl⟩
  | x :: xs, a, b, b', h, h1, h2, h3 => by
    obtain ⟨e1, e2, e3, e4⟩ := h
    exact ⟨e1, e2, e3, aggsOk_snoc w xs a _ b' e4 h1 h2 h3⟩

theorem domainCheck_ok (w : Win) (lo hi : Int) (hlo : lo ≤ w.lo) (hhi : w.hi ≤ hi) :
    ∀ (as : List Agg) (b b' : Int), AggsOk w as b b' → domainCheck lo hi as b = true
  | [], _, _, _ => rfl
  | a :: as, b, b', h => by
    obtain ⟨e1, e2, e3, e4⟩ := h
    have h0 : ¬ a.len = 0 := by omega
    have h1 : ¬ (b + a.minOff < lo ∨ b + a.maxOff > hi) := by omega
    simp only [domainCheck, h0, if_false, h1]
    exact domainCheck_ok w lo hi hlo hhi as _ b' e4

/-- the loader state between two segments: `base` = the value at the start of the open slab,
    `cur` = the current value -/
structure DInv (w : Win) (st : AState) (base cur : Int) : Prop where
  total : st.agg.total = cur - base
  fresh : st.agg.len = 0 → cur = base
  bounds : st.agg.len > 0 → w.lo ≤ base + st.agg.minOff ∧ base + st.agg.maxOff ≤ w.hi
  curIn : w.mem cur
  baseIn : w.mem base
  closedOk : AggsOk w st.aggs 0 base
  segs : st.slabSegs > 0 → st.agg.len > 0

theorem acctStep_delta (w : Win) (lo hi : Int) (st : AState) (base cur : Int) (count : Nat) (v : Option Int)
    (hinv : DInv w st base cur) (hc1 : 1 ≤ count) (hc : count < two63) (hl : st.slabLen + count < two64)
    (hv : ∀ d, v = some d → w.mem (cur + d) ∧ w.mem (cur + count * d)) :
    ∃ st' base', acctStep (.delta lo hi) st count v = .ok st' ∧
      DInv w st' base' (match v with | some d => cur + count * d | none => cur) ∧
      st'.closed + st'.slabLen = st.closed + st.slabLen + count := by
  obtain ⟨h1, h2, h3, h4, h5, h6, h7⟩ := hinv
  have hn : ¬ ¬ (st.slabLen + count < two64) := by simpa using hl
  have hz := w.zeroIn
  have hw := w.narrow
  unfold Win.mem at *
  unfold acctStep
  rw [if_neg hn]
  cases v with
  | none =>
    simp only [aggStep]
    by_cases hlen : st.agg.len = 0
    · simp only [hlen, if_true]
      have hcb := h2 hlen
      by_cases hs : st.slabSegs + 1 = 32
      · simp only [hs, if_true]
        refine ⟨_, cur, rfl, ⟨by simp, fun _ => rfl, fun h => by simp at h, h4, h4, ?_, fun h => by simp at h⟩,
          by simp only; omega⟩
        have := aggsOk_snoc w st.aggs { st.agg with minOff := 0, maxOff := 0, len := 0 + count } 0 base h6
          (by simp only; omega) (by simp only; omega) (by simp only; omega)
        have e : base + st.agg.total = cur := by rw [h1]; omega
        simp only at this
        rw [e] at this
        exact this
      · simp only [hs, if_false]
        refine ⟨_, base, rfl, ⟨h1, fun h => by simp only at h; omega, fun _ => by simp only; omega, h4, h5, h6,
          fun _ => by simp only; omega⟩, by simp only; omega⟩
    · simp only [hlen, if_false]
      have hb := h3 (by omega)
      by_cases hs : st.slabSegs + 1 = 32
      · simp only [hs, if_true]
        refine ⟨_, cur, rfl, ⟨by simp, fun _ => rfl, fun h => by simp at h, h4, h4, ?_, fun h => by simp at h⟩,
          by simp only; omega⟩
        have := aggsOk_snoc w st.aggs
          { st.agg with minOff := min st.agg.minOff st.agg.total, maxOff := max st.agg.maxOff st.agg.total,
                        len := st.agg.len + count } 0 base h6
          (by simp only; omega) (by simp only; omega) (by simp only; omega)
        simp only at this ⊢
        rw [h1] at this
        have e : base + (cur - base) = cur := by omega
        rw [e] at this
        rw [h1]
        exact this
      · simp only [hs, if_false]
        refine ⟨_, base, rfl, ⟨h1, fun h => by simp only at h; omega, fun _ => by simp only; omega, h4, h5, h6,
          fun _ => by simp only; omega⟩, by simp only; omega⟩
  | some d =>
    obtain ⟨hv1, hv2⟩ := hv d rfl
    have hcnt : ¬ ¬ (count < two63) := by simpa using hc
    have hstep : inI64 (d * count) = true := by
      have : d * (count : Int) = (cur + count * d) - cur := by rw [Int.mul_comm]; omega
      unfold inI64; rw [this]; simp; omega
    have hfirst : inI64 (st.agg.total + d) = true := by
      unfold inI64; rw [h1]; simp; omega
    have hlast : inI64 (st.agg.total + d * count) = true := by
      have : d * (count : Int) = (cur + count * d) - cur := by rw [Int.mul_comm]; omega
      unfold inI64; rw [h1, this]; simp; omega
    simp only [aggStep, hcnt, if_false, hstep, hfirst, hlast, not_true_eq_false]
    have ecur : base + (st.agg.total + d * (count : Int)) = cur + count * d := by
      rw [h1, Int.mul_comm d]; omega
    have efirst : base + (st.agg.total + d) = cur + d := by rw [h1]; omega
    by_cases hlen : st.agg.len = 0
    · simp only [hlen, if_true]
      by_cases hs : st.slabSegs + 1 = 32
      · simp only [hs, if_true]
        refine ⟨_, cur + count * d, rfl, ⟨by simp, fun _ => rfl, fun h => by simp at h, hv2, hv2, ?_,
          fun h => by simp at h⟩, by simp only; omega⟩
        have := aggsOk_snoc w st.aggs
          { len := 0 + count, total := st.agg.total + d * count,
            minOff := min (st.agg.total + d) (st.agg.total + d * count),
            maxOff := max (st.agg.total + d) (st.agg.total + d * count) } 0 base h6
          (by simp only; omega) (by simp only; omega) (by simp only; omega)
        simp only at this
        rw [ecur] at this
        exact this
      · simp only [hs, if_false]
        refine ⟨_, base, rfl, ⟨by simp only; omega, fun h => by simp only at h; omega,
          fun _ => by simp only; omega, hv2, h5, h6, fun _ => by simp only; omega⟩, by simp only; omega⟩
    · simp only [hlen, if_false]
      have hb := h3 (by omega)
      by_cases hs : st.slabSegs + 1 = 32
      · simp only [hs, if_true]
        refine ⟨_, cur + count * d, rfl, ⟨by simp, fun _ => rfl, fun h => by simp at h, hv2, hv2, ?_,
          fun h => by simp at h⟩, by simp only; omega⟩
        have := aggsOk_snoc w st.aggs
          { len := st.agg.len + count, total := st.agg.total + d * count,
            minOff := min st.agg.minOff (min (st.agg.total + d) (st.agg.total + d * count)),
            maxOff := max st.agg.maxOff (max (st.agg.total + d) (st.agg.total + d * count)) } 0 base h6
          (by simp only; omega) (by simp only; omega) (by simp only; omega)
        simp only at this
        rw [ecur] at this
        exact this
      · simp only [hs, if_false]
        refine ⟨_, base, rfl, ⟨by simp only; omega, fun h => by simp only at h; omega,
          fun _ => by simp only; omega, hv2, h5, h6, fun _ => by simp only; omega⟩, by simp only; omega⟩

theorem account_delta (w : Win) (lo hi : Int) :
    ∀ (items : List (Item Int)) (st : AState) (base cur : Int), DInv w st base cur → ItemsW w cur items →
      st.closed + st.slabLen + itemsLen items < two63 →
      ∃ st' base' cur', account (.delta lo hi) id items st = .ok st' ∧ DInv w st' base' cur' ∧
        st'.closed + st'.slabLen = st.closed + st.slabLen + itemsLen items := by
  intro items
  induction items with
  | nil => intro st base cur h _ _; exact ⟨st, base, cur, rfl, h, by simp [itemsLen]⟩
  | cons x r ih =>
    intro st base cur hinv hw hlen
    rw [Hexane.itemsLen_cons] at hlen
    have h63 : (two63 : Nat) < two64 := by unfold two63 two64; omega
    cases x with
    | head k =>
      simp only [Hexane.itemCount] at hlen
      obtain ⟨st', b', c', h1, h2, h3⟩ := ih st base cur hinv hw (by omega)
      exact ⟨st', b', c', by simpa [account] using h1, h2,
        by rw [Hexane.itemsLen_cons]; simp only [Hexane.itemCount]; omega⟩
    | litv d =>
      simp only [Hexane.itemCount] at hlen
      obtain ⟨hw1, hw2⟩ := hw
      obtain ⟨s1, b1, e1, i1, l1⟩ := acctStep_delta w lo hi st base cur 1 (some d) hinv (by omega)
        (by unfold two63; omega) (by omega) (fun d' hd => by
          cases hd
          have e : cur + ((1 : Nat) : Int) * d = cur + d := by omega
          rw [e]; exact ⟨hw1, hw1⟩)
      have e1' : cur + ((1 : Nat) : Int) * d = cur + d := by omega
      simp only [e1'] at i1
      obtain ⟨st', b', c', h1, h2, h3⟩ := ih s1 b1 (cur + d) i1 hw2 (by omega)
      exact ⟨st', b', c', by simp only [account, id, e1, h1], h2,
        by rw [Hexane.itemsLen_cons]; simp only [Hexane.itemCount]; omega⟩
    | run n d =>
      simp only [Hexane.itemCount] at hlen
      obtain ⟨hn1, hw1, hw2, hw3⟩ := hw
      obtain ⟨s1, b1, e1, i1, l1⟩ := acctStep_delta w lo hi st base cur n (some d) hinv hn1
        (by omega) (by omega) (fun d' hd => by cases hd; exact ⟨hw1, hw2⟩)
      simp only at i1
      obtain ⟨st', b', c', h1, h2, h3⟩ := ih s1 b1 (cur + n * d) i1 hw3 (by omega)
      exact ⟨st', b', c', by simp only [account, id, e1, h1], h2,
        by rw [Hexane.itemsLen_cons]; simp only [Hexane.itemCount]; omega⟩
    | null n =>
      simp only [Hexane.itemCount] at hlen
      obtain ⟨hn1, hw1⟩ := hw
      obtain ⟨s1, b1, e1, i1, l1⟩ := acctStep_delta w lo hi st base cur n none hinv hn1
        (by omega) (by omega) (fun d' hd => by cases hd)
      simp only at i1
      obtain ⟨st', b', c', h1, h2, h3⟩ := ih s1 b1 cur i1 hw1 (by omega)
      exact ⟨st', b', c', by simp only [account, e1, h1], h2,
        by rw [Hexane.itemsLen_cons]; simp only [Hexane.itemCount]; omega⟩

theorem deltas_length : ∀ (ys : List (Option Int)) (a : Int), (deltas ys a).length = ys.length
  | [], _ => rfl
  | none :: r, a => by simp [deltas, deltas_length r]
  | some v :: r, a => by simp [deltas, deltas_length r]

theorem deltas_valid (w : Win) (nullable : Bool) : ∀ (xs : List (Option Int)) (cur : Int), w.mem cur →
    (∀ v, some v ∈ xs → w.mem v) → (nullable = false → ∀ x ∈ xs, x ≠ none) →
    ListValid Hexane.validI64 nullable (deltas xs cur)
  | [], _, _, _, _ => by intro x hx; cases hx
  | none :: r, cur, hc, hv, hn => by
    intro x hx
    simp only [deltas, List.mem_cons] at hx
    rcases hx with rfl | hx
    · cases nullable with
      | true => rfl
      | false => exact absurd rfl (hn rfl none List.mem_cons_self)
    · exact deltas_valid w nullable r cur hc (fun v h => hv v (List.mem_cons_of_mem _ h))
        (fun h y hy => hn h y (List.mem_cons_of_mem _ hy)) x hx
  | some v :: r, cur, hc, hv, hn => by
    intro x hx
    simp only [deltas, List.mem_cons] at hx
    have hvw := hv v List.mem_cons_self
    rcases hx with rfl | hx
    · have hz := w.zeroIn
      have hw := w.narrow
      unfold Win.mem at hc hvw
      show Hexane.validI64 (v - cur)
      unfold Hexane.validI64
      constructor <;> omega
    · exact deltas_valid w nullable r v hvw (fun u h => hv u (List.mem_cons_of_mem _ h))
        (fun h y hy => hn h y (List.mem_cons_of_mem _ hy)) x hx

/-- **`DeltaColumn<T>::load_with(with_length)` of `save_to`** for values in a window inside the domain -/
theorem rleLoad_delta (w : Win) (lo hi : Int) (hlo : lo ≤ w.lo) (hhi : w.hi ≤ hi) (nullable : Bool)
    (xs : List (Option Int)) (hlen : xs.length < two63) (hv : ∀ v, some v ∈ xs → w.mem v)
    (hn : nullable = false → ∀ x ∈ xs, x ≠ none) :
    rleLoad cI64 nullable (.delta lo hi) id (some xs.length) (Hexane.deltaEncode xs) = .ok (itemsOf (deltas xs 0)) := by
  have hz := w.zeroIn
  have h0 : w.mem 0 := hz
  have hlv := deltas_valid w nullable xs 0 h0 hv hn
  have hl : (deltas xs 0).length < two63 := by rw [deltas_length]; exact hlen
  have hcanon := Hexane.canon_itemsOf Hexane.validI64 nullable (deltas xs 0) hl hlv
  have hiw : ItemsW w 0 (itemsOf (deltas xs 0)) := by
    apply itemsW_of_prefW w _ 0 (countsPos_of_canon nullable _ _ hcanon)
    rw [Hexane.expand_itemsOf]
    exact prefW_deltas w xs 0 hv
  have hinv0 : DInv w {} 0 0 := ⟨by simp, fun _ => rfl, fun h => by simp at h, h0, h0, rfl, fun h => by simp at h⟩
  have hL : itemsLen (itemsOf (deltas xs 0)) = xs.length := by rw [Hexane.itemsLen_itemsOf, deltas_length]
  obtain ⟨st', b', c', h1, h2, h3⟩ := account_delta w lo hi (itemsOf (deltas xs 0)) {} 0 0 hinv0 hiw
    (by simp only [hL]; simpa using hlen)
  unfold rleLoad Hexane.parseAll Hexane.deltaEncode rleEncode
  rw [Hexane.parse_write Hexane.lawful_i64 nullable (itemsOf (deltas xs 0)) {} _ hcanon (by omega)]
  simp only [h1]
  have ht : st'.closed + st'.slabLen = xs.length := by simpa [hL] using h3
  have h63 : (two63 : Nat) < two64 := by unfold two63 two64; omega
  have hn' : ¬ ¬ (st'.closed + st'.slabLen < two64) := by rw [ht]; simp; omega
  have he : ¬ st'.closed + st'.slabLen ≠ xs.length := by simp [ht]
  unfold finish
  simp only [hn', if_false, he, finish.finishW]
  have hdc : domainCheck lo hi (if st'.slabSegs > 0 then st'.aggs ++ [st'.agg] else st'.aggs) 0 = true := by
    split
    · rename_i hs
      have hb := h2.bounds (h2.segs hs)
      exact domainCheck_ok w lo hi hlo hhi _ 0 _
        (aggsOk_snoc w st'.aggs st'.agg 0 b' h2.closedOk (h2.segs hs) hb.1 hb.2)
    · exact domainCheck_ok w lo hi hlo hhi _ 0 _ h2.closedOk
  rw [hdc, ht]
  simp

/-- **a delta column**, `with_length` and (for the nullable ones) `with_fill(None)` -/
theorem loadDelta_encode (w : Win) (lo hi : Int) (hlo : lo ≤ w.lo) (hhi : w.hi ≤ hi)
    (xs : List (Option Int)) (hlen : xs.length < two63) (hv : ∀ v, some v ∈ xs → w.mem v)
    (hne : xs ≠ [] → Hexane.deltaEncode xs ≠ []) (nullable : Bool) (fill : Option (Option Int))
    (hn : nullable = false → ∀ x ∈ xs, x ≠ none) :
    loadDelta nullable lo hi xs.length fill (Hexane.deltaEncode xs) = .ok xs := by
  unfold loadDelta loadRle
  by_cases hnil : xs = []
  · subst hnil
    have : Hexane.deltaEncode [] = [] := rfl
    rw [this]
    cases fill with
    | none =>
      simp only [List.isEmpty_nil, List.length_nil]
      have := rleLoad_delta w lo hi hlo hhi nullable [] (by simp [two63]) (by simp) (by simp)
      simp only [List.length_nil] at this
      have e : Hexane.deltaEncode [] = [] := rfl
      rw [e] at this
      rw [this]
      rfl
    | some v => simp [realise]
  · have hb : (Hexane.deltaEncode xs).isEmpty = false := by
      cases h : Hexane.deltaEncode xs with
      | nil => exact absurd h (hne hnil)
      | cons a b => rfl
    rw [hb]
    simp only [rleLoad_delta w lo hi hlo hhi nullable xs hlen hv hn, Hexane.expand_itemsOf, Hexane.realise_deltas]

end AmVerif.DocCodec
