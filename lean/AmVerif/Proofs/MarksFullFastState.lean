import AmVerif.Model.MarksFast
import AmVerif.Proofs.MarksFullShape
/-
  Helper lemmas for C25 (`calculate_marks_fast` = `calculate_marks_slow`), part 1: the mark set
  `MarkSet::from_query_state` builds from the query state (the ACTIVE marks, fed to a fresh state machine in
  hash order) is the cache of the state machine that saw the begins and ends one by one.
-/
namespace AmVerif.Crdt
open AmVerif

/-! ### mark sets with ascending keys are determined by `lookup` -/

theorem MarkSet.lookup_none_of_keys {s : MarkSet} {n : Bytes} (h : ∀ p ∈ s, p.1 ≠ n) : s.lookup n = none := by
  induction s with
  | nil => rfl
  | cons p rest ih =>
    obtain ⟨k, v⟩ := p
    have hk : (k == n) = false := by
      have := h (k, v) (by simp)
      simpa using this
    simp only [MarkSet.lookup, hk, Bool.false_eq_true, if_false]
    exact ih (fun q hq => h q (List.mem_cons_of_mem _ hq))

theorem MarkSet.mem_of_lookup {s : MarkSet} {n : Bytes} {v : Scalar} (h : s.lookup n = some v) : (n, v) ∈ s := by
  induction s with
  | nil => cases h
  | cons p rest ih =>
    obtain ⟨k, x⟩ := p
    simp only [MarkSet.lookup] at h
    by_cases hk : (k == n) = true
    · simp only [hk, if_true, Option.some.injEq] at h
      have : k = n := by simpa using hk
      rw [this, h]; simp
    · simp only [hk, Bool.false_eq_true, if_false] at h
      exact List.mem_cons_of_mem _ (ih h)

theorem MarkSet.ext_of_sorted : ∀ {s₁ s₂ : MarkSet}, s₁.SortedKeys → s₂.SortedKeys →
    (∀ n, s₁.lookup n = s₂.lookup n) → s₁ = s₂ := by
  intro s₁
  induction s₁ with
  | nil =>
    intro s₂ _ _ h
    cases s₂ with
    | nil => rfl
    | cons p rest =>
      obtain ⟨k, v⟩ := p
      have := h k
      simp [MarkSet.lookup] at this
  | cons p₁ r₁ ih =>
    intro s₂ h₁ h₂ h
    obtain ⟨k₁, v₁⟩ := p₁
    obtain ⟨hp₁, hr₁⟩ := List.pairwise_cons.mp h₁
    cases s₂ with
    | nil =>
      have := h k₁
      simp [MarkSet.lookup] at this
    | cons p₂ r₂ =>
      obtain ⟨k₂, v₂⟩ := p₂
      obtain ⟨hp₂, hr₂⟩ := List.pairwise_cons.mp h₂
      -- the first keys agree: otherwise the smaller one is missing on the other side
      have hk : k₁ = k₂ := by
        by_cases hk : k₁ = k₂
        · exact hk
        · exfalso
          rcases bytesLt_total hk with hlt | hlt
          · have h1 : MarkSet.lookup k₁ ((k₁, v₁) :: r₁) = some v₁ := by simp [MarkSet.lookup]
            have h2 : MarkSet.lookup k₁ ((k₂, v₂) :: r₂) = none := by
              apply MarkSet.lookup_none_of_keys
              intro q hq
              rcases List.mem_cons.mp hq with hq | hq
              · rw [hq]; exact fun e => hk e.symm
              · intro e
                have := hp₂ q hq
                simp only at this
                rw [e] at this
                exact bytesLt_asymm hlt this
            rw [h k₁, h2] at h1; cases h1
          · have h1 : MarkSet.lookup k₂ ((k₂, v₂) :: r₂) = some v₂ := by simp [MarkSet.lookup]
            have h2 : MarkSet.lookup k₂ ((k₁, v₁) :: r₁) = none := by
              apply MarkSet.lookup_none_of_keys
              intro q hq
              rcases List.mem_cons.mp hq with hq | hq
              · rw [hq]; exact hk
              · intro e
                have := hp₁ q hq
                simp only at this
                rw [e] at this
                exact bytesLt_asymm hlt this
            rw [← h k₂, h2] at h1; cases h1
      subst hk
      have hv : v₁ = v₂ := by
        have := h k₁
        simpa [MarkSet.lookup] using this
      subst hv
      have htail : ∀ n, MarkSet.lookup n r₁ = MarkSet.lookup n r₂ := by
        intro n
        by_cases hn : k₁ = n
        · subst hn
          rw [MarkSet.lookup_none_of_keys, MarkSet.lookup_none_of_keys]
          · intro q hq e
            have := hp₂ q hq
            simp only at this
            rw [e, bytesLt_irrefl] at this; cases this
          · intro q hq e
            have := hp₁ q hq
            simp only at this
            rw [e, bytesLt_irrefl] at this; cases this
        · have hb : (k₁ == n) = false := by simp [hn]
          have := h n
          simpa [MarkSet.lookup, hb] using this
      rw [ih hr₁ hr₂ htail]

/-! ### `find` on a sorted state -/

theorem Msm.find_error_of_absent {state : List (OpId × MarkData)} {id : OpId} (h : ∀ p ∈ state, p.1 ≠ id) :
    ∃ index, Msm.find state id = .error index := by
  cases hf : Msm.find state id with
  | error index => exact ⟨index, rfl⟩
  | ok index =>
    obtain ⟨p, hp, he⟩ := Msm.find_ok hf
    exact absurd he (h p (List.mem_of_getElem? hp))

theorem Msm.absent_of_find_error {state : List (OpId × MarkData)} (hs : state.Pairwise (fun a b => a.1.lt b.1 = true))
    {id : OpId} {index : Nat} (h : Msm.find state id = .error index) : ∀ p ∈ state, p.1 ≠ id := by
  intro p hp he
  have hsplit := List.takeWhile_append_dropWhile (p := fun p : OpId × MarkData => p.1.lt id) (l := state)
  rw [← hsplit] at hp hs
  rcases List.mem_append.mp hp with hp | hp
  · have := mem_takeWhile_holds (fun p : OpId × MarkData => p.1.lt id) state hp
    have h' : p.1.lt id = true := this
    rw [he, OpId.lt_irrefl] at h'; cases h'
  · cases hdw : state.dropWhile (fun p => p.1.lt id) with
    | nil => rw [hdw] at hp; cases hp
    | cons z zs =>
      have hz : z.1.lt id = false := dropWhile_head_not (fun p : OpId × MarkData => p.1.lt id) state hdw
      have hg : state[(state.takeWhile (fun p => p.1.lt id)).length]? = some z := by
        rw [getElem?_takeWhile_length, hdw]; rfl
      rw [hdw] at hp hs
      rcases List.mem_cons.mp hp with hpz | hpz
      · -- `p` is the probe: `find` would have answered `ok`
        unfold Msm.find at h
        simp only [hg] at h
        rw [← hpz, he] at h
        simp at h
      · obtain ⟨_, h2, _⟩ := List.pairwise_append.mp hs
        have := (List.pairwise_cons.mp h2).1 p hpz
        rw [he] at this
        rw [this] at hz; cases hz

theorem sorted_ids_ne {state : List (OpId × MarkData)} (hs : state.Pairwise (fun a b => a.1.lt b.1 = true)) :
    state.Pairwise (fun a b => a.1 ≠ b.1) := by
  refine List.Pairwise.imp ?_ hs
  intro a b hab he
  rw [he, OpId.lt_irrefl] at hab; cases hab

/-! ### the query state holds the machine's active marks -/

theorem filter_ne_self {q : QState} {id : OpId} (h : ∀ p ∈ q, p.1 ≠ id) : q.filter (fun p => p.1 != id) = q := by
  apply List.filter_eq_self.mpr
  intro p hp
  simpa using h p hp

theorem Msm.markBegin_perm {m : Msm} {q : QState} (hq : q.Perm m.state) (id : OpId) (d : MarkData)
    (hfresh : ∀ p ∈ m.state, p.1 ≠ id) : (q.insert id d).Perm (m.markBegin id d).state := by
  obtain ⟨index, hf⟩ := Msm.find_error_of_absent hfresh
  have hst : (m.markBegin id d).state = m.state.take index ++ (id, d) :: m.state.drop index := by
    unfold Msm.markBegin; rw [hf]
  rw [hst]
  unfold QState.insert
  rw [filter_ne_self (fun p hp => hfresh p (hq.mem_iff.mp hp))]
  have h1 : (q ++ [(id, d)]).Perm ((id, d) :: q) := by
    have := List.perm_middle (a := (id, d)) (l₁ := q) (l₂ := [])
    simpa using this
  have h2 : ((id, d) :: q).Perm ((id, d) :: m.state) := List.Perm.cons _ hq
  have h3 : (m.state.take index ++ (id, d) :: m.state.drop index).Perm ((id, d) :: m.state) := by
    have := List.perm_middle (a := (id, d)) (l₁ := m.state.take index) (l₂ := m.state.drop index)
    rwa [List.take_append_drop] at this
  exact (h1.trans h2).trans h3.symm

theorem Msm.markEnd_perm {m : Msm} {q : QState} (hq : q.Perm m.state) (hs : m.Sorted) (id : OpId) :
    (q.remove id.prev).Perm (m.markEnd id).state := by
  unfold QState.remove
  cases hf : Msm.find m.state id.prev with
  | error index =>
    have hst : (m.markEnd id).state = m.state := by unfold Msm.markEnd; rw [hf]
    rw [hst, filter_ne_self (fun p hp => Msm.absent_of_find_error hs hf p (hq.mem_iff.mp hp))]
    exact hq
  | ok index =>
    obtain ⟨p, hp, he⟩ := Msm.find_ok hf
    obtain ⟨pid, mark⟩ := p
    simp only at he
    have hst : (m.markEnd id).state = m.state.take index ++ m.state.drop (index + 1) := by
      unfold Msm.markEnd; rw [hf]; simp only [hp]
    rw [hst]
    have hlt : index < m.state.length := by
      rcases Nat.lt_or_ge index m.state.length with h | h
      · exact h
      · rw [List.getElem?_eq_none h] at hp; cases hp
    have hget : m.state[index] = (pid, mark) := by
      have := List.getElem?_eq_getElem hlt
      rw [this] at hp
      injection hp
    have hsplit : m.state = m.state.take index ++ (pid, mark) :: m.state.drop (index + 1) := by
      have h1 := (List.take_append_drop index m.state).symm
      rw [List.drop_eq_getElem_cons hlt, hget] at h1
      exact h1
    -- `m.state` is the removed entry in front of the rest
    have hperm : m.state.Perm ((pid, mark) :: (m.state.take index ++ m.state.drop (index + 1))) := by
      conv => lhs; rw [hsplit]
      exact List.perm_middle
    -- no other entry has that id
    have hne : ((pid, mark) :: (m.state.take index ++ m.state.drop (index + 1))).Pairwise (fun a b => a.1 ≠ b.1) :=
      (List.Perm.pairwise_iff (fun h => Ne.symm h) hperm).mp (sorted_ids_ne hs)
    have hrest : ∀ x ∈ m.state.take index ++ m.state.drop (index + 1), x.1 ≠ id.prev := by
      intro x hx
      have := (List.pairwise_cons.mp hne).1 x hx
      simp only at this
      rw [he] at this
      exact fun e => this e.symm
    have h1 := List.Perm.filter (fun p : OpId × MarkData => p.1 != id.prev) (hq.trans hperm)
    have h2 : List.filter (fun p : OpId × MarkData => p.1 != id.prev) ((pid, mark) :: (m.state.take index ++ m.state.drop (index + 1)))
        = m.state.take index ++ m.state.drop (index + 1) := by
      rw [List.filter_cons]
      have : ((pid, mark).1 != id.prev) = false := by simp [he]
      rw [if_neg (by rw [this]; simp)]
      exact filter_ne_self hrest
    rw [h2] at h1
    exact h1

/-- ids of the begin items -/
def beginIds (its : List Item) : List OpId :=
  its.filterMap (fun it => match it with | .mbegin id _ => some id | _ => none)

theorem Msm.step_ids (m : Msm) (it : Item) : ∀ p ∈ (m.step it).state, p ∈ m.state ∨ ∃ d, it = .mbegin p.1 d := by
  intro p hp
  cases it with
  | elem e t => left; exact hp
  | mbegin id d =>
    have hp' : p ∈ (m.markBegin id d).state := hp
    unfold Msm.markBegin at hp'
    cases hf : Msm.find m.state id with
    | ok _ => rw [hf] at hp'; left; exact hp'
    | error index =>
      rw [hf] at hp'
      simp only at hp'
      rcases List.mem_append.mp hp' with h | h
      · left; exact List.mem_of_mem_take h
      · rcases List.mem_cons.mp h with h | h
        · right; exact ⟨d, by rw [h]⟩
        · left; exact List.mem_of_mem_drop h
  | mend id =>
    have hp' : p ∈ (m.markEnd id).state := hp
    unfold Msm.markEnd at hp'
    cases hf : Msm.find m.state id.prev with
    | error _ => rw [hf] at hp'; left; exact hp'
    | ok index =>
      rw [hf] at hp'
      simp only at hp'
      cases hg : m.state[index]? with
      | none => rw [hg] at hp'; left; exact hp'
      | some x =>
        rw [hg] at hp'
        simp only at hp'
        rcases List.mem_append.mp hp' with h | h
        · left; exact List.mem_of_mem_take h
        · left; exact List.mem_of_mem_drop h

theorem Msm.foldl_ids (its : List Item) : ∀ (m : Msm), ∀ p ∈ (its.foldl Msm.step m).state,
    p ∈ m.state ∨ p.1 ∈ beginIds its := by
  induction its with
  | nil => intro m p hp; left; exact hp
  | cons it rest ih =>
    intro m p hp
    rcases ih (m.step it) p hp with h | h
    · rcases Msm.step_ids m it p h with h | ⟨d, h⟩
      · left; exact h
      · right; rw [h]; simp [beginIds]
    · right
      cases it <;> simp [beginIds] at h ⊢ <;> first | exact h | (right; exact h)

theorem Msm.foldl_curSorted (its : List Item) : ∀ {m : Msm}, m.current.SortedKeys → (its.foldl Msm.step m).current.SortedKeys := by
  induction its with
  | nil => intro m h; exact h
  | cons it rest ih => intro m h; exact ih (Msm.step_curSorted h it)

/-- the machine `from_query_state` builds -/
def qMsm (q : QState) : Msm := q.foldl (fun (m : Msm) p => m.markBegin p.1 p.2) {}

theorem qMsm_eq (q : QState) : qMsm q = (q.map (fun p => Item.mbegin p.1 p.2)).foldl Msm.step {} := by
  unfold qMsm
  rw [List.foldl_map]
  rfl

theorem foldl_markBegin_perm : ∀ (q : QState) (m : Msm), q.Pairwise (fun a b => a.1 ≠ b.1) →
    (∀ p ∈ q, ∀ x ∈ m.state, x.1 ≠ p.1) →
    (q.foldl (fun (m : Msm) p => m.markBegin p.1 p.2) m).state.Perm (m.state ++ q) := by
  intro q
  induction q with
  | nil => intro m _ _; simp
  | cons p rest ih =>
    intro m hd hdis
    obtain ⟨hd1, hd2⟩ := List.pairwise_cons.mp hd
    simp only [List.foldl_cons]
    have hstep : ([p] : QState).Perm [p] := List.Perm.refl _
    have h1 : (m.markBegin p.1 p.2).state.Perm (p :: m.state) := by
      have := Msm.markBegin_perm (q := m.state) (m := m) (List.Perm.refl _) p.1 p.2 (fun x hx => hdis p (by simp) x hx)
      unfold QState.insert at this
      rw [filter_ne_self (fun x hx => hdis p (by simp) x hx)] at this
      have h2 : (m.state ++ [(p.1, p.2)]).Perm (p :: m.state) := by
        have := List.perm_middle (a := p) (l₁ := m.state) (l₂ := [])
        simpa using this
      exact this.symm.trans h2
    have := ih (m.markBegin p.1 p.2) hd2 (by
      intro x hx y hy
      rcases List.mem_cons.mp (h1.mem_iff.mp hy) with h | h
      · rw [h]; exact hd1 x hx
      · exact hdis x (List.mem_cons_of_mem _ hx) y h)
    refine this.trans ?_
    have h3 : ((m.markBegin p.1 p.2).state ++ rest).Perm ((p :: m.state) ++ rest) := List.Perm.append_right _ h1
    refine h3.trans ?_
    have := List.perm_middle (a := p) (l₁ := m.state) (l₂ := rest)
    exact this.symm

/-- `from_query_state` on the active marks of a machine = that machine's cache without unmarks (`None` when
    that is empty) -/
theorem fromQueryState_eq {m : Msm} {q : QState} (hq : q.Perm m.state) (hs : m.Sorted) (hi : m.Inv)
    (hc : m.current.SortedKeys) :
    fromQueryState q = (if m.out.isEmpty then none else some m.out) := by
  -- the rebuilt machine has the same sorted state, hence the same cache
  have hqd : q.Pairwise (fun a b => a.1 ≠ b.1) :=
    (List.Perm.pairwise_iff (fun h => Ne.symm h) hq.symm).mp (sorted_ids_ne hs)
  have hperm : (qMsm q).state.Perm q := by
    have := foldl_markBegin_perm q {} hqd (fun _ _ x hx => by cases hx)
    simpa [qMsm] using this
  have hs' : (qMsm q).Sorted := by rw [qMsm_eq]; exact Msm.foldl_sorted _ (by simp [Msm.Sorted])
  have hi' : (qMsm q).Inv := by rw [qMsm_eq]; exact Msm.foldl_inv _ Msm.inv_empty
  have hc' : (qMsm q).current.SortedKeys := by rw [qMsm_eq]; exact Msm.foldl_curSorted _ List.Pairwise.nil
  have hstate : (qMsm q).state = m.state := by
    refine List.Perm.eq_of_pairwise ?_ hs' hs (hperm.trans hq)
    intro a b _ _ hab hba
    exact (OpId.lt_asymm hab hba).elim
  have hcur : (qMsm q).current = m.current := by
    apply MarkSet.ext_of_sorted hc' hc
    intro n
    rw [hi' n, hi n, hstate]
  have : fromQueryState q = (match (qMsm q).cur with
      | none => none
      | some c => if c.withoutUnmarks.isEmpty then none else some c.withoutUnmarks) := rfl
  rw [this]
  unfold Msm.cur Msm.out
  rw [hcur]
  cases hcm : m.current with
  | nil => simp [MarkSet.withoutUnmarks]
  | cons a b => simp

end AmVerif.Crdt
