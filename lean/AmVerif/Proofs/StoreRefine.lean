import AmVerif.Proofs.StoreInv
/-
  The op store refines the specification: every read taken from the rows of a store that satisfies
  `StoreInv ops` equals the `Spec` reading of the op set `ops`.
  §1 order facts about `canon`, §2 visibility and values, §3 registers, §4 sequence order,
  §5 map keys, §6 the rendered document.
-/
namespace AmVerif.Crdt
open AmVerif

/-! ## §1 what the canonical order guarantees -/

/-- ops of one register (same object, same `elemid_or_key`) appear in ascending id order -/
def RegSorted (l : List Op) : Prop :=
  l.Pairwise (fun a b => a.obj = b.obj → a.regKey = b.regKey → a.id.lt b.id = true)

/-- map-keyed ops of one object appear in non-descending key order -/
def KeySorted (l : List Op) : Prop :=
  l.Pairwise (fun a b => a.obj = b.obj → ∀ ka kb, a.key = .map ka → b.key = .map kb → bytesLt kb ka = false)

theorem regKey_of_noninsert {o : Op} (h : o.insert = false) : o.regKey = o.key := by
  simp [Op.regKey, h]

theorem regKey_of_insert {o : Op} (h : o.insert = true) : o.regKey = .elem o.id := by
  simp [Op.regKey, h]

theorem mapSeg_noninsert {ops : List Op} (hw : OpsWF ops) {obj : ObjId} {x : Op} (hx : x ∈ mapSeg ops obj) :
    x.insert = false := by
  obtain ⟨hxo, _, _, hm⟩ := mem_mapSeg.mp hx
  cases hi : x.insert
  · rfl
  · rw [(hw.insSeq x hxo hi).1] at hm; cases hm

theorem seqSeg_not_map {ops : List Op} (hw : OpsWF ops) {obj : ObjId} {x : Op} (hx : x ∈ seqSeg ops obj) :
    x.key.isMap = false := by
  rcases mem_seqSeg.mp hx with h | ⟨e, _, h⟩
  · exact (hw.insSeq x (mem_rgaFrom h).1 (mem_rgaFrom h).2.2).1
  · rw [(mem_updatesOf.mp h).2.2.2.2]; rfl

theorem seqSeg_regKey {ops : List Op} {obj : ObjId} {x : Op} (hx : x ∈ seqSeg ops obj) :
    ∃ e ∈ rgaOrder ops obj, x.regKey = .elem e.id ∧ (x = e ∨ x ∈ updatesOf ops obj e.id) := by
  rcases mem_seqSeg.mp hx with h | ⟨e, he, h⟩
  · exact ⟨x, h, regKey_of_insert (mem_rgaFrom h).2.2, .inl rfl⟩
  · refine ⟨e, he, ?_, .inr h⟩
    rw [regKey_of_noninsert (mem_updatesOf.mp h).2.2.2.1, (mem_updatesOf.mp h).2.2.2.2]

theorem mapSeg_regSorted {ops : List Op} (hw : OpsWF ops) (obj : ObjId) : RegSorted (mapSeg ops obj) := by
  unfold RegSorted
  have hk : KISorted (mapSeg ops obj) := sortKI_sorted _
  have hn : (mapSeg ops obj).Nodup :=
    ((hw.strict.filter _).perm (sortKI_perm _).symm).nodup
  unfold List.Nodup at hn
  refine List.Pairwise.imp_of_mem ?_ (List.Pairwise.and hk hn)
  intro a b ha hb ⟨hab, hne⟩ _ hreg
  rw [regKey_of_noninsert (mapSeg_noninsert hw ha), regKey_of_noninsert (mapSeg_noninsert hw hb)] at hreg
  have hma := (mem_mapSeg.mp ha).2.2.2
  unfold mapStop at hab
  cases hka : a.key with
  | map ka =>
    rw [hka] at hreg
    rw [hka, ← hreg] at hab
    simp only [beq_self_eq_true, Bool.true_and, Bool.or_eq_false_iff] at hab
    have hid : a.id ≠ b.id := by
      intro he
      exact hne (hw.strict.distinctIds a (mem_mapSeg.mp ha).1 b (mem_mapSeg.mp hb).1 he)
    rcases OpId.lt_total hid with h | h
    · exact h
    · rw [h] at hab; exact absurd hab.2 (by simp)
  | head => rw [hka] at hma; cases hma
  | elem e => rw [hka] at hma; cases hma

theorem mapSeg_keySorted (ops : List Op) (obj : ObjId) : KeySorted (mapSeg ops obj) := by
  unfold KeySorted
  have hk : KISorted (mapSeg ops obj) := sortKI_sorted _
  refine List.Pairwise.imp ?_ hk
  intro a b hab _ ka kb hka hkb
  unfold mapStop at hab
  rw [hka, hkb] at hab
  simp only [Bool.or_eq_false_iff] at hab
  exact hab.1

theorem block_regSorted {ops : List Op} (hw : OpsWF ops) (obj : ObjId) {e : Op} (he : e ∈ rgaOrder ops obj) :
    RegSorted (block ops obj e) := by
  unfold RegSorted block
  refine List.Pairwise.cons ?_ ?_
  · intro u hu _ _
    obtain ⟨huo, _, _, hui, huk⟩ := mem_updatesOf.mp hu
    exact hw.updLater u huo hui e.id huk
  · unfold updatesOf
    exact List.Pairwise.imp (fun h _ _ => h) (sortById_strict (hw.strict.filter _))

theorem seqSeg_regSorted {ops : List Op} (hw : OpsWF ops) (obj : ObjId) : RegSorted (seqSeg ops obj) := by
  unfold RegSorted seqSeg
  rw [List.pairwise_flatMap]
  refine ⟨fun e he => block_regSorted hw obj he, ?_⟩
  have hnd := rgaOrder_ids_nodup hw.strict hw.refs obj
  unfold List.Nodup at hnd
  rw [List.pairwise_map] at hnd
  refine List.Pairwise.imp_of_mem ?_ hnd
  intro e₁ e₂ h₁ h₂ hne x hx y hy _ hreg
  exfalso
  have hx' : x.regKey = .elem e₁.id := by
    rcases List.mem_cons.mp hx with rfl | hx
    · exact regKey_of_insert (mem_rgaFrom h₁).2.2
    · rw [regKey_of_noninsert (mem_updatesOf.mp hx).2.2.2.1, (mem_updatesOf.mp hx).2.2.2.2]
  have hy' : y.regKey = .elem e₂.id := by
    rcases List.mem_cons.mp hy with rfl | hy
    · exact regKey_of_insert (mem_rgaFrom h₂).2.2
    · rw [regKey_of_noninsert (mem_updatesOf.mp hy).2.2.2.1, (mem_updatesOf.mp hy).2.2.2.2]
  rw [hx', hy'] at hreg
  exact hne (Key.elem.inj hreg)

theorem seg_regSorted {ops : List Op} (hw : OpsWF ops) (obj : ObjId) : RegSorted (seg ops obj) := by
  unfold RegSorted seg
  rw [List.pairwise_append]
  refine ⟨mapSeg_regSorted hw obj, seqSeg_regSorted hw obj, ?_⟩
  intro a ha b hb _ hreg
  exfalso
  rw [regKey_of_noninsert (mapSeg_noninsert hw ha)] at hreg
  obtain ⟨e, _, hbk, _⟩ := seqSeg_regKey hb
  have hma := (mem_mapSeg.mp ha).2.2.2
  rw [hreg, hbk] at hma; cases hma

theorem seg_keySorted {ops : List Op} (hw : OpsWF ops) (obj : ObjId) : KeySorted (seg ops obj) := by
  unfold KeySorted seg
  rw [List.pairwise_append]
  refine ⟨mapSeg_keySorted ops obj, ?_, ?_⟩
  · refine List.Pairwise.imp_of_mem ?_ (List.pairwise_of_forall (l := seqSeg ops obj)
      (R := fun _ _ => True) (fun _ _ => trivial))
    intro a b _ hb _ _ ka kb _ hkb
    have := seqSeg_not_map hw hb
    rw [hkb] at this; cases this
  · intro a _ b hb _ ka kb _ hkb
    have := seqSeg_not_map hw hb
    rw [hkb] at this; cases this

theorem canon_pairwise {ops : List Op} {R : Op → Op → Prop}
    (hseg : ∀ obj, (seg ops obj).Pairwise R) (hother : ∀ a b, a.obj ≠ b.obj → R a b) :
    (canon ops).Pairwise R := by
  unfold canon
  rw [List.pairwise_flatMap]
  refine ⟨fun obj _ => hseg obj, ?_⟩
  have hnd := objsOf_nodup ops
  unfold List.Nodup at hnd
  refine List.Pairwise.imp ?_ hnd
  intro o₁ o₂ hne x hx y hy
  apply hother
  rw [obj_of_mem_seg hx, obj_of_mem_seg hy]
  exact hne

theorem canon_regSorted {ops : List Op} (hw : OpsWF ops) : RegSorted (canon ops) :=
  canon_pairwise (fun obj => seg_regSorted hw obj) (fun _ _ hne h => absurd h hne)

theorem canon_keySorted {ops : List Op} (hw : OpsWF ops) : KeySorted (canon ops) :=
  canon_pairwise (fun obj => seg_keySorted hw obj) (fun _ _ hne h => absurd h hne)

/-! ## §2 visibility and values -/

theorem isCounterVal_of_isValue {o : Op} (h : o.isValue = true) : o.isCounterVal = o.isCounterPut := by
  unfold Op.isValue at h
  unfold Op.isCounterVal Op.isCounterPut
  cases ha : o.action with
  | put v => cases v <;> rfl
  | make t => rfl
  | del => rfl
  | inc n => rfl
  | markBegin n v e => rw [ha] at h; simp at h
  | markEnd e => rfl

theorem incFor_isSome {p o : Op} : (incFor p o).isSome = (p.isInc && o.isCounterVal) := by
  unfold incFor Op.isInc
  cases p.action <;> simp
  split <;> simp_all

theorem mem_succOf {ops : List Op} {o : Op} {q : OpId × Option Int} :
    q ∈ succOf ops o ↔ ∃ p ∈ ops, o.id ∈ p.pred ∧ q = (p.id, incFor p o) := by
  unfold succOf
  simp only [List.mem_map, mem_sortById, List.mem_filter, List.contains_iff_mem]
  constructor
  · rintro ⟨p, ⟨hp, hm⟩, rfl⟩; exact ⟨p, hp, hm, rfl⟩
  · rintro ⟨p, hp, hm, rfl⟩; exact ⟨p, ⟨hp, hm⟩, rfl⟩

/-- **the store's notion of visible is the specification's** (for set / make ops) -/
theorem rowVisible_eq {ops : List Op} {r : Row} (hs : r.succ = succOf ops r.op)
    (hv : r.op.isValue = true) : r.isVisible = visible ops r.op := by
  have hni : r.op.isInc = false := isInc_of_isValue hv
  have hcv := isCounterVal_of_isValue hv
  unfold Row.isVisible visible overwritten
  rw [hni, hv, hs, hcv]
  simp only [Bool.false_eq_true, if_false, Bool.true_and]
  rw [Bool.eq_iff_iff]
  cases hc : r.op.isCounterPut
  · simp only [Bool.false_eq_true, if_false, List.isEmpty_iff, Bool.not_eq_eq_eq_not, Bool.not_true,
      List.any_eq_false]
    constructor
    · intro h p hp
      unfold overwrites
      rw [hc]
      simp only [Bool.and_false, Bool.not_false, Bool.and_true]
      intro hm
      have : (p.id, incFor p r.op) ∈ succOf ops r.op :=
        mem_succOf.mpr ⟨p, hp, List.contains_iff_mem.mp hm, rfl⟩
      rw [h] at this; cases this
    · intro h
      apply List.eq_nil_iff_forall_not_mem.mpr
      intro q hq
      obtain ⟨p, hp, hm, _⟩ := mem_succOf.mp hq
      have := h p hp
      unfold overwrites at this
      rw [hc] at this
      simp only [Bool.and_false, Bool.not_false, Bool.and_true] at this
      exact this (List.contains_iff_mem.mpr hm)
  · simp only [if_true, List.all_eq_true, Bool.not_eq_eq_eq_not, Bool.not_true, List.any_eq_false]
    constructor
    · intro h p hp
      unfold overwrites
      rw [hc]
      intro hov
      simp only [Bool.and_true, Bool.and_eq_true, Bool.not_eq_eq_eq_not, Bool.not_true] at hov
      have := h _ (mem_succOf.mpr ⟨p, hp, List.contains_iff_mem.mp hov.1, rfl⟩)
      rw [incFor_isSome, hov.2] at this
      cases this
    · intro h q hq
      obtain ⟨p, hp, hm, rfl⟩ := mem_succOf.mp hq
      rw [incFor_isSome, hcv, hc, Bool.and_true]
      have := h p hp
      unfold overwrites at this
      rw [hc] at this
      cases hpi : p.isInc
      · rw [hpi] at this
        simp only [Bool.and_true, Bool.not_false] at this
        exact absurd (List.contains_iff_mem.mpr hm) this
      · rfl

theorem foldl_incs (o : Op) (hc : o.isCounterVal = true) (F : List Op) (init : Int) :
    F.foldl (fun acc p => acc + (incFor p o).getD 0) init =
      (F.filter (fun p => p.isInc)).foldl (fun acc p => acc + p.incAmount) init := by
  induction F generalizing init with
  | nil => rfl
  | cons p F ih =>
    rw [List.foldl_cons, List.filter_cons]
    cases hpi : p.isInc
    · have : (incFor p o).getD 0 = 0 := by
        unfold incFor; unfold Op.isInc at hpi
        cases hpa : p.action <;> simp_all
      simp only [Bool.false_eq_true, if_false, this, Int.add_zero]
      exact ih init
    · have : (incFor p o).getD 0 = p.incAmount := by
        unfold incFor Op.incAmount; unfold Op.isInc at hpi
        cases hpa : p.action <;> simp_all
      simp only [if_true, List.foldl_cons, this]
      exact ih _

/-- **a row reads as the specification reads its op** -/
theorem rowEntry_eq {ops : List Op} {r : Row} (hs : r.succ = succOf ops r.op) :
    rowEntry r = entryOf ops r.op := by
  unfold rowEntry entryOf
  cases ha : r.op.action with
  | put v =>
    cases v with
    | counter i =>
      simp only
      congr 2
      rw [hs]
      unfold succOf counterValue
      rw [List.foldl_map]
      have hc : r.op.isCounterVal = true := by simp [Op.isCounterVal, ha]
      have hperm := sortById_perm (ops.filter (fun p => p.pred.contains r.op.id))
      rw [List.Perm.foldl_eq' hperm (by intro x _ y _ z; omega) i, foldl_incs r.op hc, List.filter_filter]
    | _ => rfl
  | _ => rfl

/-! ## §3 registers -/

theorem filter_map_rows {s : Store} {P : Row → Bool} {Q : Op → Bool} (h : ∀ r ∈ s, P r = Q r.op) :
    (s.filter P).map (·.op) = (s.map (·.op)).filter Q := by
  induction s with
  | nil => rfl
  | cons x xs ih =>
    have hx := h x List.mem_cons_self
    have ih := ih (fun r hr => h r (List.mem_cons_of_mem _ hr))
    simp only [List.filter_cons, List.map_cons, hx]
    split
    · rw [List.map_cons, ih]
    · exact ih

theorem map_rowEntry {ops : List Op} {s l : Store} (hs : ∀ r ∈ s, r.succ = succOf ops r.op)
    (hl : ∀ r ∈ l, r ∈ s) : l.map rowEntry = (l.map (·.op)).map (entryOf ops) := by
  rw [List.map_map]
  apply List.map_congr_left
  intro r hr
  exact rowEntry_eq (hs r (hl r hr))

theorem isValue_of_visible {ops : List Op} {o : Op} (h : visible ops o = true) : o.isValue = true := by
  unfold visible at h
  simp only [Bool.and_eq_true] at h
  exact h.1

theorem isDel_of_isValue {o : Op} (h : o.isValue = true) : o.isDel = false := by
  cases ha : o.action <;> simp_all [Op.isValue, Op.isDel]

theorem mem_canon_iff {ops : List Op} {s : Store} (hi : StoreInv ops s) {o : Op} :
    o ∈ canon ops ↔ o ∈ ops ∧ o.isDel = false := by
  rw [hi.complete.mem_iff]
  unfold stored
  simp

/-- a register read: the visible value rows selected by `sel`, in store order, are the spec's
    sorted register -/
theorem register_refines {ops : List Op} {s : Store} (hw : OpsWF ops) (hi : StoreInv ops s)
    (sel : Op → Bool) (K : Key) (hK : ∀ o ∈ ops, sel o = true → o.regKey = K)
    (hobj : ∀ a b, sel a = true → sel b = true → a.obj = b.obj) :
    (s.filter (fun r => sel r.op && r.op.isValue && r.isVisible)).map rowEntry =
      (sortById (ops.filter (fun o => sel o && visible ops o))).map (entryOf ops) := by
  rw [map_rowEntry hi.succ (fun r hr => (List.mem_filter.mp hr).1)]
  congr 1
  have hP : ∀ r ∈ s, (sel r.op && r.op.isValue && r.isVisible) = (sel r.op && visible ops r.op) := by
    intro r hr
    cases hv : r.op.isValue
    · have : visible ops r.op = false := by simp [visible, hv]
      simp [this]
    · rw [rowVisible_eq (hi.succ r hr) hv]; simp
  rw [filter_map_rows (Q := fun o => sel o && visible ops o) hP, hi.order]
  apply sortById_unique (hw.strict.filter _)
  · have := canon_regSorted hw
    unfold RegSorted at this
    refine List.Pairwise.imp_of_mem ?_ (List.Pairwise.filter _ this)
    intro a b ha hb h
    obtain ⟨ha1, ha2⟩ := List.mem_filter.mp ha
    obtain ⟨hb1, hb2⟩ := List.mem_filter.mp hb
    simp only [Bool.and_eq_true] at ha2 hb2
    apply h (hobj a b ha2.1 hb2.1)
    rw [hK a ((mem_canon_iff hi).mp ha1).1 ha2.1, hK b ((mem_canon_iff hi).mp hb1).1 hb2.1]
  · intro x
    simp only [List.mem_filter, mem_canon_iff hi, Bool.and_eq_true]
    constructor
    · rintro ⟨⟨h1, _⟩, h2⟩; exact ⟨h1, h2⟩
    · rintro ⟨h1, h2⟩; exact ⟨⟨h1, isDel_of_isValue (isValue_of_visible h2.2)⟩, h2⟩

/-- **map registers** -/
theorem storeMapRegister_eq {ops : List Op} {s : Store} (hw : OpsWF ops) (hi : StoreInv ops s)
    (obj : ObjId) (k : Bytes) : storeMapRegister s obj k = mapRegister ops obj k := by
  unfold storeMapRegister mapRegister
  have := register_refines hw hi (fun o => o.obj == obj && o.key == .map k) (.map k)
    (by
      intro o ho hsel
      simp only [Bool.and_eq_true, beq_iff_eq] at hsel
      have hni : o.insert = false := by
        cases hoi : o.insert
        · rfl
        · have := (hw.insSeq o ho hoi).1
          rw [hsel.2] at this; cases this
      rw [regKey_of_noninsert hni, hsel.2])
    (by
      intro a b ha hb
      simp only [Bool.and_eq_true, beq_iff_eq] at ha hb
      rw [ha.1, hb.1])
  simpa only [Bool.and_assoc] using this

theorem regKey_of_elem {o : Op} {e : OpId} (h : o.elem = some e) : o.regKey = .elem e := by
  unfold Op.elem at h
  unfold Op.regKey
  split at h
  · rename_i hi
    simp only [Option.some.injEq] at h
    simp [hi, h]
  · rename_i hi
    simp only [hi, Bool.false_eq_true, if_false]
    split at h
    · simp only [Option.some.injEq] at h
      rename_i heq
      rw [heq, h]
    · cases h

/-- **element registers** -/
theorem storeElemRegister_eq {ops : List Op} {s : Store} (hw : OpsWF ops) (hi : StoreInv ops s)
    (obj : ObjId) (e : OpId) : storeElemRegister s obj e = elemRegister ops obj e := by
  unfold storeElemRegister elemRegister
  have := register_refines hw hi (fun o => o.obj == obj && o.elem == some e) (.elem e)
    (by
      intro o _ hsel
      simp only [Bool.and_eq_true, beq_iff_eq] at hsel
      exact regKey_of_elem hsel.2)
    (by
      intro a b ha hb
      simp only [Bool.and_eq_true, beq_iff_eq] at ha hb
      rw [ha.1, hb.1])
  simpa only [Bool.and_assoc] using this

/-! ## §4 the element order -/

theorem flatMap_ite_single {α β : Type} [DecidableEq α] (x : α) (E : List β) :
    ∀ {l : List α}, l.Nodup → l.flatMap (fun a => if a = x then E else []) = if x ∈ l then E else []
  | [], _ => rfl
  | a :: l, h => by
    rw [List.nodup_cons] at h
    rw [List.flatMap_cons, flatMap_ite_single x E h.2]
    by_cases hax : a = x
    · subst hax
      simp [h.1]
    · have : x ≠ a := fun hh => hax hh.symm
      simp [hax, this]

theorem filter_seg_insert {ops : List Op} (hw : OpsWF ops) (obj a : ObjId) :
    (seg ops a).filter (fun o => o.obj == obj && o.insert) = if a = obj then rgaOrder ops obj else [] := by
  split
  · rename_i hao
    subst hao
    unfold seg
    rw [List.filter_append]
    have h1 : (mapSeg ops a).filter (fun o => o.obj == a && o.insert) = [] := by
      rw [List.filter_eq_nil_iff]
      intro x hx
      simp [mapSeg_noninsert hw hx]
    rw [h1, List.nil_append]
    unfold seqSeg
    rw [List.filter_flatMap]
    have : ∀ e ∈ rgaOrder ops a, (block ops a e).filter (fun o => o.obj == a && o.insert) = [e] := by
      intro e he
      unfold block
      rw [List.filter_cons]
      have h2 : (updatesOf ops a e.id).filter (fun o => o.obj == a && o.insert) = [] := by
        rw [List.filter_eq_nil_iff]
        intro x hx
        simp [(mem_updatesOf.mp hx).2.2.2.1]
      simp [(mem_rgaFrom he).2.1, (mem_rgaFrom he).2.2, h2]
    rw [flatMap_congr' this]
    simp
  · rename_i hao
    rw [List.filter_eq_nil_iff]
    intro x hx
    have := obj_of_mem_seg hx
    simp [this, hao]

/-- **the RGA theorem for the store**: the physical order of the insert ops of a sequence object is
    the specification's depth-first order -/
theorem storeSeqOrder_eq {ops : List Op} {s : Store} (hw : OpsWF ops) (hi : StoreInv ops s) (obj : ObjId) :
    storeSeqOrder s obj = rgaOrder ops obj := by
  unfold storeSeqOrder
  rw [filter_map_rows (Q := fun o => o.obj == obj && o.insert) (fun _ _ => rfl), hi.order]
  unfold canon
  rw [List.filter_flatMap, flatMap_congr' (fun a _ => filter_seg_insert hw obj a),
    flatMap_ite_single obj _ (objsOf_nodup ops)]
  split
  · rfl
  · rename_i hnm
    symm
    apply rgaOrder_nil_of_no_inserts
    intro x hx ho
    cases hxi : x.insert
    · rfl
    · exact absurd (mem_objsOf.mpr ⟨x, hx, (hw.insSeq x hx hxi).2, ho⟩) hnm

theorem storeSeqElems_eq {ops : List Op} {s : Store} (hw : OpsWF ops) (hi : StoreInv ops s) (obj : ObjId) :
    storeSeqElems s obj = seqElems ops obj := by
  unfold storeSeqElems seqElems
  rw [storeSeqOrder_eq hw hi]
  apply filterMap_congr'
  intro e _
  rw [storeElemRegister_eq hw hi]
  rfl

/-! ## §5 map keys -/

theorem bytesLt_of_lt_of_not_lt {a b c : Bytes} (h₁ : bytesLt a b = true) (h₂ : bytesLt c b = false) :
    bytesLt a c = true := by
  by_cases hbc : b = c
  · subst hbc; exact h₁
  · rcases bytesLt_total hbc with h | h
    · exact bytesLt_trans h₁ h
    · rw [h] at h₂; cases h₂

theorem mem_dedupAdj {x : Bytes} : ∀ {l : List Bytes}, x ∈ dedupAdj l ↔ x ∈ l
  | [] => by simp [dedupAdj]
  | [a] => by simp [dedupAdj]
  | a :: b :: rest => by
    simp only [dedupAdj]
    split
    · rename_i hab
      have : a = b := by simpa using hab
      subst this
      rw [mem_dedupAdj (l := a :: rest)]
      simp
    · rw [List.mem_cons, mem_dedupAdj (l := b :: rest)]
      simp

theorem dedupAdj_sorted : ∀ {l : List Bytes}, l.Pairwise (fun a b => bytesLt b a = false) →
    (dedupAdj l).Pairwise (fun a b => bytesLt a b = true)
  | [], _ => List.Pairwise.nil
  | [a], _ => List.pairwise_singleton _ _
  | a :: b :: rest, h => by
    simp only [dedupAdj]
    split
    · exact dedupAdj_sorted (List.Pairwise.of_cons h)
    · rename_i hab
      have hne : a ≠ b := by simpa using hab
      have hab' : bytesLt a b = true := by
        rcases bytesLt_total hne with h' | h'
        · exact h'
        · rw [List.rel_of_pairwise_cons h List.mem_cons_self] at h'; cases h'
      refine List.Pairwise.cons ?_ (dedupAdj_sorted (List.Pairwise.of_cons h))
      intro z hz
      rcases List.mem_cons.mp (mem_dedupAdj.mp hz) with rfl | hz'
      · exact hab'
      · exact bytesLt_of_lt_of_not_lt hab'
          (List.rel_of_pairwise_cons (List.Pairwise.of_cons h) hz')

theorem mapKey?_eq_some {o : Op} {k : Bytes} : o.mapKey? = some k ↔ o.key = .map k := by
  unfold Op.mapKey?
  cases o.key <;> simp

/-- **the keys of a map object** -/
theorem storeMapKeys_eq {ops : List Op} {s : Store} (hw : OpsWF ops) (hi : StoreInv ops s) (obj : ObjId) :
    storeMapKeys s obj = mapKeys ops obj := by
  unfold storeMapKeys
  rw [mapKeys_eq_keysOf]
  have hfm : (s.filter (fun r => r.op.obj == obj && r.op.isValue && r.isVisible)).filterMap
      (fun r => r.op.mapKey?) =
      ((s.filter (fun r => r.op.obj == obj && r.op.isValue && r.isVisible)).map (·.op)).filterMap
        Op.mapKey? := by
    rw [List.filterMap_map]; rfl
  have hP : ∀ r ∈ s, (r.op.obj == obj && r.op.isValue && r.isVisible) =
      (r.op.obj == obj && visible ops r.op) := by
    intro r hr
    cases hv : r.op.isValue
    · have : visible ops r.op = false := by simp [visible, hv]
      simp [this]
    · rw [rowVisible_eq (hi.succ r hr) hv]; simp
  rw [hfm, filter_map_rows (Q := fun o => o.obj == obj && visible ops o) hP, hi.order]
  refine eq_of_pairwise_of_mem_iff (fun _ _ h₁ h₂ => bytesLt_asymm h₁ h₂) _ _
    (dedupAdj_sorted ?_) (keysOf_sorted _) (fun k => ?_)
  · rw [List.pairwise_filterMap]
    have := canon_keySorted hw
    unfold KeySorted at this
    refine List.Pairwise.imp_of_mem ?_ (List.Pairwise.filter _ this)
    intro a b ha hb h ka hka kb hkb
    have hao := (List.mem_filter.mp ha).2
    have hbo := (List.mem_filter.mp hb).2
    simp only [Bool.and_eq_true, beq_iff_eq] at hao hbo
    have hka' : a.key = .map ka := mapKey?_eq_some.mp hka
    have hkb' : b.key = .map kb := mapKey?_eq_some.mp hkb
    exact h (hao.1.trans hbo.1.symm) ka kb hka' hkb'
  · rw [mem_dedupAdj, mem_keysOf, List.mem_filterMap]
    constructor
    · rintro ⟨o, ho, hk⟩
      obtain ⟨h1, h2⟩ := List.mem_filter.mp ho
      exact ⟨o, List.mem_filter.mpr ⟨((mem_canon_iff hi).mp h1).1, h2⟩, mapKey?_eq_some.mp hk⟩
    · rintro ⟨o, ho, hk⟩
      obtain ⟨h1, h2⟩ := List.mem_filter.mp ho
      simp only [Bool.and_eq_true] at h2
      exact ⟨o, List.mem_filter.mpr ⟨(mem_canon_iff hi).mpr
        ⟨h1, isDel_of_isValue (isValue_of_visible h2.2)⟩, by simp [h2.1, h2.2]⟩,
        mapKey?_eq_some.mpr hk⟩

/-! ## §6 the rendered document -/

theorem storeShowObj_eq {ops : List Op} {s : Store} (hw : OpsWF ops) (hi : StoreInv ops s) :
    ∀ (fuel : Nat) (obj : ObjId) (ty : ObjType), storeShowObj s fuel obj ty = showObj ops fuel obj ty
  | 0, _, _ => rfl
  | fuel + 1, obj, ty => by
    have ih : storeShowObj s fuel = showObj ops fuel :=
      funext fun o => funext fun t => storeShowObj_eq hw hi fuel o t
    have hk : storeMapKeys s = mapKeys ops := funext (storeMapKeys_eq hw hi)
    have hr : storeMapRegister s = mapRegister ops :=
      funext fun o => funext fun k => storeMapRegister_eq hw hi o k
    have he : storeSeqElems s = seqElems ops := funext (storeSeqElems_eq hw hi)
    simp only [storeShowObj, showObj, ih, hk, hr, he]
    rfl

/-- **the document read from the store is the specification's reading of the op set** -/
theorem storeShowDoc_eq {ops : List Op} {s : Store} (hw : OpsWF ops) (hi : StoreInv ops s) :
    storeShowDoc s (ops.length + 1) = showDoc ops := by
  unfold storeShowDoc showDoc
  exact storeShowObj_eq hw hi _ _ _

end AmVerif.Crdt
