import AmVerif.Proofs.DocCodecStoreEmit
/-
  C11 (document chunk), reconstruction: the hypotheses of the reconstruction theorem as ONE decidable
  statement about the history (`ReconChecks`), and the theorem itself:

  `reconstructs_of_checks : ReconChecks applied → changesOf (imageOf applied) = ok applied`.
-/
namespace AmVerif.DocCodec
open AmVerif AmVerif.Crdt AmVerif.ChangeCodec

def objPosB : ObjId → Bool
  | .id i => decide (0 < i.ctr)
  | .root => true

def keyPosB : Key → Bool
  | .elem e => decide (0 < e.ctr)
  | _ => true

/-- `OpR`, decidable -/
def OpRD (table : List Bytes) (o : Op) : Prop :=
  (∀ a ∈ opActors o, a ∈ table) ∧ objPosB o.obj = true ∧ keyPosB o.key = true ∧ sortOpIds o.pred = o.pred

instance (table : List Bytes) (o : Op) : Decidable (OpRD table o) := by unfold OpRD; infer_instance

theorem OpRD.sound {table : List Bytes} {o : Op} (h : OpRD table o) : OpR table o := by
  obtain ⟨h1, h2, h3, h4⟩ := h
  refine ⟨h1, ?_, ?_, h4⟩
  · intro i hi
    rw [hi] at h2
    simpa [objPosB] using h2
  · intro e he
    rw [he] at h3
    simpa [keyPosB] using h3

/-- the change's hash is the SHA-256 chunk hash of its encoding -/
def HashD (d : DChange) : Prop :=
  d.c.hash = Chunk.chunkHash Consts.CHUNK_TYPE_CHANGE
    (encodeBody d.c.deps d.c.actor (otherActors d.c.actor d.c.ops) d.c.seq d.c.startOp d.time d.message
      (d.c.ops.map (toRow (d.c.actor :: otherActors d.c.actor d.c.ops))) d.extra)

instance (d : DChange) : Decidable (HashD d) := by unfold HashD; infer_instance

/-- `ReconOk`, decidable -/
def ReconD (applied : List DChange) : Prop :=
  (∀ d ∈ applied, ∀ o ∈ d.c.ops, OpRD (actorTable applied) o) ∧
  (∀ d ∈ applied, ∀ p ∈ d.c.ops.zipIdx, p.1.id = (⟨d.c.startOp + p.2, d.c.actor⟩ : OpId)) ∧
  (∀ d ∈ applied, 0 < d.c.startOp) ∧
  (∀ p ∈ applied.zipIdx, ∀ h ∈ p.1.c.deps, hashIdx applied h < p.2) ∧
  (∀ d ∈ applied, HashD d) ∧
  (∀ p ∈ applied.zipIdx,
    p.1.c.seq = ((applied.take p.2).filter (fun e => e.c.actor = p.1.c.actor)).length + 1) ∧
  (∀ p ∈ applied.zipIdx, ∀ q ∈ applied.zipIdx, p.2 < q.2 → p.1.c.actor = q.1.c.actor → p.1.maxOp ≤ q.1.maxOp)

instance (applied : List DChange) : Decidable (ReconD applied) := by unfold ReconD; infer_instance

theorem mem_zipIdx_of {α : Type} {l : List α} {i : Nat} {x : α} (h : l[i]? = some x) : (x, i) ∈ l.zipIdx :=
  List.mem_zipIdx_iff_getElem?.2 h

theorem ReconD.sound {applied : List DChange} (h : ReconD applied) : ReconOk applied := by
  obtain ⟨h1, h2, h3, h4, h5, h6, h7⟩ := h
  refine ⟨fun d hd o ho => (h1 d hd o ho).sound, ?_, h3, ?_, h5, ?_, ?_⟩
  · intro d hd j o hj
    exact h2 d hd (o, j) (mem_zipIdx_of hj)
  · intro i d hi hh hhm
    exact h4 (d, i) (mem_zipIdx_of hi) hh hhm
  · intro i d hi
    exact h6 (d, i) (mem_zipIdx_of hi)
  · intro i j di dj hi hj hij ha
    exact h7 (di, i) (mem_zipIdx_of hi) (dj, j) (mem_zipIdx_of hj) hij ha

/-- `GapOk`, decidable -/
def GapD (applied : List DChange) : Prop :=
  (∀ d ∈ applied, estStart (imageOf applied).changes (metaOf applied d) ≤ d.c.startOp) ∧
  (∀ d ∈ applied, d.c.ops = [] → d.c.startOp = estStart (imageOf applied).changes (metaOf applied d)) ∧
  (∀ p ∈ applied.zipIdx, ∀ q ∈ applied.zipIdx, p.2 < q.2 → p.1.c.actor = q.1.c.actor →
    p.1.maxOp < estStart (imageOf applied).changes (metaOf applied q.1))

instance (applied : List DChange) : Decidable (GapD applied) := by unfold GapD; infer_instance

theorem GapD.sound {applied : List DChange} (h : GapD applied) : GapOk applied := by
  obtain ⟨h1, h2, h3⟩ := h
  refine ⟨h1, h2, ?_⟩
  intro i j di dj hi hj hij ha
  exact h3 (di, i) (mem_zipIdx_of hi) (dj, j) (mem_zipIdx_of hj) hij ha

/-- `OpsR`, decidable -/
def OpsD (table : List Bytes) (ops : List Op) : Prop :=
  admissibleB ops = true ∧
  (∀ N ∈ ops, ∀ x ∈ ops, x.id ∈ N.pred → κ x = κ N) ∧
  (∀ o ∈ ops, o.id.actor ∈ table) ∧
  (∀ o ∈ ops, ∀ a ∈ opActors o, a ∈ table) ∧
  (∀ o ∈ ops, ∀ p ∈ o.pred, ∃ q ∈ ops, q.id = p ∧ q.isDel = false) ∧
  (∀ o ∈ ops, ∀ p ∈ o.pred, p.lt o.id = true) ∧
  (∀ o ∈ ops, o.pred.Pairwise (fun a b => a.lt b = true)) ∧
  (∀ o ∈ ops, o.isDel = true → o.pred ≠ [])

instance (table : List Bytes) (ops : List Op) : Decidable (OpsD table ops) := by unfold OpsD κ; infer_instance

theorem OpsD.sound {table : List Bytes} {ops : List Op} (h : OpsD table ops) : OpsR table ops := by
  obtain ⟨h1, h2, h3, h4, h5, h6, h7, h8⟩ := h
  exact ⟨admissibleB_sound h1, h2, h3, h4, h5, h6, h7, h8⟩

/-- **everything the reconstruction theorem assumes about a history**, decidable:
    the ops are causally admissible (`admissibleB`); every op names predecessors that are stored ops of
    its own register with smaller ids, in ascending order, and a delete names at least one; ids and
    actors are those of the document's actor table, objects and elements have positive counters;
    the ops of a change carry consecutive ids from `start_op`; dependencies are earlier changes; a
    change's hash is SHA-256 of its encoding; each actor's changes come with sequence numbers 1, 2, …,
    non-decreasing `max_op`, and each starts behind the `max_op` of its dependencies, which covers the
    actor's previous change (`GapD`); every mark end follows its begin (`markOrderOk`) -/
def ReconChecks (applied : List DChange) : Prop :=
  ReconD applied ∧ GapD applied ∧ OpsD (actorTable applied) (applied.flatMap (·.c.ops)) ∧
    markOrderOk (imageOf applied).ops [] = true

instance (applied : List DChange) : Decidable (ReconChecks applied) := by unfold ReconChecks; infer_instance

/-- **`storage/load` rebuilds the applied changes from the document chunk `save` writes** -/
theorem reconstructs_of_checks {applied : List DChange} (h : ReconChecks applied) :
    changesOf (imageOf applied) = .ok applied :=
  changesOf_of_emit h.1.sound h.2.1.sound (emitOk_of_store h.2.2.1.sound) h.2.2.2

end AmVerif.DocCodec
