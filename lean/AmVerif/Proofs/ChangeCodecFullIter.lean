import AmVerif.Proofs.ChangeCodecFullInit
/-
  Helper lemmas for the whole-change round trip of C18: `Columns::parse2`, `ChangeOpsColumns::try_from`
  and `ChangeOpsColumns::iter` on the column table and data block `ChangeBuilder::build` writes for
  `rows` — the row iterator stands in front of `rows` (`IterRep`), hence `verify_ops` reads `rows` back.
-/
namespace AmVerif.ChangeCodec.Full
open AmVerif AmVerif.Leb AmVerif.Crdt AmVerif.ChangeCodec
open AmVerif.DocCodec (nonEmptyCols metaPairs rangesOf colData)
open AmVerif.Hexane (two63 two64 cU64 cI64 validU64 validI64 lawful_u64 lawful_i64 ListValid Lawful ValCodec)

/-! ### the 14 columns by name -/

def k1 (rows : List Row) : Bytes := rleEnc cU64 (rows.map objActorV)
def k2 (rows : List Row) : Bytes := if (k1 rows).isEmpty then [] else rleEnc cU64 (rows.map objCtrV)
def k3 (rows : List Row) : Bytes := rleEnc cU64 (rows.map keyActorV)
def k4 (rows : List Row) : Bytes := deltaEnc (rows.map keyCtrV)
def k5 (rows : List Row) : Bytes := rleEnc cSmol (rows.map keyStrV)
def k6 (rows : List Row) : Bytes := boolEnc (rows.map (·.insert))
def k7 (rows : List Row) : Bytes := rleEnc cU64 (rows.map (fun r => some r.action))
def k8 (rows : List Row) : Bytes := rleEnc cU64 (rows.map (fun r => some (valueMeta r.val)))
def k9 (rows : List Row) : Bytes := (rows.map (fun r => valueRaw r.val)).flatten
def k10 (rows : List Row) : Bytes := rleEnc cU64 (rows.map (fun r => some r.pred.length))
def k11 (rows : List Row) : Bytes := rleEnc cU64 ((rows.flatMap (·.pred)).map (fun p => some p.actor))
def k12 (rows : List Row) : Bytes := deltaEnc ((rows.flatMap (·.pred)).map (fun p => some (p.ctr : Int)))
def k13 (rows : List Row) : Bytes := maybeBoolEnc (rows.map (·.expand))
def k14 (rows : List Row) : Bytes := rleEnc cSmol (rows.map (·.markName))

theorem encodeCols_table (rows : List Row) : encodeCols rows =
    table14 (k1 rows) (k2 rows) (k3 rows) (k4 rows) (k5 rows) (k6 rows) (k7 rows) (k8 rows) (k9 rows) (k10 rows)
      (k11 rows) (k12 rows) (k13 rows) (k14 rows) := rfl

/-! ### when a column is written -/

theorem rleEnc_ne_nil {α : Type} [DecidableEq α] {c : ValCodec α} {Valid : α → Prop} (law : Lawful c Valid)
    (xs : List (Option α)) (v : α) (hm : some v ∈ xs) (hlen : xs.length < two63) (hv : ListValid Valid true xs) :
    rleEnc c xs ≠ [] := by
  have hall : ¬ xs.all (fun x => x.isNone) = true := by
    intro h
    have := allNone_of_all h (some v) hm
    cases this
  unfold rleEnc
  rw [if_neg hall]
  exact DocCodec.rleEncode_ne_nil law true xs (by intro h; rw [h] at hm; cases hm) hlen hv

theorem rleEnc_nil_allNone {α : Type} [DecidableEq α] {c : ValCodec α} {Valid : α → Prop} (law : Lawful c Valid)
    (xs : List (Option α)) (hlen : xs.length < two63) (hv : ListValid Valid true xs) (h : rleEnc c xs = []) :
    ∀ x ∈ xs, x = none := by
  intro x hx
  cases x with
  | none => rfl
  | some v => exact absurd h (rleEnc_ne_nil law xs v hx hlen hv)

theorem deltaEnc_ne_nil (xs : List (Option Int)) (v : Int) (hm : some v ∈ xs) (hlen : xs.length < two63)
    (hs : NoSat xs 0) : deltaEnc xs ≠ [] := by
  unfold deltaEnc
  have hall : ¬ (deltasSat xs 0).all (fun x => x.isNone) = true := by
    rw [deltasSat_all_none]
    intro h
    have := allNone_of_all h (some v) hm
    cases this
  unfold rleEnc
  rw [if_neg hall]
  apply DocCodec.rleEncode_ne_nil lawful_i64 true _ _ (by rw [deltasSat_length]; exact hlen) (deltasSat_valid xs 0 hs)
  intro h
  have hl := deltasSat_length xs 0
  rw [h] at hl
  have : xs = [] := List.eq_nil_of_length_eq_zero hl.symm
  rw [this] at hm
  cases hm

theorem listValid_map {α β : Type} {Valid : α → Prop} (f : β → Option α) (l : List β)
    (h : ∀ b ∈ l, ∀ v, f b = some v → Valid v) : ListValid Valid true (l.map f) := by
  intro x hx
  obtain ⟨b, hb, rfl⟩ := List.mem_map.mp hx
  cases hf : f b with
  | none => rfl
  | some v => exact h b hb v hf

theorem isEmpty_eq_true_iff {b : Bytes} : b.isEmpty = true ↔ b = [] := by
  cases b <;> simp

/-! ### the iterator on the encoded table -/

theorem flatMap_pred_le (rows : List Row) (r : Row) (h : r ∈ rows) :
    r.pred.length ≤ (rows.flatMap (·.pred)).length := by
  induction rows with
  | nil => cases h
  | cons x xs ih =>
    simp only [List.flatMap_cons, List.length_append]
    rcases List.mem_cons.mp h with rfl | h
    · omega
    · have := ih h; omega

theorem iter_init (rows : List Row) (hne : rows ≠ []) (hok : ∀ r ∈ rows, RowOK r) (hlen : rows.length < two63)
    (hpl : (rows.flatMap (·.pred)).length < two63)
    (hd : (colData (nonEmptyCols (encodeCols rows))).length < 2 ^ 64) :
    ∃ layout cols,
      parseLayout (colData (nonEmptyCols (encodeCols rows))).length (rangesOf (nonEmptyCols (encodeCols rows))) {} = .ok layout ∧
      pickCols layout {} = .ok cols ∧
      IterRep (IterSt.init cols (colData (nonEmptyCols (encodeCols rows)))) rows := by
  obtain ⟨r0, hr0⟩ : ∃ r0, r0 ∈ rows := by
    cases rows with
    | nil => exact absurd rfl hne
    | cons a b => exact ⟨a, List.mem_cons_self⟩
  -- validity of the value lists
  have v1 : ListValid validU64 true (rows.map objActorV) := listValid_map _ _ (fun r hr v hv => by
    have := (hok r hr).obj.2
    simp only [objActorV] at hv
    split at hv
    · cases hv
    · cases hv; unfold validU64; omega)
  have v2 : ListValid validU64 true (rows.map objCtrV) := listValid_map _ _ (fun r hr v hv => by
    have := (hok r hr).obj.1
    simp only [objCtrV] at hv
    split at hv
    · cases hv
    · cases hv; unfold validU64; omega)
  have v3 : ListValid validU64 true (rows.map keyActorV) := listValid_map _ _ (fun r hr v hv => by
    have hk := (hok r hr).key
    simp only [keyActorV] at hv
    cases hkey : r.key with
    | prop s => rw [hkey] at hv; cases hv
    | elem e =>
      rw [hkey] at hv hk
      simp only at hv hk
      split at hv
      · cases hv
      · cases hv; unfold validU64; have := hk.2; omega)
  have v4 : NoSat (rows.map keyCtrV) 0 := by
    apply noSat_small _ 0 (by omega) (by omega)
    intro x hx v hv
    obtain ⟨r, hr, rfl⟩ := List.mem_map.mp hx
    have hk := (hok r hr).key
    simp only [keyCtrV] at hv
    cases hkey : r.key with
    | prop s => rw [hkey] at hv; cases hv
    | elem e =>
      rw [hkey] at hv hk
      simp only at hv hk
      cases hv
      have := hk.1
      omega
  have v5 : ListValid validSmol true (rows.map keyStrV) := listValid_map _ _ (fun r hr v hv => by
    have hk := (hok r hr).key
    simp only [keyStrV] at hv
    cases hkey : r.key with
    | prop s => rw [hkey] at hv hk; cases hv; exact hk
    | elem e => rw [hkey] at hv; cases hv)
  have v7 : ListValid validU64 true (rows.map (fun r => some r.action)) :=
    listValid_somes _ _ (fun r hr => (hok r hr).action.1)
  have v8 : ListValid validU64 true (rows.map (fun r => some (valueMeta r.val))) :=
    listValid_somes _ _ (fun r hr => valueMeta_lt _ (hok r hr).val)
  have v10 : ListValid validU64 true (rows.map (fun r => some r.pred.length)) :=
    listValid_somes _ _ (fun r hr => (hok r hr).predLen)
  have hpok : ∀ p ∈ rows.flatMap (·.pred), IdOk p := by
    intro p hp
    obtain ⟨r, hr, hpr⟩ := List.mem_flatMap.mp hp
    exact (hok r hr).pred p hpr
  have v11 : ListValid validU64 true ((rows.flatMap (·.pred)).map (fun p => some p.actor)) :=
    listValid_somes _ _ (fun p hp => by have := (hpok p hp).2; unfold validU64; omega)
  have v12 : NoSat ((rows.flatMap (·.pred)).map (fun p => some (p.ctr : Int))) 0 := by
    apply noSat_small _ 0 (by omega) (by omega)
    intro x hx v hv
    obtain ⟨p, hp, rfl⟩ := List.mem_map.mp hx
    cases hv
    have := (hpok p hp).1
    omega
  have v14 : ListValid validSmol true (rows.map (·.markName)) :=
    listValid_map _ _ (fun r hr v hv => (hok r hr).markName v hv)
  have l1 : (rows.map objActorV).length < two63 := by simpa using hlen
  have lp : ∀ {β : Type} (f : IdI → β), ((rows.flatMap (·.pred)).map f).length < two63 := by
    intro β f; simpa using hpl
  have l64 : rows.length < two64 := by unfold two63 two64 at *; omega
  -- which columns are written
  have h8 : k8 rows ≠ [] :=
    rleEnc_ne_nil lawful_u64 _ (valueMeta r0.val) (List.mem_map.mpr ⟨r0, hr0, rfl⟩) (by simpa using hlen) v8
  have h10 : k10 rows ≠ [] :=
    rleEnc_ne_nil lawful_u64 _ r0.pred.length (List.mem_map.mpr ⟨r0, hr0, rfl⟩) (by simpa using hlen) v10
  have h1112 : (k11 rows).isEmpty = (k12 rows).isEmpty := by
    cases hp : rows.flatMap (·.pred) with
    | nil => simp [k11, k12, hp, rleEnc, deltaEnc, deltasSat]
    | cons p ps =>
      have e1 : k11 rows ≠ [] := by
        apply rleEnc_ne_nil lawful_u64 _ p.actor _ (lp _) v11
        rw [hp]; simp
      have e2 : k12 rows ≠ [] := by
        apply deltaEnc_ne_nil _ (p.ctr : Int) _ (lp _) v12
        rw [hp]; simp
      cases h1 : k11 rows with
      | nil => exact absurd h1 e1
      | cons a b =>
        cases h2 : k12 rows with
        | nil => exact absurd h2 e2
        | cons a' b' => rfl
  -- the data block
  have hdata : colData (nonEmptyCols (encodeCols rows)) =
      k1 rows ++ (k2 rows ++ (k3 rows ++ (k4 rows ++ (k5 rows ++ (k6 rows ++ (k7 rows ++ (k8 rows ++ (k9 rows ++
        (k10 rows ++ (k11 rows ++ (k12 rows ++ (k13 rows ++ (k14 rows ++ []))))))))))))) := by
    rw [colData_nonEmpty, encodeCols_table]
    rfl
  have htot : (colData (nonEmptyCols (encodeCols rows))).length =
      (k1 rows).length + (k2 rows).length + (k3 rows).length + (k4 rows).length + (k5 rows).length + (k6 rows).length +
      (k7 rows).length + (k8 rows).length + (k9 rows).length + (k10 rows).length + (k11 rows).length + (k12 rows).length +
      (k13 rows).length + (k14 rows).length := by
    rw [hdata]; simp only [List.length_append, List.length_nil]; omega
  refine ⟨layout14 (k1 rows) (k2 rows) (k3 rows) (k4 rows) (k5 rows) (k6 rows) (k7 rows) (k8 rows) (k9 rows) (k10 rows)
    (k11 rows) (k12 rows) (k13 rows) (k14 rows), cols14 (k1 rows) (k2 rows) (k3 rows) (k4 rows) (k5 rows) (k6 rows) (k7 rows) (k8 rows) (k9 rows) (k10 rows)
    (k11 rows) (k12 rows) (k13 rows) (k14 rows), ?_, pickCols_14 _ _ _ _ _ _ _ _ _ _ _ _ _ _, ?_⟩
  · have := layout_14 (k1 rows) (k2 rows) (k3 rows) (k4 rows) (k5 rows) (k6 rows) (k7 rows) (k8 rows) (k9 rows) (k10 rows)
      (k11 rows) (k12 rows) (k13 rows) (k14 rows) _ htot hd h8 h10 h1112
    rw [← encodeCols_table] at this
    exact this
  · -- every column is found again in the data block
    generalize hD : colData (nonEmptyCols (encodeCols rows)) = data at hdata
    have s1 : slice data (rngD 0 (k1 rows)) = k1 rows := slice_rngD data [] _ _ _ hdata rfl
    have s2 : slice data (rngD (0 + (k1 rows).length) (k2 rows)) = k2 rows :=
      slice_rngD data (k1 rows) _ _ _ hdata (by simp)
    have s3 : slice data (rngD (0 + (k1 rows).length + (k2 rows).length) (k3 rows)) = k3 rows :=
      slice_rngD data (k1 rows ++ k2 rows) _ _ _ (by rw [hdata]; simp only [List.append_assoc]; rfl) (by simp only [List.length_append]; omega)
    have s4 : slice data (rngD (0 + (k1 rows).length + (k2 rows).length + (k3 rows).length) (k4 rows)) = k4 rows :=
      slice_rngD data (k1 rows ++ k2 rows ++ k3 rows) _ _ _ (by rw [hdata]; simp only [List.append_assoc]; rfl) (by simp only [List.length_append]; omega)
    have s5 : slice data (rngD (0 + (k1 rows).length + (k2 rows).length + (k3 rows).length + (k4 rows).length) (k5 rows))
        = k5 rows :=
      slice_rngD data (k1 rows ++ k2 rows ++ k3 rows ++ k4 rows) _ _ _ (by rw [hdata]; simp only [List.append_assoc]; rfl) (by simp only [List.length_append]; omega)
    have s6 : slice data (rngD (0 + (k1 rows).length + (k2 rows).length + (k3 rows).length + (k4 rows).length +
        (k5 rows).length) (k6 rows)) = k6 rows :=
      slice_rngD data (k1 rows ++ k2 rows ++ k3 rows ++ k4 rows ++ k5 rows) _ _ _ (by rw [hdata]; simp only [List.append_assoc]; rfl) (by simp only [List.length_append]; omega)
    have s7 : slice data (rngD (0 + (k1 rows).length + (k2 rows).length + (k3 rows).length + (k4 rows).length +
        (k5 rows).length + (k6 rows).length) (k7 rows)) = k7 rows :=
      slice_rngD data (k1 rows ++ k2 rows ++ k3 rows ++ k4 rows ++ k5 rows ++ k6 rows) _ _ _ (by rw [hdata]; simp only [List.append_assoc]; rfl) (by simp only [List.length_append]; omega)
    have s8 : slice data ⟨0 + (k1 rows).length + (k2 rows).length + (k3 rows).length + (k4 rows).length +
        (k5 rows).length + (k6 rows).length + (k7 rows).length,
        0 + (k1 rows).length + (k2 rows).length + (k3 rows).length + (k4 rows).length +
        (k5 rows).length + (k6 rows).length + (k7 rows).length + (k8 rows).length⟩ = k8 rows :=
      slice_rng data (k1 rows ++ k2 rows ++ k3 rows ++ k4 rows ++ k5 rows ++ k6 rows ++ k7 rows) _ _ _
        (by rw [hdata]; simp only [List.append_assoc]; rfl) (by simp only [List.length_append]; omega)
    have s9 : slice data (rngD (0 + (k1 rows).length + (k2 rows).length + (k3 rows).length + (k4 rows).length +
        (k5 rows).length + (k6 rows).length + (k7 rows).length + (k8 rows).length) (k9 rows)) = k9 rows :=
      slice_rngD data (k1 rows ++ k2 rows ++ k3 rows ++ k4 rows ++ k5 rows ++ k6 rows ++ k7 rows ++ k8 rows) _ _ _
        (by rw [hdata]; simp only [List.append_assoc]; rfl) (by simp only [List.length_append]; omega)
    have s10 : slice data ⟨0 + (k1 rows).length + (k2 rows).length + (k3 rows).length + (k4 rows).length +
        (k5 rows).length + (k6 rows).length + (k7 rows).length + (k8 rows).length + (k9 rows).length,
        0 + (k1 rows).length + (k2 rows).length + (k3 rows).length + (k4 rows).length +
        (k5 rows).length + (k6 rows).length + (k7 rows).length + (k8 rows).length + (k9 rows).length + (k10 rows).length⟩
        = k10 rows :=
      slice_rng data (k1 rows ++ k2 rows ++ k3 rows ++ k4 rows ++ k5 rows ++ k6 rows ++ k7 rows ++ k8 rows ++ k9 rows) _ _ _
        (by rw [hdata]; simp only [List.append_assoc]; rfl) (by simp only [List.length_append]; omega)
    have s11 : slice data (rngD (0 + (k1 rows).length + (k2 rows).length + (k3 rows).length + (k4 rows).length +
        (k5 rows).length + (k6 rows).length + (k7 rows).length + (k8 rows).length + (k9 rows).length + (k10 rows).length)
        (k11 rows)) = k11 rows :=
      slice_rngD data (k1 rows ++ k2 rows ++ k3 rows ++ k4 rows ++ k5 rows ++ k6 rows ++ k7 rows ++ k8 rows ++ k9 rows ++
        k10 rows) _ _ _ (by rw [hdata]; simp only [List.append_assoc]; rfl) (by simp only [List.length_append]; omega)
    have s12 : slice data (if (k11 rows).isEmpty then Rng.zero else
        ⟨0 + (k1 rows).length + (k2 rows).length + (k3 rows).length + (k4 rows).length +
        (k5 rows).length + (k6 rows).length + (k7 rows).length + (k8 rows).length + (k9 rows).length + (k10 rows).length +
        (k11 rows).length,
        0 + (k1 rows).length + (k2 rows).length + (k3 rows).length + (k4 rows).length +
        (k5 rows).length + (k6 rows).length + (k7 rows).length + (k8 rows).length + (k9 rows).length + (k10 rows).length +
        (k11 rows).length + (k12 rows).length⟩) = k12 rows := by
      have := slice_rngD data (k1 rows ++ k2 rows ++ k3 rows ++ k4 rows ++ k5 rows ++ k6 rows ++ k7 rows ++ k8 rows ++
        k9 rows ++ k10 rows ++ k11 rows) (k12 rows) _
        (0 + (k1 rows).length + (k2 rows).length + (k3 rows).length + (k4 rows).length +
        (k5 rows).length + (k6 rows).length + (k7 rows).length + (k8 rows).length + (k9 rows).length + (k10 rows).length +
        (k11 rows).length) (by rw [hdata]; simp only [List.append_assoc]; rfl) (by simp only [List.length_append]; omega)
      unfold rngD at this
      rw [← h1112] at this
      exact this
    have s13 : slice data (rngD (0 + (k1 rows).length + (k2 rows).length + (k3 rows).length + (k4 rows).length +
        (k5 rows).length + (k6 rows).length + (k7 rows).length + (k8 rows).length + (k9 rows).length + (k10 rows).length +
        (k11 rows).length + (k12 rows).length) (k13 rows)) = k13 rows :=
      slice_rngD data (k1 rows ++ k2 rows ++ k3 rows ++ k4 rows ++ k5 rows ++ k6 rows ++ k7 rows ++ k8 rows ++ k9 rows ++
        k10 rows ++ k11 rows ++ k12 rows) _ _ _ (by rw [hdata]; simp only [List.append_assoc]; rfl) (by simp only [List.length_append]; omega)
    have s14 : slice data (rngD (0 + (k1 rows).length + (k2 rows).length + (k3 rows).length + (k4 rows).length +
        (k5 rows).length + (k6 rows).length + (k7 rows).length + (k8 rows).length + (k9 rows).length + (k10 rows).length +
        (k11 rows).length + (k12 rows).length + (k13 rows).length) (k14 rows)) = k14 rows :=
      slice_rngD data (k1 rows ++ k2 rows ++ k3 rows ++ k4 rows ++ k5 rows ++ k6 rows ++ k7 rows ++ k8 rows ++ k9 rows ++
        k10 rows ++ k11 rows ++ k12 rows ++ k13 rows) _ _ _ (by rw [hdata]; simp only [List.append_assoc]; rfl) (by simp only [List.length_append]; omega)
    -- the object pair
    have hobj : (match (IterSt.init (cols14 (k1 rows) (k2 rows) (k3 rows) (k4 rows) (k5 rows) (k6 rows) (k7 rows) (k8 rows)
          (k9 rows) (k10 rows) (k11 rows) (k12 rows) (k13 rows) (k14 rows)) data).obj with
        | none => ∀ r ∈ rows, isRoot r = true
        | some os => RepN cU64 validU64 os.actor (rows.map objActorV) ∧ RepN cU64 validU64 os.ctr (rows.map objCtrV)) := by
      simp only [IterSt.init, cols14, rngD_isEmpty, s1, s2]
      have hroot1 : k1 rows = [] → ∀ r ∈ rows, isRoot r = true := by
        intro h r hr
        have := rleEnc_nil_allNone lawful_u64 _ l1 v1 h (objActorV r) (List.mem_map.mpr ⟨r, hr, rfl⟩)
        simp only [objActorV] at this
        split at this
        · assumption
        · cases this
      cases h1 : k1 rows with
      | nil => simp only [List.isEmpty_nil, Bool.true_or, if_true]; exact hroot1 h1
      | cons a b =>
        have hk2 : k2 rows = rleEnc cU64 (rows.map objCtrV) := by simp [k2, h1]
        cases h2 : k2 rows with
        | nil =>
          simp only [List.isEmpty_cons, List.isEmpty_nil, Bool.or_true, if_true]
          intro r hr
          rw [hk2] at h2
          have := rleEnc_nil_allNone lawful_u64 _ (by simpa using hlen) v2 h2 (objCtrV r) (List.mem_map.mpr ⟨r, hr, rfl⟩)
          simp only [objCtrV] at this
          split at this
          · assumption
          · cases this
        | cons a' b' =>
          simp only [List.isEmpty_cons, Bool.or_self, Bool.false_eq_true, if_false]
          refine ⟨?_, ?_⟩
          · rw [← h1]; exact repN_init _ l1 v1
          · rw [← h2, hk2]; exact repN_init _ (by simpa using hlen) v2
    refine ⟨hobj, ?_, ?_, ?_, ?_, ?_, ?_, ?_, ?_, ?_, ?_, ?_⟩
    · simp only [IterSt.init, cols14, s3]; exact repN_init _ (by simpa using hlen) v3
    · simp only [IterSt.init, cols14, s4]; exact dRep_init _ (by simpa using hlen) v4
    · simp only [IterSt.init, cols14, s5]; exact repN_init _ (by simpa using hlen) v5
    · simp only [IterSt.init, cols14, s6]; exact bRep_init _ (by simpa using l64)
    · simp only [IterSt.init, cols14, s7]; exact repN_init _ (by simpa using hlen) v7
    · simp only [IterSt.init, cols14, s8, s9]
      refine ⟨?_, ?_⟩
      · have := repN_init (c := cU64) _ (by simpa using hlen) v8
        simpa [List.map_map, Function.comp_def, k8] using this
      · simp [k9, List.map_map, Function.comp_def]
    · simp only [IterSt.init, cols14, s10]; exact repN_init _ (by simpa using hlen) v10
    · simp only [IterSt.init, cols14, s11]; exact repN_init _ (lp _) v11
    · simp only [IterSt.init, cols14, s12]; exact dRep_init _ (lp _) v12
    · simp only [IterSt.init, cols14, s13]; exact mbRep_init _ (by simpa using l64)
    · simp only [IterSt.init, cols14, s14]; exact repN_init _ (by simpa using hlen) v14

/-- a change without operations: no column at all -/
theorem iter_init_nil :
    parseLayout (colData (nonEmptyCols (encodeCols []))).length (rangesOf (nonEmptyCols (encodeCols []))) {} = .ok [] ∧
    pickCols [] {} = .ok {} ∧ IterRep (IterSt.init {} (colData (nonEmptyCols (encodeCols [])))) [] := by
  refine ⟨by rfl, rfl, ?_⟩
  have hd : colData (nonEmptyCols (encodeCols [])) = [] := by rfl
  rw [hd]
  refine ⟨?_, ?_, ?_, ?_, ?_, ?_, ?_, ?_, ?_, ?_, ?_, ?_⟩
  · simp [IterSt.init, Rng.zero, Rng.isEmpty]
  · exact Or.inr ⟨rfl, by simp⟩
  · exact Or.inr ⟨rfl, by simp⟩
  · exact Or.inr ⟨rfl, by simp⟩
  · exact ⟨[], rfl, by simp, rfl⟩
  · exact Or.inr ⟨rfl, by simp⟩
  · exact ⟨Or.inr ⟨rfl, by simp⟩, rfl⟩
  · exact Or.inr ⟨rfl, by simp⟩
  · exact Or.inr ⟨rfl, by simp⟩
  · exact Or.inr ⟨rfl, by simp⟩
  · exact Or.inl ⟨rfl, by simp⟩
  · exact Or.inr ⟨rfl, by simp⟩

end AmVerif.ChangeCodec.Full
