import AmVerif.Proofs.SyncProgress21PairW
/-
  C21, n peers, part 3 (PairW, second file): the phase lemmas of the pair under the weak invariants
  `WP`, for a calm round (no reset message, nothing arrives):
    E  links empty                                   ⟹ after the round: same changes ∨ Fresh
    G  Fresh                                         ⟹ after the round: same changes ∨ Fresh2
    P  Fresh2 ∧ not same changes                     ⟹ the round is NOT calm (something arrives)
    Q  same changes ∧ links empty                    ⟹ after the round the pair is quiescent
  All for an arbitrary false-positive oracle `fp`.
-/
namespace AmVerif.Sync.Prog
open AmVerif AmVerif.Sync

/-! ### `missing_deps_from` only reports hashes known to whoever supplied the start hashes, even when
    the queue holds orphans from third parties -/

theorem missingLoop_soundW (d : Doc) (P : Hash → Prop)
    (hq : ∀ c ∈ d.queue, P c.hash → ∀ h ∈ c.deps, P h) :
    ∀ (fuel : Nat) (stack seen missing : List Hash) (x : Hash), (∀ h ∈ stack, P h) →
    x ∈ Doc.missingLoop d fuel stack seen missing → x ∈ missing ∨ (P x ∧ hasB d x = false)
  | 0, _, _, _, _, _, h => by left; simpa [Doc.missingLoop] using h
  | _ + 1, [], _, _, _, _, h => by left; simpa [Doc.missingLoop] using h
  | fuel + 1, h :: stack, seen, missing, x, hs, hx => by
    unfold Doc.missingLoop at hx
    have hs' : ∀ y ∈ stack, P y := fun y hy => hs y (List.mem_cons_of_mem _ hy)
    split at hx
    · exact missingLoop_soundW d P hq fuel _ _ _ x hs' hx
    · rename_i hcond
      split at hx
      · rename_i c hf
        apply missingLoop_soundW d P hq fuel _ _ _ x _ hx
        intro y hy
        rcases List.mem_append.mp hy with h1 | h1
        · obtain ⟨hcq, hch⟩ := findQueued_some hf
          exact hq c hcq (by rw [hch]; exact hs h (by simp)) y h1
        · exact hs' y h1
      · rename_i hf
        rcases missingLoop_soundW d P hq fuel _ _ _ x hs' hx with h1 | h1
        · rcases List.mem_cons.mp h1 with rfl | h1
          · right
            refine ⟨hs x (by simp), ?_⟩
            rw [hasB_false_iff]
            simp only [Bool.or_eq_true, not_or, Bool.not_eq_true] at hcond
            refine ⟨?_, findQueued_none hf⟩
            intro hm
            rw [Doc.hasChange_iff.mpr hm] at hcond
            exact absurd hcond.1 (by simp)
          · left; exact h1
        · right; exact h1

/-- what `missing_deps_from(heads of X)` reports at Y is applied at X and has not arrived at Y -/
theorem need_soundW {K : List Change} (kinj : KInj K) {dX dY : Doc} (ox : DocOK K dX)
    (oy : DocOK K dY) {start : List Hash} (hs : ∀ h ∈ start, h ∈ dX.hashes) {x : Hash}
    (hx : x ∈ dY.missingDepsFrom start) : x ∈ dX.hashes ∧ hasB dY x = false := by
  unfold Doc.missingDepsFrom at hx
  rw [mem_sortDedup] at hx
  have hq : ∀ c ∈ dY.queue, c.hash ∈ dX.hashes → ∀ h ∈ c.deps, h ∈ dX.hashes := by
    intro c hc hin h hh
    obtain ⟨y, hy, hyh⟩ := Doc.mem_hashes.mp hin
    have : y = c := kinj y (ox.applied y hy) c (oy.queue c hc) hyh
    subst this
    exact Topo.deps_mem _ ox.wf.topo y hy h hh
  rcases missingLoop_soundW dY (fun h => h ∈ dX.hashes) hq _ _ _ _ x hs hx with h | h
  · cases h
  · exact h

/-! ### `sendA` without the strong invariant -/

theorem fresh_after_sendW (fp : Hash → Bool) {c : Cfg} (hnr : c.stA.needsReset = false)
    (hba : c.linkBA = []) : Fresh (sendA fp c).swap := by
  obtain ⟨f1, f2, f3, f4, _, _, _⟩ := recvState_fields c.docB c.stB
    (mkMessage c.docA c.stA (mkBuilder fp c.docA c.stA))
  refine ⟨hba, rfl, ?_, ?_, ?_, f1⟩
  · show (recvState c.docB c.stB _).theirHeads = some c.docA.heads
    rw [f2, mkMessage_heads hnr]
  · show (recvState c.docB c.stB _).theirNeed = some (ourNeed c.docA (sentState c.docA c.stA _))
    rw [f4]; rfl
  · show (recvState c.docB c.stB _).theirHave = some (ourHave c.docA (sentState c.docA c.stA _))
    rw [f3]; rfl

theorem sendA_stBW (fp : Hash → Bool) {c : Cfg} (hnr : c.stA.needsReset = false) :
    (sendA fp c).stB.inFlight = false ∧ (sendA fp c).stB.theirHeads = some c.docA.heads := by
  obtain ⟨f1, f2, _⟩ := recvState_fields c.docB c.stB
    (mkMessage c.docA c.stA (mkBuilder fp c.docA c.stA))
  refine ⟨f1, ?_⟩
  show (recvState c.docB c.stB _).theirHeads = some c.docA.heads
  rw [f2, mkMessage_heads hnr]

theorem sendA_docBW (fp : Hash → Bool) {c : Cfg} (roB : c.stB.readOnly = false) :
    (sendA fp c).docB =
      if (mkBuilder fp c.docA c.stA).chunks != 0 then c.docB.applyChanges (mkBuilder fp c.docA c.stA).changes
      else c.docB :=
  recvDoc_rw c.docB c.stB (mkMessage c.docA c.stA (mkBuilder fp c.docA c.stA)) roB

/-- half-round progress under the weak invariants -/
theorem half_progressW (fp : Hash → Bool) {c : Cfg} (i2 : Inv2 c)
    (nr : resetCond c.docA c.stA = false) (roB : c.stB.readOnly = false) (hab : c.linkAB = [])
    (hf : c.stA.inFlight = false) {nd : List Hash} {hv : List Have}
    (hn : c.stA.theirNeed = some nd) (hh : c.stA.theirHave = some hv) {x : Hash} (hx : x ∈ nd)
    (hxa : x ∈ c.docA.hashes) (hxb : hasB c.docB x = false) :
    halfRound fp c = sendA fp c ∧ hasB (sendA fp c).docB x = true := by
  have hns : x ∉ c.stA.sentHashes := by
    intro hin
    rcases i2.a.sentArrived x hin with h1 | ⟨m, hm, _⟩
    · rw [hxb] at h1; cases h1
    · rw [hab] at hm; cases hm
  obtain ⟨hbh, cx, hcx, hcxh⟩ :=
    mkBuilder_sends_needed fp c.docA c.stA hv nd i2.a.peerRW hh hn hx hxa hns
  have hne : (mkBuilder fp c.docA c.stA).hashes ≠ [] := by
    intro he; rw [he] at hbh; cases hbh
  have hq := quiet_false_of_nonempty (d := c.docA) hf hne
  rcases halfRound_cases fp c hab nr with ⟨hq', _⟩ | ⟨_, he⟩
  · rw [hq] at hq'; cases hq'
  · refine ⟨he, ?_⟩
    have hch := (mkBuilder_carries fp c.docA c.stA x hbh).1
    rw [sendA_docBW fp roB]
    have : ((mkBuilder fp c.docA c.stA).chunks != 0) = true := by simpa using hch
    rw [this, if_pos rfl, ← hcxh]
    exact applyChanges_gets _ _ hcx

/-! ### the second half of a round, after A has sent -/

theorem second_halfW (fp : Hash → Bool) {K : List Change} {c1 : Cfg} (w : WP K c1)
    (hab : c1.linkAB = []) (hba : c1.linkBA = [])
    (hf : c1.stB.inFlight = false) (hth : c1.stB.theirHeads = some c1.docA.heads)
    (nrB : resetCond c1.docB c1.stB = false) :
    (halfRound fp c1.swap = c1.swap ∧ SameSet c1) ∨
    (halfRound fp c1.swap = sendA fp c1.swap ∧ Fresh (sendA fp c1.swap).swap ∧
      (sendA fp c1.swap).swap.stB.theirHeads = some c1.docA.heads) := by
  rcases halfRound_cases fp c1.swap hba nrB with ⟨hq, he⟩ | ⟨_, he⟩
  · left
    refine ⟨he, ?_⟩
    obtain ⟨h1, _, _, _⟩ := quiet_free hq w.sess.b.rw.1 hf
    have h1' : c1.stB.theirHeads = some c1.docB.heads := h1
    rw [hth] at h1'
    have heq : c1.docA.heads = c1.docB.heads := by injection h1'
    apply sameSet_of_mutualW (kinj_of_topo w.topoK) w.oa w.ob
    · intro x hx; rw [heq] at hx; exact Doc.heads_sub_hashes hx
    · intro x hx; rw [← heq] at hx; exact Doc.heads_sub_hashes hx
  · right
    exact ⟨he, fresh_after_sendW fp (c := c1.swap) w.sess.b.rw.2 hab, hth⟩

/-- A's picture of B is fresh and B's picture of A's heads is current -/
def Fresh2 (c : Cfg) : Prop := Fresh c ∧ c.stB.theirHeads = some c.docA.heads

theorem sameSet_of_docs {c c' : Cfg} (h : SameSet c) (ha : c'.docA = c.docA) (hb : c'.docB = c.docB) :
    SameSet c' := by
  intro x; rw [ha, hb]; exact h x

/-! ### phases E and G -/

/-- E and G in one: after a calm round on empty links either both hold the same changes, or A's
    picture of B is fresh — and, if A did send in this round, B's picture of A's heads is current -/
theorem phaseEG_W (fp : Hash → Bool) {K : List Change} {c : Cfg} (w : WP K c) (hab : c.linkAB = [])
    (hba : c.linkBA = []) (cm : Calm fp c) :
    SameSet (round fp c) ∨ (Fresh (round fp c) ∧
      (quiet c.docA c.stA (mkBuilder fp c.docA c.stA) = false →
        (round fp c).stB.theirHeads = some (round fp c).docA.heads)) := by
  have hround : round fp c = (halfRound fp (halfRound fp c).swap).swap := rfl
  rcases halfRound_cases fp c hab cm.nrA with ⟨hqa, he⟩ | ⟨hqa, he⟩
  · -- A is quiet
    have nrB : resetCond c.docB c.stB = false := by have := cm.nrB; rw [he] at this; exact this
    rw [he] at hround
    rcases halfRound_cases fp c.swap hba nrB with ⟨hqb, he2⟩ | ⟨_, he2⟩
    · left
      rw [he2, swap_swap] at hround
      rw [hround]
      have hq : Quiescent fp c :=
        ⟨hab, hba, by rw [generate_quiet cm.nrA hqa], by
          have := generate_quiet (fp := fp) (d := c.docB) (s := c.stB) nrB hqb
          exact congrArg Prod.snd this⟩
      exact sameSet_of_quiescentW (kinj_of_topo w.topoK) w.oa w.ob w.sess hq
    · right
      rw [he2] at hround
      rw [hround]
      refine ⟨fresh_after_sendW fp (c := c.swap) w.sess.b.rw.2 hab, ?_⟩
      intro hq'; rw [hqa] at hq'; cases hq'
  · -- A sends
    have w1 : WP K (sendA fp c) := by rw [← he]; exact w.halfRound fp
    obtain ⟨g1, g2⟩ := sendA_stBW fp (c := c) w.sess.a.rw.2
    have nrB : resetCond (sendA fp c).docB (sendA fp c).stB = false := by
      have := cm.nrB; rw [he] at this; exact this
    rw [he] at hround
    rcases second_halfW fp w1 rfl hba g1 g2 nrB with ⟨he2, hs⟩ | ⟨he2, hfr, hth⟩
    · left
      rw [he2, swap_swap] at hround
      rw [hround]; exact hs
    · right
      have hfA := cm.fA
      rw [he2] at hround
      rw [hround] at hfA ⊢
      refine ⟨hfr, fun _ => ?_⟩
      rw [hth, hfA]
      rfl

end AmVerif.Sync.Prog
