import AmVerif.Proofs.MarksFullQuery
import AmVerif.Proofs.Cursor
/-
  Helper lemmas for C25 ("a failing `mark` appends nothing"), part 2:
  * `insertQuery` succeeds iff `target ≤ rowsWidth` (the width scan without the `done` flag);
  * inserting a fresh zero-width mark op into the op set never lowers `rowsWidth`;
  hence the end anchor of `mark`, resolved once before the begin op is inserted, resolves again
  after the insertion — the error branch that would leave the begin op behind is unreachable.
-/
namespace AmVerif.Crdt
open AmVerif

/-! ### the width scan without the `done` flag -/

abbrev WS := Nat × Option Nat

def wflush (s : WS) : WS :=
  match s.2 with
  | some l => (s.1 + l, none)
  | none => s

def wstep (wf : Op → Nat) (vis : Op → Bool) (s : WS) (op : Op) : WS :=
  if op.isInc then s else
  let s := if op.insert then wflush s else s
  if vis op && !op.isMark then (s.1, some (wf op)) else s

def wtot (s : WS) : Nat := (wflush s).1

/-- total width of the visible elements as `InsertQuery` counts it -/
def rowsWidth (wf : Op → Nat) (vis : Op → Bool) (rows : List Op) : Nat := wtot (rows.foldl (wstep wf vis) (0, none))

theorem wflush_fst_le (s : WS) : s.1 ≤ (wflush s).1 := by
  unfold wflush; cases s.2 <;> simp

theorem wstep_fst_le (wf : Op → Nat) (vis : Op → Bool) (s : WS) (op : Op) : s.1 ≤ (wstep wf vis s op).1 := by
  unfold wstep
  by_cases hi : op.isInc = true
  · simp [hi]
  · simp only [hi, Bool.false_eq_true, if_false]
    by_cases hins : op.insert = true
    · simp only [hins, if_true]
      by_cases hv : (vis op && !op.isMark) = true
      · simp only [hv, if_true]; exact wflush_fst_le s
      · simp only [hv, Bool.false_eq_true, if_false]; exact wflush_fst_le s
    · simp only [hins, Bool.false_eq_true, if_false]
      by_cases hv : (vis op && !op.isMark) = true
      · simp only [hv, if_true]; exact Nat.le_refl _
      · simp only [hv, Bool.false_eq_true, if_false]; exact Nat.le_refl _

theorem wfold_fst_le (wf : Op → Nat) (vis : Op → Bool) (rows : List Op) : ∀ s : WS, s.1 ≤ (rows.foldl (wstep wf vis) s).1 := by
  induction rows with
  | nil => intro s; exact Nat.le_refl _
  | cons r rest ih => intro s; exact Nat.le_trans (wstep_fst_le wf vis s r) (ih _)

/-- the `done` flag is a function of (index, lastWidth) as long as a width is pending or was just flushed -/
def WState.I (target : Nat) (s : WState) : Prop :=
  match s.2.1 with
  | none => s.2.2 = decide (s.1 ≥ target)
  | some _ => s.2.2 = false

theorem WState.I_done {target : Nat} {s : WState} (h : WState.I target s) (hd : s.2.2 = true) :
    s.2.1 = none ∧ target ≤ s.1 := by
  obtain ⟨idx, lw, dn⟩ := s
  cases lw with
  | none =>
    simp only [WState.I] at h hd
    rw [hd] at h
    exact ⟨rfl, by simpa using h.symm⟩
  | some l =>
    simp only [WState.I] at h hd
    rw [hd] at h; cases h

theorem aflush_I (target : Nat) (s : WState) (h : WState.I target s) : WState.I target (aflush target s) := by
  obtain ⟨idx, lw, dn⟩ := s
  cases lw with
  | none => exact h
  | some l => simp [aflush, WState.I]

theorem astep_done (wf : Op → Nat) (vis : Op → Bool) (target : Nat) (s : WState) (op : Op)
    (h : WState.I target s) (hd : s.2.2 = true) : astep wf vis target s op = s := by
  have hl := (WState.I_done h hd).1
  obtain ⟨idx, lw, dn⟩ := s
  simp only at hl hd
  subst hl; subst hd
  unfold astep aflush
  by_cases hi : op.isInc = true
  · simp [hi]
  · by_cases hins : op.insert = true <;> simp [hi, hins]

theorem astep_I (wf : Op → Nat) (vis : Op → Bool) (target : Nat) (s : WState) (op : Op)
    (h : WState.I target s) : WState.I target (astep wf vis target s op) := by
  by_cases hd : s.2.2 = true
  · rw [astep_done wf vis target s op h hd]; exact h
  · unfold astep
    by_cases hi : op.isInc = true
    · simp only [hi, if_true]; exact h
    · simp only [hi, Bool.false_eq_true, if_false]
      have h1 : WState.I target (if op.insert = true then aflush target s else s) := by
        by_cases hins : op.insert = true
        · simp only [hins, if_true]; exact aflush_I target s h
        · simp only [hins, Bool.false_eq_true, if_false]; exact h
      generalize (if op.insert = true then aflush target s else s) = s1 at h1
      by_cases hd1 : s1.2.2 = true
      · simp only [hd1, if_true]; exact h1
      · simp only [hd1, Bool.false_eq_true, if_false]
        by_cases hv : (vis op && !op.isMark) = true
        · simp only [hv, if_true]
          simp [WState.I]
        · simp only [hv, Bool.false_eq_true, if_false]; exact h1

/-- one row, scan not yet done: either it stays not done and (index, lastWidth) follow `wstep`, or the flush
    reached the target -/
theorem astep_wstep (wf : Op → Nat) (vis : Op → Bool) (target : Nat) (s : WState) (op : Op) (hd : s.2.2 = false) :
    ((astep wf vis target s op).2.2 = false →
        wstep wf vis (s.1, s.2.1) op = ((astep wf vis target s op).1, (astep wf vis target s op).2.1)) ∧
    ((astep wf vis target s op).2.2 = true → target ≤ (wstep wf vis (s.1, s.2.1) op).1) := by
  obtain ⟨idx, lw, dn⟩ := s
  simp only at hd
  subst hd
  unfold astep wstep aflush wflush
  by_cases hi : op.isInc = true
  · simp [hi]
  · by_cases hins : op.insert = true
    · cases lw with
      | none =>
        by_cases hv : (vis op && !op.isMark) = true <;> simp [hi, hins, hv]
      | some l =>
        by_cases hge : idx + l ≥ target
        · by_cases hv : (vis op && !op.isMark) = true <;> simp [hi, hins, hv, hge]
        · by_cases hv : (vis op && !op.isMark) = true <;> simp [hi, hins, hv, hge]
    · by_cases hv : (vis op && !op.isMark) = true <;> simp [hi, hins, hv]

/-- the scan with the flag ends `done` exactly when the target does not exceed the total width -/
theorem afold_done (wf : Op → Nat) (vis : Op → Bool) (target : Nat) (rows : List Op) :
    ∀ (s : WState) (u : WS), WState.I target s →
      (s.2.2 = false → u = (s.1, s.2.1)) → (s.2.2 = true → target ≤ u.1) →
      (aflush target (rows.foldl (astep wf vis target) s)).2.2 = decide (target ≤ wtot (rows.foldl (wstep wf vis) u)) := by
  induction rows with
  | nil =>
    intro s u hI h0 h1
    simp only [List.foldl_nil]
    by_cases hd : s.2.2 = true
    · have hl := (WState.I_done hI hd).1
      have : aflush target s = s := by
        obtain ⟨idx, lw, dn⟩ := s
        simp only at hl; subst hl; rfl
      rw [this, hd]
      have h2 := h1 hd
      have h3 := wflush_fst_le u
      have : target ≤ wtot u := by unfold wtot; omega
      simp [this]
    · have hd' : s.2.2 = false := by simpa using hd
      rw [h0 hd']
      obtain ⟨idx, lw, dn⟩ := s
      simp only at hd'
      subst hd'
      cases lw with
      | some l =>
        simp only [aflush, wtot, wflush]
        exact decide_eq_decide.mpr Iff.rfl
      | none =>
        simp only [WState.I] at hI
        simp only [aflush, wtot, wflush]
        rw [hI]
        exact decide_eq_decide.mpr Iff.rfl
  | cons r rest ih =>
    intro s u hI h0 h1
    simp only [List.foldl_cons]
    by_cases hd : s.2.2 = true
    · rw [astep_done wf vis target s r hI hd]
      apply ih s _ hI
      · intro hf; rw [hd] at hf; cases hf
      · intro _; exact Nat.le_trans (h1 hd) (wstep_fst_le wf vis u r)
    · have hd' : s.2.2 = false := by simpa using hd
      rw [h0 hd']
      obtain ⟨ha, hb⟩ := astep_wstep wf vis target s r hd'
      exact ih _ _ (astep_I wf vis target s r hI) ha hb

/-! ### membership: every row is an op of the set; its cursor names an existing element -/

theorem mem_objRows {ops : List Op} {obj : ObjId} {r : Op} (h : r ∈ objRows ops obj) :
    r ∈ ops ∧ GoodKey ops r.cursorKey := by
  unfold objRows at h
  obtain ⟨e, he, hr⟩ := List.mem_flatMap.mp h
  have hem : e ∈ ops ∧ e.obj = obj ∧ e.insert = true := mem_rgaFrom he
  rcases List.mem_cons.mp hr with hr | hr
  · rw [hr]
    refine ⟨hem.1, ?_⟩
    intro x hx
    simp only [Op.cursorKey, hem.2.2, if_true] at hx
    injection hx with hx
    exact ⟨e, hem.1, hx⟩
  · unfold updateRows at hr
    have hm := mem_sortById.mp hr
    simp only [List.mem_filter, Bool.and_eq_true, beq_iff_eq, Bool.not_eq_true'] at hm
    obtain ⟨hm1, ⟨⟨_, hni⟩, hk⟩, _⟩ := hm
    refine ⟨hm1, ?_⟩
    intro x hx
    simp only [Op.cursorKey, hni, Bool.false_eq_true, if_false] at hx
    rw [hk] at hx
    injection hx with hx
    exact ⟨e, hem.1, hx⟩

/-- `insertQuery` succeeds iff the target does not exceed the total width; its key names HEAD or an existing op -/
theorem insertQuery_ok_iff (wf : Op → Nat) (ops : List Op) (obj : ObjId) (target : Nat) :
    (insertQuery wf ops obj target).isOk = decide (target ≤ rowsWidth wf (rowVisible ops) (objRows ops obj)) ∧
    ∀ r, insertQuery wf ops obj target = .ok r → GoodKey ops r.key := by
  rw [insertQuery_eq]
  have hq0 : IQ.Inv ops { candidates := if target == 0 then [⟨.head, 0, none⟩] else [], done := decide (0 ≥ target) } := by
    refine ⟨fun _ => rfl, (fun h => by cases h), (fun w h => by cases h), ?_, ?_, ?_, (fun c h => by cases h)⟩
    · intro hd
      left
      have : target = 0 := by simpa using hd
      simp [this]
    · intro c hc
      by_cases ht : (target == 0) = true
      · simp only [ht, if_true] at hc
        simp at hc
        rw [← hc]
      · simp only [ht, Bool.false_eq_true, if_false] at hc
        simp at hc
    · intro c hc
      by_cases ht : (target == 0) = true
      · simp only [ht, if_true] at hc
        have : c = ⟨.head, 0, none⟩ := by simpa using hc
        rw [this]
        intro e he; cases he
      · simp only [ht, Bool.false_eq_true, if_false] at hc
        cases hc
  obtain ⟨hproj, hinv⟩ := IQ.foldl_spec wf target (objRows ops obj) (fun r hr => (mem_objRows hr).2) 0 _ hq0
  obtain ⟨hok, hkey⟩ := IQ.finish_spec hinv target
  refine ⟨?_, hkey⟩
  rw [hok, hproj]
  have := afold_done wf (rowVisible ops) target (objRows ops obj) (0, none, decide (0 ≥ target)) (0, none)
    (by simp [WState.I]) (fun _ => rfl) (fun h => by simpa using h)
  exact this

/-! ### one more zero-width insert op never lowers the total width -/

/-- `s'` is at least as far as `s` -/
def WS.Ge (s' s : WS) : Prop :=
  (s'.2 = s.2 ∧ s.1 ≤ s'.1) ∨ (s'.2 = none ∧ ∃ l, s.2 = some l ∧ s.1 + l ≤ s'.1)

theorem wflush_ge {s' s : WS} (h : WS.Ge s' s) : WS.Ge (wflush s') (wflush s) := by
  obtain ⟨i', l'⟩ := s'
  obtain ⟨i, l⟩ := s
  unfold WS.Ge at h ⊢
  simp only at h
  rcases h with ⟨h1, h2⟩ | ⟨h1, l0, h2, h3⟩
  · subst h1
    cases l' with
    | none => left; exact ⟨rfl, h2⟩
    | some l0 => left; simp [wflush] <;> omega
  · subst h1; subst h2
    left; simp [wflush] <;> omega

theorem wstep_ge (wf : Op → Nat) {vis' vis : Op → Bool} {s' s : WS} (op : Op) (hv : vis' op = vis op) (h : WS.Ge s' s) :
    WS.Ge (wstep wf vis' s' op) (wstep wf vis s op) := by
  unfold wstep
  rw [hv]
  by_cases hi : op.isInc = true
  · simp only [hi, if_true]; exact h
  · simp only [hi, Bool.false_eq_true, if_false]
    have h1 : WS.Ge (if op.insert = true then wflush s' else s') (if op.insert = true then wflush s else s) := by
      by_cases hins : op.insert = true
      · simp only [hins, if_true]; exact wflush_ge h
      · simp only [hins, Bool.false_eq_true, if_false]; exact h
    generalize (if op.insert = true then wflush s' else s') = t' at h1
    generalize (if op.insert = true then wflush s else s) = t at h1
    by_cases hw : (vis op && !op.isMark) = true
    · simp only [hw, if_true]
      left
      refine ⟨rfl, ?_⟩
      rcases h1 with ⟨_, h2⟩ | ⟨_, l, _, h3⟩
      · exact h2
      · simp only; omega
    · simp only [hw, Bool.false_eq_true, if_false]; exact h1

/-- an extra insert row that is a mark op only flushes -/
theorem wstep_extra (wf : Op → Nat) (vis' : Op → Bool) {s' s : WS} (b : Op) (hi : b.isInc = false) (hins : b.insert = true)
    (hm : b.isMark = true) (h : WS.Ge s' s) : WS.Ge (wstep wf vis' s' b) s := by
  unfold wstep
  simp only [hi, Bool.false_eq_true, if_false, hins, if_true, hm, Bool.not_true, Bool.and_false]
  obtain ⟨i', l'⟩ := s'
  obtain ⟨i, l⟩ := s
  unfold WS.Ge at h ⊢
  simp only at h
  rcases h with ⟨h1, h2⟩ | ⟨h1, l0, h2, h3⟩
  · subst h1
    cases l' with
    | none => left; exact ⟨rfl, h2⟩
    | some l0 => right; simp [wflush] <;> omega
  · subst h1; subst h2
    right; exact ⟨rfl, l0, rfl, h3⟩

theorem wtot_ge {s' s : WS} (h : WS.Ge s' s) : wtot s ≤ wtot s' := by
  obtain ⟨i', l'⟩ := s'
  obtain ⟨i, l⟩ := s
  unfold WS.Ge at h
  simp only at h
  unfold wtot wflush
  rcases h with ⟨h1, h2⟩ | ⟨h1, l0, h2, h3⟩
  · subst h1
    cases l' <;> simp only <;> omega
  · subst h1; subst h2; simp only; exact h3

/-- `rows'` is `rows` with copies of `b` put in -/
inductive RowsIns (b : Op) : List Op → List Op → Prop where
  | nil : RowsIns b [] []
  | cons (x : Op) {r' r : List Op} : RowsIns b r' r → RowsIns b (x :: r') (x :: r)
  | add {r' r : List Op} : RowsIns b r' r → RowsIns b (b :: r') r

theorem RowsIns.refl (b : Op) : ∀ r : List Op, RowsIns b r r
  | [] => .nil
  | x :: xs => .cons x (RowsIns.refl b xs)

theorem RowsIns.append_left (b : Op) (g : List Op) {r' r : List Op} (h : RowsIns b r' r) : RowsIns b (g ++ r') (g ++ r) := by
  induction g with
  | nil => exact h
  | cons x xs ih => exact .cons x ih

theorem wfold_rowsIns (wf : Op → Nat) {vis' vis : Op → Bool} {b : Op} (hi : b.isInc = false) (hins : b.insert = true)
    (hm : b.isMark = true) {rows' rows : List Op} (h : RowsIns b rows' rows) (hv : ∀ x ∈ rows, vis' x = vis x) :
    ∀ {s' s : WS}, WS.Ge s' s → WS.Ge (rows'.foldl (wstep wf vis') s') (rows.foldl (wstep wf vis) s) := by
  induction h with
  | nil => intro s' s hs; exact hs
  | cons x _ ih =>
    intro s' s hs
    simp only [List.foldl_cons]
    exact ih (fun y hy => hv y (List.mem_cons_of_mem _ hy)) (wstep_ge wf x (hv x (by simp)) hs)
  | add _ ih =>
    intro s' s hs
    simp only [List.foldl_cons]
    exact ih hv (wstep_extra wf vis' _ hi hins hm hs)

/-! ### the rows after a fresh mark op was appended to the op set -/

theorem updateRows_append_insert (ops : List Op) (b : Op) (hins : b.insert = true) (obj : ObjId) (e : OpId) :
    updateRows (ops ++ [b]) obj e = updateRows ops obj e := by
  unfold updateRows
  rw [filter_append_singleton]
  simp [hins]

theorem rowsOf_nil (ops : List Op) (obj : ObjId) : rowsOf ops obj [] = [] := rfl

theorem rowsOf_cons (ops : List Op) (obj : ObjId) (c : Op) (l : List Op) :
    rowsOf ops obj (c :: l) = (c :: updateRows ops obj c.id) ++ rowsOf ops obj l := by
  simp [rowsOf]

theorem rowsOf_append (ops : List Op) (obj : ObjId) (l₁ l₂ : List Op) :
    rowsOf ops obj (l₁ ++ l₂) = rowsOf ops obj l₁ ++ rowsOf ops obj l₂ := by
  simp [rowsOf]

theorem rowsOf_insAfter (ops : List Op) (b : Op) (hins : b.insert = true) (obj : ObjId)
    (hb : updateRows ops obj b.id = []) :
    ∀ R : List Op, RowsIns b (rowsOf (ops ++ [b]) obj (insAfter b.key b R)) (rowsOf ops obj R) := by
  intro R
  induction R with
  | nil => exact .nil
  | cons c rest ih =>
    rw [insAfter_cons, rowsOf_cons, rowsOf_cons, updateRows_append_insert ops b hins]
    apply RowsIns.append_left
    by_cases hk : Key.elem c.id = b.key
    · rw [if_pos hk, rowsOf_append, rowsOf_cons, rowsOf_nil, updateRows_append_insert ops b hins, hb]
      exact .add ih
    · rw [if_neg hk, List.nil_append]
      exact ih

theorem rowVisible_append_nopred (ops : List Op) (b x : Op) (hb : b.pred = []) :
    rowVisible (ops ++ [b]) x = rowVisible ops x := by
  unfold rowVisible
  rw [overwritten_append]
  simp [overwrites, hb]

/-- every op keyed on an element is younger than that element (decidable form) -/
def RefsOlder (ops : List Op) : Prop :=
  ∀ x ∈ ops, (match x.key with | .elem e => e.lt x.id | _ => true) = true

instance (ops : List Op) : Decidable (RefsOlder ops) := by
  unfold RefsOlder; infer_instance

theorem RefsOlder.lt {ops : List Op} (h : RefsOlder ops) : ∀ x ∈ ops, ∀ e, x.key = .elem e → e.lt x.id = true := by
  intro x hx e hk
  have := h x hx
  rw [hk] at this
  exact this

/-- After a fresh insert op that is a mark op (greatest id, no predecessors, keyed on HEAD or an existing
    element) is appended, the total width the insert query sees does not shrink. -/
theorem rowsWidth_append_mark (wf : Op → Nat) {ops : List Op} {b : Op}
    (hfresh : ∀ x ∈ ops, x.id.lt b.id = true)
    (hrefs : ∀ x ∈ ops, ∀ e, x.key = .elem e → e.lt x.id = true)
    (hins : b.insert = true) (hm : b.isMark = true) (hpred : b.pred = []) (hkey : GoodKey ops b.key) :
    rowsWidth wf (rowVisible ops) (objRows ops b.obj) ≤
      rowsWidth wf (rowVisible (ops ++ [b])) (objRows (ops ++ [b]) b.obj) := by
  have hr : RefsSmaller ops := by
    intro o ho _
    cases hk : o.key with
    | elem e => exact hrefs o ho e hk
    | head => rfl
    | map k => rfl
  have hr' : RefsSmaller (ops ++ [b]) := by
    apply refsSmaller_append hr
    intro _
    cases hk : b.key with
    | elem e =>
      obtain ⟨x, hx, he⟩ := hkey e hk
      simp only
      rw [← he]; exact hfresh x hx
    | head => rfl
    | map k => rfl
  have hinc : b.isInc = false := by
    cases ha : b.action <;> simp_all [Op.isMark, Op.isInc]
  -- no op of `ops` is keyed on the new id
  have hupd : updateRows ops b.obj b.id = [] := by
    unfold updateRows
    have : ops.filter (fun o => o.obj == b.obj && !o.insert && o.key == .elem b.id && !o.isDel) = [] := by
      apply List.filter_eq_nil_iff.mpr
      intro x hx hc
      simp only [Bool.and_eq_true, beq_iff_eq] at hc
      have h1 := hrefs x hx b.id hc.1.2
      exact OpId.lt_asymm h1 (hfresh x hx)
    rw [this]; rfl
  have hrows : RowsIns b (objRows (ops ++ [b]) b.obj) (objRows ops b.obj) := by
    rw [objRows_eq, objRows_eq, rgaOrder_insert hfresh hr hr' hins]
    have hmain := rowsOf_insAfter ops b hins b.obj hupd (rgaOrder ops b.obj)
    by_cases hk : b.key = .head
    · simp only [hk, if_true]
      have : rowsOf (ops ++ [b]) b.obj ([b] ++ insAfter Key.head b (rgaOrder ops b.obj))
          = b :: rowsOf (ops ++ [b]) b.obj (insAfter Key.head b (rgaOrder ops b.obj)) := by
        rw [rowsOf_append, rowsOf_cons, rowsOf_nil, updateRows_append_insert ops b hins, hupd]
        rfl
      rw [this]
      rw [hk] at hmain
      exact .add hmain
    · simp only [hk, if_false, List.nil_append]
      exact hmain
  unfold rowsWidth
  apply wtot_ge
  exact wfold_rowsIns wf hinc hins hm hrows (fun x _ => rowVisible_append_nopred ops b x hpred) (Or.inl ⟨rfl, Nat.le_refl _⟩)

end AmVerif.Crdt
