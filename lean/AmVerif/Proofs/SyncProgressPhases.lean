import AmVerif.Proofs.SyncProgressRound
/-
  Progress half of C20, part 6: the four phase lemmas.
    E  links empty                         ⟹ after a round: same changes ∨ Fresh
    G  Fresh                               ⟹ after a round: same changes ∨ (Fresh ∧ Cover)
    P  Fresh ∧ Cover ∧ not same changes    ⟹ a round strictly decreases the measure
    Q  same changes ∧ links empty          ⟹ after a round the configuration is quiescent
  All for an arbitrary false-positive oracle `fp`.
-/
namespace AmVerif.Sync.Prog
open AmVerif AmVerif.Sync

/-- B's picture of A's heads is recent enough: if B has those heads it has everything A has -/
def Cover (c : Cfg) : Prop :=
  ∃ H, c.stB.theirHeads = some H ∧
    ((∀ h ∈ H, h ∈ c.docB.hashes) → ∀ x ∈ c.docA.applied, x ∈ c.docB.applied)

theorem sameSet_of_heads_eq {c : Cfg} (inv : Inv c) (h : c.docA.heads = c.docB.heads) : SameSet c := by
  refine (converged_of_mutual inv ?_ ?_).2
  · intro x hx; rw [h] at hx; exact Doc.heads_sub_hashes hx
  · intro x hx; rw [← h] at hx; exact Doc.heads_sub_hashes hx

/-- what `quiet` means for a read-write peer that is not waiting for an acknowledgement -/
theorem quiet_free {d : Doc} {s : State} {b : Builder} (hq : quiet d s b = true)
    (hro : s.readOnly = false) (hf : s.inFlight = false) :
    s.theirHeads = some d.heads ∧ s.lastSentHeads = d.heads ∧ s.haveResponded = true ∧
      b.hashes = [] := by
  unfold quiet at hq
  simp only [hro, hf, Bool.or_false, Bool.and_eq_true, beq_iff_eq, List.isEmpty_iff] at hq
  exact ⟨hq.2.1, hq.1.1, hq.1.2, hq.2.2⟩

theorem quiet_basic {d : Doc} {s : State} {b : Builder} (hq : quiet d s b = true) :
    s.lastSentHeads = d.heads ∧ s.haveResponded = true := by
  unfold quiet at hq
  simp only [Bool.and_eq_true, beq_iff_eq] at hq
  exact ⟨hq.1.1, hq.1.2⟩

theorem swap_swap (c : Cfg) : c.swap.swap = c := rfl

/-! ### the second half of a round, after A has sent -/

theorem second_half (fp : Hash → Bool) {c1 : Cfg} (hr : Good c1)
    (hab : c1.linkAB = []) (hba : c1.linkBA = [])
    (hf : c1.stB.inFlight = false) (hth : c1.stB.theirHeads = some c1.docA.heads) :
    SameSet (halfRound fp c1.swap).swap ∨
    (halfRound fp c1.swap = sendA fp c1.swap ∧ Fresh (sendA fp c1.swap).swap ∧
      Cover (sendA fp c1.swap).swap) := by
  have inv := hr.inv
  rcases halfRound_cases fp c1.swap hba (resetA_false inv.swap) with ⟨hq, he⟩ | ⟨_, he⟩
  · left
    rw [he, swap_swap]
    obtain ⟨h1, _, _, _⟩ := quiet_free hq inv.b.rw.1 hf
    have h1' : c1.stB.theirHeads = some c1.docB.heads := h1
    rw [hth] at h1'
    exact sameSet_of_heads_eq inv (by injection h1')
  · right
    refine ⟨he, fresh_after_send fp inv.swap hab, ?_⟩
    refine ⟨c1.docA.heads, hth, ?_⟩
    intro hH x hx
    -- `(sendA fp c1.swap).swap`: docA = A's document after the receive, docB = B's document
    have hsubAB : ∀ y ∈ c1.docA.applied, y ∈ c1.docB.applied := changes_sub_of_heads inv hH
    obtain ⟨_, _, s2, _⟩ := recvDoc_spec c1.docA
      (recvFlags { c1.stA with inFlight := false }
        (mkMessage c1.docB c1.stB (mkBuilder fp c1.docB c1.stB)).flags)
      (mkMessage c1.docB c1.stB (mkBuilder fp c1.docB c1.stB)) inv.a.wf
    have hx' : x ∈ (recvDoc c1.docA (recvFlags { c1.stA with inFlight := false }
        (mkMessage c1.docB c1.stB (mkBuilder fp c1.docB c1.stB)).flags)
        (mkMessage c1.docB c1.stB (mkBuilder fp c1.docB c1.stB))).applied := hx
    show x ∈ c1.docB.applied
    rcases s2 x hx' with h1 | h1 | h1
    · exact hsubAB x h1
    · exact inv.a.queue x h1
    · rcases (mkBuilder_spec fp c1.docB c1.stB).2 x h1 with h2 | h2
      · exact h2
      · exact hsubAB x (inv.b.queue x h2)

/-- the state of B after A has sent on an empty link -/
theorem sendA_stB (fp : Hash → Bool) {c : Cfg} (inv : Inv c) :
    (sendA fp c).stB.inFlight = false ∧ (sendA fp c).stB.theirHeads = some (sendA fp c).docA.heads := by
  obtain ⟨f1, f2, _⟩ := recvState_fields c.docB c.stB
    (mkMessage c.docA c.stA (mkBuilder fp c.docA c.stA))
  refine ⟨f1, ?_⟩
  show (recvState c.docB c.stB _).theirHeads = some c.docA.heads
  rw [f2, mkMessage_heads inv.a.rw.2]

/-! ### phase G -/

theorem phase_G (fp : Hash → Bool) {c : Cfg} (hr : Good c) (hfr : Fresh c) :
    SameSet (round fp c) ∨ (Fresh (round fp c) ∧ Cover (round fp c)) := by
  have inv := hr.inv
  rcases halfRound_cases fp c hfr.linkAB (resetA_false inv) with ⟨hq, _⟩ | ⟨_, he⟩
  · left
    obtain ⟨h1, _, _, _⟩ := quiet_free hq inv.a.rw.1 hfr.flight
    rw [hfr.theirHeads] at h1
    have : SameSet c := sameSet_of_heads_eq inv (by injection h1 with h1; exact h1.symm)
    exact this.round (fp := fp) hr
  · have hr1 : Good (sendA fp c) := by rw [← he]; exact (hr.halfRound fp)
    obtain ⟨g1, g2⟩ := sendA_stB fp inv
    show SameSet (halfRound fp (halfRound fp c).swap).swap ∨
      (Fresh (halfRound fp (halfRound fp c).swap).swap ∧ Cover (halfRound fp (halfRound fp c).swap).swap)
    rw [he]
    rcases second_half fp hr1 rfl hfr.linkBA g1 g2 with h | ⟨h1, h2, h3⟩
    · left; exact h
    · right; rw [h1]; exact ⟨h2, h3⟩

/-! ### phase E -/

theorem phase_E (fp : Hash → Bool) {c : Cfg} (hr : Good c) (hab : c.linkAB = [])
    (hba : c.linkBA = []) : SameSet (round fp c) ∨ Fresh (round fp c) := by
  have inv := hr.inv
  show SameSet (halfRound fp (halfRound fp c).swap).swap ∨ Fresh (halfRound fp (halfRound fp c).swap).swap
  rcases halfRound_cases fp c hab (resetA_false inv) with ⟨hqa, he⟩ | ⟨_, he⟩
  · rw [he]
    rcases halfRound_cases fp c.swap hba (resetA_false inv.swap) with ⟨hqb, he2⟩ | ⟨_, he2⟩
    · left
      rw [he2, swap_swap]
      have hq : Quiescent fp c :=
        ⟨hab, hba, by rw [generate_quiet (resetA_false inv) hqa], by
          have := generate_quiet (fp := fp) (resetA_false inv.swap) hqb
          exact congrArg Prod.snd this⟩
      exact (converged_of_quiescent inv hq).2
    · right
      rw [he2]
      exact fresh_after_send fp inv.swap hab
  · have hr1 : Good (sendA fp c) := by rw [← he]; exact (hr.halfRound fp)
    obtain ⟨g1, g2⟩ := sendA_stB fp inv
    rw [he]
    rcases second_half fp hr1 rfl hba g1 g2 with h | ⟨h1, h2, _⟩
    · left; exact h
    · right; rw [h1]; exact h2

/-! ### phase P: progress -/

/-- half-round progress: A knows that B needs `x`, has it, and B has not received it: A sends and
    `x` arrives at B -/
theorem half_progress (fp : Hash → Bool) {c : Cfg} (hr : Good c) (hab : c.linkAB = [])
    (hf : c.stA.inFlight = false) {nd : List Hash} {hv : List Have}
    (hn : c.stA.theirNeed = some nd) (hh : c.stA.theirHave = some hv) {x : Hash} (hx : x ∈ nd)
    (hxa : x ∈ c.docA.hashes) (hxb : hasB c.docB x = false) {u : List Hash} (hu : x ∈ u) :
    halfRound fp c = sendA fp c ∧ lacking u (sendA fp c).docB < lacking u c.docB := by
  have inv := hr.inv
  have i2 := hr.inv2
  have hns : x ∉ c.stA.sentHashes := by
    intro hin
    rcases i2.a.sentArrived x hin with h1 | ⟨m, hm, _⟩
    · rw [hxb] at h1; cases h1
    · rw [hab] at hm; cases hm
  obtain ⟨hbh, cx, hcx, hcxh⟩ :=
    mkBuilder_sends_needed fp c.docA c.stA hv nd i2.a.peerRW hh hn hx hxa hns
  have hne : (mkBuilder fp c.docA c.stA).hashes ≠ [] := by
    intro he; rw [he] at hbh; cases hbh
  have hq := quiet_false_of_nonempty (d := c.docA) hf hne
  rcases halfRound_cases fp c hab (resetA_false inv) with ⟨hq', _⟩ | ⟨_, he⟩
  · rw [hq] at hq'; cases hq'
  · refine ⟨he, ?_⟩
    have hch := (mkBuilder_carries fp c.docA c.stA x hbh).1
    rw [sendA_docB fp inv]
    have : ((mkBuilder fp c.docA c.stA).chunks != 0) = true := by simpa using hch
    rw [this, if_pos rfl]
    apply lacking_lt (fun y hy => applyChanges_has _ _ hy) hu hxb
    rw [← hcxh]
    exact applyChanges_gets _ _ hcx

theorem ourNeed_rw {d : Doc} {s : State} (h : s.readOnly = false) :
    ourNeed d s = d.missingDepsFrom (s.theirHeads.getD []) := by
  unfold ourNeed; simp [h]

theorem phase_P (fp : Hash → Bool) {c : Cfg} (hr : Good c) (hfr : Fresh c) (hcov : Cover c)
    {u : List Hash} (hu : Univ u c) (hns : ¬ SameSet c) : miss u (round fp c) < miss u c := by
  have inv := hr.inv
  have i2 := hr.inv2
  obtain ⟨H, hH, hcover⟩ := hcov
  have hndB : ourNeed c.docB c.stB = c.docB.missingDepsFrom H := by
    rw [ourNeed_rw (d := c.docB) (s := c.stB) inv.b.rw.1, hH]; rfl
  -- what a second half round does to the measure
  have second_le : ∀ c1 : Cfg, Good c1 →
      lacking u (halfRound fp c1.swap).swap.docA ≤ lacking u c1.docA ∧
      (halfRound fp c1.swap).swap.docB = c1.docB := by
    intro c1 hr1
    have g := halfRound_grows (fp := fp) hr1.swap
    exact ⟨lacking_mono g.has, g.docA⟩
  cases hnd : ourNeed c.docB c.stB with
  | cons x rest =>
    -- B asked for `x`: A sends it in the first half
    have hxin : x ∈ c.docB.missingDepsFrom H := by rw [← hndB, hnd]; simp
    obtain ⟨hxa, hxb⟩ := missingDepsFrom_sound c.docB (fun h => h ∈ c.docA.hashes) H
      (fun q hq h hh => Topo.deps_mem _ inv.a.wf.topo q (inv.b.queue q hq) h hh)
      (fun h hh => inv.b.theirHeads H hH h hh) hxin
    obtain ⟨he, hlt⟩ := half_progress fp hr hfr.linkAB hfr.flight hfr.theirNeed hfr.theirHave
      (by rw [hnd]; simp) hxa hxb (hu x (Or.inl hxa))
    have hr1 : Good (sendA fp c) := by rw [← he]; exact (hr.halfRound fp)
    obtain ⟨s1, s2⟩ := second_le (sendA fp c) hr1
    show lacking u (halfRound fp (halfRound fp c).swap).swap.docA +
      lacking u (halfRound fp (halfRound fp c).swap).swap.docB < lacking u c.docA + lacking u c.docB
    rw [he, s2]
    have : (sendA fp c).docA = c.docA := rfl
    rw [this] at s1
    omega
  | nil =>
    -- B needs nothing: it has everything A has; so A lacks something and asks for it
    have hHB : ∀ h ∈ H, h ∈ c.docB.hashes :=
      applied_of_missing_nil c.docB c.docA.applied H inv.b.wf.qnodup inv.a.wf.topo inv.b.queue
        i2.b.stuck (by rw [← hndB]; exact hnd)
    have hAB : ∀ x ∈ c.docA.applied, x ∈ c.docB.applied := hcover hHB
    have hndA : ourNeed c.docA c.stA = c.docA.missingDepsFrom c.docB.heads := by
      rw [ourNeed_rw (d := c.docA) (s := c.stA) inv.a.rw.1, hfr.theirHeads]; rfl
    have hheadsNe : c.docA.heads ≠ c.docB.heads := fun e => hns (sameSet_of_heads_eq inv e)
    cases hndA' : ourNeed c.docA c.stA with
    | nil =>
      exfalso
      have hBA : ∀ h ∈ c.docB.heads, h ∈ c.docA.hashes :=
        applied_of_missing_nil c.docA c.docB.applied c.docB.heads inv.a.wf.qnodup inv.b.wf.topo
          inv.a.queue i2.a.stuck (by rw [← hndA]; exact hndA')
      have := changes_sub_of_heads inv.swap hBA
      exact hns (fun x => ⟨hAB x, this x⟩)
    | cons x rest =>
      have hxin : x ∈ c.docA.missingDepsFrom c.docB.heads := by rw [← hndA, hndA']; simp
      obtain ⟨hxb, hxa⟩ := missingDepsFrom_sound c.docA (fun h => h ∈ c.docB.hashes) c.docB.heads
        (fun q hq h hh => Topo.deps_mem _ inv.b.wf.topo q (inv.a.queue q hq) h hh)
        (fun h hh => Doc.heads_sub_hashes hh) hxin
      -- A is not quiet: its heads differ from B's
      rcases halfRound_cases fp c hfr.linkAB (resetA_false inv) with ⟨hq, _⟩ | ⟨_, he⟩
      · exfalso
        obtain ⟨h1, _, _, _⟩ := quiet_free hq inv.a.rw.1 hfr.flight
        rw [hfr.theirHeads] at h1
        exact hheadsNe (by injection h1 with h1; exact h1.symm)
      · have hr1 : Good (sendA fp c) := by rw [← he]; exact (hr.halfRound fp)
        have g1 := halfRound_grows (fp := fp) hr
        rw [he] at g1
        obtain ⟨f1, _, f3, f4, _⟩ := recvState_fields c.docB c.stB
          (mkMessage c.docA c.stA (mkBuilder fp c.docA c.stA))
        have hneedB : (sendA fp c).swap.stA.theirNeed = some (ourNeed c.docA c.stA) := f4
        have hhaveB : (sendA fp c).swap.stA.theirHave = some (ourHave c.docA c.stA) := f3
        have hxB' : x ∈ (sendA fp c).swap.docA.hashes := by
          obtain ⟨y, hy, hyh⟩ := Doc.mem_hashes.mp hxb
          exact Doc.mem_hashes.mpr ⟨y, g1.sub y hy, hyh⟩
        obtain ⟨he2, hlt⟩ := half_progress fp hr1.swap (c := (sendA fp c).swap) hfr.linkBA f1
          hneedB hhaveB (by rw [hndA']; simp) hxB' hxa (hu x (Or.inr hxb))
        show lacking u (halfRound fp (halfRound fp c).swap).swap.docA +
          lacking u (halfRound fp (halfRound fp c).swap).swap.docB < lacking u c.docA + lacking u c.docB
        rw [he, he2]
        have e1 : (sendA fp (sendA fp c).swap).swap.docB = (sendA fp c).docB := rfl
        have e2 : (sendA fp (sendA fp c).swap).swap.docA = (sendA fp (sendA fp c).swap).docB := rfl
        have e3 : (sendA fp c).swap.docB = c.docA := rfl
        rw [e1, e2]
        rw [e3] at hlt
        have := lacking_mono (u := u) g1.has
        omega

/-! ### phase Q: the end game -/

/-- a receive that brings nothing new leaves the document as it is -/
theorem recvDoc_noop (d : Doc) (s : State) (m : Message) (hq : d.queue = [])
    (h : ∀ x ∈ m.changes, x.hash ∈ d.hashes) : recvDoc d s m = d := by
  unfold recvDoc
  split
  · exact applyChanges_noop d m.changes hq h
  · rfl

/-- when both peers hold the same changes, a send by A leaves B's document unchanged -/
theorem sendA_docB_same (fp : Hash → Bool) {c : Cfg} (inv : Inv c) (hs : SameSet c) :
    (sendA fp c).docB = c.docB := by
  apply recvDoc_noop _ _ _ (hs.swap.queueA inv.swap)
  intro x hx
  have hx' : x ∈ (mkBuilder fp c.docA c.stA).changes := hx
  rcases (mkBuilder_spec fp c.docA c.stA).2 x hx' with h1 | h1
  · exact Doc.mem_hashes.mpr ⟨x, (hs x).mp h1, rfl⟩
  · rw [hs.queueA inv] at h1; cases h1

/-- B receives A's message while both hold the same changes and B has already announced its
    current heads: B has nothing to say -/
theorem quiet_after_recv_same (fp : Hash → Bool) {c : Cfg} (inv : Inv c) (hs : SameSet c)
    (hls : c.stB.lastSentHeads = c.docB.heads) (hresp : c.stB.haveResponded = true) :
    quiet (sendA fp c).docB (sendA fp c).stB (mkBuilder fp (sendA fp c).docB (sendA fp c).stB) = true := by
  have hheads : c.docA.heads = c.docB.heads := heads_eq_of_same hs
  rw [sendA_docB_same fp inv hs]
  obtain ⟨_, f2, f3, f4, f5, f6, _⟩ := recvState_fields c.docB c.stB
    (mkMessage c.docA c.stA (mkBuilder fp c.docA c.stA))
  have hmh : (mkMessage c.docA c.stA (mkBuilder fp c.docA c.stA)).heads = c.docB.heads := by
    rw [mkMessage_heads inv.a.rw.2, hheads]
  have e1 : (sendA fp c).stB.theirHeads = some c.docB.heads := by
    show (recvState c.docB c.stB _).theirHeads = _
    rw [f2, hmh]
  have e2 : (sendA fp c).stB.lastSentHeads = c.docB.heads := by
    show (recvState c.docB c.stB _).lastSentHeads = _
    rw [recvState_lastSentHeads _ _ _ (by rw [hmh]; exact hls), hmh]
  have e3 : (sendA fp c).stB.haveResponded = true := by
    show (recvState c.docB c.stB _).haveResponded = _
    rw [f5]; exact hresp
  have e4 : (mkBuilder fp c.docB (sendA fp c).stB).hashes = [] := by
    apply mkBuilder_empty_of_same fp c.docB c.docA (sendA fp c).stB c.stA inv.b.wf.topo inv.a.wf.topo
      (fun x => (hs x).symm)
    · show (recvState c.docB c.stB _).theirHave = _
      rw [f3]; rfl
    · show (recvState c.docB c.stB _).theirNeed = _
      rw [f4]; rfl
    · show (recvState c.docB c.stB _).theirHeads = _
      rw [f2, mkMessage_heads inv.a.rw.2]
    · intro H hH h hh
      obtain ⟨y, hy, hyh⟩ := Doc.mem_hashes.mp (inv.a.theirHeads H hH h hh)
      exact Doc.mem_hashes.mpr ⟨y, (hs y).mpr hy, hyh⟩
  unfold quiet
  simp [e1, e2, e3, e4]

theorem phase_Q (fp : Hash → Bool) {c : Cfg} (hr : Good c) (hab : c.linkAB = [])
    (hba : c.linkBA = []) (hs : SameSet c) : Quiescent fp (round fp c) := by
  have inv := hr.inv
  have rd := round_docs (fp := fp) hr
  have hrr : Good (round fp c) := (hr.round fp)
  have invr := hrr.inv
  -- it is enough to show that both `quiet` conditions hold at the end of the round
  suffices hq : quiet (round fp c).docA (round fp c).stA
        (mkBuilder fp (round fp c).docA (round fp c).stA) = true ∧
      quiet (round fp c).docB (round fp c).stB
        (mkBuilder fp (round fp c).docB (round fp c).stB) = true by
    refine ⟨rd.linkAB, rd.linkBA, ?_, ?_⟩
    · rw [generate_quiet (resetA_false invr) hq.1]
    · have := generate_quiet (fp := fp) (resetA_false invr.swap) hq.2
      exact congrArg Prod.snd this
  have hround : round fp c = (halfRound fp (halfRound fp c).swap).swap := rfl
  rcases halfRound_cases fp c hab (resetA_false inv) with ⟨hqa, he⟩ | ⟨_, he⟩
  · rw [he] at hround
    rcases halfRound_cases fp c.swap hba (resetA_false inv.swap) with ⟨hqb, he2⟩ | ⟨_, he2⟩
    · rw [he2] at hround
      rw [hround]; exact ⟨hqa, hqb⟩
    · rw [he2] at hround
      rw [hround]
      obtain ⟨b1, b2⟩ := quiet_basic hqa
      exact ⟨quiet_after_recv_same fp inv.swap hs.swap b1 b2, quiet_sentState _ _ _ _⟩
  · rw [he] at hround
    have hr1 : Good (sendA fp c) := by rw [← he]; exact (hr.halfRound fp)
    have inv1 := hr1.inv
    have hdB : (sendA fp c).docB = c.docB := sendA_docB_same fp inv hs
    have hs1 : SameSet (sendA fp c) := by
      intro x
      show x ∈ c.docA.applied ↔ x ∈ (sendA fp c).docB.applied
      rw [hdB]; exact hs x
    rcases halfRound_cases fp (sendA fp c).swap hba (resetA_false inv1.swap) with ⟨hqb, he2⟩ | ⟨_, he2⟩
    · rw [he2] at hround
      rw [hround]
      exact ⟨quiet_sentState _ _ _ _, hqb⟩
    · rw [he2] at hround
      rw [hround]
      exact ⟨quiet_after_recv_same fp inv1.swap hs1.swap rfl rfl, quiet_sentState _ _ _ _⟩

end AmVerif.Sync.Prog
