import AmVerif.Proofs.LocalSeq
/-
  The RGA insertion lemma in general position (used by the op-store refinement, `Proofs/Store*.lean`).

  `Proofs/Local.lean` (`rgaFrom_insert`) treats an insert op with the GREATEST id: it lands right
  behind its reference element.  A remote insert op `N` is only greater than the ops it has seen —
  its reference element — and may meet concurrent siblings with greater ids.  Here:

    rgaOrder (ops ++ [N]) = the old order with `N` placed behind its reference element AND behind
                            every following element up to the first one with a smaller id

  which is the linear scan `Untangler` / `InsertQuery` perform (`skipGtL`, `insSkip`).
-/
namespace AmVerif.Crdt
open AmVerif

/-- the RGA skip on a list of elements: in front of the first element with a smaller id -/
def skipGtL (N : Op) : List Op → List Op
  | [] => [N]
  | x :: xs => if x.id.lt N.id then N :: x :: xs else x :: skipGtL N xs

/-- behind the reference element `N.key`, after the skip (unchanged when the element is absent) -/
def insSkip (N : Op) : List Op → List Op
  | [] => []
  | x :: xs => if Key.elem x.id = N.key then x :: skipGtL N xs else x :: insSkip N xs

theorem skipGtL_append_left {N : Op} {A : List Op} (B : List Op) (h : ∀ x ∈ A, x.id.lt N.id = false) :
    skipGtL N (A ++ B) = A ++ skipGtL N B := by
  induction A with
  | nil => rfl
  | cons a A ih =>
    have ha := h a List.mem_cons_self
    simp only [List.cons_append, skipGtL, ha, Bool.false_eq_true, if_false]
    rw [ih (fun x hx => h x (List.mem_cons_of_mem _ hx))]

theorem skipGtL_append_right {N : Op} (A : List Op) {B : List Op}
    (h : ∀ y, B.head? = some y → y.id.lt N.id = true) :
    skipGtL N (A ++ B) = skipGtL N A ++ B := by
  induction A with
  | nil =>
    cases B with
    | nil => rfl
    | cons y ys =>
      have := h y rfl
      simp [skipGtL, this]
  | cons a A ih =>
    simp only [List.cons_append, skipGtL]
    split
    · rfl
    · rw [ih]; rfl

theorem insSkip_append_of_not_mem {N : Op} {A : List Op} (B : List Op)
    (h : ∀ x ∈ A, Key.elem x.id ≠ N.key) : insSkip N (A ++ B) = A ++ insSkip N B := by
  induction A with
  | nil => rfl
  | cons a A ih =>
    have ha := h a List.mem_cons_self
    simp only [List.cons_append, insSkip, ha, if_false]
    rw [ih (fun x hx => h x (List.mem_cons_of_mem _ hx))]

theorem insSkip_of_not_mem {N : Op} {A : List Op} (h : ∀ x ∈ A, Key.elem x.id ≠ N.key) :
    insSkip N A = A := by
  have := insSkip_append_of_not_mem (N := N) [] h
  simpa [insSkip] using this

theorem insSkip_append_of_mem {N : Op} {A B : List Op} (hm : ∃ x ∈ A, Key.elem x.id = N.key)
    (h : ∀ y, B.head? = some y → y.id.lt N.id = true) :
    insSkip N (A ++ B) = insSkip N A ++ B := by
  induction A with
  | nil => obtain ⟨x, hx, _⟩ := hm; cases hx
  | cons a A ih =>
    simp only [List.cons_append, insSkip]
    split
    · rw [skipGtL_append_right A h]; rfl
    · rename_i hne
      obtain ⟨x, hx, hk⟩ := hm
      rcases List.mem_cons.mp hx with rfl | hx
      · exact absurd hk hne
      · rw [ih ⟨x, hx, hk⟩]; rfl

theorem mem_skipGtL {N x : Op} {L : List Op} : x ∈ skipGtL N L ↔ x = N ∨ x ∈ L := by
  induction L with
  | nil => simp [skipGtL]
  | cons a L ih =>
    simp only [skipGtL]
    split
    · simp
    · simp only [List.mem_cons, ih]
      constructor
      · rintro (h | h | h) <;> simp [h]
      · rintro (h | h | h) <;> simp [h]

theorem skipGtL_desc {N : Op} {L : List Op} (hd : L.Pairwise (fun a b => b.id.lt a.id = true))
    (hne : ∀ x ∈ L, x.id ≠ N.id) : (skipGtL N L).Pairwise (fun a b => b.id.lt a.id = true) := by
  induction L with
  | nil => exact List.pairwise_singleton _ _
  | cons a L ih =>
    simp only [skipGtL]
    split
    · rename_i hlt
      refine List.Pairwise.cons (fun b hb => ?_) hd
      rcases List.mem_cons.mp hb with rfl | hb
      · exact hlt
      · exact OpId.lt_trans (List.rel_of_pairwise_cons hd hb) hlt
    · rename_i hnlt
      refine List.Pairwise.cons (fun b hb => ?_) (ih (List.Pairwise.of_cons hd)
        (fun x hx => hne x (List.mem_cons_of_mem _ hx)))
      rcases mem_skipGtL.mp hb with rfl | hb
      · rcases OpId.lt_total (hne a List.mem_cons_self) with h | h
        · exact absurd h hnlt
        · exact h
      · exact List.rel_of_pairwise_cons hd hb

/-- the sibling list after one more op: the new insert takes its place by descending id -/
theorem children_append_general {ops : List Op} {N : Op} (hs : StrictIds (ops ++ [N])) (obj : ObjId)
    (p : Key) :
    children (ops ++ [N]) obj p =
      if (N.obj == obj && N.insert && N.key == p) = true then skipGtL N (children ops obj p)
      else children ops obj p := by
  have hs0 : StrictIds ops := by
    unfold StrictIds at *
    exact (List.pairwise_append.mp hs).1
  split
  · rename_i hc
    have hne : ∀ x ∈ children ops obj p, x.id ≠ N.id := by
      intro x hx he
      have hx' := (mem_children.mp hx).1
      have := hs.distinctIds x (List.mem_append_left _ hx') N (by simp) he
      subst this
      unfold StrictIds at hs
      have := (List.pairwise_append.mp hs).2.2 x hx' x (by simp)
      exact this rfl
    refine eq_of_pairwise_of_mem_iff (r := fun a b => b.id.lt a.id = true)
      (fun _ _ h₁ h₂ => OpId.lt_asymm h₁ h₂) _ _ (children_strict_desc hs obj p)
      (skipGtL_desc (children_strict_desc hs0 obj p) hne) (fun x => ?_)
    rw [mem_skipGtL, mem_children, mem_children]
    simp only [Bool.and_eq_true, beq_iff_eq] at hc
    obtain ⟨⟨h1, h2⟩, h3⟩ := hc
    constructor
    · rintro ⟨hm, ho, hi, hk⟩
      rcases List.mem_append.mp hm with hm | hm
      · exact .inr ⟨hm, ho, hi, hk⟩
      · left; simpa using hm
    · rintro (rfl | ⟨hm, ho, hi, hk⟩)
      · exact ⟨by simp, h1, h2, h3⟩
      · exact ⟨List.mem_append_left _ hm, ho, hi, hk⟩
  · rename_i hc
    unfold children
    rw [filter_append_singleton, if_neg hc, List.append_nil]

/-- a descendant has a greater id than the element it hangs below -/
theorem rgaFrom_id_gt {ops : List Op} (hr : RefsSmaller ops) {obj : ObjId} {f : Nat} {c x : Op}
    (hx : x ∈ rgaFrom ops obj f (.elem c.id)) : c.id.lt x.id = true :=
  (anc_of_mem_rgaFrom hx).id_lt hr (mem_rgaFrom hx).1 (mem_rgaFrom hx).2.2 c.id rfl

theorem rgaFrom_ids_nodup {ops : List Op} (hs : StrictIds ops) (hr : RefsSmaller ops) (obj : ObjId)
    (f : Nat) (p : Key) : ((rgaFrom ops obj f p).map (·.id)).Nodup := by
  have hn : (rgaFrom ops obj f p).Nodup := rgaFrom_nodup hs hr obj f p
  unfold List.Nodup at *
  rw [List.pairwise_map]
  refine List.Pairwise.imp_of_mem ?_ hn
  intro a b ha hb hne he
  exact hne (hs.distinctIds a (mem_rgaFrom ha).1 b (mem_rgaFrom hb).1 he)

/-- placing `N` among its siblings commutes with expanding the subtrees -/
theorem flatMap_skipGtL {N : Op} {S S' : Op → List Op} {C : List Op}
    (hS : ∀ c ∈ C, S' c = S c) (hN : S' N = [N]) (hhead : ∀ c ∈ C, ∃ t, S c = c :: t)
    (hdesc : ∀ c ∈ C, c.id.lt N.id = false → ∀ x ∈ S c, x.id.lt N.id = false) :
    (skipGtL N C).flatMap S' = skipGtL N (C.flatMap S) := by
  induction C with
  | nil => simp [skipGtL, hN]
  | cons c C ih =>
    have hrest : C.flatMap S' = C.flatMap S :=
      flatMap_congr' (fun a ha => hS a (List.mem_cons_of_mem _ ha))
    simp only [skipGtL]
    split
    · rename_i hlt
      obtain ⟨t, ht⟩ := hhead c List.mem_cons_self
      simp only [List.flatMap_cons, hN, hS c List.mem_cons_self, hrest, ht, List.cons_append,
        List.nil_append, skipGtL, hlt, if_true]
    · rename_i hnlt
      have hnlt' : c.id.lt N.id = false := by simpa using hnlt
      rw [List.flatMap_cons, List.flatMap_cons, hS c List.mem_cons_self,
        ih (fun a ha => hS a (List.mem_cons_of_mem _ ha))
          (fun a ha => hhead a (List.mem_cons_of_mem _ ha))
          (fun a ha => hdesc a (List.mem_cons_of_mem _ ha)),
        skipGtL_append_left _ (hdesc c List.mem_cons_self hnlt')]

/-- placing `N` behind its reference element commutes with expanding the subtrees of a sibling list -/
theorem flatMap_insSkip {N : Op} {S : Op → List Op} {C : List Op}
    (hpair : C.Pairwise (fun a b => b.id.lt a.id = true))
    (hhead : ∀ c ∈ C, ∃ t, S c = c :: t)
    (hge : ∀ c ∈ C, ∀ x ∈ S c, x.id.lt c.id = false)
    (href : ∀ e, N.key = .elem e → e.lt N.id = true)
    (hnd : ((C.flatMap S).map (·.id)).Nodup) :
    insSkip N (C.flatMap S) = C.flatMap (fun c => insSkip N (S c)) := by
  induction C with
  | nil => rfl
  | cons c C ih =>
    rw [List.flatMap_cons, List.flatMap_cons]
    rw [List.flatMap_cons, List.map_append, List.nodup_append] at hnd
    obtain ⟨_, hnd2, hdisj⟩ := hnd
    by_cases hm : ∃ x ∈ S c, Key.elem x.id = N.key
    · obtain ⟨x, hx, hk⟩ := hm
      have hxe : x.id.lt N.id = true := href x.id hk.symm
      rw [insSkip_append_of_mem ⟨x, hx, hk⟩]
      · congr 1
        symm
        apply flatMap_congr'
        intro c' hc'
        apply insSkip_of_not_mem
        intro y hy hky
        have hid : y.id = x.id := Key.elem.inj (hky.trans hk.symm)
        exact hdisj x.id (List.mem_map.mpr ⟨x, hx, rfl⟩) y.id
          (List.mem_map.mpr ⟨y, List.mem_flatMap.mpr ⟨c', hc', hy⟩, rfl⟩) hid.symm
      · intro y hy
        cases C with
        | nil => simp at hy
        | cons c₂ C₂ =>
          obtain ⟨t, ht⟩ := hhead c₂ (List.mem_cons_of_mem _ List.mem_cons_self)
          rw [List.flatMap_cons, ht] at hy
          simp only [List.cons_append, List.head?_cons, Option.some.injEq] at hy
          subst hy
          have h1 : c₂.id.lt c.id = true := List.rel_of_pairwise_cons hpair List.mem_cons_self
          have h2 := hge c List.mem_cons_self x hx
          exact OpId.lt_trans (OpId.lt_of_lt_of_not_lt h1 h2) hxe
    · have hm' : ∀ x ∈ S c, Key.elem x.id ≠ N.key := fun x hx hk => hm ⟨x, hx, hk⟩
      rw [insSkip_append_of_not_mem _ hm', insSkip_of_not_mem hm',
        ih (List.Pairwise.of_cons hpair) (fun a ha => hhead a (List.mem_cons_of_mem _ ha))
          (fun a ha => hge a (List.mem_cons_of_mem _ ha)) hnd2]

/-- **RGA insertion in general position.**  Every walk of the op set with one more insert op `N`
    (whose reference element has a smaller id and which nobody references yet) is the old walk with
    `N` behind its reference element and behind the following elements with greater ids. -/
theorem rgaFrom_insert_general {ops : List Op} {N : Op} {obj : ObjId}
    (hs : StrictIds (ops ++ [N])) (hr : RefsSmaller (ops ++ [N]))
    (hnr : ∀ x ∈ ops ++ [N], x.insert = true → x.key ≠ .elem N.id)
    (hi : N.insert = true) (ho : N.obj = obj) :
    ∀ (f : Nat) (p : Key), above (ops ++ [N]) p < f →
      rgaFrom (ops ++ [N]) obj f p =
        if p = N.key then skipGtL N (rgaFrom ops obj f p) else insSkip N (rgaFrom ops obj f p)
  | 0, _, hf => by omega
  | f + 1, p, hf => by
    have hs0 : StrictIds ops := by
      unfold StrictIds at *
      exact (List.pairwise_append.mp hs).1
    have hr0 : RefsSmaller ops := fun o ho' hi' => hr o (List.mem_append_left _ ho') hi'
    have href : ∀ e, N.key = .elem e → e.lt N.id = true := fun e he => hr.lt (by simp) hi he
    have hcond : ((N.obj == obj && N.insert && N.key == p) = true) ↔ p = N.key := by
      simp only [ho, hi, beq_self_eq_true, Bool.and_self, Bool.true_and, beq_iff_eq]
      exact eq_comm
    rw [rgaFrom_succ, rgaFrom_succ, children_append_general hs]
    by_cases hp : p = N.key
    · rw [if_pos (hcond.mpr hp), if_pos hp]
      apply flatMap_skipGtL
      · intro c hc
        have hc' : c ∈ children (ops ++ [N]) obj p := by
          rw [children_append_general hs, if_pos (hcond.mpr hp)]
          exact mem_skipGtL.mpr (.inr hc)
        obtain ⟨hco, _, hci, hck⟩ := mem_children.mp hc
        have hab := above_child hr hc'
        have hne : Key.elem c.id ≠ N.key := by
          intro he
          have := hr0.lt hco hci (hck.trans (hp.trans he.symm))
          rw [OpId.lt_irrefl] at this; cases this
        rw [rgaFrom_insert_general hs hr hnr hi ho f (.elem c.id) (by omega), if_neg hne]
        congr 1
        apply insSkip_of_not_mem
        intro x hx hk
        have hgt := rgaFrom_id_gt hr0 hx
        -- `x` is a descendant of `c`, while `N.key = p = c.key` names an element below `c`
        have hck' : c.key = .elem x.id := hck.trans (hp.trans hk.symm)
        have := hr0.lt hco hci hck'
        exact OpId.lt_asymm hgt this
      · rw [rgaFrom_no_children hnr f]
      · intro c _; exact ⟨_, rfl⟩
      · intro c hc hnlt x hx
        obtain ⟨hco, _, hci, _⟩ := mem_children.mp hc
        rcases List.mem_cons.mp hx with rfl | hx
        · exact hnlt
        · have hgt := rgaFrom_id_gt hr0 hx
          cases hxn : x.id.lt N.id
          · rfl
          · rw [OpId.lt_trans hgt hxn] at hnlt; cases hnlt
    · rw [if_neg (fun h => hp (hcond.mp h)), if_neg hp]
      have hstep : ∀ c ∈ children ops obj p,
          (c :: rgaFrom (ops ++ [N]) obj f (.elem c.id)) = insSkip N (c :: rgaFrom ops obj f (.elem c.id)) := by
        intro c hc
        have hc' : c ∈ children (ops ++ [N]) obj p := by
          rw [children_append_general hs, if_neg (fun h => hp (hcond.mp h))]
          exact hc
        have hab := above_child hr hc'
        rw [rgaFrom_insert_general hs hr hnr hi ho f (.elem c.id) (by omega)]
        simp only [insSkip]
        by_cases hk : Key.elem c.id = N.key
        · rw [if_pos hk, if_pos hk]
        · rw [if_neg hk, if_neg hk]
      rw [flatMap_congr' hstep]
      symm
      apply flatMap_insSkip (children_strict_desc hs0 obj p)
      · intro c _; exact ⟨_, rfl⟩
      · intro c hc x hx
        rcases List.mem_cons.mp hx with rfl | hx
        · exact OpId.lt_irrefl _
        · have hgt := rgaFrom_id_gt hr0 hx
          cases hxc : x.id.lt c.id
          · rfl
          · exact (OpId.lt_asymm hgt hxc).elim
      · exact href
      · have := rgaFrom_ids_nodup hs0 hr0 obj (f + 1) p
        rwa [rgaFrom_succ] at this

/-- the element order after a remote insert -/
theorem rgaOrder_insert_general {ops : List Op} {N : Op}
    (hs : StrictIds (ops ++ [N])) (hr : RefsSmaller (ops ++ [N]))
    (hnr : ∀ x ∈ ops ++ [N], x.insert = true → x.key ≠ .elem N.id) (hi : N.insert = true) :
    rgaOrder (ops ++ [N]) N.obj =
      if N.key = .head then skipGtL N (rgaOrder ops N.obj) else insSkip N (rgaOrder ops N.obj) := by
  have hr0 : RefsSmaller ops := fun o ho' hi' => hr o (List.mem_append_left _ ho') hi'
  unfold rgaOrder
  rw [rgaFrom_insert_general hs hr hnr hi rfl _ .head (by simp [above])]
  have : rgaFrom ops N.obj ((ops ++ [N]).length + 1) .head = rgaFrom ops N.obj (ops.length + 1) .head :=
    rgaOrder_eq_fuel hr0 N.obj (by simp)
  rw [this]
  by_cases h : N.key = .head
  · rw [if_pos h, if_pos h.symm]
  · rw [if_neg h, if_neg (fun hh => h hh.symm)]

/-- the element order of every other object is untouched by one more op -/
theorem rgaOrder_append_other {ops : List Op} {N : Op} (hr : RefsSmaller ops) {obj' : ObjId}
    (hne : obj' ≠ N.obj) : rgaOrder (ops ++ [N]) obj' = rgaOrder ops obj' := by
  have hch : ∀ p, children (ops ++ [N]) obj' p = children ops obj' p := by
    intro p
    unfold children
    rw [filter_append_singleton]
    have : (N.obj == obj' && N.insert && N.key == p) = false := by
      have : (N.obj == obj') = false := by simp; exact fun h => hne h.symm
      simp [this]
    simp [this]
  have hall : ∀ f p, rgaFrom (ops ++ [N]) obj' f p = rgaFrom ops obj' f p := by
    intro f
    induction f with
    | zero => intro p; rfl
    | succ f ih =>
      intro p
      rw [rgaFrom_succ, rgaFrom_succ, hch]
      apply flatMap_congr'
      intro c _
      rw [ih]
  unfold rgaOrder
  rw [hall]
  exact rgaOrder_eq_fuel hr obj' (by simp)

end AmVerif.Crdt
