import AmVerif.Proofs.DocCodecChecks
import AmVerif.Proofs.DocCodecEx
/-
  The decidable hypotheses of the reconstruction theorem on the example history, part 2: `GapD`, `OpsD`,
  the mark order; and the 19-op change (progressive encoder).
-/
namespace AmVerif.DocCodec
open AmVerif AmVerif.Crdt

set_option maxRecDepth 100000 in
theorem Ex.history_gapD : GapD Ex.history := by decide +kernel

set_option maxRecDepth 100000 in
theorem Ex.history_opsD : OpsD (actorTable Ex.history) (Ex.history.flatMap (·.c.ops)) := by decide +kernel

set_option maxRecDepth 100000 in
theorem Ex.history_marks : markOrderOk (imageOf Ex.history).ops [] = true := by decide +kernel

set_option maxRecDepth 100000 in
theorem Ex.big_checks : ReconChecks Ex.big := by decide +kernel

end AmVerif.DocCodec
