import AmVerif.Model.Ids
import AmVerif.Proofs.Leb128
/-
  Helper lemmas for Props/C19.lean and Props/C15Ids.lean: byte and text codecs of identifiers.
-/
namespace AmVerif.Ids
open AmVerif AmVerif.Leb

/-- equality of outcomes is decidable (used by the concrete `example`s) -/
instance instDecEqOutcome {ε α : Type} [DecidableEq ε] [DecidableEq α] : DecidableEq (Outcome ε α)
  | .ok a, .ok b => if h : a = b then isTrue (by rw [h]) else isFalse (by intro e; cases e; exact h rfl)
  | .err a, .err b => if h : a = b then isTrue (by rw [h]) else isFalse (by intro e; cases e; exact h rfl)
  | .panic a, .panic b => if h : a = b then isTrue (by rw [h]) else isFalse (by intro e; cases e; exact h rfl)
  | .ok _, .err _ => isFalse (by intro e; cases e)
  | .ok _, .panic _ => isFalse (by intro e; cases e)
  | .err _, .ok _ => isFalse (by intro e; cases e)
  | .err _, .panic _ => isFalse (by intro e; cases e)
  | .panic _, .ok _ => isFalse (by intro e; cases e)
  | .panic _, .err _ => isFalse (by intro e; cases e)

/-! ### take_n -/

theorem takeN_append (a rest : Bytes) : takeN a.length (a ++ rest) = .ok (a, rest) := by
  unfold takeN
  simp

/-! ### ExId / Cursor bytes -/

theorem exidFromBytes_toBytes_id (ctr idx : Nat) (actor : Actor) (t : Bytes)
    (hc : ctr < 2 ^ 64) (hi : idx < 2 ^ 64) (ha : actor.length < 2 ^ 64) :
    exidFromBytes (exidToBytes (.id ctr actor idx) ++ t) = .ok (.id ctr actor idx) := by
  simp only [exidToBytes, List.cons_append, List.append_assoc]
  unfold exidFromBytes
  have h1 : (16 : UInt8).toNat % 16 = 0 := by decide
  have h2 : (16 : UInt8).toNat / 16 = 1 := by decide
  simp only [h1, h2, ne_eq, not_true_eq_false, if_false, Nat.one_ne_zero, if_true]
  rw [uleb64_encode _ ha]
  simp only [takeN_append]
  rw [uleb64_encode _ hi]
  simp only
  rw [uleb64_encode _ hc]

theorem cursorFromBytes_toBytes_op (ctr : Nat) (actor : Actor) (mv : Move) (t : Bytes)
    (hc : ctr < 2 ^ 64) (ha : actor.length < 2 ^ 64) :
    cursorFromBytes (cursorToBytes (.op ctr actor mv) ++ t) = .ok (.op ctr actor mv) := by
  simp only [cursorToBytes, List.cons_append, List.append_assoc]
  unfold cursorFromBytes
  simp only [show ((1 : UInt8) = 0) = False by decide, show ((1 : UInt8) ≠ 1) = False by simp,
    show ((3 : UInt8) = 1) = False by decide, show ((3 : UInt8) = 2) = False by decide, if_false,
    if_true]
  rw [uleb64_encode _ ha]
  simp only [takeN_append]
  rw [uleb64_encode _ hc]
  cases mv <;> simp [moveTag]

/-! ### decimal text -/

theorem decEncode_lt {n : Nat} (h : n < 10) : decEncode n = [UInt8.ofNat (48 + n)] := by
  rw [decEncode]; simp [h]

theorem decEncode_ge {n : Nat} (h : ¬ n < 10) :
    decEncode n = decEncode (n / 10) ++ [UInt8.ofNat (48 + n % 10)] := by
  rw [decEncode]; simp [h]

theorem digit_toNat {d : Nat} (h : d < 10) : (UInt8.ofNat (48 + d)).toNat = 48 + d := by
  rw [toNat_ofNat_lt (by omega)]

theorem decEncode_ne_nil (n : Nat) : decEncode n ≠ [] := by
  by_cases h : n < 10
  · rw [decEncode_lt h]; simp
  · rw [decEncode_ge h]; simp

theorem decEncode_digits (n : Nat) : ∀ b ∈ decEncode n, 48 ≤ b.toNat ∧ b.toNat ≤ 57 := by
  induction n using Nat.strongRecOn with
  | _ n ih =>
    by_cases h : n < 10
    · rw [decEncode_lt h]
      intro b hb
      simp only [List.mem_singleton] at hb
      subst hb
      rw [digit_toNat h]; omega
    · rw [decEncode_ge h]
      intro b hb
      rcases List.mem_append.mp hb with hb | hb
      · exact ih (n / 10) (by omega) b hb
      · simp only [List.mem_singleton] at hb
        subst hb
        rw [digit_toNat (Nat.mod_lt _ (by omega))]
        have := Nat.mod_lt n (show 0 < 10 by omega)
        omega

theorem decValue_append (a b : Bytes) (acc : Nat) :
    List.foldl (fun acc d => acc * 10 + (UInt8.toNat d - 48)) acc (a ++ b)
      = List.foldl (fun acc d => acc * 10 + (UInt8.toNat d - 48))
          (List.foldl (fun acc d => acc * 10 + (UInt8.toNat d - 48)) acc a) b := by
  rw [List.foldl_append]

theorem decValue_decEncode (n : Nat) : decValue (decEncode n) = n := by
  induction n using Nat.strongRecOn with
  | _ n ih =>
    by_cases h : n < 10
    · rw [decEncode_lt h]
      simp only [decValue, List.foldl_cons, List.foldl_nil]
      rw [digit_toNat h]; omega
    · rw [decEncode_ge h]
      unfold decValue
      rw [List.foldl_append]
      have := ih (n / 10) (by omega)
      unfold decValue at this
      rw [this]
      simp only [List.foldl_cons, List.foldl_nil]
      rw [digit_toNat (Nat.mod_lt _ (by omega))]
      omega

theorem decEncode_all_isDigit (n : Nat) : (decEncode n).all isDigit = true := by
  rw [List.all_eq_true]
  intro b hb
  have := decEncode_digits n b hb
  simp [isDigit, this.1, this.2]

theorem decEncode_head_ne_plus (n : Nat) : ∀ rest, decEncode n ≠ 43 :: rest := by
  intro rest h
  have := decEncode_digits n 43 (by rw [h]; simp)
  simp at this

theorem stripPlus_decEncode (n : Nat) : stripPlus (decEncode n) = decEncode n := by
  unfold stripPlus
  split
  · rename_i rest h; exact absurd h (decEncode_head_ne_plus n rest)
  · rfl

/-- `parse::<u64>` reads back what `Display` wrote. -/
theorem parseU64_decEncode (n : Nat) (hn : n < 2 ^ 64) : parseU64 (decEncode n) = some n := by
  unfold parseU64
  have hne : (decEncode n).isEmpty = false := by
    cases h : decEncode n with
    | nil => exact absurd h (decEncode_ne_nil n)
    | cons _ _ => rfl
  simp only [stripPlus_decEncode, hne, decEncode_all_isDigit, decValue_decEncode, hn, if_true,
    Bool.false_eq_true, if_false]

theorem decEncode_no_at (n : Nat) : ∀ b ∈ decEncode n, b ≠ 64 := by
  intro b hb h
  have := decEncode_digits n b hb
  subst h
  simp at this

/-! ### hex text -/

theorem hexValB_hexDigitB {n : Nat} (h : n < 16) : hexValB (hexDigitB n) = some n := by
  unfold hexDigitB hexValB
  by_cases h10 : n < 10
  · rw [if_pos h10, toNat_ofNat_lt (by omega), if_pos (by omega)]
    congr 1; omega
  · rw [if_neg h10, toNat_ofNat_lt (by omega), if_neg (by omega), if_pos (by omega)]
    congr 1; omega

theorem hexDecode_hexEncode (bs : Bytes) : hexDecode (hexEncode bs) = some bs := by
  induction bs with
  | nil => rfl
  | cons b rest ih =>
    simp only [hexEncode, hexDecode]
    have hb : b.toNat < 256 := b.toNat_lt
    rw [hexValB_hexDigitB (show b.toNat / 16 < 16 by omega),
      hexValB_hexDigitB (Nat.mod_lt _ (by omega)), ih]
    simp only [Option.some.injEq, List.cons.injEq, and_true]
    have : b.toNat / 16 * 16 + b.toNat % 16 = b.toNat := by omega
    rw [this]
    exact UInt8.ofNat_toNat

theorem hexEncode_length (bs : Bytes) : (hexEncode bs).length = 2 * bs.length := by
  induction bs with
  | nil => rfl
  | cons b rest ih => simp only [hexEncode, List.length_cons, ih]; omega

theorem hexDecode_length : ∀ (n : Nat) (s out : Bytes), s.length = n → hexDecode s = some out →
    s.length = 2 * out.length := by
  intro n
  induction n using Nat.strongRecOn with
  | _ n ih =>
    intro s out hl h
    match s, h with
    | [], h => simp only [hexDecode, Option.some.injEq] at h; subst h; rfl
    | [_], h => simp [hexDecode] at h
    | a :: b :: rest, h =>
      simp only [hexDecode] at h
      split at h
      · rename_i x y r hx hy hr
        simp only [Option.some.injEq] at h
        subst h
        have := ih rest.length (by simp only [List.length_cons] at hl; omega) rest r rfl hr
        simp only [List.length_cons]; omega
      · simp at h

/-! ### find('@') -/

theorem findAt_append (pre rest : Bytes) (h : ∀ b ∈ pre, b ≠ 64) :
    findAt (pre ++ 64 :: rest) = some pre.length := by
  induction pre with
  | nil => simp [findAt]
  | cons a pre ih =>
    have ha : a ≠ 64 := h a (by simp)
    simp only [List.cons_append, findAt, ha, if_false, List.length_cons]
    rw [ih (fun b hb => h b (by simp [hb]))]
    rfl

theorem findAt_lt (s : Bytes) (n : Nat) (h : findAt s = some n) : n < s.length ∧ s[n]? = some 64 := by
  induction s generalizing n with
  | nil => simp [findAt] at h
  | cons a rest ih =>
    simp only [findAt] at h
    by_cases ha : a = 64
    · simp only [ha, if_true, Option.some.injEq] at h
      subst h; subst ha; simp
    · simp only [ha, if_false] at h
      cases hf : findAt rest with
      | none => simp [hf] at h
      | some m =>
        simp only [hf, Option.map_some, Option.some.injEq] at h
        subst h
        have := ih m hf
        simp only [List.length_cons, List.getElem?_cons_succ]
        exact ⟨by omega, this.2⟩

/-! ### Cursor text -/

/-- the slice `s[i..n]`: a string that starts with `-` has its first `@` at offset ≥ 1 -/
theorem movePrefix_le_findAt (s : Bytes) (n : Nat) (h : findAt s = some n) : (movePrefix s).2 ≤ n := by
  unfold movePrefix
  split
  · rename_i rest
    simp only [findAt, show ((45 : UInt8) = 64) = False by decide, if_false] at h
    cases hf : findAt rest with
    | none => simp [hf] at h
    | some m => simp only [hf, Option.map_some, Option.some.injEq] at h; omega
  · exact Nat.zero_le n



theorem movePrefix_digits (ctr : Nat) (rest : Bytes) :
    movePrefix (decEncode ctr ++ rest) = (.after, 0) := by
  cases h : decEncode ctr with
  | nil => exact absurd h (decEncode_ne_nil ctr)
  | cons a r =>
    have := decEncode_digits ctr a (by rw [h]; simp)
    have ha : a ≠ 45 := by intro e; rw [e] at this; simp at this
    unfold movePrefix
    split
    · rename_i t heq
      simp only [List.cons_append, List.cons.injEq] at heq
      exact absurd heq.1 ha
    · rfl

theorem cursorFromStr_toStr_op (ctr : Nat) (actor : Actor) (mv : Move) (hc : ctr < 2 ^ 64) :
    cursorFromStr (cursorToStr (.op ctr actor mv)) = .ok (.op ctr actor mv) := by
  have hdne := decEncode_ne_nil ctr
  cases mv with
  | after =>
    simp only [cursorToStr, List.nil_append, List.append_assoc, List.singleton_append]
    unfold cursorFromStr
    have hlen : (decEncode ctr ++ 64 :: hexEncode actor).length ≠ 1 := by
      cases h : decEncode ctr with
      | nil => exact absurd h hdne
      | cons a r => simp
    simp only [hlen, if_false, movePrefix_digits]
    simp only [findAt_append _ _ (decEncode_no_at ctr), Nat.not_lt_zero, if_false,
      List.take_left', List.drop_zero, parseU64_decEncode ctr hc]
    have : List.drop ((decEncode ctr).length + 1) (decEncode ctr ++ 64 :: hexEncode actor)
        = hexEncode actor := by
      rw [show decEncode ctr ++ 64 :: hexEncode actor = (decEncode ctr ++ [64]) ++ hexEncode actor by simp]
      rw [List.drop_left' (by simp)]
    rw [this, hexDecode_hexEncode]
  | before =>
    simp only [cursorToStr, List.append_assoc, List.singleton_append, List.cons_append,
      List.nil_append]
    unfold cursorFromStr
    have hlen : (45 :: (decEncode ctr ++ 64 :: hexEncode actor)).length ≠ 1 := by
      cases h : decEncode ctr with
      | nil => exact absurd h hdne
      | cons a r => simp
    simp only [hlen, if_false, movePrefix]
    have hno : ∀ b ∈ (45 : UInt8) :: decEncode ctr, b ≠ 64 := by
      intro b hb
      rcases List.mem_cons.mp hb with rfl | hb
      · decide
      · exact decEncode_no_at ctr b hb
    have hf : findAt (45 :: (decEncode ctr ++ 64 :: hexEncode actor))
        = some ((decEncode ctr).length + 1) := by
      have := findAt_append (45 :: decEncode ctr) (hexEncode actor) hno
      simpa using this
    simp only [hf, show ¬ ((decEncode ctr).length + 1 < 1) by omega, if_false]
    have ht : List.drop 1 (List.take ((decEncode ctr).length + 1)
        (45 :: (decEncode ctr ++ 64 :: hexEncode actor))) = decEncode ctr := by
      simp [List.take_left']
    rw [ht, parseU64_decEncode ctr hc]
    have : List.drop ((decEncode ctr).length + 1 + 1) (45 :: (decEncode ctr ++ 64 :: hexEncode actor))
        = hexEncode actor := by
      rw [List.drop_succ_cons]
      rw [show decEncode ctr ++ 64 :: hexEncode actor = (decEncode ctr ++ [64]) ++ hexEncode actor by simp]
      rw [List.drop_left' (by simp)]
    rw [this, hexDecode_hexEncode]

/-! ### actor table -/

theorem lookupActor_some (actors : List Actor) (a : Actor) (i : Nat)
    (h : lookupActor actors a = some i) : actors[i]? = some a := by
  induction actors generalizing i with
  | nil => simp [lookupActor] at h
  | cons x rest ih =>
    simp only [lookupActor] at h
    by_cases hx : x = a
    · simp only [hx, if_true, Option.some.injEq] at h
      subst h; simp [hx]
    · simp only [hx, if_false] at h
      cases hf : lookupActor rest a with
      | none => simp [hf] at h
      | some m =>
        simp only [hf, Option.map_some, Option.some.injEq] at h
        subst h
        simpa using ih m hf

theorem lookupActor_of_mem (actors : List Actor) (a : Actor) (h : a ∈ actors) :
    ∃ i, lookupActor actors a = some i := by
  induction actors with
  | nil => simp at h
  | cons x rest ih =>
    simp only [lookupActor]
    by_cases hx : x = a
    · exact ⟨0, by simp [hx]⟩
    · have : a ∈ rest := by
        rcases List.mem_cons.mp h with h | h
        · exact absurd h.symm hx
        · exact h
      obtain ⟨i, hi⟩ := ih this
      exact ⟨i + 1, by simp [hx, hi]⟩

theorem lookupActor_none (actors : List Actor) (a : Actor) (h : lookupActor actors a = none) :
    a ∉ actors := by
  intro hm
  obtain ⟨i, hi⟩ := lookupActor_of_mem actors a hm
  rw [h] at hi; cases hi

theorem lookupActor_lt (actors : List Actor) (a : Actor) (i : Nat)
    (h : lookupActor actors a = some i) : i < actors.length := by
  have := lookupActor_some actors a i h
  exact (List.getElem?_eq_some_iff.mp this).1

/-- in a table without duplicates (the `OpSet` actor table is strictly sorted) the index holding an
    actor is unique: any search — the linear one of the model, the binary one of the Rust — finds it -/
theorem lookupActor_eq_of_nodup (T : List Actor) (hnd : T.Nodup) (i : Nat) (a : Actor)
    (h : T[i]? = some a) : lookupActor T a = some i := by
  induction T generalizing i with
  | nil => simp at h
  | cons x rest ih =>
    have hnd' := List.nodup_cons.mp hnd
    simp only [lookupActor]
    by_cases hx : x = a
    · subst hx
      cases i with
      | zero => simp
      | succ j =>
        simp only [List.getElem?_cons_succ] at h
        exact absurd (List.mem_of_getElem? h) hnd'.1
    · cases i with
      | zero => simp only [List.getElem?_cons_zero, Option.some.injEq] at h; exact absurd h hx
      | succ j =>
        simp only [List.getElem?_cons_succ] at h
        simp [hx, ih hnd'.2 j h]

/-- `exid_to_opid` written without the hint: on a duplicate-free table the hint only short-cuts the
    search -/
theorem exidToOpid_eq_lookup (T : List Actor) (hnd : T.Nodup) (ctr : Nat) (a : Actor) (hint : Nat) :
    exidToOpid T (.id ctr a hint) =
      (match (lookupActor T a).bind (fun b => opIdTryNew ctr b) with
       | some o => .ok o
       | none => .err .objId) := by
  unfold exidToOpid
  by_cases hh : T[hint]? = some a
  · simp only [hh, if_true, lookupActor_eq_of_nodup T hnd hint a hh, Option.bind_some]
    cases opIdTryNew ctr hint <;> rfl
  · simp only [hh, if_false]
    cases lookupActor T a with
    | none => rfl
    | some b =>
      simp only [Option.bind_some]
      cases opIdTryNew ctr b <;> rfl

end AmVerif.Ids
