import AmVerif.Proofs.HexaneCanon
/-
  Helper lemmas: the loader's bookkeeping (`account`, `finish`) succeeds on segment lists whose
  total length fits a `usize`, and the composed round trip `rleDecode (rleEncode xs) = ok xs`.
-/
namespace AmVerif.Hexane
open AmVerif

/-- weights whose accumulation cannot fail: `Column<T>` and the wide prefix accumulators -/
def Weight.plain : Weight → Prop
  | .len => True
  | .prefixWide => True
  | _ => False

theorem acctStep_plain (w : Weight) (hw : w.plain) (st : AState) (count : Nat) (v : Option Int)
    (h : st.slabLen + count < two64) :
    ∃ st', acctStep w st count v = .ok st' ∧
      st'.closed + st'.slabLen = st.closed + st.slabLen + count ∧ st'.slabLen ≤ st.slabLen + count := by
  unfold acctStep
  have hn : ¬ ¬ (st.slabLen + count < two64) := by simpa using h
  rw [if_neg hn]
  cases w with
  | len =>
    simp only
    split
    · exact ⟨_, rfl, by simp only; omega, by simp⟩
    · exact ⟨_, rfl, by simp only; omega, by simp⟩
  | prefixWide =>
    simp only
    split
    · exact ⟨_, rfl, by simp only; omega, by simp⟩
    · exact ⟨_, rfl, by simp only; omega, by simp⟩
  | prefixU l => exact absurd hw (by simp [Weight.plain])
  | delta lo hi => exact absurd hw (by simp [Weight.plain])

theorem itemsLen_cons {α : Type} (x : Item α) (r : List (Item α)) :
    itemsLen (x :: r) = itemCount x + itemsLen r := by
  simp [itemsLen]

theorem account_plain {α : Type} (w : Weight) (hw : w.plain) (num : α → Int) :
    ∀ (items : List (Item α)) (st : AState), st.closed + st.slabLen + itemsLen items < two64 →
      ∃ st', account w num items st = .ok st' ∧
        st'.closed + st'.slabLen = st.closed + st.slabLen + itemsLen items := by
  intro items
  induction items with
  | nil => intro st _; exact ⟨st, rfl, by simp [itemsLen]⟩
  | cons x r ih =>
    intro st h
    rw [itemsLen_cons] at h
    cases x with
    | head k =>
      simp only [itemCount] at h
      obtain ⟨st', h1, h2⟩ := ih st (by omega)
      exact ⟨st', by simpa [account] using h1, by rw [itemsLen_cons]; simp only [itemCount]; omega⟩
    | litv v =>
      simp only [itemCount] at h
      obtain ⟨s1, e1, e2, e3⟩ := acctStep_plain w hw st 1 (some (num v)) (by omega)
      obtain ⟨st', h1, h2⟩ := ih s1 (by omega)
      refine ⟨st', ?_, by rw [itemsLen_cons]; simp only [itemCount]; omega⟩
      simp only [account, e1, h1]
    | run n v =>
      simp only [itemCount] at h
      obtain ⟨s1, e1, e2, e3⟩ := acctStep_plain w hw st n (some (num v)) (by omega)
      obtain ⟨st', h1, h2⟩ := ih s1 (by omega)
      refine ⟨st', ?_, by rw [itemsLen_cons]; simp only [itemCount]; omega⟩
      simp only [account, e1, h1]
    | null n =>
      simp only [itemCount] at h
      obtain ⟨s1, e1, e2, e3⟩ := acctStep_plain w hw st n none (by omega)
      obtain ⟨st', h1, h2⟩ := ih s1 (by omega)
      refine ⟨st', ?_, by rw [itemsLen_cons]; simp only [itemCount]; omega⟩
      simp only [account, e1, h1]

theorem finish_plain (w : Weight) (hw : w.plain) (st : AState) (h : st.closed + st.slabLen < two64) :
    finish w none st = .ok (st.closed + st.slabLen) := by
  unfold finish
  have hn : ¬ ¬ (st.closed + st.slabLen < two64) := by simpa using h
  simp only [hn, if_false]
  cases w with
  | len => rfl
  | prefixWide => rfl
  | prefixU l => exact absurd hw (by simp [Weight.plain])
  | delta lo hi => exact absurd hw (by simp [Weight.plain])

/-- loading the encoder's own bytes gives back the encoder's segments -/
theorem rleLoad_encode {α : Type} [DecidableEq α] {c : ValCodec α} {Valid : α → Prop} (law : Lawful c Valid)
    (nullable : Bool) (w : Weight) (hw : w.plain) (num : α → Int) (xs : List (Option α))
    (hlen : xs.length < two63) (hv : ListValid Valid nullable xs) :
    rleLoad c nullable w num none (rleEncode c xs) = .ok (itemsOf xs) := by
  unfold rleLoad parseAll rleEncode
  rw [parse_write law nullable (itemsOf xs) {} _ (canon_itemsOf Valid nullable xs hlen hv) (by omega)]
  have hl : itemsLen (itemsOf xs) < two64 := by
    rw [itemsLen_itemsOf]; unfold two63 two64 at *; omega
  obtain ⟨st', h1, h2⟩ := account_plain w hw num (itemsOf xs) {} (by simpa using hl)
  simp only [h1]
  rw [finish_plain w hw st' (by simp at h2; omega)]

theorem rleDecode_encode {α : Type} [DecidableEq α] {c : ValCodec α} {Valid : α → Prop} (law : Lawful c Valid)
    (nullable : Bool) (w : Weight) (hw : w.plain) (num : α → Int) (xs : List (Option α))
    (hlen : xs.length < two63) (hv : ListValid Valid nullable xs) :
    rleDecode c nullable w num (rleEncode c xs) = .ok xs := by
  unfold rleDecode
  rw [rleLoad_encode law nullable w hw num xs hlen hv]
  simp [expand_itemsOf]

theorem realise_deltas : ∀ (xs : List (Option Int)) (a : Int), realise (deltas xs a) a = xs := by
  intro xs
  induction xs with
  | nil => intro a; rfl
  | cons x xs ih =>
    intro a
    cases x with
    | none => simp [deltas, realise, ih]
    | some v =>
      simp only [deltas, realise]
      have : a + (v - a) = v := by omega
      rw [this, ih]

end AmVerif.Hexane
