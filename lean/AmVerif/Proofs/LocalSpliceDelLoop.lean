import AmVerif.Proofs.LocalSpliceDel
/-
  `splice_text` with deletion, part 2: the induction over the delete loop of `inner_splice`
  (`deleteLoop`).  One step = one delete op naming every visible op of the element found at the
  delete position; the visible element list loses exactly that element; the loop as a whole
  removes `spliceRemoved` and leaves `spliceKept` (part 1).
-/
namespace AmVerif.Crdt
open AmVerif

/-- the delete ops of `splice_text`: one per removed element, in order, numbered from the
    transaction's `n`-th next id; each is keyed on its element and names as predecessors the ids
    of all entries of the element's register -/
def spliceDelOps (t : Tx) (obj : ObjId) : Nat → List (OpId × List Entry) → List Op
  | _, [] => []
  | n, p :: ps =>
    ⟨t.nextId n, obj, .elem p.1, false, .del, p.2.map (·.id)⟩ :: spliceDelOps t obj (n + 1) ps

theorem spliceDelOps_length (t : Tx) (obj : ObjId) :
    ∀ (n : Nat) (l : List (OpId × List Entry)), (spliceDelOps t obj n l).length = l.length
  | _, [] => rfl
  | n, p :: l => by simp [spliceDelOps, spliceDelOps_length t obj (n + 1) l]

theorem CtrBelow.weaken {ops : List Op} {b b' : Nat} (h : CtrBelow ops b) (hle : b ≤ b') : CtrBelow ops b' := by
  intro x hx
  obtain ⟨h1, h2, h3⟩ := h x hx
  refine ⟨by omega, fun q hq => by have := h2 q hq; omega, ?_⟩
  cases hk : x.key with
  | elem el => rw [hk] at h3; simp at h3 ⊢; omega
  | _ => rfl

theorem regEntry_ids (ops : List Op) (q : OpId × List Op) :
    (regEntry ops q).2.map (·.id) = q.2.map (·.id) := by
  unfold regEntry
  rw [List.map_map]
  apply List.map_congr_left
  intro x _
  exact entryOf_id ops x

theorem deleteLoop_succ (e : Enc) (isText : Bool) (t : Tx) (obj : ObjId) (fuel : Nat) (ops : List Op)
    (di dd del : Nat) (acc : List Op) :
    deleteLoop e isText t obj (fuel + 1) ops di dd del acc =
      if dd ≥ del then acc else
      match seekByIndex e isText (seqRegs ops obj) di 0 with
      | none => acc
      | some (eid, reg, start) =>
        if start < di then deleteLoop e isText t obj fuel ops (start + regWidth e isText reg) dd del acc
        else
          deleteLoop e isText t obj fuel
            (ops ++ [⟨t.nextId acc.length, obj, .elem eid, false, .del, reg.map (·.id)⟩]) di
            (dd + regWidth e isText reg) del
            (acc ++ [⟨t.nextId acc.length, obj, .elem eid, false, .del, reg.map (·.id)⟩]) := rfl

/-- **one delete step.**  Appending the delete op of the visible element at position `k` — id
    the `n`-th next id, predecessors all visible ops of the element — keeps the hypotheses and
    removes exactly that element from the visible list. -/
theorem delete_elem_step {ops : List Op} {t : Tx} {obj : ObjId} {k n : Nat} {p : OpId × List Op}
    (hs : StrictIds ops) (hb : CtrBelow ops (t.startOp + t.pending.length + n)) (hr : RefsSmaller ops)
    (hk : (seqRegs ops obj)[k]? = some p) :
    StrictIds (ops ++ [⟨t.nextId n, obj, .elem p.1, false, .del, p.2.map (·.id)⟩]) ∧
    CtrBelow (ops ++ [⟨t.nextId n, obj, .elem p.1, false, .del, p.2.map (·.id)⟩])
      (t.startOp + t.pending.length + (n + 1)) ∧
    RefsSmaller (ops ++ [⟨t.nextId n, obj, .elem p.1, false, .del, p.2.map (·.id)⟩]) ∧
    seqElems (ops ++ [⟨t.nextId n, obj, .elem p.1, false, .del, p.2.map (·.id)⟩]) obj =
      (seqElems ops obj).take k ++ (seqElems ops obj).drop (k + 1) := by
  obtain ⟨id, r⟩ := p
  have hmem : (id, r) ∈ seqRegs ops obj := List.mem_of_getElem? hk
  obtain ⟨c, hc, _, hcid, hreg, hne⟩ := mem_seqRegs hmem
  subst hreg
  let t'' : Tx := ⟨t.actor, t.startOp + t.pending.length + n, []⟩
  have hnext : t''.nextId = t.nextId n := rfl
  obtain ⟨hlt, hnp, _⟩ := hb.fresh (n := t.nextId n) (Nat.le_refl _)
  have htx : TxOp ops (mkElemOp t'' obj id .del (elemRegOps ops obj id)) (elemSel obj id) :=
    txOp_mkElemOp (t := t'') hs hlt hnp (fun x hx => hx)
  show StrictIds (ops ++ [mkElemOp t'' obj id .del (elemRegOps ops obj id)]) ∧
    CtrBelow (ops ++ [mkElemOp t'' obj id .del (elemRegOps ops obj id)]) _ ∧
    RefsSmaller (ops ++ [mkElemOp t'' obj id .del (elemRegOps ops obj id)]) ∧
    seqElems (ops ++ [mkElemOp t'' obj id .del (elemRegOps ops obj id)]) obj = _
  generalize hop : mkElemOp t'' obj id .del (elemRegOps ops obj id) = op at htx ⊢
  have hoid : op.id = t.nextId n := by rw [← hop]; rfl
  have hoobj : op.obj = obj := by rw [← hop]; rfl
  have hokey : op.key = .elem id := by rw [← hop]; rfl
  have hoins : op.insert = false := by rw [← hop]; rfl
  have hopred : op.pred = (elemRegOps ops obj id).map (·.id) := by rw [← hop]; rfl
  have hoval : op.isValue = false := by rw [← hop]; rfl
  have hoinc : op.isInc = false := by rw [← hop]; rfl
  refine ⟨strictIds_append_fresh hs (by rw [hoid]; exact hlt), ?_, ?_, ?_⟩
  · intro x hx
    rcases List.mem_append.mp hx with hx | hx
    · exact (hb.weaken (by omega)) x hx
    · have : x = op := by simpa using hx
      subst this
      refine ⟨by rw [hoid]; show t.startOp + t.pending.length + n < _; omega, ?_, ?_⟩
      · intro q hq
        rw [hopred] at hq
        obtain ⟨y, hy, rfl⟩ := List.mem_map.mp hq
        have hyo : y ∈ ops := by
          rw [elemRegOps_eq] at hy
          exact (mem_regOps.mp hy).1
        have := (hb y hyo).1
        omega
      · rw [hokey]
        have := (hb c (mem_rgaFrom hc).1).1
        rw [hcid] at this
        simp; omega
  · exact refsSmaller_append hr (fun h => by rw [hoins] at h; cases h)
  · have hempty : elemRegister (ops ++ [op]) obj id = [] := by
      rw [elemRegister_eq, htx.delete_all hoval hoinc]
      · rfl
      · intro x hx
        rw [hopred]
        exact List.mem_map.mpr ⟨x, hx, rfl⟩
    have horder := rgaOrder_append_noninsert hr hoins obj
    have hold : elemRegister ops obj id ≠ [] := by
      rw [elemRegister_eq, ← elemRegOps_eq]
      intro h0; exact hne (List.map_eq_nil_iff.mp h0)
    have hget : (seqElems ops obj)[k]? = some (id, elemRegister ops obj id) := by
      rw [seqElems_getElem?, hk]; rfl
    have hnd := seqElems_ids_nodup (rgaOrder_ids_nodup hs hr obj)
    rw [seqElems_replace horder (fun el' hne' => htx.elem_other_elemRegister hoobj hokey hoins (.inr hne')) hold,
      hempty]
    have := filterMap_at_id none hnd hget
    simpa using this

/-- **the delete loop, aligned.**  When the delete position `D` is the end of a run `P` of
    visible elements (seqElems = P ++ S, P is `D` units wide) the loop appends one delete op per
    element of `spliceRemoved … S`, in order, and the visible list becomes `P ++ spliceKept … S`. -/
theorem deleteLoop_aligned (e : Enc) (t : Tx) (obj : ObjId) :
    ∀ (fuel : Nat) (ops : List Op) (D deleted del : Nat) (acc : List Op) (P S : List (OpId × List Entry)),
      StrictIds ops → CtrBelow ops (t.startOp + t.pending.length + acc.length) → RefsSmaller ops →
      seqElems ops obj = P ++ S → elUnits e P = D → del - deleted ≤ fuel →
      deleteLoop e true t obj fuel ops D deleted del acc =
          acc ++ spliceDelOps t obj acc.length (spliceRemoved e (del - deleted) S) ∧
        seqElems (ops ++ spliceDelOps t obj acc.length (spliceRemoved e (del - deleted) S)) obj =
          P ++ spliceKept e (del - deleted) S
  | 0, ops, D, deleted, del, acc, P, S, _, _, _, hL, _, hf => by
    have h0 : del - deleted = 0 := by omega
    rw [h0, spliceRemoved_zero, spliceKept_zero]
    simp [deleteLoop, spliceDelOps, hL]
  | fuel + 1, ops, D, deleted, del, acc, P, S, hs, hb, hr, hL, hD, hf => by
    rw [deleteLoop_succ]
    by_cases hdd : deleted ≥ del
    · have h0 : del - deleted = 0 := by omega
      rw [if_pos hdd, h0, spliceRemoved_zero, spliceKept_zero]
      simp [spliceDelOps, hL]
    · rw [if_neg hdd]
      cases hseek : seekByIndex e true (seqRegs ops obj) D 0 with
      | none =>
        have hu := (seekByIndex_eq_none (Nat.zero_le _)).mp hseek
        rw [unitsLen_eq_elUnits, hL, elUnits_append] at hu
        have hz := elUnits_eq_zero (e := e) (l := S) (by omega)
        rw [spliceRemoved_all_zero e _ hz, spliceKept_all_zero e _ hz]
        simp [spliceDelOps, hL]
      | some res =>
        obtain ⟨eid, reg, start⟩ := res
        simp only []
        obtain ⟨k, hk, hst, hle, hlt⟩ := seekByIndex_some (Nat.zero_le _) hseek
        have hw : regWidth e true reg = elWidth e (regEntry ops (eid, reg)) :=
          regWidth_eq_elWidth (List.mem_of_getElem? hk)
        have hgetL : (P ++ S)[k]? = some (regEntry ops (eid, reg)) := by
          rw [← hL, seqElems_getElem?, hk]; rfl
        rw [Nat.zero_add, unitsLen_take_eq, hL] at hst
        have hsucc := elUnits_take_succ e hgetL
        have hkP : P.length ≤ k := by
          apply Nat.le_of_not_lt
          intro hcon
          rw [List.take_append_of_le_length (show k + 1 ≤ P.length by omega)] at hsucc
          have h2 := elUnits_take_le e P (k + 1)
          omega
        obtain ⟨k', rfl⟩ := Nat.exists_eq_add_of_le hkP
        have htk : (P ++ S).take (P.length + k') = P ++ S.take k' := by
          rw [List.take_append, List.take_of_length_le (by omega)]
          congr 2; omega
        have hdk : (P ++ S).drop (P.length + k' + 1) = S.drop (k' + 1) := by
          rw [List.drop_append, List.drop_of_length_le (by omega)]
          simp only [List.nil_append]
          congr 1; omega
        rw [htk, elUnits_append] at hst
        have hZ := elUnits_eq_zero (e := e) (l := S.take k') (by omega)
        have hS : S[k']? = some (regEntry ops (eid, reg)) := by
          rw [List.getElem?_append_right (by omega)] at hgetL
          simpa using hgetL
        have hk'lt : k' < S.length := (List.getElem?_eq_some_iff.mp hS).1
        have hSk : S[k'] = regEntry ops (eid, reg) := (List.getElem?_eq_some_iff.mp hS).2
        have hSd : S = S.take k' ++ regEntry ops (eid, reg) :: S.drop (k' + 1) := by
          rw [← hSk, ← List.drop_eq_getElem_cons hk'lt, List.take_append_drop]
        have hwpos : 0 < elWidth e (regEntry ops (eid, reg)) := by omega
        rw [if_neg (by omega)]
        obtain ⟨hs', hb', hr', hL'⟩ := delete_elem_step (n := acc.length) hs hb hr hk
        rw [hL, htk, hdk] at hL'
        have ih := deleteLoop_aligned e t obj fuel _ D (deleted + regWidth e true reg) del
          (acc ++ [⟨t.nextId acc.length, obj, .elem eid, false, .del, reg.map (·.id)⟩]) P
          (S.take k' ++ S.drop (k' + 1)) hs' (by simpa using hb') hr'
          (by rw [hL', List.append_assoc]) hD (by omega)
        have hsub : del - (deleted + regWidth e true reg) =
            del - deleted - elWidth e (regEntry ops (eid, reg)) := by omega
        have hrpos : 0 < del - deleted := by omega
        have e1 : spliceRemoved e (del - deleted) S = regEntry ops (eid, reg) ::
            spliceRemoved e (del - deleted - elWidth e (regEntry ops (eid, reg))) (S.drop (k' + 1)) := by
          conv => lhs; rw [hSd]
          rw [spliceRemoved_zero_prefix e _ _ _ hZ, spliceRemoved_cons_pos e _ hrpos hwpos]
        have e2 : spliceRemoved e (del - (deleted + regWidth e true reg)) (S.take k' ++ S.drop (k' + 1)) =
            spliceRemoved e (del - deleted - elWidth e (regEntry ops (eid, reg))) (S.drop (k' + 1)) := by
          rw [hsub, spliceRemoved_zero_prefix e _ _ _ hZ]
        have e3 : spliceKept e (del - deleted) S = S.take k' ++
            spliceKept e (del - deleted - elWidth e (regEntry ops (eid, reg))) (S.drop (k' + 1)) := by
          conv => lhs; rw [hSd]
          rw [spliceKept_zero_prefix e _ _ _ hZ, spliceKept_cons_pos e _ hrpos hwpos]
        have e4 : spliceKept e (del - (deleted + regWidth e true reg)) (S.take k' ++ S.drop (k' + 1)) =
            S.take k' ++
              spliceKept e (del - deleted - elWidth e (regEntry ops (eid, reg))) (S.drop (k' + 1)) := by
          rw [hsub, spliceKept_zero_prefix e _ _ _ hZ]
        rw [e2, e4] at ih
        rw [e1, e3]
        have hids : (regEntry ops (eid, reg)).2.map (·.id) = reg.map (·.id) := regEntry_ids ops (eid, reg)
        have e5 : ∀ X, spliceDelOps t obj acc.length (regEntry ops (eid, reg) :: X) =
            (⟨t.nextId acc.length, obj, .elem eid, false, .del, reg.map (·.id)⟩ : Op) ::
              spliceDelOps t obj (acc.length + 1) X := by
          intro X
          show (⟨t.nextId acc.length, obj, .elem eid, false, .del, (regEntry ops (eid, reg)).2.map (·.id)⟩ : Op) :: _ = _
          rw [hids]
        rw [e5]
        simp only [List.length_append, List.length_cons, List.length_nil, Nat.zero_add] at ih
        obtain ⟨ih1, ih2⟩ := ih
        refine ⟨?_, ?_⟩
        · rw [ih1]; simp
        · rw [← ih2]; simp

end AmVerif.Crdt
