import AmVerif.Proofs.MarksFull
/-
  Helper lemmas for C25 (full agreement clause), the SHAPE of what `marks()` reports: names ascending,
  the ranges of one name ascending and disjoint, non-empty, inside the text, never null, and two ranges
  of one name with the same value are never adjacent (the accumulator merged them) — so every range is
  maximal.
-/
namespace AmVerif.Crdt
open AmVerif

/-! ### mark sets keep their keys strictly ascending (a `BTreeMap`) -/

def MarkSet.SortedKeys (m : MarkSet) : Prop := m.Pairwise (fun a b => bytesLt a.1 b.1 = true)

theorem MarkSet.insert_keys (k : Bytes) (v : Scalar) (m : MarkSet) :
    ∀ q ∈ MarkSet.insert k v m, q.1 = k ∨ ∃ q' ∈ m, q'.1 = q.1 := by
  induction m with
  | nil => intro q hq; simp [MarkSet.insert] at hq; left; rw [hq]
  | cons p rest ih =>
    obtain ⟨k', v'⟩ := p
    intro q hq
    unfold MarkSet.insert at hq
    by_cases h1 : (k == k') = true
    · simp only [h1, if_true] at hq
      rcases List.mem_cons.mp hq with h | h
      · left; rw [h]
      · right; exact ⟨q, List.mem_cons_of_mem _ h, rfl⟩
    · simp only [h1, Bool.false_eq_true, if_false] at hq
      by_cases h2 : bytesLt k k' = true
      · simp only [h2, if_true] at hq
        rcases List.mem_cons.mp hq with h | h
        · left; rw [h]
        · right; exact ⟨q, h, rfl⟩
      · simp only [h2, Bool.false_eq_true, if_false] at hq
        rcases List.mem_cons.mp hq with h | h
        · right; exact ⟨(k', v'), by simp, by rw [h]⟩
        · rcases ih q h with h | ⟨q', hq', he⟩
          · left; exact h
          · right; exact ⟨q', List.mem_cons_of_mem _ hq', he⟩

theorem MarkSet.insert_sorted (k : Bytes) (v : Scalar) {m : MarkSet} (h : m.SortedKeys) : (MarkSet.insert k v m).SortedKeys := by
  induction m with
  | nil => simp [MarkSet.insert, MarkSet.SortedKeys]
  | cons p rest ih =>
    obtain ⟨k', v'⟩ := p
    obtain ⟨hp, hr⟩ := List.pairwise_cons.mp h
    unfold MarkSet.insert
    by_cases h1 : (k == k') = true
    · have hk : k = k' := by simpa using h1
      simp only [h1, if_true]
      exact List.pairwise_cons.mpr ⟨fun q hq => by rw [hk]; exact hp q hq, hr⟩
    · simp only [h1, Bool.false_eq_true, if_false]
      by_cases h2 : bytesLt k k' = true
      · simp only [h2, if_true]
        refine List.pairwise_cons.mpr ⟨?_, h⟩
        intro q hq
        rcases List.mem_cons.mp hq with hq | hq
        · rw [hq]; exact h2
        · exact bytesLt_trans h2 (hp q hq)
      · simp only [h2, Bool.false_eq_true, if_false]
        have hne : k' ≠ k := fun e => h1 (by simp [e])
        have hlt : bytesLt k' k = true := by
          rcases bytesLt_total hne with h | h
          · exact h
          · exact absurd h h2
        refine List.pairwise_cons.mpr ⟨?_, ih hr⟩
        intro q hq
        rcases MarkSet.insert_keys k v rest q hq with h | ⟨q', hq', he⟩
        · rw [h]; exact hlt
        · rw [← he]; exact hp q' hq'

theorem MarkSet.remove_sorted (k : Bytes) {m : MarkSet} (h : m.SortedKeys) : (MarkSet.remove k m).SortedKeys :=
  List.Pairwise.filter _ h

theorem beginCache_sorted {cur : MarkSet} (h : cur.SortedKeys) (a : Bool) (b : Option MarkData) (d : MarkData) :
    (beginCache cur a b d).SortedKeys := by
  unfold beginCache
  cases a
  · cases b with
    | none => exact MarkSet.insert_sorted _ _ h
    | some x =>
      by_cases hv : (x.value != d.value) = true
      · simp only [Bool.false_eq_true, if_false, hv, if_true]; exact MarkSet.insert_sorted _ _ h
      · simp only [Bool.false_eq_true, if_false, hv]; exact h
  · simpa using h

theorem endCache_sorted {cur : MarkSet} (h : cur.SortedKeys) (a : Bool) (b : Option MarkData) (mark : MarkData) :
    (endCache cur a b mark).SortedKeys := by
  unfold endCache
  cases a
  · cases b with
    | none => exact MarkSet.remove_sorted _ h
    | some x =>
      by_cases hv : (x.value == mark.value) = true
      · simp only [Bool.false_eq_true, if_false, hv, if_true]; exact h
      · simp only [Bool.false_eq_true, if_false, hv]; exact MarkSet.insert_sorted _ _ h
  · simpa using h

theorem Msm.step_curSorted {m : Msm} (h : m.current.SortedKeys) (it : Item) : (m.step it).current.SortedKeys := by
  cases it with
  | elem _ _ => exact h
  | mbegin id d =>
    show (m.markBegin id d).current.SortedKeys
    unfold Msm.markBegin
    cases Msm.find m.state id with
    | ok _ => exact h
    | error index => exact beginCache_sorted h _ _ _
  | mend id =>
    show (m.markEnd id).current.SortedKeys
    unfold Msm.markEnd
    cases Msm.find m.state id.prev with
    | error _ => exact h
    | ok index =>
      simp only
      cases m.state[index]? with
      | none => exact h
      | some p => obtain ⟨_, mark⟩ := p; exact endCache_sorted h _ _ _

/-! ### entry lists -/

/-- `a` ends before `b` starts, with a gap when they carry the same value -/
def EntryRel (a b : Nat × Nat × Scalar) : Prop := a.1 + a.2.1 ≤ b.1 ∧ (a.2.2 = b.2.2 → a.1 + a.2.1 < b.1)

structure EntriesOk (B : Nat) (es : List (Nat × Nat × Scalar)) : Prop where
  pw : es.Pairwise EntryRel
  pos : ∀ e ∈ es, 0 < e.2.1 ∧ e.1 + e.2.1 ≤ B

theorem EntriesOk.mono {B B' : Nat} {es : List (Nat × Nat × Scalar)} (h : EntriesOk B es) (hb : B ≤ B') : EntriesOk B' es :=
  ⟨h.pw, fun e he => ⟨(h.pos e he).1, Nat.le_trans (h.pos e he).2 hb⟩⟩

theorem entriesPush_ok {B : Nat} {es : List (Nat × Nat × Scalar)} (h : EntriesOk B es) {index len : Nat} (value : Scalar)
    (hb : B ≤ index) (hl : 0 < len) : EntriesOk (index + len) (entriesPush es index len value) := by
  unfold entriesPush
  cases hg : es.getLast? with
  | none =>
    refine ⟨List.pairwise_singleton _ _, ?_⟩
    intro e he
    have : e = (index, len, value) := by simpa using he
    subst this
    exact ⟨hl, Nat.le_refl _⟩
  | some last =>
    obtain ⟨i0, l0, v0⟩ := last
    obtain ⟨ys, hys⟩ := List.getLast?_eq_some_iff.mp hg
    subst hys
    obtain ⟨hpw1, _, hpw3⟩ := List.pairwise_append.mp h.pw
    have hlast := h.pos (i0, l0, v0) (by simp)
    simp only at hlast
    by_cases hc : (v0 == value && i0 + l0 == index) = true
    · have hi : i0 + l0 = index := by simp at hc; exact hc.2
      simp only [hc, if_true, List.dropLast_concat]
      refine ⟨List.pairwise_append.mpr ⟨hpw1, List.pairwise_singleton _ _, ?_⟩, ?_⟩
      · intro a ha b hb'
        have : b = (i0, l0 + len, v0) := by simpa using hb'
        subst this
        exact hpw3 a ha (i0, l0, v0) (by simp)
      · intro e he
        rcases List.mem_append.mp he with he | he
        · have := h.pos e (List.mem_append_left _ he)
          exact ⟨this.1, by omega⟩
        · have : e = (i0, l0 + len, v0) := by simpa using he
          subst this
          simp only
          exact ⟨by omega, by omega⟩
    · simp only [hc, Bool.false_eq_true, if_false]
      refine ⟨List.pairwise_append.mpr ⟨h.pw, List.pairwise_singleton _ _, ?_⟩, ?_⟩
      · intro a ha b hb'
        have : b = (index, len, value) := by simpa using hb'
        subst this
        have hap := h.pos a ha
        rcases List.mem_append.mp ha with ha' | ha'
        · have hr := hpw3 a ha' (i0, l0, v0) (by simp)
          unfold EntryRel at hr ⊢
          simp only at hr ⊢
          exact ⟨by omega, fun _ => by omega⟩
        · have : a = (i0, l0, v0) := by simpa using ha'
          subst this
          unfold EntryRel
          simp only
          refine ⟨by omega, fun hv => ?_⟩
          have hne : i0 + l0 ≠ index := by
            intro he
            apply hc
            simp [hv, he]
          omega
      · intro e he
        rcases List.mem_append.mp he with he | he
        · have := h.pos e he
          exact ⟨this.1, by omega⟩
        · have : e = (index, len, value) := by simpa using he
          subst this
          exact ⟨hl, Nat.le_refl _⟩

/-! ### the accumulator -/

/-- names strictly ascending; the entries of `name` obey `EntriesOk (bound name)` -/
structure AccOk (bound : Bytes → Nat) (acc : MarkAcc) : Prop where
  keys : acc.Pairwise (fun p q => bytesLt p.1 q.1 = true)
  ents : ∀ p ∈ acc, EntriesOk (bound p.1) p.2

theorem MarkAcc.addOne_keys (index len : Nat) (name : Bytes) (value : Scalar) (acc : MarkAcc) :
    ∀ q ∈ MarkAcc.addOne index len name value acc, q.1 = name ∨ ∃ q' ∈ acc, q'.1 = q.1 := by
  induction acc with
  | nil =>
    intro q hq
    have : MarkAcc.addOne index len name value [] = [(name, [(index, len, value)])] := rfl
    rw [this] at hq
    left
    have : q = (name, [(index, len, value)]) := by simpa using hq
    rw [this]
  | cons p rest ih =>
    obtain ⟨k, entries⟩ := p
    intro q hq
    rw [MarkAcc.addOne_cons] at hq
    by_cases h1 : (k == name) = true
    · simp only [h1, if_true] at hq
      rcases List.mem_cons.mp hq with h | h
      · left; rw [h]; simpa using h1
      · right; exact ⟨q, List.mem_cons_of_mem _ h, rfl⟩
    · simp only [h1, Bool.false_eq_true, if_false] at hq
      by_cases h2 : bytesLt name k = true
      · simp only [h2, if_true] at hq
        rcases List.mem_cons.mp hq with h | h
        · left; rw [h]
        · right; exact ⟨q, h, rfl⟩
      · simp only [h2, Bool.false_eq_true, if_false] at hq
        rcases List.mem_cons.mp hq with h | h
        · right; exact ⟨(k, entries), by simp, by rw [h]⟩
        · rcases ih q h with h | ⟨q', hq', he⟩
          · left; exact h
          · right; exact ⟨q', List.mem_cons_of_mem _ hq', he⟩

theorem MarkAcc.addOne_ok {bound : Bytes → Nat} {acc : MarkAcc} (h : AccOk bound acc) {index len : Nat} (name : Bytes)
    (value : Scalar) (hb : bound name ≤ index) (hl : 0 < len) :
    AccOk (fun k => if k = name then index + len else bound k) (MarkAcc.addOne index len name value acc) := by
  induction acc with
  | nil =>
    have : MarkAcc.addOne index len name value [] = [(name, [(index, len, value)])] := rfl
    rw [this]
    refine ⟨List.pairwise_singleton _ _, ?_⟩
    intro p hp
    have : p = (name, [(index, len, value)]) := by simpa using hp
    subst this
    simp only [if_true]
    refine ⟨List.pairwise_singleton _ _, ?_⟩
    intro e he
    have : e = (index, len, value) := by simpa using he
    subst this
    exact ⟨hl, Nat.le_refl _⟩
  | cons p rest ih =>
    obtain ⟨k, entries⟩ := p
    obtain ⟨hk1, hk2⟩ := List.pairwise_cons.mp h.keys
    have hrest : AccOk bound rest := ⟨hk2, fun p hp => h.ents p (List.mem_cons_of_mem _ hp)⟩
    have hhead := h.ents (k, entries) (by simp)
    simp only at hhead
    -- entries of a name other than `name` keep their bound
    have hother : ∀ p ∈ rest, p.1 ≠ name → EntriesOk (if p.1 = name then index + len else bound p.1) p.2 := by
      intro p hp hne
      simp only [hne, if_false]
      exact h.ents p (List.mem_cons_of_mem _ hp)
    rw [MarkAcc.addOne_cons]
    by_cases h1 : (k == name) = true
    · have hk : k = name := by simpa using h1
      simp only [h1, if_true]
      refine ⟨List.pairwise_cons.mpr ⟨hk1, hk2⟩, ?_⟩
      intro p hp
      rcases List.mem_cons.mp hp with hp | hp
      · subst hp
        simp only [hk, if_true]
        rw [hk] at hhead
        exact entriesPush_ok hhead value hb hl
      · apply hother p hp
        intro he
        have := hk1 p hp
        rw [hk, he, bytesLt_irrefl] at this
        cases this
    · simp only [h1, Bool.false_eq_true, if_false]
      have hne : k ≠ name := fun e => h1 (by simp [e])
      by_cases h2 : bytesLt name k = true
      · simp only [h2, if_true]
        refine ⟨List.pairwise_cons.mpr ⟨?_, h.keys⟩, ?_⟩
        · intro q hq
          rcases List.mem_cons.mp hq with hq | hq
          · rw [hq]; exact h2
          · exact bytesLt_trans h2 (hk1 q hq)
        · intro p hp
          rcases List.mem_cons.mp hp with hp | hp
          · subst hp
            simp only [if_true]
            refine ⟨List.pairwise_singleton _ _, ?_⟩
            intro e he
            have : e = (index, len, value) := by simpa using he
            subst this
            exact ⟨hl, Nat.le_refl _⟩
          · rcases List.mem_cons.mp hp with hp | hp
            · subst hp
              simp only [hne, if_false]
              exact hhead
            · apply hother p hp
              intro he
              have := hk1 p hp
              rw [he] at this
              exact bytesLt_asymm h2 this
      · simp only [h2, Bool.false_eq_true, if_false]
        have hlt : bytesLt k name = true := by
          rcases bytesLt_total hne with h | h
          · exact h
          · exact absurd h h2
        have ih' := ih hrest
        refine ⟨List.pairwise_cons.mpr ⟨?_, ih'.keys⟩, ?_⟩
        · intro q hq
          rcases MarkAcc.addOne_keys index len name value rest q hq with h | ⟨q', hq', he⟩
          · rw [h]; exact hlt
          · rw [← he]; exact hk1 q' hq'
        · intro p hp
          rcases List.mem_cons.mp hp with hp | hp
          · subst hp
            simp only [hne, if_false]
            exact hhead
          · exact ih'.ents p hp

theorem AccOk.mono {bound bound' : Bytes → Nat} {acc : MarkAcc} (h : AccOk bound acc) (hb : ∀ k, bound k ≤ bound' k) :
    AccOk bound' acc :=
  ⟨h.keys, fun p hp => (h.ents p hp).mono (hb p.1)⟩

theorem MarkAcc.add_ok (index len : Nat) (hl : 0 < len) (set : MarkSet) :
    ∀ {bound : Bytes → Nat} {acc : MarkAcc}, AccOk bound acc → (∀ p ∈ set, bound p.1 ≤ index) →
      set.Pairwise (fun a b => a.1 ≠ b.1) →
      AccOk (fun k => if (∃ p ∈ set, p.1 = k) then index + len else bound k) (acc.add index len set) := by
  induction set with
  | nil =>
    intro bound acc h _ _
    simpa [MarkAcc.add] using h
  | cons p rest ih =>
    intro bound acc h hb hd
    obtain ⟨k, x⟩ := p
    obtain ⟨hd1, hd2⟩ := List.pairwise_cons.mp hd
    have : acc.add index len ((k, x) :: rest) = (MarkAcc.addOne index len k x acc).add index len rest := rfl
    rw [this]
    have h1 := MarkAcc.addOne_ok h k x (hb (k, x) (by simp)) hl
    have h2 := ih h1 (by
      intro p hp
      have hne : p.1 ≠ k := fun e => hd1 p hp e.symm
      simp only [hne, if_false]
      exact hb p (List.mem_cons_of_mem _ hp)) hd2
    refine h2.mono ?_
    intro k'
    show (if (∃ p ∈ rest, p.1 = k') then index + len else if k' = k then index + len else bound k') ≤
         (if (∃ p ∈ (k, x) :: rest, p.1 = k') then index + len else bound k')
    by_cases ha : ∃ p ∈ rest, p.1 = k'
    · have hb' : ∃ p ∈ (k, x) :: rest, p.1 = k' := by
        obtain ⟨p, hp, he⟩ := ha
        exact ⟨p, List.mem_cons_of_mem _ hp, he⟩
      rw [if_pos ha, if_pos hb']
      exact Nat.le_refl _
    · rw [if_neg ha]
      by_cases hk : k' = k
      · have hb' : ∃ p ∈ (k, x) :: rest, p.1 = k' := ⟨(k, x), by simp, hk.symm⟩
        rw [if_pos hk, if_pos hb']
        exact Nat.le_refl _
      · have hb' : ¬ ∃ p ∈ (k, x) :: rest, p.1 = k' := by
          rintro ⟨p, hp, he⟩
          rcases List.mem_cons.mp hp with hp | hp
          · apply hk; rw [← he, hp]
          · exact ha ⟨p, hp, he⟩
        rw [if_neg hk, if_neg hb']
        exact Nat.le_refl _

theorem MarkSet.SortedKeys.distinct {m : MarkSet} (h : m.SortedKeys) : m.Pairwise (fun a b => a.1 ≠ b.1) := by
  refine List.Pairwise.imp ?_ h
  intro a b hab he
  rw [he, bytesLt_irrefl] at hab
  cases hab

/-! ### the walk -/

structure MarksWalk.Shape (w : MarksWalk) : Prop where
  cur : w.msm.current.SortedKeys
  last : ∀ m, w.lastMarks = some m → m.SortedKeys
  seg : w.markIndex + w.markLen = w.index
  acc : AccOk (fun _ => w.markIndex) w.acc

theorem MarksWalk.shape_empty : MarksWalk.Shape {} := by
  refine ⟨List.Pairwise.nil, ?_, rfl, ⟨List.Pairwise.nil, ?_⟩⟩
  · intro m h; cases h
  · intro p hp; cases hp

theorem Msm.cur_sorted {m : Msm} (h : m.current.SortedKeys) : ∀ s, m.cur = some s → s.SortedKeys := by
  intro s hs
  unfold Msm.cur at hs
  by_cases he : m.current.isEmpty = true
  · simp [he] at hs
  · simp only [he, Bool.false_eq_true, if_false, Option.some.injEq] at hs
    rw [← hs]; exact h

/-- the pending segment flushed into the accumulator: every entry ends at or before the walk's index -/
theorem MarksWalk.flushAcc_ok {w : MarksWalk} (h : w.Shape) : AccOk (fun _ => w.index) w.flushAcc := by
  unfold MarksWalk.flushAcc
  have hmono : AccOk (fun _ => w.index) w.acc := h.acc.mono (fun _ => by have := h.seg; omega)
  cases hl : w.lastMarks with
  | none => exact hmono
  | some m =>
    by_cases hp : w.markLen > 0
    · simp only [hp, if_true]
      have := MarkAcc.add_ok w.markIndex w.markLen hp m h.acc (fun _ _ => Nat.le_refl _) (h.last m hl).distinct
      refine this.mono ?_
      intro k
      have := h.seg
      by_cases hk : ∃ p ∈ m, p.1 = k
      · simp only [hk, if_true]; omega
      · simp only [hk, if_false]; omega
    · simp only [hp, if_false]
      exact hmono

theorem MarksWalk.step_shape (wf : Op → Nat) {w : MarksWalk} (h : w.Shape) (it : Item) : (w.step wf it).Shape := by
  cases it with
  | mbegin id d => exact ⟨Msm.step_curSorted h.cur _, h.last, h.seg, h.acc⟩
  | mend id => exact ⟨Msm.step_curSorted h.cur _, h.last, h.seg, h.acc⟩
  | elem e t =>
    by_cases hc : (w.lastMarks != w.msm.cur) = true
    · have hstep : w.step wf (.elem e t) =
          { w with acc := w.flushAcc, lastMarks := w.msm.cur, markIndex := w.index, markLen := wf t, index := w.index + wf t } := by
        simp only [MarksWalk.step, hc, if_true, MarksWalk.flushAcc, Nat.zero_add]
        rfl
      rw [hstep]
      exact ⟨h.cur, Msm.cur_sorted h.cur, rfl, MarksWalk.flushAcc_ok h⟩
    · have hstep : w.step wf (.elem e t) = { w with markLen := w.markLen + wf t, index := w.index + wf t } := by
        simp only [MarksWalk.step, hc, Bool.false_eq_true, if_false]
      rw [hstep]
      refine ⟨h.cur, h.last, ?_, h.acc⟩
      show w.markIndex + (w.markLen + wf t) = w.index + wf t
      have := h.seg
      omega

theorem MarksWalk.foldl_shape (wf : Op → Nat) (its : List Item) : ∀ {w : MarksWalk}, w.Shape → (its.foldl (MarksWalk.step wf) w).Shape := by
  induction its with
  | nil => intro w h; exact h
  | cons it rest ih => intro w h; exact ih (MarksWalk.step_shape wf h it)

/-! ### the reported list -/

/-- order of the reported marks: by name; within a name by position, disjoint, and with a gap between two
    ranges that carry the same value -/
def MarkBefore (a b : Mark) : Prop :=
  bytesLt a.name b.name = true ∨ (a.name = b.name ∧ a.stop ≤ b.start ∧ (a.value = b.value → a.stop < b.start))

theorem MarkAcc.toMarks_shape {B : Nat} {acc : MarkAcc} (h : AccOk (fun _ => B) acc) :
    acc.toMarks.Pairwise MarkBefore ∧ ∀ r ∈ acc.toMarks, r.start < r.stop ∧ r.stop ≤ B ∧ r.value ≠ .null := by
  unfold MarkAcc.toMarks
  constructor
  · apply List.pairwise_flatMap.mpr
    constructor
    · intro p hp
      apply List.pairwise_map.mpr
      apply List.Pairwise.filter
      refine List.Pairwise.imp ?_ (h.ents p hp).pw
      intro a b hab
      right
      exact ⟨rfl, hab.1, hab.2⟩
    · refine List.Pairwise.imp ?_ h.keys
      intro p q hpq x hx y hy
      obtain ⟨a, _, rfl⟩ := List.mem_map.mp hx
      obtain ⟨b, _, rfl⟩ := List.mem_map.mp hy
      left
      exact hpq
  · intro r hr
    obtain ⟨p, hp, hr⟩ := List.mem_flatMap.mp hr
    obtain ⟨x, hx, rfl⟩ := List.mem_map.mp hr
    obtain ⟨hx1, hx2⟩ := List.mem_filter.mp hx
    have := (h.ents p hp).pos x hx1
    simp only
    exact ⟨by omega, this.2, by simpa using hx2⟩

/-- shape of `marks()` over an arbitrary item walk -/
theorem marksWalk_shape (wf : Op → Nat) (its : List Item) :
    let L := ((its.foldl (MarksWalk.step wf) {}).flushAcc).toMarks
    L.Pairwise MarkBefore ∧ ∀ r ∈ L, r.start < r.stop ∧ r.stop ≤ itemsWidth wf its ∧ r.value ≠ .null := by
  intro L
  have hs := MarksWalk.foldl_shape wf its MarksWalk.shape_empty
  have hi := (MarksWalk.foldl_inv wf its [] {} (MarksWalk.inv_empty wf)).index
  simp only [List.nil_append] at hi
  have := MarkAcc.toMarks_shape (MarksWalk.flushAcc_ok hs)
  rw [hi] at this
  exact this

/-! ### small facts used by the property theorems -/

/-- every unit index of the text lies in the unit range of exactly one element of the item walk -/
theorem unit_in_element (wf : Op → Nat) : ∀ (its : List Item) (i : Nat), i < itemsWidth wf its →
    ∃ pre e t post, its = pre ++ .elem e t :: post ∧ itemsWidth wf pre ≤ i ∧ i < itemsWidth wf pre + wf t := by
  intro its
  induction its with
  | nil => intro i h; simp [itemsWidth] at h
  | cons it rest ih =>
    intro i h
    cases it with
    | mbegin id d =>
      obtain ⟨pre, e, t, post, h1, h2, h3⟩ := ih i (by simpa [itemsWidth] using h)
      exact ⟨.mbegin id d :: pre, e, t, post, by rw [h1]; rfl, by simpa [itemsWidth] using h2, by simpa [itemsWidth] using h3⟩
    | mend id =>
      obtain ⟨pre, e, t, post, h1, h2, h3⟩ := ih i (by simpa [itemsWidth] using h)
      exact ⟨.mend id :: pre, e, t, post, by rw [h1]; rfl, by simpa [itemsWidth] using h2, by simpa [itemsWidth] using h3⟩
    | elem e t =>
      by_cases hlt : i < wf t
      · exact ⟨[], e, t, rest, rfl, by simp [itemsWidth], by simpa [itemsWidth] using hlt⟩
      · simp only [itemsWidth] at h
        obtain ⟨pre, e', t', post, h1, h2, h3⟩ := ih (i - wf t) (by omega)
        refine ⟨.elem e t :: pre, e', t', post, by rw [h1]; rfl, ?_, ?_⟩
        · simp only [itemsWidth]; omega
        · simp only [itemsWidth]; omega

theorem pairwise_mem_cases {α : Type} {R : α → α → Prop} {l : List α} (h : l.Pairwise R) {a b : α} (ha : a ∈ l) (hb : b ∈ l) :
    a = b ∨ R a b ∨ R b a := by
  induction l with
  | nil => cases ha
  | cons x xs ih =>
    obtain ⟨hx, hxs⟩ := List.pairwise_cons.mp h
    rcases List.mem_cons.mp ha with ha | ha <;> rcases List.mem_cons.mp hb with hb | hb
    · left; rw [ha, hb]
    · right; left; rw [ha]; exact hx b hb
    · right; right; rw [hb]; exact hx a ha
    · exact ih hxs ha hb

end AmVerif.Crdt
