import AmVerif.Model.Anon
import AmVerif.Proofs.Spec
/-
  Proofs for C31: every `Spec` observable commutes with a renaming `ρ` whose actor map preserves
  and reflects byte order on the actors that occur, whose key map is injective on the keys of each
  object and whose value map keeps constructors.

  §1 occurrence bookkeeping   §2 order / injectivity on occurring ids   §3 predicates, visibility
  §4 filter / sort commute    §5 registers, keys                        §6 RGA, sequences
  §7 shape                    §8 change graph                           §9 `actor_map` construction
-/
namespace AmVerif.Crdt
open AmVerif

/-! ## §1 what occurs -/

section Occ
variable {ops : List Op} {o : Op}

theorem id_mem_idsOf (ho : o ∈ ops) : o.id ∈ idsOf ops :=
  List.mem_flatMap.mpr ⟨o, ho, List.mem_cons_self⟩

theorem pred_mem_idsOf (ho : o ∈ ops) {x : OpId} (hx : x ∈ o.pred) : x ∈ idsOf ops :=
  List.mem_flatMap.mpr ⟨o, ho, by simp [Op.ids, hx]⟩

theorem obj_mem_idsOf (ho : o ∈ ops) {x : OpId} (h : o.obj = .id x) : x ∈ idsOf ops :=
  List.mem_flatMap.mpr ⟨o, ho, by simp [Op.ids, h]⟩

theorem key_mem_idsOf (ho : o ∈ ops) {e : OpId} (h : o.key = .elem e) : e ∈ idsOf ops :=
  List.mem_flatMap.mpr ⟨o, ho, by simp [Op.ids, h]⟩

theorem objOcc_of_mem (ho : o ∈ ops) : ObjOcc ops o.obj := by
  cases h : o.obj with
  | root => trivial
  | id x => exact obj_mem_idsOf ho h

theorem objOcc_id_of_mem (ho : o ∈ ops) : ObjOcc ops (.id o.id) := id_mem_idsOf ho

theorem elem_mem_idsOf (ho : o ∈ ops) {e : OpId} (h : o.elem = some e) : e ∈ idsOf ops := by
  unfold Op.elem at h
  split at h
  · cases h; exact id_mem_idsOf ho
  · split at h
    · rename_i e' hk; cases h; exact key_mem_idsOf ho hk
    · cases h

end Occ

/-! ## §2 order and injectivity on the ids that occur -/

/-- `OpId` order is preserved and reflected on the ids that occur -/
def IdMono (ρ : Ren) (ops : List Op) : Prop :=
  ∀ x ∈ idsOf ops, ∀ y ∈ idsOf ops, (ρ.id x).lt (ρ.id y) = x.lt y

theorem ActorMono.idMono {ρ : Ren} {ops : List Op} (h : ActorMono ρ ops) : IdMono ρ ops := by
  intro x hx y hy
  have := h x.actor (List.mem_map_of_mem hx) y.actor (List.mem_map_of_mem hy)
  show (decide (x.ctr < y.ctr) || (x.ctr == y.ctr && bytesLt (ρ.actor x.actor) (ρ.actor y.actor))) = _
  rw [this]; rfl

section Inj
variable {ρ : Ren} {ops : List Op}

theorem IdMono.inj (h : IdMono ρ ops) {x y : OpId} (hx : x ∈ idsOf ops) (hy : y ∈ idsOf ops)
    (e : ρ.id x = ρ.id y) : x = y := by
  apply Classical.byContradiction
  intro hne
  rcases OpId.lt_total hne with l | l
  · have := h x hx y hy
    rw [e, OpId.lt_irrefl, l] at this; cases this
  · have := h y hy x hx
    rw [e, OpId.lt_irrefl, l] at this; cases this

theorem IdMono.id_eq_iff (h : IdMono ρ ops) {x y : OpId} (hx : x ∈ idsOf ops) (hy : y ∈ idsOf ops) :
    ρ.id x = ρ.id y ↔ x = y := ⟨h.inj hx hy, fun e => by rw [e]⟩

theorem IdMono.obj_eq_iff (h : IdMono ρ ops) {a b : ObjId} (ha : ObjOcc ops a) (hb : ObjOcc ops b) :
    ρ.obj a = ρ.obj b ↔ a = b := by
  cases a <;> cases b <;> simp only [Ren.obj, ObjId.id.injEq, reduceCtorEq]
  exact h.id_eq_iff ha hb

theorem beq_eq_beq_of_iff {α β : Type} [BEq α] [LawfulBEq α] [BEq β] [LawfulBEq β] {a b : α} {c d : β}
    (h : a = b ↔ c = d) : (a == b) = (c == d) := by
  rw [Bool.eq_iff_iff]; simp only [beq_iff_eq]; exact h

theorem contains_map_of_inj {α β : Type} [BEq α] [LawfulBEq α] [BEq β] [LawfulBEq β] {f : α → β}
    {l : List α} {a : α} (h : ∀ x ∈ l, f x = f a → x = a) : (l.map f).contains (f a) = l.contains a := by
  rw [Bool.eq_iff_iff]
  simp only [List.contains_iff_mem, List.mem_map]
  constructor
  · rintro ⟨x, hx, e⟩; rw [← h x hx e]; exact hx
  · intro ha; exact ⟨a, ha, rfl⟩

end Inj

/-! ## §3 predicates and visibility -/

section Pred
variable {ρ : Ren} {ops : List Op}

@[simp] theorem mapOp_id (o : Op) : (mapOp ρ o).id = ρ.id o.id := rfl
@[simp] theorem mapOp_obj (o : Op) : (mapOp ρ o).obj = ρ.obj o.obj := rfl
@[simp] theorem mapOp_key (o : Op) : (mapOp ρ o).key = ρ.keyOf o.key := rfl
@[simp] theorem mapOp_insert (o : Op) : (mapOp ρ o).insert = o.insert := rfl
@[simp] theorem mapOp_pred (o : Op) : (mapOp ρ o).pred = o.pred.map ρ.id := rfl
theorem mapOp_action (o : Op) : (mapOp ρ o).action = ρ.action o.id o.action := rfl

@[simp] theorem mapOp_isInc (o : Op) : (mapOp ρ o).isInc = o.isInc := by
  rcases o with ⟨i, ob, k, ins, act, pr⟩; cases act <;> rfl
@[simp] theorem mapOp_isDel (o : Op) : (mapOp ρ o).isDel = o.isDel := by
  rcases o with ⟨i, ob, k, ins, act, pr⟩; cases act <;> rfl
@[simp] theorem mapOp_isMark (o : Op) : (mapOp ρ o).isMark = o.isMark := by
  rcases o with ⟨i, ob, k, ins, act, pr⟩; cases act <;> rfl
@[simp] theorem mapOp_isValue (o : Op) : (mapOp ρ o).isValue = o.isValue := by
  rcases o with ⟨i, ob, k, ins, act, pr⟩; cases act <;> rfl

theorem isCounterPut_eq (o : Op) :
    o.isCounterPut = (match o.action with | .put v => v.kind == 7 | _ => false) := by
  rcases o with ⟨i, ob, k, ins, act, pr⟩
  cases act with
  | put v =>
    cases v <;> simp [Op.isCounterPut, Scalar.kind]
    omega
  | _ => rfl

theorem mapOp_isCounterPut (hk : KindPres ρ ops) {o : Op} (ho : o ∈ ops) :
    (mapOp ρ o).isCounterPut = o.isCounterPut := by
  rw [isCounterPut_eq, isCounterPut_eq, mapOp_action]
  cases ha : o.action with
  | put v => simp only [Ren.action]; rw [hk o ho v ha]
  | _ => rfl

theorem mapOp_elem (o : Op) : (mapOp ρ o).elem = o.elem.map ρ.id := by
  rcases o with ⟨i, ob, k, ins, act, pr⟩
  cases ins <;> cases k <;> rfl

theorem overwrites_map (hm : IdMono ρ ops) (hk : KindPres ρ ops) {p o : Op} (hp : p ∈ ops) (ho : o ∈ ops) :
    overwrites (mapOp ρ p) (mapOp ρ o) = overwrites p o := by
  unfold overwrites
  rw [mapOp_isInc, mapOp_isCounterPut hk ho, mapOp_pred, mapOp_id,
    contains_map_of_inj (fun x hx e => hm.inj (pred_mem_idsOf hp hx) (id_mem_idsOf ho) e)]

theorem overwritten_map (hm : IdMono ρ ops) (hk : KindPres ρ ops) {o : Op} (ho : o ∈ ops) :
    overwritten (ops.map (mapOp ρ)) (mapOp ρ o) = overwritten ops o := by
  unfold overwritten
  rw [List.any_map, Bool.eq_iff_iff]
  simp only [List.any_eq_true, Function.comp]
  constructor
  · rintro ⟨p, hp, h⟩; exact ⟨p, hp, by rw [← overwrites_map hm hk hp ho]; exact h⟩
  · rintro ⟨p, hp, h⟩; exact ⟨p, hp, by rw [overwrites_map hm hk hp ho]; exact h⟩

/-- **visibility commutes with the renaming** -/
theorem visible_map (hm : IdMono ρ ops) (hk : KindPres ρ ops) {o : Op} (ho : o ∈ ops) :
    visible (ops.map (mapOp ρ)) (mapOp ρ o) = visible ops o := by
  unfold visible
  rw [mapOp_isValue, overwritten_map hm hk ho]

/-- increments are re-drawn, but *which* increments apply to a counter is kept -/
theorem counterIncs_map (hm : IdMono ρ ops) {o : Op} (ho : o ∈ ops) :
    (ops.map (mapOp ρ)).filter (fun p => p.isInc && p.pred.contains (mapOp ρ o).id) =
      (ops.filter (fun p => p.isInc && p.pred.contains o.id)).map (mapOp ρ) := by
  rw [List.filter_map]
  congr 1
  apply List.filter_congr
  intro p hp
  simp only [Function.comp, mapOp_isInc, mapOp_pred, mapOp_id]
  rw [contains_map_of_inj (fun x hx e => hm.inj (pred_mem_idsOf hp hx) (id_mem_idsOf ho) e)]

end Pred

/-! ## §4 filtering and sorting commute with an order-preserving map -/

theorem filter_map_comm {f : Op → Op} {p' p : Op → Bool} {l : List Op}
    (h : ∀ o ∈ l, p' (f o) = p o) : (l.map f).filter p' = (l.filter p).map f := by
  rw [List.filter_map]
  congr 1
  exact List.filter_congr h

theorem insertById_map {f : Op → Op} {o : Op} {l : List Op}
    (hm : ∀ x ∈ l, (f o).id.lt (f x).id = o.id.lt x.id) :
    insertById (f o) (l.map f) = (insertById o l).map f := by
  induction l with
  | nil => rfl
  | cons x xs ih =>
    simp only [List.map_cons, insertById, hm x List.mem_cons_self]
    split
    · rfl
    · rw [List.map_cons, ih (fun y hy => hm y (List.mem_cons_of_mem _ hy))]

theorem sortById_map {f : Op → Op} {l : List Op}
    (hm : ∀ x ∈ l, ∀ y ∈ l, (f x).id.lt (f y).id = x.id.lt y.id) :
    sortById (l.map f) = (sortById l).map f := by
  induction l with
  | nil => rfl
  | cons x xs ih =>
    show insertById (f x) (sortById (xs.map f)) = (insertById x (sortById xs)).map f
    rw [ih (fun a ha b hb => hm a (List.mem_cons_of_mem _ ha) b (List.mem_cons_of_mem _ hb))]
    exact insertById_map (fun y hy => hm x List.mem_cons_self y (List.mem_cons_of_mem _ (mem_sortById.mp hy)))

/-- filter-then-sort, the common shape of registers and sibling lists -/
theorem sortFilter_map {ρ : Ren} {ops : List Op} (hm : IdMono ρ ops) {p' p : Op → Bool}
    (h : ∀ o ∈ ops, p' (mapOp ρ o) = p o) :
    sortById ((ops.map (mapOp ρ)).filter p') = (sortById (ops.filter p)).map (mapOp ρ) := by
  rw [filter_map_comm h]
  apply sortById_map
  intro x hx y hy
  exact hm x.id (id_mem_idsOf (List.mem_filter.mp hx).1) y.id (id_mem_idsOf (List.mem_filter.mp hy).1)

/-! ## §5 registers and keys -/

section Reg
variable {ρ : Ren} {ops : List Op}

theorem keyOf_map_eq_iff (hki : KeyInj ρ ops) {o w : Op} (ho : o ∈ ops) (hw : w ∈ ops) (hobj : o.obj = w.obj)
    {k : Bytes} (hwk : w.key = .map k) : ρ.keyOf o.key = .map (ρ.key k) ↔ o.key = .map k := by
  cases hok : o.key with
  | map l =>
    simp only [Ren.keyOf, Key.map.injEq]
    exact ⟨hki o ho w hw hobj l k hok hwk, fun e => by rw [e]⟩
  | head => simp [Ren.keyOf]
  | elem e => simp [Ren.keyOf]

/-- the predicate selecting the operations of map key `k` of `obj` commutes -/
theorem mapSel_map (hm : IdMono ρ ops) (hki : KeyInj ρ ops) (hk : KindPres ρ ops) {obj : ObjId}
    (hobj : ObjOcc ops obj) {k : Bytes} (hkin : ∃ w ∈ ops, w.obj = obj ∧ w.key = .map k) {o : Op} (ho : o ∈ ops) :
    ((mapOp ρ o).obj == ρ.obj obj && (mapOp ρ o).key == .map (ρ.key k) && visible (ops.map (mapOp ρ)) (mapOp ρ o)) =
      (o.obj == obj && o.key == .map k && visible ops o) := by
  obtain ⟨w, hw, hwo, hwk⟩ := hkin
  have e1 : (ρ.obj o.obj == ρ.obj obj) = (o.obj == obj) :=
    beq_eq_beq_of_iff (hm.obj_eq_iff (objOcc_of_mem ho) hobj)
  rw [mapOp_obj, mapOp_key, e1, visible_map hm hk ho]
  by_cases hoo : o.obj = obj
  · have e2 : (ρ.keyOf o.key == .map (ρ.key k)) = (o.key == .map k) :=
      beq_eq_beq_of_iff (keyOf_map_eq_iff hki ho hw (hoo.trans hwo.symm) hwk)
    rw [e2]
  · have : (o.obj == obj) = false := by simpa using hoo
    simp [this]

/-- **map registers commute**: the visible operations of key `ρ k` are the images of those of `k` -/
theorem mapRegOps_map (hm : IdMono ρ ops) (hki : KeyInj ρ ops) (hk : KindPres ρ ops) {obj : ObjId}
    (hobj : ObjOcc ops obj) {k : Bytes} (hkin : ∃ w ∈ ops, w.obj = obj ∧ w.key = .map k) :
    mapRegOps (ops.map (mapOp ρ)) (ρ.obj obj) (ρ.key k) = (mapRegOps ops obj k).map (mapOp ρ) := by
  unfold mapRegOps
  exact sortFilter_map hm (fun o ho => mapSel_map hm hki hk hobj hkin ho)

theorem mapRegister_eq (ops : List Op) (obj : ObjId) (k : Bytes) :
    mapRegister ops obj k = (mapRegOps ops obj k).map (entryOf ops) := rfl

theorem elemRegister_eq (ops : List Op) (obj : ObjId) (e : OpId) :
    elemRegister ops obj e = (elemRegOps ops obj e).map (entryOf ops) := rfl

theorem elemSel_map (hm : IdMono ρ ops) (hk : KindPres ρ ops) {obj : ObjId}
    (hobj : ObjOcc ops obj) {e : OpId} (he : e ∈ idsOf ops) {o : Op} (ho : o ∈ ops) :
    ((mapOp ρ o).obj == ρ.obj obj && (mapOp ρ o).elem == some (ρ.id e) && visible (ops.map (mapOp ρ)) (mapOp ρ o)) =
      (o.obj == obj && o.elem == some e && visible ops o) := by
  have e1 : (ρ.obj o.obj == ρ.obj obj) = (o.obj == obj) :=
    beq_eq_beq_of_iff (hm.obj_eq_iff (objOcc_of_mem ho) hobj)
  have e2 : ((o.elem.map ρ.id) == some (ρ.id e)) = (o.elem == some e) := by
    apply beq_eq_beq_of_iff
    cases hoe : o.elem with
    | none => simp
    | some x =>
      simp only [Option.map_some, Option.some.injEq]
      exact hm.id_eq_iff (elem_mem_idsOf ho hoe) he
  rw [mapOp_obj, mapOp_elem, e1, e2, visible_map hm hk ho]

/-- **element registers commute** -/
theorem elemRegOps_map (hm : IdMono ρ ops) (hk : KindPres ρ ops) {obj : ObjId}
    (hobj : ObjOcc ops obj) {e : OpId} (he : e ∈ idsOf ops) :
    elemRegOps (ops.map (mapOp ρ)) (ρ.obj obj) (ρ.id e) = (elemRegOps ops obj e).map (mapOp ρ) := by
  unfold elemRegOps
  exact sortFilter_map hm (fun o ho => elemSel_map hm hk hobj he ho)

theorem mem_mapRegOps {obj : ObjId} {k : Bytes} {o : Op} (h : o ∈ mapRegOps ops obj k) : o ∈ ops :=
  (List.mem_filter.mp (mem_sortById.mp h)).1

theorem mem_elemRegOps {obj : ObjId} {e : OpId} {o : Op} (h : o ∈ elemRegOps ops obj e) : o ∈ ops :=
  (List.mem_filter.mp (mem_sortById.mp h)).1

/-- membership of the renamed key list -/
theorem mem_mapKeys_map (hm : IdMono ρ ops) (hk : KindPres ρ ops) {obj : ObjId} (hobj : ObjOcc ops obj) {k' : Bytes} :
    k' ∈ mapKeys (ops.map (mapOp ρ)) (ρ.obj obj) ↔ k' ∈ (mapKeys ops obj).map ρ.key := by
  rw [mem_mapKeys, List.mem_map]
  constructor
  · rintro ⟨o', ho', h₁, h₂, h₃⟩
    obtain ⟨o, ho, rfl⟩ := List.mem_map.mp ho'
    rw [mapOp_obj] at h₁
    rw [mapOp_key] at h₂
    rw [visible_map hm hk ho] at h₃
    have hoo := (hm.obj_eq_iff (objOcc_of_mem ho) hobj).mp h₁
    cases hok : o.key with
    | map k =>
      rw [hok] at h₂
      simp only [Ren.keyOf, Key.map.injEq] at h₂
      exact ⟨k, mem_mapKeys.mpr ⟨o, ho, hoo, hok, h₃⟩, h₂⟩
    | head => rw [hok] at h₂; simp [Ren.keyOf] at h₂
    | elem e => rw [hok] at h₂; simp [Ren.keyOf] at h₂
  · rintro ⟨k, hkm, rfl⟩
    obtain ⟨o, ho, h₁, h₂, h₃⟩ := mem_mapKeys.mp hkm
    refine ⟨mapOp ρ o, List.mem_map_of_mem ho, ?_, ?_, ?_⟩
    · rw [mapOp_obj, h₁]
    · rw [mapOp_key, h₂]; rfl
    · rw [visible_map hm hk ho]; exact h₃

theorem nodup_of_sorted {l : List Bytes} (h : l.Pairwise (fun a b => bytesLt a b = true)) : l.Nodup :=
  List.Pairwise.imp (fun {a b} hlt he => by rw [he, bytesLt_irrefl] at hlt; cases hlt) h

/-- **the key set commutes**: key *order* changes, the keys are the images (as a permutation) -/
theorem mapKeys_map_perm (hm : IdMono ρ ops) (hki : KeyInj ρ ops) (hk : KindPres ρ ops) {obj : ObjId}
    (hobj : ObjOcc ops obj) :
    (mapKeys (ops.map (mapOp ρ)) (ρ.obj obj)).Perm ((mapKeys ops obj).map ρ.key) := by
  rw [List.perm_ext_iff_of_nodup (nodup_of_sorted (mapKeys_sorted _ _))]
  · intro a; exact mem_mapKeys_map hm hk hobj
  · unfold List.Nodup
    rw [List.pairwise_map]
    refine List.Pairwise.imp_of_mem ?_ (mapKeys_sorted ops obj)
    intro a b ha hb hlt he
    obtain ⟨o, ho, h₁, h₂, _⟩ := mem_mapKeys.mp ha
    obtain ⟨p, hp, g₁, g₂, _⟩ := mem_mapKeys.mp hb
    have := hki o ho p hp (h₁.trans g₁.symm) a b h₂ g₂ he
    rw [this, bytesLt_irrefl] at hlt; cases hlt

theorem mapKeys_map_length (hm : IdMono ρ ops) (hki : KeyInj ρ ops) (hk : KindPres ρ ops) {obj : ObjId}
    (hobj : ObjOcc ops obj) :
    (mapKeys (ops.map (mapOp ρ)) (ρ.obj obj)).length = (mapKeys ops obj).length := by
  rw [(mapKeys_map_perm hm hki hk hobj).length_eq, List.length_map]

end Reg

/-! ## §6 RGA order and sequences -/

theorem flatMap_congr_mem {α β : Type} {l : List α} {f g : α → List β} (h : ∀ a ∈ l, f a = g a) :
    l.flatMap f = l.flatMap g := by
  induction l with
  | nil => rfl
  | cons x xs ih =>
    simp only [List.flatMap_cons]
    rw [h x List.mem_cons_self, ih (fun a ha => h a (List.mem_cons_of_mem _ ha))]

theorem filterMap_congr_mem {α β : Type} {l : List α} {f g : α → Option β} (h : ∀ a ∈ l, f a = g a) :
    l.filterMap f = l.filterMap g := by
  induction l with
  | nil => rfl
  | cons x xs ih =>
    simp only [List.filterMap_cons]
    rw [h x List.mem_cons_self, ih (fun a ha => h a (List.mem_cons_of_mem _ ha))]

section Rga
variable {ρ : Ren} {ops : List Op}

/-- a reference key of a sequence: the head or an element that occurs -/
def SeqKeyOcc (ops : List Op) : Key → Prop
  | .map _ => False
  | .head => True
  | .elem e => e ∈ idsOf ops

theorem keyOf_seq_eq_iff (hm : IdMono ρ ops) {o : Op} (ho : o ∈ ops) {parent : Key}
    (hp : SeqKeyOcc ops parent) : ρ.keyOf o.key = ρ.keyOf parent ↔ o.key = parent := by
  cases hok : o.key with
  | map l =>
    cases parent with
    | map k => exact hp.elim
    | head => simp [Ren.keyOf]
    | elem e => simp [Ren.keyOf]
  | head =>
    cases parent with
    | map k => exact hp.elim
    | head => simp [Ren.keyOf]
    | elem e => simp [Ren.keyOf]
  | elem x =>
    cases parent with
    | map k => exact hp.elim
    | head => simp [Ren.keyOf]
    | elem e =>
      simp only [Ren.keyOf, Key.elem.injEq]
      exact hm.id_eq_iff (key_mem_idsOf ho hok) hp

/-- **sibling lists commute** (sibling order depends only on id order) -/
theorem children_map (hm : IdMono ρ ops) {obj : ObjId} (hobj : ObjOcc ops obj) {parent : Key}
    (hp : SeqKeyOcc ops parent) :
    children (ops.map (mapOp ρ)) (ρ.obj obj) (ρ.keyOf parent) = (children ops obj parent).map (mapOp ρ) := by
  unfold children
  have h : ∀ o ∈ ops, (fun o : Op => o.obj == ρ.obj obj && o.insert && o.key == ρ.keyOf parent) (mapOp ρ o) =
      (fun o : Op => o.obj == obj && o.insert && o.key == parent) o := by
    intro o ho
    show ((mapOp ρ o).obj == ρ.obj obj && (mapOp ρ o).insert && (mapOp ρ o).key == ρ.keyOf parent) = _
    rw [mapOp_obj, mapOp_insert, mapOp_key, beq_eq_beq_of_iff (hm.obj_eq_iff (objOcc_of_mem ho) hobj),
      beq_eq_beq_of_iff (keyOf_seq_eq_iff hm ho hp)]
  rw [sortFilter_map hm h, List.map_reverse]

theorem rgaFrom_map (hm : IdMono ρ ops) {obj : ObjId} (hobj : ObjOcc ops obj) :
    ∀ (fuel : Nat) (parent : Key), SeqKeyOcc ops parent →
      rgaFrom (ops.map (mapOp ρ)) (ρ.obj obj) fuel (ρ.keyOf parent) = (rgaFrom ops obj fuel parent).map (mapOp ρ)
  | 0, _, _ => rfl
  | fuel + 1, parent, hp => by
    rw [rgaFrom_succ, rgaFrom_succ, children_map hm hobj hp, List.flatMap_map, List.map_flatMap]
    apply flatMap_congr_mem
    intro c hc
    have hc' : c ∈ ops := (mem_children.mp hc).1
    show mapOp ρ c :: rgaFrom _ _ fuel (ρ.keyOf (.elem c.id)) = _
    rw [rgaFrom_map hm hobj fuel (.elem c.id) (id_mem_idsOf hc')]
    rfl

/-- **the RGA order commutes** -/
theorem rgaOrder_map (hm : IdMono ρ ops) {obj : ObjId} (hobj : ObjOcc ops obj) :
    rgaOrder (ops.map (mapOp ρ)) (ρ.obj obj) = (rgaOrder ops obj).map (mapOp ρ) := by
  unfold rgaOrder
  rw [List.length_map]
  exact rgaFrom_map hm hobj _ .head trivial

theorem mem_rgaFrom {obj : ObjId} : ∀ (fuel : Nat) (parent : Key) {c : Op},
    c ∈ rgaFrom ops obj fuel parent → c ∈ ops
  | 0, _, _, h => by simp [rgaFrom] at h
  | fuel + 1, parent, c, h => by
    rw [rgaFrom_succ, List.mem_flatMap] at h
    obtain ⟨a, ha, hc⟩ := h
    rcases List.mem_cons.mp hc with rfl | hc
    · exact (mem_children.mp ha).1
    · exact mem_rgaFrom fuel _ hc

/-- **sequences commute**: the visible elements, in order, with their visible operations -/
theorem seqRegs_map (hm : IdMono ρ ops) (hk : KindPres ρ ops) {obj : ObjId} (hobj : ObjOcc ops obj) :
    seqRegs (ops.map (mapOp ρ)) (ρ.obj obj) =
      (seqRegs ops obj).map (fun p => (ρ.id p.1, p.2.map (mapOp ρ))) := by
  unfold seqRegs
  rw [rgaOrder_map hm hobj, List.filterMap_map, List.map_filterMap]
  apply filterMap_congr_mem
  intro e he
  have he' : e ∈ ops := mem_rgaFrom _ _ he
  simp only [Function.comp, mapOp_isMark, mapOp_id]
  cases hmk : e.isMark
  · simp only [Bool.false_eq_true, if_false]
    rw [elemRegOps_map hm hk hobj (id_mem_idsOf he')]
    cases elemRegOps ops obj e.id <;> rfl
  · simp

theorem seqRegs_snd {obj : ObjId} {p : OpId × List Op} (hp : p ∈ seqRegs ops obj) :
    p.2 = elemRegOps ops obj p.1 := by
  unfold seqRegs at hp
  obtain ⟨e, _, h⟩ := List.mem_filterMap.mp hp
  cases hmk : e.isMark
  · simp only [hmk, Bool.false_eq_true, if_false] at h
    split at h
    · cases h
    · simp only [Option.some.injEq] at h
      rw [← h]
  · simp [hmk] at h

theorem mem_seqRegs_ops {obj : ObjId} {p : OpId × List Op} (hp : p ∈ seqRegs ops obj) {o : Op}
    (ho : o ∈ p.2) : o ∈ ops := by
  rw [seqRegs_snd hp] at ho
  exact mem_elemRegOps ho

end Rga

/-! ## §7 shape -/

theorem insertB_perm (k : Bytes) (l : List Bytes) : (insertB k l).Perm (k :: l) := by
  induction l with
  | nil => exact List.Perm.refl _
  | cons x xs ih =>
    simp only [insertB]
    split
    · exact List.Perm.refl _
    · exact ((List.Perm.cons x ih).trans (List.Perm.swap k x xs))

theorem sortB_perm (l : List Bytes) : (sortB l).Perm l := by
  induction l with
  | nil => exact List.Perm.refl _
  | cons x xs ih =>
    show (insertB x (sortB xs)).Perm (x :: xs)
    exact (insertB_perm x _).trans (List.Perm.cons x ih)

abbrev AscB (l : List Bytes) : Prop := l.Pairwise (fun a b => bytesLt b a = false)

theorem insertB_asc (k : Bytes) {l : List Bytes} (h : AscB l) : AscB (insertB k l) := by
  induction l with
  | nil => exact List.pairwise_singleton _ _
  | cons x xs ih =>
    simp only [insertB]
    split
    · rename_i hkx
      refine List.Pairwise.cons (fun b hb => ?_) h
      rcases List.mem_cons.mp hb with rfl | hb
      · cases hc : bytesLt b k
        · rfl
        · exact (bytesLt_asymm hkx hc).elim
      · have hxb := List.rel_of_pairwise_cons h hb
        cases hc : bytesLt b k
        · rfl
        · have := bytesLt_trans hc hkx
          rw [hxb] at this; cases this
    · rename_i hkx
      refine List.Pairwise.cons (fun b hb => ?_) (ih (List.Pairwise.of_cons h))
      rcases List.mem_cons.mp ((insertB_perm k xs).mem_iff.mp hb) with rfl | hb
      · simpa using hkx
      · exact List.rel_of_pairwise_cons h hb

theorem sortB_asc (l : List Bytes) : AscB (sortB l) := by
  induction l with
  | nil => exact List.Pairwise.nil
  | cons x xs ih => exact insertB_asc x ih

/-- the canonical order of a map's children depends only on the multiset -/
theorem sortB_eq_of_perm {l₁ l₂ : List Bytes} (h : l₁.Perm l₂) : sortB l₁ = sortB l₂ := by
  refine List.Perm.eq_of_pairwise (le := fun a b => bytesLt b a = false) ?_ (sortB_asc l₁)
    (sortB_asc l₂) ((sortB_perm l₁).trans (h.trans (sortB_perm l₂).symm))
  intro a b _ _ hab hba
  apply Classical.byContradiction
  intro hne
  rcases bytesLt_total hne with h' | h'
  · rw [h'] at hba; cases hba
  · rw [h'] at hab; cases hab

section Shape
variable {ρ : Ren} {ops : List Op} {tag : Scalar → Bytes} {W : Op → Nat}

theorem opShape_map (htag : TagPres tag ρ ops) {child' child : OpId → ObjType → Bytes} {o : Op} (ho : o ∈ ops)
    (hc : ∀ t, o.action = .make t → child' (ρ.id o.id) t = child o.id t) :
    opShape tag child' (mapOp ρ o) = opShape tag child o := by
  unfold opShape
  rw [mapOp_action, mapOp_id]
  cases ha : o.action with
  | put v => simp only [Ren.action]; exact htag o ho v ha
  | make t => simp only [Ren.action]; exact hc t ha
  | del => rfl
  | inc n => rfl
  | markBegin n v e => rfl
  | markEnd e => rfl

theorem regShape_map (htag : TagPres tag ρ ops) {child' child : OpId → ObjType → Bytes} {r : List Op}
    (hr : ∀ o ∈ r, o ∈ ops)
    (hc : ∀ o ∈ r, ∀ t, o.action = .make t → child' (ρ.id o.id) t = child o.id t) :
    regShape tag child' (r.map (mapOp ρ)) = regShape tag child r := by
  unfold regShape
  rw [List.map_map]
  congr 1
  apply List.map_congr_left
  intro o ho
  exact opShape_map htag (hr o ho) (hc o ho)

theorem winnerWidth_map (hW : WidthPres W ρ ops) {r : List Op} (hr : ∀ o ∈ r, o ∈ ops) :
    winnerWidth W (r.map (mapOp ρ)) = winnerWidth W r := by
  unfold winnerWidth
  rw [List.getLast?_map]
  cases hl : r.getLast? with
  | none => rfl
  | some w =>
    simp only [Option.map_some]
    exact hW w (hr w (List.mem_of_getLast? hl))

/-- **the shape of every object commutes with the renaming** -/
theorem shapeObj_map (hm : IdMono ρ ops) (hki : KeyInj ρ ops) (hk : KindPres ρ ops)
    (htag : TagPres tag ρ ops) (hW : WidthPres W ρ ops) :
    ∀ (fuel : Nat) (obj : ObjId) (ty : ObjType), ObjOcc ops obj →
      shapeObj tag W (ops.map (mapOp ρ)) fuel (ρ.obj obj) ty = shapeObj tag W ops fuel obj ty
  | 0, _, _, _ => rfl
  | fuel + 1, obj, ty, hobj => by
    have ih := shapeObj_map hm hki hk htag hW fuel
    have hreg : ∀ r : List Op, (∀ o ∈ r, o ∈ ops) →
        regShape tag (fun i t => shapeObj tag W (ops.map (mapOp ρ)) fuel (.id i) t) (r.map (mapOp ρ)) =
          regShape tag (fun i t => shapeObj tag W ops fuel (.id i) t) r := by
      intro r hr
      apply regShape_map htag hr
      intro o ho t _
      exact ih (.id o.id) t (objOcc_id_of_mem (hr o ho))
    have hmap : sortB ((mapKeys (ops.map (mapOp ρ)) (ρ.obj obj)).map (fun k =>
          regShape tag (fun i t => shapeObj tag W (ops.map (mapOp ρ)) fuel (.id i) t)
            (mapRegOps (ops.map (mapOp ρ)) (ρ.obj obj) k))) =
        sortB ((mapKeys ops obj).map (fun k =>
          regShape tag (fun i t => shapeObj tag W ops fuel (.id i) t) (mapRegOps ops obj k))) := by
      apply sortB_eq_of_perm
      refine ((mapKeys_map_perm hm hki hk hobj).map _).trans ?_
      rw [List.map_map]
      apply List.Perm.of_eq
      apply List.map_congr_left
      intro k hkm
      obtain ⟨o, ho, h1, h2, _⟩ := mem_mapKeys.mp hkm
      simp only [Function.comp]
      rw [mapRegOps_map hm hki hk hobj ⟨o, ho, h1, h2⟩]
      exact hreg _ (fun o ho => mem_mapRegOps ho)
    have hseq : (seqRegs (ops.map (mapOp ρ)) (ρ.obj obj)).map (fun p =>
          regShape tag (fun i t => shapeObj tag W (ops.map (mapOp ρ)) fuel (.id i) t) p.2) =
        (seqRegs ops obj).map (fun p => regShape tag (fun i t => shapeObj tag W ops fuel (.id i) t) p.2) := by
      rw [seqRegs_map hm hk hobj, List.map_map]
      apply List.map_congr_left
      intro p hp
      simp only [Function.comp]
      exact hreg p.2 (fun o ho => mem_seqRegs_ops hp ho)
    have hlen : (seqRegs (ops.map (mapOp ρ)) (ρ.obj obj)).length = (seqRegs ops obj).length := by
      rw [seqRegs_map hm hk hobj, List.length_map]
    have hwid : ((seqRegs (ops.map (mapOp ρ)) (ρ.obj obj)).map (fun p => winnerWidth W p.2)).sum =
        ((seqRegs ops obj).map (fun p => winnerWidth W p.2)).sum := by
      rw [seqRegs_map hm hk hobj, List.map_map]
      congr 1
      apply List.map_congr_left
      intro p hp
      simp only [Function.comp]
      exact winnerWidth_map hW (fun o ho => mem_seqRegs_ops hp ho)
    cases ty
    · simp only [shapeObj]; rw [hmap]
    · simp only [shapeObj]; rw [hseq, hlen]
    · simp only [shapeObj]; rw [hseq, hwid]
    · simp only [shapeObj]; rw [hmap]

/-- the shape of the document commutes with the renaming -/
theorem shapeOf_map (hm : IdMono ρ ops) (hki : KeyInj ρ ops) (hk : KindPres ρ ops)
    (htag : TagPres tag ρ ops) (hW : WidthPres W ρ ops) :
    shapeOf tag W (ops.map (mapOp ρ)) = shapeOf tag W ops := by
  unfold shapeOf
  rw [List.length_map]
  exact shapeObj_map hm hki hk htag hW _ .root .map trivial

end Shape

/-! ## §8 change graph and historical reads -/

/-- every hash a history mentions -/
def hashesOf (applied : List Change) : List Hash := applied.flatMap (fun c => c.hash :: c.deps)

def InjOn (η : Hash → Hash) (S : List Hash) : Prop := ∀ x ∈ S, ∀ y ∈ S, η x = η y → x = y

instance (η : Hash → Hash) (S : List Hash) : Decidable (InjOn η S) := by unfold InjOn; infer_instance

theorem find?_congr_mem {α : Type} {l : List α} {p q : α → Bool} (h : ∀ x ∈ l, p x = q x) :
    l.find? p = l.find? q := by
  induction l with
  | nil => rfl
  | cons x xs ih =>
    simp only [List.find?_cons, h x List.mem_cons_self]
    rw [ih (fun y hy => h y (List.mem_cons_of_mem _ hy))]

section Graph
variable {ρ : Ren} {η : Hash → Hash}

theorem hash_mem_hashesOf {applied : List Change} {c : Change} (hc : c ∈ applied) : c.hash ∈ hashesOf applied :=
  List.mem_flatMap.mpr ⟨c, hc, List.mem_cons_self⟩

theorem dep_mem_hashesOf {applied : List Change} {c : Change} (hc : c ∈ applied) {x : Hash} (hx : x ∈ c.deps) :
    x ∈ hashesOf applied :=
  List.mem_flatMap.mpr ⟨c, hc, List.mem_cons_of_mem _ hx⟩

theorem headsFold_map {S : List Hash} (hinj : InjOn η S) :
    ∀ (cs : List Change) (acc : List Hash), (∀ c ∈ cs, c.hash ∈ S ∧ ∀ x ∈ c.deps, x ∈ S) → (∀ x ∈ acc, x ∈ S) →
      (cs.map (mapChange ρ η)).foldl (fun hs c => (hs.filter (fun h => !c.deps.contains h)) ++ [c.hash]) (acc.map η) =
        (cs.foldl (fun hs c => (hs.filter (fun h => !c.deps.contains h)) ++ [c.hash]) acc).map η
  | [], _, _, _ => rfl
  | c :: cs, acc, hcs, hacc => by
    simp only [List.map_cons, List.foldl_cons]
    have hc := hcs c List.mem_cons_self
    have step : (acc.map η).filter (fun h => !(mapChange ρ η c).deps.contains h) ++ [(mapChange ρ η c).hash] =
        (acc.filter (fun h => !c.deps.contains h) ++ [c.hash]).map η := by
      rw [List.map_append, List.filter_map]
      congr 2
      apply List.filter_congr
      intro h hh
      show (!(c.deps.map η).contains (η h)) = _
      rw [contains_map_of_inj (fun x hx e => hinj x (hc.2 x hx) h (hacc h hh) e)]
    rw [step]
    refine headsFold_map hinj cs _ (fun c' h => hcs c' (List.mem_cons_of_mem _ h)) ?_
    intro x hx
    rcases List.mem_append.mp hx with h | h
    · exact hacc x (List.mem_filter.mp h).1
    · have : x = c.hash := by simpa using h
      rw [this]; exact hc.1

/-- **heads are the images of the heads** -/
theorem headsOf_map {applied : List Change} (hinj : InjOn η (hashesOf applied)) :
    headsOf (applied.map (mapChange ρ η)) = (headsOf applied).map η := by
  unfold headsOf
  exact headsFold_map hinj applied [] (fun c hc => ⟨hash_mem_hashesOf hc, fun x hx => dep_mem_hashesOf hc hx⟩)
    (fun x hx => by cases hx)

theorem ancestorsLoop_subset {applied : List Change} {S : List Hash}
    (happ : ∀ c ∈ applied, ∀ x ∈ c.deps, x ∈ S) :
    ∀ (fuel : Nat) (frontier acc : List Hash), (∀ x ∈ frontier, x ∈ S) → (∀ x ∈ acc, x ∈ S) →
      ∀ x ∈ ancestorsLoop applied fuel frontier acc, x ∈ S
  | 0, _, _, _, ha => ha
  | _ + 1, [], _, _, ha => ha
  | fuel + 1, h :: rest, acc, hf, ha => by
    have hrest : ∀ x ∈ rest, x ∈ S := fun x hx => hf x (List.mem_cons_of_mem _ hx)
    simp only [ancestorsLoop]
    split
    · exact ancestorsLoop_subset happ fuel rest acc hrest ha
    · split
      · rename_i c hfind
        have hc := List.mem_of_find?_eq_some hfind
        refine ancestorsLoop_subset happ fuel _ _ ?_ ?_
        · intro x hx
          rcases List.mem_append.mp hx with h' | h'
          · exact happ c hc x h'
          · exact hrest x h'
        · intro x hx
          rcases List.mem_cons.mp hx with rfl | h'
          · exact hf _ List.mem_cons_self
          · exact ha x h'
      · exact ancestorsLoop_subset happ fuel rest acc hrest ha

theorem ancestorsLoop_map {applied : List Change} {S : List Hash} (hinj : InjOn η S)
    (happ : ∀ c ∈ applied, c.hash ∈ S ∧ ∀ x ∈ c.deps, x ∈ S) :
    ∀ (fuel : Nat) (frontier acc : List Hash), (∀ x ∈ frontier, x ∈ S) → (∀ x ∈ acc, x ∈ S) →
      ancestorsLoop (applied.map (mapChange ρ η)) fuel (frontier.map η) (acc.map η) =
        (ancestorsLoop applied fuel frontier acc).map η
  | 0, _, _, _, _ => rfl
  | _ + 1, [], _, _, _ => rfl
  | fuel + 1, h :: rest, acc, hf, ha => by
    have hrest : ∀ x ∈ rest, x ∈ S := fun x hx => hf x (List.mem_cons_of_mem _ hx)
    have hh : h ∈ S := hf _ List.mem_cons_self
    simp only [List.map_cons, ancestorsLoop]
    rw [contains_map_of_inj (fun x hx e => hinj x (ha x hx) h hh e)]
    split
    · exact ancestorsLoop_map hinj happ fuel rest acc hrest ha
    · rw [List.find?_map]
      have hcg : ∀ c ∈ applied, ((fun c : Change => c.hash == η h) ∘ mapChange ρ η) c = (fun c : Change => c.hash == h) c := by
        intro c hc
        show (η c.hash == η h) = (c.hash == h)
        exact beq_eq_beq_of_iff ⟨hinj _ (happ c hc).1 _ hh, fun e => by rw [e]⟩
      rw [find?_congr_mem hcg]
      cases hfind : applied.find? (fun c => c.hash == h) with
      | none => exact ancestorsLoop_map hinj happ fuel rest acc hrest ha
      | some c =>
        have hc := List.mem_of_find?_eq_some hfind
        simp only [Option.map_some]
        have := ancestorsLoop_map hinj happ fuel (c.deps ++ rest) (h :: acc)
          (by intro x hx
              rcases List.mem_append.mp hx with h' | h'
              · exact (happ c hc).2 x h'
              · exact hrest x h')
          (by intro x hx
              rcases List.mem_cons.mp hx with rfl | h'
              · exact hh
              · exact ha x h')
        rw [List.map_append, List.map_cons] at this
        exact this

theorem ancestors_fuel_map (applied : List Change) :
    (applied.map (mapChange ρ η)).foldl (fun n c => n + c.deps.length + 1) 0 =
      applied.foldl (fun n c => n + c.deps.length + 1) 0 := by
  rw [List.foldl_map]
  congr 1
  funext n c
  show n + (c.deps.map η).length + 1 = _
  rw [List.length_map]

/-- **ancestor sets are the images of the ancestor sets** -/
theorem ancestors_map {d : Doc} {heads : List Hash} (hinj : InjOn η (hashesOf d.applied ++ heads)) :
    (mapDoc ρ η d).ancestors (heads.map η) = (d.ancestors heads).map η := by
  unfold Doc.ancestors
  show ancestorsLoop (d.applied.map (mapChange ρ η)) _ (heads.map η) ([].map η) = _
  rw [show (mapDoc ρ η d).applied = d.applied.map (mapChange ρ η) from rfl, ancestors_fuel_map, List.length_map]
  exact ancestorsLoop_map hinj
    (fun c hc => ⟨List.mem_append_left _ (hash_mem_hashesOf hc), fun x hx => List.mem_append_left _ (dep_mem_hashesOf hc hx)⟩)
    _ heads [] (fun x hx => List.mem_append_right _ hx) (fun x hx => by cases hx)

theorem ancestors_subset {d : Doc} {heads : List Hash} :
    ∀ x ∈ d.ancestors heads, x ∈ hashesOf d.applied ++ heads := by
  unfold Doc.ancestors
  exact ancestorsLoop_subset (fun c hc x hx => List.mem_append_left _ (dep_mem_hashesOf hc hx)) _ heads []
    (fun x hx => List.mem_append_right _ hx) (fun x hx => by cases hx)

/-- **the historical document of the anonymised history is the anonymised historical document** -/
theorem at_map {d : Doc} {heads : List Hash} (hinj : InjOn η (hashesOf d.applied ++ heads)) :
    ((mapDoc ρ η d).at (heads.map η)).applied = (d.at heads).applied.map (mapChange ρ η) := by
  unfold Doc.at
  show (d.applied.map (mapChange ρ η)).filter (fun c => ((mapDoc ρ η d).ancestors (heads.map η)).contains c.hash) = _
  rw [ancestors_map hinj, List.filter_map]
  congr 1
  apply List.filter_congr
  intro c hc
  show ((d.ancestors heads).map η).contains (η c.hash) = _
  exact contains_map_of_inj (fun x hx e => hinj x (ancestors_subset x hx) _ (List.mem_append_left _ (hash_mem_hashesOf hc)) e)

theorem ops_map (l : List Change) :
    (l.map (mapChange ρ η)).flatMap (·.ops) = (l.flatMap (·.ops)).map (mapOp ρ) := by
  rw [List.flatMap_map, List.map_flatMap]
  rfl

theorem at_ops_map {d : Doc} {heads : List Hash} (hinj : InjOn η (hashesOf d.applied ++ heads)) :
    ((mapDoc ρ η d).at (heads.map η)).ops = (d.at heads).ops.map (mapOp ρ) := by
  unfold Doc.ops
  rw [at_map hinj, ops_map]

theorem at_ops_subset {d : Doc} {heads : List Hash} : ∀ o ∈ (d.at heads).ops, o ∈ d.ops := by
  intro o ho
  unfold Doc.ops at *
  obtain ⟨c, hc, hoc⟩ := List.mem_flatMap.mp ho
  exact List.mem_flatMap.mpr ⟨c, (List.mem_filter.mp hc).1, hoc⟩

end Graph

/-! ### hypotheses restrict to sub-histories -/

section Restrict
variable {ρ : Ren} {ops ops' : List Op}

theorem idsOf_subset (h : ∀ o ∈ ops', o ∈ ops) : ∀ x ∈ idsOf ops', x ∈ idsOf ops := by
  intro x hx
  obtain ⟨o, ho, hxo⟩ := List.mem_flatMap.mp hx
  exact List.mem_flatMap.mpr ⟨o, h o ho, hxo⟩

theorem actorMonoB_sound {ρ : Ren} {ops : List Op} (h : actorMonoB ρ ops = true) : ActorMono ρ ops := by
  intro a ha b hb
  unfold actorMonoB at h
  simp only [List.all_eq_true, List.mem_map, beq_iff_eq] at h
  exact h (a, ρ.actor a) ⟨a, List.mem_eraseDups.mpr ha, rfl⟩ (b, ρ.actor b) ⟨b, List.mem_eraseDups.mpr hb, rfl⟩

theorem ActorMono.mono (hm : ActorMono ρ ops) (h : ∀ o ∈ ops', o ∈ ops) : ActorMono ρ ops' := by
  intro a ha b hb
  obtain ⟨x, hx, rfl⟩ := List.mem_map.mp ha
  obtain ⟨y, hy, rfl⟩ := List.mem_map.mp hb
  exact hm _ (List.mem_map_of_mem (idsOf_subset h x hx)) _ (List.mem_map_of_mem (idsOf_subset h y hy))

theorem KeyInj.mono (hk : KeyInj ρ ops) (h : ∀ o ∈ ops', o ∈ ops) : KeyInj ρ ops' :=
  fun o ho p hp => hk o (h o ho) p (h p hp)

theorem KindPres.mono (hk : KindPres ρ ops) (h : ∀ o ∈ ops', o ∈ ops) : KindPres ρ ops' :=
  fun o ho => hk o (h o ho)

theorem TagPres.mono {tag : Scalar → Bytes} (hk : TagPres tag ρ ops) (h : ∀ o ∈ ops', o ∈ ops) : TagPres tag ρ ops' :=
  fun o ho => hk o (h o ho)

theorem WidthPres.mono {W : Op → Nat} (hk : WidthPres W ρ ops) (h : ∀ o ∈ ops', o ∈ ops) : WidthPres W ρ ops' :=
  fun o ho => hk o (h o ho)

end Restrict

/-! ## §9 the construction of `actor_map` is strictly monotone -/

theorem bytesLt_append_left (p a b : Bytes) : bytesLt (p ++ a) (p ++ b) = bytesLt a b := by
  induction p with
  | nil => rfl
  | cons x xs ih => simp [bytesLt, ih]

theorem u8_lt {a b : Nat} (ha : a < 256) (hb : b < 256) : UInt8.ofNat a < UInt8.ofNat b ↔ a < b := by
  rw [UInt8.lt_iff_toNat_lt, UInt8.toNat_ofNat', UInt8.toNat_ofNat',
    Nat.mod_eq_of_lt (show a < 2 ^ 8 by omega), Nat.mod_eq_of_lt (show b < 2 ^ 8 by omega)]

theorem u8_eq {a b : Nat} (ha : a < 256) (hb : b < 256) : UInt8.ofNat a = UInt8.ofNat b ↔ a = b := by
  constructor
  · intro h
    have := congrArg UInt8.toNat h
    rw [UInt8.toNat_ofNat', UInt8.toNat_ofNat',
      Nat.mod_eq_of_lt (show a < 2 ^ 8 by omega), Nat.mod_eq_of_lt (show b < 2 ^ 8 by omega)] at this
    exact this
  · intro h; rw [h]

/-- big-endian fixed-width encodings compare like the numbers they encode -/
theorem bytesLt_beBytes : ∀ (k m n : Nat),
    bytesLt (beBytes k m) (beBytes k n) = decide (m % 256 ^ k < n % 256 ^ k)
  | 0, m, n => by simp [beBytes, bytesLt, Nat.mod_one]
  | k + 1, m, n => by
    have ih := bytesLt_beBytes k m n
    have ha : m / 256 ^ k % 256 < 256 := Nat.mod_lt _ (by omega)
    have hb : n / 256 ^ k % 256 < 256 := Nat.mod_lt _ (by omega)
    have hP : 0 < 256 ^ k := Nat.pow_pos (by omega)
    have hr : m % 256 ^ k < 256 ^ k := Nat.mod_lt _ hP
    have hs : n % 256 ^ k < 256 ^ k := Nat.mod_lt _ hP
    show (decide (UInt8.ofNat (m / 256 ^ k % 256) < UInt8.ofNat (n / 256 ^ k % 256)) ||
      (UInt8.ofNat (m / 256 ^ k % 256) == UInt8.ofNat (n / 256 ^ k % 256) &&
        bytesLt (beBytes k m) (beBytes k n))) = _
    rw [ih, Nat.mod_pow_succ (x := m), Nat.mod_pow_succ (x := n)]
    generalize m / 256 ^ k % 256 = a at *
    generalize n / 256 ^ k % 256 = b at *
    generalize m % 256 ^ k = r at *
    generalize n % 256 ^ k = s at *
    generalize 256 ^ k = P at *
    rw [Bool.eq_iff_iff]
    simp only [Bool.or_eq_true, Bool.and_eq_true, decide_eq_true_eq, beq_iff_eq, u8_lt ha hb, u8_eq ha hb]
    constructor
    · rintro (h | ⟨rfl, h⟩)
      · have h1 := Nat.mul_le_mul_left P (show a + 1 ≤ b from h)
        rw [Nat.mul_succ] at h1
        omega
      · omega
    · intro h
      rcases Nat.lt_trichotomy a b with hab | rfl | hab
      · exact .inl hab
      · exact .inr ⟨rfl, by omega⟩
      · exfalso
        have h1 := Nat.mul_le_mul_left P (show b + 1 ≤ a from hab)
        rw [Nat.mul_succ] at h1
        omega

theorem actorTable_sorted (actors : List Bytes) :
    (actorTable actors).Pairwise (fun a b => bytesLt a b = true) := by
  induction actors with
  | nil => exact List.Pairwise.nil
  | cons x xs ih => exact insertKey_sorted x ih

theorem mem_actorTable {actors : List Bytes} {a : Bytes} : a ∈ actorTable actors ↔ a ∈ actors := by
  induction actors with
  | nil => simp [actorTable]
  | cons x xs ih =>
    show a ∈ insertKey x (actorTable xs) ↔ _
    rw [mem_insertKey, ih, List.mem_cons]

theorem rankIn_lt_length {tbl : List Bytes} {a : Bytes} (ha : a ∈ tbl) : rankIn tbl a < tbl.length := by
  induction tbl with
  | nil => cases ha
  | cons x xs ih =>
    by_cases hxa : x = a
    · simp [rankIn, hxa]
    · have : a ∈ xs := by
        rcases List.mem_cons.mp ha with h | h
        · exact absurd h.symm hxa
        · exact h
      simp only [rankIn, beq_iff_eq, hxa, if_false, List.length_cons]
      exact Nat.succ_lt_succ (ih this)

/-- in a strictly ascending table, rank order is byte order -/
theorem rankIn_lt_iff {tbl : List Bytes} (hs : tbl.Pairwise (fun a b => bytesLt a b = true)) {a b : Bytes}
    (ha : a ∈ tbl) (hb : b ∈ tbl) : rankIn tbl a < rankIn tbl b ↔ bytesLt a b = true := by
  induction tbl with
  | nil => cases ha
  | cons x xs ih =>
    have hx : ∀ y ∈ xs, bytesLt x y = true := fun y hy => List.rel_of_pairwise_cons hs hy
    by_cases hxa : x = a <;> by_cases hxb : x = b
    · subst hxa; subst hxb
      simp [rankIn, bytesLt_irrefl]
    · subst hxa
      have hbx : b ∈ xs := by
        rcases List.mem_cons.mp hb with h | h
        · exact absurd h.symm hxb
        · exact h
      simp [rankIn, hxb, hx b hbx]
    · subst hxb
      have hax : a ∈ xs := by
        rcases List.mem_cons.mp ha with h | h
        · exact absurd h.symm hxa
        · exact h
      have : bytesLt a x = false := by
        cases hc : bytesLt a x
        · rfl
        · exact (bytesLt_asymm hc (hx a hax)).elim
      simp [rankIn, hxa, this]
    · have hax : a ∈ xs := by
        rcases List.mem_cons.mp ha with h | h
        · exact absurd h.symm hxa
        · exact h
      have hbx : b ∈ xs := by
        rcases List.mem_cons.mp hb with h | h
        · exact absurd h.symm hxb
        · exact h
      simp only [rankIn, beq_iff_eq, hxa, hxb, if_false, Nat.add_lt_add_iff_right]
      exact ih (List.Pairwise.of_cons hs) hax hbx

/-- **`actor_map` is strictly monotone**: sorted distinct actors ↦ `prefix ‖ rank.to_be_bytes()`
    preserves and reflects byte order on the actors it is built from (fewer than 2^64 of them) -/
theorem codeActorMap_mono (pre : Bytes) (actors : List Bytes) (hlen : (actorTable actors).length ≤ 2 ^ 64)
    {a b : Bytes} (ha : a ∈ actors) (hb : b ∈ actors) :
    bytesLt (codeActorMap pre actors a) (codeActorMap pre actors b) = bytesLt a b := by
  unfold codeActorMap
  have h8 : (256 : Nat) ^ 8 = 2 ^ 64 := by decide
  have ra := rankIn_lt_length (mem_actorTable.mpr ha)
  have rb := rankIn_lt_length (mem_actorTable.mpr hb)
  rw [bytesLt_append_left, bytesLt_beBytes, h8, Nat.mod_eq_of_lt (by omega), Nat.mod_eq_of_lt (by omega),
    Bool.eq_iff_iff, decide_eq_true_eq]
  exact rankIn_lt_iff (actorTable_sorted actors) (mem_actorTable.mpr ha) (mem_actorTable.mpr hb)

/-! ## §10 object types; soundness of the Boolean hypothesis checks -/

section Misc
variable {ρ : Ren} {ops : List Op}

/-- **object types commute** -/
theorem objType_map (hm : IdMono ρ ops) {obj : ObjId} (hobj : ObjOcc ops obj) :
    objType (ops.map (mapOp ρ)) (ρ.obj obj) = objType ops obj := by
  cases obj with
  | root => rfl
  | id x =>
    show ((ops.map (mapOp ρ)).find? (fun p => p.id == ρ.id x)).bind _ = (ops.find? (fun p => p.id == x)).bind _
    rw [List.find?_map]
    have hc : ∀ p ∈ ops, ((fun p : Op => p.id == ρ.id x) ∘ mapOp ρ) p = (fun p : Op => p.id == x) p := by
      intro p hp
      show (ρ.id p.id == ρ.id x) = (p.id == x)
      exact beq_eq_beq_of_iff (hm.id_eq_iff (id_mem_idsOf hp) hobj)
    rw [find?_congr_mem hc]
    cases ops.find? (fun p => p.id == x) with
    | none => rfl
    | some p =>
      simp only [Option.map_some, Option.bind_some, mapOp_action]
      cases p.action <;> rfl

theorem kindPres_of_B (h : kindPresB ρ ops = true) : KindPres ρ ops := by
  intro o ho v hv
  have := List.all_eq_true.mp h o ho
  simp only [hv, beq_iff_eq] at this
  exact this

theorem tagPres_of_B {tag : Scalar → Bytes} (h : tagPresB tag ρ ops = true) : TagPres tag ρ ops := by
  intro o ho v hv
  have := List.all_eq_true.mp h o ho
  simp only [hv, beq_iff_eq] at this
  exact this

theorem keyInj_of_B (h : keyInjB ρ ops = true) : KeyInj ρ ops := by
  intro o ho p hp hop k l hk hl he
  have := List.all_eq_true.mp (List.all_eq_true.mp h o ho) p hp
  simp only [hk, hl, hop, he, beq_self_eq_true, Bool.not_true, Bool.false_or, beq_iff_eq] at this
  exact this

end Misc

/-! ## §11 the structural substitution is injective (fixed code) -/

theorem alphaOf_printable {c : Nat} (h1 : 0x20 ≤ c) (h2 : c ≤ 0x7e) : alphaOf c = .printable := by
  unfold alphaOf; rw [if_pos ⟨h1, h2⟩]
theorem alphaOf_control {c : Nat} (h : c < 0x20 ∨ c = 0x7f) : alphaOf c = .control := by
  unfold alphaOf; rw [if_neg (by omega), if_pos (by omega)]
theorem alphaOf_two {c : Nat} (h1 : 0x80 ≤ c) (h2 : c < 0x800) : alphaOf c = .two := by
  unfold alphaOf; rw [if_neg (by omega), if_neg (by omega), if_pos (by omega)]
theorem alphaOf_three {c : Nat} (h1 : 0x800 ≤ c) (h2 : c < 0x10000) : alphaOf c = .three := by
  unfold alphaOf; rw [if_neg (by omega), if_neg (by omega), if_neg (by omega), if_pos (by omega)]
theorem alphaOf_four {c : Nat} (h1 : 0x10000 ≤ c) : alphaOf c = .four := by
  unfold alphaOf; rw [if_neg (by omega), if_neg (by omega), if_neg (by omega), if_neg (by omega)]

theorem alphaOf_cases (c : Nat) :
    (0x20 ≤ c ∧ c ≤ 0x7e ∧ alphaOf c = .printable) ∨ ((c < 0x20 ∨ c = 0x7f) ∧ alphaOf c = .control) ∨
    (0x80 ≤ c ∧ c < 0x800 ∧ alphaOf c = .two) ∨ (0x800 ≤ c ∧ c < 0x10000 ∧ alphaOf c = .three) ∨
    (0x10000 ≤ c ∧ alphaOf c = .four) := by
  by_cases h1 : 0x20 ≤ c ∧ c ≤ 0x7e
  · exact .inl ⟨h1.1, h1.2, alphaOf_printable h1.1 h1.2⟩
  · by_cases h2 : c < 0x80
    · exact .inr (.inl ⟨by omega, alphaOf_control (by omega)⟩)
    · by_cases h3 : c < 0x800
      · exact .inr (.inr (.inl ⟨by omega, h3, alphaOf_two (by omega) h3⟩))
      · by_cases h4 : c < 0x10000
        · exact .inr (.inr (.inr (.inl ⟨by omega, h4, alphaOf_three (by omega) h4⟩)))
        · exact .inr (.inr (.inr (.inr ⟨by omega, alphaOf_four (by omega)⟩)))

/-- the rank of a scalar value lies inside its alphabet -/
theorem structRank_lt {c : Nat} (hv : ValidCp c) : structRank c < alphaCount (alphaOf c) := by
  obtain ⟨v1, v2⟩ := hv
  rcases alphaOf_cases c with ⟨_, _, hc⟩ | ⟨_, hc⟩ | ⟨_, _, hc⟩ | ⟨_, _, hc⟩ | ⟨_, hc⟩ <;>
    simp only [structRank, hc, alphaCount] <;> (try split) <;> omega

/-- `from_rank` lands in the alphabet of the original, at the given rank, on a scalar value -/
theorem fromRank_spec {c r : Nat} (hr : r < alphaCount (alphaOf c)) :
    alphaOf (structFromRank c r) = alphaOf c ∧ structRank (structFromRank c r) = r ∧
      ValidCp (structFromRank c r) := by
  rcases alphaOf_cases c with ⟨_, _, hc⟩ | ⟨_, hc⟩ | ⟨_, _, hc⟩ | ⟨_, _, hc⟩ | ⟨_, hc⟩
  · simp only [hc, alphaCount] at hr
    have hd := alphaOf_printable (c := 0x20 + r) (by omega) (by omega)
    simp only [structFromRank, hc, structRank, hd, ValidCp]
    exact ⟨trivial, by omega, by omega, by omega⟩
  · simp only [hc, alphaCount] at hr
    simp only [structFromRank, hc]
    split
    · rename_i h
      have hd := alphaOf_control (c := r) (.inl h)
      simp only [structRank, hd, h, if_true, ValidCp]
      exact ⟨trivial, trivial, by omega, by omega⟩
    · have hd := alphaOf_control (c := 0x7f) (.inr rfl)
      have hr20 : r = 0x20 := by omega
      subst hr20
      exact ⟨hd, by decide, by decide⟩
  · simp only [hc, alphaCount] at hr
    have hd := alphaOf_two (c := 0x80 + r) (by omega) (by omega)
    simp only [structFromRank, hc, structRank, hd, ValidCp]
    exact ⟨trivial, by omega, by omega, by omega⟩
  · simp only [hc, alphaCount] at hr
    simp only [structFromRank, hc]
    split
    · have hd := alphaOf_three (c := 0x800 + r) (by omega) (by omega)
      simp only [structRank, hd, ValidCp]
      refine ⟨trivial, ?_, by omega, by omega⟩
      split <;> omega
    · have hd := alphaOf_three (c := r + 0x1000) (by omega) (by omega)
      simp only [structRank, hd, ValidCp]
      refine ⟨trivial, ?_, by omega, by omega⟩
      split <;> omega
  · simp only [hc, alphaCount] at hr
    have hd := alphaOf_four (c := 0x10000 + r) (by omega)
    simp only [structFromRank, hc, structRank, hd, ValidCp]
    exact ⟨trivial, by omega, by omega, by omega⟩

/-- inside one alphabet the rank determines the scalar value -/
theorem structRank_inj {c d : Nat} (hc : ValidCp c) (hd : ValidCp d) (ha : alphaOf c = alphaOf d)
    (hr : structRank c = structRank d) : c = d := by
  obtain ⟨c1, c2⟩ := hc
  obtain ⟨d1, d2⟩ := hd
  rcases alphaOf_cases c with ⟨_, _, ac⟩ | ⟨_, ac⟩ | ⟨_, _, ac⟩ | ⟨_, _, ac⟩ | ⟨_, ac⟩ <;>
  rcases alphaOf_cases d with ⟨_, _, ad⟩ | ⟨_, ad⟩ | ⟨_, _, ad⟩ | ⟨_, _, ad⟩ | ⟨_, ad⟩ <;>
  first
  | (rw [ac, ad] at ha; exact absurd ha (by decide))
  | (simp only [structRank, ac, ad] at hr
     repeat' (split at hr)
     all_goals omega)

/-- **`StructuralPermutations::replace` is injective on scalar values** when every table is a
    bijection of `0..count` -/
theorem structReplace_inj {π : Alpha → Nat → Nat} (hπ : PermTables π) {c d : Nat} (hc : ValidCp c)
    (hd : ValidCp d) (h : structReplace π c = structReplace π d) : c = d := by
  have rc := (hπ (alphaOf c)).1 _ (structRank_lt hc)
  have rd := (hπ (alphaOf d)).1 _ (structRank_lt hd)
  obtain ⟨ac, sc, _⟩ := fromRank_spec rc
  obtain ⟨ad, sd, _⟩ := fromRank_spec rd
  unfold structReplace at h
  have ha : alphaOf c = alphaOf d := by rw [← ac, ← ad, h]
  have hr : π (alphaOf c) (structRank c) = π (alphaOf d) (structRank d) := by rw [← sc, ← sd, h]
  rw [← ha] at hr
  have hd' := structRank_lt hd
  rw [← ha] at hd'
  exact structRank_inj hc hd ha ((hπ (alphaOf c)).2 _ _ (structRank_lt hc) hd' hr)

/-- the image of a character is a scalar value of the same alphabet (same UTF-8 / UTF-16 width) -/
theorem structReplace_alpha {π : Alpha → Nat → Nat} (hπ : PermTables π) {c : Nat} (hc : ValidCp c) :
    alphaOf (structReplace π c) = alphaOf c ∧ ValidCp (structReplace π c) :=
  let h := fromRank_spec ((hπ (alphaOf c)).1 _ (structRank_lt hc))
  ⟨h.1, h.2.2⟩

theorem map_injOn {α β : Type} {f : α → β} : ∀ {k l : List α},
    (∀ x ∈ k, ∀ y ∈ l, f x = f y → x = y) → k.map f = l.map f → k = l
  | [], [], _, _ => rfl
  | [], _ :: _, _, h => by cases h
  | _ :: _, [], _, h => by cases h
  | x :: xs, y :: ys, hi, h => by
    simp only [List.map_cons, List.cons.injEq] at h
    rw [hi x List.mem_cons_self y List.mem_cons_self h.1,
      map_injOn (fun a ha b hb => hi a (List.mem_cons_of_mem _ ha) b (List.mem_cons_of_mem _ hb)) h.2]

/-- … and therefore `anonymize_structural_string` is injective on strings (as scalar sequences) -/
theorem structString_inj {π : Alpha → Nat → Nat} (hπ : PermTables π) {cs ds : List Nat}
    (hc : ∀ c ∈ cs, ValidCp c) (hd : ∀ c ∈ ds, ValidCp c) (h : structString π cs = structString π ds) :
    cs = ds :=
  map_injOn (fun x hx y hy e => structReplace_inj hπ (hc x hx) (hd y hy) e) h

theorem ascii_valid {c : Nat} (h : c < 0x80) : ValidCp c := ⟨by omega, by omega⟩

theorem structReplace_ascii_lt {π : Alpha → Nat → Nat} (hπ : PermTables π) {c : Nat} (h : c < 0x80) :
    structReplace π c < 0x80 := by
  have ha := (structReplace_alpha hπ (ascii_valid h)).1
  rcases alphaOf_cases c with ⟨_, _, hc⟩ | ⟨_, hc⟩ | ⟨_, _, _⟩ | ⟨_, _, _⟩ | ⟨_, _⟩ <;> try omega
  all_goals
    rw [hc] at ha
    rcases alphaOf_cases (structReplace π c) with ⟨_, _, hd⟩ | ⟨_, hd⟩ | ⟨_, _, hd⟩ | ⟨_, _, hd⟩ | ⟨_, hd⟩ <;>
      first
      | omega
      | (rw [hd] at ha; cases ha)

/-- on the UTF-8 bytes of ASCII strings -/
theorem asciiKeyMap_inj {π : Alpha → Nat → Nat} (hπ : PermTables π) {k l : Bytes} (hk : IsAscii k)
    (hl : IsAscii l) (h : asciiKeyMap π k = asciiKeyMap π l) : k = l := by
  refine map_injOn ?_ h
  intro x hx y hy e
  have e' := (u8_eq (by have := structReplace_ascii_lt hπ (hk x hx); omega)
    (by have := structReplace_ascii_lt hπ (hl y hy); omega)).mp e
  exact UInt8.toNat_inj.mp (structReplace_inj hπ (ascii_valid (hk x hx)) (ascii_valid (hl y hy)) e')

/-- **`KeyInj` for the code's key map**, ASCII keys: no hypothesis on keys is needed any more -/
theorem keyInj_of_asciiKeyMap {ρ : Ren} {ops : List Op} {π : Alpha → Nat → Nat} (hπ : PermTables π)
    (hascii : ∀ o ∈ ops, ∀ k, o.key = .map k → IsAscii k)
    (hρ : ∀ k, IsAscii k → ρ.key k = asciiKeyMap π k) : KeyInj ρ ops := by
  intro o ho p hp _ k l hk hl he
  have ak := hascii o ho k hk
  have al := hascii p hp l hl
  rw [hρ k ak, hρ l al] at he
  exact asciiKeyMap_inj hπ ak al he

theorem asciiKeys_of_B {ops : List Op} (h : asciiKeysB ops = true) :
    ∀ o ∈ ops, ∀ k, o.key = .map k → IsAscii k := by
  intro o ho k hk b hb
  have := List.all_eq_true.mp h o ho
  simp only [hk] at this
  simpa using List.all_eq_true.mp this b hb

/-! ## §12 counters: what is and what is not preserved -/

theorem incAmount_map (ρ : Ren) (p : Op) :
    (mapOp ρ p).incAmount = (match p.action with | .inc n => ρ.inc p.id n | _ => 0) := by
  rcases p with ⟨i, ob, k, ins, act, pr⟩
  cases act <;> rfl

/-- the value of a counter after renaming: the new initial value plus the re-drawn amounts of the
    images of exactly the increments that applied before -/
theorem counterValue_map {ρ : Ren} {ops : List Op} (hm : IdMono ρ ops) {o : Op} (ho : o ∈ ops) (init' : Int) :
    counterValue (ops.map (mapOp ρ)) (mapOp ρ o) init' =
      init' + ((ops.filter (fun p => p.isInc && p.pred.contains o.id)).map
        (fun p => match p.action with | .inc n => ρ.inc p.id n | _ => 0)).sum := by
  rw [counter_value_sum, counterIncs_map hm ho, List.map_map]
  congr 2
  apply List.map_congr_left
  intro p _
  exact incAmount_map ρ p

end AmVerif.Crdt
