import AmVerif.Proofs.ChangeCodecFullIter
/-
  Helper lemmas for the whole-change round trip of C18, CHUNK level: `Change::parse_following_header`
  (`parseMeta`) on the body `ChangeBuilder::build` writes (`encodeBody`), and `Change::from_bytes`
  (`fromBytes`) on the framed chunk.
-/
namespace AmVerif.ChangeCodec.Full
open AmVerif AmVerif.Leb AmVerif.Crdt AmVerif.ChangeCodec AmVerif.Chunk
open AmVerif.DocCodec (nonEmptyCols metaPairs rangesOf colData colMeta)
open AmVerif.Hexane (two63 two64 validUtf8)

theorem encodeCols_specs (rows : List Row) :
    (encodeCols rows).map (·.1) = [1, 2, 17, 19, 21, 52, 66, 86, 87, 112, 113, 115, 148, 165] := rfl

theorem encodeCols_spec_mem {rows : List Row} {c : Nat × Bytes} (hc : c ∈ nonEmptyCols (encodeCols rows)) :
    c.1 ∈ [1, 2, 17, 19, 21, 52, 66, 86, 87, 112, 113, 115, 148, 165] := by
  rw [← encodeCols_specs rows]
  exact List.mem_map.mpr ⟨c, DocCodec.nonEmptyCols_sub _ c hc, rfl⟩

theorem specs14_small : ∀ s ∈ [1, 2, 17, 19, 21, 52, 66, 86, 87, 112, 113, 115, 148, 165],
    s < 2 ^ 32 ∧ specDeflate s = false := by decide

theorem specs14_sorted :
    [1, 2, 17, 19, 21, 52, 66, 86, 87, 112, 113, 115, 148, 165].Pairwise (fun a b => specNorm a ≤ specNorm b) := by decide

theorem ranges_no_deflate (rows : List Row) :
    (rangesOf (nonEmptyCols (encodeCols rows))).any (fun c => specDeflate c.1) = false := by
  rw [List.any_eq_false]
  intro c hc
  have hm : c.1 ∈ (rangesOf (nonEmptyCols (encodeCols rows))).map (·.1) := List.mem_map.mpr ⟨c, hc, rfl⟩
  unfold rangesOf at hm
  rw [DocCodec.colRanges_specs] at hm
  simp only [metaPairs, List.map_map, List.mem_map, Function.comp] at hm
  obtain ⟨x, hx, hx1⟩ := hm
  rw [← hx1]
  simp [(specs14_small _ (encodeCols_spec_mem hx)).2]

/-- the body, with the column table and data block named -/
theorem encodeBody_eq (deps : List Bytes) (actor : Bytes) (others : List Bytes) (seq startOp : Nat) (time : Int)
    (message : Option Bytes) (rows : List Row) (extra : Bytes) :
    encodeBody deps actor others seq startOp time message rows extra =
      ulebEncode deps.length ++ deps.flatten ++ lenPrefixed actor ++ ulebEncode seq ++ ulebEncode startOp ++ slebEncode time
        ++ lenPrefixed (message.getD []) ++ ulebEncode others.length ++ (others.map lenPrefixed).flatten
        ++ colMeta (nonEmptyCols (encodeCols rows)) ++ colData (nonEmptyCols (encodeCols rows)) ++ extra := by
  unfold encodeBody colMeta colData nonEmptyCols
  simp only [List.append_assoc]

theorem colData_le_body (deps : List Bytes) (actor : Bytes) (others : List Bytes) (seq startOp : Nat) (time : Int)
    (message : Option Bytes) (rows : List Row) (extra : Bytes) :
    (colData (nonEmptyCols (encodeCols rows))).length ≤
      (encodeBody deps actor others seq startOp time message rows extra).length := by
  rw [encodeBody_eq]
  simp only [List.length_append]
  omega

/-- **`Change::parse_following_header`** on the body the builder wrote -/
theorem parseMeta_encode (deps : List Bytes) (actor : Bytes) (others : List Bytes) (seq startOp : Nat) (time : Int)
    (message : Option Bytes) (rows : List Row) (extra : Bytes) (layout : List Col) (oc : OpCols)
    (hnd : deps.length < 2 ^ 64) (hdl : ∀ h ∈ deps, h.length = Consts.HASH_SIZE)
    (hal : actor.length < 2 ^ 64) (hseq : seq < 2 ^ 64) (hso0 : startOp ≠ 0) (hso : startOp < 2 ^ 64)
    (htime : -2 ^ 63 ≤ time ∧ time < 2 ^ 63)
    (hmsg : MsgWF message)
    (hno : others.length < 2 ^ 64) (hol : ∀ a ∈ others, a.length < 2 ^ 64)
    (hcd : (colData (nonEmptyCols (encodeCols rows))).length < 2 ^ 64)
    (hlay : parseLayout (colData (nonEmptyCols (encodeCols rows))).length (rangesOf (nonEmptyCols (encodeCols rows))) {} = .ok layout)
    (hpick : pickCols layout {} = .ok oc) :
    parseMeta (encodeBody deps actor others seq startOp time message rows extra) =
      .ok { deps := deps, actor := actor, others := others, seq := seq, startOp := startOp, time := time,
            message := message, cols := oc, data := colData (nonEmptyCols (encodeCols rows)), extra := extra } := by
  have hmlen : (message.getD []).length < 2 ^ 64 := by
    cases message with
    | none => simp
    | some m => exact hmsg.2.2
  have hmval : validUtf8 (message.getD []) = true := by
    cases message with
    | none => rfl
    | some m => exact hmsg.2.1
  have hmback : (if (message.getD []).isEmpty then none else some (message.getD [])) = message := by
    cases message with
    | none => rfl
    | some m =>
      have := hmsg.1
      cases m with
      | nil => exact absurd rfl this
      | cons a b => rfl
  have hcsmall : ∀ c ∈ nonEmptyCols (encodeCols rows), c.1 < 2 ^ 32 ∧ c.2.length < 2 ^ 64 := fun c hc =>
    ⟨(specs14_small _ (encodeCols_spec_mem hc)).1, Nat.lt_of_le_of_lt (DocCodec.mem_colData_len hc) hcd⟩
  have hclen : (nonEmptyCols (encodeCols rows)).length < 2 ^ 64 := by
    have := DocCodec.nonEmptyCols_length_le (encodeCols rows)
    have h14 : (encodeCols rows).length = 14 := rfl
    omega
  have hsorted : normalSorted (rangesOf (nonEmptyCols (encodeCols rows))) = true := by
    apply DocCodec.nonEmpty_normalSorted
    rw [encodeCols_specs]
    exact specs14_sorted
  have hsum : ((rangesOf (nonEmptyCols (encodeCols rows))).map (fun c => c.2.len)).sum
      = (colData (nonEmptyCols (encodeCols rows))).length := by
    unfold rangesOf
    rw [DocCodec.colRanges_lens _ 0 (by rw [← DocCodec.colData_length]; simpa using hcd), DocCodec.colData_length]
  rw [encodeBody_eq]
  unfold parseMeta
  simp only [List.append_assoc]
  rw [uleb64_encode _ hnd]
  simp only
  rw [DocCodec.parseHashes_encode _ _ hdl]
  simp only
  rw [DocCodec.parseActor_lenPrefixed _ _ hal]
  simp only
  rw [uleb64_encode _ hseq]
  simp only
  rw [nonzeroUleb64_encode _ hso hso0]
  simp only
  rw [sleb64_encode _ htime.1 htime.2]
  simp only
  unfold lenPrefixed
  simp only [List.append_assoc]
  rw [uleb64_encode _ hmlen]
  simp only
  rw [takeN_append _ _ _ rfl]
  simp only [hmval, Bool.not_true, Bool.false_eq_true, if_false]
  rw [uleb64_encode _ hno]
  simp only
  have hoth := DocCodec.parseActors_encode others
    (colMeta (nonEmptyCols (encodeCols rows)) ++ (colData (nonEmptyCols (encodeCols rows)) ++ extra)) hol
  unfold lenPrefixed at hoth
  rw [hoth]
  simp only
  rw [DocCodec.parseRawColumns_encode _ _ hclen hcsmall hsorted]
  simp only
  rw [hsum, takeN_append _ _ _ rfl]
  simp only [ranges_no_deflate, Bool.false_eq_true, if_false, hlay, hpick, hmback]

/-- **`Change::from_bytes`** on the chunk the builder framed -/
theorem fromBytes_encode (limit : Nat) (deps : List Bytes) (actor : Bytes) (others : List Bytes) (seq startOp : Nat)
    (time : Int) (message : Option Bytes) (rows : List Row) (extra : Bytes)
    (hnd : deps.length < 2 ^ 64) (hdl : ∀ h ∈ deps, h.length = Consts.HASH_SIZE)
    (hal : actor.length < 2 ^ 64) (hseq : seq < 2 ^ 64) (hso0 : startOp ≠ 0) (hso : startOp < 2 ^ 32)
    (htime : -2 ^ 63 ≤ time ∧ time < 2 ^ 63)
    (hmsg : MsgWF message)
    (hno : others.length < 2 ^ 64) (hol : ∀ a ∈ others, a.length < 2 ^ 64)
    (hbody : (encodeBody deps actor others seq startOp time message rows extra).length < 2 ^ 64)
    (hok : ∀ r ∈ rows, RowOK r) (hlen : rows.length < two63) (hlim : rows.length ≤ limit)
    (hpl : (rows.flatMap (·.pred)).length < two63) :
    fromBytes limit (encodeChunk Consts.CHUNK_TYPE_CHANGE (encodeBody deps actor others seq startOp time message rows extra)) =
      .ok { hash := chunkHash Consts.CHUNK_TYPE_CHANGE (encodeBody deps actor others seq startOp time message rows extra),
            checksumOk := true, deps := deps, actor := actor, others := others, seq := seq, startOp := startOp,
            time := time, message := message, rows := rows, extra := extra } := by
  have hcd : (colData (nonEmptyCols (encodeCols rows))).length < 2 ^ 64 :=
    Nat.lt_of_le_of_lt (colData_le_body deps actor others seq startOp time message rows extra) hbody
  have hiter : ∃ layout cols,
      parseLayout (colData (nonEmptyCols (encodeCols rows))).length (rangesOf (nonEmptyCols (encodeCols rows))) {} = .ok layout ∧
      pickCols layout {} = .ok cols ∧
      IterRep (IterSt.init cols (colData (nonEmptyCols (encodeCols rows)))) rows := by
    cases rows with
    | nil => exact ⟨[], {}, iter_init_nil.1, iter_init_nil.2.1, iter_init_nil.2.2⟩
    | cons r rs => exact iter_init (r :: rs) (by simp) hok hlen hpl hcd
  obtain ⟨layout, oc, hlay, hpick, hrep⟩ := hiter
  have hmeta := parseMeta_encode deps actor others seq startOp time message rows extra layout oc hnd hdl hal hseq hso0
    (by omega) htime hmsg hno hol hcd hlay hpick
  have hrows := rowsLoop_ok rows _ limit hlim hok hrep
  have hchunk := Stored.parse (bodyOk := fun _ _ => true)
    (s := .plain Consts.CHUNK_TYPE_CHANGE (encodeBody deps actor others seq startOp time message rows extra))
    ⟨by decide, by decide, hbody, rfl⟩ []
  simp only [Stored.bytes, List.append_nil, Stored.chunk] at hchunk
  unfold fromBytes
  rw [hchunk]
  simp only [hmeta, hrows]
  simp [Consts.CHUNK_TYPE_CHANGE, Consts.CHUNK_TYPE_COMPRESSED, hso, Chunk.checksumValid]

end AmVerif.ChangeCodec.Full
