import AmVerif.Proofs.PatchFullMain
/-
  C09, full register statement, part 4: the walker's guarantees as a decidable (Bool) predicate.
-/
namespace AmVerif.Crdt
open AmVerif

/-- every later incoming value has an id above all of `p` -/
def laterAbove (p : List OpId) (rest : List ChgOp) : Bool :=
  rest.all (fun op => match op with
    | .value id _ => p.all (fun q => q.lt id)
    | .inc _ _ => true)

/-- What the batch walker guarantees, relative to the value `D0 = foldDoc ds` it tracks for the
    document (the greatest surviving document operation, or the last deleted one):
    * an incoming value's id differs from the tracked document operation's (fresh ids);
    * an increment names the tracked document operation only if that is a counter or is deleted by
      the batch (an increment of a non-counter is a delete: `normalize_increment_successors`);
    * operations arrive in op-id order and an increment's id is above its predecessors': every
      incoming value after an increment has an id above the increment's predecessors. -/
def walkerOK (D0 : Option OpValue) : List ChgOp → Bool
  | [] => true
  | .value id _ :: rest =>
    (match D0 with | some d0 => d0.id.lt id || id.lt d0.id | none => true) && walkerOK D0 rest
  | .inc p _ :: rest =>
    (match D0 with | some d0 => !p.contains d0.id || d0.deleted || d0.val.isCounter | none => true)
      && laterAbove p rest && walkerOK D0 rest

theorem isCounter_iff (v : PVal) (h : v.isCounter = true) : ∃ k, v = .scalar (.counter k) := by
  cases v with
  | scalar s => cases s <;> simp_all [PVal.isCounter]
  | obj t => simp [PVal.isCounter] at h

theorem laterAbove_spec (p : List OpId) (rest : List ChgOp) (h : laterAbove p rest = true) :
    ∀ id v, ChgOp.value id v ∈ rest → ∀ q, p.contains q = true → q.lt id = true := by
  intro id v hm q hq
  have h1 := (List.all_eq_true.mp h) _ hm
  have h2 := (List.all_eq_true.mp h1) q (by simpa using hq)
  exact h2

theorem chgOK_of_walkerOK (D0 : Option OpValue) : ∀ (cs : List ChgOp), walkerOK D0 cs = true → chgOK D0 cs := by
  intro cs
  induction cs with
  | nil => intro _; trivial
  | cons x rest ih =>
    intro h
    cases x with
    | value id v =>
      simp only [walkerOK, Bool.and_eq_true] at h
      refine ⟨?_, ih h.2⟩
      intro d0 hd
      subst hd
      simpa using h.1
    | inc p n =>
      simp only [walkerOK, Bool.and_eq_true] at h
      refine ⟨⟨?_, laterAbove_spec p rest h.1.2⟩, ih h.2⟩
      intro d0 hd hc
      subst hd
      have h1 := h.1.1
      simp only [hc, Bool.not_true, Bool.false_or, Bool.or_eq_true] at h1
      rcases h1 with h1 | h1
      · exact Or.inl h1
      · exact Or.inr (isCounter_iff _ h1)

end AmVerif.Crdt
