import AmVerif.Proofs.DocCodecWF
/-
  C11 (document chunk): the well-formedness of an image as an executable check `wfB` (a `Bool`, so the
  predicate `wfB limit img = true` is decidable and can be evaluated on concrete images), and its
  soundness for the predicate `WF` the proofs use.
-/
namespace AmVerif.DocCodec
open AmVerif
open AmVerif.Hexane (two63 two64 validStr validUtf8)
open AmVerif.ChangeCodec (IdI valueMeta valueRaw)

def idOkB (i : IdI) : Bool := decide (i.ctr < 2 ^ 32) && decide (i.actor < 2 ^ 32)
def validStrB (s : Bytes) : Bool := decide (s.length < 2 ^ 64) && validUtf8 s
def valOkB (v : Crdt.Scalar) : Bool :=
  decide (valueMeta v < 2 ^ 64) && decide (valueMeta v / 16 = (valueRaw v).length) &&
    decide (scalarOfRaw (valueMeta v) (valueRaw v) = some v)

def rowOkB (r : OpRow) : Bool :=
  idOkB r.id &&
  (match r.obj with | some i => idOkB i && decide (0 < i.ctr) | none => true) &&
  (match r.key with | .prop s => validStrB s | .head => true | .elem e => idOkB e && decide (0 < e.ctr)) &&
  decide (r.action ≤ 7) && valOkB r.val && r.succ.all idOkB && decide (r.succ.length < 2 ^ 32) &&
  (match r.markName with | some s => validStrB s | none => true)

def depsOkB (maxOps : List Nat) (i : Nat) (deps : List Nat) : Bool :=
  match maxOps[i]? with
  | some mi => deps.all (fun d => decide (d < 2 ^ 32) &&
      (match maxOps[d]? with | some md => decide (md ≤ mi) | none => false))
  | none => false

def changeOkB (numActors : Nat) (maxOps : List Nat) (i : Nat) (c : ChangeMeta) : Bool :=
  decide (c.actor < numActors) && decide (c.actor < 2 ^ 32) && decide (c.seq < 2 ^ 32) && decide (c.maxOp < 2 ^ 32) &&
  decide (-(2 ^ 62 : Int) ≤ c.time) && decide (c.time < (2 ^ 62 : Int)) &&
  (match c.message with | some s => validStrB s | none => true) &&
  decide (extraMeta c.extra < 2 ^ 64) && decide (c.deps.length < 2 ^ 32) && depsOkB maxOps i c.deps

/-- **the well-formedness check** (see `WF` for what each part says) -/
def wfB (limit : Nat) (img : DocImage) : Bool :=
  decide (limit < two63) && decide (img.actors.length < 2 ^ 64) && img.actors.all (fun a => decide (a.length < 2 ^ 64)) &&
  decide (img.heads.length < 2 ^ 64) && img.heads.all (fun h => decide (h.length = Consts.HASH_SIZE)) &&
  decide (img.headIdx.length = img.heads.length) && img.headIdx.all (fun x => decide (x < 2 ^ 64)) &&
  decide (img.ops.length ≤ limit) && decide ((img.ops.map (·.succ.length)).sum ≤ limit) && img.ops.all rowOkB &&
  decide ((img.ops.map (fun r => valueMeta r.val / 16)).sum < two64) &&
  decide ((colData (nonEmptyCols (opCols img.ops))).length < 2 ^ 64) &&
  decide (img.changes.length ≤ limit) &&
  ((List.range img.changes.length).zip img.changes).all
    (fun p => changeOkB img.actors.length (img.changes.map (·.maxOp)) p.1 p.2) &&
  decide ((img.changes.map (·.deps.length)).sum ≤ limit) &&
  decide ((img.changes.map (fun c => c.extra.length)).sum < two64) &&
  decide ((colData (nonEmptyCols (changeCols img.changes))).length < 2 ^ 64)

theorem idOkB_sound {i : IdI} (h : idOkB i = true) : IdOk i := by
  simp only [idOkB, Bool.and_eq_true, decide_eq_true_eq] at h
  exact h

theorem validStrB_sound {s : Bytes} (h : validStrB s = true) : validStr s := by
  simp only [validStrB, Bool.and_eq_true, decide_eq_true_eq] at h
  exact h

theorem rowOkB_sound {r : OpRow} (h : rowOkB r = true) : RowOk r := by
  simp only [rowOkB, Bool.and_eq_true, decide_eq_true_eq, List.all_eq_true] at h
  obtain ⟨⟨⟨⟨⟨⟨⟨h1, h2⟩, h3⟩, h4⟩, h5⟩, h6⟩, h7⟩, h8⟩ := h
  refine ⟨idOkB_sound h1, ?_, ?_, h4, ?_, fun s hs => idOkB_sound (h6 s hs), h7, ?_⟩
  · intro i hi
    rw [hi] at h2
    simp only [Bool.and_eq_true, decide_eq_true_eq] at h2
    exact ⟨idOkB_sound h2.1, h2.2⟩
  · cases hk : r.key with
    | prop s => rw [hk] at h3; exact validStrB_sound h3
    | head => trivial
    | elem e =>
      rw [hk] at h3
      simp only [Bool.and_eq_true, decide_eq_true_eq] at h3
      exact ⟨idOkB_sound h3.1, h3.2⟩
  · simp only [valOkB, Bool.and_eq_true, decide_eq_true_eq] at h5
    exact ⟨h5.1.1, h5.1.2, h5.2⟩
  · intro s hs
    rw [hs] at h8
    exact validStrB_sound h8

theorem depsOkB_sound {maxOps : List Nat} {i : Nat} {deps : List Nat} (h : depsOkB maxOps i deps = true) :
    DepsOk maxOps i deps := by
  unfold depsOkB at h
  cases hm : maxOps[i]? with
  | none => rw [hm] at h; cases h
  | some mi =>
    rw [hm] at h
    simp only [List.all_eq_true, Bool.and_eq_true, decide_eq_true_eq] at h
    refine ⟨mi, by first | rfl | exact hm, fun d hd => ?_⟩
    obtain ⟨h1, h2⟩ := h d hd
    cases hmd : maxOps[d]? with
    | none => rw [hmd] at h2; cases h2
    | some md =>
      rw [hmd] at h2
      simp only [decide_eq_true_eq] at h2
      exact ⟨h1, md, by first | rfl | exact hmd, h2⟩

theorem changeOkB_sound {numActors : Nat} {maxOps : List Nat} {i : Nat} {c : ChangeMeta}
    (h : changeOkB numActors maxOps i c = true) : ChangeOk numActors maxOps i c := by
  simp only [changeOkB, Bool.and_eq_true, decide_eq_true_eq] at h
  obtain ⟨⟨⟨⟨⟨⟨⟨⟨⟨h1, h2⟩, h3⟩, h4⟩, h5⟩, h6⟩, h7⟩, h8⟩, h9⟩, h10⟩ := h
  refine ⟨⟨h1, h2⟩, h3, h4, ⟨h5, h6⟩, ?_, h8, h9, depsOkB_sound h10⟩
  intro s hs
  rw [hs] at h7
  exact validStrB_sound h7

theorem zip_range_getElem {α : Type} (l : List α) (i : Nat) (hi : i < l.length) :
    (i, l[i]) ∈ (List.range l.length).zip l := by
  rw [List.mem_iff_getElem]
  refine ⟨i, by simp [hi], ?_⟩
  simp

/-- **the check is sound** -/
theorem wfB_sound {limit : Nat} {img : DocImage} (h : wfB limit img = true) : WF limit img := by
  simp only [wfB, Bool.and_eq_true, decide_eq_true_eq, List.all_eq_true] at h
  obtain ⟨⟨⟨⟨⟨⟨⟨⟨⟨⟨⟨⟨⟨⟨⟨⟨h1, h2⟩, h3⟩, h4⟩, h5⟩, h6⟩, h7⟩, h8⟩, h9⟩, h10⟩, h11⟩, h12⟩, h13⟩, h14⟩, h15⟩, h16⟩, h17⟩ := h
  exact
    { limit63 := h1, nActors := h2, actorLen := h3, nHeads := h4, headLen := h5, headIdxLen := h6, headIdxVal := h7,
      nOps := h8, nSucc := h9, rows := fun r hr => rowOkB_sound (h10 r hr), valBytes := h11, opData := h12,
      nChanges := h13,
      changes := fun i hi => changeOkB_sound (h14 (i, img.changes[i]) (zip_range_getElem img.changes i hi)),
      nDeps := h15, extraBytes := h16, changeData := h17 }

end AmVerif.DocCodec
