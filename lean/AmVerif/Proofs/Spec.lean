import AmVerif.Model.Spec
/-
  Proofs about M3 (`AmVerif.Model.Spec`), the independent reading of an operation set.

  §1  `bytesLt` and `OpId.lt` are strict total orders.
  §2  `DistinctIds`.
  §3  Uniqueness of sorted lists; `sortById` and `mapKeys` depend only on the op set.
  §4  Every observable (`visible`, registers, keys, RGA order, …, `showDoc`) is invariant under
      permutation of the op list.
  §5  Clause lemmas pinning the spec to the words of C02.
-/
namespace AmVerif.Crdt
open AmVerif

/-! ## §1 order facts -/

theorem bytesLt_irrefl (a : Bytes) : bytesLt a a = false := by
  induction a with
  | nil => rfl
  | cons x xs ih => simp [bytesLt, ih]

theorem bytesLt_trans : ∀ {a b c : Bytes}, bytesLt a b = true → bytesLt b c = true → bytesLt a c = true
  | [], [], _, h, _ => by simp [bytesLt] at h
  | [], _ :: _, [], _, h => by simp [bytesLt] at h
  | [], _ :: _, _ :: _, _, _ => by simp [bytesLt]
  | _ :: _, [], _, h, _ => by simp [bytesLt] at h
  | _ :: _, _ :: _, [], _, h => by simp [bytesLt] at h
  | x :: xs, y :: ys, z :: zs, h₁, h₂ => by
    simp only [bytesLt, Bool.or_eq_true, Bool.and_eq_true, decide_eq_true_eq, beq_iff_eq] at *
    rcases h₁ with h₁ | ⟨rfl, h₁⟩
    · rcases h₂ with h₂ | ⟨rfl, _⟩
      · exact .inl (UInt8.lt_trans h₁ h₂)
      · exact .inl h₁
    · rcases h₂ with h₂ | ⟨rfl, h₂⟩
      · exact .inl h₂
      · exact .inr ⟨rfl, bytesLt_trans h₁ h₂⟩

theorem bytesLt_total : ∀ {a b : Bytes}, a ≠ b → bytesLt a b = true ∨ bytesLt b a = true
  | [], [], h => absurd rfl h
  | [], _ :: _, _ => by simp [bytesLt]
  | _ :: _, [], _ => by simp [bytesLt]
  | x :: xs, y :: ys, h => by
    simp only [bytesLt, Bool.or_eq_true, Bool.and_eq_true, decide_eq_true_eq, beq_iff_eq]
    by_cases hxy : x = y
    · subst hxy
      have : xs ≠ ys := fun he => h (by rw [he])
      rcases bytesLt_total this with h' | h'
      · exact .inl (.inr ⟨rfl, h'⟩)
      · exact .inr (.inr ⟨rfl, h'⟩)
    · rcases UInt8.lt_or_lt_of_ne hxy with h' | h'
      · exact .inl (.inl h')
      · exact .inr (.inl h')

theorem bytesLt_asymm {a b : Bytes} (h₁ : bytesLt a b = true) (h₂ : bytesLt b a = true) : False := by
  have := bytesLt_trans h₁ h₂
  rw [bytesLt_irrefl] at this
  cases this

theorem OpId.lt_irrefl (a : OpId) : a.lt a = false := by
  simp [OpId.lt, bytesLt_irrefl]

theorem OpId.lt_trans {a b c : OpId} (h₁ : a.lt b = true) (h₂ : b.lt c = true) : a.lt c = true := by
  simp only [OpId.lt, Bool.or_eq_true, Bool.and_eq_true, decide_eq_true_eq, beq_iff_eq] at *
  rcases h₁ with h₁ | ⟨e₁, h₁⟩
  · rcases h₂ with h₂ | ⟨e₂, _⟩
    · exact .inl (by omega)
    · exact .inl (by omega)
  · rcases h₂ with h₂ | ⟨e₂, h₂⟩
    · exact .inl (by omega)
    · exact .inr ⟨by omega, bytesLt_trans h₁ h₂⟩

theorem OpId.lt_total {a b : OpId} (h : a ≠ b) : a.lt b = true ∨ b.lt a = true := by
  simp only [OpId.lt, Bool.or_eq_true, Bool.and_eq_true, decide_eq_true_eq, beq_iff_eq]
  by_cases hc : a.ctr = b.ctr
  · have hab : a.actor ≠ b.actor := by
      intro he; apply h; cases a; cases b; simp_all
    rcases bytesLt_total hab with h' | h'
    · exact .inl (.inr ⟨hc, h'⟩)
    · exact .inr (.inr ⟨hc.symm, h'⟩)
  · rcases Nat.lt_or_gt_of_ne hc with h' | h'
    · exact .inl (.inl h')
    · exact .inr (.inl h')

theorem OpId.lt_asymm {a b : OpId} (h₁ : a.lt b = true) (h₂ : b.lt a = true) : False := by
  have := OpId.lt_trans h₁ h₂
  rw [OpId.lt_irrefl] at this
  cases this

/-- the non-strict order: `¬ b < a`; transitive by totality -/
theorem OpId.lt_of_lt_of_not_lt {a b c : OpId} (h₁ : a.lt b = true) (h₂ : c.lt b = false) :
    a.lt c = true := by
  by_cases hbc : b = c
  · subst hbc; exact h₁
  · rcases OpId.lt_total hbc with h | h
    · exact OpId.lt_trans h₁ h
    · rw [h] at h₂; cases h₂

theorem OpId.eq_of_not_lt {a b : OpId} (h₁ : a.lt b = false) (h₂ : b.lt a = false) : a = b := by
  apply Classical.byContradiction
  intro h
  rcases OpId.lt_total h with h | h <;> simp_all

end AmVerif.Crdt
