import AmVerif.Model.Spec
/-
  Proofs about M3 (`AmVerif.Model.Spec`), the independent reading of an operation set.

  §1  `bytesLt` and `OpId.lt` are strict total orders.
  §2  `DistinctIds`.
  §3  Uniqueness of sorted lists; `sortById` and `mapKeys` depend only on the op set.
  §4  Every observable (`visible`, registers, keys, RGA order, …, `showDoc`) is invariant under
      permutation of the op list.
  §5  Clause lemmas pinning the spec to the words of C02.
-/
namespace AmVerif.Crdt
open AmVerif

/-! ## §1 order facts -/

theorem bytesLt_irrefl (a : Bytes) : bytesLt a a = false := by
  induction a with
  | nil => rfl
  | cons x xs ih => simp [bytesLt, ih]

theorem bytesLt_trans : ∀ {a b c : Bytes}, bytesLt a b = true → bytesLt b c = true → bytesLt a c = true
  | [], [], _, h, _ => by simp [bytesLt] at h
  | [], _ :: _, [], _, h => by simp [bytesLt] at h
  | [], _ :: _, _ :: _, _, _ => by simp [bytesLt]
  | _ :: _, [], _, h, _ => by simp [bytesLt] at h
  | _ :: _, _ :: _, [], _, h => by simp [bytesLt] at h
  | x :: xs, y :: ys, z :: zs, h₁, h₂ => by
    simp only [bytesLt, Bool.or_eq_true, Bool.and_eq_true, decide_eq_true_eq, beq_iff_eq] at *
    rcases h₁ with h₁ | ⟨rfl, h₁⟩
    · rcases h₂ with h₂ | ⟨rfl, _⟩
      · exact .inl (UInt8.lt_trans h₁ h₂)
      · exact .inl h₁
    · rcases h₂ with h₂ | ⟨rfl, h₂⟩
      · exact .inl h₂
      · exact .inr ⟨rfl, bytesLt_trans h₁ h₂⟩

theorem bytesLt_total : ∀ {a b : Bytes}, a ≠ b → bytesLt a b = true ∨ bytesLt b a = true
  | [], [], h => absurd rfl h
  | [], _ :: _, _ => by simp [bytesLt]
  | _ :: _, [], _ => by simp [bytesLt]
  | x :: xs, y :: ys, h => by
    simp only [bytesLt, Bool.or_eq_true, Bool.and_eq_true, decide_eq_true_eq, beq_iff_eq]
    by_cases hxy : x = y
    · subst hxy
      have : xs ≠ ys := fun he => h (by rw [he])
      rcases bytesLt_total this with h' | h'
      · exact .inl (.inr ⟨rfl, h'⟩)
      · exact .inr (.inr ⟨rfl, h'⟩)
    · rcases UInt8.lt_or_lt_of_ne hxy with h' | h'
      · exact .inl (.inl h')
      · exact .inr (.inl h')

theorem bytesLt_asymm {a b : Bytes} (h₁ : bytesLt a b = true) (h₂ : bytesLt b a = true) : False := by
  have := bytesLt_trans h₁ h₂
  rw [bytesLt_irrefl] at this
  cases this

theorem OpId.lt_irrefl (a : OpId) : a.lt a = false := by
  simp [OpId.lt, bytesLt_irrefl]

theorem OpId.lt_trans {a b c : OpId} (h₁ : a.lt b = true) (h₂ : b.lt c = true) : a.lt c = true := by
  simp only [OpId.lt, Bool.or_eq_true, Bool.and_eq_true, decide_eq_true_eq, beq_iff_eq] at *
  rcases h₁ with h₁ | ⟨e₁, h₁⟩
  · rcases h₂ with h₂ | ⟨e₂, _⟩
    · exact .inl (by omega)
    · exact .inl (by omega)
  · rcases h₂ with h₂ | ⟨e₂, h₂⟩
    · exact .inl (by omega)
    · exact .inr ⟨by omega, bytesLt_trans h₁ h₂⟩

theorem OpId.lt_total {a b : OpId} (h : a ≠ b) : a.lt b = true ∨ b.lt a = true := by
  simp only [OpId.lt, Bool.or_eq_true, Bool.and_eq_true, decide_eq_true_eq, beq_iff_eq]
  by_cases hc : a.ctr = b.ctr
  · have hab : a.actor ≠ b.actor := by
      intro he; apply h; cases a; cases b; simp_all
    rcases bytesLt_total hab with h' | h'
    · exact .inl (.inr ⟨hc, h'⟩)
    · exact .inr (.inr ⟨hc.symm, h'⟩)
  · rcases Nat.lt_or_gt_of_ne hc with h' | h'
    · exact .inl (.inl h')
    · exact .inr (.inl h')

theorem OpId.lt_asymm {a b : OpId} (h₁ : a.lt b = true) (h₂ : b.lt a = true) : False := by
  have := OpId.lt_trans h₁ h₂
  rw [OpId.lt_irrefl] at this
  cases this

/-- the non-strict order: `¬ b < a`; transitive by totality -/
theorem OpId.lt_of_lt_of_not_lt {a b c : OpId} (h₁ : a.lt b = true) (h₂ : c.lt b = false) :
    a.lt c = true := by
  by_cases hbc : b = c
  · subst hbc; exact h₁
  · rcases OpId.lt_total hbc with h | h
    · exact OpId.lt_trans h₁ h
    · rw [h] at h₂; cases h₂

theorem OpId.eq_of_not_lt {a b : OpId} (h₁ : a.lt b = false) (h₂ : b.lt a = false) : a = b := by
  apply Classical.byContradiction
  intro h
  rcases OpId.lt_total h with h | h <;> simp_all

/-! ## §2 distinct ids -/

/-- operation ids identify operations (an op list may still repeat the *same* op) -/
def DistinctIds (ops : List Op) : Prop := ∀ a ∈ ops, ∀ b ∈ ops, a.id = b.id → a = b

instance (ops : List Op) : Decidable (DistinctIds ops) := by
  unfold DistinctIds; infer_instance

/-- distinct ids and no repeated op: any two *positions* hold different ids -/
def StrictIds (ops : List Op) : Prop := ops.Pairwise (fun a b => a.id ≠ b.id)

instance (ops : List Op) : Decidable (StrictIds ops) := by
  unfold StrictIds; infer_instance

theorem DistinctIds.perm {l₁ l₂ : List Op} (hd : DistinctIds l₁) (h : l₁.Perm l₂) : DistinctIds l₂ :=
  fun a ha b hb => hd a (h.mem_iff.mpr ha) b (h.mem_iff.mpr hb)

theorem DistinctIds.subset {l₁ l₂ : List Op} (hd : DistinctIds l₁) (h : ∀ x ∈ l₂, x ∈ l₁) :
    DistinctIds l₂ :=
  fun a ha b hb => hd a (h a ha) b (h b hb)

theorem DistinctIds.filter {l : List Op} (hd : DistinctIds l) (p : Op → Bool) :
    DistinctIds (l.filter p) :=
  hd.subset (fun _ hx => (List.mem_filter.mp hx).1)

theorem StrictIds.distinctIds {l : List Op} (h : StrictIds l) : DistinctIds l := by
  induction l with
  | nil => intro a ha; cases ha
  | cons x xs ih =>
    have hx : ∀ b ∈ xs, x.id ≠ b.id := fun b hb => List.rel_of_pairwise_cons h hb
    have ih := ih (List.Pairwise.of_cons h)
    intro a ha b hb hab
    rcases List.mem_cons.mp ha with rfl | ha' <;> rcases List.mem_cons.mp hb with rfl | hb'
    · rfl
    · exact absurd hab (hx _ hb')
    · exact absurd hab.symm (hx _ ha')
    · exact ih a ha' b hb' hab

theorem StrictIds.nodup {l : List Op} (h : StrictIds l) : l.Nodup :=
  List.Pairwise.imp (fun hne he => hne (by rw [he])) h

theorem strictIds_iff {l : List Op} : StrictIds l ↔ DistinctIds l ∧ l.Nodup := by
  refine ⟨fun h => ⟨h.distinctIds, h.nodup⟩, fun h => ?_⟩
  obtain ⟨hd, hn⟩ := h
  induction l with
  | nil => exact List.Pairwise.nil
  | cons x xs ih =>
    rw [List.nodup_cons] at hn
    refine List.Pairwise.cons (fun b hb he => ?_) (ih (hd.subset fun _ h => List.mem_cons_of_mem _ h) hn.2)
    have := hd x List.mem_cons_self b (List.mem_cons_of_mem _ hb) he
    exact hn.1 (this ▸ hb)

theorem StrictIds.perm {l₁ l₂ : List Op} (hd : StrictIds l₁) (h : l₁.Perm l₂) : StrictIds l₂ :=
  List.Pairwise.perm hd h (fun hne => fun he => hne he.symm)

theorem StrictIds.filter {l : List Op} (hd : StrictIds l) (p : Op → Bool) : StrictIds (l.filter p) :=
  List.Pairwise.filter p hd

/-! ## §3 sorted lists are determined by their members -/

/-- Two lists strictly sorted by an asymmetric relation and with the same members are equal. -/
theorem eq_of_pairwise_of_mem_iff {α : Type} {r : α → α → Prop}
    (hasym : ∀ a b, r a b → r b a → False) :
    ∀ (l₁ l₂ : List α), l₁.Pairwise r → l₂.Pairwise r → (∀ x, x ∈ l₁ ↔ x ∈ l₂) → l₁ = l₂
  | [], [], _, _, _ => rfl
  | [], b :: l₂, _, _, h => by have := (h b).mpr List.mem_cons_self; cases this
  | a :: l₁, [], _, _, h => by have := (h a).mp List.mem_cons_self; cases this
  | a :: l₁, b :: l₂, h₁, h₂, h => by
    have am : a ∈ b :: l₂ := (h a).mp List.mem_cons_self
    have bm : b ∈ a :: l₁ := (h b).mpr List.mem_cons_self
    have ab : a = b := by
      rcases List.mem_cons.mp am with rfl | am
      · rfl
      · rcases List.mem_cons.mp bm with rfl | bm
        · rfl
        · exact (hasym _ _ (List.rel_of_pairwise_cons h₁ bm) (List.rel_of_pairwise_cons h₂ am)).elim
    subst ab
    have ht : ∀ x, x ∈ l₁ ↔ x ∈ l₂ := by
      intro x
      constructor
      · intro hx
        rcases List.mem_cons.mp ((h x).mp (List.mem_cons_of_mem _ hx)) with rfl | hx'
        · exact (hasym _ _ (List.rel_of_pairwise_cons h₁ hx) (List.rel_of_pairwise_cons h₁ hx)).elim
        · exact hx'
      · intro hx
        rcases List.mem_cons.mp ((h x).mpr (List.mem_cons_of_mem _ hx)) with rfl | hx'
        · exact (hasym _ _ (List.rel_of_pairwise_cons h₂ hx) (List.rel_of_pairwise_cons h₂ hx)).elim
        · exact hx'
    rw [eq_of_pairwise_of_mem_iff hasym l₁ l₂ (List.Pairwise.of_cons h₁) (List.Pairwise.of_cons h₂) ht]

/-! ### `sortById` -/

theorem insertById_perm (o : Op) (l : List Op) : (insertById o l).Perm (o :: l) := by
  induction l with
  | nil => exact List.Perm.refl _
  | cons x xs ih =>
    simp only [insertById]
    split
    · exact List.Perm.refl _
    · exact ((List.Perm.cons x ih).trans (List.Perm.swap o x xs))

theorem sortById_perm (l : List Op) : (sortById l).Perm l := by
  induction l with
  | nil => exact List.Perm.refl _
  | cons x xs ih =>
    show (insertById x (sortById xs)).Perm (x :: xs)
    exact (insertById_perm x _).trans (List.Perm.cons x ih)

theorem mem_sortById {l : List Op} {o : Op} : o ∈ sortById l ↔ o ∈ l := (sortById_perm l).mem_iff

/-- ascending by id (non-strict form: no later entry has a smaller id) -/
abbrev AscById (l : List Op) : Prop := l.Pairwise (fun a b => b.id.lt a.id = false)

theorem insertById_asc (o : Op) {l : List Op} (h : AscById l) : AscById (insertById o l) := by
  induction l with
  | nil => exact List.pairwise_singleton _ _
  | cons x xs ih =>
    simp only [insertById]
    split
    · rename_i hox
      refine List.Pairwise.cons (fun b hb => ?_) h
      rcases List.mem_cons.mp hb with rfl | hb
      · cases hc : b.id.lt o.id
        · rfl
        · exact (OpId.lt_asymm hox hc).elim
      · have hxb := List.rel_of_pairwise_cons h hb
        cases hc : b.id.lt o.id
        · rfl
        · have := OpId.lt_trans hc hox
          rw [hxb] at this; cases this
    · rename_i hox
      refine List.Pairwise.cons (fun b hb => ?_) (ih (List.Pairwise.of_cons h))
      rcases List.mem_cons.mp ((insertById_perm o xs).mem_iff.mp hb) with rfl | hb
      · simpa using hox
      · exact List.rel_of_pairwise_cons h hb

theorem sortById_asc (l : List Op) : AscById (sortById l) := by
  induction l with
  | nil => exact List.Pairwise.nil
  | cons x xs ih => exact insertById_asc x ih

/-- the sorted list depends only on the multiset of ops -/
theorem sortById_eq_of_perm {l₁ l₂ : List Op} (h : l₁.Perm l₂) (hd : DistinctIds l₁) :
    sortById l₁ = sortById l₂ := by
  refine List.Perm.eq_of_pairwise (le := fun a b => b.id.lt a.id = false) ?_ (sortById_asc l₁)
    (sortById_asc l₂) ((sortById_perm l₁).trans (h.trans (sortById_perm l₂).symm))
  intro a b ha hb hab hba
  exact hd a (mem_sortById.mp ha) b (h.mem_iff.mpr (mem_sortById.mp hb)) (OpId.eq_of_not_lt hba hab)

/-- with no repeated op the sorted list is strictly ascending -/
theorem sortById_strict {l : List Op} (hd : StrictIds l) :
    (sortById l).Pairwise (fun a b => a.id.lt b.id = true) := by
  have hs : StrictIds (sortById l) := hd.perm (sortById_perm l).symm
  have ha := sortById_asc l
  unfold StrictIds AscById at *
  refine List.Pairwise.imp₂ ?_ hs ha
  intro a b hne hnlt
  rcases OpId.lt_total hne with h | h
  · exact h
  · rw [h] at hnlt; cases hnlt

/-- the sorted list is the unique strictly ascending list with the same members -/
theorem sortById_unique {l s : List Op} (hd : StrictIds l)
    (hs : s.Pairwise (fun a b => a.id.lt b.id = true)) (hm : ∀ x, x ∈ s ↔ x ∈ l) : s = sortById l :=
  eq_of_pairwise_of_mem_iff (fun _ _ h₁ h₂ => OpId.lt_asymm h₁ h₂) s (sortById l) hs
    (sortById_strict hd) (fun x => (hm x).trans mem_sortById.symm)

/-! ### `mapKeys` -/

/-- the key-collecting fold of `mapKeys` -/
def keysOf (l : List Op) : List Bytes :=
  l.foldr (fun o acc => match o.key with | .map k => insertKey k acc | _ => acc) []

theorem mem_insertKey {k x : Bytes} {l : List Bytes} : x ∈ insertKey k l ↔ x = k ∨ x ∈ l := by
  induction l with
  | nil => simp [insertKey]
  | cons y ys ih =>
    simp only [insertKey]
    split
    · rename_i h
      have : k = y := by simpa using h
      subst this
      simp
    · split
      · simp
      · simp only [List.mem_cons, ih]
        constructor
        · rintro (h | h | h) <;> simp [h]
        · rintro (h | h | h) <;> simp [h]

theorem insertKey_sorted (k : Bytes) {l : List Bytes} (h : l.Pairwise (fun a b => bytesLt a b = true)) :
    (insertKey k l).Pairwise (fun a b => bytesLt a b = true) := by
  induction l with
  | nil => exact List.pairwise_singleton _ _
  | cons y ys ih =>
    simp only [insertKey]
    split
    · exact h
    · rename_i hne
      have hne : k ≠ y := by simpa using hne
      split
      · rename_i hlt
        refine List.Pairwise.cons (fun b hb => ?_) h
        rcases List.mem_cons.mp hb with rfl | hb
        · exact hlt
        · exact bytesLt_trans hlt (List.rel_of_pairwise_cons h hb)
      · rename_i hnlt
        refine List.Pairwise.cons (fun b hb => ?_) (ih (List.Pairwise.of_cons h))
        rcases mem_insertKey.mp hb with rfl | hb
        · rcases bytesLt_total hne with h' | h'
          · exact absurd h' hnlt
          · exact h'
        · exact List.rel_of_pairwise_cons h hb

theorem keysOf_sorted (l : List Op) : (keysOf l).Pairwise (fun a b => bytesLt a b = true) := by
  induction l with
  | nil => exact List.Pairwise.nil
  | cons x xs ih =>
    show List.Pairwise _ (match x.key with | .map k => insertKey k (keysOf xs) | _ => keysOf xs)
    split
    · exact insertKey_sorted _ ih
    · exact ih

theorem mem_keysOf {l : List Op} {k : Bytes} : k ∈ keysOf l ↔ ∃ o ∈ l, o.key = .map k := by
  induction l with
  | nil => simp [keysOf]
  | cons x xs ih =>
    show k ∈ (match x.key with | .map k => insertKey k (keysOf xs) | _ => keysOf xs) ↔ _
    split
    · rename_i k' hk
      simp only [mem_insertKey, ih, List.mem_cons, exists_eq_or_imp, hk, Key.map.injEq]
      constructor
      · rintro (h | h)
        · exact .inl h.symm
        · exact .inr h
      · rintro (h | h)
        · exact .inl h.symm
        · exact .inr h
    · rename_i hk
      simp only [ih, List.mem_cons, exists_eq_or_imp]
      constructor
      · exact fun h => .inr h
      · rintro (h | h)
        · exact (hk k h).elim
        · exact h

/-- the key list depends only on the *set* of ops -/
theorem keysOf_eq_of_mem_iff {l₁ l₂ : List Op} (h : ∀ o, o ∈ l₁ ↔ o ∈ l₂) : keysOf l₁ = keysOf l₂ := by
  refine eq_of_pairwise_of_mem_iff (fun _ _ h₁ h₂ => bytesLt_asymm h₁ h₂) _ _ (keysOf_sorted l₁)
    (keysOf_sorted l₂) (fun k => ?_)
  simp only [mem_keysOf, h]

theorem mapKeys_eq_keysOf (ops : List Op) (obj : ObjId) :
    mapKeys ops obj = keysOf (ops.filter (fun o => o.obj == obj && visible ops o)) := rfl

/-! ## §4 every observable is invariant under permutation of the op list -/

section Perm
variable {ops₁ ops₂ : List Op}

theorem overwritten_perm (h : ops₁.Perm ops₂) (o : Op) : overwritten ops₁ o = overwritten ops₂ o := by
  rw [Bool.eq_iff_iff]
  simp only [overwritten, List.any_eq_true, h.mem_iff]

theorem visible_perm (h : ops₁.Perm ops₂) (o : Op) : visible ops₁ o = visible ops₂ o := by
  simp only [visible, overwritten_perm h]

theorem counterValue_perm (h : ops₁.Perm ops₂) (o : Op) (init : Int) :
    counterValue ops₁ o init = counterValue ops₂ o init := by
  unfold counterValue
  refine List.Perm.foldl_eq' (h.filter _) ?_ init
  intro x _ y _ z
  omega

theorem entryOf_perm (h : ops₁.Perm ops₂) (o : Op) : entryOf ops₁ o = entryOf ops₂ o := by
  unfold entryOf
  split <;> simp only [counterValue_perm h]

/-- filtering then sorting by id: the shape shared by `mapRegister`, `elemRegister`, `children` -/
theorem sortById_filter_perm (h : ops₁.Perm ops₂) (hd : DistinctIds ops₁) (p : Op → Bool) :
    sortById (ops₁.filter p) = sortById (ops₂.filter p) :=
  sortById_eq_of_perm (h.filter p) (hd.filter p)

theorem mapRegister_perm (h : ops₁.Perm ops₂) (hd : DistinctIds ops₁) (obj : ObjId) (k : Bytes) :
    mapRegister ops₁ obj k = mapRegister ops₂ obj k := by
  unfold mapRegister
  have hv : visible ops₁ = visible ops₂ := funext (visible_perm h)
  have he : entryOf ops₁ = entryOf ops₂ := funext (entryOf_perm h)
  rw [hv, he, sortById_filter_perm h hd]

theorem elemRegister_perm (h : ops₁.Perm ops₂) (hd : DistinctIds ops₁) (obj : ObjId) (e : OpId) :
    elemRegister ops₁ obj e = elemRegister ops₂ obj e := by
  unfold elemRegister
  have hv : visible ops₁ = visible ops₂ := funext (visible_perm h)
  have he : entryOf ops₁ = entryOf ops₂ := funext (entryOf_perm h)
  rw [hv, he, sortById_filter_perm h hd]

/-- `mapKeys` needs no distinctness: it depends only on the *set* of ops -/
theorem mapKeys_perm (h : ops₁.Perm ops₂) (obj : ObjId) : mapKeys ops₁ obj = mapKeys ops₂ obj := by
  rw [mapKeys_eq_keysOf, mapKeys_eq_keysOf]
  have hv : visible ops₁ = visible ops₂ := funext (visible_perm h)
  rw [hv]
  exact keysOf_eq_of_mem_iff (fun o => (h.filter _).mem_iff)

theorem children_perm (h : ops₁.Perm ops₂) (hd : DistinctIds ops₁) (obj : ObjId) (parent : Key) :
    children ops₁ obj parent = children ops₂ obj parent := by
  unfold children
  rw [sortById_filter_perm h hd]

theorem rgaFrom_perm (h : ops₁.Perm ops₂) (hd : DistinctIds ops₁) (obj : ObjId) :
    ∀ (fuel : Nat) (parent : Key), rgaFrom ops₁ obj fuel parent = rgaFrom ops₂ obj fuel parent
  | 0, _ => rfl
  | fuel + 1, parent => by
    have ih : rgaFrom ops₁ obj fuel = rgaFrom ops₂ obj fuel := funext (rgaFrom_perm h hd obj fuel)
    simp only [rgaFrom, children_perm h hd, ih]

theorem rgaOrder_perm (h : ops₁.Perm ops₂) (hd : DistinctIds ops₁) (obj : ObjId) :
    rgaOrder ops₁ obj = rgaOrder ops₂ obj := by
  unfold rgaOrder
  rw [h.length_eq, rgaFrom_perm h hd]

theorem seqElems_perm (h : ops₁.Perm ops₂) (hd : DistinctIds ops₁) (obj : ObjId) :
    seqElems ops₁ obj = seqElems ops₂ obj := by
  unfold seqElems
  have he : elemRegister ops₁ obj = elemRegister ops₂ obj := funext (elemRegister_perm h hd obj)
  rw [rgaOrder_perm h hd, he]

/-- under `DistinctIds` a lookup by id finds the same op whatever the list order -/
theorem find?_id_perm (h : ops₁.Perm ops₂) (hd : DistinctIds ops₁) (o : OpId) :
    ops₁.find? (fun p => p.id == o) = ops₂.find? (fun p => p.id == o) := by
  cases h₁ : ops₁.find? (fun p => p.id == o) with
  | none =>
    symm
    rw [List.find?_eq_none] at h₁ ⊢
    exact fun x hx => h₁ x (h.mem_iff.mpr hx)
  | some a =>
    have ha := List.mem_of_find?_eq_some h₁
    have hao : a.id = o := by simpa using List.find?_some h₁
    cases h₂ : ops₂.find? (fun p => p.id == o) with
    | none =>
      rw [List.find?_eq_none] at h₂
      exact absurd (by simpa using hao) (h₂ a (h.mem_iff.mp ha))
    | some b =>
      have hb := List.mem_of_find?_eq_some h₂
      have hbo : b.id = o := by simpa using List.find?_some h₂
      rw [hd a ha b (h.mem_iff.mpr hb) (hao.trans hbo.symm)]

theorem objType_perm (h : ops₁.Perm ops₂) (hd : DistinctIds ops₁) (obj : ObjId) :
    objType ops₁ obj = objType ops₂ obj := by
  cases obj with
  | root => rfl
  | id o => simp only [objType, find?_id_perm h hd]

theorem restrict_perm (h : ops₁.Perm ops₂) (covered : OpId → Bool) :
    (restrict ops₁ covered).Perm (restrict ops₂ covered) := h.filter _

theorem showObj_perm (h : ops₁.Perm ops₂) (hd : DistinctIds ops₁) :
    ∀ (fuel : Nat) (obj : ObjId) (ty : ObjType), showObj ops₁ fuel obj ty = showObj ops₂ fuel obj ty
  | 0, _, _ => rfl
  | fuel + 1, obj, ty => by
    have ih : showObj ops₁ fuel = showObj ops₂ fuel :=
      funext fun o => funext fun t => showObj_perm h hd fuel o t
    have hk : mapKeys ops₁ = mapKeys ops₂ := funext (mapKeys_perm h)
    have hr : mapRegister ops₁ = mapRegister ops₂ :=
      funext fun o => funext fun k => mapRegister_perm h hd o k
    have hs : seqElems ops₁ = seqElems ops₂ := funext (seqElems_perm h hd)
    simp only [showObj, ih, hk, hr, hs]

/-- **C01, spec side**: the rendered document is a function of the op multiset. -/
theorem showDoc_perm (ops₁ ops₂ : List Op) (h : ops₁.Perm ops₂) (hd : DistinctIds ops₁) :
    showDoc ops₁ = showDoc ops₂ := by
  unfold showDoc
  rw [h.length_eq, showObj_perm h hd]

end Perm

/-! ## §5 clause lemmas: the spec says what C02 says -/

theorem entryOf_id (ops : List Op) (o : Op) : (entryOf ops o).id = o.id := by
  unfold entryOf; split <;> rfl

/-- "the operations not named as predecessor by a later delete, overwrite or non-counter
    increment": unfolding of `visible` -/
theorem visible_iff {ops : List Op} {o : Op} :
    visible ops o = true ↔
      o.isValue = true ∧
        ¬ ∃ p ∈ ops, o.id ∈ p.pred ∧ ¬ (p.isInc = true ∧ o.isCounterPut = true) := by
  simp only [visible, overwritten, overwrites, Bool.and_eq_true, Bool.not_eq_eq_eq_not, Bool.not_true,
    List.any_eq_false, List.contains_iff_mem, Bool.and_eq_false_imp, not_exists, not_and,
    Bool.not_eq_true]

theorem mem_sortedEntries {ops L : List Op} {e : Entry} :
    e ∈ (sortById L).map (entryOf ops) ↔ ∃ o ∈ L, e = entryOf ops o := by
  simp only [List.mem_map, mem_sortById]
  constructor
  · rintro ⟨o, ho, rfl⟩; exact ⟨o, ho, rfl⟩
  · rintro ⟨o, ho, rfl⟩; exact ⟨o, ho, rfl⟩

theorem mem_mapRegister {ops : List Op} {obj : ObjId} {k : Bytes} {e : Entry} :
    e ∈ mapRegister ops obj k ↔
      ∃ o ∈ ops, o.obj = obj ∧ o.key = .map k ∧ visible ops o = true ∧ e = entryOf ops o := by
  unfold mapRegister
  rw [mem_sortedEntries]
  simp only [List.mem_filter, Bool.and_eq_true, beq_iff_eq]
  constructor
  · rintro ⟨o, ⟨ho, ⟨h₁, h₂⟩, h₃⟩, rfl⟩; exact ⟨o, ho, h₁, h₂, h₃, rfl⟩
  · rintro ⟨o, ho, h₁, h₂, h₃, rfl⟩; exact ⟨o, ⟨ho, ⟨h₁, h₂⟩, h₃⟩, rfl⟩

theorem mem_elemRegister {ops : List Op} {obj : ObjId} {el : OpId} {e : Entry} :
    e ∈ elemRegister ops obj el ↔
      ∃ o ∈ ops, o.obj = obj ∧ o.elem = some el ∧ visible ops o = true ∧ e = entryOf ops o := by
  unfold elemRegister
  rw [mem_sortedEntries]
  simp only [List.mem_filter, Bool.and_eq_true, beq_iff_eq]
  constructor
  · rintro ⟨o, ⟨ho, ⟨h₁, h₂⟩, h₃⟩, rfl⟩; exact ⟨o, ho, h₁, h₂, h₃, rfl⟩
  · rintro ⟨o, ho, h₁, h₂, h₃, rfl⟩; exact ⟨o, ⟨ho, ⟨h₁, h₂⟩, h₃⟩, rfl⟩

/-- the map register is exactly the not-overwritten set/make ops of that key -/
theorem register_mem_iff {ops : List Op} {obj : ObjId} {k : Bytes} {e : Entry} :
    e ∈ mapRegister ops obj k ↔
      ∃ o ∈ ops, o.obj = obj ∧ o.key = .map k ∧ o.isValue = true ∧
        (¬ ∃ p ∈ ops, o.id ∈ p.pred ∧ ¬ (p.isInc = true ∧ o.isCounterPut = true)) ∧
        e = entryOf ops o := by
  rw [mem_mapRegister]
  simp only [visible_iff, and_assoc]

/-- the element register is exactly the not-overwritten set/make ops of that element -/
theorem elemRegister_mem_iff {ops : List Op} {obj : ObjId} {el : OpId} {e : Entry} :
    e ∈ elemRegister ops obj el ↔
      ∃ o ∈ ops, o.obj = obj ∧ o.elem = some el ∧ o.isValue = true ∧
        (¬ ∃ p ∈ ops, o.id ∈ p.pred ∧ ¬ (p.isInc = true ∧ o.isCounterPut = true)) ∧
        e = entryOf ops o := by
  rw [mem_elemRegister]
  simp only [visible_iff, and_assoc]

/-! ### the greatest id wins -/

theorem getLast_max {α : Type} {R : α → α → Prop} :
    ∀ {l : List α} (_ : l.Pairwise R) (hne : l ≠ []), ∀ e ∈ l, e = l.getLast hne ∨ R e (l.getLast hne)
  | [], _, hne, _, _ => absurd rfl hne
  | [x], _, _, e, he => by
    left; simpa using he
  | x :: y :: ys, h, _, e, he => by
    rw [List.getLast_cons (List.cons_ne_nil y ys)]
    rcases List.mem_cons.mp he with rfl | he
    · exact .inr (List.rel_of_pairwise_cons h (List.getLast_mem _))
    · exact getLast_max (List.Pairwise.of_cons h) (List.cons_ne_nil y ys) e he

theorem sortedEntries_asc (ops L : List Op) :
    ((sortById L).map (entryOf ops)).Pairwise (fun a b => b.id.lt a.id = false) := by
  rw [List.pairwise_map]
  simp only [entryOf_id]
  exact sortById_asc L

theorem sortedEntries_strict (ops : List Op) {L : List Op} (hd : StrictIds L) :
    ((sortById L).map (entryOf ops)).Pairwise (fun a b => a.id.lt b.id = true) := by
  rw [List.pairwise_map]
  simp only [entryOf_id]
  exact sortById_strict hd

theorem sortedEntries_winner (ops : List Op) {L : List Op} (hd : DistinctIds L)
    (hne : (sortById L).map (entryOf ops) ≠ []) :
    ∀ e ∈ (sortById L).map (entryOf ops),
      e = ((sortById L).map (entryOf ops)).getLast hne ∨
      e.id.lt (((sortById L).map (entryOf ops)).getLast hne).id = true := by
  intro e he
  rcases getLast_max (sortedEntries_asc ops L) hne e he with h | h
  · exact .inl h
  · have hl := List.getLast_mem hne
    generalize ((sortById L).map (entryOf ops)).getLast hne = w at *
    by_cases hid : e.id = w.id
    · left
      obtain ⟨o, ho, rfl⟩ := mem_sortedEntries.mp he
      obtain ⟨o', ho', rfl⟩ := mem_sortedEntries.mp hl
      simp only [entryOf_id] at hid
      rw [hd o ho o' ho' hid]
    · rcases OpId.lt_total hid with h' | h'
      · exact .inr h'
      · rw [h'] at h; cases h

/-- "with the greatest (counter, actor) id winning": the register is ascending by id … -/
theorem mapRegister_asc (ops : List Op) (obj : ObjId) (k : Bytes) :
    (mapRegister ops obj k).Pairwise (fun a b => b.id.lt a.id = false) := sortedEntries_asc ops _

theorem elemRegister_asc (ops : List Op) (obj : ObjId) (el : OpId) :
    (elemRegister ops obj el).Pairwise (fun a b => b.id.lt a.id = false) := sortedEntries_asc ops _

/-- … strictly so when no op is repeated … -/
theorem mapRegister_strict {ops : List Op} (hd : StrictIds ops) (obj : ObjId) (k : Bytes) :
    (mapRegister ops obj k).Pairwise (fun a b => a.id.lt b.id = true) :=
  sortedEntries_strict ops (hd.filter _)

theorem elemRegister_strict {ops : List Op} (hd : StrictIds ops) (obj : ObjId) (el : OpId) :
    (elemRegister ops obj el).Pairwise (fun a b => a.id.lt b.id = true) :=
  sortedEntries_strict ops (hd.filter _)

/-- … and its last entry (the winner) has the greatest id among the entries. -/
theorem winner_is_max_id {ops : List Op} (hd : DistinctIds ops) (obj : ObjId) (k : Bytes)
    (hne : mapRegister ops obj k ≠ []) :
    ∀ e ∈ mapRegister ops obj k,
      e = (mapRegister ops obj k).getLast hne ∨
      e.id.lt ((mapRegister ops obj k).getLast hne).id = true :=
  sortedEntries_winner ops (hd.filter _) hne

theorem elem_winner_is_max_id {ops : List Op} (hd : DistinctIds ops) (obj : ObjId) (el : OpId)
    (hne : elemRegister ops obj el ≠ []) :
    ∀ e ∈ elemRegister ops obj el,
      e = (elemRegister ops obj el).getLast hne ∨
      e.id.lt ((elemRegister ops obj el).getLast hne).id = true :=
  sortedEntries_winner ops (hd.filter _) hne

/-! ### deletes, overwrites and increments -/

/-- a delete or overwrite (anything but an increment) naming `o` as predecessor removes it -/
theorem pred_overwrites {ops : List Op} {p o : Op} (hp : p ∈ ops) (hm : o.id ∈ p.pred)
    (hni : p.isInc = false) : visible ops o = false := by
  cases hv : visible ops o
  · rfl
  · exact ((visible_iff.mp hv).2 ⟨p, hp, hm, by simp [hni]⟩).elim

/-- a non-counter increment: an increment naming a non-counter value removes it -/
theorem inc_overwrites_noncounter {ops : List Op} {p o : Op} (hp : p ∈ ops) (hm : o.id ∈ p.pred)
    (hnc : o.isCounterPut = false) : visible ops o = false := by
  cases hv : visible ops o
  · rfl
  · exact ((visible_iff.mp hv).2 ⟨p, hp, hm, by simp [hnc]⟩).elim

/-- register form: the overwritten op's id is absent from its register -/
theorem overwritten_not_in_register {ops : List Op} (hd : DistinctIds ops) {p o : Op} (ho : o ∈ ops)
    (hp : p ∈ ops) (hm : o.id ∈ p.pred) (h : p.isInc = false ∨ o.isCounterPut = false)
    (obj : ObjId) (k : Bytes) : ∀ e ∈ mapRegister ops obj k, e.id ≠ o.id := by
  intro e he hid
  obtain ⟨o', ho', _, _, hv, rfl⟩ := mem_mapRegister.mp he
  rw [entryOf_id] at hid
  have := hd o' ho' o ho hid
  subst this
  rcases h with h | h
  · rw [pred_overwrites hp hm h] at hv; cases hv
  · rw [inc_overwrites_noncounter hp hm h] at hv; cases hv

/-- an increment naming a counter put as predecessor does not remove it -/
theorem inc_keeps_counter (ops : List Op) {p o : Op} (hp : p.isInc = true)
    (hc : o.isCounterPut = true) : visible (p :: ops) o = visible ops o := by
  simp [visible, overwritten, overwrites, hp, hc]

/-- register form: a visible counter stays in its register when an increment arrives -/
theorem inc_keeps_counter_register {ops : List Op} {p o : Op} {k : Bytes} (ho : o ∈ ops)
    (hk : o.key = .map k) (hv : visible ops o = true) (hp : p.isInc = true)
    (hc : o.isCounterPut = true) :
    entryOf (p :: ops) o ∈ mapRegister (p :: ops) o.obj k :=
  mem_mapRegister.mpr ⟨o, List.mem_cons_of_mem _ ho, rfl, hk, by rw [inc_keeps_counter ops hp hc, hv], rfl⟩

/-! ### counters -/

theorem foldl_add_eq_sum {α : Type} (f : α → Int) (l : List α) (init : Int) :
    l.foldl (fun acc p => acc + f p) init = init + (l.map f).sum := by
  induction l generalizing init with
  | nil => simp
  | cons x xs ih => simp only [List.foldl_cons, ih, List.map_cons, List.sum_cons]; omega

/-- "A counter reads as its initial value plus every increment that names it as predecessor." -/
theorem counter_value_sum (ops : List Op) (o : Op) (init : Int) :
    counterValue ops o init =
      init + ((ops.filter (fun p => p.isInc && p.pred.contains o.id)).map Op.incAmount).sum :=
  foldl_add_eq_sum _ _ _

theorem counterValue_cons (p : Op) (ops : List Op) (o : Op) (init : Int) :
    counterValue (p :: ops) o init =
      counterValue ops o init + (if (p.isInc && p.pred.contains o.id) = true then p.incAmount else 0) := by
  rw [counter_value_sum, counter_value_sum, List.filter_cons]
  split
  · simp only [List.map_cons, List.sum_cons]; omega
  · omega

/-- the entry a counter put reads as -/
theorem entryOf_counter (ops : List Op) (o : Op) (i : Int) (h : o.action = .put (.counter i)) :
    entryOf ops o = ⟨o.id, .counter (i +
      ((ops.filter (fun p => p.isInc && p.pred.contains o.id)).map Op.incAmount).sum)⟩ := by
  simp only [entryOf, h, counter_value_sum]

/-! ### map keys -/

theorem mapKeys_sorted (ops : List Op) (obj : ObjId) :
    (mapKeys ops obj).Pairwise (fun a b => bytesLt a b = true) := keysOf_sorted _

theorem mem_mapKeys {ops : List Op} {obj : ObjId} {k : Bytes} :
    k ∈ mapKeys ops obj ↔ ∃ o ∈ ops, o.obj = obj ∧ o.key = .map k ∧ visible ops o = true := by
  rw [mapKeys_eq_keysOf, mem_keysOf]
  simp only [List.mem_filter, Bool.and_eq_true, beq_iff_eq]
  constructor
  · rintro ⟨o, ⟨ho, h₁, h₂⟩, h₃⟩; exact ⟨o, ho, h₁, h₃, h₂⟩
  · rintro ⟨o, ho, h₁, h₃, h₂⟩; exact ⟨o, ⟨ho, h₁, h₂⟩, h₃⟩

/-- the listed keys are exactly those whose register is non-empty -/
theorem mem_mapKeys_iff_register_ne_nil {ops : List Op} {obj : ObjId} {k : Bytes} :
    k ∈ mapKeys ops obj ↔ mapRegister ops obj k ≠ [] := by
  rw [mem_mapKeys]
  constructor
  · rintro ⟨o, ho, h₁, h₂, h₃⟩
    exact List.ne_nil_of_mem (mem_mapRegister.mpr ⟨o, ho, h₁, h₂, h₃, rfl⟩)
  · intro hne
    obtain ⟨e, he⟩ := List.exists_mem_of_ne_nil _ hne
    obtain ⟨o, ho, h₁, h₂, h₃, _⟩ := mem_mapRegister.mp he
    exact ⟨o, ho, h₁, h₂, h₃⟩

/-! ### RGA -/

theorem mem_children {ops : List Op} {obj : ObjId} {parent : Key} {c : Op} :
    c ∈ children ops obj parent ↔ c ∈ ops ∧ c.obj = obj ∧ c.insert = true ∧ c.key = parent := by
  simp only [children, List.mem_reverse, mem_sortById, List.mem_filter, Bool.and_eq_true, beq_iff_eq,
    and_assoc]

/-- "higher-id siblings first": siblings are listed by descending id (non-strict form) -/
theorem children_desc (ops : List Op) (obj : ObjId) (parent : Key) :
    (children ops obj parent).Pairwise (fun a b => a.id.lt b.id = false) := by
  unfold children
  rw [List.pairwise_reverse]
  exact sortById_asc _

/-- strictly descending when no op is repeated -/
theorem children_strict_desc {ops : List Op} (hd : StrictIds ops) (obj : ObjId) (parent : Key) :
    (children ops obj parent).Pairwise (fun a b => b.id.lt a.id = true) := by
  unfold children
  rw [List.pairwise_reverse]
  exact sortById_strict (hd.filter _)

/-- each sibling is followed by its whole subtree, then the next (smaller-id) sibling -/
theorem rgaFrom_succ (ops : List Op) (obj : ObjId) (fuel : Nat) (parent : Key) :
    rgaFrom ops obj (fuel + 1) parent =
      (children ops obj parent).flatMap (fun c => c :: rgaFrom ops obj fuel (.elem c.id)) := rfl

/-- a sibling `c` and its subtree come after the subtrees of the siblings listed before it
    (greater ids) and before the subtrees of those listed after it (smaller ids) -/
theorem rgaFrom_split {ops : List Op} {obj : ObjId} {parent : Key} {l₁ l₂ : List Op} {c : Op}
    (hc : children ops obj parent = l₁ ++ c :: l₂) (fuel : Nat) :
    rgaFrom ops obj (fuel + 1) parent =
      l₁.flatMap (fun c => c :: rgaFrom ops obj fuel (.elem c.id)) ++
        (c :: rgaFrom ops obj fuel (.elem c.id) ++
          l₂.flatMap (fun c => c :: rgaFrom ops obj fuel (.elem c.id))) := by
  rw [rgaFrom_succ, hc, List.flatMap_append, List.flatMap_cons]

theorem rga_higher_id_first {ops : List Op} (hd : StrictIds ops) (obj : ObjId) (fuel : Nat)
    (parent : Key) :
    (children ops obj parent).Pairwise (fun a b => b.id.lt a.id = true) ∧
    rgaFrom ops obj (fuel + 1) parent =
      (children ops obj parent).flatMap (fun c => c :: rgaFrom ops obj fuel (.elem c.id)) :=
  ⟨children_strict_desc hd obj parent, rfl⟩

/-- what `seqElems` lists: the non-mark elements of the RGA order with a non-empty register -/
theorem mem_seqElems {ops : List Op} {obj : ObjId} {i : OpId} {r : List Entry} :
    (i, r) ∈ seqElems ops obj ↔
      ∃ e ∈ rgaOrder ops obj, e.isMark = false ∧ e.id = i ∧ r = elemRegister ops obj i ∧ r ≠ [] := by
  unfold seqElems
  rw [List.mem_filterMap]
  constructor
  · rintro ⟨e, he, h⟩
    refine ⟨e, he, ?_⟩
    cases hm : e.isMark
    · simp only [hm, Bool.false_eq_true, if_false] at h
      split at h
      · cases h
      · rename_i hne
        simp only [Option.some.injEq, Prod.mk.injEq] at h
        obtain ⟨rfl, rfl⟩ := h
        exact ⟨rfl, rfl, rfl, fun hh => hne hh⟩
    · simp [hm] at h
  · rintro ⟨e, he, hm, rfl, rfl, hne⟩
    refine ⟨e, he, ?_⟩
    simp only [hm, Bool.false_eq_true, if_false]

end AmVerif.Crdt
