import AmVerif.Proofs.HexaneFullParse
/-
  Helper lemmas for C35 (third sentence): canonical segment lists are UNIQUE — the segments the
  loader accepted are exactly the segments the encoder writes for the loaded values
  (`itemsOf (expand items) = items`), so re-encoding a loaded column reproduces the segments and the
  second load repeats the first one's bookkeeping verbatim (any weight, any length).
-/
namespace AmVerif.Hexane
open AmVerif

/-- the run decomposition a segment list stands for -/
def toGroups {α : Type} : List (Item α) → List (Nat × Option α)
  | [] => []
  | .head _ :: r => toGroups r
  | .litv v :: r => (1, some v) :: toGroups r
  | .run n v :: r => (n, some v) :: toGroups r
  | .null n :: r => (n, none) :: toGroups r

/-- the value of the previous segment, as a group value (`none` = no segment yet) -/
def prevVal {α : Type} : Prev α → Option (Option α)
  | .none => none
  | .run v => some (some v)
  | .lit v => some (some v)
  | .null => some none

/-- positive counts, neighbouring groups (and the one before the list) carry different values -/
def Chain {β : Type} : Option β → List (Nat × β) → Prop
  | _, [] => True
  | p, (n, x) :: r => 1 ≤ n ∧ p ≠ some x ∧ Chain (some x) r

theorem expand_toGroups {α : Type} : ∀ items : List (Item α), expand items = expandRuns (toGroups items) := by
  intro items
  induction items with
  | nil => rfl
  | cons it r ih =>
    cases it <;> simp [expand, toGroups, expandRuns, ih]

theorem groups_replicate_append {β : Type} [DecidableEq β] (x : β) (ys : List β)
    (hne : ∀ m y gs, groups ys = (m, y) :: gs → x ≠ y) :
    ∀ n, groups (List.replicate (n + 1) x ++ ys) = (n + 1, x) :: groups ys := by
  intro n
  induction n with
  | zero =>
    show groups (x :: ys) = _
    rw [groups_cons]
    cases h : groups ys with
    | nil => rfl
    | cons g gs =>
      obtain ⟨m, y⟩ := g
      have := hne m y gs h
      simp [this]
  | succ n ih =>
    rw [List.replicate_succ, List.cons_append, groups_cons, ih]
    simp

theorem groups_expandRuns {β : Type} [DecidableEq β] :
    ∀ (gs : List (Nat × β)) (p : Option β), Chain p gs → groups (expandRuns gs) = gs := by
  intro gs
  induction gs with
  | nil => intro _ _; rfl
  | cons g r ih =>
    intro p hc
    obtain ⟨n, x⟩ := g
    simp only [Chain] at hc
    obtain ⟨hn, _, hr⟩ := hc
    have ihr := ih (some x) hr
    obtain ⟨k, rfl⟩ : ∃ k, n = k + 1 := ⟨n - 1, by omega⟩
    simp only [expandRuns]
    rw [groups_replicate_append x (expandRuns r) ?_ k, ihr]
    intro m y gs hg
    rw [ihr] at hg
    subst hg
    simp only [Chain] at hr
    intro hxy; exact hr.2.1 (by rw [hxy])

/-- inside a literal run `prevLit` (when set) is the value of the previous segment -/
def PInv {α : Type} (st : PState α) : Prop :=
  st.litLeft > 0 → ∀ u, st.prevLit = some u → st.prev = .lit u

theorem sameValue_prevVal {α : Type} [DecidableEq α] (p : Prev α) (v : α) :
    p.sameValue v = false ↔ prevVal p ≠ some (some v) := by
  cases p <;> simp [Prev.sameValue, prevVal]

theorem isNull_prevVal {α : Type} (p : Prev α) : p.isNull = false ↔ prevVal p ≠ some none := by
  cases p <;> simp [Prev.isNull, prevVal]

theorem canon_chain {α : Type} [DecidableEq α] (Valid : α → Prop) (nullable : Bool) :
    ∀ (items : List (Item α)) (st : PState α), PInv st → canon Valid nullable st items →
      Chain (prevVal st.prev) (toGroups items) := by
  intro items
  induction items with
  | nil => intro st _ _; simp [toGroups, Chain]
  | cons it r ih =>
    intro st hj hc
    cases it with
    | head k =>
      simp only [canon] at hc
      obtain ⟨_, _, _, _, hr⟩ := hc
      simp only [toGroups]
      have := ih { litLeft := k, prev := st.prev, prevLit := none }
        (by intro _ u hu; exact absurd hu (by simp)) hr
      exact this
    | litv v =>
      simp only [canon] at hc
      obtain ⟨h1, h2, h3, _, hr⟩ := hc
      simp only [toGroups, Chain]
      refine ⟨by omega, ?_, ih _ (by intro _ u hu; simp only at hu; simp only; cases hu; rfl) hr⟩
      cases hpl : st.prevLit with
      | none =>
        have : st.prev.sameValue v = false := by
          cases hs : st.prev.sameValue v with
          | false => rfl
          | true => exact absurd ⟨hpl, hs⟩ h3
        exact (sameValue_prevVal _ _).mp this
      | some u =>
        rw [hj h1 u hpl]
        simp only [prevVal]
        intro he
        apply h2
        rw [hpl]
        simp only [Option.some.injEq] at he
        rw [he]
    | run n v =>
      simp only [canon] at hc
      obtain ⟨_, h2, _, h4, _, hr⟩ := hc
      simp only [toGroups, Chain]
      exact ⟨by omega, (sameValue_prevVal _ _).mp h4, ih _ (by intro h; simp at h) hr⟩
    | null n =>
      simp only [canon] at hc
      obtain ⟨_, h2, _, h4, _, hr⟩ := hc
      simp only [toGroups, Chain]
      exact ⟨h2, (isNull_prevVal _).mp h4, ih _ (by intro h; simp at h) hr⟩

/-- the encoder's segment builder, run on the groups of a canonical list, rebuilds the list -/
theorem canon_itemsAux {α : Type} [DecidableEq α] (Valid : α → Prop) (nullable : Bool) :
    ∀ (items : List (Item α)) (st : PState α), canon Valid nullable st items →
      (st.litLeft > 0 → (itemsAux (toGroups items)).1.length = st.litLeft ∧
        (itemsAux (toGroups items)).1.map Item.litv ++ (itemsAux (toGroups items)).2 = items) ∧
      (st.litLeft = 0 → closeLit (itemsAux (toGroups items)).1 (itemsAux (toGroups items)).2 = items ∧
        (st.prev.isLit = true → (itemsAux (toGroups items)).1 = [])) := by
  intro items
  induction items with
  | nil =>
    intro st hc
    simp only [canon] at hc
    refine ⟨fun h => by omega, fun _ => ?_⟩
    simp [toGroups, itemsAux, closeLit]
  | cons it r ih =>
    intro st hc
    cases it with
    | head k =>
      simp only [canon] at hc
      obtain ⟨h0, hk, _, hl, hr⟩ := hc
      obtain ⟨ih1, _⟩ := ih _ hr
      obtain ⟨e1, e2⟩ := ih1 hk
      refine ⟨fun h => by omega, fun _ => ⟨?_, fun h => by rw [hl] at h; cases h⟩⟩
      simp only [toGroups]
      have hne : (itemsAux (toGroups r)).1.isEmpty = false := by
        cases hh : (itemsAux (toGroups r)).1 with
        | nil => rw [hh] at e1; simp at e1; omega
        | cons _ _ => rfl
      simp only [closeLit, hne, Bool.false_eq_true, if_false]
      rw [e1, e2]
    | litv v =>
      simp only [canon] at hc
      obtain ⟨h1, _, _, _, hr⟩ := hc
      obtain ⟨ih1, ih2⟩ := ih _ hr
      refine ⟨fun _ => ?_, fun h => by omega⟩
      simp only [toGroups]
      rw [itemsAux_some]
      simp only [if_true]
      by_cases hk : st.litLeft - 1 > 0
      · obtain ⟨e1, e2⟩ := ih1 hk
        simp only at e1
        refine ⟨by simp only [List.length_cons]; omega, ?_⟩
        simp only [List.map_cons, List.cons_append, e2]
      · obtain ⟨e1, e2⟩ := ih2 (by simp only; omega)
        have hnil := e2 rfl
        rw [hnil] at e1 ⊢
        simp only [closeLit, List.isEmpty_nil, if_true] at e1
        refine ⟨by simp only [List.length_cons, List.length_nil]; omega, ?_⟩
        simp only [List.map_cons, List.map_nil, List.cons_append, List.nil_append, e1]
    | run n v =>
      simp only [canon] at hc
      obtain ⟨h0, h2, _, _, _, hr⟩ := hc
      obtain ⟨_, ih2⟩ := ih _ hr
      obtain ⟨e1, _⟩ := ih2 rfl
      refine ⟨fun h => by omega, fun _ => ?_⟩
      simp only [toGroups]
      rw [itemsAux_some]
      have hn1 : ¬ (n = 1) := by omega
      simp only [hn1, if_false]
      rw [e1]
      simp [closeLit]
    | null n =>
      simp only [canon] at hc
      obtain ⟨h0, _, _, _, _, hr⟩ := hc
      obtain ⟨_, ih2⟩ := ih _ hr
      obtain ⟨e1, _⟩ := ih2 rfl
      refine ⟨fun h => by omega, fun _ => ?_⟩
      simp only [toGroups]
      rw [itemsAux_none]
      simp only
      rw [e1]
      simp [closeLit]

/-- canonical forms are unique: the encoder's segments for the values of a canonical segment list
    are that list -/
theorem itemsOf_expand {α : Type} [DecidableEq α] (Valid : α → Prop) (nullable : Bool)
    (items : List (Item α)) (hc : canon Valid nullable {} items) : itemsOf (expand items) = items := by
  unfold itemsOf
  show closeLit (itemsAux (groups (expand items))).1 (itemsAux (groups (expand items))).2 = items
  have hch := canon_chain Valid nullable items {} (by intro h; simp at h) hc
  rw [expand_toGroups, groups_expandRuns _ _ hch]
  exact ((canon_itemsAux Valid nullable items {} hc).2 rfl).1

/-- re-encoding what a load returned and loading again repeats the first load: same segments, same
    bookkeeping (`account` / `finish` see the same segment list), for every weight function and
    every `with_length` expectation -/
theorem rleLoad_reencode {α : Type} [DecidableEq α] {c : ValCodec α} {Valid : α → Prop}
    (law : Lawful c Valid) (snd : Sound c Valid) (nullable : Bool) (w : Weight) (num : α → Int)
    (expected : Option Nat) (bs : Bytes) (items : List (Item α))
    (h : rleLoad c nullable w num expected bs = .ok items) :
    rleEncode c (expand items) = writeItems c items ∧
      rleLoad c nullable w num expected (rleEncode c (expand items)) = .ok items := by
  have hc := rleLoad_canon snd nullable w num expected bs items h
  obtain ⟨_, st, n, hacc, hfin⟩ := rleLoad_ok c nullable w num expected bs items h
  have he : rleEncode c (expand items) = writeItems c items := by
    unfold rleEncode; rw [itemsOf_expand Valid nullable items hc]
  refine ⟨he, ?_⟩
  rw [he]
  unfold rleLoad parseAll
  rw [parse_write law nullable items {} _ hc (by omega)]
  simp only [hacc, hfin]

theorem rleDecode_reencode {α : Type} [DecidableEq α] {c : ValCodec α} {Valid : α → Prop}
    (law : Lawful c Valid) (snd : Sound c Valid) (nullable : Bool) (w : Weight) (num : α → Int)
    (bs : Bytes) (xs : List (Option α)) (h : rleDecode c nullable w num bs = .ok xs) :
    rleDecode c nullable w num (rleEncode c xs) = .ok xs := by
  obtain ⟨items, hl, rfl⟩ := rleDecode_ok c nullable w num bs xs h
  unfold rleDecode
  rw [(rleLoad_reencode law snd nullable w num none bs items hl).2]

end AmVerif.Hexane
