import AmVerif.Proofs.DocCodecBool
import AmVerif.Proofs.DocCodecDelta
import AmVerif.Proofs.DocCodecLenient
/-
  Helper lemmas for C11 (document chunk): the well-formedness predicate `WF` of an image (explicit,
  decidable) and the derivation of the framing / layout / column-level / row facts from it, hence
  `decodeDoc (encodeDoc img) = ok img`.
-/
namespace AmVerif.DocCodec
open AmVerif AmVerif.Leb
open AmVerif.Hexane (ValCodec cU64 cU32 cI64 cStr two63 two64 Lawful validU64 validU32 validStr lawful_u64 lawful_u32 lawful_str)
open AmVerif.ChangeCodec (IdI valueMeta valueRaw)

/-- an id whose parts fit the `u32` columns -/
def IdOk (i : IdI) : Prop := i.ctr < 2 ^ 32 ∧ i.actor < 2 ^ 32

/-- the value is written and read back as itself -/
def ValOk (v : Crdt.Scalar) : Prop :=
  valueMeta v < 2 ^ 64 ∧ valueMeta v / 16 = (valueRaw v).length ∧ scalarOfRaw (valueMeta v) (valueRaw v) = some v

/-- what a row must satisfy -/
structure RowOk (r : OpRow) : Prop where
  id : IdOk r.id
  obj : ∀ i, r.obj = some i → IdOk i ∧ 0 < i.ctr
  key : match r.key with
    | .prop s => validStr s
    | .head => True
    | .elem e => IdOk e ∧ 0 < e.ctr
  action : r.action ≤ 7
  val : ValOk r.val
  succ : ∀ s ∈ r.succ, IdOk s
  succLen : r.succ.length < 2 ^ 32
  markName : ∀ s, r.markName = some s → validStr s

/-- what a change row must satisfy (`i` = its index) -/
structure ChangeOk (numActors : Nat) (maxOps : List Nat) (i : Nat) (c : ChangeMeta) : Prop where
  actor : c.actor < numActors ∧ c.actor < 2 ^ 32
  seq : c.seq < 2 ^ 32
  maxOp : c.maxOp < 2 ^ 32
  time : -(2 ^ 62 : Int) ≤ c.time ∧ c.time < (2 ^ 62 : Int)
  message : ∀ s, c.message = some s → validStr s
  extra : extraMeta c.extra < 2 ^ 64
  depsLen : c.deps.length < 2 ^ 32
  deps : DepsOk maxOps i c.deps

/-- **well-formed images**: the type invariants of the Rust side (ids, counters and successor
    counts are `u32`s, strings are valid UTF-8, values are written and read back as themselves,
    dependencies are earlier changes with a `max_op` not above the change's own), sizes below the
    length fields of the format, and at most `limit` rows (the model's budget) -/
structure WF (limit : Nat) (img : DocImage) : Prop where
  limit63 : limit < two63
  nActors : img.actors.length < 2 ^ 64
  actorLen : ∀ a ∈ img.actors, a.length < 2 ^ 64
  nHeads : img.heads.length < 2 ^ 64
  headLen : ∀ h ∈ img.heads, h.length = Consts.HASH_SIZE
  headIdxLen : img.headIdx.length = img.heads.length
  headIdxVal : ∀ x ∈ img.headIdx, x < 2 ^ 64
  nOps : img.ops.length ≤ limit
  nSucc : (img.ops.map (·.succ.length)).sum ≤ limit
  rows : ∀ r ∈ img.ops, RowOk r
  valBytes : (img.ops.map (fun r => valueMeta r.val / 16)).sum < two64
  opData : (colData (nonEmptyCols (opCols img.ops))).length < 2 ^ 64
  nChanges : img.changes.length ≤ limit
  changes : ∀ i (h : i < img.changes.length), ChangeOk img.actors.length (img.changes.map (·.maxOp)) i img.changes[i]
  nDeps : (img.changes.map (·.deps.length)).sum ≤ limit
  extraBytes : (img.changes.map (fun c => c.extra.length)).sum < two64
  changeData : (colData (nonEmptyCols (changeCols img.changes))).length < 2 ^ 64

/-! ### values of the rows, column by column -/

theorem mem_map_of {α β : Type} {f : α → β} {l : List α} {y : β} (h : y ∈ l.map f) : ∃ x ∈ l, f x = y :=
  List.mem_map.mp h

def winU32 : Win := ⟨0, 2 ^ 32 - 1, by omega, by unfold two63; omega⟩
def winTime : Win := ⟨-(2 ^ 62), 2 ^ 62 - 1, by decide, by decide⟩

theorem winU32_lo : winU32.lo = 0 := rfl
theorem winU32_hi : winU32.hi = 2 ^ 32 - 1 := rfl

theorem deltaEncode_ne_nil (w : Win) (nullable : Bool) (xs : List (Option Int)) (hne : xs ≠ [])
    (hlen : xs.length < two63) (hv : ∀ v, some v ∈ xs → w.mem v) (hn : nullable = false → ∀ x ∈ xs, x ≠ none) :
    Hexane.deltaEncode xs ≠ [] := by
  unfold Hexane.deltaEncode
  apply rleEncode_ne_nil Hexane.lawful_i64 nullable
  · intro h
    have := deltas_length xs 0
    rw [h] at this
    exact hne (List.eq_nil_of_length_eq_zero this.symm)
  · rw [deltas_length]; exact hlen
  · exact deltas_valid w nullable xs 0 w.zeroIn hv hn

/-- a non-nullable `u32` delta column -/
theorem loadDelta_u32 (xs : List Nat) (hlen : xs.length < two63) (hx : ∀ x ∈ xs, x < 2 ^ 32) :
    loadDelta false 0 u32max xs.length none (encDelta xs) = .ok (intsOf xs) := by
  have hv : ∀ v, some v ∈ intsOf xs → winU32.mem v := by
    intro v hv
    obtain ⟨x, hx', hxe⟩ := List.mem_map.mp hv
    cases hxe
    have := hx x hx'
    unfold Win.mem winU32
    simp only [Int.ofNat_eq_natCast]
    omega
  have hn : false = false → ∀ x ∈ intsOf xs, x ≠ none := by
    intro _ x hx' he
    obtain ⟨y, _, hy⟩ := List.mem_map.mp hx'
    rw [he] at hy; cases hy
  have hl : (intsOf xs).length = xs.length := by simp [intsOf]
  have := loadDelta_encode winU32 0 u32max (by rw [winU32_lo]; omega) (by rw [winU32_hi]; unfold u32max; omega)
    (intsOf xs) (by rw [hl]; exact hlen) hv
    (fun hne => deltaEncode_ne_nil winU32 false _ hne (by rw [hl]; exact hlen) hv hn) false none hn
  rw [hl] at this
  exact this

/-- a nullable `u32` delta column written with `save_to_unless(None)` -/
theorem loadDelta_optU32 (xs : List (Option Nat)) (hlen : xs.length < two63)
    (hx : ∀ x, some x ∈ xs → x < 2 ^ 32) :
    loadDelta true 0 u32max xs.length (some none) (encDeltaNullable xs) = .ok (optIntsOf xs) := by
  have hl : (optIntsOf xs).length = xs.length := by simp [optIntsOf]
  unfold encDeltaNullable
  by_cases hall : xs.all (fun x => x.isNone) = true
  · simp only [hall, if_true]
    unfold loadDelta loadRle
    simp only [List.isEmpty_nil]
    have hrep := all_none_replicate xs hall
    by_cases h0 : xs.length = 0
    · simp only [h0, if_true]
      rw [List.eq_nil_of_length_eq_zero h0]
      rfl
    · have hl63 : ¬ ¬ xs.length < two63 := by simpa using hlen
      simp only [h0, if_false, hl63]
      have hr : ∀ n, Hexane.realise (List.replicate n (none : Option Int)) 0 = List.replicate n none := by
        intro n
        induction n with
        | zero => rfl
        | succ m ih => simp only [List.replicate_succ, Hexane.realise, ih]
      rw [hr]
      have : optIntsOf xs = List.replicate xs.length none := by
        conv => lhs; rw [hrep]
        simp [optIntsOf]
      rw [this]
  · simp only [hall, Bool.false_eq_true, if_false]
    have hv : ∀ v, some v ∈ optIntsOf xs → winU32.mem v := by
      intro v hv
      obtain ⟨x, hx', hxe⟩ := List.mem_map.mp hv
      cases x with
      | none => cases hxe
      | some y =>
        simp only [Option.map_some, Option.some.injEq] at hxe
        subst hxe
        have := hx y hx'
        unfold Win.mem winU32
        simp only [Int.ofNat_eq_natCast]
        omega
    have hne : xs ≠ [] := by intro h; rw [h] at hall; simp at hall
    have := loadDelta_encode winU32 0 u32max (by rw [winU32_lo]; omega) (by rw [winU32_hi]; unfold u32max; omega)
      (optIntsOf xs) (by rw [hl]; exact hlen) hv
      (fun hne' => deltaEncode_ne_nil winU32 true _ hne' (by rw [hl]; exact hlen) hv (by simp)) true (some none) (by simp)
    rw [hl] at this
    exact this

/-! ### from `WF` to the facts -/

theorem wf_lt63 {limit : Nat} {n : Nat} (h63 : limit < two63) (hn : n ≤ limit) : n < two63 := by omega

theorem sum_natI (xs : List Nat) : (xs.map (fun x => (natI x).toNat)).sum = xs.sum := by
  induction xs with
  | nil => rfl
  | cons x xs ih =>
    simp only [List.map_cons, List.sum_cons]
    rw [ih]
    simp [natI]

theorem sum_metaLen (xs : List Nat) : (xs.map (fun x => (metaLen x).toNat)).sum = (xs.map (· / 16)).sum := by
  induction xs with
  | nil => rfl
  | cons x xs ih =>
    simp only [List.map_cons, List.sum_cons]
    rw [ih]
    have : (metaLen x).toNat = x / 16 := by
      unfold metaLen
      exact Int.toNat_natCast _
    rw [this]

theorem length_flatMap_succ (rows : List OpRow) :
    (rows.flatMap (·.succ)).length = (rows.map (·.succ.length)).sum := by
  induction rows with
  | nil => rfl
  | cons r rs ih => simp only [List.flatMap_cons, List.length_append, List.map_cons, List.sum_cons, ih]

theorem opColFacts_of_wf {limit : Nat} {img : DocImage} (h : WF limit img) : OpColFacts limit img.ops := by
  have h63 := h.limit63
  have hn : img.ops.length < two63 := wf_lt63 h63 h.nOps
  have hs : (img.ops.map (·.succ.length)).sum < two63 := wf_lt63 h63 h.nSucc
  have hfl := length_flatMap_succ img.ops
  have h64 : (two63 : Nat) < two64 := by unfold two63 two64; omega
  refine
    { len := h.nOps, succLen := h.nSucc, dataLen := h.opData, idActor := ?_, idCtr := ?_, objActor := ?_,
      objCtr := ?_, keyActor := ?_, keyCtr := ?_, keyStr := ?_, insert := ?_, action := ?_, markName := ?_,
      expand := ?_, succCount := ?_, succActor := ?_, succCtr := ?_, valMeta := ?_ }
  · exact Hexane.rleLoad_encode lawful_actor false .len trivial natI _ (by simpa using hn) (by
      intro x hx
      obtain ⟨y, hy, rfl⟩ := List.mem_map.mp hx
      obtain ⟨r, hr, rfl⟩ := List.mem_map.mp hy
      exact (h.rows r hr).id.2)
  · have := loadDelta_u32 (img.ops.map (·.id.ctr)) (by simpa using hn) (by
      intro x hx
      obtain ⟨r, hr, rfl⟩ := List.mem_map.mp hx
      exact (h.rows r hr).id.1)
    simpa using this
  · have := loadRle_nullable lawful_actor .len trivial natI (img.ops.map objActorOf) (by simpa using hn) (by
      intro x hx v hv
      obtain ⟨r, hr, rfl⟩ := List.mem_map.mp hx
      unfold objActorOf at hv
      cases ho : r.obj with
      | none => rw [ho] at hv; cases hv
      | some i => rw [ho] at hv; cases hv; exact ((h.rows r hr).obj i ho).1.2)
    simpa using this
  · have := loadRle_nullable lawful_u32 .len trivial natI (img.ops.map objCtrOf) (by simpa using hn) (by
      intro x hx v hv
      obtain ⟨r, hr, rfl⟩ := List.mem_map.mp hx
      unfold objCtrOf at hv
      cases ho : r.obj with
      | none => rw [ho] at hv; cases hv
      | some i => rw [ho] at hv; cases hv; exact ((h.rows r hr).obj i ho).1.1)
    simpa using this
  · have := loadRle_nullable lawful_actor .len trivial natI (img.ops.map keyActorOf) (by simpa using hn) (by
      intro x hx v hv
      obtain ⟨r, hr, rfl⟩ := List.mem_map.mp hx
      have hk := (h.rows r hr).key
      unfold keyActorOf at hv
      cases hkk : r.key with
      | prop s => rw [hkk] at hv; cases hv
      | head => rw [hkk] at hv; cases hv
      | elem e => rw [hkk] at hv hk; cases hv; exact hk.1.2)
    simpa using this
  · have := loadDelta_optU32 (img.ops.map keyCtrOf) (by simpa using hn) (by
      intro x hx
      obtain ⟨r, hr, hre⟩ := List.mem_map.mp hx
      have hk := (h.rows r hr).key
      unfold keyCtrOf at hre
      cases hkk : r.key with
      | prop s => rw [hkk] at hre; cases hre
      | head => rw [hkk] at hre; cases hre; omega
      | elem e => rw [hkk] at hre hk; cases hre; exact hk.1.1)
    simpa using this
  · have := loadRle_nullable lawful_str .len trivial (fun _ => 0) (img.ops.map keyStrOf) (by simpa using hn) (by
      intro x hx v hv
      obtain ⟨r, hr, rfl⟩ := List.mem_map.mp hx
      have hk := (h.rows r hr).key
      unfold keyStrOf at hv
      cases hkk : r.key with
      | prop s => rw [hkk] at hv hk; cases hv; exact hk
      | head => rw [hkk] at hv; cases hv
      | elem e => rw [hkk] at hv; cases hv)
    simpa using this
  · have := loadBool_encode true (img.ops.map (·.insert)) (by simpa using hn)
    simpa using this
  · have := loadRle_nonnull lawful_action .len trivial natI (img.ops.map (·.action)) (by simpa using hn) (by
      intro x hx
      obtain ⟨r, hr, rfl⟩ := List.mem_map.mp hx
      exact (h.rows r hr).action)
    simpa using this
  · have := loadRle_nullable lawful_str .len trivial (fun _ => 0) (img.ops.map (·.markName)) (by simpa using hn) (by
      intro x hx v hv
      obtain ⟨r, hr, rfl⟩ := List.mem_map.mp hx
      exact (h.rows r hr).markName v hv)
    simpa using this
  · have := loadBool_unless false (img.ops.map (·.expand)) (by simpa using hn)
    simpa using this
  · have := loadRle_prefixU lawful_u32 natI (img.ops.map (·.succ.length)) (by simpa using hn) (by
      intro x hx
      obtain ⟨r, hr, rfl⟩ := List.mem_map.mp hx
      exact (h.rows r hr).succLen) (by rw [sum_natI]; omega)
    simpa using this
  · have := loadRle_nonnull lawful_actor .len trivial natI ((img.ops.flatMap (·.succ)).map (·.actor))
      (by simp only [List.length_map, hfl]; exact hs) (by
      intro x hx
      obtain ⟨sid, hsid, rfl⟩ := List.mem_map.mp hx
      obtain ⟨r, hr, hsr⟩ := List.mem_flatMap.mp hsid
      exact ((h.rows r hr).succ sid hsr).2)
    simp only [List.length_map, hfl] at this
    exact this
  · have := loadDelta_u32 ((img.ops.flatMap (·.succ)).map (·.ctr))
      (by simp only [List.length_map, hfl]; exact hs) (by
      intro x hx
      obtain ⟨sid, hsid, rfl⟩ := List.mem_map.mp hx
      obtain ⟨r, hr, hsr⟩ := List.mem_flatMap.mp hsid
      exact ((h.rows r hr).succ sid hsr).1)
    simp only [List.length_map, hfl] at this
    exact this
  · have := loadRle_prefixU lawful_u64 metaLen (img.ops.map (fun r => valueMeta r.val)) (by simpa using hn) (by
      intro x hx
      obtain ⟨r, hr, rfl⟩ := List.mem_map.mp hx
      exact (h.rows r hr).val.1) (by
        rw [sum_metaLen, List.map_map]
        exact h.valBytes)
    simpa using this

theorem rowWF_of_wf {limit : Nat} {img : DocImage} (h : WF limit img) : ∀ r ∈ img.ops, RowWF r := by
  intro r hr
  have hro := h.rows r hr
  refine ⟨fun i hi => by have := (hro.obj i hi).2; omega, ?_, hro.val.2⟩
  intro e he
  have hk := hro.key
  rw [he] at hk
  exact hk.2

theorem frameWF_of_wf {limit : Nat} {img : DocImage} (h : WF limit img) : FrameWF img :=
  ⟨h.nActors, h.actorLen, h.nHeads, h.headLen, h.headIdxLen, h.headIdxVal, h.changeData, h.opData⟩

theorem writeItem_u64_u32 : ∀ (x : Hexane.Item Nat), Hexane.writeItem cU64 x = Hexane.writeItem cU32 x
  | .head _ => rfl
  | .litv _ => rfl
  | .run _ _ => rfl
  | .null _ => rfl

theorem encNonNull_u64_u32 (xs : List Nat) : encNonNull cU64 xs = encNonNull cU32 xs := by
  unfold encNonNull Hexane.rleEncode Hexane.writeItems
  have : (Hexane.writeItem cU64 : Hexane.Item Nat → Bytes) = Hexane.writeItem cU32 := funext writeItem_u64_u32
  rw [this]

theorem sum_extraMeta (cs : List ChangeMeta) :
    ((cs.map (fun c => extraMeta c.extra)).map (fun x => (metaLen x).toNat)).sum = (cs.map (fun c => c.extra.length)).sum := by
  induction cs with
  | nil => rfl
  | cons c cs ih =>
    simp only [List.map_cons, List.sum_cons]
    rw [ih]
    have : (metaLen (extraMeta c.extra)).toNat = c.extra.length := by
      unfold metaLen extraMeta
      rw [Int.toNat_natCast]
      omega
    rw [this]

theorem length_flatMap_deps (cs : List ChangeMeta) :
    (cs.flatMap (·.deps)).length = (cs.map (·.deps.length)).sum := by
  induction cs with
  | nil => rfl
  | cons r rs ih => simp only [List.flatMap_cons, List.length_append, List.map_cons, List.sum_cons, ih]

theorem changeColFacts_of_wf {limit : Nat} {img : DocImage} (h : WF limit img) :
    ChangeColFacts limit img.actors.length img.changes := by
  have h63 := h.limit63
  have hn : img.changes.length < two63 := wf_lt63 h63 h.nChanges
  have hc : ∀ c ∈ img.changes, ∃ i, ∃ (hi : i < img.changes.length), img.changes[i] = c := by
    intro c hc
    obtain ⟨i, hi, he⟩ := List.getElem_of_mem hc
    exact ⟨i, hi, he⟩
  refine
    { dataLen := h.changeData, actorBound := ?_, actor := ?_, maxOp := ?_, seq := ?_, time := ?_, message := ?_,
      extraMeta := ?_, depsCount := ?_, deps := ?_ }
  · intro c hcm
    obtain ⟨i, hi, rfl⟩ := hc c hcm
    exact (h.changes i hi).actor.1
  · exact lenientCol_encode lawful_actor limit _ (by simpa using hn) (by simpa using h.nChanges) (by
      intro x hx
      obtain ⟨c, hcm, rfl⟩ := List.mem_map.mp hx
      obtain ⟨i, hi, rfl⟩ := hc c hcm
      exact (h.changes i hi).actor.2)
  · exact lenientDelta_encode limit _ (by simpa using hn) (by simpa using h.nChanges) (by
      intro x hx
      obtain ⟨c, hcm, rfl⟩ := List.mem_map.mp hx
      obtain ⟨i, hi, rfl⟩ := hc c hcm
      exact (h.changes i hi).maxOp)
  · exact lenientDelta_encode limit _ (by simpa using hn) (by simpa using h.nChanges) (by
      intro x hx
      obtain ⟨c, hcm, rfl⟩ := List.mem_map.mp hx
      obtain ⟨i, hi, rfl⟩ := hc c hcm
      exact (h.changes i hi).seq)
  · have hv : ∀ v, some v ∈ img.changes.map (fun c => some c.time) → winTime.mem v := by
      intro v hv
      obtain ⟨c, hcm, hce⟩ := List.mem_map.mp hv
      cases hce
      obtain ⟨i, hi, rfl⟩ := hc c hcm
      have := (h.changes i hi).time
      unfold Win.mem winTime
      simp only
      omega
    have hnn : false = false → ∀ x ∈ img.changes.map (fun c => some c.time), x ≠ none := by
      intro _ x hx he
      obtain ⟨c, _, hce⟩ := List.mem_map.mp hx
      rw [he] at hce; cases hce
    have := loadDelta_encode winTime i64lo i64hi (by unfold winTime i64lo two63; decide) (by unfold winTime i64hi two63; decide)
      (img.changes.map (fun c => some c.time)) (by simpa using hn) hv
      (fun hne => deltaEncode_ne_nil winTime false _ hne (by simpa using hn) hv hnn) false (some (some 0)) hnn
    simpa using this
  · have := loadRle_nullable lawful_str .len trivial (fun _ => 0) (img.changes.map (·.message)) (by simpa using hn) (by
      intro x hx v hv
      obtain ⟨c, hcm, rfl⟩ := List.mem_map.mp hx
      obtain ⟨i, hi, rfl⟩ := hc c hcm
      exact (h.changes i hi).message v hv)
    simpa using this
  · have := loadRle_prefixU lawful_u64 metaLen (img.changes.map (fun c => extraMeta c.extra)) (by simpa using hn) (by
      intro x hx
      obtain ⟨c, hcm, rfl⟩ := List.mem_map.mp hx
      obtain ⟨i, hi, rfl⟩ := hc c hcm
      exact (h.changes i hi).extra) (by rw [sum_extraMeta]; exact h.extraBytes)
    simpa using this
  · rw [encNonNull_u64_u32]
    exact lenientCol_encode lawful_u32 limit _ (by simpa using hn) (by simpa using h.nChanges) (by
      intro x hx
      obtain ⟨c, hcm, rfl⟩ := List.mem_map.mp hx
      obtain ⟨i, hi, rfl⟩ := hc c hcm
      exact (h.changes i hi).depsLen)
  · have hfl : (img.changes.map (·.deps)).flatten = img.changes.flatMap (·.deps) := by
      rw [List.flatMap_def]
    have hy := yields_encode Hexane.lawful_i64 (diffs (img.changes.flatMap (·.deps)) 0)
      (by rw [diffs_length, length_flatMap_deps]; exact wf_lt63 h63 h.nDeps)
      (diffs_valid _ 0 (by omega) (by omega) (by
        intro x hx
        obtain ⟨c, hcm, hxc⟩ := List.mem_flatMap.mp hx
        obtain ⟨i, hi, rfl⟩ := hc c hcm
        obtain ⟨_, _, hd⟩ := (h.changes i hi).deps
        exact (hd x hxc).1))
    have := depsLoop_yields (img.changes.map (·.maxOp)) (img.changes.map (·.deps))
      (lInit (encDelta (img.changes.flatMap (·.deps)))) 0 0
      (fun k hk => by
        simp only [List.length_map] at hk
        simp only [Nat.zero_add, List.getElem_map]
        exact (h.changes k hk).deps)
      (by rw [hfl, encDelta_eq]; exact hy)
    simpa [List.map_map, Function.comp_def] using this

/-! ### the layout of the two column tables -/

theorem opSpecs_lt : opSpecs.Pairwise (· < ·) := by decide
theorem changeSpecs_lt : changeSpecs.Pairwise (· < ·) := by decide
theorem opSpecs_plain : ∀ s ∈ opSpecs, s % 16 < 8 := by decide
theorem changeSpecs_plain : ∀ s ∈ changeSpecs, s % 16 < 8 := by decide
theorem opSpecs_value : ∀ s ∈ opSpecs, ChangeCodec.specType s = ChangeCodec.T_VALUE → s = S_VAL_RAW := by decide
theorem changeSpecs_value : ∀ s ∈ changeSpecs, ChangeCodec.specType s = ChangeCodec.T_VALUE → s = C_EXTRA_RAW := by decide

theorem encNonNull_ne_nil {α : Type} [DecidableEq α] {c : ValCodec α} {Valid : α → Prop} (law : Lawful c Valid)
    (xs : List α) (hne : xs ≠ []) (hlen : xs.length < two63) (hv : ∀ x ∈ xs, Valid x) : encNonNull c xs ≠ [] := by
  unfold encNonNull
  apply rleEncode_ne_nil law false
  · intro h; exact hne (List.map_eq_nil_iff.mp h)
  · simpa using hlen
  · intro x hx
    obtain ⟨y, hy, rfl⟩ := List.mem_map.mp hx
    exact hv y hy

theorem layoutOk_of_wf {limit : Nat} {img : DocImage} (h : WF limit img) : LayoutOk img := by
  have h63 := h.limit63
  constructor
  · apply parseLayout_encoded (opCols img.ops) (by rw [opCols_specs]; exact opSpecs_lt)
      (fun c hc => opSpecs_plain _ (opCols_spec_mem hc)) _ h.opData
    intro c hc hv
    have hcm := nonEmptyCols_sub _ c hc
    have hs := opSpecs_value _ (opCols_spec_mem hcm) hv
    -- the raw value column is written: some value has bytes, so there are rows and the metadata
    -- column is written too
    have hraw : (S_VAL_RAW, (img.ops.map (fun r => valueRaw r.val)).flatten) ∈ opCols img.ops :=
      List.mem_of_getElem? (show (opCols img.ops)[10]? = some _ from rfl)
    have hnd : ((opCols img.ops).map (·.1)).Nodup := by rw [opCols_specs]; exact opSpecs_nodup
    obtain ⟨c1, c2⟩ := c
    simp only at hs
    subst hs
    have hc2 := nodup_fst_unique hnd hcm hraw
    have hne2 : c2 ≠ [] := by
      have := (List.mem_filter.mp hc).2
      simpa using this
    have hrows : img.ops ≠ [] := by
      intro he
      rw [hc2, he] at hne2
      exact hne2 rfl
    have hmeta : (S_VAL_META, encNonNull cU64 (img.ops.map (fun r => valueMeta r.val))) ∈ opCols img.ops :=
      List.mem_of_getElem? (show (opCols img.ops)[9]? = some _ from rfl)
    have hmne : encNonNull cU64 (img.ops.map (fun r => valueMeta r.val)) ≠ [] :=
      encNonNull_ne_nil lawful_u64 _ (by simpa using hrows) (by simpa using wf_lt63 h63 h.nOps) (by
        intro x hx
        obtain ⟨r, hr, rfl⟩ := List.mem_map.mp hx
        exact (h.rows r hr).val.1)
    have : (S_VAL_META, encNonNull cU64 (img.ops.map (fun r => valueMeta r.val))) ∈ nonEmptyCols (opCols img.ops) :=
      List.mem_filter.mpr ⟨hmeta, by simpa using hmne⟩
    exact List.mem_map.mpr ⟨_, this, rfl⟩
  · apply parseLayout_encoded (changeCols img.changes) (by rw [changeCols_specs]; exact changeSpecs_lt)
      (fun c hc => changeSpecs_plain _ (changeCols_spec_mem hc)) _ h.changeData
    intro c hc hv
    have hcm := nonEmptyCols_sub _ c hc
    have hs := changeSpecs_value _ (changeCols_spec_mem hcm) hv
    have hraw : (C_EXTRA_RAW, img.changes.flatMap (·.extra)) ∈ changeCols img.changes :=
      List.mem_of_getElem? (show (changeCols img.changes)[8]? = some _ from rfl)
    have hnd : ((changeCols img.changes).map (·.1)).Nodup := by rw [changeCols_specs]; exact changeSpecs_nodup
    obtain ⟨c1, c2⟩ := c
    simp only at hs
    subst hs
    have hc2 := nodup_fst_unique hnd hcm hraw
    have hne2 : c2 ≠ [] := by
      have := (List.mem_filter.mp hc).2
      simpa using this
    have hrows : img.changes ≠ [] := by
      intro he
      rw [hc2, he] at hne2
      exact hne2 rfl
    have hmeta : (C_EXTRA_META, encNonNull cU64 (img.changes.map (fun c => extraMeta c.extra))) ∈ changeCols img.changes :=
      List.mem_of_getElem? (show (changeCols img.changes)[7]? = some _ from rfl)
    have hmne : encNonNull cU64 (img.changes.map (fun c => extraMeta c.extra)) ≠ [] :=
      encNonNull_ne_nil lawful_u64 _ (by simpa using hrows) (by simpa using wf_lt63 h63 h.nChanges) (by
        intro x hx
        obtain ⟨c, hcm', rfl⟩ := List.mem_map.mp hx
        obtain ⟨i, hi, he⟩ := List.getElem_of_mem hcm'
        rw [← he]
        exact (h.changes i hi).extra)
    have : (C_EXTRA_META, encNonNull cU64 (img.changes.map (fun c => extraMeta c.extra))) ∈ nonEmptyCols (changeCols img.changes) :=
      List.mem_filter.mpr ⟨hmeta, by simpa using hmne⟩
    exact List.mem_map.mpr ⟨_, this, rfl⟩

/-- **the document chunk body round-trips**: every well-formed image is read back from what
    `encodeDoc` writes for it -/
theorem decodeDoc_encode_wf (limit : Nat) (img : DocImage) (h : WF limit img) :
    decodeDoc limit (encodeDoc img) = .ok img :=
  decodeDoc_encode limit img (frameWF_of_wf h) (layoutOk_of_wf h) (opColFacts_of_wf h)
    (changeColFacts_of_wf h) (rowWF_of_wf h)

end AmVerif.DocCodec
