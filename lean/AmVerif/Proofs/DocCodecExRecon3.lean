import AmVerif.Proofs.DocCodecChecks
import AmVerif.Proofs.DocCodecEx
/-
  The decidable hypotheses of the reconstruction theorem on the example history, part 3: the hashes of
  the last two changes.
-/
namespace AmVerif.DocCodec
open AmVerif AmVerif.Crdt

set_option maxRecDepth 100000 in
theorem Ex.history_hash2 : HashD Ex.history[2] := by decide +kernel

set_option maxRecDepth 100000 in
theorem Ex.history_hash3 : HashD Ex.history[3] := by decide +kernel

end AmVerif.DocCodec
