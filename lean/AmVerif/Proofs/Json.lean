import AmVerif.Model.Json
/-
  Helper lemmas about the `BTreeMap` model (`insertKV`, `fromEntries`): building a map from
  entries whose keys are already strictly increasing gives back the same list.
-/
namespace AmVerif

theorem insertKV_append {α : Type} (k : String) (v : α) :
    ∀ (l : List (String × α)), (∀ x ∈ l, x.1 < k) → insertKV k v l = l ++ [(k, v)]
  | [], _ => rfl
  | (k', v') :: rest, h => by
    have hk : k' < k := h (k', v') (by simp)
    have h1 : ¬ k < k' := String.lt_asymm hk
    have h2 : ¬ k = k' := fun e => String.lt_irrefl k (by rw [e] at hk ⊢; exact hk)
    have ih := insertKV_append k v rest (fun x hx => h x (by simp [hx]))
    simp [insertKV, h1, h2, ih]

theorem KeysSorted.tail {α : Type} {kv : String × α} {kvs : List (String × α)}
    (h : KeysSorted (kv :: kvs)) : KeysSorted kvs := by
  unfold KeysSorted at h ⊢
  simp only [List.map_cons, List.pairwise_cons] at h
  exact h.2

theorem KeysSorted.head_lt {α : Type} {kv : String × α} {kvs : List (String × α)}
    (h : KeysSorted (kv :: kvs)) : ∀ b ∈ kvs, kv.1 < b.1 := by
  unfold KeysSorted at h
  simp only [List.map_cons, List.pairwise_cons] at h
  intro b hb
  exact h.1 b.1 (List.mem_map_of_mem hb)

theorem foldl_insertKV_sorted {α : Type} :
    ∀ (kvs acc : List (String × α)), KeysSorted kvs → (∀ a ∈ acc, ∀ b ∈ kvs, a.1 < b.1) →
      kvs.foldl (fun m kv => insertKV kv.1 kv.2 m) acc = acc ++ kvs
  | [], acc, _, _ => by simp
  | kv :: kvs, acc, hs, hlt => by
    simp only [List.foldl_cons]
    rw [insertKV_append kv.1 kv.2 acc (fun x hx => hlt x hx kv (by simp))]
    have hlt' : ∀ a ∈ acc ++ [(kv.1, kv.2)], ∀ b ∈ kvs, a.1 < b.1 := by
      intro a ha b hb
      rcases List.mem_append.mp ha with ha | ha
      · exact hlt a ha b (by simp [hb])
      · simp at ha
        rw [ha]
        exact hs.head_lt b hb
    rw [foldl_insertKV_sorted kvs _ hs.tail hlt']
    simp

/-- a `BTreeMap` built from strictly increasing entries lists exactly those entries -/
theorem fromEntries_sorted {α : Type} (kvs : List (String × α)) (h : KeysSorted kvs) :
    fromEntries kvs = kvs := by
  unfold fromEntries
  rw [foldl_insertKV_sorted kvs [] h (by simp)]
  simp

theorem insertKV_keys_mem {α : Type} (k : String) (v : α) :
    ∀ (l : List (String × α)) (x : String), x ∈ (insertKV k v l).map Prod.fst →
      x = k ∨ x ∈ l.map Prod.fst
  | [], x, h => by simp [insertKV] at h; exact Or.inl h
  | (k', v') :: rest, x, h => by
    unfold insertKV at h
    split at h
    · simp only [List.map_cons, List.mem_cons] at h ⊢
      rcases h with h | h | h
      · exact Or.inl h
      · exact Or.inr (Or.inl h)
      · exact Or.inr (Or.inr h)
    · split at h
      · simp only [List.map_cons, List.mem_cons] at h ⊢
        rcases h with h | h
        · exact Or.inl h
        · exact Or.inr (Or.inr h)
      · simp only [List.map_cons, List.mem_cons] at h ⊢
        rcases h with h | h
        · exact Or.inr (Or.inl h)
        · rcases insertKV_keys_mem k v rest x h with h | h
          · exact Or.inl h
          · exact Or.inr (Or.inr h)

theorem String.lt_of_not_lt_of_ne {a b : String} (h1 : ¬ a < b) (h2 : ¬ a = b) : b < a := by
  apply Classical.byContradiction
  intro h3
  exact h2 (String.le_antisymm (String.not_lt.mp h3) (String.not_lt.mp h1))

/-- `BTreeMap::insert` keeps the keys strictly increasing -/
theorem insertKV_sorted {α : Type} (k : String) (v : α) :
    ∀ (l : List (String × α)), KeysSorted l → KeysSorted (insertKV k v l)
  | [], _ => by simp [insertKV, KeysSorted]
  | (k', v') :: rest, h => by
    have hh : ∀ b ∈ rest.map Prod.fst, k' < b := by
      have := h; unfold KeysSorted at this
      simp only [List.map_cons, List.pairwise_cons] at this
      exact this.1
    have ht : KeysSorted rest := h.tail
    unfold insertKV
    split
    · rename_i hlt
      unfold KeysSorted at h ⊢
      simp only [List.map_cons, List.pairwise_cons] at h ⊢
      refine ⟨?_, h⟩
      intro b hb
      rcases List.mem_cons.mp hb with hb | hb
      · rw [hb]; exact hlt
      · exact String.lt_trans hlt (hh b hb)
    · split
      · rename_i _ heq
        unfold KeysSorted at h ⊢
        simp only [List.map_cons, List.pairwise_cons] at h ⊢
        rw [heq]; exact h
      · rename_i hnlt hne
        have hgt : k' < k := String.lt_of_not_lt_of_ne hnlt hne
        have ih := insertKV_sorted k v rest ht
        unfold KeysSorted at ih ⊢
        simp only [List.map_cons, List.pairwise_cons]
        refine ⟨?_, ih⟩
        intro b hb
        rcases insertKV_keys_mem k v rest b hb with hb | hb
        · rw [hb]; exact hgt
        · exact hh b hb

/-- every map built by `BTreeMap` insertions has strictly increasing keys, whatever the order and
    multiplicity of the inserted keys -/
theorem fromEntries_keysSorted {α : Type} (kvs : List (String × α)) : KeysSorted (fromEntries kvs) := by
  unfold fromEntries
  have : ∀ (l acc : List (String × α)), KeysSorted acc →
      KeysSorted (l.foldl (fun m kv => insertKV kv.1 kv.2 m) acc) := by
    intro l
    induction l with
    | nil => intro acc h; simpa using h
    | cons kv l ih => intro acc h; simp only [List.foldl_cons]; exact ih _ (insertKV_sorted _ _ _ h)
  exact this kvs [] (by simp [KeysSorted])

theorem keysSorted_of_keys_eq {α β : Type} {a : List (String × α)} {b : List (String × β)}
    (hk : a.map Prod.fst = b.map Prod.fst) (h : KeysSorted b) : KeysSorted a := by
  unfold KeysSorted at h ⊢
  rw [hk]; exact h

end AmVerif
