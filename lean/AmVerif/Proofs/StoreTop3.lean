import AmVerif.Proofs.StoreTop2
/-
  The `top` index column, part 3: `insertRemote` keeps `index.top` equal to `IndexBuilder`'s
  definition (`topCol`), and with it the whole index (`indexOk`).
-/
namespace AmVerif.Crdt
open AmVerif

/-! ### `topAny` row by row -/

theorem topAny_spec_aux : ∀ (P : Store) (x : Row) (Q : Store),
    (P ++ x :: Q).map (·.top) = topAny (P ++ x :: Q) →
      x.top = (x.isVisible && !(Q.any (fun y => sameReg x y && y.isVisible)))
  | [], x, Q, h => by
    simp only [List.nil_append, List.map_cons, topAny, List.cons.injEq] at h
    exact h.1
  | p :: P, x, Q, h => by
    simp only [List.cons_append, List.map_cons, topAny, List.cons.injEq] at h
    exact topAny_spec_aux P x Q h.2

theorem topAny_spec {s : Store} (h : s.map (·.top) = topAny s) (P : Store) (x : Row) (Q : Store)
    (hs : s = P ++ x :: Q) : x.top = (x.isVisible && !(Q.any (fun y => sameReg x y && y.isVisible))) := by
  subst hs
  exact topAny_spec_aux P x Q h

theorem sameReg_map {f : Row → Row} (hf : ∀ x, (f x).op = x.op) (x y : Row) :
    sameReg (f x) (f y) = sameReg x y := by
  unfold sameReg; rw [hf, hf]

theorem topAny_map {f : Row → Row} (hf : ∀ x, (f x).op = x.op) : ∀ (P t : Store),
    (∀ (P' : Store) (x : Row) (Q : Store), P ++ t = P' ++ x :: Q → P.length ≤ P'.length →
      (f x).top = ((f x).isVisible && !(Q.any (fun y => sameReg x y && (f y).isVisible)))) →
    (t.map f).map (·.top) = topAny (t.map f)
  | _, [], _ => rfl
  | P, x :: xs, h => by
    simp only [List.map_cons, topAny]
    congr 1
    · rw [h P x xs rfl (Nat.le_refl _), List.any_map]
      congr 2
      apply any_congr_mem
      intro y _
      simp only [Function.comp, sameReg_map hf]
    · apply topAny_map hf (P ++ [x]) xs
      intro P' x' Q hl hlen
      apply h P' x' Q
      · rw [← hl]; simp
      · simp at hlen; omega

/-! ### every placement is an insertion at one position -/

def IsInsertion (r : Row) (f : Store → Store) : Prop :=
  ∀ s, ∃ pre post, s = pre ++ post ∧ f s = pre ++ r :: post

theorem isInsertion_step {r : Row} {f g : Store → Store} (hg : IsInsertion r g)
    (hnil : f [] = [r])
    (hcons : ∀ x xs, f (x :: xs) = r :: x :: xs ∨ f (x :: xs) = x :: g xs ∨ f (x :: xs) = x :: f xs) :
    IsInsertion r f := by
  intro s
  induction s with
  | nil => exact ⟨[], [], rfl, by simpa using hnil⟩
  | cons x xs ih =>
    rcases hcons x xs with h | h | h
    · exact ⟨[], x :: xs, rfl, by simpa using h⟩
    · obtain ⟨pre, post, h1, h2⟩ := hg xs
      exact ⟨x :: pre, post, by rw [h1]; rfl, by rw [h, h2]; rfl⟩
    · obtain ⟨pre, post, h1, h2⟩ := ih
      exact ⟨x :: pre, post, by rw [h1]; rfl, by rw [h, h2]; rfl⟩

theorem isInsertion_trivial (r : Row) : IsInsertion r (fun s => r :: s) := fun s => ⟨[], s, rfl, rfl⟩

theorem skipGt_isInsertion (r : Row) : IsInsertion r (skipGt r) :=
  isInsertion_step (isInsertion_trivial r) rfl (fun x xs => by
    simp only [skipGt]; split
    · exact .inl rfl
    · split
      · exact .inl rfl
      · exact .inr (.inr rfl))

theorem skipUpd_isInsertion (r : Row) : IsInsertion r (skipUpd r) :=
  isInsertion_step (isInsertion_trivial r) rfl (fun x xs => by
    simp only [skipUpd]; split
    · exact .inl rfl
    · split
      · exact .inl rfl
      · exact .inr (.inr rfl))

theorem mapPlace_isInsertion (r : Row) : IsInsertion r (mapPlace r) :=
  isInsertion_step (isInsertion_trivial r) rfl (fun x xs => by
    simp only [mapPlace]; split
    · exact .inl rfl
    · split
      · exact .inl rfl
      · exact .inr (.inr rfl))

theorem endOfObj_isInsertion (r : Row) : IsInsertion r (endOfObj r) :=
  isInsertion_step (isInsertion_trivial r) rfl (fun x xs => by
    simp only [endOfObj]; split
    · exact .inl rfl
    · exact .inr (.inr rfl))

theorem seekIns_isInsertion (r : Row) (e : OpId) : IsInsertion r (seekIns r e) :=
  isInsertion_step (skipGt_isInsertion r) rfl (fun x xs => by
    simp only [seekIns]; split
    · exact .inl rfl
    · split
      · exact .inr (.inl rfl)
      · exact .inr (.inr rfl))

theorem seekUpd_isInsertion (r : Row) (e : OpId) : IsInsertion r (seekUpd r e) :=
  isInsertion_step (skipUpd_isInsertion r) rfl (fun x xs => by
    simp only [seekUpd]; split
    · exact .inl rfl
    · split
      · exact .inr (.inl rfl)
      · exact .inr (.inr rfl))

theorem placeInObj_isInsertion (r : Row) : IsInsertion r (placeInObj r) := by
  rcases placeInObj_cases r with ⟨k, _, h1, _⟩ | ⟨_, _, h1, _⟩ | ⟨_, _, h1, _⟩ | ⟨e, _, _, h1, _⟩ |
    ⟨e, _, _, h1, _⟩ <;> rw [h1]
  · exact mapPlace_isInsertion r
  · exact skipGt_isInsertion r
  · exact endOfObj_isInsertion r
  · exact seekIns_isInsertion r e
  · exact seekUpd_isInsertion r e

theorem placeRow_isInsertion (r : Row) : IsInsertion r (placeRow r) := by
  intro s
  induction s with
  | nil => exact ⟨[], [], rfl, rfl⟩
  | cons x xs ih =>
    simp only [placeRow]
    split
    · obtain ⟨pre, post, h1, h2⟩ := ih
      exact ⟨x :: pre, post, by rw [h1]; rfl, by rw [h2]; rfl⟩
    · exact placeInObj_isInsertion r (x :: xs)

/-! ### ids named by the machine are ids of rows of the register -/

def accIds (acc : TopAcc) : List OpId :=
  (match acc.st with | .doc i => [i] | .expose i => [i] | _ => []) ++ acc.conflicts

theorem topStep_ids (N : Op) (acc : TopAcc) (x : Row) :
    ∀ i ∈ accIds (topStep N acc x), i = x.op.id ∨ i ∈ accIds acc := by
  obtain ⟨st, cs, cf⟩ := acc
  unfold topStep accIds
  intro i hi
  cases h1 : (x.op.id == N.id) <;> cases h2 : x.isVisible <;> cases h3 : deletes N x <;>
    cases st <;> simp_all <;> (try (rcases hi with hi | hi <;> simp [hi]))

theorem foldl_topStep_ids (N : Op) : ∀ (L : List Row) (acc : TopAcc),
    ∀ i ∈ accIds (L.foldl (topStep N) acc), (∃ y ∈ L, y.op.id = i) ∨ i ∈ accIds acc
  | [], _, i, hi => .inr hi
  | x :: xs, acc, i, hi => by
    rcases foldl_topStep_ids N xs (topStep N acc x) i hi with ⟨y, hy, hyi⟩ | h
    · exact .inl ⟨y, List.mem_cons_of_mem _ hy, hyi⟩
    · rcases topStep_ids N acc x i h with h | h
      · exact .inl ⟨x, List.mem_cons_self, h.symm⟩
      · exact .inr h

theorem topRun_ids (N : Op) (s : Store) {i : OpId}
    (h : (topRun N s).exposed = some i ∨ i ∈ (topRun N s).conflicts) :
    ∃ y ∈ regRows s N.obj N.regKey, y.op.id = i := by
  have hi : i ∈ accIds (topRun N s) := by
    unfold accIds
    rcases h with h | h
    · unfold TopAcc.exposed at h
      cases hst : (topRun N s).st <;> rw [hst] at h <;> simp_all
    · exact List.mem_append_right _ h
  unfold topRun at hi
  rcases foldl_topStep_ids N _ _ i hi with h | h
  · exact h
  · simp [accIds] at h

/-! ### a nodup list splits in one way around an element -/

theorem split_unique {α : Type} : ∀ {A A' B B' : List α} {a : α}, (A ++ a :: B).Nodup →
    A ++ a :: B = A' ++ a :: B' → A = A' ∧ B = B'
  | [], [], _, _, _, _, h => by simp at h; exact ⟨rfl, h⟩
  | [], a' :: A', B, B', a, hn, h => by
    simp only [List.nil_append, List.cons_append, List.cons.injEq] at h
    obtain ⟨rfl, rfl⟩ := h
    simp at hn
  | a' :: A, [], B, B', a, hn, h => by
    simp only [List.nil_append, List.cons_append, List.cons.injEq] at h
    obtain ⟨rfl, rfl⟩ := h
    simp at hn
  | x :: A, y :: A', B, B', a, hn, h => by
    simp only [List.cons_append, List.cons.injEq] at h
    obtain ⟨rfl, h⟩ := h
    have hn' : (A ++ a :: B).Nodup := (List.nodup_cons.mp hn).2
    obtain ⟨h1, h2⟩ := split_unique hn' h
    exact ⟨by rw [h1], h2⟩

/-- the rows of a register inherit the `top` invariant of the store -/
theorem regRows_inv {s : Store} (htop : s.map (·.top) = topAny s) (hn : s.Nodup) (obj : ObjId) (k : Key)
    (A : Store) (x : Row) (B : Store) (h : regRows s obj k = A ++ x :: B) :
    x.top = (x.isVisible && !(B.any (·.isVisible))) := by
  have hx : x ∈ regRows s obj k := by rw [h]; simp
  unfold regRows at hx h
  obtain ⟨hxs, hxr⟩ := List.mem_filter.mp hx
  obtain ⟨P, Q, hs⟩ := List.append_of_mem hxs
  rw [topAny_spec htop P x Q hs]
  have hsplit : s.filter (fun y => y.op.obj == obj && y.op.regKey == k) =
      P.filter (fun y => y.op.obj == obj && y.op.regKey == k) ++
        x :: Q.filter (fun y => y.op.obj == obj && y.op.regKey == k) := by
    rw [hs, List.filter_append, List.filter_cons, if_pos hxr]
  have hnd : (A ++ x :: B).Nodup := by
    rw [← h]; exact hn.filter _
  obtain ⟨_, hB⟩ := split_unique hnd (h.symm.trans hsplit)
  rw [hB, List.any_filter]
  congr 2
  apply any_congr_mem
  intro y _
  simp only [Bool.and_eq_true, beq_iff_eq] at hxr
  unfold sameReg
  rw [hxr.1, hxr.2]

/-! ### the theorem -/

/-- the predecessors of an op are ops of its own register -/
def PredsInReg (ops : List Op) (N : Op) : Prop :=
  ∀ x ∈ ops, x.id ∈ N.pred → x.obj = N.obj ∧ x.regKey = N.regKey

/-- **`insertRemote` keeps `index.top` equal to `IndexBuilder`'s definition** -/
theorem insertRemote_topCol {w : Op → Nat} {ops : List Op} {s : Store} {N : Op}
    (hw : OpsWF (ops ++ [N])) (hf : Fresh ops N) (hp : PredsInReg ops N) (hi : StoreInv ops s)
    (htop : s.map (·.top) = topCol s) :
    (insertRemote w s N).map (·.top) = topCol (insertRemote w s N) := by
  have hi' := insertRemote_inv (w := w) hw hf hi
  rw [storeInv_topCol hw hi']
  rw [storeInv_topCol hw.init hi] at htop
  -- the store with the new row placed, before the successor / index update
  let new : Row := ⟨N, [], false, false, none⟩
  let s1 : Store := if N.isDel then s else placeRow new s
  have hs2 : insertRemote w s N = s1.map (updateRow w N (topRun N s1)) := rfl
  rw [hs2]
  -- ids
  have hmemops : ∀ y ∈ s, y.op ∈ ops := fun y hy => hi.mem_ops hy
  have hs1mem : ∀ y ∈ s1, y = new ∨ y ∈ s := by
    intro y hy
    simp only [s1] at hy
    split at hy
    · exact .inr hy
    · exact List.mem_cons.mp ((placeRow_perm _ s).mem_iff.mp hy)
  have holdid : ∀ y ∈ s, (y.op.id == N.id) = false := by
    intro y hy
    have := hw.fresh_id y.op (hmemops y hy)
    simpa using this
  have hs1ids : (s1.map (·.op.id)).Nodup := by
    have hops : s1.map (·.op) = (insertRemote w s N).map (·.op) := by
      rw [hs2, List.map_map]
      apply List.map_congr_left
      intro y _
      exact (updateRow_op _ _ _ _).symm
    have hperm : (s1.map (·.op)).Perm (stored (ops ++ [N])) := by
      rw [hops, hi'.order]; exact hi'.complete
    have hstrict : StrictIds (s1.map (·.op)) := (hw.strict.filter _).perm hperm.symm
    unfold StrictIds at hstrict
    have : (s1.map (·.op)).map (·.id) = s1.map (·.op.id) := by simp [List.map_map]
    rw [← this]
    unfold List.Nodup
    rw [List.pairwise_map]
    exact hstrict
  have hs1nodup : s1.Nodup := by
    have := hs1ids
    unfold List.Nodup at this ⊢
    rw [List.pairwise_map] at this
    exact List.Pairwise.imp (fun h he => h (by rw [he])) this
  have hsnodup : s.Nodup := by
    have hstrict : StrictIds (s.map (·.op)) := by
      rw [hi.order]; exact (hw.init.strict.filter _).perm hi.complete.symm
    unfold StrictIds at hstrict
    rw [List.pairwise_map] at hstrict
    unfold List.Nodup
    exact List.Pairwise.imp (fun h he => h (by rw [he])) hstrict
  -- removing the new row gives back the old store
  have hfilter : s1.filter (fun y => !(y.op.id == N.id)) = s := by
    have hsself : s.filter (fun y => !(y.op.id == N.id)) = s := by
      rw [List.filter_eq_self]
      intro y hy; rw [holdid y hy]; rfl
    simp only [s1]
    split
    · exact hsself
    · obtain ⟨pre, post, h1, h2⟩ := placeRow_isInsertion new s
      rw [h2, List.filter_append, List.filter_cons]
      have : (!(new.op.id == N.id)) = false := by simp [new]
      rw [this]
      simp only [Bool.false_eq_true, if_false]
      rw [← List.filter_append, ← h1]
      exact hsself
  have hregfilter : (regRows s1 N.obj N.regKey).filter (fun y => !(y.op.id == N.id)) =
      regRows s N.obj N.regKey := by
    unfold regRows
    rw [List.filter_filter]
    conv => rhs; rw [← hfilter, List.filter_filter]
    congr 1
    funext y
    exact Bool.and_comm _ _
  apply topAny_map (updateRow_op w N _) [] s1
  intro P x Q hl _
  simp only [List.nil_append] at hl
  rw [updateRow_top, updateRow_vis2]
  have hxs1 : x ∈ s1 := by rw [hl]; simp
  by_cases hreg : (x.op.obj == N.obj && x.op.regKey == N.regKey) = true
  · -- a row of the register of the op: the machine
    have hR : regRows s1 N.obj N.regKey = regRows P N.obj N.regKey ++ x :: regRows Q N.obj N.regKey := by
      unfold regRows
      rw [hl, List.filter_append, List.filter_cons, if_pos hreg]
    have hany : Q.any (fun y => sameReg x y && (updateRow w N (topRun N s1) y).isVisible) =
        (regRows Q N.obj N.regKey).any (vis2 N) := by
      unfold regRows
      rw [List.any_filter]
      apply any_congr_mem
      intro y _
      rw [updateRow_vis2]
      simp only [Bool.and_eq_true, beq_iff_eq] at hreg
      unfold sameReg
      rw [hreg.1, hreg.2]
    rw [hany]
    unfold topRun
    apply machine_correct N _ _ _ _ _ hR
    · have hsub : List.Sublist (regRows s1 N.obj N.regKey) s1 := List.filter_sublist
      exact (hsub.map _).nodup hs1ids
    · intro RP x' RQ hsplit hx'old
      have hsplit' : regRows s N.obj N.regKey =
          RP.filter (fun y => !(y.op.id == N.id)) ++ x' :: RQ.filter (fun y => !(y.op.id == N.id)) := by
        rw [← hregfilter, hsplit, List.filter_append, List.filter_cons]
        simp [hx'old]
      exact regRows_inv htop hsnodup N.obj N.regKey _ x' _ hsplit'
  · -- a row of another register: nothing changes for it
    have hreg' : (x.op.obj == N.obj && x.op.regKey == N.regKey) = false := by simpa using hreg
    have hxnotnew : x ≠ new := by
      intro he
      rw [he] at hreg'
      simp [new] at hreg'
    have hxs : x ∈ s := by
      rcases hs1mem x hxs1 with h | h
      · exact absurd h hxnotnew
      · exact h
    have hxold := holdid x hxs
    have hnotpred : N.pred.contains x.op.id = false := by
      cases hc : N.pred.contains x.op.id
      · rfl
      · have := hp x.op (hmemops x hxs) (List.contains_iff_mem.mp hc)
        rw [this.1, this.2] at hreg'
        simp at hreg'
    have hxdel : deletes N x = false := by unfold deletes; rw [hnotpred]; rfl
    have hidne : ∀ y ∈ regRows s1 N.obj N.regKey, y.op.id ≠ x.op.id := by
      intro y hy he
      obtain ⟨hys1, hyr⟩ := List.mem_filter.mp hy
      -- two rows of `s1` with one id are the same row
      have hyx : y = x := by
        have := hs1ids
        unfold List.Nodup at this
        rw [List.pairwise_map] at this
        apply Classical.byContradiction
        intro hne
        obtain ⟨A, B, hAB⟩ := List.append_of_mem hys1
        rw [hAB] at this hxs1
        have h1 := (List.pairwise_append.mp this).2.2
        have h2 := (List.pairwise_append.mp this).2.1
        rcases List.mem_append.mp hxs1 with hx | hx
        · exact h1 x hx y List.mem_cons_self he.symm
        · rcases List.mem_cons.mp hx with rfl | hx
          · exact hne rfl
          · exact List.rel_of_pairwise_cons h2 hx he
      rw [hyx, hreg'] at hyr; cases hyr
    have hexp : ((topRun N s1).exposed == some x.op.id) = false := by
      cases h : (topRun N s1).exposed with
      | none => rfl
      | some i =>
        obtain ⟨y, hy, hyi⟩ := topRun_ids N s1 (.inl h)
        have := hidne y hy
        simp only [beq_eq_false_iff_ne, ne_eq, Option.some.injEq]
        rw [← hyi]; exact this
    have hconf : (topRun N s1).conflicts.contains x.op.id = false := by
      cases h : (topRun N s1).conflicts.contains x.op.id
      · rfl
      · obtain ⟨y, hy, hyi⟩ := topRun_ids N s1 (.inr (List.contains_iff_mem.mp h))
        exact absurd hyi (hidne y hy)
    have htop2 : top2 N (topRun N s1) x = x.top := by
      unfold top2
      rw [hxold, hxdel, hexp, hconf]
      simp
    have hvis2 : vis2 N x = x.isVisible := by
      unfold vis2 live
      rw [hxold, hxdel]; simp
    rw [htop2, hvis2]
    -- the old invariant, at the position of `x` in the old store
    have hsold : s = P.filter (fun y => !(y.op.id == N.id)) ++ x :: Q.filter (fun y => !(y.op.id == N.id)) := by
      conv => lhs; rw [← hfilter, hl, List.filter_append, List.filter_cons]
      simp [hxold]
    rw [topAny_spec htop _ x _ hsold, List.any_filter]
    congr 2
    apply any_congr_mem
    intro y hy
    rw [updateRow_vis2]
    cases hsr : sameReg x y
    · simp
    · -- a row of `x`'s register is an old row that the op does not touch
      have hyreg : (y.op.obj == N.obj && y.op.regKey == N.regKey) = false := by
        unfold sameReg at hsr
        simp only [Bool.and_eq_true, beq_iff_eq] at hsr
        rw [hsr.1, hsr.2]; exact hreg'
      have hys1 : y ∈ s1 := by rw [hl]; simp [hy]
      have hys : y ∈ s := by
        rcases hs1mem y hys1 with h | h
        · rw [h] at hyreg; simp [new] at hyreg
        · exact h
      have hyold := holdid y hys
      have hynp : N.pred.contains y.op.id = false := by
        cases hc : N.pred.contains y.op.id
        · rfl
        · have := hp y.op (hmemops y hys) (List.contains_iff_mem.mp hc)
          rw [this.1, this.2] at hyreg
          simp at hyreg
      unfold vis2 live deletes
      rw [hyold, hynp]
      simp

/-- the whole index after `insertRemote` -/
theorem insertRemote_indexOk {w : Op → Nat} {ops : List Op} {s : Store} {N : Op}
    (hw : OpsWF (ops ++ [N])) (hf : Fresh ops N) (hp : PredsInReg ops N) (hi : StoreInv ops s)
    (hvis : s.map (·.vis) = visibleCol s) (htop : s.map (·.top) = topCol s)
    (hwd : ∀ r ∈ s, widthOk w r) :
    (insertRemote w s N).map (·.vis) = visibleCol (insertRemote w s N) ∧
    (insertRemote w s N).map (·.top) = topCol (insertRemote w s N) ∧
    (insertRemote w s N).map (·.width) = widthCol w (insertRemote w s N) ∧
    (∀ r ∈ insertRemote w s N, widthOk w r) := by
  have h2 := insertRemote_topCol (w := w) hw hf hp hi htop
  have h3 := insertRemote_widthOk w s N hwd
  exact ⟨insertRemote_visibleCol w s N hvis, h2, widthCol_of_rows w _ h2 h3, h3⟩

end AmVerif.Crdt
