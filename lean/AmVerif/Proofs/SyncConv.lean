import AmVerif.Proofs.SyncRecv
/-
  Deadlock freedom of the two-peer system: a quiescent configuration that satisfies the invariant
  is converged.
-/
namespace AmVerif.Sync
open AmVerif

theorem generate_none {fp : Hash → Bool} {d : Doc} {s : State} (h : (generate fp d s).2 = none) :
    quiet d s (mkBuilder fp d s) = true := by
  rcases generate_cases fp d s with ⟨_, hg⟩ | ⟨_, hq, _⟩ | ⟨_, _, hg⟩
  · rw [hg] at h; cases h
  · exact hq
  · rw [hg] at h; cases h

/-- if B has every head of A then B has every change of A -/
theorem changes_sub_of_heads {c : Cfg} (inv : Inv c) (h : ∀ x ∈ c.docA.heads, x ∈ c.docB.hashes) :
    ∀ x ∈ c.docA.applied, x ∈ c.docB.applied := by
  intro x hx
  have := closure_of_heads c.docA.applied c.docB.applied inv.a.wf.topo inv.b.wf.topo inv.agree
    (fun y hy hd => h y.hash (Doc.mem_heads.mpr ⟨Doc.mem_hashes.mpr ⟨y, hy, rfl⟩, hd⟩)) x hx
  obtain ⟨y, hy, hyh⟩ := List.mem_map.mp this
  have : x = y := inv.agree x hx y hy hyh.symm
  rw [this]; exact hy

theorem heads_eq_of_same {d₁ d₂ : Doc} (h : ∀ x, x ∈ d₁.applied ↔ x ∈ d₂.applied) :
    d₁.heads = d₂.heads := by
  unfold Doc.heads
  apply sortDedup_ext
  intro x
  have hh : ∀ y, y ∈ d₁.hashes ↔ y ∈ d₂.hashes := by
    intro y; simp only [Doc.mem_hashes]
    constructor
    · rintro ⟨c, hc, rfl⟩; exact ⟨c, (h c).mp hc, rfl⟩
    · rintro ⟨c, hc, rfl⟩; exact ⟨c, (h c).mpr hc, rfl⟩
  have hd : Doc.isDep d₁.applied x = Doc.isDep d₂.applied x := by
    rw [Bool.eq_iff_iff, Doc.isDep_iff, Doc.isDep_iff]
    constructor
    · rintro ⟨c, hc, hx⟩; exact ⟨c, (h c).mp hc, hx⟩
    · rintro ⟨c, hc, hx⟩; exact ⟨c, (h c).mpr hc, hx⟩
  simp only [List.mem_filter, hh, hd]

theorem converged_of_mutual {c : Cfg} (inv : Inv c)
    (h1 : ∀ x ∈ c.docA.heads, x ∈ c.docB.hashes) (h2 : ∀ x ∈ c.docB.heads, x ∈ c.docA.hashes) :
    Converged c := by
  have s1 := changes_sub_of_heads inv h1
  have s2 := changes_sub_of_heads inv.swap h2
  have same : ∀ x, x ∈ c.docA.applied ↔ x ∈ c.docB.applied := fun x => ⟨s1 x, s2 x⟩
  exact ⟨heads_eq_of_same same, same⟩

/-- the case where A still waits for an acknowledgement -/
theorem converged_of_flight {fp : Hash → Bool} {c : Cfg} (inv : Inv c) (hq : Quiescent fp c)
    (hf : c.stA.inFlight = true) : Converged c := by
  obtain ⟨lab, lba, ga, gb⟩ := hq
  obtain ⟨lsA, _⟩ := quiet_spec (generate_none ga) inv.a.rw.1
  obtain ⟨_, tB⟩ := quiet_spec (generate_none gb) inv.b.rw.1
  have ifB : c.stB.inFlight = false := by
    rcases inv.a.flight hf with h | h | h
    · exact absurd lab h
    · exact h
    · exact absurd lba h
  have thB : c.stB.theirHeads = some c.docB.heads := by
    rcases tB with h | h
    · exact h
    · have : c.stB.inFlight = true := h
      rw [ifB] at this; cases this
  have := inv.a.lastSent hf
  rw [lab] at this
  simp only [lastHeads, List.getLast?_nil] at this
  rw [thB, lsA] at this
  have heq : c.docA.heads = c.docB.heads := by injection this
  apply converged_of_mutual inv
  · intro x hx; rw [heq] at hx; exact Doc.heads_sub_hashes hx
  · intro x hx; rw [← heq] at hx; exact Doc.heads_sub_hashes hx

theorem Converged.swap {c : Cfg} (h : Converged c.swap) : Converged c :=
  ⟨h.1.symm, fun x => (h.2 x).symm⟩

theorem Quiescent.swap {fp : Hash → Bool} {c : Cfg} (h : Quiescent fp c) : Quiescent fp c.swap :=
  ⟨h.2.1, h.1, h.2.2.2, h.2.2.1⟩

/-- no quiet non-converged configuration -/
theorem converged_of_quiescent {fp : Hash → Bool} {c : Cfg} (inv : Inv c) (hq : Quiescent fp c) :
    Converged c := by
  have hq' := hq
  obtain ⟨_, _, ga, gb⟩ := hq'
  obtain ⟨_, tA⟩ := quiet_spec (generate_none ga) inv.a.rw.1
  obtain ⟨_, tB⟩ := quiet_spec (generate_none gb) inv.b.rw.1
  rcases tA with thA | ifA
  · rcases tB with thB | ifB
    · apply converged_of_mutual inv
      · intro x hx; exact inv.a.theirHeads _ thA x hx
      · intro x hx; exact inv.b.theirHeads _ thB x hx
    · exact Converged.swap (converged_of_flight inv.swap hq.swap ifB)
  · exact converged_of_flight inv hq ifA

end AmVerif.Sync
