import AmVerif.Proofs.StoreLocal
import AmVerif.Proofs.StoreFull
/-
  A local op goes where a remote op with the same content would go: `insertLocal` and `insertRemote`
  produce the same rows with the same successor lists (§1–§3), and the same index columns (§4–§5),
  when the op has the greatest id of the document and names exactly the visible ops of its register.
-/
namespace AmVerif.Crdt
open AmVerif

/-! ## §1 the position -/

theorem mapPlace_eq_scan {r : Row} {k : Bytes} (hk : r.op.key = .map k) :
    ∀ (l : Store), (∀ x ∈ l, x.op.id.lt r.op.id = true) →
      mapPlace r l = (scanIns r (fun x => x.op.obj != r.op.obj || keyGt k x.op) l).1
  | [], _ => rfl
  | x :: xs, h => by
    have hx := h x List.mem_cons_self
    have hnot : r.op.id.lt x.op.id = false := by
      cases hc : r.op.id.lt x.op.id
      · rfl
      · exact (OpId.lt_asymm hx hc).elim
    have hstop : mapStop x.op r.op = keyGt k x.op := by
      unfold mapStop keyGt
      rw [hk]
      cases x.op.key <;> simp [hnot]
    simp only [mapPlace, scanIns, hstop]
    by_cases ho : (x.op.obj != r.op.obj) = true
    · simp [ho]
    · have ho' : (x.op.obj != r.op.obj) = false := by simpa using ho
      simp only [ho', Bool.false_eq_true, if_false, Bool.false_or]
      split
      · rfl
      · rw [mapPlace_eq_scan hk xs (fun y hy => h y (List.mem_cons_of_mem _ hy))]

theorem skipGt_eq_scan (r : Row) : ∀ (l : Store), (∀ x ∈ l, x.op.id.lt r.op.id = true) →
    skipGt r l = (scanIns r (fun x => x.op.obj != r.op.obj || x.op.insert) l).1
  | [], _ => rfl
  | x :: xs, h => by
    have hx := h x List.mem_cons_self
    simp only [skipGt, scanIns, hx, Bool.and_true]
    by_cases ho : (x.op.obj != r.op.obj) = true
    · simp [ho]
    · have ho' : (x.op.obj != r.op.obj) = false := by simpa using ho
      simp only [ho', Bool.false_eq_true, if_false, Bool.false_or]
      split
      · rfl
      · rw [skipGt_eq_scan r xs (fun y hy => h y (List.mem_cons_of_mem _ hy))]

theorem skipUpd_eq_scan (r : Row) : ∀ (l : Store), (∀ x ∈ l, x.op.id.lt r.op.id = true) →
    skipUpd r l = (scanIns r (fun x => x.op.obj != r.op.obj || x.op.insert) l).1
  | [], _ => rfl
  | x :: xs, h => by
    have hx := h x List.mem_cons_self
    have hnot : r.op.id.lt x.op.id = false := by
      cases hc : r.op.id.lt x.op.id
      · rfl
      · exact (OpId.lt_asymm hx hc).elim
    simp only [skipUpd, scanIns, hnot, Bool.or_false]
    by_cases ho : (x.op.obj != r.op.obj) = true
    · simp [ho]
    · have ho' : (x.op.obj != r.op.obj) = false := by simpa using ho
      simp only [ho', Bool.false_eq_true, if_false, Bool.false_or]
      split
      · rfl
      · rw [skipUpd_eq_scan r xs (fun y hy => h y (List.mem_cons_of_mem _ hy))]

theorem seekIns_eq_seekScan (r : Row) (e : OpId) : ∀ (l : Store), (∀ x ∈ l, x.op.id.lt r.op.id = true) →
    seekIns r e l = (seekScan r (fun x => x.op.obj != r.op.obj) (fun x => x.op.insert && x.op.id == e)
      (fun x => x.op.obj != r.op.obj || x.op.insert) l).1
  | [], _ => rfl
  | x :: xs, h => by
    simp only [seekIns, seekScan]
    split
    · rfl
    · split
      · rw [skipGt_eq_scan r xs (fun y hy => h y (List.mem_cons_of_mem _ hy))]
      · rw [seekIns_eq_seekScan r e xs (fun y hy => h y (List.mem_cons_of_mem _ hy))]

theorem seekUpd_eq_seekScan (r : Row) (e : OpId) : ∀ (l : Store), (∀ x ∈ l, x.op.id.lt r.op.id = true) →
    seekUpd r e l = (seekScan r (fun x => x.op.obj != r.op.obj) (fun x => x.op.insert && x.op.id == e)
      (fun x => x.op.obj != r.op.obj || x.op.insert) l).1
  | [], _ => rfl
  | x :: xs, h => by
    simp only [seekUpd, seekScan]
    split
    · rfl
    · split
      · rw [skipUpd_eq_scan r xs (fun y hy => h y (List.mem_cons_of_mem _ hy))]
      · rw [seekUpd_eq_seekScan r e xs (fun y hy => h y (List.mem_cons_of_mem _ hy))]

theorem endOfObj_eq_scan (r : Row) : ∀ (l : Store),
    endOfObj r l = (scanIns r (fun x => x.op.obj != r.op.obj) l).1
  | [] => rfl
  | x :: xs => by
    simp only [endOfObj, scanIns]
    split
    · rfl
    · rw [endOfObj_eq_scan r xs]

/-- the rows of the op's object start with an insert op when the op is an insert at HEAD -/
def HeadOk (r : Row) (l : Store) : Prop :=
  r.op.key = .head → r.op.insert = true → ∀ x xs, l = x :: xs → x.op.obj = r.op.obj → x.op.insert = true

theorem localInObj_eq (r : Row) (l : Store) (hlt : ∀ x ∈ l, x.op.id.lt r.op.id = true)
    (hhead : HeadOk r l) : (localInObj r l).1 = placeInObj r l := by
  rcases placeInObj_cases r with ⟨k, hk, h1, _⟩ | ⟨hk, hi, h1, _⟩ | ⟨hk, hi, h1, _⟩ | ⟨e, hk, hi, h1, _⟩ |
    ⟨e, hk, hi, h1, _⟩ <;> rw [h1] <;> unfold localInObj <;> rw [hk]
  · exact (mapPlace_eq_scan hk l hlt).symm
  · simp only [hi, if_true]
    cases l with
    | nil => rfl
    | cons x xs =>
      simp only [skipGt]
      by_cases ho : (x.op.obj != r.op.obj) = true
      · simp [ho]
      · have ho' : x.op.obj = r.op.obj := by simpa using ho
        have := hhead hk hi x xs rfl ho'
        simp [ho', this, hlt x List.mem_cons_self]
  · simp only [hi, Bool.false_eq_true, if_false]
    exact (endOfObj_eq_scan r l).symm
  · exact (seekIns_eq_seekScan r e l hlt).symm
  · exact (seekUpd_eq_seekScan r e l hlt).symm

/-- **the local position is the remote position** for an op with the greatest id -/
theorem localPlaceRow_eq (r : Row) : ∀ (s : Store), (∀ x ∈ s, x.op.id.lt r.op.id = true) →
    (∀ pre l, s = pre ++ l → (∀ p ∈ pre, p.op.obj.lt r.op.obj = true) → HeadOk r l) →
    (localPlaceRow r s).1 = placeRow r s
  | [], _, _ => rfl
  | x :: xs, hlt, hhead => by
    simp only [localPlaceRow, placeRow]
    split
    · rename_i hx
      rw [localPlaceRow_eq r xs (fun y hy => hlt y (List.mem_cons_of_mem _ hy))]
      intro pre l hl hpre
      apply hhead (x :: pre) l (by rw [hl]; rfl)
      intro p hp
      rcases List.mem_cons.mp hp with rfl | hp
      · exact hx
      · exact hpre p hp
    · exact localInObj_eq r (x :: xs) hlt (hhead [] (x :: xs) rfl (fun _ h => by cases h))

/-! ## §2 the placement looks at the op of the new row only -/

theorem place_same_split {r r' : Row} {s : Store} (hop : r.op = r'.op)
    (hnd : ((s.map (·.op)) ++ [r.op]).Nodup) :
    ∃ pre post, s = pre ++ post ∧ placeRow r s = pre ++ r :: post ∧ placeRow r' s = pre ++ r' :: post := by
  obtain ⟨pre, post, h1, h2⟩ := placeRow_isInsertion r s
  obtain ⟨pre', post', h1', h2'⟩ := placeRow_isInsertion r' s
  have e1 := placeRow_map r s
  have e2 := placeRow_map r' s
  rw [hop] at e1
  rw [h2] at e1
  rw [h2'] at e2
  have heq : pre.map (·.op) ++ r.op :: post.map (·.op) = pre'.map (·.op) ++ r.op :: post'.map (·.op) := by
    have := e1.trans e2.symm
    simpa [hop] using this
  have hnd' : (pre.map (·.op) ++ r.op :: post.map (·.op)).Nodup := by
    have hperm : (pre.map (·.op) ++ r.op :: post.map (·.op)).Perm ((s.map (·.op)) ++ [r.op]) := by
      rw [h1, List.map_append]
      exact (List.perm_middle).trans (List.perm_append_comm (l₁ := [r.op]))
    exact hperm.nodup_iff.mpr hnd
  obtain ⟨hpre, _⟩ := split_unique hnd' heq
  have hlen : pre.length = pre'.length := by
    have := congrArg List.length hpre
    simpa using this
  have hpp : pre = pre' := by
    have ha : pre = s.take pre.length := by rw [h1]; simp
    have hb : pre' = s.take pre'.length := by rw [h1']; simp
    rw [ha, hb, hlen]
  subst hpp
  have : post = post' := List.append_cancel_left (h1.symm.trans h1')
  subst this
  exact ⟨pre, post, h1, h2, h2'⟩

/-! ## §3 rows and successor lists -/

/-- what both paths do to the successor list of a row -/
def succAfter (N : Op) (x : Row) : Op × List (OpId × Option Int) :=
  (x.op, if N.pred.contains x.op.id then insertSucc N.id (incFor N x.op) x.succ else x.succ)

theorem addSuccRow_core (w : Op → Nat) (N : Op) (pos : Nat) (st : AddSt) (x : Row) :
    (addSuccRow w N pos st x).1.core = (x.op, insertSucc N.id (incFor N x.op) x.succ) := by
  unfold addSuccRow Row.core
  dsimp only
  split
  · rfl
  · split <;> rfl

theorem addSuccRev_core (w : Op → Nat) (N : Op) : ∀ (off : Nat) (s : Store),
    (addSuccRev w N off s).1.map Row.core = s.map (succAfter N)
  | _, [] => rfl
  | off, x :: xs => by
    simp only [addSuccRev]
    split
    · rename_i h
      simp only [List.map_cons, addSuccRow_core, addSuccRev_core w N (off + 1) xs, succAfter, h, if_true]
    · rename_i h
      have h' : N.pred.contains x.op.id = false := by simpa using h
      simp only [List.map_cons, addSuccRev_core w N (off + 1) xs, succAfter, h', Bool.false_eq_true,
        if_false, Row.core]

theorem updateRow_core (w : Op → Nat) (N : Op) (acc : TopAcc) (x : Row)
    (h : (x.op.id == N.id) = true → N.pred.contains x.op.id = false) :
    (updateRow w N acc x).core = succAfter N x := by
  unfold Row.core succAfter
  rw [updateRow_op, updateRow_succ]
  cases hx : (x.op.id == N.id)
  · simp
  · rw [h hx]; simp

theorem map_core_eq_of_split {pre post : Store} {r r' : Row} {F : Row → Op × List (OpId × Option Int)}
    (h : F r = F r') : (pre ++ r :: post).map F = (pre ++ r' :: post).map F := by
  simp [h]

/-- **rows and successor lists**: the local path and the remote path agree -/
theorem insertLocal_core_eq {w : Op → Nat} {ops : List Op} {s : Store} {N : Op}
    (hw : OpsWF (ops ++ [N])) (hf : Fresh ops N) (hi : StoreInv ops s)
    (hgt : ∀ x ∈ ops, x.id.lt N.id = true)
    (hhead : ∀ pre l, s = pre ++ l → (∀ p ∈ pre, p.op.obj.lt N.obj = true) → HeadOk (localRow w N) l) :
    (insertLocal w s N).1.map Row.core = (insertRemote w s N).map Row.core := by
  have hnp : N.pred.contains N.id = false := by
    cases h : N.pred.contains N.id
    · rfl
    · exact absurd (List.contains_iff_mem.mp h) (hf.noPred N (by simp))
  have hupd : ∀ (acc : TopAcc) (l : Store), (l.map (updateRow w N acc)).map Row.core = l.map (succAfter N) := by
    intro acc l
    rw [List.map_map]
    apply List.map_congr_left
    intro x _
    simp only [Function.comp]
    apply updateRow_core
    intro hx
    have : x.op.id = N.id := by simpa using hx
    rw [this]; exact hnp
  unfold insertLocal insertRemote
  cases hd : N.isDel
  · simp only [Bool.false_eq_true, if_false]
    rw [addSuccRev_core, hupd]
    have hlt : ∀ x ∈ s, x.op.id.lt (localRow w N).op.id = true := fun x hx => hgt x.op (hi.mem_ops hx)
    rw [localPlaceRow_eq (localRow w N) s hlt hhead]
    have hnd : ((s.map (·.op)) ++ [(localRow w N).op]).Nodup := by
      have hperm : ((s.map (·.op)) ++ [N]).Perm (stored (ops ++ [N])) := by
        unfold stored
        rw [filter_append_singleton]
        simp only [hd, Bool.not_false, if_true]
        rw [hi.order]
        exact List.Perm.append_right _ hi.complete
      exact (hperm.nodup_iff).mpr ((hw.strict.filter _).nodup)
    obtain ⟨pre, post, _, h2, h2'⟩ := place_same_split (r := localRow w N)
      (r' := ⟨N, [], false, false, none⟩) (s := s) rfl hnd
    rw [h2, h2']
    exact map_core_eq_of_split rfl
  · simp only [if_true]
    rw [addSuccRev_core, hupd]

end AmVerif.Crdt
