import AmVerif.Proofs.Myers
import AmVerif.Proofs.MyersBounds
/-
  C27 helper (bounded exhaustive part): for every pair of sequences over a finite alphabet up to an
  explicit length bound the Myers model returns a script (never `invalidSplit`), by kernel
  evaluation of the model on the complete enumeration, lifted to a `∀` statement through
  `mem_listsUpTo`.
-/
namespace AmVerif.Myers
open AmVerif

/-- all lists over `alpha` of length exactly `n` -/
def listsOfLen {α : Type} (alpha : List α) : Nat → List (List α)
  | 0 => [[]]
  | n+1 => (listsOfLen alpha n).flatMap fun l => alpha.map fun c => c :: l

/-- all lists over `alpha` of length ≤ `n` -/
def listsUpTo {α : Type} (alpha : List α) : Nat → List (List α)
  | 0 => [[]]
  | n+1 => listsUpTo alpha n ++ listsOfLen alpha (n+1)

theorem mem_listsOfLen {α : Type} (alpha : List α) (hall : ∀ c : α, c ∈ alpha) :
    ∀ (l : List α), l ∈ listsOfLen alpha l.length := by
  intro l
  induction l with
  | nil => simp [listsOfLen]
  | cons c l ih =>
    simp only [List.length_cons, listsOfLen, List.mem_flatMap, List.mem_map]
    exact ⟨l, ih, c, hall c, rfl⟩

theorem mem_listsUpTo {α : Type} (alpha : List α) (hall : ∀ c : α, c ∈ alpha) :
    ∀ (n : Nat) (l : List α), l.length ≤ n → l ∈ listsUpTo alpha n := by
  intro n
  induction n with
  | zero =>
    intro l hl
    have : l = [] := List.eq_nil_of_length_eq_zero (by omega)
    simp [listsUpTo, this]
  | succ n ih =>
    intro l hl
    simp only [listsUpTo, List.mem_append]
    by_cases h : l.length ≤ n
    · exact .inl (ih l h)
    · have e : l.length = n + 1 := by omega
      exact .inr (e ▸ mem_listsOfLen alpha hall l)

/-- the diff returned a script -/
def Res.isOk {β : Type} : Res β → Bool
  | .ok _ => true
  | _ => false

theorem Res.isOk_iff {β : Type} (r : Res β) : r.isOk = true ↔ ∃ s, r = .ok s := by
  cases r <;> simp [Res.isOk]

/-- every pair of lists of the two enumerations diffs to a script -/
def allDiffOk {α : Type} [BEq α] (la lb : List (List α)) : Bool :=
  la.all fun a => lb.all fun b => (diff a b).isOk

theorem allDiffOk_bool_3_4 : allDiffOk (listsUpTo [false, true] 3) (listsUpTo [false, true] 4) = true := by
  decide +kernel

theorem diff_ok_bool_3_4 (a b : List Bool) (ha : a.length ≤ 3) (hb : b.length ≤ 4) :
    ∃ s, diff a b = .ok s := by
  have hall : ∀ c : Bool, c ∈ [false, true] := by decide
  have h := allDiffOk_bool_3_4
  simp only [allDiffOk, List.all_eq_true] at h
  exact (Res.isOk_iff _).mp (h a (mem_listsUpTo _ hall 3 a ha) b (mem_listsUpTo _ hall 4 b hb))

end AmVerif.Myers
