import AmVerif.Proofs.StoreCanon
/-
  `insertRemote` keeps the store in canonical order:
      (placeRow ⟨N, …⟩ s).map (·.op) = canon (ops ++ [N])     when  s.map (·.op) = canon ops
  §1 the placement functions on bare ops and their naturality, §2 they stop at the end of the
  object, §3 each placement on a segment, §4 how `canon` changes with one more op, §5 the theorem.
-/
namespace AmVerif.Crdt
open AmVerif

/-! ## §1 placement on bare ops -/

def mapPlaceO (N : Op) : List Op → List Op
  | [] => [N]
  | x :: xs =>
    if x.obj != N.obj then N :: x :: xs
    else if mapStop x N then N :: x :: xs
    else x :: mapPlaceO N xs

def skipGtO (N : Op) : List Op → List Op
  | [] => [N]
  | x :: xs =>
    if x.obj != N.obj then N :: x :: xs
    else if x.insert && x.id.lt N.id then N :: x :: xs
    else x :: skipGtO N xs

def seekInsO (N : Op) (ref : OpId) : List Op → List Op
  | [] => [N]
  | x :: xs =>
    if x.obj != N.obj then N :: x :: xs
    else if x.insert && x.id == ref then x :: skipGtO N xs
    else x :: seekInsO N ref xs

def skipUpdO (N : Op) : List Op → List Op
  | [] => [N]
  | x :: xs =>
    if x.obj != N.obj then N :: x :: xs
    else if x.insert || N.id.lt x.id then N :: x :: xs
    else x :: skipUpdO N xs

def seekUpdO (N : Op) (e : OpId) : List Op → List Op
  | [] => [N]
  | x :: xs =>
    if x.obj != N.obj then N :: x :: xs
    else if x.insert && x.id == e then x :: skipUpdO N xs
    else x :: seekUpdO N e xs

def endOfObjO (N : Op) : List Op → List Op
  | [] => [N]
  | x :: xs => if x.obj != N.obj then N :: x :: xs else x :: endOfObjO N xs

def placeInObjO (N : Op) : List Op → List Op :=
  match N.key with
  | .map _ => mapPlaceO N
  | .head => if N.insert then skipGtO N else endOfObjO N
  | .elem e => if N.insert then seekInsO N e else seekUpdO N e

def placeRowO (N : Op) : List Op → List Op
  | [] => [N]
  | x :: xs => if x.obj.lt N.obj then x :: placeRowO N xs else placeInObjO N (x :: xs)

theorem mapPlace_map (r : Row) (s : Store) : (mapPlace r s).map (·.op) = mapPlaceO r.op (s.map (·.op)) := by
  induction s with
  | nil => rfl
  | cons x xs ih =>
    simp only [mapPlace, List.map_cons, mapPlaceO]
    split
    · rfl
    · split
      · rfl
      · simp [ih]

theorem skipGt_map (r : Row) (s : Store) : (skipGt r s).map (·.op) = skipGtO r.op (s.map (·.op)) := by
  induction s with
  | nil => rfl
  | cons x xs ih =>
    simp only [skipGt, List.map_cons, skipGtO]
    split
    · rfl
    · split
      · rfl
      · simp [ih]

theorem seekIns_map (r : Row) (ref : OpId) (s : Store) :
    (seekIns r ref s).map (·.op) = seekInsO r.op ref (s.map (·.op)) := by
  induction s with
  | nil => rfl
  | cons x xs ih =>
    simp only [seekIns, List.map_cons, seekInsO]
    split
    · rfl
    · split
      · simp [skipGt_map]
      · simp [ih]

theorem skipUpd_map (r : Row) (s : Store) : (skipUpd r s).map (·.op) = skipUpdO r.op (s.map (·.op)) := by
  induction s with
  | nil => rfl
  | cons x xs ih =>
    simp only [skipUpd, List.map_cons, skipUpdO]
    split
    · rfl
    · split
      · rfl
      · simp [ih]

theorem seekUpd_map (r : Row) (e : OpId) (s : Store) :
    (seekUpd r e s).map (·.op) = seekUpdO r.op e (s.map (·.op)) := by
  induction s with
  | nil => rfl
  | cons x xs ih =>
    simp only [seekUpd, List.map_cons, seekUpdO]
    split
    · rfl
    · split
      · simp [skipUpd_map]
      · simp [ih]

theorem endOfObj_map (r : Row) (s : Store) : (endOfObj r s).map (·.op) = endOfObjO r.op (s.map (·.op)) := by
  induction s with
  | nil => rfl
  | cons x xs ih =>
    simp only [endOfObj, List.map_cons, endOfObjO]
    split
    · rfl
    · simp [ih]

theorem placeInObj_mapKey {r : Row} {k : Bytes} (h : r.op.key = .map k) : placeInObj r = mapPlace r := by
  unfold placeInObj; rw [h]
theorem placeInObj_headIns {r : Row} (h : r.op.key = .head) (hi : r.op.insert = true) :
    placeInObj r = skipGt r := by
  unfold placeInObj; rw [h]; simp [hi]
theorem placeInObj_headUpd {r : Row} (h : r.op.key = .head) (hi : r.op.insert = false) :
    placeInObj r = endOfObj r := by
  unfold placeInObj; rw [h]; simp [hi]
theorem placeInObj_elemIns {r : Row} {e : OpId} (h : r.op.key = .elem e) (hi : r.op.insert = true) :
    placeInObj r = seekIns r e := by
  unfold placeInObj; rw [h]; simp [hi]
theorem placeInObj_elemUpd {r : Row} {e : OpId} (h : r.op.key = .elem e) (hi : r.op.insert = false) :
    placeInObj r = seekUpd r e := by
  unfold placeInObj; rw [h]; simp [hi]

theorem placeInObjO_mapKey {N : Op} {k : Bytes} (h : N.key = .map k) : placeInObjO N = mapPlaceO N := by
  unfold placeInObjO; rw [h]
theorem placeInObjO_headIns {N : Op} (h : N.key = .head) (hi : N.insert = true) :
    placeInObjO N = skipGtO N := by
  unfold placeInObjO; rw [h]; simp [hi]
theorem placeInObjO_headUpd {N : Op} (h : N.key = .head) (hi : N.insert = false) :
    placeInObjO N = endOfObjO N := by
  unfold placeInObjO; rw [h]; simp [hi]
theorem placeInObjO_elemIns {N : Op} {e : OpId} (h : N.key = .elem e) (hi : N.insert = true) :
    placeInObjO N = seekInsO N e := by
  unfold placeInObjO; rw [h]; simp [hi]
theorem placeInObjO_elemUpd {N : Op} {e : OpId} (h : N.key = .elem e) (hi : N.insert = false) :
    placeInObjO N = seekUpdO N e := by
  unfold placeInObjO; rw [h]; simp [hi]

/-- the five ways an op is placed inside its object -/
theorem placeInObj_cases (r : Row) :
    (∃ k, r.op.key = .map k ∧ placeInObj r = mapPlace r ∧ placeInObjO r.op = mapPlaceO r.op) ∨
    (r.op.key = .head ∧ r.op.insert = true ∧ placeInObj r = skipGt r ∧ placeInObjO r.op = skipGtO r.op) ∨
    (r.op.key = .head ∧ r.op.insert = false ∧ placeInObj r = endOfObj r ∧ placeInObjO r.op = endOfObjO r.op) ∨
    (∃ e, r.op.key = .elem e ∧ r.op.insert = true ∧ placeInObj r = seekIns r e ∧
      placeInObjO r.op = seekInsO r.op e) ∨
    (∃ e, r.op.key = .elem e ∧ r.op.insert = false ∧ placeInObj r = seekUpd r e ∧
      placeInObjO r.op = seekUpdO r.op e) := by
  cases hk : r.op.key with
  | map k => exact .inl ⟨k, rfl, placeInObj_mapKey hk, placeInObjO_mapKey hk⟩
  | head =>
    cases hi : r.op.insert
    · exact .inr (.inr (.inl ⟨rfl, rfl, placeInObj_headUpd hk hi, placeInObjO_headUpd hk hi⟩))
    · exact .inr (.inl ⟨rfl, rfl, placeInObj_headIns hk hi, placeInObjO_headIns hk hi⟩)
  | elem e =>
    cases hi : r.op.insert
    · exact .inr (.inr (.inr (.inr ⟨e, rfl, rfl, placeInObj_elemUpd hk hi, placeInObjO_elemUpd hk hi⟩)))
    · exact .inr (.inr (.inr (.inl ⟨e, rfl, rfl, placeInObj_elemIns hk hi, placeInObjO_elemIns hk hi⟩)))

theorem placeInObj_map (r : Row) (s : Store) :
    (placeInObj r s).map (·.op) = placeInObjO r.op (s.map (·.op)) := by
  rcases placeInObj_cases r with ⟨k, _, h1, h2⟩ | ⟨_, _, h1, h2⟩ | ⟨_, _, h1, h2⟩ | ⟨e, _, _, h1, h2⟩ |
    ⟨e, _, _, h1, h2⟩ <;> rw [h1, h2]
  · exact mapPlace_map r s
  · exact skipGt_map r s
  · exact endOfObj_map r s
  · exact seekIns_map r _ s
  · exact seekUpd_map r _ s

/-- the placement only looks at the ops of the rows -/
theorem placeRow_map (r : Row) (s : Store) : (placeRow r s).map (·.op) = placeRowO r.op (s.map (·.op)) := by
  induction s with
  | nil => rfl
  | cons x xs ih =>
    simp only [placeRow, List.map_cons, placeRowO]
    split
    · simp [ih]
    · rw [placeInObj_map]; rfl

theorem placeRow_perm (r : Row) (s : Store) : (placeRow r s).Perm (r :: s) := by
  have hskipGt : ∀ s, (skipGt r s).Perm (r :: s) := by
    intro s
    induction s with
    | nil => exact List.Perm.refl _
    | cons x xs ih =>
      simp only [skipGt]
      split
      · exact List.Perm.refl _
      · split
        · exact List.Perm.refl _
        · exact (List.Perm.cons x ih).trans (List.Perm.swap r x xs)
  have hskipUpd : ∀ s, (skipUpd r s).Perm (r :: s) := by
    intro s
    induction s with
    | nil => exact List.Perm.refl _
    | cons x xs ih =>
      simp only [skipUpd]
      split
      · exact List.Perm.refl _
      · split
        · exact List.Perm.refl _
        · exact (List.Perm.cons x ih).trans (List.Perm.swap r x xs)
  have hmap : ∀ s, (mapPlace r s).Perm (r :: s) := by
    intro s
    induction s with
    | nil => exact List.Perm.refl _
    | cons x xs ih =>
      simp only [mapPlace]
      split
      · exact List.Perm.refl _
      · split
        · exact List.Perm.refl _
        · exact (List.Perm.cons x ih).trans (List.Perm.swap r x xs)
  have hend : ∀ s, (endOfObj r s).Perm (r :: s) := by
    intro s
    induction s with
    | nil => exact List.Perm.refl _
    | cons x xs ih =>
      simp only [endOfObj]
      split
      · exact List.Perm.refl _
      · exact (List.Perm.cons x ih).trans (List.Perm.swap r x xs)
  have hseekIns : ∀ e s, (seekIns r e s).Perm (r :: s) := by
    intro e s
    induction s with
    | nil => exact List.Perm.refl _
    | cons x xs ih =>
      simp only [seekIns]
      split
      · exact List.Perm.refl _
      · split
        · exact (List.Perm.cons x (hskipGt xs)).trans (List.Perm.swap r x xs)
        · exact (List.Perm.cons x ih).trans (List.Perm.swap r x xs)
  have hseekUpd : ∀ e s, (seekUpd r e s).Perm (r :: s) := by
    intro e s
    induction s with
    | nil => exact List.Perm.refl _
    | cons x xs ih =>
      simp only [seekUpd]
      split
      · exact List.Perm.refl _
      · split
        · exact (List.Perm.cons x (hskipUpd xs)).trans (List.Perm.swap r x xs)
        · exact (List.Perm.cons x ih).trans (List.Perm.swap r x xs)
  have hin : ∀ s, (placeInObj r s).Perm (r :: s) := by
    intro s
    rcases placeInObj_cases r with ⟨k, _, h1, _⟩ | ⟨_, _, h1, _⟩ | ⟨_, _, h1, _⟩ | ⟨e, _, _, h1, _⟩ |
      ⟨e, _, _, h1, _⟩ <;> rw [h1]
    · exact hmap s
    · exact hskipGt s
    · exact hend s
    · exact hseekIns e s
    · exact hseekUpd e s
  induction s with
  | nil => exact List.Perm.refl _
  | cons x xs ih =>
    simp only [placeRow]
    split
    · exact (List.Perm.cons x ih).trans (List.Perm.swap r x xs)
    · exact hin _

/-! ## §2 every placement stops at the end of the object -/

/-- the rows behind the object: nothing, or a row of another object first -/
def EndsObj (N : Op) (C : List Op) : Prop := ∀ y, C.head? = some y → y.obj ≠ N.obj

theorem place_nil_append {N : Op} {C : List Op} (hC : EndsObj N C) (f : List Op → List Op)
    (hnil : f [] = [N])
    (hcons : ∀ x xs, x.obj ≠ N.obj → f (x :: xs) = N :: x :: xs) : f C = [N] ++ C := by
  cases C with
  | nil => simpa using hnil
  | cons y ys => rw [hcons y ys (hC y rfl)]; rfl

theorem mapPlaceO_append {N : Op} (B : List Op) {C : List Op} (hC : EndsObj N C) :
    mapPlaceO N (B ++ C) = mapPlaceO N B ++ C := by
  induction B with
  | nil =>
    exact place_nil_append hC (mapPlaceO N) rfl (fun x xs h => by simp [mapPlaceO, h])
  | cons b B ih =>
    simp only [List.cons_append, mapPlaceO]
    split
    · rfl
    · split
      · rfl
      · rw [ih]; rfl

theorem skipGtO_append {N : Op} (B : List Op) {C : List Op} (hC : EndsObj N C) :
    skipGtO N (B ++ C) = skipGtO N B ++ C := by
  induction B with
  | nil =>
    exact place_nil_append hC (skipGtO N) rfl (fun x xs h => by simp [skipGtO, h])
  | cons b B ih =>
    simp only [List.cons_append, skipGtO]
    split
    · rfl
    · split
      · rfl
      · rw [ih]; rfl

theorem seekInsO_append {N : Op} (ref : OpId) (B : List Op) {C : List Op} (hC : EndsObj N C) :
    seekInsO N ref (B ++ C) = seekInsO N ref B ++ C := by
  induction B with
  | nil =>
    exact place_nil_append hC (seekInsO N ref) rfl (fun x xs h => by simp [seekInsO, h])
  | cons b B ih =>
    simp only [List.cons_append, seekInsO]
    split
    · rfl
    · split
      · rw [skipGtO_append B hC]; rfl
      · rw [ih]; rfl

theorem skipUpdO_append {N : Op} (B : List Op) {C : List Op} (hC : EndsObj N C) :
    skipUpdO N (B ++ C) = skipUpdO N B ++ C := by
  induction B with
  | nil =>
    exact place_nil_append hC (skipUpdO N) rfl (fun x xs h => by simp [skipUpdO, h])
  | cons b B ih =>
    simp only [List.cons_append, skipUpdO]
    split
    · rfl
    · split
      · rfl
      · rw [ih]; rfl

theorem seekUpdO_append {N : Op} (e : OpId) (B : List Op) {C : List Op} (hC : EndsObj N C) :
    seekUpdO N e (B ++ C) = seekUpdO N e B ++ C := by
  induction B with
  | nil =>
    exact place_nil_append hC (seekUpdO N e) rfl (fun x xs h => by simp [seekUpdO, h])
  | cons b B ih =>
    simp only [List.cons_append, seekUpdO]
    split
    · rfl
    · split
      · rw [skipUpdO_append B hC]; rfl
      · rw [ih]; rfl

theorem endOfObjO_append {N : Op} (B : List Op) {C : List Op} (hC : EndsObj N C) :
    endOfObjO N (B ++ C) = endOfObjO N B ++ C := by
  induction B with
  | nil =>
    exact place_nil_append hC (endOfObjO N) rfl (fun x xs h => by simp [endOfObjO, h])
  | cons b B ih =>
    simp only [List.cons_append, endOfObjO]
    split
    · rfl
    · rw [ih]; rfl

theorem placeInObjO_append {N : Op} (B : List Op) {C : List Op} (hC : EndsObj N C) :
    placeInObjO N (B ++ C) = placeInObjO N B ++ C := by
  rcases placeInObj_cases ⟨N, [], false, false, none⟩ with ⟨k, _, _, h2⟩ | ⟨_, _, _, h2⟩ | ⟨_, _, _, h2⟩ |
    ⟨e, _, _, _, h2⟩ | ⟨e, _, _, _, h2⟩ <;> simp only at h2 <;> rw [h2]
  · exact mapPlaceO_append B hC
  · exact skipGtO_append B hC
  · exact endOfObjO_append B hC
  · exact seekInsO_append _ B hC
  · exact seekUpdO_append _ B hC

theorem placeInObjO_nil (N : Op) : placeInObjO N [] = [N] := by
  rcases placeInObj_cases ⟨N, [], false, false, none⟩ with ⟨k, _, _, h2⟩ | ⟨_, _, _, h2⟩ | ⟨_, _, _, h2⟩ |
    ⟨e, _, _, _, h2⟩ | ⟨e, _, _, _, h2⟩ <;> simp only at h2 <;> rw [h2] <;> rfl

/-- the rows of the objects sorting before the op's object are passed over -/
theorem placeRowO_skip {N : Op} {A R : List Op} (hA : ∀ x ∈ A, x.obj.lt N.obj = true)
    (hR : ∀ y, R.head? = some y → y.obj.lt N.obj = false) :
    placeRowO N (A ++ R) = A ++ placeInObjO N R := by
  induction A with
  | nil =>
    cases R with
    | nil => simp [placeRowO, placeInObjO_nil]
    | cons y ys =>
      have := hR y rfl
      simp [placeRowO, this]
  | cons a A ih =>
    simp only [List.cons_append, placeRowO, hA a List.mem_cons_self, if_true]
    rw [ih (fun x hx => hA x (List.mem_cons_of_mem _ hx))]

/-! ## §3 each placement on a segment -/

theorem mapPlaceO_eq_insertKI {N : Op} {B : List Op} (hB : ∀ x ∈ B, x.obj = N.obj) :
    mapPlaceO N B = insertKI N B := by
  induction B with
  | nil => rfl
  | cons b B ih =>
    have hb := hB b List.mem_cons_self
    simp only [mapPlaceO, insertKI, hb, bne_self_eq_false, Bool.false_eq_true, if_false]
    rw [ih (fun x hx => hB x (List.mem_cons_of_mem _ hx))]

/-- non-insert rows of the object are passed over by the RGA skip -/
theorem skipGtO_updates {N : Op} {U : List Op} (R : List Op)
    (hU : ∀ u ∈ U, u.obj = N.obj ∧ u.insert = false) : skipGtO N (U ++ R) = U ++ skipGtO N R := by
  induction U with
  | nil => rfl
  | cons u U ih =>
    obtain ⟨h1, h2⟩ := hU u List.mem_cons_self
    simp only [List.cons_append, skipGtO, h1, bne_self_eq_false, Bool.false_eq_true, if_false, h2,
      Bool.false_and]
    rw [ih (fun x hx => hU x (List.mem_cons_of_mem _ hx))]

theorem seekInsO_updates {N : Op} (ref : OpId) {U : List Op} (R : List Op)
    (hU : ∀ u ∈ U, u.obj = N.obj ∧ u.insert = false) :
    seekInsO N ref (U ++ R) = U ++ seekInsO N ref R := by
  induction U with
  | nil => rfl
  | cons u U ih =>
    obtain ⟨h1, h2⟩ := hU u List.mem_cons_self
    simp only [List.cons_append, seekInsO, h1, bne_self_eq_false, Bool.false_eq_true, if_false, h2,
      Bool.false_and]
    rw [ih (fun x hx => hU x (List.mem_cons_of_mem _ hx))]

theorem seekUpdO_updates {N : Op} (e : OpId) {U : List Op} (R : List Op)
    (hU : ∀ u ∈ U, u.obj = N.obj ∧ u.insert = false) :
    seekUpdO N e (U ++ R) = U ++ seekUpdO N e R := by
  induction U with
  | nil => rfl
  | cons u U ih =>
    obtain ⟨h1, h2⟩ := hU u List.mem_cons_self
    simp only [List.cons_append, seekUpdO, h1, bne_self_eq_false, Bool.false_eq_true, if_false, h2,
      Bool.false_and]
    rw [ih (fun x hx => hU x (List.mem_cons_of_mem _ hx))]

/-- a sequence segment: every element is an insert op of the object, followed by non-insert ops of
    the object -/
structure Blocks (N : Op) (E : List Op) (U : Op → List Op) : Prop where
  elem : ∀ e ∈ E, e.obj = N.obj ∧ e.insert = true
  upd : ∀ e ∈ E, ∀ u ∈ U e, u.obj = N.obj ∧ u.insert = false

theorem Blocks.tail {N : Op} {e : Op} {E : List Op} {U : Op → List Op} (h : Blocks N (e :: E) U) :
    Blocks N E U :=
  ⟨fun x hx => h.elem x (List.mem_cons_of_mem _ hx), fun x hx => h.upd x (List.mem_cons_of_mem _ hx)⟩

/-- the RGA skip on the rows is the RGA skip on the elements -/
theorem skipGtO_blocks {N : Op} {E : List Op} {U U' : Op → List Op} (hb : Blocks N E U)
    (hU' : ∀ e ∈ E, U' e = U e) (hN : U' N = []) :
    skipGtO N (E.flatMap (fun e => e :: U e)) = (skipGtL N E).flatMap (fun e => e :: U' e) := by
  induction E with
  | nil => simp [skipGtO, skipGtL, hN]
  | cons e E ih =>
    obtain ⟨h1, h2⟩ := hb.elem e List.mem_cons_self
    have hrest : E.flatMap (fun e => e :: U' e) = E.flatMap (fun e => e :: U e) :=
      flatMap_congr' (fun a ha => by rw [hU' a (List.mem_cons_of_mem _ ha)])
    simp only [List.flatMap_cons, List.cons_append, skipGtO, h1, bne_self_eq_false, Bool.false_eq_true,
      if_false, h2, Bool.true_and, skipGtL]
    split
    · simp only [List.flatMap_cons, hN, hU' e List.mem_cons_self, hrest, List.cons_append,
        List.nil_append]
    · rw [skipGtO_updates _ (hb.upd e List.mem_cons_self),
        ih hb.tail (fun a ha => hU' a (List.mem_cons_of_mem _ ha))]
      simp only [List.flatMap_cons, hU' e List.mem_cons_self, List.cons_append]

/-- finding the reference element on the rows is finding it among the elements -/
theorem seekInsO_blocks {N : Op} {ref : OpId} {E : List Op} {U U' : Op → List Op} (hb : Blocks N E U)
    (hk : N.key = .elem ref) (hU' : ∀ e ∈ E, U' e = U e) (hN : U' N = [])
    (hin : ∃ c ∈ E, c.id = ref) :
    seekInsO N ref (E.flatMap (fun e => e :: U e)) = (insSkip N E).flatMap (fun e => e :: U' e) := by
  induction E with
  | nil => obtain ⟨c, hc, _⟩ := hin; cases hc
  | cons e E ih =>
    obtain ⟨h1, h2⟩ := hb.elem e List.mem_cons_self
    simp only [List.flatMap_cons, List.cons_append, seekInsO, h1, bne_self_eq_false, Bool.false_eq_true,
      if_false, h2, Bool.true_and, insSkip, hk, Key.elem.injEq]
    by_cases he : e.id = ref
    · simp only [he, beq_self_eq_true, if_true, List.flatMap_cons, List.cons_append]
      rw [skipGtO_updates _ (hb.upd e List.mem_cons_self),
        skipGtO_blocks hb.tail (fun a ha => hU' a (List.mem_cons_of_mem _ ha)) hN,
        hU' e List.mem_cons_self]
    · have hne : (e.id == ref) = false := by simpa using he
      simp only [hne, Bool.false_eq_true, if_false, he, List.flatMap_cons, List.cons_append]
      obtain ⟨c, hc, hcid⟩ := hin
      have hc' : c ∈ E := by
        rcases List.mem_cons.mp hc with rfl | hc
        · exact absurd hcid he
        · exact hc
      rw [seekInsO_updates _ _ (hb.upd e List.mem_cons_self),
        ih hb.tail (fun a ha => hU' a (List.mem_cons_of_mem _ ha)) ⟨c, hc', hcid⟩,
        hU' e List.mem_cons_self]

/-- behind the updates with a smaller id: sorted insertion into the element's updates -/
theorem skipUpdO_sorted {N : Op} {U R : List Op} (hU : ∀ u ∈ U, u.obj = N.obj ∧ u.insert = false)
    (hR : ∀ y, R.head? = some y → y.obj = N.obj → y.insert = true) :
    skipUpdO N (U ++ R) = insertById N U ++ R := by
  induction U with
  | nil =>
    cases R with
    | nil => rfl
    | cons y ys =>
      simp only [List.nil_append, skipUpdO, insertById]
      by_cases ho : y.obj = N.obj
      · simp [ho, hR y rfl ho]
      · simp [ho]
  | cons u U ih =>
    obtain ⟨h1, h2⟩ := hU u List.mem_cons_self
    simp only [List.cons_append, skipUpdO, h1, bne_self_eq_false, Bool.false_eq_true, if_false, h2,
      Bool.false_or, insertById]
    split
    · rfl
    · rw [ih (fun x hx => hU x (List.mem_cons_of_mem _ hx))]; rfl

/-- an update lands in the block of its element -/
theorem seekUpdO_blocks {N : Op} {e : OpId} {E : List Op} {U : Op → List Op} (hb : Blocks N E U)
    (hnd : (E.map (·.id)).Nodup) (hin : ∃ c ∈ E, c.id = e) :
    seekUpdO N e (E.flatMap (fun c => c :: U c)) =
      E.flatMap (fun c => c :: (if c.id = e then insertById N (U c) else U c)) := by
  induction E with
  | nil => obtain ⟨c, hc, _⟩ := hin; cases hc
  | cons c E ih =>
    obtain ⟨h1, h2⟩ := hb.elem c List.mem_cons_self
    rw [List.map_cons, List.nodup_cons] at hnd
    simp only [List.flatMap_cons, List.cons_append, seekUpdO, h1, bne_self_eq_false, Bool.false_eq_true,
      if_false, h2, Bool.true_and]
    by_cases he : c.id = e
    · simp only [he, beq_self_eq_true, if_true]
      have hrest : E.flatMap (fun c => c :: (if c.id = e then insertById N (U c) else U c)) =
          E.flatMap (fun c => c :: U c) := by
        apply flatMap_congr'
        intro a ha
        have : a.id ≠ e := by
          intro hae
          exact hnd.1 (List.mem_map.mpr ⟨a, ha, hae.trans he.symm⟩)
        rw [if_neg this]
      rw [hrest, skipUpdO_sorted (hb.upd c List.mem_cons_self)]
      intro y hy _
      cases E with
      | nil => simp at hy
      | cons c₂ E₂ =>
        simp only [List.flatMap_cons, List.cons_append, List.head?_cons, Option.some.injEq] at hy
        subst hy
        exact (hb.elem _ (List.mem_cons_of_mem _ List.mem_cons_self)).2
    · have hne : (c.id == e) = false := by simpa using he
      simp only [hne, Bool.false_eq_true, if_false, he]
      obtain ⟨c', hc', hcid⟩ := hin
      have hc'' : c' ∈ E := by
        rcases List.mem_cons.mp hc' with rfl | hc'
        · exact absurd hcid he
        · exact hc'
      rw [seekUpdO_updates _ _ (hb.upd c List.mem_cons_self), ih hb.tail hnd.2 ⟨c', hc'', hcid⟩]

end AmVerif.Crdt
