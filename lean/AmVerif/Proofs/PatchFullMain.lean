import AmVerif.Proofs.PatchFullChg
/-
  C09, full register statement, part 3: `regPatch` on the state after ANY document operations and
  ANY incoming operations gives the register's entry after the batch.
-/
namespace AmVerif.Crdt
open AmVerif

theorem bumpAll_counter (cs : List ChgOp) (id : OpId) : ∀ (k : Int),
    ∃ k', bumpAll cs id (.scalar (.counter k)) = .scalar (.counter k') := by
  induction cs with
  | nil => intro k; exact ⟨k, rfl⟩
  | cons x cs ih =>
    intro k
    cases x with
    | value i w => exact ih k
    | inc p n =>
      have : bumpAll (.inc p n :: cs) id (.scalar (.counter k)) =
          bumpAll cs id (if p.contains id then .scalar (.counter (k + n)) else .scalar (.counter k)) := rfl
      rw [this]
      split
      · exact ih (k + n)
      · exact ih k

theorem regPatch_sound_aux (ds : List DocOp) (cs : List ChgOp) (D0 : Option OpValue)
    (st : Option OpValue × Option OpValue) (hD : DocInv ds D0) (hG : G D0 cs [] st) :
    applyEvent (docEntryBefore ds) (regPatch st.1 st.2) = .ok (regEntryAfter ds cs) := by
  cases hG with
  | m0 hV hB =>
    cases D0 with
    | none =>
      have : ds = [] := hD
      subst this
      simp [regPatch, applyEvent, docEntryBefore, regEntryAfter, survivors, hV]
    | some d =>
      cases hdd : d.deleted with
      | true =>
        have h' : survivors ds = [] ∧ ds ≠ [] ∧ d.conflict = false ∧ d.expose = false := by
          simpa [DocInv, hdd] using hD
        simp [regPatch, applyEvent, regEntryAfter, hV, h'.1, h'.2.2.2, hdd]
      | false =>
        have h' : (survivors ds).getLast? = some ⟨d.id, d.val, false⟩
            ∧ d.conflict = decide ((survivors ds).length > 1)
            ∧ (d.expose = false → docEntryBefore ds = some (d.conflict, d.val)) := by
          simpa [DocInv, hdd] using hD
        have hb := hB d rfl hdd
        cases hde : d.expose with
        | true =>
          simp [regPatch, applyEvent, regEntryAfter, hV, List.getLast?_map, h'.1, hde, hb, h'.2.1]
        | false =>
          simp [regPatch, applyEvent, regEntryAfter, hV, List.getLast?_map, h'.1, hde, hdd, hb,
            h'.2.2 hde]
          exact h'.2.1
  | m1 d0 k hD0 hdd hval hV hR =>
    cases hD0
    have h' : (survivors ds).getLast? = some ⟨d0.id, d0.val, false⟩
        ∧ d0.conflict = decide ((survivors ds).length > 1)
        ∧ (d0.expose = false → docEntryBefore ds = some (d0.conflict, d0.val)) := by
      simpa [DocInv, hdd] using hD
    obtain ⟨k', hk'⟩ := bumpAll_counter cs d0.id k
    cases hde : d0.expose with
    | true =>
      simp [regPatch, applyEvent, regEntryAfter, hV, List.getLast?_map, h'.1, hde, hdd,
        OpId.lt_irrefl, h'.2.1]
    | false =>
      have hbef := h'.2.2 hde
      by_cases hn : k' - k = 0
      · have : k' = k := by omega
        subst this
        simp [regPatch, applyEvent, regEntryAfter, hV, List.getLast?_map, h'.1, hde, hdd,
          OpId.lt_irrefl, hval, hk', PVal.asI64, hbef, h'.2.1]
      · simp [regPatch, applyEvent, regEntryAfter, hV, List.getLast?_map, h'.1, hde, hdd,
          OpId.lt_irrefl, hval, hk', PVal.asI64, hbef, hn, h'.2.1]
        try omega
  | dead c hDead hL hcd hcc =>
    cases D0 with
    | none =>
      have : ds = [] := hD
      subst this
      simp [regPatch, applyEvent, regEntryAfter, survivors, hL, hcc]
    | some d =>
      have hdd := hDead d rfl
      have h' : survivors ds = [] ∧ ds ≠ [] ∧ d.conflict = false ∧ d.expose = false := by
        simpa [DocInv, hdd] using hD
      simp [regPatch, applyEvent, regEntryAfter, hL, hcc, h'.1, hdd, h'.2.2.1]
  | good d0 c e hD0 hdd hL hcd hlt hE =>
    cases hD0
    have h' : (survivors ds).getLast? = some ⟨d0.id, d0.val, false⟩
        ∧ d0.conflict = decide ((survivors ds).length > 1)
        ∧ (d0.expose = false → docEntryBefore ds = some (d0.conflict, d0.val)) := by
      simpa [DocInv, hdd] using hD
    have hS := getLast?_ne_nil h'.1
    have hVl := getLast?_ne_nil hL
    have hcf : decide ((survivors ds).length + (valuesAfter cs).length > 1) = true := by
      simp; omega
    cases hlt1 : d0.id.lt c.id with
    | true =>
      simp [regPatch, applyEvent, regEntryAfter, List.getLast?_map, h'.1, hL, hdd, hlt1, hcf]
    | false =>
      have hlt2 : c.id.lt d0.id = true := by
        rcases hlt with h | h
        · rw [hlt1] at h; cases h
        · exact h
      cases he : e with
      | true =>
        simp [regPatch, applyEvent, regEntryAfter, List.getLast?_map, h'.1, hL, hdd, hlt1, hlt2, hcf]
      | false =>
        have hE' := hE he
        have hbef := h'.2.2 hE'.1
        cases hdc : d0.conflict <;>
          simp [regPatch, applyEvent, regEntryAfter, List.getLast?_map, h'.1, hL, hdd, hlt1, hlt2,
            hcf, hE'.2, hbef, hdc]
  | cloned d0 c dv de hD0 hdd hL hcd hlt hR =>
    cases hD0
    have h' : (survivors ds).getLast? = some ⟨d0.id, d0.val, false⟩
        ∧ d0.conflict = decide ((survivors ds).length > 1)
        ∧ (d0.expose = false → docEntryBefore ds = some (d0.conflict, d0.val)) := by
      simpa [DocInv, hdd] using hD
    have hS := getLast?_ne_nil h'.1
    have hVl := getLast?_ne_nil hL
    have hcf : decide ((survivors ds).length + (valuesAfter cs).length > 1) = true := by
      simp; omega
    simp [regPatch, applyEvent, regEntryAfter, List.getLast?_map, h'.1, hL, hdd, hlt, hcf]

theorem regPatch_sound (ds : List DocOp) (cs : List ChgOp) (hok : chgOK (foldDoc ds) cs) :
    applyEvent (docEntryBefore ds)
        (regPatch (foldChange (foldDoc ds) cs).1 (foldChange (foldDoc ds) cs).2) =
      .ok (regEntryAfter ds cs) :=
  regPatch_sound_aux ds cs (foldDoc ds) _ (DocInv_foldDoc ds) (G_foldChange (foldDoc ds) cs hok)

end AmVerif.Crdt
