import AmVerif.Proofs.SyncInv
/-
  Read-only sync (C22): helper lemmas.
-/
namespace AmVerif.Sync
open AmVerif

theorem recvFlags_readOnly' (s : State) (f : Option Nat) : (recvFlags s f).readOnly = s.readOnly := by
  unfold recvFlags; split <;> rfl

theorem receive_doc_readOnly (d : Doc) (s : State) (m : Message) (h : s.readOnly = true) :
    (receive d s m).1 = d := by
  unfold receive recvDoc
  simp only [recvFlags_readOnly', h, Bool.not_true, Bool.and_false]
  rfl

theorem recvShared_readOnly (d' : Doc) (s : State) (m : Message) :
    (recvShared d' s m).readOnly = s.readOnly := by
  unfold recvShared
  simp only
  split
  · split <;> rfl
  · rfl

theorem receive_state_readOnly (d : Doc) (s : State) (m : Message) :
    (receive d s m).2.readOnly = s.readOnly := by
  unfold receive recvState
  simp only [recvShared_readOnly]
  split <;> split <;> simp [recvFlags_readOnly']

theorem receiveAll_doc_readOnly : ∀ (ms : List Message) (d : Doc) (s : State),
    s.readOnly = true → (receiveAll d s ms).1 = d ∧ (receiveAll d s ms).2.readOnly = true
  | [], _, _, h => ⟨rfl, h⟩
  | m :: ms, d, s, h => by
    unfold receiveAll
    rw [receive_doc_readOnly d s m h]
    exact receiveAll_doc_readOnly ms d _ (by rw [receive_state_readOnly]; exact h)

/-- what is offered to the peer does not depend on our own read-only flag -/
theorem mkBuilder_readOnly (fp : Hash → Bool) (d : Doc) (s : State) (b : Bool) :
    mkBuilder fp d { s with readOnly := b } = mkBuilder fp d s := rfl

/-- a peer with something to offer and no message in flight does send it, read-only or not -/
theorem generate_serves (fp : Hash → Bool) (d : Doc) (s : State)
    (hreset : resetCond d s = false) (hflight : s.inFlight = false)
    (hne : (mkBuilder fp d s).hashes ≠ []) :
    ∃ m, (generate fp d s).2 = some m ∧ m.changes = (mkBuilder fp d s).changes ∧
      m.chunks = (mkBuilder fp d s).chunks ∧
      m.flags = some (outFlags s) := by
  have hq : quiet d s (mkBuilder fp d s) = false := by
    unfold quiet
    have : (mkBuilder fp d s).hashes.isEmpty = false := by
      cases h : (mkBuilder fp d s).hashes with
      | nil => exact absurd h hne
      | cons _ _ => rfl
    simp [this, hflight]
  rcases generate_cases fp d s with ⟨h1, _⟩ | ⟨_, h2, _⟩ | ⟨_, _, hg⟩
  · rw [hreset] at h1; cases h1
  · rw [hq] at h2; cases h2
  · exact ⟨_, by rw [hg], rfl, rfl, rfl⟩

theorem outFlags_readOnly (s : State) : flagSet (outFlags s) FLAG_READ_ONLY = s.readOnly := by
  unfold outFlags flagSet FLAG_READ_ONLY FLAG_SUPPORTS_SYNC_RESET FLAG_SYNC_RESET
  cases s.readOnly <;> cases (s.needsReset && s.peerSupportsSyncReset) <;> decide

theorem outFlags_syncReset (s : State) :
    flagSet (outFlags s) FLAG_SYNC_RESET = (s.needsReset && s.peerSupportsSyncReset) := by
  unfold outFlags flagSet FLAG_READ_ONLY FLAG_SUPPORTS_SYNC_RESET FLAG_SYNC_RESET
  cases s.readOnly <;> cases (s.needsReset && s.peerSupportsSyncReset) <;> decide

/-- the `peer_read_only` shortcut: nothing is offered to a peer that said it is read-only -/
theorem mkBuilder_peerReadOnly (fp : Hash → Bool) (d : Doc) (s : State) (h : s.peerReadOnly = true) :
    (mkBuilder fp d s).hashes = [] ∧ (mkBuilder fp d s).changes = [] ∧ (mkBuilder fp d s).chunks = 0 := by
  unfold mkBuilder
  simp only [h, if_true]
  unfold Builder.ofChanges
  split <;> simp

theorem generate_to_readOnly_peer (fp : Hash → Bool) (d : Doc) (s : State) (m : Message)
    (h : s.peerReadOnly = true) (hg : (generate fp d s).2 = some m) :
    m.changes = [] ∧ m.chunks = 0 := by
  rcases generate_cases fp d s with ⟨_, hr⟩ | ⟨_, _, hn⟩ | ⟨_, _, hs⟩
  · rw [hr] at hg; cases hg; exact ⟨rfl, rfl⟩
  · rw [hn] at hg; cases hg
  · rw [hs] at hg; cases hg
    exact ⟨(mkBuilder_peerReadOnly fp d s h).2.1, (mkBuilder_peerReadOnly fp d s h).2.2⟩

/-- the receiver records the READ_ONLY flag of the latest message -/
theorem receive_peerReadOnly (d : Doc) (s : State) (m : Message) (f : Nat) (hf : m.flags = some f) :
    (receive d s m).2.peerReadOnly = flagSet f FLAG_READ_ONLY := by
  unfold receive recvState
  simp only [hf]
  unfold recvShared
  simp only
  split <;> split <;> split <;> (try split) <;> simp [recvFlags]

/-- switching back to read-write: a brand-new state that remembers the peer's capabilities and
    asks for a reset -/
theorem setReadOnly_false (s : State) (h : s.readOnly = true) :
    s.setReadOnly false = { theirCaps := s.theirCaps, readOnly := false, needsReset := true } := by
  unfold State.setReadOnly
  simp [h]

/-- the message after switching back carries SYNC_RESET for peers that understand it and empty
    heads for those that do not -/
theorem generate_after_switch_back (fp : Hash → Bool) (d : Doc) (s : State) (h : s.readOnly = true) :
    ∃ m, (generate fp d (s.setReadOnly false)).2 = some m ∧
      (s.peerSupportsSyncReset = true → m.flags = some (FLAG_SUPPORTS_SYNC_RESET ||| 0 ||| FLAG_SYNC_RESET) ∧ m.heads = d.heads) ∧
      (s.peerSupportsSyncReset = false → m.heads = []) := by
  rw [setReadOnly_false s h]
  generalize hs' : ({ theirCaps := s.theirCaps, readOnly := false, needsReset := true } : State) = s'
  have hcap : s'.peerSupportsSyncReset = s.peerSupportsSyncReset := by rw [← hs']; rfl
  have hnr : s'.needsReset = true := by rw [← hs']
  have hro : s'.readOnly = false := by rw [← hs']
  have hresp : s'.haveResponded = false := by rw [← hs']
  have hth : s'.theirHave = none := by rw [← hs']
  have hreset : resetCond d s' = false := by unfold resetCond; rw [hth]
  have hq : quiet d s' (mkBuilder fp d s') = false := by unfold quiet; simp [hresp]
  rcases generate_cases fp d s' with ⟨h1, _⟩ | ⟨_, h2, _⟩ | ⟨_, _, hg⟩
  · rw [hreset] at h1; cases h1
  · rw [hq] at h2; cases h2
  · refine ⟨_, by rw [hg], ?_, ?_⟩
    · intro hsup
      simp [mkMessage, outFlags, headsToSend, hnr, hro, hcap, hsup]
    · intro hsup
      simp [mkMessage, headsToSend, hnr, hcap, hsup]

theorem recvShared_sent_sub (d' : Doc) (s : State) (m : Message) :
    ∀ h ∈ (recvShared d' s m).sentHashes, h ∈ s.sentHashes :=
  (by
    unfold recvShared
    simp only
    split
    · split <;> simp
    · simp)

/-- a SYNC_RESET message makes the receiver forget what it has sent -/
theorem receive_syncReset_clears (d : Doc) (s : State) (m : Message) (f : Nat)
    (hf : m.flags = some f) (hr : flagSet f FLAG_SYNC_RESET = true) :
    (receive d s m).2.sentHashes = [] := by
  have key : ∀ h, h ∉ (receive d s m).2.sentHashes := by
    intro h hh
    unfold receive recvState at hh
    simp only at hh
    have h1 := recvShared_sent_sub _ _ _ h hh
    have hfl : (recvFlags { s with inFlight := false } m.flags).sentHashes = [] := by
      rw [hf]; simp [recvFlags, hr]
    split at h1 <;> (simp only [Doc.filterChanges] at h1; split at h1 <;> simp [hfl] at h1)
  cases hl : (receive d s m).2.sentHashes with
  | nil => rfl
  | cons a _ => exact absurd (by rw [hl]; simp) (key a)

/-- so does a message with empty heads (the emulation for peers without SYNC_RESET) -/
theorem receive_emptyHeads_clears (d : Doc) (s : State) (m : Message) (hh : m.heads = []) :
    (receive d s m).2.sentHashes = [] ∧ (receive d s m).2.lastSentHeads = [] := by
  unfold receive recvState recvShared
  simp [hh]

end AmVerif.Sync
