import AmVerif.Proofs.SyncApply
/-
  The safety invariant of the two-peer system (C20) and its preservation by every step.
-/
namespace AmVerif.Sync
open AmVerif

/-- what holds of a message in flight from the peer with document `dS` to the peer with `dR` -/
structure MsgOk (dS dR : Doc) (m : Message) : Prop where
  /-- the changes carried are applied at the sender — or they are orphans from the sender's
      queue, shipped by `save()` in a whole-document message, which came from the receiver -/
  changes : ∀ x ∈ m.changes, x ∈ dS.applied ∨ x ∈ dR.applied
  heads : ∀ h ∈ m.heads, h ∈ dS.hashes
  lastSync : ∀ hv ∈ m.have_, ∀ h ∈ hv.lastSync, h ∈ dS.hashes ∧ h ∈ dR.hashes

/-- heads carried by the newest message A has sent: the last one queued, or, when the link is
    empty, the one B consumed last (recorded in B's `their_heads`) -/
def lastHeads (l : List Message) (th : Option (List Hash)) : Option (List Hash) :=
  match l.getLast? with
  | some m => some m.heads
  | none => th

/-- the A-side half of the invariant (the B-side half is the same statement about `c.swap`) -/
structure Half (c : Cfg) : Prop where
  wf : DocWF c.docA
  queue : ∀ x ∈ c.docA.queue, x ∈ c.docB.applied
  msgs : ∀ m ∈ c.linkAB, MsgOk c.docA c.docB m
  shared : ∀ h ∈ c.stA.sharedHeads, h ∈ c.docA.hashes ∧ h ∈ c.docB.hashes
  sent : ∀ h ∈ c.stA.sentHashes, h ∈ c.docA.hashes
  theirHeads : ∀ H, c.stA.theirHeads = some H → ∀ h ∈ H, h ∈ c.docB.hashes
  theirHave : ∀ hs, c.stA.theirHave = some hs →
    ∀ hv ∈ hs, ∀ h ∈ hv.lastSync, h ∈ c.docA.hashes ∧ h ∈ c.docB.hashes
  rw : c.stA.readOnly = false ∧ c.stA.needsReset = false
  /-- both peers waiting for an acknowledgement implies a message is on its way -/
  flight : c.stA.inFlight = true → c.linkAB ≠ [] ∨ c.stB.inFlight = false ∨ c.linkBA ≠ []
  /-- while A waits for an acknowledgement, `last_sent_heads` is what its newest message says -/
  lastSent : c.stA.inFlight = true → some c.stA.lastSentHeads = lastHeads c.linkAB c.stB.theirHeads

structure Inv (c : Cfg) : Prop where
  a : Half c
  b : Half c.swap
  agree : ∀ x ∈ c.docA.applied, ∀ y ∈ c.docB.applied, x.hash = y.hash → x = y

theorem Inv.swap {c : Cfg} (h : Inv c) : Inv c.swap :=
  ⟨h.b, h.a, fun x hx y hy hxy => (h.agree y hy x hx hxy.symm).symm⟩

theorem hashes_mono {d d' : Doc} (h : ∀ x ∈ d.applied, x ∈ d'.applied) {x : Hash}
    (hx : x ∈ d.hashes) : x ∈ d'.hashes := by
  obtain ⟨c, hc, rfl⟩ := Doc.mem_hashes.mp hx
  exact Doc.mem_hashes.mpr ⟨c, h c hc, rfl⟩

theorem MsgOk.mono {dS dR dS' dR' : Doc} {m : Message}
    (hS : ∀ x ∈ dS.applied, x ∈ dS'.applied) (hR : ∀ x ∈ dR.applied, x ∈ dR'.applied)
    (h : MsgOk dS dR m) : MsgOk dS' dR' m :=
  ⟨fun x hx => (h.changes x hx).imp (hS x) (hR x),
   fun x hx => hashes_mono hS (h.heads x hx),
   fun hv hhv x hx => ⟨hashes_mono hS (h.lastSync hv hhv x hx).1, hashes_mono hR (h.lastSync hv hhv x hx).2⟩⟩

/-! ### initial configurations -/

theorem Inv.of_initial {c : Cfg} (h : Initial c) : Inv c := by
  refine ⟨⟨h.wfA, ?_, ?_, ?_, ?_, ?_, ?_, ?_, ?_, ?_⟩, ⟨h.wfB, ?_, ?_, ?_, ?_, ?_, ?_, ?_, ?_, ?_⟩, h.agree⟩ <;>
    simp [Cfg.swap, h.queueA, h.queueB, h.stA, h.stB, h.linkAB, h.linkBA, State.new]

/-! ### local edit -/

theorem Inv.edit {c : Cfg} {ch : Change} (inv : Inv c) (hdeps : ch.deps = c.docA.heads)
    (hA : ch.hash ∉ c.docA.hashes) (hB : ch.hash ∉ c.docB.hashes) : Inv (c.editA ch) := by
  have sub : ∀ x ∈ c.docA.applied, x ∈ (c.docA.applyLocal ch).applied :=
    fun x hx => List.mem_cons_of_mem _ hx
  have subH : ∀ x ∈ c.docA.hashes, x ∈ (c.docA.applyLocal ch).hashes := fun x hx => hashes_mono sub hx
  refine ⟨⟨?_, inv.a.queue, ?_, ?_, ?_, inv.a.theirHeads, ?_, inv.a.rw, inv.a.flight, inv.a.lastSent⟩,
          ⟨inv.b.wf, ?_, ?_, ?_, inv.b.sent, ?_, ?_, inv.b.rw, inv.b.flight, inv.b.lastSent⟩, ?_⟩
  · refine ⟨⟨?_, hA, inv.a.wf.topo⟩, inv.a.wf.qnodup, ?_⟩
    · intro h hh; rw [hdeps] at hh; exact Doc.heads_sub_hashes hh
    · intro q hq hmem
      simp only [Doc.hashes, Cfg.editA, Doc.applyLocal, List.map_cons, List.mem_cons] at hmem
      rcases hmem with heq | hmem
      · apply hB; rw [← heq]; exact Doc.mem_hashes.mpr ⟨q, inv.a.queue q hq, rfl⟩
      · exact inv.a.wf.qfresh q hq hmem
  · intro m hm; exact (inv.a.msgs m hm).mono sub (fun _ h => h)
  · intro h hh; exact ⟨subH _ (inv.a.shared h hh).1, (inv.a.shared h hh).2⟩
  · intro h hh; exact subH _ (inv.a.sent h hh)
  · intro hs hhs hv hhv h hh
    exact ⟨subH _ (inv.a.theirHave hs hhs hv hhv h hh).1, (inv.a.theirHave hs hhs hv hhv h hh).2⟩
  · intro x hx; exact sub x (inv.b.queue x hx)
  · intro m hm; exact (inv.b.msgs m hm).mono (fun _ h => h) sub
  · intro h hh; exact ⟨(inv.b.shared h hh).1, subH _ (inv.b.shared h hh).2⟩
  · intro H hH h hh; exact subH _ (inv.b.theirHeads H hH h hh)
  · intro hs hhs hv hhv h hh
    exact ⟨(inv.b.theirHave hs hhs hv hhv h hh).1, subH _ (inv.b.theirHave hs hhs hv hhv h hh).2⟩
  · intro x hx y hy hxy
    simp only [Cfg.editA, Doc.applyLocal, List.mem_cons] at hx
    rcases hx with rfl | hx
    · exfalso; apply hB; rw [hxy]; exact Doc.mem_hashes.mpr ⟨y, hy, rfl⟩
    · exact inv.agree x hx y hy hxy

/-! ### generate -/

theorem generate_cases (fp : Hash → Bool) (d : Doc) (s : State) :
    (resetCond d s = true ∧ generate fp d s = (s, some (Message.reset d.heads))) ∨
    (resetCond d s = false ∧ quiet d s (mkBuilder fp d s) = true ∧ generate fp d s = (s, none)) ∨
    (resetCond d s = false ∧ quiet d s (mkBuilder fp d s) = false ∧
      generate fp d s = (sentState d s (mkBuilder fp d s), some (mkMessage d s (mkBuilder fp d s)))) := by
  unfold generate
  cases h1 : resetCond d s with
  | true => left; simp
  | false =>
    right
    cases h2 : quiet d s (mkBuilder fp d s) with
    | true => left; simp [h2]
    | false => right; simp [h2]

theorem resetCond_false_of {d : Doc} {s : State}
    (h : ∀ hs, s.theirHave = some hs → ∀ hv ∈ hs, ∀ x ∈ hv.lastSync, x ∈ d.hashes) :
    resetCond d s = false := by
  unfold resetCond
  split
  · rename_i hv rest heq
    have : hv.lastSync.all d.hasChange = true := by
      rw [List.all_eq_true]
      intro x hx
      exact Doc.hasChange_iff.mpr (h _ heq hv (by simp) x hx)
    simp [this]
  · rfl

theorem builder_ofChanges_hashes {cs : List Change} {s : State} :
    (Builder.ofChanges cs s).hashes = cs.map (·.hash) ∧ (Builder.ofChanges cs s).changes = cs := by
  unfold Builder.ofChanges; split <;> simp

/-- everything a builder names is in the change graph; everything it carries is applied or queued -/
theorem mkBuilder_spec (fp : Hash → Bool) (d : Doc) (s : State) :
    (∀ h ∈ (mkBuilder fp d s).hashes, h ∈ d.hashes) ∧
    (∀ x ∈ (mkBuilder fp d s).changes, x ∈ d.applied ∨ x ∈ d.queue) := by
  have hdoc : (∀ h ∈ (Builder.ofDoc d).hashes, h ∈ d.hashes) ∧
      (∀ x ∈ (Builder.ofDoc d).changes, x ∈ d.applied ∨ x ∈ d.queue) := by
    simp only [Builder.ofDoc]
    refine ⟨fun h hh => by simpa using hh, fun x hx => ?_⟩
    rcases List.mem_append.mp hx with h | h
    · left; simpa using h
    · right; exact h
  have hnil : (∀ h ∈ (Builder.ofChanges [] s).hashes, h ∈ d.hashes) ∧
      (∀ x ∈ (Builder.ofChanges [] s).changes, x ∈ d.applied ∨ x ∈ d.queue) := by
    rw [builder_ofChanges_hashes.1, builder_ofChanges_hashes.2]; simp
  unfold mkBuilder
  split
  · exact hnil
  · split
    · split
      · exact hdoc
      · simp only
        split
        · exact hdoc
        · rw [builder_ofChanges_hashes.1, builder_ofChanges_hashes.2]
          refine ⟨fun h hh => ?_, fun x hx => Or.inl (Doc.mem_changesFor hx)⟩
          obtain ⟨x, hx, rfl⟩ := List.mem_map.mp hh
          exact Doc.mem_hashes.mpr ⟨x, Doc.mem_changesFor hx, rfl⟩
    · exact hnil

theorem getLast?_append_singleton {α : Type} (l : List α) (x : α) : (l ++ [x]).getLast? = some x := by
  simp

/-- what `quiet = true` says when the state is read-write -/
theorem quiet_spec {d : Doc} {s : State} {b : Builder} (hq : quiet d s b = true)
    (hro : s.readOnly = false) :
    s.lastSentHeads = d.heads ∧ (s.theirHeads = some d.heads ∨ s.inFlight = true) := by
  unfold quiet at hq
  simp only [hro, Bool.or_false, Bool.and_eq_true, Bool.or_eq_true, beq_iff_eq] at hq
  refine ⟨hq.1.1, ?_⟩
  rcases hq.2 with h | h
  · left; exact h.1
  · right; exact h

theorem Inv.gen (fp : Hash → Bool) {c : Cfg} (inv : Inv c) : Inv (c.genA fp) := by
  have hreset : resetCond c.docA c.stA = false :=
    resetCond_false_of (fun hs hhs hv hhv x hx => (inv.a.theirHave hs hhs hv hhv x hx).1)
  rcases generate_cases fp c.docA c.stA with ⟨h1, _⟩ | ⟨_, _, hg⟩ | ⟨_, _, hg⟩
  · rw [hreset] at h1; cases h1
  · -- nothing to send: the configuration is unchanged
    have : c.genA fp = c := by
      unfold Cfg.genA; simp only [hg]
    rw [this]; exact inv
  · -- a message is built and appended
    obtain ⟨bh, bc⟩ := mkBuilder_spec fp c.docA c.stA
    generalize hb : mkBuilder fp c.docA c.stA = b at hg bh bc
    have hc' : c.genA fp = { c with stA := sentState c.docA c.stA b,
                                    linkAB := c.linkAB ++ [mkMessage c.docA c.stA b] } := by
      unfold Cfg.genA; simp only [hg]
    rw [hc']
    have hnr : c.stA.needsReset = false := inv.a.rw.2
    have hmsg : MsgOk c.docA c.docB (mkMessage c.docA c.stA b) := by
      refine ⟨?_, ?_, ?_⟩
      · intro x hx
        rcases bc x hx with h | h
        · left; exact h
        · right; exact inv.a.queue x h
      · intro h hh
        simp only [mkMessage, headsToSend, hnr, Bool.false_and] at hh
        exact Doc.heads_sub_hashes (by simpa using hh)
      · intro hv hhv h hh
        simp only [mkMessage, ourHave] at hhv
        split at hhv
        · simp only [List.mem_singleton] at hhv
          subst hhv
          exact inv.a.shared h hh
        · cases hhv
    refine ⟨⟨inv.a.wf, inv.a.queue, ?_, inv.a.shared, ?_, inv.a.theirHeads, inv.a.theirHave,
             ⟨inv.a.rw.1, rfl⟩, ?_, ?_⟩,
            ⟨inv.b.wf, inv.b.queue, inv.b.msgs, inv.b.shared, inv.b.sent, inv.b.theirHeads,
             inv.b.theirHave, inv.b.rw, ?_, inv.b.lastSent⟩, inv.agree⟩
    · intro m hm
      rcases List.mem_append.mp hm with h | h
      · exact inv.a.msgs m h
      · simp only [List.mem_singleton] at h; subst h; exact hmsg
    · intro h hh
      simp only [sentState] at hh
      rcases (mem_foldl_insertSorted _ _).mp hh with h1 | h1
      · exact bh h h1
      · exact inv.a.sent h h1
    · intro _; left; simp
    · intro _
      simp only [lastHeads, getLast?_append_singleton, sentState, mkMessage, headsToSend, hnr,
        Bool.false_and]
      simp
    · intro hf
      right; right
      show c.linkAB ++ [mkMessage c.docA c.stA b] ≠ []
      simp

end AmVerif.Sync
