import AmVerif.Proofs.MarksFullFast
import AmVerif.Proofs.LocalSeq
/-
  Helper lemmas for C25 (`calculate_marks_fast` = `calculate_marks_slow`), part 3: both walks meet the same
  specification, the canonical shape is unique, so they return the same list; from rows to op sets.
-/
namespace AmVerif.Crdt
open AmVerif

/-- the plain walk in the same terms -/
theorem slowMarks_spec (wf : Op → Nat) (its : List Item) :
    let L := ((its.foldl (MarksWalk.step wf) {}).flushAcc).toMarks
    (∀ n v i, i < itemsWidth wf its → (MarksCover L n v i ↔ (n, v) ∈ getMarksGo wf {} its i 0)) ∧
    L.Pairwise MarkBefore ∧ ∀ r ∈ L, r.start < r.stop ∧ r.stop ≤ itemsWidth wf its ∧ r.value ≠ .null := by
  intro L
  have hs := marksWalk_shape wf its
  exact ⟨fun n v i hi => marksWalk_agree wf its i hi n v, hs.1, hs.2⟩

/-- the indexed walk and the plain walk over the same rows return the same list -/
theorem fastMarks_eq_slow (wf : Op → Nat) (its : List Item) (hnd : (beginIds its).Nodup) :
    fastMarks wf its = ((its.foldl (MarksWalk.step wf) {}).flushAcc).toMarks := by
  obtain ⟨hf1, hf2, hf3⟩ := fastMarks_spec wf its hnd
  obtain ⟨hs1, hs2, hs3⟩ := slowMarks_spec wf its
  apply marks_unique hf2 hs2 (fun r hr => (hf3 r hr).1) (fun r hr => (hs3 r hr).1)
  intro n v i
  by_cases hi : i < itemsWidth wf its
  · rw [hf1 n v i hi, hs1 n v i hi]
  · constructor
    · rintro ⟨r, hr, _, _, _, h4⟩; have := (hf3 r hr).2.1; omega
    · rintro ⟨r, hr, _, _, _, h4⟩; have := (hs3 r hr).2.1; omega

/-! ### from rows to op sets -/

theorem beginIds_itemsAll_sublist (ops : List Op) (obj : ObjId) :
    (beginIds (itemsAll ops obj)).Sublist ((rgaOrder ops obj).map (·.id)) := by
  unfold itemsAll beginIds
  generalize rgaOrder ops obj = l
  induction l with
  | nil => simp
  | cons e rest ih =>
    simp only [List.filterMap_cons, List.map_cons]
    cases ha : e.action with
    | markBegin n v x => simp only [List.filterMap_cons]; exact List.Sublist.cons_cons _ ih
    | markEnd x => simp only [List.filterMap_cons]; exact List.Sublist.cons _ ih
    | put v =>
      simp only
      cases (elemRegOps ops obj e.id).getLast? with
      | none => simp only [Option.map_none]; exact List.Sublist.cons _ ih
      | some t => simp only [Option.map_some, List.filterMap_cons]; exact List.Sublist.cons _ ih
    | make t =>
      simp only
      cases (elemRegOps ops obj e.id).getLast? with
      | none => simp only [Option.map_none]; exact List.Sublist.cons _ ih
      | some t => simp only [Option.map_some, List.filterMap_cons]; exact List.Sublist.cons _ ih
    | del =>
      simp only
      cases (elemRegOps ops obj e.id).getLast? with
      | none => simp only [Option.map_none]; exact List.Sublist.cons _ ih
      | some t => simp only [Option.map_some, List.filterMap_cons]; exact List.Sublist.cons _ ih
    | inc k =>
      simp only
      cases (elemRegOps ops obj e.id).getLast? with
      | none => simp only [Option.map_none]; exact List.Sublist.cons _ ih
      | some t => simp only [Option.map_some, List.filterMap_cons]; exact List.Sublist.cons _ ih

/-- when no mark op of the object is overwritten the two indexes hold exactly the rows of the plain walk -/
theorem itemsAll_eq_items (ops : List Op) (obj : ObjId)
    (hvis : ∀ e ∈ rgaOrder ops obj, e.isMark = true → overwritten ops e = false) :
    itemsAll ops obj = items ops obj := by
  unfold itemsAll items
  apply filterMap_congr'
  intro e he
  cases ha : e.action with
  | markBegin n v x =>
    have := hvis e he (by simp [Op.isMark, ha])
    simp [this]
  | markEnd x =>
    have := hvis e he (by simp [Op.isMark, ha])
    simp [this]
  | put v => rfl
  | make t => rfl
  | del => rfl
  | inc k => rfl

end AmVerif.Crdt
