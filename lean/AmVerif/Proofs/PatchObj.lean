import AmVerif.Proofs.PatchDiff
import AmVerif.Proofs.Spec
/-
  Lifting the register-level theorems to a whole map object: the per-key patches, applied in key
  order by `hydrate::Map::apply` (`applyMap`), change exactly their own key.
-/
namespace AmVerif.Crdt
open AmVerif

abbrev MapEntries := List (Bytes × Bool × HView)

/-! ### association-list lemmas -/

theorem mapGet_insert_self (k : Bytes) (v : Bool × HView) (es : MapEntries) :
    mapGet k (mapInsert k v es) = some v := by
  induction es with
  | nil => simp [mapInsert, mapGet]
  | cons p rest ih =>
    obtain ⟨k', v'⟩ := p
    by_cases h1 : (k == k') = true
    · simp [mapInsert, h1, mapGet]
    · by_cases h2 : bytesLt k k' = true
      · simp [mapInsert, h1, h2, mapGet]
      · have hk : (k' == k) = false := by
          cases h : k' == k with
          | false => rfl
          | true => exact absurd (by rw [eq_of_beq h]; simp) h1
        simp only [mapInsert, h1, h2, Bool.false_eq_true, if_false, mapGet, List.find?_cons, hk]
        simpa [mapGet] using ih

theorem mapGet_insert_other (k k' : Bytes) (v : Bool × HView) (es : MapEntries) (hne : k' ≠ k) :
    mapGet k' (mapInsert k v es) = mapGet k' es := by
  have hkk : (k == k') = false := by
    cases h : k == k' with
    | false => rfl
    | true => exact absurd (eq_of_beq h).symm hne
  induction es with
  | nil => simp [mapInsert, mapGet, hkk]
  | cons p rest ih =>
    obtain ⟨k2, v2⟩ := p
    by_cases h1 : (k == k2) = true
    · have : k = k2 := eq_of_beq h1
      subst this
      simp [mapInsert, mapGet, hkk]
    · by_cases h2 : bytesLt k k2 = true
      · simp [mapInsert, h1, h2, mapGet, hkk]
      · simp only [mapInsert, h1, h2, Bool.false_eq_true, if_false, mapGet, List.find?_cons]
        by_cases h3 : (k2 == k') = true
        · simp [h3]
        · simp only [h3, Bool.false_eq_true]
          simpa [mapGet] using ih

theorem mapGet_remove_self (k : Bytes) (es : MapEntries) : mapGet k (mapRemove k es) = none := by
  induction es with
  | nil => simp [mapRemove, mapGet]
  | cons p rest ih =>
    obtain ⟨k', v'⟩ := p
    by_cases h : (k' == k) = true
    · simp only [mapRemove, List.filter_cons, h, bne, Bool.not_true, Bool.false_eq_true, if_false]
      simpa [mapRemove, bne] using ih
    · have h' : (k' == k) = false := by simpa using h
      simp only [mapRemove, List.filter_cons, bne, h', Bool.not_false, if_true, mapGet, List.find?_cons]
      simpa [mapRemove, mapGet, bne] using ih

theorem mapGet_remove_other (k k' : Bytes) (es : MapEntries) (hne : k' ≠ k) :
    mapGet k' (mapRemove k es) = mapGet k' es := by
  induction es with
  | nil => simp [mapRemove, mapGet]
  | cons p rest ih =>
    obtain ⟨k2, v2⟩ := p
    by_cases h : (k2 == k) = true
    · have hk2 : k2 = k := eq_of_beq h
      have h3 : (k2 == k') = false := by
        cases hh : k2 == k' with
        | false => rfl
        | true => exact absurd ((eq_of_beq hh).symm.trans hk2) hne
      simp only [mapRemove, List.filter_cons, h, bne, Bool.not_true, Bool.false_eq_true, if_false,
        mapGet, List.find?_cons, h3]
      simpa [mapRemove, mapGet, bne] using ih
    · have h' : (k2 == k) = false := by simpa using h
      simp only [mapRemove, List.filter_cons, bne, h', Bool.not_false, if_true, mapGet, List.find?_cons]
      by_cases h3 : (k2 == k') = true
      · simp [h3]
      · simp only [h3, Bool.false_eq_true]
        simpa [mapRemove, mapGet, bne] using ih

/-! ### the shallow entry of a key -/

/-- the value of a view entry as a patch value: scalars exactly, objects by their type -/
def HView.shallow : HView → PVal
  | .scalar s => .scalar s
  | .map _ => .obj .map
  | .list _ => .obj .list
  | .text _ => .obj .text

def shallowEntry (es : MapEntries) (k : Bytes) : REntry :=
  (mapGet k es).map (fun x => (x.1, x.2.shallow))

/-- a register entry as the view shows it, up to the type of table objects (hydrated as maps) -/
def PVal.norm : PVal → PVal
  | .obj .table => .obj .map
  | v => v

theorem shallow_ofPVal (v : PVal) : (HView.ofPVal v).shallow = v.norm := by
  cases v with
  | scalar s => rfl
  | obj t => cases t <;> rfl

/-- `apply_patches` restricted to one map: the actions applied in order -/
def applyActions : MapEntries → List PatchAction → HOut MapEntries
  | es, [] => .ok es
  | es, a :: as =>
    match applyMap es a with
    | .ok es' => applyActions es' as
    | .err e => .err e
    | .panic p => .panic p

theorem applyActions_append (es : MapEntries) (as bs : List PatchAction) (es1 : MapEntries)
    (h : applyActions es as = .ok es1) : applyActions es (as ++ bs) = applyActions es1 bs := by
  induction as generalizing es with
  | nil => simp [applyActions] at h; subst h; rfl
  | cons a rest ih =>
    simp only [List.cons_append, applyActions] at h ⊢
    cases ha : applyMap es a with
    | ok es' => rw [ha] at h; simp only [] at h ⊢; exact ih es' h
    | err e => rw [ha] at h; simp at h
    | panic p => rw [ha] at h; simp at h

/-- the patch actions a logged event becomes (`PatchBuilder`, one key) -/
def eventActions (k : Bytes) : RegEvent → List PatchAction
  | .put v c _ => [.putMap k v c]
  | .insert v c _ => [.putMap k v c]
  | .inc n => [.increment (.key k) n]
  | .incFlag n => [.increment (.key k) n, .conflict (.key k)]
  | .flag => [.conflict (.key k)]
  | .del => [.deleteMap k]
  | .nothing => []

/-- entries up to the table/map identification -/
def REntry.norm (e : REntry) : REntry := e.map (fun x => (x.1, x.2.norm))

theorem counter_of_shallow {hv : HView} {c : Int} (h : hv.shallow = .scalar (.counter c)) :
    hv = .scalar (.counter c) := by
  cases hv with
  | scalar s => simp [HView.shallow] at h; rw [h]
  | map _ => simp [HView.shallow] at h
  | list _ => simp [HView.shallow] at h
  | text _ => simp [HView.shallow] at h

theorem shallow_norm (hv : HView) : hv.shallow.norm = hv.shallow := by
  cases hv <;> rfl

theorem shallowEntry_norm (es : MapEntries) (k : Bytes) : (shallowEntry es k).norm = shallowEntry es k := by
  unfold shallowEntry REntry.norm
  cases mapGet k es with
  | none => rfl
  | some x => simp [shallow_norm]

theorem shallowEntry_insert_self (es : MapEntries) (k : Bytes) (v : Bool × HView) :
    shallowEntry (mapInsert k v es) k = some (v.1, v.2.shallow) := by
  simp [shallowEntry, mapGet_insert_self]

/-- one event, applied by the applier to a map view whose entry at `k` is (shallowly) `e`: the
    entry becomes what `applyEvent` says, every other key is untouched -/
theorem applyMap_event (es : MapEntries) (k : Bytes) (ev : RegEvent) (e' : REntry)
    (h : applyEvent (shallowEntry es k) ev = .ok e') :
    ∃ es', applyActions es (eventActions k ev) = .ok es' ∧ shallowEntry es' k = e'.norm ∧
      (∀ k', k' ≠ k → mapGet k' es' = mapGet k' es) := by
  cases ev with
  | put v c x =>
    simp only [applyEvent, Outcome.ok.injEq] at h; subst h
    exact ⟨mapInsert k (c, HView.ofPVal v) es, rfl, by simp [shallowEntry_insert_self, shallow_ofPVal, REntry.norm],
      fun k' hk => mapGet_insert_other k k' _ es hk⟩
  | insert v c x =>
    simp only [applyEvent, Outcome.ok.injEq] at h; subst h
    exact ⟨mapInsert k (c, HView.ofPVal v) es, rfl, by simp [shallowEntry_insert_self, shallow_ofPVal, REntry.norm],
      fun k' hk => mapGet_insert_other k k' _ es hk⟩
  | del =>
    simp only [applyEvent, Outcome.ok.injEq] at h; subst h
    exact ⟨mapRemove k es, rfl, by simp [shallowEntry, mapGet_remove_self, REntry.norm],
      fun k' hk => mapGet_remove_other k k' es hk⟩
  | nothing =>
    simp only [applyEvent, Outcome.ok.injEq] at h; subst h
    exact ⟨es, rfl, (shallowEntry_norm es k).symm, fun _ _ => rfl⟩
  | flag =>
    unfold shallowEntry at h
    cases hg : mapGet k es with
    | none => rw [hg] at h; simp [applyEvent] at h
    | some x =>
      rw [hg] at h
      simp only [Option.map_some, applyEvent, Outcome.ok.injEq] at h; subst h
      refine ⟨mapInsert k (true, x.2) es, ?_, ?_, fun k' hk => mapGet_insert_other k k' _ es hk⟩
      · simp [eventActions, applyActions, applyMap, hg]
      · simp [shallowEntry_insert_self, REntry.norm, shallow_norm]
  | inc n =>
    unfold shallowEntry at h
    cases hg : mapGet k es with
    | none => rw [hg] at h; simp [applyEvent] at h
    | some x =>
      rw [hg] at h
      obtain ⟨f, hv⟩ := x
      cases hs : hv.shallow with
      | obj t => simp [applyEvent, hs] at h
      | scalar sc =>
        cases sc with
        | counter c =>
          have hhv := counter_of_shallow hs
          subst hhv
          simp only [Option.map_some, applyEvent, HView.shallow, Outcome.ok.injEq] at h; subst h
          refine ⟨mapInsert k (f, .scalar (.counter (c + n))) es, ?_, ?_, fun k' hk => mapGet_insert_other k k' _ es hk⟩
          · simp [eventActions, applyActions, applyMap, hg, incrementEntry]
          · simp [shallowEntry_insert_self, REntry.norm, HView.shallow, PVal.norm]
        | _ => simp [applyEvent, hs] at h
  | incFlag n =>
    unfold shallowEntry at h
    cases hg : mapGet k es with
    | none => rw [hg] at h; simp [applyEvent] at h
    | some x =>
      rw [hg] at h
      obtain ⟨f, hv⟩ := x
      cases hs : hv.shallow with
      | obj t => simp [applyEvent, hs] at h
      | scalar sc =>
        cases sc with
        | counter c =>
          have hhv := counter_of_shallow hs
          subst hhv
          simp only [Option.map_some, applyEvent, HView.shallow, Outcome.ok.injEq] at h; subst h
          refine ⟨mapInsert k (true, .scalar (.counter (c + n))) (mapInsert k (f, .scalar (.counter (c + n))) es), ?_, ?_, ?_⟩
          · simp [eventActions, applyActions, applyMap, hg, incrementEntry, mapGet_insert_self]
          · simp [shallowEntry_insert_self, REntry.norm, HView.shallow, PVal.norm]
          · intro k' hk
            rw [mapGet_insert_other k k' _ _ hk, mapGet_insert_other k k' _ _ hk]
        | _ => simp [applyEvent, hs] at h

/-! ### all keys of a map -/

/-- per-key events applied in key order: every key ends at its own result, nothing else moves -/
theorem applyActions_keys (keys : List Bytes) (hnd : keys.Nodup) (evs : Bytes → RegEvent)
    (after : Bytes → REntry) : ∀ (es : MapEntries),
    (∀ k ∈ keys, applyEvent (shallowEntry es k) (evs k) = .ok (after k)) →
    ∃ es', applyActions es (keys.flatMap (fun k => eventActions k (evs k))) = .ok es' ∧
      (∀ k ∈ keys, shallowEntry es' k = (after k).norm) ∧
      (∀ k, k ∉ keys → mapGet k es' = mapGet k es) := by
  induction keys with
  | nil => intro es _; exact ⟨es, rfl, by simp, fun _ _ => rfl⟩
  | cons k ks ih =>
    intro es h
    have hk : k ∉ ks := (List.nodup_cons.mp hnd).1
    have hks : ks.Nodup := (List.nodup_cons.mp hnd).2
    obtain ⟨es1, h1, hself, hother⟩ := applyMap_event es k (evs k) (after k) (h k (by simp))
    have hrest : ∀ k' ∈ ks, applyEvent (shallowEntry es1 k') (evs k') = .ok (after k') := by
      intro k' hk'
      have hne : k' ≠ k := fun e => hk (e ▸ hk')
      have : shallowEntry es1 k' = shallowEntry es k' := by simp [shallowEntry, hother k' hne]
      rw [this]; exact h k' (by simp [hk'])
    obtain ⟨es2, h2, hin, hout⟩ := ih hks es1 hrest
    refine ⟨es2, ?_, ?_, ?_⟩
    · simp only [List.flatMap_cons]
      rw [applyActions_append es _ _ es1 h1]; exact h2
    · intro k' hk'
      rcases List.mem_cons.mp hk' with rfl | hk'
      · have : shallowEntry es2 k' = shallowEntry es1 k' := by simp [shallowEntry, hout k' hk]
        rw [this]; exact hself
      · exact hin k' hk'
    · intro k' hk'
      have hne : k' ≠ k := fun e => hk' (by simp [e])
      have hnin : k' ∉ ks := fun e => hk' (by simp [e])
      rw [hout k' hnin, hother k' hne]

theorem mapPatchOf_actions (k : Bytes) (o : DOut) :
    (mapPatchOf k o).map (·.1) = eventActions k o.mapEvent := by
  unfold mapPatchOf eventActions
  cases o.mapEvent <;> rfl

theorem foldr_insertKey_sorted (ks base : List Bytes) (h : base.Pairwise (fun a b => bytesLt a b = true)) :
    (ks.foldr insertKey base).Pairwise (fun a b => bytesLt a b = true) := by
  induction ks with
  | nil => exact h
  | cons k rest ih => exact insertKey_sorted k ih

theorem diffKeys_nodup (before after : List Op) (obj : ObjId) : (diffKeys before after obj).Nodup := by
  have hs : (diffKeys before after obj).Pairwise (fun a b => bytesLt a b = true) := by
    unfold diffKeys
    apply foldr_insertKey_sorted
    rw [mapKeys_eq_keysOf]; exact keysOf_sorted _
  refine List.Pairwise.imp ?_ hs
  intro a b hab heq
  subst heq
  rw [bytesLt_irrefl] at hab
  exact absurd hab (by decide)

/-- `diff_obj(obj, H1, H2, false)` of a map object is sound: if the view's entry of every key in
    play is (shallowly) the register's entry at H1, the patches apply and bring every such key to
    its entry at H2, leaving all other keys alone -/
theorem diffMapObj_sound (before after all : List Op) (obj : ObjId) (es : MapEntries)
    (hne : ∀ k ∈ diffKeys before after obj, diffItemsOf before after all obj k ≠ [])
    (hwf : ∀ k ∈ diffKeys before after obj, ∀ it ∈ diffItemsOf before after all obj k, it.wf = true)
    (hview : ∀ k ∈ diffKeys before after obj,
      shallowEntry es k = entryBefore (diffItemsOf before after all obj k)) :
    ∃ es', applyActions es ((diffMapObj before after all obj).map (·.1)) = .ok es' ∧
      (∀ k ∈ diffKeys before after obj,
        shallowEntry es' k = (entryAfter (diffItemsOf before after all obj k)).norm) ∧
      (∀ k, k ∉ diffKeys before after obj → mapGet k es' = mapGet k es) := by
  let items := fun k => diffItemsOf before after all obj k
  let evs : Bytes → RegEvent := fun k => match mapDiff (items k) with | some o => o.mapEvent | none => .nothing
  have hact : (diffMapObj before after all obj).map (·.1) =
      (diffKeys before after obj).flatMap (fun k => eventActions k (evs k)) := by
    unfold diffMapObj
    rw [List.map_flatMap]
    congr 1
    funext k
    show (match mapDiff (diffItemsOf before after all obj k) with | some o => mapPatchOf k o | none => []).map (fun (p : PatchAction × OpId) => p.1) = _
    cases hm : mapDiff (diffItemsOf before after all obj k) with
    | none => simp [evs, items, hm, eventActions]
    | some o => simp [evs, items, hm, mapPatchOf_actions]
  rw [hact]
  apply applyActions_keys _ (diffKeys_nodup before after obj) evs (fun k => entryAfter (items k)) es
  intro k hk
  obtain ⟨o, ho, happ⟩ := mapDiff_sound (items k) (hne k hk) (hwf k hk)
  rw [hview k hk]
  simp only [evs, ho]
  exact happ

end AmVerif.Crdt
