import AmVerif.Proofs.HexaneLeb
/-
  Helper lemmas for the RLE wire format: value-codec laws, the canonical-form predicate `canon`
  (exactly what `parse` accepts), `parse (writeItems items) = items` for canonical items.
-/
namespace AmVerif.Hexane
open AmVerif

/-- what the round trip needs from a value codec -/
structure Lawful {α : Type} (c : ValCodec α) (Valid : α → Prop) : Prop where
  rt : ∀ v rest, Valid v → c.unpack (c.pack v ++ rest) = .ok (v, rest)
  ne : ∀ v, c.pack v ≠ []

def validU64 (n : Nat) : Prop := n < 2 ^ 64
def validU32 (n : Nat) : Prop := n < 2 ^ 32
def validI64 (z : Int) : Prop := -(two63 : Int) ≤ z ∧ z < (two63 : Int)
def validBytes (b : Bytes) : Prop := b.length < 2 ^ 64
def validStr (b : Bytes) : Prop := b.length < 2 ^ 64 ∧ validUtf8 b = true

theorem lawful_u64 : Lawful cU64 validU64 :=
  ⟨fun v rest h => readU_encU v rest h, fun v => encU_ne_nil v⟩

theorem lawful_u32 : Lawful cU32 validU32 := by
  refine ⟨fun v rest h => ?_, fun v => encU_ne_nil v⟩
  unfold validU32 at h
  show (match readU (encU v ++ rest) with
    | .ok (v, r) => if v < 2 ^ 32 then Except.ok (v, r) else .error HErr.value
    | .error e => .error e) = _
  rw [readU_encU v rest (by omega)]
  simp [h]

theorem lawful_i64 : Lawful cI64 validI64 :=
  ⟨fun v rest h => readS_encS v rest h.1 h.2, fun v => encS_ne_nil v⟩

theorem unpackBytes_pack (v rest : Bytes) (h : v.length < 2 ^ 64) :
    unpackBytes ((encU v.length ++ v) ++ rest) = .ok (v, rest) := by
  unfold unpackBytes
  rw [List.append_assoc, readU_encU v.length (v ++ rest) h]
  simp

theorem lawful_bytes : Lawful cBytes validBytes :=
  ⟨fun v rest h => unpackBytes_pack v rest h, fun v => by
    show encU v.length ++ v ≠ []
    intro h; exact encU_ne_nil _ (List.append_eq_nil_iff.mp h).1⟩

theorem lawful_str : Lawful cStr validStr := by
  refine ⟨fun v rest h => ?_, fun v => ?_⟩
  · show (match unpackBytes ((encU v.length ++ v) ++ rest) with
      | .ok (v, r) => if validUtf8 v then Except.ok (v, r) else .error HErr.utf8
      | .error e => .error e) = _
    rw [unpackBytes_pack v rest h.1]
    simp [h.2]
  · show encU v.length ++ v ≠ []
    intro h; exact encU_ne_nil _ (List.append_eq_nil_iff.mp h).1

/-- the canonical-form predicate: the conditions under which `parse`, started in state `st`,
    accepts exactly these segments (mirrors `validate_after` and the literal-run counter) -/
def canon {α : Type} [DecidableEq α] (Valid : α → Prop) (nullable : Bool) :
    PState α → List (Item α) → Prop
  | st, [] => st.litLeft = 0
  | st, .litv v :: r =>
    st.litLeft > 0 ∧ st.prevLit ≠ some v ∧ ¬ (st.prevLit = none ∧ st.prev.sameValue v = true) ∧ Valid v ∧
      canon Valid nullable { litLeft := st.litLeft - 1, prev := .lit v, prevLit := some v } r
  | st, .head k :: r =>
    st.litLeft = 0 ∧ 0 < k ∧ k < two63 ∧ st.prev.isLit = false ∧
      canon Valid nullable { litLeft := k, prev := st.prev, prevLit := none } r
  | st, .run n v :: r =>
    st.litLeft = 0 ∧ 2 ≤ n ∧ n < two63 ∧ st.prev.sameValue v = false ∧ Valid v ∧
      canon Valid nullable { litLeft := 0, prev := .run v, prevLit := st.prevLit } r
  | st, .null n :: r =>
    st.litLeft = 0 ∧ 1 ≤ n ∧ n < two64 ∧ st.prev.isNull = false ∧ nullable = true ∧
      canon Valid nullable { litLeft := 0, prev := .null, prevLit := st.prevLit } r

theorem writeItems_cons {α : Type} (c : ValCodec α) (x : Item α) (r : List (Item α)) :
    writeItems c (x :: r) = writeItem c x ++ writeItems c r := by
  simp [writeItems]

theorem length_pos_of_ne_nil {β : Type} (l : List β) (h : l ≠ []) : 0 < l.length :=
  List.length_pos_iff.mpr h

theorem parse_write {α : Type} [DecidableEq α] {c : ValCodec α} {Valid : α → Prop}
    (law : Lawful c Valid) (nullable : Bool) :
    ∀ (items : List (Item α)) (st : PState α) (fuel : Nat),
      canon Valid nullable st items → (writeItems c items).length < fuel →
      parse c nullable fuel (writeItems c items) st = (items, none) := by
  intro items
  induction items with
  | nil =>
    intro st fuel hc hf
    cases fuel with
    | zero => simp at hf
    | succ f =>
      simp only [canon] at hc
      simp [parse, writeItems, hc]
  | cons x r ih =>
    intro st fuel hc hf
    cases fuel with
    | zero => simp at hf
    | succ f =>
      rw [writeItems_cons] at hf ⊢
      rw [List.length_append] at hf
      cases x with
      | litv v =>
        simp only [canon] at hc
        obtain ⟨h1, h2, h3, h4, h5⟩ := hc
        have hne := length_pos_of_ne_nil _ (law.ne v)
        have hrec := ih _ f h5 (by simp only [writeItem] at hf; omega)
        simp only [writeItem]
        rw [parse]
        simp only [h1, if_true, law.rt v _ h4, h2, if_false, h3, hrec]
      | head k =>
        simp only [canon] at hc
        obtain ⟨h1, h2, h3, h4, h5⟩ := hc
        have hne := length_pos_of_ne_nil _ (encS_ne_nil (-(k : Int)))
        have hrec := ih _ f h5 (by simp only [writeItem] at hf; omega)
        have hk : -(two63 : Int) ≤ -(k : Int) ∧ -(k : Int) < (two63 : Int) := by
          unfold two63 at *; omega
        simp only [writeItem]
        rw [parse]
        have hl : ¬ (st.litLeft > 0) := by omega
        have hemp : (encS (-(k : Int)) ++ writeItems c r).isEmpty = false := by
          cases h : encS (-(k : Int)) with
          | nil => exact absurd h (encS_ne_nil _)
          | cons a b => simp
        have hneg : ¬ (-(k : Int) > 0) := by omega
        have hneg2 : -(k : Int) < 0 := by omega
        have hmin : ¬ (-(k : Int) = -(two63 : Int)) := by unfold two63 at *; omega
        have htn : (- -(k : Int)).toNat = k := by omega
        simp only [hl, if_false, hemp, readS_encS _ _ hk.1 hk.2, hneg, hneg2, if_true, hmin, h4, htn,
          Bool.false_eq_true, hrec]
      | run n v =>
        simp only [canon] at hc
        obtain ⟨h1, h2, h3, h4, h5, h6⟩ := hc
        have hne := length_pos_of_ne_nil _ (encS_ne_nil (n : Int))
        have hrec := ih _ f h6 (by simp only [writeItem, List.length_append] at hf; omega)
        have hk : -(two63 : Int) ≤ (n : Int) ∧ (n : Int) < (two63 : Int) := by
          unfold two63 at *; omega
        simp only [writeItem]
        rw [parse]
        have hl : ¬ (st.litLeft > 0) := by omega
        have hemp : ((encS (n : Int) ++ c.pack v) ++ writeItems c r).isEmpty = false := by
          cases h : encS (n : Int) with
          | nil => exact absurd h (encS_ne_nil _)
          | cons a b => simp
        have hpos : (n : Int) > 0 := by omega
        have hlt2 : ¬ ((n : Int) < 2) := by omega
        have htn : (n : Int).toNat = n := by omega
        have hassoc : (encS (n : Int) ++ c.pack v) ++ writeItems c r = encS (n : Int) ++ (c.pack v ++ writeItems c r) := by
          simp
        rw [hassoc] at hemp ⊢
        simp only [hl, if_false, hemp, readS_encS _ _ hk.1 hk.2, hpos, if_true, law.rt v _ h5, hlt2, h4,
          Bool.false_eq_true, htn, hrec]
      | null n =>
        simp only [canon] at hc
        obtain ⟨h1, h2, h3, h4, h5, h6⟩ := hc
        subst h5
        have hne := length_pos_of_ne_nil _ (encS_ne_nil 0)
        have hrec := ih _ f h6 (by simp only [writeItem, List.length_append] at hf; omega)
        have hk : -(two63 : Int) ≤ (0 : Int) ∧ (0 : Int) < (two63 : Int) := by
          unfold two63; omega
        simp only [writeItem]
        rw [parse]
        have hl : ¬ (st.litLeft > 0) := by omega
        have hassoc : (encS 0 ++ encU n) ++ writeItems c r = encS 0 ++ (encU n ++ writeItems c r) := by
          simp
        have hemp : (encS 0 ++ (encU n ++ writeItems c r)).isEmpty = false := by
          cases h : encS 0 with
          | nil => exact absurd h (encS_ne_nil _)
          | cons a b => simp
        have h0 : ¬ ((0 : Int) > 0) := by omega
        have h00 : ¬ ((0 : Int) < 0) := by omega
        have hn0 : ¬ (n = 0) := by omega
        rw [hassoc]
        simp only [hl, if_false, hemp, readS_encS _ _ hk.1 hk.2, h0, h00, readU_encU n _ (by unfold two64 at h3; exact h3),
          hn0, h4, Bool.false_eq_true, Bool.not_true, hrec]

end AmVerif.Hexane
