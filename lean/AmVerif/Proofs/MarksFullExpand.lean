import AmVerif.Proofs.MarksFullQuery
/-
  Helper lemmas for C25 ("text inserted at a mark boundary is covered exactly when the mark's expand setting
  says so"): which slot `InsertQuery::resolve` picks when the gap between the two visible neighbours holds
  ANY number of mark ops and tombstones (no begin/end pair lying wholly inside the gap): the slot right
  after the LAST sticky mark op of the gap, or right after the left neighbour when no mark op is sticky.
-/
namespace AmVerif.Crdt
open AmVerif

/-- the candidate a sticky mark op pushes: the slot right after it -/
def stickyPush (p : Nat) (r : Op) : List Loc :=
  if r.sticky then [⟨r.cursorKey, p + 1, some r.id⟩] else []

theorem sticky_of_not_mark {r : Op} (h : r.isMark = false) : r.sticky = false := by
  unfold Op.sticky
  cases ha : r.action <;> simp_all [Op.isMark]

/-! ### one row of the scan, by phase -/

theorem IQ.step_inc (wf : Op → Nat) (ops : List Op) (target : Nat) (q : IQ) (p : Nat) (r : Op)
    (hs : q.stopped = false) (hi : r.isInc = true) :
    IQ.step wf ops target q (p, r) = { q with pos := p } := by
  simp [IQ.step, hs, hi]

/-- scan not yet done, a dead (invisible) non-insert row: nothing happens -/
theorem IQ.stepA_dead (wf : Op → Nat) (ops : List Op) (target : Nat) (q : IQ) (p : Nat) (r : Op)
    (hs : q.stopped = false) (hd : q.done = false) (hi : r.isInc = false) (hins : r.insert = false)
    (hv : rowVisible ops r = false) :
    IQ.step wf ops target q (p, r) = { q with pos := p } := by
  simp [IQ.step, hs, hi, hins, hd, hv]

/-- one row of the scan that is not an increment, scan not stopped: flush at an insert row, then either the
    `done` branch (candidate bookkeeping, stop at a visible value) or the counting branch -/
theorem IQ.step_eq (wf : Op → Nat) (ops : List Op) (target : Nat) (q : IQ) (p : Nat) (op : Op)
    (hs : q.stopped = false) (hi : op.isInc = false) :
    IQ.step wf ops target q (p, op) =
      (if (if op.insert then q.flush target else q).done then
        (if (rowVisible ops op && !op.isMark &&
              !((if op.insert then q.flush target else q).identify p op op.cursorKey).candidates.isEmpty) = true
          then { (if op.insert then q.flush target else q).identify p op op.cursorKey with stopped := true }
          else { (if op.insert then q.flush target else q).identify p op op.cursorKey with pos := p })
      else if rowVisible ops op then
        { (if !op.isMark then { (if op.insert then q.flush target else q) with
              lastVisibleCursor := some op.cursorKey, lastWidth := some (wf op) }
           else (if op.insert then q.flush target else q)) with pos := p }
      else { (if op.insert then q.flush target else q) with pos := p }) := by
  simp only [IQ.step, hs, Bool.false_eq_true, if_false, hi, IQ.flush]
  rfl

/-- `identify_valid_insertion_spot` on a non-empty stack with no begin/end pair to pop: a sticky op pushes -/
theorem IQ.identify_nopop (q : IQ) (p : Nat) (r : Op) (cur : Key) (hne : q.candidates ≠ [])
    (hnp : ∀ x, r.action = .markEnd x → ∀ l ∈ q.candidates, l.id ≠ some r.id.prev) :
    q.identify p r cur = { q with candidates := q.candidates ++ (if r.sticky then [⟨cur, p + 1, some r.id⟩] else []) } := by
  have hemp : q.candidates.isEmpty = false := by
    cases hc : q.candidates with
    | nil => exact absurd hc hne
    | cons a b => rfl
  have h1 : q.identify1 p r = q := by
    unfold IQ.identify1
    simp [hemp]
  rw [IQ.identify_eq, h1]
  unfold IQ.identify2 Op.sticky
  simp only [hemp, Bool.false_eq_true, if_false]
  cases ha : r.action with
  | markEnd x =>
    have hfi : List.findIdx? (fun l : Loc => l.id == some r.id.prev) q.candidates = none := by
      apply List.findIdx?_eq_none_iff.mpr
      intro l hl
      have := hnp x ha l hl
      simpa using this
    simp only [hfi]
    cases x <;> simp
  | markBegin a b c => cases c <;> simp
  | put v => simp
  | make t => simp
  | del => simp
  | inc n => simp

/-- scan done (`PhaseB`): flag set, a non-empty candidate stack, nothing pending -/
structure IQ.PhaseB (q : IQ) : Prop where
  done : q.done = true
  ns : q.stopped = false
  lw : q.lastWidth = none
  ne : q.candidates ≠ []

theorem IQ.stepB (wf : Op → Nat) (ops : List Op) (target : Nat) {q : IQ} (hq : q.PhaseB) (p : Nat) (r : Op)
    (hi : r.isInc = false)
    (hnp : ∀ x, r.action = .markEnd x → ∀ l ∈ q.candidates, l.id ≠ some r.id.prev) :
    IQ.step wf ops target q (p, r) =
      if (rowVisible ops r && !r.isMark) = true then
        { q with candidates := q.candidates ++ stickyPush p r, stopped := true }
      else { q with candidates := q.candidates ++ stickyPush p r, pos := p } := by
  have hid := IQ.identify_nopop q p r r.cursorKey hq.ne hnp
  have hflush : (if r.insert = true then q.flush target else q) = q := by
    unfold IQ.flush; rw [hq.lw]; simp
  have hne' : (q.candidates ++ stickyPush p r).isEmpty = false := by
    cases hc : q.candidates with
    | nil => exact absurd hc hq.ne
    | cons a b => rfl
  rw [IQ.step_eq wf ops target q p r hq.ns hi, hflush, if_pos hq.done, hid]
  unfold stickyPush at hne' ⊢
  by_cases hv : (rowVisible ops r && !r.isMark) = true
  · simp only [hv, if_true, hne', Bool.not_false, Bool.and_true]
  · simp only [hv, Bool.false_eq_true, if_false, Bool.false_and]

/-- scan waiting at the end of the visible element `c` (`PhaseA`): the target is reached as soon as the
    pending width is flushed -/
structure IQ.PhaseA (q : IQ) (target : Nat) (c : Key) (w : Nat) : Prop where
  nd : q.done = false
  ns : q.stopped = false
  emp : q.candidates = []
  lvc : q.lastVisibleCursor = some c
  lw : q.lastWidth = some w
  reach : q.index + w ≥ target

/-- the first insert row after `c`: the flush sets `done`, the slot after `c` is the first candidate -/
theorem IQ.stepA_insert (wf : Op → Nat) (ops : List Op) (target : Nat) {q : IQ} {c : Key} {w : Nat}
    (hq : q.PhaseA target c w) (p : Nat) (r : Op) (hi : r.isInc = false) (hins : r.insert = true) :
    IQ.step wf ops target q (p, r) =
      if (rowVisible ops r && !r.isMark) = true then
        { q with lastWidth := none, index := q.index + w, done := true,
                 candidates := ⟨c, p, none⟩ :: stickyPush p r, stopped := true }
      else { q with lastWidth := none, index := q.index + w, done := true,
                    candidates := ⟨c, p, none⟩ :: stickyPush p r, pos := p } := by
  have hd : decide (q.index + w ≥ target) = true := by simpa using hq.reach
  -- after the flush
  have hq1 : ∃ q1 : IQ, q1 = { q with lastWidth := none, index := q.index + w, done := true } := ⟨_, rfl⟩
  obtain ⟨q1, hq1⟩ := hq1
  have hflush : (if r.insert = true then q.flush target else q) = q1 := by
    unfold IQ.flush; rw [hq.lw, hq1]; simp [hins, hd]
  have e1 : q1.candidates = [] := by rw [hq1]; exact hq.emp
  have e2 : q1.lastVisibleCursor = some c := by rw [hq1]; exact hq.lvc
  have h1 : q1.identify1 p r = { q1 with candidates := [⟨c, p, none⟩] } := by
    unfold IQ.identify1
    simp [hins, e1, e2]
  have hid : q1.identify p r r.cursorKey = { q1 with candidates := ⟨c, p, none⟩ :: stickyPush p r } := by
    have hnop := IQ.identify_nopop { q1 with candidates := [⟨c, p, none⟩] } p r r.cursorKey (by simp) (by
      intro x _ l hl
      have : l = ⟨c, p, none⟩ := by simpa using hl
      rw [this]; simp)
    -- `identify1` does nothing on a non-empty stack
    have h1' : ({ q1 with candidates := [⟨c, p, none⟩] } : IQ).identify1 p r = { q1 with candidates := [⟨c, p, none⟩] } := by
      unfold IQ.identify1; simp
    rw [IQ.identify_eq, h1'] at hnop
    rw [IQ.identify_eq, h1, hnop]
    unfold stickyPush
    by_cases hs : r.sticky = true <;> simp [hs]
  have hq1d : q1.done = true := by rw [hq1]
  have hne' : ((⟨c, p, none⟩ : Loc) :: stickyPush p r).isEmpty = false := rfl
  rw [IQ.step_eq wf ops target q p r hq.ns hi, hflush, if_pos hq1d, hid]
  by_cases hv : (rowVisible ops r && !r.isMark) = true
  · simp only [hv, if_true, hne', Bool.not_false, Bool.and_true]
    rw [hq1]
  · simp only [hv, Bool.false_eq_true, if_false, Bool.false_and]
    rw [hq1]

/-! ### the gap -/

/-- a row of the gap between two visible neighbours: a skipped increment row, a dead (invisible) value row —
    tombstone or overwritten update —, or a mark op -/
def GapRow (ops : List Op) (r : Op) : Prop :=
  r.isInc = true ∨ (r.isInc = false ∧ r.isMark = false ∧ rowVisible ops r = false) ∨ (r.isMark = true ∧ r.insert = true)

theorem isInc_of_mark {r : Op} (h : r.isMark = true) : r.isInc = false := by
  cases ha : r.action <;> simp_all [Op.isMark, Op.isInc]

/-- the candidates the rows of a gap push (rows numbered from `p`) -/
def gapPushes : Nat → List Op → List Loc
  | _, [] => []
  | p, r :: rest => (if r.isInc then [] else stickyPush p r) ++ gapPushes (p + 1) rest

/-- position of the first insert row (not an increment) among rows numbered from `p` -/
def firstInsPos : Nat → List Op → Nat
  | p, [] => p
  | p, r :: rest => if r.insert && !r.isInc then p else firstInsPos (p + 1) rest

def Op.isMarkEnd (o : Op) : Bool := match o.action with | .markEnd _ => true | _ => false

/-- no end op of the gap has its begin op in the gap too -/
def NoWholePair (gap : List Op) : Prop :=
  ∀ r ∈ gap, r.isMarkEnd = true → ∀ m ∈ gap, m.id ≠ r.id.prev

instance (gap : List Op) : Decidable (NoWholePair gap) := by
  unfold NoWholePair; infer_instance

theorem IQ.finish_stopped {q : IQ} (hd : q.done = true) (hl : q.lastWidth = none) {loc : Loc}
    (hc : q.candidates.getLast? = some loc) (target : Nat) :
    q.finish target = .ok ⟨loc.cursor, q.index, loc.pos⟩ := by
  unfold IQ.finish
  simp [hl, hd, hc]

/-- phase B over the rest of the gap and the visible right neighbour -/
theorem IQ.gapB (wf : Op → Nat) (ops : List Op) (target : Nat) (nxt : Op) (rest : List (Nat × Op))
    (hn1 : nxt.isMark = false) (hn2 : nxt.isInc = false) (hn3 : rowVisible ops nxt = true) (all : List Op) :
    ∀ (gap : List Op) (p : Nat) (q : IQ), q.PhaseB →
      (∀ r ∈ gap, GapRow ops r) → (∀ r ∈ gap, r ∈ all) → NoWholePair all →
      (∀ l ∈ q.candidates, l.id = none ∨ ∃ m ∈ all, l.id = some m.id) →
      ∃ loc, (q.candidates ++ gapPushes p gap).getLast? = some loc ∧
        ((enumFrom p (gap ++ [nxt]) ++ rest).foldl (IQ.step wf ops target) q).finish target
          = .ok ⟨loc.cursor, q.index, loc.pos⟩ := by
  intro gap
  induction gap with
  | nil =>
    intro p q hq _ _ _ _
    have hstep := IQ.stepB wf ops target hq p nxt hn2 (by
      intro x hx; simp [Op.isMark, hx] at hn1)
    have hv : (rowVisible ops nxt && !nxt.isMark) = true := by simp [hn1, hn3]
    rw [if_pos hv] at hstep
    have hsp : stickyPush p nxt = [] := by unfold stickyPush; simp [sticky_of_not_mark hn1]
    rw [hsp, List.append_nil] at hstep
    obtain ⟨loc, hloc⟩ : ∃ loc, q.candidates.getLast? = some loc := by
      cases hc : q.candidates.getLast? with
      | none => exact absurd (by simpa using hc) hq.ne
      | some l => exact ⟨l, rfl⟩
    refine ⟨loc, by simpa [gapPushes] using hloc, ?_⟩
    simp only [List.nil_append, enumFrom, List.cons_append, List.foldl_cons]
    rw [hstep, IQ.foldl_stopped _ _ _ _ _ rfl]
    exact IQ.finish_stopped (q := { q with stopped := true }) hq.done hq.lw hloc target
  | cons r gap' ih =>
    intro p q hq hrows hall hnw hids
    have hr := hrows r (by simp)
    simp only [List.cons_append, enumFrom, List.foldl_cons]
    by_cases hi : r.isInc = true
    · rw [IQ.step_inc wf ops target q p r hq.ns hi]
      have hq' : ({ q with pos := p } : IQ).PhaseB := ⟨hq.done, hq.ns, hq.lw, hq.ne⟩
      obtain ⟨loc, h1, h2⟩ := ih (p + 1) _ hq' (fun x hx => hrows x (List.mem_cons_of_mem _ hx))
        (fun x hx => hall x (List.mem_cons_of_mem _ hx)) hnw hids
      exact ⟨loc, by simpa [gapPushes, hi] using h1, h2⟩
    · have hi' : r.isInc = false := by simpa using hi
      have hnp : ∀ x, r.action = .markEnd x → ∀ l ∈ q.candidates, l.id ≠ some r.id.prev := by
        intro x hx l hl
        rcases hids l hl with h | ⟨m, hm, h⟩
        · rw [h]; simp
        · rw [h]
          intro he
          injection he with he
          exact hnw r (hall r (by simp)) (by simp [Op.isMarkEnd, hx]) m hm he
      have hstep := IQ.stepB wf ops target hq p r hi' hnp
      have hv : ¬ (rowVisible ops r && !r.isMark) = true := by
        rcases hr with h | ⟨_, _, h⟩ | ⟨h, _⟩
        · exact absurd h hi
        · simp [h]
        · simp [h]
      rw [if_neg hv] at hstep
      rw [hstep]
      have hq' : ({ q with candidates := q.candidates ++ stickyPush p r, pos := p } : IQ).PhaseB :=
        ⟨hq.done, hq.ns, hq.lw, by
          intro he
          have : q.candidates = [] := (List.append_eq_nil_iff.mp he).1
          exact hq.ne this⟩
      have hids' : ∀ l ∈ q.candidates ++ stickyPush p r, l.id = none ∨ ∃ m ∈ all, l.id = some m.id := by
        intro l hl
        rcases List.mem_append.mp hl with hl | hl
        · exact hids l hl
        · unfold stickyPush at hl
          by_cases hs : r.sticky = true
          · simp only [hs, if_true] at hl
            have : l = ⟨r.cursorKey, p + 1, some r.id⟩ := by simpa using hl
            right; exact ⟨r, hall r (by simp), by rw [this]⟩
          · simp [hs] at hl
      obtain ⟨loc, h1, h2⟩ := ih (p + 1) _ hq' (fun x hx => hrows x (List.mem_cons_of_mem _ hx))
        (fun x hx => hall x (List.mem_cons_of_mem _ hx)) hnw hids'
      refine ⟨loc, ?_, h2⟩
      simpa [gapPushes, hi', List.append_assoc] using h1

/-- phase A: from the end of the visible element `c` through the whole gap to the visible right neighbour -/
theorem IQ.gapA (wf : Op → Nat) (ops : List Op) (target : Nat) (c : Key) (w : Nat) (nxt : Op) (rest : List (Nat × Op))
    (hn1 : nxt.isMark = false) (hn2 : nxt.isInc = false) (hn3 : rowVisible ops nxt = true) (all : List Op)
    (hnw : NoWholePair all) :
    ∀ (gap : List Op) (p : Nat) (q : IQ), q.PhaseA target c w →
      (∀ r ∈ gap, GapRow ops r) → (∀ r ∈ gap, r ∈ all) →
      (nxt.insert = true ∨ ∃ r ∈ gap, r.isInc = false ∧ r.insert = true) →
      ∃ loc, (⟨c, firstInsPos p (gap ++ [nxt]), none⟩ :: gapPushes p gap).getLast? = some loc ∧
        ((enumFrom p (gap ++ [nxt]) ++ rest).foldl (IQ.step wf ops target) q).finish target
          = .ok ⟨loc.cursor, q.index + w, loc.pos⟩ := by
  intro gap
  induction gap with
  | nil =>
    intro p q hq _ _ hex
    have hins : nxt.insert = true := by
      rcases hex with h | ⟨r, hr, _⟩
      · exact h
      · cases hr
    have hstep := IQ.stepA_insert wf ops target hq p nxt hn2 hins
    have hv : (rowVisible ops nxt && !nxt.isMark) = true := by simp [hn1, hn3]
    rw [if_pos hv] at hstep
    have hsp : stickyPush p nxt = [] := by unfold stickyPush; simp [sticky_of_not_mark hn1]
    rw [hsp] at hstep
    refine ⟨⟨c, p, none⟩, by simp [gapPushes, firstInsPos, hins, hn2], ?_⟩
    simp only [List.nil_append, enumFrom, List.cons_append, List.foldl_cons]
    rw [hstep, IQ.foldl_stopped _ _ _ _ _ rfl]
    exact IQ.finish_stopped
      (q := { q with lastWidth := none, index := q.index + w, done := true, candidates := [⟨c, p, none⟩], stopped := true })
      (loc := ⟨c, p, none⟩) rfl rfl rfl target
  | cons r gap' ih =>
    intro p q hq hrows hall hex
    have hr := hrows r (by simp)
    by_cases hflush : (r.insert && !r.isInc) = true
    · -- the first insert row: flush, then phase B
      have hins : r.insert = true := by simp at hflush; exact hflush.1
      have hi' : r.isInc = false := by simp at hflush; exact hflush.2
      have hstep := IQ.stepA_insert wf ops target hq p r hi' hins
      have hv : ¬ (rowVisible ops r && !r.isMark) = true := by
        rcases hr with h | ⟨_, _, h⟩ | ⟨h, _⟩
        · rw [hi'] at h; cases h
        · simp [h]
        · simp [h]
      rw [if_neg hv] at hstep
      simp only [List.cons_append, enumFrom, List.foldl_cons]
      rw [hstep]
      have hqB : ({ q with lastWidth := none, index := q.index + w, done := true, candidates := ⟨c, p, none⟩ :: stickyPush p r, pos := p } : IQ).PhaseB :=
        ⟨rfl, hq.ns, rfl, by simp⟩
      have hids : ∀ l ∈ (⟨c, p, none⟩ : Loc) :: stickyPush p r, l.id = none ∨ ∃ m ∈ all, l.id = some m.id := by
        intro l hl
        rcases List.mem_cons.mp hl with hl | hl
        · left; rw [hl]
        · unfold stickyPush at hl
          by_cases hs : r.sticky = true
          · simp only [hs, if_true] at hl
            have : l = ⟨r.cursorKey, p + 1, some r.id⟩ := by simpa using hl
            right; exact ⟨r, hall r (by simp), by rw [this]⟩
          · simp [hs] at hl
      obtain ⟨loc, h1, h2⟩ := IQ.gapB wf ops target nxt rest hn1 hn2 hn3 all gap' (p + 1) _ hqB
        (fun x hx => hrows x (List.mem_cons_of_mem _ hx)) (fun x hx => hall x (List.mem_cons_of_mem _ hx)) hnw hids
      refine ⟨loc, ?_, h2⟩
      have hf : firstInsPos p (r :: (gap' ++ [nxt])) = p := by simp [firstInsPos, hins, hi']
      rw [hf]
      simpa [gapPushes, hi', List.append_assoc] using h1
    · -- still waiting: an increment row or a dead non-insert row
      have hstep : IQ.step wf ops target q (p, r) = { q with pos := p } := by
        by_cases hi : r.isInc = true
        · exact IQ.step_inc wf ops target q p r hq.ns hi
        · have hi' : r.isInc = false := by simpa using hi
          have hins : r.insert = false := by
            cases h : r.insert
            · rfl
            · simp [h, hi'] at hflush
          rcases hr with h | ⟨_, _, h⟩ | ⟨_, h⟩
          · exact absurd h hi
          · exact IQ.stepA_dead wf ops target q p r hq.ns hq.nd hi' hins h
          · rw [hins] at h; cases h
      simp only [List.cons_append, enumFrom, List.foldl_cons]
      rw [hstep]
      have hq' : ({ q with pos := p } : IQ).PhaseA target c w := ⟨hq.nd, hq.ns, hq.emp, hq.lvc, hq.lw, hq.reach⟩
      have hex' : nxt.insert = true ∨ ∃ r' ∈ gap', r'.isInc = false ∧ r'.insert = true := by
        rcases hex with h | ⟨r', hr', h1, h2⟩
        · left; exact h
        · rcases List.mem_cons.mp hr' with he | he
          · rw [he] at h1 h2; simp [h1, h2] at hflush
          · right; exact ⟨r', he, h1, h2⟩
      obtain ⟨loc, h1, h2⟩ := ih (p + 1) _ hq' (fun x hx => hrows x (List.mem_cons_of_mem _ hx))
        (fun x hx => hall x (List.mem_cons_of_mem _ hx)) hex'
      refine ⟨loc, ?_, h2⟩
      have hpush : (if r.isInc = true then [] else stickyPush p r) = [] := by
        by_cases hi : r.isInc = true
        · simp [hi]
        · have hi' : r.isInc = false := by simpa using hi
          simp only [hi', Bool.false_eq_true, if_false]
          rcases hr with h | ⟨_, h, _⟩ | ⟨h1', h2'⟩
          · exact absurd h hi
          · unfold stickyPush; simp [sticky_of_not_mark h]
          · simp [h2', hi'] at hflush
      simp only [List.cons_append, firstInsPos, hflush, Bool.false_eq_true, if_false, gapPushes, hpush, List.nil_append]
      exact h1

/-! ### reading the result: is the new element placed after a given mark op of the gap? -/

theorem gapPushes_pos : ∀ (gap : List Op) (p : Nat), ∀ l ∈ gapPushes p gap, p + 1 ≤ l.pos ∧ l.pos ≤ p + gap.length := by
  intro gap
  induction gap with
  | nil => intro p l hl; cases hl
  | cons r rest ih =>
    intro p l hl
    simp only [gapPushes] at hl
    rcases List.mem_append.mp hl with hl | hl
    · by_cases hi : r.isInc = true
      · simp [hi] at hl
      · simp only [hi, Bool.false_eq_true, if_false] at hl
        unfold stickyPush at hl
        by_cases hs : r.sticky = true
        · simp only [hs, if_true] at hl
          have : l = ⟨r.cursorKey, p + 1, some r.id⟩ := by simpa using hl
          rw [this]; simp only [List.length_cons]; omega
        · simp [hs] at hl
    · have := ih (p + 1) l hl
      simp only [List.length_cons]; omega

theorem gapPushes_append (g₁ g₂ : List Op) : ∀ p, gapPushes p (g₁ ++ g₂) = gapPushes p g₁ ++ gapPushes (p + g₁.length) g₂ := by
  induction g₁ with
  | nil => intro p; simp [gapPushes]
  | cons r rest ih =>
    intro p
    simp only [List.cons_append, gapPushes, ih, List.length_cons, List.append_assoc]
    have : p + 1 + rest.length = p + (rest.length + 1) := by omega
    rw [this]

theorem firstInsPos_le (g₁ : List Op) (m : Op) (g₂ : List Op) (hm : (m.insert && !m.isInc) = true) :
    ∀ p, firstInsPos p (g₁ ++ m :: g₂) ≤ p + g₁.length := by
  induction g₁ with
  | nil => intro p; simp [firstInsPos, hm]
  | cons r rest ih =>
    intro p
    simp only [List.cons_append, firstInsPos, List.length_cons]
    by_cases h : (r.insert && !r.isInc) = true
    · simp only [h, if_true]; omega
    · simp only [h, Bool.false_eq_true, if_false]
      have := ih (p + 1)
      omega

theorem firstInsPos_ge (g : List Op) : ∀ p, p ≤ firstInsPos p g := by
  induction g with
  | nil => intro p; exact Nat.le_refl _
  | cons r rest ih =>
    intro p
    simp only [firstInsPos]
    by_cases h : (r.insert && !r.isInc) = true
    · simp only [h, if_true]; exact Nat.le_refl _
    · simp only [h, Bool.false_eq_true, if_false]
      have := ih (p + 1)
      omega

/-- a row that pushes: a mark op (never an increment) whose expand flag makes it sticky -/
def StickyRow (r : Op) : Prop := r.isInc = false ∧ r.sticky = true

theorem gapPushes_ne_nil_iff (g : List Op) : ∀ k, (gapPushes k g ≠ []) ↔ ∃ s ∈ g, StickyRow s := by
  induction g with
  | nil => intro k; simp [gapPushes]
  | cons r rest ih =>
    intro k
    simp only [gapPushes, List.mem_cons]
    constructor
    · intro h
      by_cases hr : (if r.isInc = true then [] else stickyPush k r) = []
      · rw [hr, List.nil_append] at h
        obtain ⟨s, hs, hss⟩ := (ih (k + 1)).mp h
        exact ⟨s, Or.inr hs, hss⟩
      · refine ⟨r, Or.inl rfl, ?_⟩
        by_cases hi : r.isInc = true
        · simp [hi] at hr
        · have hi' : r.isInc = false := by simpa using hi
          refine ⟨hi', ?_⟩
          simp only [hi', Bool.false_eq_true, if_false] at hr
          unfold stickyPush at hr
          by_cases hs : r.sticky = true
          · exact hs
          · simp [hs] at hr
    · rintro ⟨s, hs | hs, hi, hst⟩
      · rw [← hs]
        simp [hi, stickyPush, hst]
      · have := (ih (k + 1)).mpr ⟨s, hs, hi, hst⟩
        intro he
        exact this (List.append_eq_nil_iff.mp he).2

/-- The slot chosen lies after the mark op `m` of the gap (`g₁ ++ m :: g₂`, rows numbered from `p`) exactly
    when `m` is sticky or a sticky op follows it. -/
theorem gap_slot_after_iff (c : Key) (p : Nat) (g₁ : List Op) (m : Op) (g₂ : List Op) (nxt : Op)
    (hm1 : m.isMark = true) (hm2 : m.insert = true) {loc : Loc}
    (hloc : (⟨c, firstInsPos p ((g₁ ++ m :: g₂) ++ [nxt]), none⟩ :: gapPushes p (g₁ ++ m :: g₂)).getLast? = some loc) :
    (p + g₁.length < loc.pos) ↔ (m.sticky = true ∨ ∃ s ∈ g₂, StickyRow s) := by
  have hminc := isInc_of_mark hm1
  have hmf : (m.insert && !m.isInc) = true := by simp [hm2, hminc]
  have hsplit : gapPushes p (g₁ ++ m :: g₂) =
      gapPushes p g₁ ++ (stickyPush (p + g₁.length) m ++ gapPushes (p + g₁.length + 1) g₂) := by
    rw [gapPushes_append]
    simp [gapPushes, hminc]
  rw [hsplit] at hloc
  have hbase : firstInsPos p ((g₁ ++ m :: g₂) ++ [nxt]) ≤ p + g₁.length := by
    have : (g₁ ++ m :: g₂) ++ [nxt] = g₁ ++ m :: (g₂ ++ [nxt]) := by simp
    rw [this]
    exact firstInsPos_le g₁ m _ hmf p
  have hg2 := gapPushes_ne_nil_iff g₂ (p + g₁.length + 1)
  by_cases h2 : gapPushes (p + g₁.length + 1) g₂ = []
  · have hno : ¬ ∃ s ∈ g₂, StickyRow s := fun h => (hg2.mpr h) h2
    rw [h2, List.append_nil] at hloc
    by_cases hs : m.sticky = true
    · -- the last candidate is the slot after `m`
      have : loc = ⟨m.cursorKey, p + g₁.length + 1, some m.id⟩ := by
        unfold stickyPush at hloc
        simp only [hs, if_true] at hloc
        rw [← List.cons_append, List.getLast?_append] at hloc
        simpa using hloc.symm
      rw [this]
      constructor
      · intro _; left; exact hs
      · intro _; simp only; omega
    · have hsp : stickyPush (p + g₁.length) m = [] := by unfold stickyPush; simp [hs]
      rw [hsp, List.append_nil] at hloc
      constructor
      · intro hlt
        exfalso
        have hmem : loc ∈ (⟨c, firstInsPos p ((g₁ ++ m :: g₂) ++ [nxt]), none⟩ : Loc) :: gapPushes p g₁ :=
          List.mem_of_getLast? hloc
        rcases List.mem_cons.mp hmem with he | he
        · rw [he] at hlt; simp only at hlt; omega
        · have := (gapPushes_pos g₁ p loc he).2; omega
      · rintro (h | h)
        · exact absurd h hs
        · exact absurd h hno
  · have hyes : ∃ s ∈ g₂, StickyRow s := hg2.mp h2
    constructor
    · intro _; right; exact hyes
    · intro _
      -- the last candidate comes from `g₂`
      have hlast : loc ∈ gapPushes (p + g₁.length + 1) g₂ := by
        rw [← List.cons_append, ← List.append_assoc, List.getLast?_append] at hloc
        cases hg : (gapPushes (p + g₁.length + 1) g₂).getLast? with
        | none => exact absurd (by simpa using hg) h2
        | some l =>
          rw [hg] at hloc
          simp at hloc
          rw [← hloc]
          exact List.mem_of_getLast? hg
      have := (gapPushes_pos g₂ _ loc hlast).1
      omega

end AmVerif.Crdt
