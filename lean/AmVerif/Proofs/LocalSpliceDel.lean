import AmVerif.Proofs.LocalSplice
/-
  `splice_text` with deletion, part 1: the reading of a deletion on the VISIBLE element list.

  Everything here is a function of the visible state (`seqElems`: ids and register entries):
  the text an element reads as, its width in units, the number of elements a run of `n` units
  covers (`reachCount`), what the delete loop of `inner_splice` removes (`spliceRemoved`) and
  what it leaves (`spliceKept`), and the link between these widths and the widths the model's
  queries (`seekByIndex`, `insertRef`: over `seqRegs`) use.
-/
namespace AmVerif.Crdt
open AmVerif

/-- the text one visible element reads as: the winner's string, U+FFFC for anything else -/
def elText (p : OpId × List Entry) : Bytes :=
  match p.2.getLast? with
  | some ⟨_, .scalar (.str s)⟩ => s
  | _ => [0xEF, 0xBF, 0xBC]

theorem textOf_eq_flatMap (es : List (OpId × List Entry)) : textOf es = es.flatMap elText := rfl

theorem textOf_cons (p : OpId × List Entry) (es : List (OpId × List Entry)) :
    textOf (p :: es) = elText p ++ textOf es := by
  simp [textOf_eq_flatMap]

/-- width in units of a visible element: the width of the text it reads as -/
def elWidth (e : Enc) (p : OpId × List Entry) : Nat := width e (elText p)

/-- total width in units of a list of visible elements -/
def elUnits (e : Enc) (l : List (OpId × List Entry)) : Nat := (l.map (elWidth e)).sum

theorem elUnits_nil (e : Enc) : elUnits e [] = 0 := rfl

theorem elUnits_cons (e : Enc) (p : OpId × List Entry) (l : List (OpId × List Entry)) :
    elUnits e (p :: l) = elWidth e p + elUnits e l := by
  simp [elUnits]

theorem elUnits_append (e : Enc) (a b : List (OpId × List Entry)) :
    elUnits e (a ++ b) = elUnits e a + elUnits e b := by
  simp [elUnits]

theorem elUnits_take_le (e : Enc) (l : List (OpId × List Entry)) (k : Nat) :
    elUnits e (l.take k) ≤ elUnits e l := by
  have := elUnits_append e (l.take k) (l.drop k)
  rw [List.take_append_drop] at this
  omega

theorem elUnits_take_mono (e : Enc) (l : List (OpId × List Entry)) {a b : Nat} (h : a ≤ b) :
    elUnits e (l.take a) ≤ elUnits e (l.take b) := by
  have h1 : l.take a = (l.take b).take a := by rw [List.take_take, Nat.min_eq_left h]
  rw [h1]
  exact elUnits_take_le e _ a

theorem elUnits_take_succ (e : Enc) {l : List (OpId × List Entry)} {k : Nat} {p : OpId × List Entry}
    (h : l[k]? = some p) : elUnits e (l.take (k + 1)) = elUnits e (l.take k) + elWidth e p := by
  rw [List.take_add_one, h, elUnits_append]
  simp [elUnits]

theorem elUnits_eq_zero {e : Enc} {l : List (OpId × List Entry)} (h : elUnits e l = 0) :
    ∀ p ∈ l, elWidth e p = 0 := by
  induction l with
  | nil => intro p hp; cases hp
  | cons q l ih =>
    rw [elUnits_cons] at h
    intro p hp
    rcases List.mem_cons.mp hp with rfl | hp
    · omega
    · exact ih (by omega) p hp

/-! ### how many elements a run of `n` units covers -/

/-- the least number of leading elements of `l` whose widths reach `n` units — all of `l` if
    they never do -/
def reachCount (e : Enc) : Nat → List (OpId × List Entry) → Nat
  | _, [] => 0
  | n, p :: l => if n = 0 then 0 else reachCount e (n - elWidth e p) l + 1

theorem reachCount_cons (e : Enc) (n : Nat) (p : OpId × List Entry) (l : List (OpId × List Entry)) :
    reachCount e n (p :: l) = if n = 0 then 0 else reachCount e (n - elWidth e p) l + 1 := rfl

theorem reachCount_zero (e : Enc) (l : List (OpId × List Entry)) : reachCount e 0 l = 0 := by
  cases l <;> simp [reachCount]

theorem reachCount_le_length (e : Enc) : ∀ (n : Nat) (l : List (OpId × List Entry)),
    reachCount e n l ≤ l.length
  | _, [] => by simp [reachCount]
  | n, p :: l => by
    rw [reachCount_cons]
    split
    · omega
    · have := reachCount_le_length e (n - elWidth e p) l
      simp; omega

/-- the covered elements reach `n` units, if the list has that many -/
theorem reachCount_reaches (e : Enc) : ∀ (n : Nat) (l : List (OpId × List Entry)),
    n ≤ elUnits e l → n ≤ elUnits e (l.take (reachCount e n l))
  | n, [], h => by simpa [reachCount] using h
  | n, p :: l, h => by
    rw [reachCount_cons]
    split
    · omega
    · rw [elUnits_cons] at h
      have := reachCount_reaches e (n - elWidth e p) l (by omega)
      rw [List.take_succ_cons, elUnits_cons]
      omega

/-- no shorter run reaches `n` units -/
theorem reachCount_min (e : Enc) : ∀ (n : Nat) (l : List (OpId × List Entry)) (i : Nat),
    i < reachCount e n l → elUnits e (l.take i) < n
  | _, [], i, h => by simp [reachCount] at h
  | n, p :: l, i, h => by
    rw [reachCount_cons] at h
    split at h
    · omega
    · cases i with
      | zero => simp [elUnits_nil]; omega
      | succ i =>
        have := reachCount_min e (n - elWidth e p) l i (by omega)
        rw [List.take_succ_cons, elUnits_cons]
        omega

/-- a list shorter than `n` units is covered entirely -/
theorem reachCount_all (e : Enc) : ∀ (n : Nat) (l : List (OpId × List Entry)),
    elUnits e l < n → reachCount e n l = l.length
  | _, [], _ => by simp [reachCount]
  | n, p :: l, h => by
    rw [elUnits_cons] at h
    rw [reachCount_cons, if_neg (by omega), reachCount_all e (n - elWidth e p) l (by omega)]
    simp

/-- the three properties determine the count -/
theorem reachCount_unique {e : Enc} {n : Nat} {l : List (OpId × List Entry)} {j : Nat}
    (h1 : n ≤ elUnits e (l.take j)) (h2 : 0 < j → elUnits e (l.take (j - 1)) < n) :
    reachCount e n l = j := by
  have hn : n ≤ elUnits e l := Nat.le_trans h1 (elUnits_take_le e l j)
  have ha := reachCount_reaches e n l hn
  rcases Nat.lt_trichotomy (reachCount e n l) j with hlt | heq | hgt
  · have := h2 (by omega)
    have := elUnits_take_mono e l (show reachCount e n l ≤ j - 1 by omega)
    omega
  · exact heq
  · have := reachCount_min e n l j hgt
    omega

/-! ### what the delete loop removes and what it leaves -/

/-- the elements a deletion of `n` units starting at the head of `l` leaves: elements of
    width 0 are stepped over (they cover no unit, `seek_ops_by_index` never finds them), every
    other element is removed whole until `n` units are gone -/
def spliceKept (e : Enc) : Nat → List (OpId × List Entry) → List (OpId × List Entry)
  | _, [] => []
  | n, p :: l =>
    if n = 0 then p :: l
    else if elWidth e p = 0 then p :: spliceKept e n l
    else spliceKept e (n - elWidth e p) l

/-- the elements that deletion removes, in order -/
def spliceRemoved (e : Enc) : Nat → List (OpId × List Entry) → List (OpId × List Entry)
  | _, [] => []
  | n, p :: l =>
    if n = 0 then []
    else if elWidth e p = 0 then spliceRemoved e n l
    else p :: spliceRemoved e (n - elWidth e p) l

theorem spliceKept_cons (e : Enc) (n : Nat) (p : OpId × List Entry) (l : List (OpId × List Entry)) :
    spliceKept e n (p :: l) =
      if n = 0 then p :: l else if elWidth e p = 0 then p :: spliceKept e n l
      else spliceKept e (n - elWidth e p) l := rfl

theorem spliceRemoved_cons (e : Enc) (n : Nat) (p : OpId × List Entry) (l : List (OpId × List Entry)) :
    spliceRemoved e n (p :: l) =
      if n = 0 then [] else if elWidth e p = 0 then spliceRemoved e n l
      else p :: spliceRemoved e (n - elWidth e p) l := rfl

theorem spliceKept_zero (e : Enc) (l : List (OpId × List Entry)) : spliceKept e 0 l = l := by
  cases l <;> simp [spliceKept]

theorem spliceRemoved_zero (e : Enc) (l : List (OpId × List Entry)) : spliceRemoved e 0 l = [] := by
  cases l <;> simp [spliceRemoved]

/-- a run of zero-width elements in front is kept, whatever is deleted -/
theorem spliceKept_zero_prefix (e : Enc) (n : Nat) :
    ∀ (z l : List (OpId × List Entry)), (∀ p ∈ z, elWidth e p = 0) →
      spliceKept e n (z ++ l) = z ++ spliceKept e n l
  | [], _, _ => rfl
  | q :: z, l, h => by
    have hq := h q List.mem_cons_self
    have ih := spliceKept_zero_prefix e n z l (fun p hp => h p (List.mem_cons_of_mem _ hp))
    rw [List.cons_append, spliceKept_cons]
    by_cases hn : n = 0
    · subst hn; simp [spliceKept_zero]
    · rw [if_neg hn, if_pos hq, ih]; rfl

theorem spliceRemoved_zero_prefix (e : Enc) (n : Nat) :
    ∀ (z l : List (OpId × List Entry)), (∀ p ∈ z, elWidth e p = 0) →
      spliceRemoved e n (z ++ l) = spliceRemoved e n l
  | [], _, _ => rfl
  | q :: z, l, h => by
    have hq := h q List.mem_cons_self
    have ih := spliceRemoved_zero_prefix e n z l (fun p hp => h p (List.mem_cons_of_mem _ hp))
    rw [List.cons_append]
    by_cases hn : n = 0
    · subst hn; simp [spliceRemoved_zero]
    · rw [spliceRemoved_cons, if_neg hn, if_pos hq]
      exact ih

theorem spliceKept_all_zero (e : Enc) (n : Nat) {l : List (OpId × List Entry)}
    (h : ∀ p ∈ l, elWidth e p = 0) : spliceKept e n l = l := by
  have := spliceKept_zero_prefix e n l [] h
  simpa [spliceKept] using this

theorem spliceRemoved_all_zero (e : Enc) (n : Nat) {l : List (OpId × List Entry)}
    (h : ∀ p ∈ l, elWidth e p = 0) : spliceRemoved e n l = [] := by
  have := spliceRemoved_zero_prefix e n l [] h
  simpa [spliceRemoved] using this

theorem spliceKept_cons_pos (e : Enc) {n : Nat} {p : OpId × List Entry} (l : List (OpId × List Entry))
    (hn : 0 < n) (hw : 0 < elWidth e p) : spliceKept e n (p :: l) = spliceKept e (n - elWidth e p) l := by
  rw [spliceKept_cons, if_neg (by omega), if_neg (by omega)]

theorem spliceRemoved_cons_pos (e : Enc) {n : Nat} {p : OpId × List Entry} (l : List (OpId × List Entry))
    (hn : 0 < n) (hw : 0 < elWidth e p) :
    spliceRemoved e n (p :: l) = p :: spliceRemoved e (n - elWidth e p) l := by
  rw [spliceRemoved_cons, if_neg (by omega), if_neg (by omega)]

theorem spliceRemoved_sublist (e : Enc) : ∀ (n : Nat) (l : List (OpId × List Entry)),
    List.Sublist (spliceRemoved e n l) l
  | _, [] => by simp [spliceRemoved]
  | n, p :: l => by
    rw [spliceRemoved_cons]
    split
    · exact List.nil_sublist _
    · split
      · exact List.Sublist.cons _ (spliceRemoved_sublist e n l)
      · exact List.Sublist.cons_cons _ (spliceRemoved_sublist e _ l)

/-- only elements of positive width are removed -/
theorem spliceRemoved_pos (e : Enc) : ∀ (n : Nat) (l : List (OpId × List Entry)) (q : OpId × List Entry),
    q ∈ spliceRemoved e n l → 0 < elWidth e q
  | _, [], q, h => by simp [spliceRemoved] at h
  | n, p :: l, q, h => by
    rw [spliceRemoved_cons] at h
    split at h
    · cases h
    · split at h
      · exact spliceRemoved_pos e n l q h
      · rcases List.mem_cons.mp h with rfl | h
        · omega
        · exact spliceRemoved_pos e _ l q h

/-- without zero-width elements in the covered run, what is left is the list without the run … -/
theorem spliceKept_eq_drop (e : Enc) : ∀ (n : Nat) (l : List (OpId × List Entry)),
    (∀ p ∈ l.take (reachCount e n l), 0 < elWidth e p) → spliceKept e n l = l.drop (reachCount e n l)
  | _, [], _ => by simp [spliceKept]
  | n, p :: l, h => by
    rw [spliceKept_cons, reachCount_cons]
    by_cases hn : n = 0
    · simp [hn]
    · rw [if_neg hn, if_neg hn]
      have hr : reachCount e n (p :: l) = reachCount e (n - elWidth e p) l + 1 := by
        rw [reachCount_cons, if_neg hn]
      rw [hr, List.take_succ_cons] at h
      have hp := h p List.mem_cons_self
      rw [if_neg (by omega), List.drop_succ_cons]
      exact spliceKept_eq_drop e _ l (fun q hq => h q (List.mem_cons_of_mem _ hq))

/-- … and what is removed is the run -/
theorem spliceRemoved_eq_take (e : Enc) : ∀ (n : Nat) (l : List (OpId × List Entry)),
    (∀ p ∈ l.take (reachCount e n l), 0 < elWidth e p) → spliceRemoved e n l = l.take (reachCount e n l)
  | _, [], _ => by simp [spliceRemoved]
  | n, p :: l, h => by
    rw [spliceRemoved_cons, reachCount_cons]
    by_cases hn : n = 0
    · simp [hn]
    · rw [if_neg hn, if_neg hn]
      have hr : reachCount e n (p :: l) = reachCount e (n - elWidth e p) l + 1 := by
        rw [reachCount_cons, if_neg hn]
      rw [hr, List.take_succ_cons] at h
      have hp := h p List.mem_cons_self
      rw [if_neg (by omega), List.take_succ_cons]
      congr 1
      exact spliceRemoved_eq_take e _ l (fun q hq => h q (List.mem_cons_of_mem _ hq))

/-- when zero-width elements read as the empty string (always so in UTF-8 units, and in every
    encoding for strings that start with a non-continuation byte), the TEXT left is the text
    without the covered run, zero-width elements or not -/
theorem textOf_spliceKept (e : Enc) : ∀ (n : Nat) (l : List (OpId × List Entry)),
    (∀ p ∈ l, elWidth e p = 0 → elText p = []) →
      textOf (spliceKept e n l) = textOf (l.drop (reachCount e n l))
  | _, [], _ => by simp [spliceKept]
  | n, p :: l, h => by
    rw [spliceKept_cons, reachCount_cons]
    have ih := fun m => textOf_spliceKept e m l (fun q hq => h q (List.mem_cons_of_mem _ hq))
    by_cases hn : n = 0
    · simp [hn]
    · rw [if_neg hn, if_neg hn, List.drop_succ_cons]
      by_cases hw : elWidth e p = 0
      · rw [if_pos hw, textOf_cons, h p List.mem_cons_self hw, hw, ih]
        simp
      · rw [if_neg hw, ih]

theorem width_utf8_eq_zero {s : Bytes} (h : width .utf8 s = 0) : s = [] := by
  simpa [width] using h

/-- in UTF-8 units an element of width 0 reads as the empty string -/
theorem elText_nil_of_width_utf8 {p : OpId × List Entry} (h : elWidth .utf8 p = 0) : elText p = [] :=
  width_utf8_eq_zero h

/-- a string that starts with a non-continuation byte (every non-empty valid UTF-8 string) has
    positive width in every encoding -/
theorem width_pos_of_lead (e : Enc) (b : UInt8) (s : Bytes) (hb : ¬ (b.toNat / 64 = 2)) :
    0 < width e (b :: s) := by
  have hf : (List.filter (fun b : UInt8 => !(b.toNat / 64 == 2)) (b :: s)).length ≥ 1 := by
    rw [List.filter_cons]
    simp [hb]
  cases e <;> simp only [width] <;> first | omega | simp

/-! ### the widths of the model's queries are the widths of the visible elements -/

theorem regWidth_eq_elWidth {e : Enc} {ops : List Op} {obj : ObjId} {p : OpId × List Op}
    (h : p ∈ seqRegs ops obj) : regWidth e true p.2 = elWidth e (regEntry ops p) := by
  obtain ⟨id, r⟩ := p
  obtain ⟨c, _, _, _, hr, hne⟩ := mem_seqRegs h
  have hlast : r.getLast? = some (r.getLast hne) := List.getLast?_eq_some_getLast hne
  have hv : (r.getLast hne).isValue = true := by
    apply isValue_of_mem_regOps (ops := ops) (sel := elemSel obj id)
    rw [← elemRegOps_eq, ← hr]
    exact List.getLast_mem hne
  unfold regWidth elWidth elText regEntry
  simp only [List.getLast?_map, hlast, Option.map_some]
  generalize r.getLast hne = o at hv
  unfold opWidth entryOf
  cases ha : o.action with
  | put v => cases v <;> simp
  | make t => simp
  | del => simp [Op.isValue, ha] at hv
  | inc n => simp [Op.isValue, ha] at hv
  | markBegin a b c => simp [Op.isValue, ha] at hv
  | markEnd a => simp [Op.isValue, ha] at hv

theorem unitsLen_eq_elUnits_of {e : Enc} {ops : List Op} {regs : List (OpId × List Op)}
    (h : ∀ p ∈ regs, regWidth e true p.2 = elWidth e (regEntry ops p)) :
    unitsLen e true regs = elUnits e (regs.map (regEntry ops)) := by
  induction regs with
  | nil => rfl
  | cons p regs ih =>
    rw [unitsLen_cons, List.map_cons, elUnits_cons, h p List.mem_cons_self,
      ih (fun q hq => h q (List.mem_cons_of_mem _ hq))]

theorem seqElems_eq_map_regEntry (ops : List Op) (obj : ObjId) :
    seqElems ops obj = (seqRegs ops obj).map (regEntry ops) := seqElems_eq_map_seqRegs ops obj

/-- the length in units the queries see for the first `k` visible elements is the total width
    of the text those elements read as -/
theorem unitsLen_take_eq (e : Enc) (ops : List Op) (obj : ObjId) (k : Nat) :
    unitsLen e true ((seqRegs ops obj).take k) = elUnits e ((seqElems ops obj).take k) := by
  rw [seqElems_eq_map_regEntry, ← List.map_take]
  exact unitsLen_eq_elUnits_of (fun p hp => regWidth_eq_elWidth (List.mem_of_mem_take hp))

theorem unitsLen_eq_elUnits (e : Enc) (ops : List Op) (obj : ObjId) :
    unitsLen e true (seqRegs ops obj) = elUnits e (seqElems ops obj) := by
  rw [seqElems_eq_map_regEntry]
  exact unitsLen_eq_elUnits_of (fun p hp => regWidth_eq_elWidth hp)

end AmVerif.Crdt
