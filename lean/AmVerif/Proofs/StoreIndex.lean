import AmVerif.Proofs.StoreBuild
/-
  The index columns (`index.visible`, `index.top`, `index.text`) that `insertRemote` maintains
  incrementally (`OpSet::add_succ`, the `Top` state machine with `OpSet::conflict / expose`,
  `Columns::splice`) against their from-scratch definitions (`IndexBuilder`): `visibleCol`, `topCol`,
  `widthCol`.
  §1 the `visible` column, §2 the `text` column follows the `top` column.
-/
namespace AmVerif.Crdt
open AmVerif

/-! ## §1 the `visible` column -/

theorem mem_insertSucc {id : OpId} {inc : Option Int} {q : OpId × Option Int}
    {l : List (OpId × Option Int)} : q ∈ insertSucc id inc l ↔ q = (id, inc) ∨ q ∈ l := by
  induction l with
  | nil => simp [insertSucc]
  | cons x xs ih =>
    simp only [insertSucc]
    split
    · simp
    · simp only [List.mem_cons, ih]
      constructor
      · rintro (h | h | h) <;> simp [h]
      · rintro (h | h | h) <;> simp [h]

theorem insertSucc_ne_nil (id : OpId) (inc : Option Int) (l : List (OpId × Option Int)) :
    insertSucc id inc l ≠ [] := by
  intro h
  have : (id, inc) ∈ insertSucc id inc l := mem_insertSucc.mpr (.inl rfl)
  rw [h] at this; cases this

theorem all_insertSucc (id : OpId) (inc : Option Int) (l : List (OpId × Option Int)) :
    (insertSucc id inc l).all (fun p => p.2.isSome) = (inc.isSome && l.all (fun p => p.2.isSome)) := by
  rw [Bool.eq_iff_iff]
  simp only [List.all_eq_true, Bool.and_eq_true, mem_insertSucc]
  constructor
  · intro h
    exact ⟨h (id, inc) (.inl rfl), fun q hq => h q (.inr hq)⟩
  · rintro ⟨h1, h2⟩ q (rfl | hq)
    · exact h1
    · exact h2 q hq

/-- visibility of a row as a function of its op and successor list -/
theorem isVisible_congr {x y : Row} (ho : x.op = y.op) (hs : x.succ = y.succ) : x.isVisible = y.isVisible := by
  unfold Row.isVisible
  rw [ho, hs]

/-- visibility after one more successor -/
theorem isVisible_insertSucc (x : Row) (id : OpId) (inc : Option Int) (y : Row) (ho : y.op = x.op)
    (hs : y.succ = insertSucc id inc x.succ) (hinc : inc.isSome = true → x.op.isCounterVal = true) :
    y.isVisible = (x.isVisible && inc.isSome) := by
  unfold Row.isVisible
  rw [ho, hs]
  cases hi : x.op.isInc
  · simp only [Bool.false_eq_true, if_false]
    cases hc : x.op.isCounterVal
    · simp only [Bool.false_eq_true, if_false]
      have h1 : (insertSucc id inc x.succ).isEmpty = false := by
        cases h : insertSucc id inc x.succ with
        | nil => exact absurd h (insertSucc_ne_nil _ _ _)
        | cons _ _ => rfl
      have h2 : inc.isSome = false := by
        cases h : inc.isSome
        · rfl
        · rw [hinc h] at hc; cases hc
      rw [h1, h2, Bool.and_false]
    · simp only [if_true]
      rw [all_insertSucc, Bool.and_comm]
  · simp

theorem incFor_isSome_counter {o x : Op} (h : (incFor o x).isSome = true) : x.isCounterVal = true := by
  rw [incFor_isSome] at h
  simp only [Bool.and_eq_true] at h
  exact h.2

/-- `index.visible` of a row after the op: the new row by `Op::visible`, a row named with `inc = None`
    is no longer visible, every other row is unchanged -/
theorem updateRow_isVisible (w : Op → Nat) (o : Op) (acc : TopAcc) (x : Row) :
    (updateRow w o acc x).isVisible =
      if x.op.id == o.id then x.isVisible else (x.isVisible && !deletes o x) := by
  have hop := updateRow_op w o acc x
  have hsucc := updateRow_succ w o acc x
  split
  · rename_i h
    rw [h] at hsucc
    exact isVisible_congr hop hsucc
  · rename_i h
    have h' : (x.op.id == o.id) = false := by simpa using h
    rw [h'] at hsucc
    simp only [Bool.false_eq_true, if_false] at hsucc
    unfold deletes
    cases hp : o.pred.contains x.op.id
    · rw [hp] at hsucc
      simp only [Bool.false_eq_true, if_false] at hsucc
      rw [isVisible_congr hop hsucc]; simp
    · rw [hp] at hsucc
      simp only [if_true] at hsucc
      rw [isVisible_insertSucc x o.id (incFor o x.op) _ hop hsucc incFor_isSome_counter]
      cases incFor o x.op <;> simp

theorem updateRow_vis (w : Op → Nat) (o : Op) (acc : TopAcc) (x : Row) :
    (updateRow w o acc x).vis =
      if x.op.id == o.id then x.isVisible else if deletes o x then false else x.vis := by
  unfold updateRow deletes
  split
  · rfl
  · dsimp only
    cases hp : o.pred.contains x.op.id
    · simp only [Bool.false_eq_true, if_false, Bool.false_and]
      split <;> split <;> rfl
    · simp only [if_true, Bool.true_and]
      cases hn : (incFor o x.op).isNone
      · simp only [Bool.false_eq_true, if_false]
        split <;> split <;> rfl
      · simp

/-- **the `visible` index column stays equal to its definition** (no hypothesis on the store's order) -/
theorem insertRemote_visibleCol (w : Op → Nat) (s : Store) (N : Op)
    (h : s.map (·.vis) = visibleCol s) :
    (insertRemote w s N).map (·.vis) = visibleCol (insertRemote w s N) := by
  have hrow : ∀ r ∈ s, r.vis = r.isVisible := by
    intro r hr
    unfold visibleCol at h
    have := List.map_inj_left.mp h r hr
    exact this
  unfold visibleCol insertRemote
  simp only [List.map_map]
  apply List.map_congr_left
  intro x hx
  simp only [Function.comp]
  rw [updateRow_vis, updateRow_isVisible]
  split
  · rfl
  · rename_i hne
    have hxs : x ∈ s := by
      split at hx
      · exact hx
      · rcases List.mem_cons.mp ((placeRow_perm _ s).mem_iff.mp hx) with h' | h'
        · subst h'; simp at hne
        · exact h'
    rw [hrow x hxs]
    cases deletes N x <;> simp

/-! ## §2 the `text` (width) column follows the `top` column -/

/-- the `text` entry of a row is its width exactly when it is a `top` row -/
def widthOk (w : Op → Nat) (r : Row) : Prop := r.width = if r.top then some (w r.op) else none

theorem updateRow_widthOk (w : Op → Nat) (o : Op) (acc : TopAcc) (x : Row) (h : widthOk w x) :
    widthOk w (updateRow w o acc x) := by
  unfold widthOk at *
  unfold updateRow
  split
  · simp
  · dsimp only
    split <;> split <;> split <;> (try split) <;> simp_all

theorem widthCol_of_rows (w : Op → Nat) (s : Store) (htop : s.map (·.top) = topCol s)
    (hw : ∀ r ∈ s, widthOk w r) : s.map (·.width) = widthCol w s := by
  unfold widthCol
  rw [← htop]
  have : ∀ (l : Store), (∀ r ∈ l, widthOk w r) →
      l.map (·.width) = (l.zip (l.map (·.top))).map (fun p => if p.2 then some (w p.1.op) else none) := by
    intro l hl
    induction l with
    | nil => rfl
    | cons x xs ih =>
      simp only [List.map_cons, List.zip_cons_cons]
      rw [← ih (fun r hr => hl r (List.mem_cons_of_mem _ hr))]
      congr 1
      exact hl x List.mem_cons_self
  exact this s hw

/-- **the `text` index column**: every row's entry is its width iff it is a `top` row, before and
    after `insertRemote` -/
theorem insertRemote_widthOk (w : Op → Nat) (s : Store) (N : Op) (h : ∀ r ∈ s, widthOk w r) :
    ∀ r ∈ insertRemote w s N, widthOk w r := by
  intro r hr
  unfold insertRemote at hr
  obtain ⟨x, hx, rfl⟩ := List.mem_map.mp hr
  apply updateRow_widthOk
  split at hx
  · exact h x hx
  · rcases List.mem_cons.mp ((placeRow_perm _ s).mem_iff.mp hx) with h' | h'
    · subst h'; simp [widthOk]
    · exact h x h'

end AmVerif.Crdt
