import AmVerif.Proofs.PatchDiff
/-
  Index accounting of the list diff: the events of the elements, emitted in document order with a
  running index, applied one after the other, turn the list of the elements visible before into the
  list of the elements visible after.
-/
namespace AmVerif.Crdt
open AmVerif

/-- what the sequence theorem needs to know about one element -/
structure ElemDiff where
  before : REntry
  after : REntry
  ev : RegEvent
  deriving Repr

def RegEvent.isInsert : RegEvent → Bool
  | .insert .. => true
  | _ => false

/-- the element's event is right for the element, an `Insert` is logged exactly for an element that
    was not visible, and a visible element that disappears is deleted -/
structure ElemOK (e : ElemDiff) : Prop where
  sound : applyEvent e.before e.ev = .ok e.after
  ins : e.before = none → e.ev.isInsert = true
  noins : e.before ≠ none → e.ev.isInsert = false
  gone : e.before ≠ none → e.after = none → e.ev = .del

/-- events with running index -/
def seqEvents : Nat → List ElemDiff → List (Nat × RegEvent)
  | _, [] => []
  | idx, e :: rest => (idx, e.ev) :: seqEvents (if e.after.isSome then idx + 1 else idx) rest

theorem seqInsert_at_end_of_prefix {α : Type} (done rest : List α) (x : α) :
    seqInsert (done ++ rest) done.length x = .ok (done ++ x :: rest) := by
  unfold seqInsert
  by_cases he : (done ++ rest).isEmpty = true
  · have : done ++ rest = [] := List.isEmpty_iff.mp he
    have hd : done = [] := (List.append_eq_nil_iff.mp this).1
    have hr : rest = [] := (List.append_eq_nil_iff.mp this).2
    simp [hd, hr]
  · simp only [he, Bool.false_eq_true, if_false]
    have : done.length ≤ (done ++ rest).length := by simp
    simp [this, List.take_left', List.drop_left']

theorem seqRemove_at_end_of_prefix {α : Type} (done rest : List α) (x : α) :
    seqRemove (done ++ x :: rest) done.length = .ok (done ++ rest) := by
  unfold seqRemove
  have : done.length < (done ++ x :: rest).length := by simp
  simp only [this, if_true]
  congr 1
  rw [List.take_left' rfl]
  have : (done ++ x :: rest).drop (done.length + 1) = rest := by
    induction done with
    | nil => rfl
    | cons d ds ih => simpa using ih
  rw [this]

theorem seqEvents_sound (R : List ElemDiff) (hok : ∀ e ∈ R, ElemOK e) : ∀ (done : List (Bool × PVal)),
    applySeqEvents (done ++ R.filterMap (·.before)) (seqEvents done.length R)
      = .ok (done ++ R.filterMap (·.after)) := by
  induction R with
  | nil => intro done; simp [seqEvents, applySeqEvents]
  | cons e rest ih =>
    intro done
    have he := hok e (by simp)
    have hrest : ∀ e' ∈ rest, ElemOK e' := fun e' h => hok e' (by simp [h])
    simp only [seqEvents, applySeqEvents, List.filterMap_cons]
    cases hb : e.before with
    | none =>
      -- a new element: inserted at the running index
      have hins := he.ins hb
      cases hev : e.ev with
      | insert v c x =>
        have hs := he.sound
        rw [hb, hev] at hs
        simp only [applyEvent, Outcome.ok.injEq] at hs
        simp only [applySeqEvent, seqInsert_at_end_of_prefix]
        rw [← hs]
        have := ih hrest (done ++ [(c, v)])
        simpa [List.append_assoc] using this
      | _ => rw [hev] at hins; simp [RegEvent.isInsert] at hins
    | some b =>
      have hnoins := he.noins (by rw [hb]; simp)
      have hs := he.sound
      rw [hb] at hs
      have hidx : (done ++ b :: rest.filterMap (·.before))[done.length]? = some b := by simp
      cases ha : e.after with
      | none =>
        -- the element disappears: deleted, the index stays
        have hdel := he.gone (by rw [hb]; simp) ha
        simp only [hdel, applySeqEvent, seqRemove_at_end_of_prefix, Option.isSome_none, Bool.false_eq_true, if_false]
        exact ih hrest done
      | some a =>
        rw [ha] at hs
        have hset : (done ++ b :: rest.filterMap (·.before)).set done.length a
            = done ++ a :: rest.filterMap (·.before) := by simp
        have hnext := ih hrest (done ++ [a])
        simp only [List.length_append, List.length_cons, List.length_nil, Nat.zero_add, List.append_assoc,
          List.cons_append, List.nil_append] at hnext
        cases hev : e.ev with
        | insert v c x => rw [hev] at hnoins; simp [RegEvent.isInsert] at hnoins
        | del => rw [hev] at hs; simp [applyEvent] at hs
        | nothing =>
          rw [hev] at hs
          simp only [applyEvent, Outcome.ok.injEq, Option.some.injEq] at hs
          subst hs
          simpa [applySeqEvent] using hnext
        | put v c x =>
          rw [hev] at hs
          simp only [applySeqEvent, hidx, hs, hset, Option.isSome_some, if_true]
          exact hnext
        | inc n =>
          rw [hev] at hs
          simp only [applySeqEvent, hidx, hs, hset, Option.isSome_some, if_true]
          exact hnext
        | incFlag n =>
          rw [hev] at hs
          simp only [applySeqEvent, hidx, hs, hset, Option.isSome_some, if_true]
          exact hnext
        | flag =>
          rw [hev] at hs
          simp only [applySeqEvent, hidx, hs, hset, Option.isSome_some, if_true]
          exact hnext

/-! ### the list loop: which kind of item comes out -/

theorem listDiffLoop_dels (ds : List DItem) : ∀ (st : DState) (d : DItem) (last : DOut),
    allDel (d :: ds) → st.lastVisible = some last →
    listDiffLoop st (d :: ds) =
      some { (last.updateList (st.lastIsSame || last.diff == .same)) with conflict := decide (st.numNew > 1) } := by
  induction ds with
  | nil =>
    intro st d last h hl
    have hd : d.diff = .del := (allDel_cons.mp h).1
    simp [listDiffLoop, diffCounts, hd, hl]
  | cons d2 ds ih =>
    intro st d last h hl
    have hd : d.diff = .del := (allDel_cons.mp h).1
    have h2 := (allDel_cons.mp h).2
    rw [listDiffLoop]
    simp only [diffCounts, hd]
    have := ih ⟨st.lastIsSame, st.numNew, st.numOld + 1, st.lastVisible⟩ d2 last h2 hl
    simpa using this

/-- the list loop's state after the items of `p` -/
def skipStateL : DState → List DItem → DItem → DState
  | st, [], _ => st
  | st, it :: rest, w =>
    let c := diffCounts st it
    let oldConflict := it.diff == .same && decide (c.2.2.1 > 1)
    let conflict := decide (c.2.1 > 1) && !oldConflict
    let nxt := match rest with | [] => w | n :: _ => n
    let lv := if it.diff != .del && nxt.diff == .del then some (listDiffItem it conflict c.2.2.2 c.2.2.1) else st.lastVisible
    skipStateL ⟨c.1, c.2.1, c.2.2.1, lv⟩ rest w

theorem listDiffLoop_skip (p : List DItem) : ∀ (st : DState) (w : DItem) (tl : List DItem),
    listDiffLoop st (p ++ w :: tl) = listDiffLoop (skipStateL st p w) (w :: tl) := by
  induction p with
  | nil => intro st w tl; rfl
  | cons it rest ih =>
    intro st w tl
    cases rest with
    | nil =>
      show listDiffLoop st (it :: w :: tl) = _
      rw [listDiffLoop]
      simp only [skipStateL]
    | cons n r =>
      show listDiffLoop st (it :: (n :: r ++ w :: tl)) = _
      rw [listDiffLoop]
      have := ih ⟨(diffCounts st it).1, (diffCounts st it).2.1, (diffCounts st it).2.2.1,
        if it.diff != .del && n.diff == .del then some (listDiffItem it (decide ((diffCounts st it).2.1 > 1) && !(it.diff == .same && decide ((diffCounts st it).2.2.1 > 1))) (diffCounts st it).2.2.2 (diffCounts st it).2.2.1) else st.lastVisible⟩ w tl
      simp only [List.cons_append] at this ⊢
      simpa [skipStateL] using this

theorem skipStateL_counts (p : List DItem) : ∀ (st : DState) (w : DItem),
    (skipStateL st p w).numNew = st.numNew + cntAfter p ∧ (skipStateL st p w).numOld = st.numOld + cntBefore p := by
  induction p with
  | nil => intro st w; simp [skipStateL, cntAfter, cntBefore]
  | cons it rest ih =>
    intro st w
    simp only [skipStateL]
    have := ih ⟨(diffCounts st it).1, (diffCounts st it).2.1, (diffCounts st it).2.2.1,
      if it.diff != .del && (match rest with | [] => w | n :: _ => n).diff == .del then some (listDiffItem it (decide ((diffCounts st it).2.1 > 1) && !(it.diff == .same && decide ((diffCounts st it).2.2.1 > 1))) (diffCounts st it).2.2.2 (diffCounts st it).2.2.1) else st.lastVisible⟩ w
    obtain ⟨h1, h2⟩ := this
    constructor
    · rw [h1]; cases hd : it.diff <;> simp [diffCounts, hd, cntAfter, List.filter_cons, DItem.visAfter] <;> omega
    · rw [h2]; cases hd : it.diff <;> simp [diffCounts, hd, cntBefore, List.filter_cons, DItem.visBefore] <;> omega

theorem cntBefore_append (a b : List DItem) : cntBefore (a ++ b) = cntBefore a + cntBefore b := by
  simp [cntBefore, List.filter_append]

/-- a put (rather than an insert) is logged exactly when the element was visible before -/
theorem listDiff_update (p dels : List DItem) (w : DItem) (hw : w.diff ≠ .del) (hd : allDel dels)
    (o : DOut) (ho : listDiff (p ++ w :: dels) = some o) (hadd : o.diff = .add) :
    o.update = decide (cntBefore (p ++ w :: dels) > 0) := by
  have hcnt := skipStateL_counts p {} w
  simp only [Nat.zero_add] at hcnt
  obtain ⟨_, hno⟩ := hcnt
  unfold listDiff at ho
  rw [listDiffLoop_skip] at ho
  cases dels with
  | nil =>
    rw [listDiffLoop] at ho
    cases hdw : w.diff with
    | del => exact absurd hdw hw
    | add =>
      have hvb : DItem.visBefore w = false := by simp [DItem.visBefore, hdw]
      simp [diffCounts, hdw, listDiffItem, hno] at ho
      subst ho
      simp [cntBefore_append, cntBefore, List.filter_cons, hvb]
    | same =>
      have hvb : DItem.visBefore w = true := by simp [DItem.visBefore, hdw]
      have hpos : cntBefore (p ++ [w]) > 0 := by
        have : w ∈ (p ++ [w]).filter DItem.visBefore := List.mem_filter.mpr ⟨by simp, hvb⟩
        exact List.length_pos_of_mem this
      simp only [diffCounts, hdw, show (Diff.same == Diff.del) = false from rfl, Bool.false_eq_true,
        if_false, Option.some.injEq] at ho
      split at ho
      · subst ho; simp [DOut.updateList, hpos]
      · subst ho; simp [listDiffItem, hdw] at hadd
  | cons d ds =>
    have hdd : d.diff = .del := (allDel_cons.mp hd).1
    have hvb : DItem.visBefore d = true := by simp [DItem.visBefore, hdd]
    rw [listDiffLoop] at ho
    have hwne : (w.diff != .del) = true := by simp [hw]
    simp only [hwne, hdd, beq_self_eq_true, Bool.and_self, if_true] at ho
    rw [listDiffLoop_dels ds _ d _ hd rfl] at ho
    simp only [Option.some.injEq] at ho
    subst ho
    have hpos : cntBefore (p ++ w :: d :: ds) > 0 := by
      have : d ∈ (p ++ w :: d :: ds).filter DItem.visBefore := List.mem_filter.mpr ⟨by simp, hvb⟩
      exact List.length_pos_of_mem this
    simp [DOut.updateList, hpos]

/-- the item the map loop returns is a deletion exactly when nothing is visible afterwards -/
theorem mapDiff_vis (p dels : List DItem) (w : DItem) (hw : w.diff ≠ .del) (hd : allDel dels)
    (o : DOut) (ho : mapDiff (p ++ w :: dels) = some o) : o.diff ≠ .del := by
  unfold mapDiff at ho
  rw [mapDiffLoop_skip] at ho
  cases dels with
  | nil =>
    rw [mapDiffLoop] at ho
    cases hdw : w.diff with
    | del => exact absurd hdw hw
    | add =>
      simp [diffCounts, hdw, diffItem] at ho
      subst ho; simp
    | same =>
      simp only [diffCounts, hdw, show (Diff.same == Diff.del) = false from rfl, Bool.false_eq_true,
        if_false, Option.some.injEq] at ho
      subst ho
      split <;> simp [diffItem, DOut.updateMap, hdw]
  | cons d ds =>
    have hdd : d.diff = .del := (allDel_cons.mp hd).1
    rw [mapDiffLoop] at ho
    have hwne : (w.diff != .del) = true := by simp [hw]
    simp only [hwne, hdd, beq_self_eq_true, Bool.and_self, if_true] at ho
    rw [mapDiffLoop_dels ds _ d _ hd rfl] at ho
    simp only [Option.some.injEq] at ho
    subst ho
    cases hdw : w.diff with
    | del => exact absurd hdw hw
    | add => simp [diffCounts, hdw, diffItem, DOut.updateMap]
    | same => simp [diffCounts, hdw, diffItem, DOut.updateMap]

/-! ### the elements of a list: `ElemOK` from the register theorems -/

theorem listDiff_diff_eq (items : List DItem) (lo mo : DOut) (hl : listDiff items = some lo)
    (hm : mapDiff items = some mo) : lo.diff = mo.diff := by
  have h := listDiffLoop_erase items false 0 0 none none rfl
  unfold listDiff at hl; unfold mapDiff at hm
  have e0 : ({} : DState) = ⟨false, 0, 0, none⟩ := rfl
  rw [e0] at hl hm
  rw [hl, hm] at h
  have : lo.erase = mo.erase := by simpa using h
  have := congrArg DOut.diff this
  simpa [erase_diff] using this

theorem entryBefore_none_iff (items : List DItem) : entryBefore items = none ↔ cntBefore items = 0 := by
  unfold entryBefore cntBefore
  cases h : (items.filter DItem.visBefore) with
  | nil => simp
  | cons x xs =>
    simp only [List.length_cons]
    constructor
    · intro hh
      have : ((x :: xs).getLast?).isSome = true := by simp
      cases hg : (x :: xs).getLast? with
      | none => rw [hg] at this; simp at this
      | some y => rw [hg] at hh; simp at hh
    · intro hh; omega

def elemOf (items : List DItem) (o : DOut) : ElemDiff := ⟨entryBefore items, entryAfter items, o.listEvent⟩

theorem elemOK_of_listDiff (items : List DItem) (hne : items ≠ []) (hwf : ∀ it ∈ items, it.wf = true)
    (o : DOut) (ho : listDiff items = some o) :
    ElemOK (elemOf items o) ∧ (o.diff != .del) = (entryAfter items).isSome := by
  obtain ⟨o', ho', hsound⟩ := listDiff_sound items hne hwf
  rw [ho] at ho'; cases ho'
  obtain ⟨mo, hmo, _⟩ := mapDiff_sound items hne hwf
  have hdiff := listDiff_diff_eq items o mo ho hmo
  rcases decompose items hne with hall | ⟨p, w, dels, he, hw, hd⟩
  · -- nothing visible afterwards: a deletion
    have hafter : entryAfter items = none := entryAfter_allDel hall
    have hmdel : mo.diff = .del := by
      cases items with
      | nil => exact absurd rfl hne
      | cons d ds =>
        obtain ⟨o2, ho2, hd2⟩ := mapDiffLoop_allDel ds {} d hall rfl
        unfold mapDiff at hmo; rw [ho2] at hmo; cases hmo; exact hd2
    have hodel : o.diff = .del := by rw [hdiff, hmdel]
    have hev : o.listEvent = .del := by simp [DOut.listEvent, hodel]
    have hbefore : entryBefore items ≠ none := by
      intro hb
      have h0 := (entryBefore_none_iff items).mp hb
      unfold cntBefore at h0
      rw [filter_visBefore_allDel hall] at h0
      exact hne (List.length_eq_zero_iff.mp h0)
    refine ⟨⟨hsound, ?_, ?_, ?_⟩, ?_⟩
    · intro hb; exact absurd hb hbefore
    · intro _; simp [elemOf, hev, RegEvent.isInsert]
    · intro _ _; exact hev
    · simp [hodel, hafter]
  · subst he
    have hafter := entryAfter_decomp p dels w hw hd
    have hmvis := mapDiff_vis p dels w hw hd mo hmo
    have hovis : o.diff ≠ .del := by rw [hdiff]; exact hmvis
    refine ⟨⟨hsound, ?_, ?_, ?_⟩, ?_⟩
    · -- not visible before: an insert
      intro hb
      have hb' : entryBefore (p ++ w :: dels) = none := hb
      have h0 := (entryBefore_none_iff _).mp hb'
      have hs := hsound
      rw [hb', hafter] at hs
      cases hdo : o.diff with
      | del => exact absurd hdo hovis
      | same =>
        exfalso
        simp only [DOut.listEvent, hdo] at hs
        split at hs <;> (try split at hs) <;> simp [applyEvent] at hs
      | add =>
        have hu := listDiff_update p dels w hw hd o ho hdo
        have : o.update = false := by rw [hu]; simp [h0]
        simp [elemOf, DOut.listEvent, hdo, this, RegEvent.isInsert]
    · -- visible before: never an insert
      intro hb
      have hb' : entryBefore (p ++ w :: dels) ≠ none := hb
      have hpos : cntBefore (p ++ w :: dels) > 0 := by
        have : cntBefore (p ++ w :: dels) ≠ 0 := fun h => hb' ((entryBefore_none_iff _).mpr h)
        omega
      cases hdo : o.diff with
      | del => exact absurd hdo hovis
      | same =>
        simp only [elemOf, DOut.listEvent, hdo]
        split <;> (try split) <;> simp [RegEvent.isInsert]
      | add =>
        have hu := listDiff_update p dels w hw hd o ho hdo
        have : o.update = true := by rw [hu]; simp [hpos]
        simp [elemOf, DOut.listEvent, hdo, this, RegEvent.isInsert]
    · intro _ ha
      have : entryAfter (p ++ w :: dels) = none := ha
      rw [hafter] at this; simp at this
    · rw [hafter]
      simp [hovis]

/-- `seqDiff_sound`: the events `ListDiff` emits for the elements of a list, in document order with
    its running index, applied one after the other (`hydrate::List::apply` on the shallow view), turn
    the elements visible at H1 into the elements visible at H2 — values, conflict flags, counters,
    insertions and deletions at the right positions. -/
theorem seqDiff_sound_gen (elems : List (List DItem)) (hne : ∀ items ∈ elems, items ≠ [])
    (hwf : ∀ items ∈ elems, ∀ it ∈ items, it.wf = true) : ∀ (done : List (Bool × PVal)),
    applySeqEvents (done ++ elems.filterMap entryBefore) (listDiffEvents done.length elems)
      = .ok (done ++ elems.filterMap entryAfter) := by
  -- reduce to the abstract statement over `ElemDiff`
  have key : ∀ (elems : List (List DItem)), (∀ items ∈ elems, items ≠ []) →
      (∀ items ∈ elems, ∀ it ∈ items, it.wf = true) →
      ∃ R : List ElemDiff, (∀ e ∈ R, ElemOK e) ∧ R.filterMap (·.before) = elems.filterMap entryBefore ∧
        R.filterMap (·.after) = elems.filterMap entryAfter ∧
        ∀ idx, listDiffEvents idx elems = seqEvents idx R := by
    intro elems
    induction elems with
    | nil => intro _ _; exact ⟨[], by simp, rfl, rfl, fun _ => rfl⟩
    | cons items rest ih =>
      intro hne hwf
      obtain ⟨R, hok, hb, ha, hev⟩ := ih (fun i h => hne i (by simp [h])) (fun i h => hwf i (by simp [h]))
      obtain ⟨o, ho, _⟩ := listDiff_sound items (hne items (by simp)) (hwf items (by simp))
      obtain ⟨hOK, hidx⟩ := elemOK_of_listDiff items (hne items (by simp)) (hwf items (by simp)) o ho
      refine ⟨elemOf items o :: R, ?_, ?_, ?_, ?_⟩
      · intro e he
        rcases List.mem_cons.mp he with rfl | he
        · exact hOK
        · exact hok e he
      · simp [List.filterMap_cons, elemOf, hb]
      · simp [List.filterMap_cons, elemOf, ha]
      · intro idx
        cases hx : Option.isSome (entryAfter items) <;>
          simp [listDiffEvents, ho, seqEvents, elemOf, hidx, hev, hx]
  intro done
  obtain ⟨R, hok, hb, ha, hev⟩ := key elems hne hwf
  rw [← hb, ← ha, hev]
  exact seqEvents_sound R hok done

theorem seqDiff_sound (elems : List (List DItem)) (hne : ∀ items ∈ elems, items ≠ [])
    (hwf : ∀ items ∈ elems, ∀ it ∈ items, it.wf = true) :
    applySeqEvents (elems.filterMap entryBefore) (listDiffEvents 0 elems)
      = .ok (elems.filterMap entryAfter) := by
  simpa using seqDiff_sound_gen elems hne hwf []

end AmVerif.Crdt
