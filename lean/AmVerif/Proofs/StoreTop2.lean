import AmVerif.Proofs.StoreTop
/-
  The `top` index column, part 2: the `Top` state machine of `batch.rs` run over the rows of one
  register (`topRun`), followed by `OpSet::conflict / expose` and `add_succ` (`updateRow`), leaves
  exactly the last visible row of the register marked.
-/
namespace AmVerif.Crdt
open AmVerif

variable (N : Op)

/-- visible before the op and not deleted by it -/
def live (x : Row) : Bool := x.isVisible && !deletes N x

/-- the machine on a row that is not the (visible) incoming op -/
def stepSt (st : TopState) (x : Row) : TopState :=
  if x.isVisible then
    if deletes N x then (match st with | .doc i => .expose i | s => s) else .doc x.op.id
  else st

def stAfter (st : TopState) (L : List Row) : TopState := L.foldl (stepSt N) st

/-- not the incoming op, or an invisible one (an increment) -/
def oldish (x : Row) : Prop := (x.op.id == N.id) = false ∨ x.isVisible = false

theorem topStep_oldish {acc : TopAcc} {x : Row} (h : oldish N x) :
    topStep N acc x =
      ⟨stepSt N acc.st x, acc.conflicts,
        acc.conflicted || (decide (acc.st = .change) && live N x)⟩ := by
  obtain ⟨st, cs, cf⟩ := acc
  unfold topStep stepSt live
  rcases h with h | h
  · rw [h]
    simp only [Bool.false_eq_true, if_false]
    cases hv : x.isVisible
    · simp
    · cases hd : deletes N x
      · simp
      · cases st <;> simp
  · rw [h]
    cases (x.op.id == N.id) <;> simp

theorem any_congr_mem {α : Type} {l : List α} {p q : α → Bool} (h : ∀ a ∈ l, p a = q a) :
    l.any p = l.any q := by
  induction l with
  | nil => rfl
  | cons x xs ih =>
    rw [List.any_cons, List.any_cons, h x List.mem_cons_self,
      ih (fun a ha => h a (List.mem_cons_of_mem _ ha))]

theorem stepSt_change {x : Row} : stepSt N .change x = .change ∨ live N x = true := by
  unfold stepSt live
  cases x.isVisible <;> cases deletes N x <;> simp

theorem stepSt_ne_change {st : TopState} {x : Row} (h : st ≠ .change) : stepSt N st x ≠ .change := by
  unfold stepSt
  split
  · split
    · cases st <;> simp_all
    · simp
  · exact h

theorem foldOld (L : List Row) : ∀ (acc : TopAcc), (∀ x ∈ L, oldish N x) →
    L.foldl (topStep N) acc =
      ⟨stAfter N acc.st L, acc.conflicts,
        acc.conflicted || (decide (acc.st = .change) && L.any (live N))⟩ := by
  induction L with
  | nil => intro acc _; simp [stAfter]
  | cons x xs ih =>
    intro acc h
    rw [List.foldl_cons, topStep_oldish N (h x List.mem_cons_self),
      ih _ (fun y hy => h y (List.mem_cons_of_mem _ hy))]
    simp only [stAfter, List.foldl_cons, List.any_cons]
    congr 1
    by_cases hc : acc.st = .change
    · rw [hc]
      rcases stepSt_change N (x := x) with h1 | h1
      · rw [h1]; simp [Bool.or_assoc]
      · rw [h1]; simp
    · have := stepSt_ne_change N (x := x) hc
      simp [hc, this]

/-- no live row: a `doc` state turns into `expose` iff a (deleted) visible row follows -/
theorem stAfter_noLive : ∀ (L : List Row) (st : TopState), L.any (live N) = false →
    stAfter N st L = match st with
      | .doc i => if L.any (·.isVisible) then .expose i else .doc i
      | s => s
  | [], st, _ => by cases st <;> simp [stAfter]
  | x :: xs, st, h => by
    simp only [List.any_cons, Bool.or_eq_false_iff] at h
    have ih := stAfter_noLive xs (stepSt N st x) h.2
    simp only [stAfter, List.foldl_cons] at ih ⊢
    rw [ih]
    unfold stepSt
    have hl := h.1
    unfold live at hl
    cases hv : x.isVisible
    · cases st <;> simp [hv]
    · rw [hv] at hl
      simp only [Bool.true_and, Bool.not_eq_eq_eq_not, Bool.not_false] at hl
      rw [hl]
      cases st <;> simp [hv]

/-- the state after the last live row `y`: `doc y`, or `expose y` if a deleted visible row follows -/
theorem stAfter_lastLive {y : Row} {B : List Row} (hy : live N y = true) (hB : B.any (live N) = false) :
    ∀ (A : List Row) (st : TopState),
      stAfter N st (A ++ y :: B) = if B.any (·.isVisible) then .expose y.op.id else .doc y.op.id
  | [], st => by
    have : stepSt N st y = .doc y.op.id := by
      unfold stepSt
      unfold live at hy
      simp only [Bool.and_eq_true, Bool.not_eq_eq_eq_not, Bool.not_true] at hy
      rw [hy.1, hy.2]; simp
    simp only [List.nil_append, stAfter, List.foldl_cons, this]
    have := stAfter_noLive N B (.doc y.op.id) hB
    simpa [stAfter] using this
  | a :: A, st => by
    have := stAfter_lastLive hy hB A (stepSt N st a)
    simpa [stAfter] using this

theorem exists_last {α : Type} (p : α → Bool) : ∀ {L : List α}, L.any p = true →
    ∃ A y B, L = A ++ y :: B ∧ p y = true ∧ B.any p = false
  | [], h => by simp at h
  | x :: xs, h => by
    by_cases hxs : xs.any p = true
    · obtain ⟨A, y, B, h1, h2, h3⟩ := exists_last p hxs
      exact ⟨x :: A, y, B, by rw [h1]; rfl, h2, h3⟩
    · have hxs' : xs.any p = false := by simpa using hxs
      simp only [List.any_cons, hxs', Bool.or_false] at h
      exact ⟨[], x, xs, rfl, h, hxs'⟩

/-- the final state in terms of the last live row -/
theorem stAfter_cases (L : List Row) (st : TopState) :
    (L.any (live N) = false ∧ stAfter N st L = match st with
      | .doc i => if L.any (·.isVisible) then .expose i else .doc i
      | s => s) ∨
    (∃ A y B, L = A ++ y :: B ∧ live N y = true ∧ B.any (live N) = false ∧
      stAfter N st L = if B.any (·.isVisible) then .expose y.op.id else .doc y.op.id) := by
  cases h : L.any (live N)
  · exact .inl ⟨rfl, stAfter_noLive N L st h⟩
  · obtain ⟨A, y, B, h1, h2, h3⟩ := exists_last (live N) h
    exact .inr ⟨A, y, B, h1, h2, h3, by rw [h1]; exact stAfter_lastLive N h2 h3 A st⟩

theorem live_isVisible {x : Row} (h : live N x = true) : x.isVisible = true := by
  unfold live at h
  simp only [Bool.and_eq_true] at h
  exact h.1

theorem live_notDel {x : Row} (h : live N x = true) : deletes N x = false := by
  unfold live at h
  simp only [Bool.and_eq_true, Bool.not_eq_eq_eq_not, Bool.not_true] at h
  exact h.2

/-! ### what the row gets -/

/-- the `top` flag `updateRow` leaves on a row -/
def top2 (acc : TopAcc) (x : Row) : Bool :=
  if x.op.id == N.id then x.isVisible && !acc.conflicted
  else if deletes N x then false
  else if acc.exposed == some x.op.id then true
  else if acc.conflicts.contains x.op.id then false
  else x.top

/-- the visibility `updateRow` leaves on a row -/
def vis2 (x : Row) : Bool := if x.op.id == N.id then x.isVisible else live N x

theorem updateRow_top (w : Op → Nat) (acc : TopAcc) (x : Row) :
    (updateRow w N acc x).top = top2 N acc x := by
  unfold updateRow top2 deletes
  split
  · rfl
  · dsimp only
    cases hp : N.pred.contains x.op.id
    · simp only [Bool.false_eq_true, if_false, Bool.false_and]
      split <;> split <;> simp_all
    · simp only [if_true, Bool.true_and]
      cases hn : (incFor N x.op).isNone
      · simp only [Bool.false_eq_true, if_false]
        split <;> split <;> simp_all
      · simp

theorem updateRow_vis2 (w : Op → Nat) (acc : TopAcc) (x : Row) :
    (updateRow w N acc x).isVisible = vis2 N x := by
  rw [updateRow_isVisible]
  unfold vis2 live
  rfl

/-- the decompositions of a list around two of its positions -/
theorem split_cases {α : Type} {Pre Post RP RQ : List α} {n x : α}
    (h : Pre ++ n :: Post = RP ++ x :: RQ) :
    (x = n ∧ RP = Pre ∧ RQ = Post) ∨ (∃ P2, Pre = RP ++ x :: P2 ∧ RQ = P2 ++ n :: Post) ∨
      (∃ Q1, Post = Q1 ++ x :: RQ ∧ RP = Pre ++ n :: Q1) := by
  rcases List.append_eq_append_iff.mp h with ⟨a', h1, h2⟩ | ⟨c', h1, h2⟩
  · cases a' with
    | nil =>
      simp only [List.nil_append, List.cons.injEq] at h2
      simp only [List.append_nil] at h1
      exact .inl ⟨h2.1.symm, h1, h2.2.symm⟩
    | cons a as =>
      simp only [List.cons_append, List.cons.injEq] at h2
      refine .inr (.inr ⟨as, h2.2, ?_⟩)
      rw [h1, h2.1]
  · cases c' with
    | nil =>
      simp only [List.nil_append, List.cons.injEq] at h2
      simp only [List.append_nil] at h1
      exact .inl ⟨h2.1, h1.symm, h2.2⟩
    | cons c cs =>
      simp only [List.cons_append, List.cons.injEq] at h2
      refine .inr (.inl ⟨cs, ?_, h2.2⟩)
      rw [h1, h2.1]

/-- the id a `doc` / `expose` state names is the id of a live row met on the way -/
theorem stAfter_id (L : List Row) {st : TopState} {i : OpId}
    (hst : ∀ j, st ≠ .doc j ∧ st ≠ .expose j)
    (h : stAfter N st L = .doc i ∨ stAfter N st L = .expose i) : ∃ y ∈ L, y.op.id = i ∧ live N y = true := by
  rcases stAfter_cases N L st with ⟨_, h2⟩ | ⟨A, y, B, h1, h2, _, h4⟩
  · rw [h2] at h
    cases st with
    | doc j => exact absurd rfl (hst j).1
    | expose j => exact absurd rfl (hst j).2
    | nothing => rcases h with h | h <;> cases h
    | change => rcases h with h | h <;> cases h
  · rw [h4] at h
    refine ⟨y, by rw [h1]; simp, ?_, h2⟩
    split at h
    · rcases h with h | h
      · cases h
      · exact TopState.expose.inj h
    · rcases h with h | h
      · exact TopState.doc.inj h
      · cases h

/-- **the `Top` machine is correct on one register.**  `R` = the rows of the register in store order
    (with distinct ids); before the op every old row's `top` flag says "visible and no visible old
    row behind"; after the op (`top2`, `vis2`) every row's flag says "visible and no visible row
    behind". -/
theorem machine_correct {R : List Row} (hnd : (R.map (·.op.id)).Nodup)
    (hold : ∀ RP x RQ, R = RP ++ x :: RQ → (x.op.id == N.id) = false →
      x.top = (x.isVisible && !((RQ.filter (fun y => !(y.op.id == N.id))).any (·.isVisible)))) :
    ∀ RP x RQ, R = RP ++ x :: RQ →
      top2 N (R.foldl (topStep N) {}) x = (vis2 N x && !(RQ.any (vis2 N))) := by
  -- rows with different positions have different ids
  have hid : ∀ {A : List Row} {a : Row} {B : List Row}, R = A ++ a :: B → ∀ b ∈ A ++ B, b.op.id ≠ a.op.id := by
    intro A a B hl b hb he
    rw [hl, List.map_append, List.map_cons] at hnd
    have hnd' := List.nodup_append.mp hnd
    rcases List.mem_append.mp hb with hb | hb
    · exact hnd'.2.2 b.op.id (List.mem_map.mpr ⟨b, hb, rfl⟩) a.op.id (by simp) he
    · have := (List.nodup_cons.mp hnd'.2.1).1
      exact this (List.mem_map.mpr ⟨b, hb, he⟩)
  by_cases hnew : ∃ n ∈ R, (n.op.id == N.id) = true ∧ n.isVisible = true
  · -- the incoming op is a visible row of the register
    obtain ⟨n, hn, hnid, hnv⟩ := hnew
    obtain ⟨Pre, Post, hR⟩ := List.append_of_mem hn
    have hnid' : n.op.id = N.id := by simpa using hnid
    have holdish : ∀ b ∈ Pre ++ Post, (b.op.id == N.id) = false := by
      intro b hb
      have := hid hR b hb
      rw [hnid'] at this
      simpa using this
    have hPre : ∀ b ∈ Pre, oldish N b := fun b hb => .inl (holdish b (List.mem_append_left _ hb))
    have hPost : ∀ b ∈ Post, oldish N b := fun b hb => .inl (holdish b (List.mem_append_right _ hb))
    have hvis2_old : ∀ b ∈ Pre ++ Post, vis2 N b = live N b := by
      intro b hb; unfold vis2; rw [holdish b hb]; rfl
    -- the run of the machine
    have hacc : R.foldl (topStep N) {} =
        ⟨stAfter N .change Post,
          (match stAfter N .nothing Pre with | .doc i => [i] | _ => []),
          Post.any (live N)⟩ := by
      rw [hR, List.foldl_append, List.foldl_cons, foldOld N Pre _ hPre]
      have hstep : topStep N ⟨stAfter N .nothing Pre, [], false⟩ n =
          ⟨.change, (match stAfter N .nothing Pre with | .doc i => [i] | _ => []), false⟩ := by
        unfold topStep
        simp only [hnid, hnv, if_true]
        cases stAfter N .nothing Pre <;> rfl
      have h0 : (({} : TopAcc).conflicted || (decide (({} : TopAcc).st = .change) && Pre.any (live N))) = false := by
        simp
      rw [show (({} : TopAcc).st) = .nothing from rfl, show (({} : TopAcc).conflicts) = [] from rfl, h0,
        hstep, foldOld N Post _ hPost]
      simp
    intro RP x RQ hsplit
    rw [hacc]
    rcases split_cases (hR.symm.trans hsplit) with ⟨rfl, rfl, rfl⟩ | ⟨P2, hPre2, hRQ⟩ | ⟨Q1, hPost2, hRP⟩
    · -- the incoming op itself
      unfold top2 vis2
      simp only [hnid, if_true, hnv, Bool.true_and]
      congr 1
      apply any_congr_mem
      intro b hb
      exact (hvis2_old b (List.mem_append_right _ hb)).symm
    · -- a row in front of the incoming op: it cannot be `top` any more
      have hxold : (x.op.id == N.id) = false := holdish x (by rw [hPre2]; simp)
      have hany : RQ.any (vis2 N) = true := by
        rw [hRQ, List.any_append, List.any_cons]
        have : vis2 N n = true := by unfold vis2; rw [hnid]; exact hnv
        simp [this]
      rw [hany, Bool.not_true, Bool.and_false]
      unfold top2
      rw [hxold]
      simp only [Bool.false_eq_true, if_false]
      cases hd : deletes N x
      · simp only [Bool.false_eq_true, if_false]
        -- the exposed row, if any, is behind the incoming op
        have hexp : (TopAcc.exposed ⟨stAfter N .change Post,
            (match stAfter N .nothing Pre with | .doc i => [i] | _ => []), Post.any (live N)⟩
            == some x.op.id) = false := by
          unfold TopAcc.exposed
          cases hst : stAfter N .change Post with
          | expose j =>
            obtain ⟨y, hy, hyid, _⟩ := stAfter_id N Post (st := .change) (i := j)
              (fun j => ⟨by simp, by simp⟩) (.inr hst)
            have hne := hid hsplit y (by
              rw [hRQ]; simp [hy])
            simp only [beq_eq_false_iff_ne, ne_eq, Option.some.injEq]
            rw [← hyid]; exact hne
          | _ => simp
        rw [hexp]
        simp only [Bool.false_eq_true, if_false]
        -- `x` is named a conflict iff nothing visible lies between it and the incoming op
        rcases stAfter_cases N P2 (.doc x.op.id) with ⟨hno, _⟩ | ⟨A, y, B, hP2, hy, _, _⟩
        · cases hxv : x.isVisible
          · -- not visible: its flag was already off
            have := hold RP x RQ hsplit hxold
            rw [hxv] at this
            simp only [Bool.false_and] at this
            rw [this]; simp
          · have hxl : live N x = true := by unfold live; rw [hxv, hd]; rfl
            have hst := stAfter_lastLive N hxl hno RP .nothing
            rw [← hPre2] at hst
            rw [hst]
            cases hv2 : P2.any (·.isVisible)
            · simp
            · simp only [if_true]
              have := hold RP x RQ hsplit hxold
              rw [this, hRQ, List.filter_append, List.any_append]
              have : (P2.filter (fun y => !(y.op.id == N.id))).any (·.isVisible) = true := by
                rw [List.any_filter]
                rw [List.any_eq_true] at hv2 ⊢
                obtain ⟨b, hb, hbv⟩ := hv2
                refine ⟨b, hb, ?_⟩
                rw [holdish b (by rw [hPre2]; simp [hb])]
                simpa using hbv
              rw [this]; simp
        · -- a live row between `x` and the incoming op
          have hyP2 : y ∈ P2 := by rw [hP2]; simp
          have hold' := hold RP x RQ hsplit hxold
          have hfalse : x.top = false := by
            rw [hold', hRQ, List.filter_append, List.any_append]
            have : (P2.filter (fun y => !(y.op.id == N.id))).any (·.isVisible) = true := by
              rw [List.any_filter, List.any_eq_true]
              refine ⟨y, hyP2, ?_⟩
              rw [holdish y (by rw [hPre2]; simp [hyP2]), live_isVisible N hy]
              rfl
            rw [this]; simp
          rw [hfalse]; simp
      · simp
    · -- a row behind the incoming op
      have hxold : (x.op.id == N.id) = false := holdish x (by rw [hPost2]; simp)
      have hRQold : ∀ b ∈ RQ, (b.op.id == N.id) = false :=
        fun b hb => holdish b (by rw [hPost2]; simp [hb])
      have hany : RQ.any (vis2 N) = RQ.any (live N) := by
        apply any_congr_mem
        intro b hb
        unfold vis2; rw [hRQold b hb]; rfl
      have hfilter : RQ.filter (fun y => !(y.op.id == N.id)) = RQ := by
        rw [List.filter_eq_self]
        intro b hb
        rw [hRQold b hb]; rfl
      have hold' := hold RP x RQ hsplit hxold
      rw [hfilter] at hold'
      rw [hany]
      unfold top2 vis2
      rw [hxold]
      simp only [Bool.false_eq_true, if_false]
      cases hd : deletes N x
      · simp only [Bool.false_eq_true, if_false]
        -- `x` is not among the conflicts (those are in front of the incoming op)
        have hconf : (List.contains (match stAfter N .nothing Pre with | .doc i => [i] | _ => [])
            x.op.id) = false := by
          cases hst : stAfter N .nothing Pre with
          | doc j =>
            obtain ⟨y, hy, hyid, _⟩ := stAfter_id N Pre (st := .nothing) (i := j)
              (fun j => ⟨by simp, by simp⟩) (.inl hst)
            have hne := hid hsplit y (by rw [hRP]; simp [hy])
            simp only [List.contains_cons, List.contains_nil, Bool.or_false, beq_eq_false_iff_ne, ne_eq]
            rw [← hyid]; exact fun h => hne h.symm
          | _ => simp
        rw [hconf]
        simp only [Bool.false_eq_true, if_false]
        unfold TopAcc.exposed
        rw [hPost2]
        cases hxv : x.isVisible
        · -- not visible
          have hxl : live N x = false := by unfold live; rw [hxv]; rfl
          rw [hxl, Bool.false_and]
          rw [hxv] at hold'
          simp only [Bool.false_and] at hold'
          rw [hold']
          rcases stAfter_cases N (Q1 ++ x :: RQ) .change with ⟨_, h2⟩ | ⟨A, y, B, h1, hy, _, h4⟩
          · rw [h2]; simp
          · rw [h4]
            have hyx : y.op.id ≠ x.op.id := by
              intro he
              have hyR : y ∈ Q1 ++ x :: RQ := by rw [h1]; simp
              rcases List.mem_append.mp hyR with hyQ | hyQ
              · exact hid hsplit y (by rw [hRP]; simp [hyQ]) he
              · rcases List.mem_cons.mp hyQ with rfl | hyQ
                · rw [hxl] at hy; cases hy
                · exact hid hsplit y (by simp [hyQ]) he
            cases B.any (fun r : Row => r.isVisible) <;> simp [hyx]
        · have hxl : live N x = true := by unfold live; rw [hxv, hd]; rfl
          rw [hxl, Bool.true_and]
          cases hlive : RQ.any (live N)
          · -- `x` is the last live row
            rw [stAfter_lastLive N hxl hlive Q1 .change]
            cases hv2 : RQ.any (·.isVisible)
            · simp [hold', hxv, hv2]
            · simp
          · -- a live row behind `x`
            obtain ⟨A, y, B, h1, hy, hB⟩ := exists_last (live N) hlive
            have hst := stAfter_lastLive N hy hB (Q1 ++ x :: A) .change
            rw [show (Q1 ++ x :: A) ++ y :: B = Q1 ++ x :: RQ by rw [h1]; simp] at hst
            rw [hst]
            have hyx : y.op.id ≠ x.op.id := hid hsplit y (by rw [h1]; simp)
            have hvq : RQ.any (·.isVisible) = true := by
              rw [List.any_eq_true]
              exact ⟨y, by rw [h1]; simp, live_isVisible N hy⟩
            rw [hold', hvq]
            cases B.any (fun r : Row => r.isVisible) <;> simp [hyx]
      · unfold live; rw [hd]; simp
  · -- the incoming op is not a visible row of the register (a delete, an increment, or elsewhere)
    have holdish : ∀ b ∈ R, oldish N b := by
      intro b hb
      cases hbn : (b.op.id == N.id)
      · exact .inl hbn
      · right
        cases hbv : b.isVisible
        · rfl
        · exact absurd ⟨b, hb, hbn, hbv⟩ hnew
    have hvis2 : ∀ b ∈ R, vis2 N b = live N b := by
      intro b hb
      unfold vis2
      rcases holdish b hb with h | h
      · rw [h]; rfl
      · split
        · unfold live; rw [h]; rfl
        · rfl
    have hacc : R.foldl (topStep N) {} = ⟨stAfter N .nothing R, [], false⟩ := by
      rw [foldOld N R _ holdish]
      simp
    intro RP x RQ hsplit
    rw [hacc]
    have hany : RQ.any (vis2 N) = RQ.any (live N) := by
      apply any_congr_mem
      intro b hb
      exact hvis2 b (by rw [hsplit]; simp [hb])
    have hfilter : (RQ.filter (fun y => !(y.op.id == N.id))).any (·.isVisible) = RQ.any (·.isVisible) := by
      rw [List.any_filter]
      apply any_congr_mem
      intro b hb
      rcases holdish b (by rw [hsplit]; simp [hb]) with h | h
      · rw [h]; rfl
      · rw [h]; simp
    rw [hany, hvis2 x (by rw [hsplit]; simp)]
    unfold top2
    cases hxn : (x.op.id == N.id)
    · simp only [Bool.false_eq_true, if_false]
      have hold' := hold RP x RQ hsplit hxn
      rw [hfilter] at hold'
      cases hd : deletes N x
      · simp only [Bool.false_eq_true, if_false, List.contains_nil]
        unfold TopAcc.exposed
        cases hxv : x.isVisible
        · have hxl : live N x = false := by unfold live; rw [hxv]; rfl
          rw [hxl, Bool.false_and]
          rw [hxv] at hold'
          simp only [Bool.false_and] at hold'
          rw [hold']
          rcases stAfter_cases N R .nothing with ⟨_, h2⟩ | ⟨A, y, B, h1, hy, _, h4⟩
          · rw [h2]; simp
          · rw [h4]
            have hyx : y.op.id ≠ x.op.id := by
              intro he
              have hyR : y ∈ RP ++ x :: RQ := by rw [← hsplit, h1]; simp
              rcases List.mem_append.mp hyR with hyQ | hyQ
              · exact hid hsplit y (by simp [hyQ]) he
              · rcases List.mem_cons.mp hyQ with rfl | hyQ
                · rw [hxl] at hy; cases hy
                · exact hid hsplit y (by simp [hyQ]) he
            cases B.any (fun r : Row => r.isVisible) <;> simp [hyx]
        · have hxl : live N x = true := by unfold live; rw [hxv, hd]; rfl
          rw [hxl, Bool.true_and, hsplit]
          cases hlive : RQ.any (live N)
          · rw [stAfter_lastLive N hxl hlive RP .nothing]
            cases hv2 : RQ.any (·.isVisible)
            · simp [hold', hxv, hv2]
            · simp
          · obtain ⟨A, y, B, h1, hy, hB⟩ := exists_last (live N) hlive
            have hst := stAfter_lastLive N hy hB (RP ++ x :: A) .nothing
            rw [show (RP ++ x :: A) ++ y :: B = RP ++ x :: RQ by rw [h1]; simp] at hst
            rw [hst]
            have hyx : y.op.id ≠ x.op.id := hid hsplit y (by rw [h1]; simp)
            have hvq : RQ.any (·.isVisible) = true := by
              rw [List.any_eq_true]
              exact ⟨y, by rw [h1]; simp, live_isVisible N hy⟩
            rw [hold', hvq]
            cases B.any (fun r : Row => r.isVisible) <;> simp [hyx]
      · unfold live; rw [hd]; simp
    · -- the incoming op is an invisible row (an increment)
      simp only [if_true]
      rcases holdish x (by rw [hsplit]; simp) with h | h
      · rw [h] at hxn; cases hxn
      · unfold live; rw [h]; simp

end AmVerif.Crdt
