import AmVerif.Model.Handles
/-
  Helper lemmas for `Props/C36.lean` (handle discipline of the C API, model `AmVerif.Model.Handles`).
  Core Lean only.
-/
namespace AmVerif.Handles

/-! ### `run` -/

theorem run_cons_ok {s s1 s2 : St} {e : Ev} {es : List Ev}
    (h1 : step s e = .ok s1) (h2 : run s1 es = .ok s2) : run s (e :: es) = .ok s2 := by
  simp only [run, h1, h2]

theorem run_append_ok {s s1 s2 : St} {a b : List Ev}
    (h1 : run s a = .ok s1) (h2 : run s1 b = .ok s2) : run s (a ++ b) = .ok s2 := by
  induction a generalizing s with
  | nil => simp only [run] at h1; cases h1; simpa using h2
  | cons e es ih =>
    simp only [run] at h1
    simp only [List.cons_append, run]
    cases hs : step s e with
    | error x => simp [hs] at h1
    | ok s' => simp only [hs] at h1 ⊢; exact ih h1

theorem run_append_inv {s s2 : St} {a b : List Ev} (h : run s (a ++ b) = .ok s2) :
    ∃ s1, run s a = .ok s1 ∧ run s1 b = .ok s2 := by
  induction a generalizing s with
  | nil => exact ⟨s, rfl, by simpa using h⟩
  | cons e es ih =>
    simp only [List.cons_append, run] at h ⊢
    cases hs : step s e with
    | error x => simp [hs] at h
    | ok s' => simp only [hs] at h ⊢; exact ih h

theorem run_cons_inv {s s2 : St} {e : Ev} {es : List Ev} (h : run s (e :: es) = .ok s2) :
    ∃ s1, step s e = .ok s1 ∧ run s1 es = .ok s2 := by
  simp only [run] at h
  cases hs : step s e with
  | error x => simp [hs] at h
  | ok s' => simp only [hs] at h; exact ⟨s', rfl, h⟩

/-! ### `lookup` / `filter` on association lists keyed by `Nat` -/

theorem lookup_cons_self {β} (a : Nat) (b : β) (l : List (Nat × β)) :
    List.lookup a ((a, b) :: l) = some b := by
  simp [List.lookup]

theorem lookup_cons_ne {β} {a k : Nat} (b : β) (l : List (Nat × β)) (h : k ≠ a) :
    List.lookup k ((a, b) :: l) = List.lookup k l := by
  have : (k == a) = false := by simpa using h
  simp [List.lookup, this]

theorem mem_of_lookup {β} {k : Nat} {v : β} {l : List (Nat × β)} (h : l.lookup k = some v) :
    (k, v) ∈ l := by
  induction l with
  | nil => simp [List.lookup] at h
  | cons e l ih =>
    obtain ⟨a, b⟩ := e
    by_cases hk : k = a
    · subst hk; rw [lookup_cons_self] at h; cases h; exact List.mem_cons_self
    · rw [lookup_cons_ne _ _ hk] at h; exact List.mem_cons_of_mem _ (ih h)

theorem lookup_none_of_not_mem {β} {k : Nat} {l : List (Nat × β)} (h : ∀ e ∈ l, e.1 ≠ k) :
    l.lookup k = none := by
  cases hl : l.lookup k with
  | none => rfl
  | some v => exact absurd rfl (h _ (mem_of_lookup hl))

theorem lookup_filter_ne {β} {k r : Nat} (h : k ≠ r) (l : List (Nat × β)) :
    (l.filter (fun e => e.1 != r)).lookup k = l.lookup k := by
  induction l with
  | nil => rfl
  | cons e l ih =>
    obtain ⟨a, b⟩ := e
    by_cases ha : a = r
    · subst ha
      rw [List.filter_cons_of_neg (by simp), lookup_cons_ne _ _ h, ih]
    · rw [List.filter_cons_of_pos (by simpa using ha)]
      by_cases hk : k = a
      · subst hk; rw [lookup_cons_self, lookup_cons_self]
      · rw [lookup_cons_ne _ _ hk, lookup_cons_ne _ _ hk, ih]

theorem mem_filter_ne {β} {r : Nat} {l : List (Nat × β)} {e : Nat × β} :
    e ∈ l.filter (fun e => e.1 != r) ↔ e ∈ l ∧ e.1 ≠ r := by
  simp [List.mem_filter]

theorem filter_ne_of_fresh {β} {r : Nat} {l : List (Nat × β)} (h : ∀ e ∈ l, e.1 < r) :
    l.filter (fun e => e.1 != r) = l := by
  rw [List.filter_eq_self]
  intro e he
  have := h e he
  simp; omega

/-! ### cells -/

theorem length_freshCells (a n : Nat) : (freshCells a n).length = n := by
  simp [freshCells]

theorem getElem?_freshCells {a n k : Nat} (h : k < n) : (freshCells a n)[k]? = some (k + a) := by
  simp [freshCells, h]

theorem mem_freshCells {a n x : Nat} : x ∈ freshCells a n ↔ a ≤ x ∧ x < a + n := by
  simp only [freshCells, List.mem_map, List.mem_range]
  constructor
  · rintro ⟨k, hk, rfl⟩; omega
  · intro h; exact ⟨x - a, by omega, by omega⟩

theorem count_freshCells {a n k : Nat} (h : k < n) : (freshCells a n).count (k + a) = 1 := by
  induction n generalizing k with
  | zero => omega
  | succ n ih =>
    have : freshCells a (n + 1) = freshCells a n ++ [n + a] := by
      simp [freshCells, List.range_succ]
    rw [this, List.count_append]
    by_cases hk : k < n
    · rw [ih hk]
      simp [List.count_cons]; omega
    · have : k = n := by omega
      subst this
      have : (freshCells a k).count (k + a) = 0 := by
        rw [List.count_eq_zero]; intro hm; have := mem_freshCells.mp hm; omega
      rw [this]; simp

theorem alive_iff {live : List (Nat × List Nat)} {c : Nat} :
    alive live c = true ↔ ∃ e ∈ live, c ∈ e.2 := by
  simp [alive, List.any_eq_true]

theorem occ_eq_zero {live : List (Nat × List Nat)} {c : Nat} (h : ∀ e ∈ live, c ∉ e.2) :
    occ live c = 0 := by
  induction live with
  | nil => rfl
  | cons e l ih =>
    simp only [occ]
    rw [ih (fun e he => h e (List.mem_cons_of_mem _ he)),
      List.count_eq_zero.mpr (h e List.mem_cons_self)]

theorem occ_pos_iff {live : List (Nat × List Nat)} {c : Nat} :
    0 < occ live c ↔ ∃ e ∈ live, c ∈ e.2 := by
  induction live with
  | nil => simp [occ]
  | cons e l ih =>
    simp only [occ, List.mem_cons, exists_eq_or_imp]
    rw [← ih, ← List.count_pos_iff (a := c) (l := e.2)]
    omega

theorem alive_iff_occ_pos (live : List (Nat × List Nat)) (c : Nat) :
    alive live c = true ↔ 0 < occ live c := by
  rw [alive_iff, occ_pos_iff]

/-! ### single steps -/

theorem step_alloc (s : St) (n : Nat) :
    step s (.alloc s.nextRes n) =
      .ok { s with nextRes := s.nextRes + 1, nextCell := s.nextCell + n,
                   live := (s.nextRes, freshCells s.nextCell n) :: s.live } := by
  simp [step]

theorem step_share {s : St} {r k x : Nat} {cs : List Nat}
    (h : s.live.lookup r = some cs) (hk : cs[k]? = some x) :
    step s (.share s.nextRes r k) =
      .ok { s with nextRes := s.nextRes + 1, live := (s.nextRes, [x]) :: s.live } := by
  simp [step, St.cells, h, hk]

theorem step_cat {s : St} {r1 r2 : Nat} {c1 c2 : List Nat}
    (h1 : s.live.lookup r1 = some c1) (h2 : s.live.lookup r2 = some c2) :
    step s (.cat s.nextRes r1 r2) =
      .ok { s with nextRes := s.nextRes + 1, live := (s.nextRes, c1 ++ c2) :: s.live } := by
  simp [step, St.cells, h1, h2]

theorem step_item {s : St} {r k : Nat} {cs : List Nat}
    (h : s.live.lookup r = some cs) (hk : k < cs.length) : step s (.item r k) = .ok s := by
  simp [step, St.cells, h, hk]

theorem step_view {s : St} {r : Nat} {cs : List Nat}
    (h : s.live.lookup r = some cs) : step s (.view r) = .ok s := by
  simp [step, St.cells, h]

theorem step_borrow {s : St} {r k x : Nat} {cs : List Nat}
    (h : s.live.lookup r = some cs) (hk : cs[k]? = some x) :
    step s (.borrow s.nextPtr r k) =
      .ok { s with nextPtr := s.nextPtr + 1, ptrs := (s.nextPtr, x) :: s.ptrs } := by
  simp [step, St.cells, h, hk]

theorem step_use {s : St} {p x : Nat}
    (h : s.ptrs.lookup p = some x) (ha : alive s.live x = true) : step s (.use p) = .ok s := by
  simp [step, h, ha]

theorem step_refcnt {s : St} {r k x : Nat} {cs : List Nat}
    (h : s.live.lookup r = some cs) (hk : cs[k]? = some x) :
    step s (.refcnt r k (occ s.live x)) = .ok s := by
  simp [step, St.cells, h, hk]

theorem step_free {s : St} {r : Nat} {cs : List Nat} (h : s.live.lookup r = some cs) :
    step s (.free r) = .ok { s with live := s.live.filter (fun e => e.1 != r) } := by
  simp [step, St.cells, h]

theorem run_readEvs {s : St} {r n : Nat} {cs : List Nat}
    (h : s.live.lookup r = some cs) (hn : cs.length = n) (reads : List Nat) :
    run s (readEvs r n reads) = .ok s := by
  induction reads with
  | nil => rfl
  | cons k ks ih =>
    simp only [readEvs] at ih ⊢
    by_cases hk : k < n
    · rw [List.filter_cons_of_pos (by simpa using hk), List.map_cons]
      exact run_cons_ok (step_item h (by omega)) ih
    · rw [List.filter_cons_of_neg (by simpa using hk)]; exact ih

/-! ### `comp`, one constructor at a time -/

/-- the context inside a fresh scope, and the borrow event emitted on entry -/
def scopeEnter (c : Ctx) (n : Nat) (bk : Option Nat) : List Ev × Ctx :=
  let c1 : Ctx := { c with nextRes := c.nextRes + 1, opened := (c.nextRes, n) :: c.opened }
  match bk with
  | some k =>
    if k < n then ([Ev.borrow c1.nextPtr c.nextRes k],
                    { c1 with nextPtr := c1.nextPtr + 1, scopedPtrs := c1.nextPtr :: c1.scopedPtrs })
    else ([], c1)
  | none => ([], c1)

def scopeExit (c c3 : Ctx) : Ctx := { c3 with opened := c.opened, scopedPtrs := c.scopedPtrs }

def keepEnter (c : Ctx) (n k : Nat) : List Ev × Ctx :=
  let c1 : Ctx := { c with nextRes := c.nextRes + 1, kept := (c.nextRes, n) :: c.kept }
  if k < n then ([Ev.item c.nextRes k, Ev.borrow c1.nextPtr c.nextRes k],
                  { c1 with nextPtr := c1.nextPtr + 1, keptPtrs := c1.nextPtr :: c1.keptPtrs })
  else ([], c1)

theorem comp_scoped (n : Nat) (reads : List Nat) (bk : Option Nat) (inner rest : Prog) (c : Ctx) :
    comp (.scoped n reads bk inner rest) c =
      (Ev.alloc c.nextRes n :: Ev.view c.nextRes :: readEvs c.nextRes n reads ++ (scopeEnter c n bk).1 ++
          (comp inner (scopeEnter c n bk).2).1 ++ readEvs c.nextRes n reads ++
          Ev.free c.nextRes :: (comp rest (scopeExit c (comp inner (scopeEnter c n bk).2).2)).1,
        (comp rest (scopeExit c (comp inner (scopeEnter c n bk).2).2)).2) := by
  simp only [comp]; cases bk <;> rfl

theorem comp_keep (n k : Nat) (rest : Prog) (c : Ctx) :
    comp (.keep n k rest) c =
      (Ev.alloc c.nextRes n :: (keepEnter c n k).1 ++ (comp rest (keepEnter c n k).2).1,
        (comp rest (keepEnter c n k).2).2) := by
  rw [comp]; rfl

theorem comp_useKept (j : Nat) (rest : Prog) (c : Ctx) :
    comp (.useKept j rest) c =
      ((match c.keptPtrs[j]? with | some p => [Ev.use p] | none => []) ++ (comp rest c).1,
        (comp rest c).2) := by
  rw [comp]; cases c.keptPtrs[j]? <;> rfl

theorem comp_useScoped (j : Nat) (rest : Prog) (c : Ctx) :
    comp (.useScoped j rest) c =
      ((match c.scopedPtrs[j]? with | some p => [Ev.use p] | none => []) ++ (comp rest c).1,
        (comp rest c).2) := by
  rw [comp]; cases c.scopedPtrs[j]? <;> rfl

theorem comp_detach_lt {n k : Nat} (h : k < n) (rest : Prog) (c : Ctx) :
    comp (.detach n k rest) c =
      (Ev.alloc c.nextRes n :: Ev.item c.nextRes k :: Ev.share (c.nextRes + 1) c.nextRes k ::
        Ev.refcnt c.nextRes k 2 :: Ev.free c.nextRes :: Ev.refcnt (c.nextRes + 1) 0 1 ::
        Ev.item (c.nextRes + 1) 0 :: Ev.borrow c.nextPtr (c.nextRes + 1) 0 :: Ev.use c.nextPtr ::
        Ev.free (c.nextRes + 1) ::
        (comp rest { c with nextRes := c.nextRes + 2, nextPtr := c.nextPtr + 1 }).1,
       (comp rest { c with nextRes := c.nextRes + 2, nextPtr := c.nextPtr + 1 }).2) := by
  rw [comp]; simp only [h, if_true]

theorem comp_detach_ge {n k : Nat} (h : ¬ k < n) (rest : Prog) (c : Ctx) :
    comp (.detach n k rest) c =
      (Ev.alloc c.nextRes n :: Ev.free c.nextRes :: (comp rest { c with nextRes := c.nextRes + 1 }).1,
       (comp rest { c with nextRes := c.nextRes + 1 }).2) := by
  rw [comp]; simp only [h, if_false]

theorem comp_catOf_some {a b : Ref} {ra na rb nb : Nat} (reads : List Nat) (inner rest : Prog) {c : Ctx}
    (ha : c.resolve a = some (ra, na)) (hb : c.resolve b = some (rb, nb)) :
    comp (.catOf a b reads inner rest) c =
      let c1 : Ctx := { c with nextRes := c.nextRes + 1, opened := (c.nextRes, na + nb) :: c.opened }
      (Ev.cat c.nextRes ra rb :: Ev.view c.nextRes :: readEvs c.nextRes (na + nb) reads ++
          (comp inner c1).1 ++ Ev.free c.nextRes :: (comp rest (scopeExit c (comp inner c1).2)).1,
        (comp rest (scopeExit c (comp inner c1).2)).2) := by
  rw [comp]; simp only [ha, hb]; rfl

theorem comp_catOf_none {a b : Ref} (reads : List Nat) (inner rest : Prog) {c : Ctx}
    (h : c.resolve a = none ∨ c.resolve b = none) :
    comp (.catOf a b reads inner rest) c = comp rest c := by
  rw [comp]
  rcases h with h | h
  · simp only [h]
  · cases ha : c.resolve a with
    | none => simp only []
    | some x => simp only [h]

theorem comp_catDetach (n1 n2 : Nat) (reads : List Nat) (rest : Prog) (c : Ctx) :
    comp (.catDetach n1 n2 reads rest) c =
      (Ev.alloc c.nextRes n1 :: Ev.alloc (c.nextRes + 1) n2 :: Ev.cat (c.nextRes + 2) c.nextRes (c.nextRes + 1) ::
        Ev.free c.nextRes :: Ev.free (c.nextRes + 1) :: Ev.view (c.nextRes + 2) ::
        readEvs (c.nextRes + 2) (n1 + n2) reads ++ Ev.free (c.nextRes + 2) ::
        (comp rest { c with nextRes := c.nextRes + 3 }).1,
       (comp rest { c with nextRes := c.nextRes + 3 }).2) := by
  rw [comp]


/-! ### the simulation invariant -/

/-- what the driver's tables `c` promise about the handle state `s` -/
structure Inv (c : Ctx) (s : St) : Prop where
  res : s.nextRes = c.nextRes
  ptr : s.nextPtr = c.nextPtr
  idlt : ∀ e ∈ c.opened ++ c.kept, e.1 < c.nextRes
  nodup : ((c.opened ++ c.kept).map (·.1)).Nodup
  has : ∀ e ∈ c.opened ++ c.kept, ∃ cs, s.live.lookup e.1 = some cs ∧ cs.length = e.2
  only : ∀ e ∈ s.live, ∃ e' ∈ c.opened ++ c.kept, e'.1 = e.1
  cellLt : ∀ e ∈ s.live, ∀ x ∈ e.2, x < s.nextCell
  ptrLt : ∀ e ∈ s.ptrs, e.1 < s.nextPtr
  kp : ∀ p ∈ c.keptPtrs, ∃ x, s.ptrs.lookup p = some x ∧
        ∃ e ∈ c.kept, ∃ cs, s.live.lookup e.1 = some cs ∧ x ∈ cs
  sp : ∀ p ∈ c.scopedPtrs, ∃ x, s.ptrs.lookup p = some x ∧
        ∃ e ∈ c.opened, ∃ cs, s.live.lookup e.1 = some cs ∧ x ∈ cs

/-- results and stored pointers that were there are still there, unchanged -/
def Frame (s s' : St) : Prop :=
  (∀ r cs, s.live.lookup r = some cs → s'.live.lookup r = some cs) ∧
  (∀ p x, s.ptrs.lookup p = some x → s'.ptrs.lookup p = some x)

theorem Frame.refl (s : St) : Frame s s := ⟨fun _ _ h => h, fun _ _ h => h⟩

theorem Frame.trans {a b c : St} (h1 : Frame a b) (h2 : Frame b c) : Frame a c :=
  ⟨fun r cs h => h2.1 r cs (h1.1 r cs h), fun p x h => h2.2 p x (h1.2 p x h)⟩

theorem Inv.liveLt {c : Ctx} {s : St} (h : Inv c s) : ∀ e ∈ s.live, e.1 < s.nextRes := by
  intro e he
  obtain ⟨e', he', heq⟩ := h.only e he
  have := h.idlt e' he'
  rw [h.res]; omega

theorem Inv.lookupLt {c : Ctx} {s : St} (h : Inv c s) {r : Nat} {cs : List Nat}
    (hl : s.live.lookup r = some cs) : r < s.nextRes :=
  h.liveLt _ (mem_of_lookup hl)

theorem Inv.ptrLookupLt {c : Ctx} {s : St} (h : Inv c s) {p x : Nat}
    (hl : s.ptrs.lookup p = some x) : p < s.nextPtr :=
  h.ptrLt _ (mem_of_lookup hl)

/-- pushing a result with a fresh id keeps everything that was there -/
theorem Inv.frame_push {c : Ctx} {s : St} (h : Inv c s) (cs : List Nat) (nc : Nat) :
    Frame s { s with nextRes := s.nextRes + 1, nextCell := nc, live := (s.nextRes, cs) :: s.live } := by
  refine ⟨fun r cs' hl => ?_, fun _ _ hl => hl⟩
  have := h.lookupLt hl
  show List.lookup r ((s.nextRes, cs) :: s.live) = some cs'
  rw [lookup_cons_ne _ _ (by omega)]; exact hl

theorem Inv.frame_borrow {c : Ctx} {s : St} (h : Inv c s) (x : Nat) :
    Frame s { s with nextPtr := s.nextPtr + 1, ptrs := (s.nextPtr, x) :: s.ptrs } := by
  refine ⟨fun _ _ hl => hl, fun p x' hl => ?_⟩
  have := h.ptrLookupLt hl
  show List.lookup p ((s.nextPtr, x) :: s.ptrs) = some x'
  rw [lookup_cons_ne _ _ (by omega)]; exact hl

theorem Inv.push_open {c : Ctx} {s : St} (h : Inv c s) {cs : List Nat} {n nc : Nat}
    (hl : cs.length = n) (hc : ∀ x ∈ cs, x < nc) (hnc : s.nextCell ≤ nc) :
    Inv { c with nextRes := c.nextRes + 1, opened := (c.nextRes, n) :: c.opened }
        { s with nextRes := s.nextRes + 1, nextCell := nc, live := (s.nextRes, cs) :: s.live } := by
  have hf := h.frame_push cs nc
  constructor
  · show s.nextRes + 1 = c.nextRes + 1
    rw [h.res]
  · exact h.ptr
  · intro e he
    simp only [List.cons_append, List.mem_cons] at he
    show e.1 < c.nextRes + 1
    rcases he with rfl | he
    · exact Nat.lt_succ_self _
    · have := h.idlt e he; omega
  · show (((c.nextRes, n) :: c.opened ++ c.kept).map (·.1)).Nodup
    rw [List.cons_append, List.map_cons, List.nodup_cons]
    refine ⟨?_, h.nodup⟩
    intro hm
    obtain ⟨e, he, heq⟩ := List.mem_map.mp hm
    have := h.idlt e he
    simp only at heq; omega
  · intro e he
    simp only [List.cons_append, List.mem_cons] at he
    rcases he with rfl | he
    · exact ⟨cs, by show List.lookup c.nextRes ((s.nextRes, cs) :: s.live) = some cs
                    rw [h.res]; exact lookup_cons_self _ _ _, hl⟩
    · obtain ⟨cs', h1, h2⟩ := h.has e he
      exact ⟨cs', hf.1 _ _ h1, h2⟩
  · intro e he
    have he : e ∈ (s.nextRes, cs) :: s.live := he
    show ∃ e' ∈ (c.nextRes, n) :: c.opened ++ c.kept, e'.1 = e.1
    rcases List.mem_cons.mp he with rfl | he
    · exact ⟨_, List.mem_cons_self, h.res.symm⟩
    · obtain ⟨e', he', heq⟩ := h.only e he
      exact ⟨e', List.mem_cons_of_mem _ he', heq⟩
  · intro e he
    have he : e ∈ (s.nextRes, cs) :: s.live := he
    show ∀ x ∈ e.2, x < nc
    rcases List.mem_cons.mp he with rfl | he
    · exact hc
    · intro x hx; have := h.cellLt e he x hx; omega
  · exact h.ptrLt
  · intro p hp
    obtain ⟨x, h1, e, he, cs', h2, h3⟩ := h.kp p hp
    exact ⟨x, h1, e, he, cs', hf.1 _ _ h2, h3⟩
  · intro p hp
    obtain ⟨x, h1, e, he, cs', h2, h3⟩ := h.sp p hp
    exact ⟨x, h1, e, List.mem_cons_of_mem _ he, cs', hf.1 _ _ h2, h3⟩

theorem Inv.push_kept {c : Ctx} {s : St} (h : Inv c s) {cs : List Nat} {n nc : Nat}
    (hl : cs.length = n) (hc : ∀ x ∈ cs, x < nc) (hnc : s.nextCell ≤ nc) :
    Inv { c with nextRes := c.nextRes + 1, kept := (c.nextRes, n) :: c.kept }
        { s with nextRes := s.nextRes + 1, nextCell := nc, live := (s.nextRes, cs) :: s.live } := by
  have hf := h.frame_push cs nc
  have hmem : ∀ e, e ∈ c.opened ++ (c.nextRes, n) :: c.kept ↔ e = (c.nextRes, n) ∨ e ∈ c.opened ++ c.kept := by
    intro e; simp only [List.mem_append, List.mem_cons]
    constructor
    · rintro (h | h | h)
      · exact .inr (.inl h)
      · exact .inl h
      · exact .inr (.inr h)
    · rintro (h | h | h)
      · exact .inr (.inl h)
      · exact .inl h
      · exact .inr (.inr h)
  constructor
  · show s.nextRes + 1 = c.nextRes + 1
    rw [h.res]
  · exact h.ptr
  · intro e he
    have he := (hmem e).mp he
    show e.1 < c.nextRes + 1
    rcases he with rfl | he
    · exact Nat.lt_succ_self _
    · have := h.idlt e he; omega
  · show ((c.opened ++ (c.nextRes, n) :: c.kept).map (·.1)).Nodup
    rw [(List.perm_middle.map _).nodup_iff, List.map_cons, List.nodup_cons]
    refine ⟨?_, h.nodup⟩
    intro hm
    obtain ⟨e, he, heq⟩ := List.mem_map.mp hm
    have := h.idlt e he
    simp only at heq; omega
  · intro e he
    have he := (hmem e).mp he
    rcases he with rfl | he
    · exact ⟨cs, by show List.lookup c.nextRes ((s.nextRes, cs) :: s.live) = some cs
                    rw [h.res]; exact lookup_cons_self _ _ _, hl⟩
    · obtain ⟨cs', h1, h2⟩ := h.has e he
      exact ⟨cs', hf.1 _ _ h1, h2⟩
  · intro e he
    have he : e ∈ (s.nextRes, cs) :: s.live := he
    show ∃ e' ∈ c.opened ++ (c.nextRes, n) :: c.kept, e'.1 = e.1
    rcases List.mem_cons.mp he with rfl | he
    · exact ⟨_, (hmem _).mpr (.inl rfl), h.res.symm⟩
    · obtain ⟨e', he', heq⟩ := h.only e he
      exact ⟨e', (hmem _).mpr (.inr he'), heq⟩
  · intro e he
    have he : e ∈ (s.nextRes, cs) :: s.live := he
    show ∀ x ∈ e.2, x < nc
    rcases List.mem_cons.mp he with rfl | he
    · exact hc
    · intro x hx; have := h.cellLt e he x hx; omega
  · exact h.ptrLt
  · intro p hp
    obtain ⟨x, h1, e, he, cs', h2, h3⟩ := h.kp p hp
    exact ⟨x, h1, e, List.mem_cons_of_mem _ he, cs', hf.1 _ _ h2, h3⟩
  · intro p hp
    obtain ⟨x, h1, e, he, cs', h2, h3⟩ := h.sp p hp
    exact ⟨x, h1, e, he, cs', hf.1 _ _ h2, h3⟩

/-- storing a pointer into a cell of an open scope -/
theorem Inv.borrow_scoped {c : Ctx} {s : St} (h : Inv c s) {e : Nat × Nat} {cs : List Nat} {x : Nat}
    (he : e ∈ c.opened) (hl : s.live.lookup e.1 = some cs) (hx : x ∈ cs) :
    Inv { c with nextPtr := c.nextPtr + 1, scopedPtrs := c.nextPtr :: c.scopedPtrs }
        { s with nextPtr := s.nextPtr + 1, ptrs := (s.nextPtr, x) :: s.ptrs } := by
  have hf := h.frame_borrow x
  constructor
  · exact h.res
  · show s.nextPtr + 1 = c.nextPtr + 1
    rw [h.ptr]
  · exact h.idlt
  · exact h.nodup
  · exact h.has
  · exact h.only
  · exact h.cellLt
  · intro e' he'
    have he' : e' ∈ (s.nextPtr, x) :: s.ptrs := he'
    show e'.1 < s.nextPtr + 1
    rcases List.mem_cons.mp he' with rfl | he'
    · exact Nat.lt_succ_self _
    · have := h.ptrLt e' he'; omega
  · intro p hp
    obtain ⟨x', h1, r⟩ := h.kp p hp
    exact ⟨x', hf.2 _ _ h1, r⟩
  · intro p hp
    have hp : p ∈ c.nextPtr :: c.scopedPtrs := hp
    rcases List.mem_cons.mp hp with rfl | hp
    · refine ⟨x, ?_, e, he, cs, hl, hx⟩
      show List.lookup c.nextPtr ((s.nextPtr, x) :: s.ptrs) = some x
      rw [h.ptr]; exact lookup_cons_self _ _ _
    · obtain ⟨x', h1, r⟩ := h.sp p hp
      exact ⟨x', hf.2 _ _ h1, r⟩

/-- storing a pointer into a cell of a kept result -/
theorem Inv.borrow_kept {c : Ctx} {s : St} (h : Inv c s) {e : Nat × Nat} {cs : List Nat} {x : Nat}
    (he : e ∈ c.kept) (hl : s.live.lookup e.1 = some cs) (hx : x ∈ cs) :
    Inv { c with nextPtr := c.nextPtr + 1, keptPtrs := c.nextPtr :: c.keptPtrs }
        { s with nextPtr := s.nextPtr + 1, ptrs := (s.nextPtr, x) :: s.ptrs } := by
  have hf := h.frame_borrow x
  constructor
  · exact h.res
  · show s.nextPtr + 1 = c.nextPtr + 1
    rw [h.ptr]
  · exact h.idlt
  · exact h.nodup
  · exact h.has
  · exact h.only
  · exact h.cellLt
  · intro e' he'
    have he' : e' ∈ (s.nextPtr, x) :: s.ptrs := he'
    show e'.1 < s.nextPtr + 1
    rcases List.mem_cons.mp he' with rfl | he'
    · exact Nat.lt_succ_self _
    · have := h.ptrLt e' he'; omega
  · intro p hp
    have hp : p ∈ c.nextPtr :: c.keptPtrs := hp
    rcases List.mem_cons.mp hp with rfl | hp
    · refine ⟨x, ?_, e, he, cs, hl, hx⟩
      show List.lookup c.nextPtr ((s.nextPtr, x) :: s.ptrs) = some x
      rw [h.ptr]; exact lookup_cons_self _ _ _
    · obtain ⟨x', h1, r⟩ := h.kp p hp
      exact ⟨x', hf.2 _ _ h1, r⟩
  · intro p hp
    obtain ⟨x', h1, r⟩ := h.sp p hp
    exact ⟨x', hf.2 _ _ h1, r⟩

/-- ids, cells and (optionally) one throw-away pointer were consumed, nothing is left of them -/
theorem Inv.bump {c : Ctx} {s : St} (h : Inv c s) {nr nc np : Nat} {ps : List (Nat × Nat)}
    (hr : c.nextRes ≤ nr) (hc : s.nextCell ≤ nc)
    (hp : (np = c.nextPtr ∧ ps = s.ptrs) ∨ ∃ x, np = c.nextPtr + 1 ∧ ps = (s.nextPtr, x) :: s.ptrs) :
    Inv { c with nextRes := nr, nextPtr := np }
        { s with nextRes := nr, nextCell := nc, nextPtr := np, ptrs := ps } := by
  have hps : (∀ e ∈ ps, e.1 < np) ∧ ∀ p x, s.ptrs.lookup p = some x → ps.lookup p = some x := by
    rcases hp with ⟨rfl, rfl⟩ | ⟨x, rfl, rfl⟩
    · exact ⟨by rw [← h.ptr]; exact h.ptrLt, fun _ _ h => h⟩
    · refine ⟨?_, (h.frame_borrow x).2⟩
      rw [← h.ptr]
      intro e he
      rcases List.mem_cons.mp he with rfl | he
      · exact Nat.lt_succ_self _
      · have := h.ptrLt e he; omega
  constructor
  · rfl
  · rfl
  · intro e he; have := h.idlt e he; show e.1 < nr; omega
  · exact h.nodup
  · exact h.has
  · exact h.only
  · intro e he x hx; have := h.cellLt e he x hx; show x < nc; omega
  · exact hps.1
  · intro p hp
    obtain ⟨x', h1, r⟩ := h.kp p hp
    exact ⟨x', hps.2 _ _ h1, r⟩
  · intro p hp
    obtain ⟨x', h1, r⟩ := h.sp p hp
    exact ⟨x', hps.2 _ _ h1, r⟩

/-- leaving a scope: its result is freed, its pointers are forgotten -/
theorem Inv.exit {c3 : Ctx} {s3 : St} (h : Inv c3 s3) {r n : Nat} {o : List (Nat × Nat)} {sps : List Nat}
    (ho : c3.opened = (r, n) :: o)
    (hsp : ∀ p ∈ sps, ∃ x, s3.ptrs.lookup p = some x ∧
        ∃ e ∈ o, ∃ cs, s3.live.lookup e.1 = some cs ∧ x ∈ cs) :
    Inv { c3 with opened := o, scopedPtrs := sps }
        { s3 with live := s3.live.filter (fun e => e.1 != r) } := by
  have hnd := h.nodup
  rw [ho, List.cons_append, List.map_cons, List.nodup_cons] at hnd
  have hne : ∀ e ∈ o ++ c3.kept, e.1 ≠ r := by
    intro e he heq
    exact hnd.1 (List.mem_map.mpr ⟨e, he, heq⟩)
  have hsub : ∀ e ∈ o ++ c3.kept, e ∈ c3.opened ++ c3.kept := by
    intro e he; rw [ho]; exact List.mem_cons_of_mem _ he
  have hlk : ∀ e ∈ o ++ c3.kept, ∀ cs, s3.live.lookup e.1 = some cs →
      (s3.live.filter (fun e => e.1 != r)).lookup e.1 = some cs := by
    intro e he cs hl; rw [lookup_filter_ne (hne e he)]; exact hl
  constructor
  · exact h.res
  · exact h.ptr
  · intro e he; exact h.idlt e (hsub e he)
  · exact hnd.2
  · intro e he
    obtain ⟨cs, h1, h2⟩ := h.has e (hsub e he)
    exact ⟨cs, hlk e he cs h1, h2⟩
  · intro e he
    have he := mem_filter_ne.mp he
    obtain ⟨e', he', heq⟩ := h.only e he.1
    rw [ho] at he'
    rcases List.mem_cons.mp he' with rfl | he'
    · exact absurd heq.symm he.2
    · exact ⟨e', he', heq⟩
  · intro e he
    exact h.cellLt e (mem_filter_ne.mp he).1
  · exact h.ptrLt
  · intro p hp
    obtain ⟨x, h1, e, he, cs, h2, h3⟩ := h.kp p hp
    exact ⟨x, h1, e, he, cs, hlk e (List.mem_append_right _ he) cs h2, h3⟩
  · intro p hp
    obtain ⟨x, h1, e, he, cs, h2, h3⟩ := hsp p hp
    exact ⟨x, h1, e, he, cs, hlk e (List.mem_append_left _ he) cs h2, h3⟩

/-- everything held before a scope is untouched by freeing the scope's result -/
theorem Inv.frame_exit {c : Ctx} {s s3 : St} (h : Inv c s) (hf : Frame s s3) :
    Frame s { s3 with live := s3.live.filter (fun e => e.1 != s.nextRes) } := by
  refine ⟨fun r cs hl => ?_, hf.2⟩
  have := h.lookupLt hl
  show List.lookup r (s3.live.filter (fun e => e.1 != s.nextRes)) = some cs
  rw [lookup_filter_ne (by omega)]; exact hf.1 r cs hl


theorem scopeEnter_snd (c : Ctx) (n : Nat) (bk : Option Nat) :
    (scopeEnter c n bk).2.opened = (c.nextRes, n) :: c.opened := by
  unfold scopeEnter
  cases bk with
  | none => rfl
  | some k => by_cases h : k < n <;> simp [h]

theorem comp_opened (p : Prog) :
    ∀ c, (comp p c).2.opened = c.opened ∧ (comp p c).2.scopedPtrs = c.scopedPtrs := by
  induction p with
  | done => intro c; exact ⟨rfl, rfl⟩
  | «scoped» n reads bk inner rest _ ihr =>
    intro c; rw [comp_scoped]; exact ihr _
  | keep n k rest ih =>
    intro c; rw [comp_keep]
    have := ih (keepEnter c n k).2
    unfold keepEnter at this ⊢
    by_cases h : k < n <;> simpa [h] using this
  | useKept j rest ih => intro c; rw [comp_useKept]; exact ih c
  | useScoped j rest ih => intro c; rw [comp_useScoped]; exact ih c
  | detach n k rest ih =>
    intro c
    by_cases h : k < n
    · rw [comp_detach_lt h]; exact ih _
    · rw [comp_detach_ge h]; exact ih _
  | catOf a b reads inner rest _ ihr =>
    intro c
    cases ha : c.resolve a with
    | none => rw [comp_catOf_none _ _ _ (.inl ha)]; exact ihr c
    | some x =>
      cases hb : c.resolve b with
      | none => rw [comp_catOf_none _ _ _ (.inr hb)]; exact ihr c
      | some y =>
        obtain ⟨ra, na⟩ := x
        obtain ⟨rb, nb⟩ := y
        rw [comp_catOf_some _ _ _ ha hb]; exact ihr _
  | catDetach n1 n2 reads rest ih => intro c; rw [comp_catDetach]; exact ih _


/-! ### the straight-line templates -/

theorem detach_run {s : St} {n k : Nat} (hk : k < n)
    (hid : ∀ e ∈ s.live, e.1 < s.nextRes) (hcell : ∀ e ∈ s.live, ∀ x ∈ e.2, x < s.nextCell) :
    run s [Ev.alloc s.nextRes n, Ev.item s.nextRes k, Ev.share (s.nextRes + 1) s.nextRes k,
        Ev.refcnt s.nextRes k 2, Ev.free s.nextRes, Ev.refcnt (s.nextRes + 1) 0 1,
        Ev.item (s.nextRes + 1) 0, Ev.borrow s.nextPtr (s.nextRes + 1) 0, Ev.use s.nextPtr,
        Ev.free (s.nextRes + 1)] =
      .ok { s with nextRes := s.nextRes + 2, nextCell := s.nextCell + n, nextPtr := s.nextPtr + 1,
                   ptrs := (s.nextPtr, k + s.nextCell) :: s.ptrs } := by
  obtain ⟨R, C, P, L, ptrs⟩ := s
  simp only at hid hcell ⊢
  have hocc : occ L (k + C) = 0 := occ_eq_zero (fun e he hx => by have := hcell e he _ hx; omega)
  have hcnt := count_freshCells (a := C) hk
  have hget := getElem?_freshCells (a := C) hk
  have hf1 : L.filter (fun e => e.1 != R) = L := filter_ne_of_fresh hid
  have hf2 : L.filter (fun e => e.1 != R + 1) = L :=
    filter_ne_of_fresh (fun e he => by have := hid e he; omega)
  have hne : R ≠ R + 1 := by omega
  -- alloc
  refine run_cons_ok (s1 := ⟨R + 1, C + n, P, (R, freshCells C n) :: L, ptrs⟩) (step_alloc _ _) ?_
  -- item
  refine run_cons_ok (step_item (cs := freshCells C n) (lookup_cons_self _ _ _)
    (by rw [length_freshCells]; exact hk)) ?_
  -- share
  refine run_cons_ok (s1 := ⟨R + 2, C + n, P, (R + 1, [k + C]) :: (R, freshCells C n) :: L, ptrs⟩)
    (step_share (s := ⟨R + 1, C + n, P, (R, freshCells C n) :: L, ptrs⟩) (lookup_cons_self _ _ _) hget) ?_
  -- refcnt = 2
  have hl2 : List.lookup R ((R + 1, [k + C]) :: (R, freshCells C n) :: L) = some (freshCells C n) := by
    rw [lookup_cons_ne _ _ hne, lookup_cons_self]
  have ho2 : occ ((R + 1, [k + C]) :: (R, freshCells C n) :: L) (k + C) = 2 := by
    simp [occ, hcnt, hocc]
  refine run_cons_ok (s1 := ⟨R + 2, C + n, P, (R + 1, [k + C]) :: (R, freshCells C n) :: L, ptrs⟩) ?_ ?_
  · have := step_refcnt (s := ⟨R + 2, C + n, P, (R + 1, [k + C]) :: (R, freshCells C n) :: L, ptrs⟩) hl2 hget
    rw [ho2] at this; exact this
  -- free R
  refine run_cons_ok (s1 := ⟨R + 2, C + n, P, (R + 1, [k + C]) :: L, ptrs⟩) ?_ ?_
  · rw [step_free (s := ⟨R + 2, C + n, P, (R + 1, [k + C]) :: (R, freshCells C n) :: L, ptrs⟩) hl2]
    simp [hf1]
  -- refcnt = 1
  have hl3 : List.lookup (R + 1) ((R + 1, [k + C]) :: L) = some [k + C] := lookup_cons_self _ _ _
  have ho3 : occ ((R + 1, [k + C]) :: L) (k + C) = 1 := by simp [occ, hocc]
  refine run_cons_ok (s1 := ⟨R + 2, C + n, P, (R + 1, [k + C]) :: L, ptrs⟩) ?_ ?_
  · have := step_refcnt (s := ⟨R + 2, C + n, P, (R + 1, [k + C]) :: L, ptrs⟩) (k := 0) hl3 rfl
    rw [ho3] at this; exact this
  -- item
  refine run_cons_ok (step_item (s := ⟨R + 2, C + n, P, (R + 1, [k + C]) :: L, ptrs⟩) (k := 0) hl3
    (by simp)) ?_
  -- borrow
  refine run_cons_ok (s1 := ⟨R + 2, C + n, P + 1, (R + 1, [k + C]) :: L, (P, k + C) :: ptrs⟩)
    (step_borrow (s := ⟨R + 2, C + n, P, (R + 1, [k + C]) :: L, ptrs⟩) (k := 0) hl3 rfl) ?_
  -- use
  refine run_cons_ok (step_use (s := ⟨R + 2, C + n, P + 1, (R + 1, [k + C]) :: L, (P, k + C) :: ptrs⟩)
    (lookup_cons_self _ _ _) (alive_iff.mpr ⟨_, List.mem_cons_self, List.mem_cons_self⟩)) ?_
  -- free R + 1
  refine run_cons_ok (s1 := ⟨R + 2, C + n, P + 1, L, (P, k + C) :: ptrs⟩) ?_ rfl
  rw [step_free (s := ⟨R + 2, C + n, P + 1, (R + 1, [k + C]) :: L, (P, k + C) :: ptrs⟩) hl3]
  simp [hf2]

theorem alloc_free_run {s : St} (n : Nat) (hid : ∀ e ∈ s.live, e.1 < s.nextRes) :
    run s [Ev.alloc s.nextRes n, Ev.free s.nextRes] =
      .ok { s with nextRes := s.nextRes + 1, nextCell := s.nextCell + n } := by
  obtain ⟨R, C, P, L, ptrs⟩ := s
  simp only at hid ⊢
  have hf1 : L.filter (fun e => e.1 != R) = L := filter_ne_of_fresh hid
  refine run_cons_ok (s1 := ⟨R + 1, C + n, P, (R, freshCells C n) :: L, ptrs⟩) (step_alloc _ _) ?_
  refine run_cons_ok (s1 := ⟨R + 1, C + n, P, L, ptrs⟩) ?_ rfl
  rw [step_free (s := ⟨R + 1, C + n, P, (R, freshCells C n) :: L, ptrs⟩) (lookup_cons_self _ _ _)]
  simp [hf1]

theorem catDetach_run {s : St} (n1 n2 : Nat) (reads : List Nat) (hid : ∀ e ∈ s.live, e.1 < s.nextRes) :
    run s (Ev.alloc s.nextRes n1 :: Ev.alloc (s.nextRes + 1) n2 ::
        Ev.cat (s.nextRes + 2) s.nextRes (s.nextRes + 1) :: Ev.free s.nextRes :: Ev.free (s.nextRes + 1) ::
        Ev.view (s.nextRes + 2) :: readEvs (s.nextRes + 2) (n1 + n2) reads ++ [Ev.free (s.nextRes + 2)]) =
      .ok { s with nextRes := s.nextRes + 3, nextCell := s.nextCell + n1 + n2 } := by
  obtain ⟨R, C, P, L, ptrs⟩ := s
  simp only at hid ⊢
  have hf1 : L.filter (fun e => e.1 != R) = L := filter_ne_of_fresh hid
  have hf2 : L.filter (fun e => e.1 != R + 1) = L :=
    filter_ne_of_fresh (fun e he => by have := hid e he; omega)
  have hf3 : L.filter (fun e => e.1 != R + 2) = L :=
    filter_ne_of_fresh (fun e he => by have := hid e he; omega)
  let F1 := freshCells C n1
  let F2 := freshCells (C + n1) n2
  refine run_cons_ok (s1 := ⟨R + 1, C + n1, P, (R, F1) :: L, ptrs⟩) (step_alloc _ _) ?_
  refine run_cons_ok (s1 := ⟨R + 2, C + n1 + n2, P, (R + 1, F2) :: (R, F1) :: L, ptrs⟩)
    (step_alloc ⟨R + 1, C + n1, P, (R, F1) :: L, ptrs⟩ n2) ?_
  have hl1 : List.lookup R ((R + 1, F2) :: (R, F1) :: L) = some F1 := by
    rw [lookup_cons_ne _ _ (by omega), lookup_cons_self]
  refine run_cons_ok
    (s1 := ⟨R + 3, C + n1 + n2, P, (R + 2, F1 ++ F2) :: (R + 1, F2) :: (R, F1) :: L, ptrs⟩)
    (step_cat (s := ⟨R + 2, C + n1 + n2, P, (R + 1, F2) :: (R, F1) :: L, ptrs⟩) hl1
      (lookup_cons_self _ _ _)) ?_
  -- free R
  refine run_cons_ok (s1 := ⟨R + 3, C + n1 + n2, P, (R + 2, F1 ++ F2) :: (R + 1, F2) :: L, ptrs⟩) ?_ ?_
  · rw [step_free (s := ⟨R + 3, C + n1 + n2, P, (R + 2, F1 ++ F2) :: (R + 1, F2) :: (R, F1) :: L, ptrs⟩)
      (cs := F1) (by rw [lookup_cons_ne _ _ (by omega), lookup_cons_ne _ _ (by omega), lookup_cons_self])]
    simp [hf1]
  -- free R + 1
  refine run_cons_ok (s1 := ⟨R + 3, C + n1 + n2, P, (R + 2, F1 ++ F2) :: L, ptrs⟩) ?_ ?_
  · rw [step_free (s := ⟨R + 3, C + n1 + n2, P, (R + 2, F1 ++ F2) :: (R + 1, F2) :: L, ptrs⟩)
      (cs := F2) (by rw [lookup_cons_ne _ _ (by omega), lookup_cons_self])]
    simp [hf2]
  have hl3 : List.lookup (R + 2) ((R + 2, F1 ++ F2) :: L) = some (F1 ++ F2) := lookup_cons_self _ _ _
  refine run_cons_ok (step_view (s := ⟨R + 3, C + n1 + n2, P, (R + 2, F1 ++ F2) :: L, ptrs⟩) hl3) ?_
  refine run_append_ok (run_readEvs (s := ⟨R + 3, C + n1 + n2, P, (R + 2, F1 ++ F2) :: L, ptrs⟩) hl3
    (by simp [F1, F2, length_freshCells]) reads) ?_
  refine run_cons_ok (s1 := ⟨R + 3, C + n1 + n2, P, L, ptrs⟩) ?_ rfl
  rw [step_free (s := ⟨R + 3, C + n1 + n2, P, (R + 2, F1 ++ F2) :: L, ptrs⟩) hl3]
  simp [hf3]


/-! ### every program of the grammar is simulated -/

theorem step_alloc' {s : St} {r : Nat} (hr : r = s.nextRes) (n : Nat) :
    step s (.alloc r n) =
      .ok { s with nextRes := s.nextRes + 1, nextCell := s.nextCell + n,
                   live := (s.nextRes, freshCells s.nextCell n) :: s.live } := by
  subst hr; exact step_alloc s n

theorem step_cat' {s : St} {r r1 r2 : Nat} {c1 c2 : List Nat} (hr : r = s.nextRes)
    (h1 : s.live.lookup r1 = some c1) (h2 : s.live.lookup r2 = some c2) :
    step s (.cat r r1 r2) =
      .ok { s with nextRes := s.nextRes + 1, live := (s.nextRes, c1 ++ c2) :: s.live } := by
  subst hr; exact step_cat h1 h2

theorem step_borrow' {s : St} {p r k x : Nat} {cs : List Nat} (hp : p = s.nextPtr)
    (h : s.live.lookup r = some cs) (hk : cs[k]? = some x) :
    step s (.borrow p r k) =
      .ok { s with nextPtr := s.nextPtr + 1, ptrs := (s.nextPtr, x) :: s.ptrs } := by
  subst hp; exact step_borrow h hk

theorem Inv.bump0 {c : Ctx} {s : St} (h : Inv c s) {nr nc : Nat}
    (hr : c.nextRes ≤ nr) (hc : s.nextCell ≤ nc) :
    Inv { c with nextRes := nr } { s with nextRes := nr, nextCell := nc } := by
  have := h.bump (np := c.nextPtr) (ps := s.ptrs) hr hc (.inl ⟨rfl, rfl⟩)
  show Inv _ ⟨nr, nc, s.nextPtr, s.live, s.ptrs⟩
  rw [h.ptr]; exact this

/-- the statement proved by induction on the program -/
def Sim (p : Prog) : Prop :=
  ∀ (c : Ctx) (s : St), Inv c s →
    ∃ s', run s (comp p c).1 = .ok s' ∧ Inv (comp p c).2 s' ∧ Frame s s'

theorem scopeEnter_sim {c : Ctx} {s : St} (h : Inv c s) (n : Nat) (reads : List Nat) (bk : Option Nat) :
    ∃ s2, run s (Ev.alloc c.nextRes n :: Ev.view c.nextRes :: readEvs c.nextRes n reads ++
        (scopeEnter c n bk).1) = .ok s2 ∧ Inv (scopeEnter c n bk).2 s2 ∧ Frame s s2 := by
  let s1 : St := { s with nextRes := s.nextRes + 1, nextCell := s.nextCell + n,
                          live := (s.nextRes, freshCells s.nextCell n) :: s.live }
  have h1 : Inv { c with nextRes := c.nextRes + 1, opened := (c.nextRes, n) :: c.opened } s1 :=
    h.push_open (length_freshCells _ _) (fun x hx => (mem_freshCells.mp hx).2) (Nat.le_add_right _ _)
  have hf1 : Frame s s1 := h.frame_push _ _
  have hl1 : s1.live.lookup c.nextRes = some (freshCells s.nextCell n) := by
    show List.lookup c.nextRes ((s.nextRes, _) :: s.live) = _
    rw [← h.res]; exact lookup_cons_self _ _ _
  have hrun1 : run s (Ev.alloc c.nextRes n :: Ev.view c.nextRes :: readEvs c.nextRes n reads) = .ok s1 := by
    exact run_cons_ok (step_alloc' h.res.symm n)
      (run_cons_ok (step_view hl1) (run_readEvs hl1 (length_freshCells _ _) reads))
  have hnone : ∃ s2, run s (Ev.alloc c.nextRes n :: Ev.view c.nextRes :: readEvs c.nextRes n reads ++
        []) = .ok s2 ∧ Inv { c with nextRes := c.nextRes + 1, opened := (c.nextRes, n) :: c.opened } s2 ∧
        Frame s s2 := ⟨s1, by rw [List.append_nil]; exact hrun1, h1, hf1⟩
  unfold scopeEnter
  cases bk with
  | none => exact hnone
  | some k =>
    by_cases hk : k < n
    · simp only [hk, if_true]
      have hget := getElem?_freshCells (a := s.nextCell) hk
      refine ⟨{ s1 with nextPtr := s1.nextPtr + 1, ptrs := (s1.nextPtr, k + s.nextCell) :: s1.ptrs }, ?_, ?_, ?_⟩
      · exact run_append_ok hrun1 (run_cons_ok (step_borrow' h1.ptr.symm hl1 hget) rfl)
      · exact h1.borrow_scoped (e := (c.nextRes, n)) List.mem_cons_self hl1 (List.mem_of_getElem? hget)
      · exact hf1.trans (h1.frame_borrow _)
    · simp only [hk, if_false]; exact hnone

theorem keepEnter_sim {c : Ctx} {s : St} (h : Inv c s) (n k : Nat) :
    ∃ s2, run s (Ev.alloc c.nextRes n :: (keepEnter c n k).1) = .ok s2 ∧
      Inv (keepEnter c n k).2 s2 ∧ Frame s s2 := by
  let s1 : St := { s with nextRes := s.nextRes + 1, nextCell := s.nextCell + n,
                          live := (s.nextRes, freshCells s.nextCell n) :: s.live }
  have h1 : Inv { c with nextRes := c.nextRes + 1, kept := (c.nextRes, n) :: c.kept } s1 :=
    h.push_kept (length_freshCells _ _) (fun x hx => (mem_freshCells.mp hx).2) (Nat.le_add_right _ _)
  have hf1 : Frame s s1 := h.frame_push _ _
  have hl1 : s1.live.lookup c.nextRes = some (freshCells s.nextCell n) := by
    show List.lookup c.nextRes ((s.nextRes, _) :: s.live) = _
    rw [← h.res]; exact lookup_cons_self _ _ _
  have hstep1 : step s (Ev.alloc c.nextRes n) = .ok s1 := step_alloc' h.res.symm n
  unfold keepEnter
  by_cases hk : k < n
  · simp only [hk, if_true]
    have hget := getElem?_freshCells (a := s.nextCell) hk
    refine ⟨{ s1 with nextPtr := s1.nextPtr + 1, ptrs := (s1.nextPtr, k + s.nextCell) :: s1.ptrs }, ?_, ?_, ?_⟩
    · exact run_cons_ok hstep1 (run_cons_ok (step_item hl1 (by rw [length_freshCells]; exact hk))
        (run_cons_ok (step_borrow' h1.ptr.symm hl1 hget) rfl))
    · exact h1.borrow_kept (e := (c.nextRes, n)) List.mem_cons_self hl1 (List.mem_of_getElem? hget)
    · exact hf1.trans (h1.frame_borrow _)
  · simp only [hk, if_false]
    exact ⟨s1, run_cons_ok hstep1 rfl, h1, hf1⟩

/-- the second half of a scope: the nested program, the re-reads, the free, the continuation -/
theorem scope_tail {inner rest : Prog} (ihi : Sim inner) (ihr : Sim rest)
    {c c2 : Ctx} {s s2 : St} {n : Nat} (h : Inv c s) (h2 : Inv c2 s2) (hf : Frame s s2)
    (ho : c2.opened = (c.nextRes, n) :: c.opened) (reads : List Nat) :
    ∃ s5, run s2 ((comp inner c2).1 ++ (readEvs c.nextRes n reads ++
        Ev.free c.nextRes :: (comp rest (scopeExit c (comp inner c2).2)).1)) = .ok s5 ∧
      Inv (comp rest (scopeExit c (comp inner c2).2)).2 s5 ∧ Frame s s5 := by
  obtain ⟨s3, hrun3, h3, hf3⟩ := ihi c2 s2 h2
  have ho3 : (comp inner c2).2.opened = (c.nextRes, n) :: c.opened := by
    rw [(comp_opened inner c2).1, ho]
  obtain ⟨cs, hl3, hlen⟩ := h3.has (c.nextRes, n) (by rw [ho3]; exact List.mem_cons_self)
  have hfs3 : Frame s s3 := hf.trans hf3
  let s4 : St := { s3 with live := s3.live.filter (fun e => e.1 != c.nextRes) }
  have h4 : Inv (scopeExit c (comp inner c2).2) s4 := by
    refine h3.exit ho3 ?_
    intro p hp
    obtain ⟨x, hx, e, he, cs', hl, hxc⟩ := h.sp p hp
    exact ⟨x, hfs3.2 _ _ hx, e, he, cs', hfs3.1 _ _ hl, hxc⟩
  have hf4 : Frame s s4 := by
    have := h.frame_exit hfs3
    rw [h.res] at this; exact this
  obtain ⟨s5, hrun5, h5, hf45⟩ := ihr _ s4 h4
  refine ⟨s5, ?_, h5, ?_⟩
  · refine run_append_ok hrun3 (run_append_ok (run_readEvs hl3 hlen reads) (run_cons_ok (step_free hl3) hrun5))
  · -- Frame s4 s5 composed with Frame s s4
    exact hf4.trans hf45

theorem Ctx.resolve_mem {c : Ctx} {a : Ref} {e : Nat × Nat} (h : c.resolve a = some e) :
    e ∈ c.opened ++ c.kept := by
  cases a with
  | kept i => exact List.mem_append_right _ (List.mem_of_getElem? h)
  | opened i => exact List.mem_append_left _ (List.mem_of_getElem? h)

theorem use_sim {c : Ctx} {s : St} (h : Inv c s) {p : Nat} (hp : p ∈ c.keptPtrs ∨ p ∈ c.scopedPtrs) :
    step s (.use p) = .ok s := by
  have : ∃ x, s.ptrs.lookup p = some x ∧ ∃ e : Nat × Nat, ∃ cs, s.live.lookup e.1 = some cs ∧ x ∈ cs := by
    rcases hp with hp | hp
    · obtain ⟨x, h1, e, _, cs, h2, h3⟩ := h.kp p hp; exact ⟨x, h1, e, cs, h2, h3⟩
    · obtain ⟨x, h1, e, _, cs, h2, h3⟩ := h.sp p hp; exact ⟨x, h1, e, cs, h2, h3⟩
  obtain ⟨x, h1, e, cs, h2, h3⟩ := this
  exact step_use h1 (alive_iff.mpr ⟨_, mem_of_lookup h2, h3⟩)

theorem comp_sim (p : Prog) : Sim p := by
  induction p with
  | done => intro c s h; exact ⟨s, rfl, h, Frame.refl s⟩
  | «scoped» n reads bk inner rest ihi ihr =>
    intro c s h
    rw [comp_scoped]
    obtain ⟨s2, hrun2, h2, hf2⟩ := scopeEnter_sim h n reads bk
    obtain ⟨s5, hrun5, h5, hf5⟩ := scope_tail ihi ihr h h2 hf2 (scopeEnter_snd c n bk) reads
    refine ⟨s5, ?_, h5, hf5⟩
    have := run_append_ok hrun2 hrun5
    simpa only [List.append_assoc, List.cons_append] using this
  | keep n k rest ih =>
    intro c s h
    rw [comp_keep]
    obtain ⟨s2, hrun2, h2, hf2⟩ := keepEnter_sim h n k
    obtain ⟨s3, hrun3, h3, hf3⟩ := ih _ s2 h2
    exact ⟨s3, by simpa only [List.cons_append] using run_append_ok hrun2 hrun3, h3, hf2.trans hf3⟩
  | useKept j rest ih =>
    intro c s h
    rw [comp_useKept]
    obtain ⟨s3, hrun3, h3, hf3⟩ := ih c s h
    refine ⟨s3, ?_, h3, hf3⟩
    cases hj : c.keptPtrs[j]? with
    | none => exact hrun3
    | some p => exact run_cons_ok (use_sim h (.inl (List.mem_of_getElem? hj))) hrun3
  | useScoped j rest ih =>
    intro c s h
    rw [comp_useScoped]
    obtain ⟨s3, hrun3, h3, hf3⟩ := ih c s h
    refine ⟨s3, ?_, h3, hf3⟩
    cases hj : c.scopedPtrs[j]? with
    | none => exact hrun3
    | some p => exact run_cons_ok (use_sim h (.inr (List.mem_of_getElem? hj))) hrun3
  | detach n k rest ih =>
    intro c s h
    by_cases hk : k < n
    · rw [comp_detach_lt hk]
      have hrun := detach_run hk h.liveLt h.cellLt
      rw [h.res, h.ptr] at hrun
      let s2 : St := { s with nextRes := c.nextRes + 2, nextCell := s.nextCell + n, nextPtr := c.nextPtr + 1, ptrs := (c.nextPtr, k + s.nextCell) :: s.ptrs }
      have h2 : Inv { c with nextRes := c.nextRes + 2, nextPtr := c.nextPtr + 1 } s2 :=
        h.bump (by omega) (by omega) (.inr ⟨k + s.nextCell, rfl, by rw [h.ptr]⟩)
      have hf2 : Frame s s2 := by
        have := (h.frame_borrow (k + s.nextCell)).2
        rw [h.ptr] at this
        exact ⟨fun _ _ hl => hl, this⟩
      obtain ⟨s3, hrun3, h3, hf3⟩ := ih _ _ h2
      exact ⟨s3, run_append_ok hrun hrun3, h3, hf2.trans hf3⟩
    · rw [comp_detach_ge hk]
      have hrun := alloc_free_run n h.liveLt
      rw [h.res] at hrun
      have h2 : Inv { c with nextRes := c.nextRes + 1 }
          { s with nextRes := c.nextRes + 1, nextCell := s.nextCell + n } :=
        h.bump0 (by omega) (by omega)
      have hf2 : Frame s { s with nextRes := c.nextRes + 1, nextCell := s.nextCell + n } :=
        ⟨fun _ _ hl => hl, fun _ _ hl => hl⟩
      obtain ⟨s3, hrun3, h3, hf3⟩ := ih _ _ h2
      exact ⟨s3, run_append_ok hrun hrun3, h3, hf2.trans hf3⟩
  | catOf a b reads inner rest ihi ihr =>
    intro c s h
    cases ha : c.resolve a with
    | none => rw [comp_catOf_none _ _ _ (.inl ha)]; exact ihr c s h
    | some x =>
      cases hb : c.resolve b with
      | none => rw [comp_catOf_none _ _ _ (.inr hb)]; exact ihr c s h
      | some y =>
        obtain ⟨ra, na⟩ := x
        obtain ⟨rb, nb⟩ := y
        rw [comp_catOf_some _ _ _ ha hb]
        obtain ⟨ca, hla, hna⟩ := h.has _ (Ctx.resolve_mem ha)
        obtain ⟨cb, hlb, hnb⟩ := h.has _ (Ctx.resolve_mem hb)
        simp only at hla hna hlb hnb
        let s1 : St := { s with nextRes := s.nextRes + 1, nextCell := s.nextCell,
                                live := (s.nextRes, ca ++ cb) :: s.live }
        have h1 : Inv { c with nextRes := c.nextRes + 1, opened := (c.nextRes, na + nb) :: c.opened } s1 := by
          refine h.push_open (by rw [List.length_append, hna, hnb]) ?_ (Nat.le_refl _)
          intro x hx
          rcases List.mem_append.mp hx with hx | hx
          · exact h.cellLt _ (mem_of_lookup hla) x hx
          · exact h.cellLt _ (mem_of_lookup hlb) x hx
        have hf1 : Frame s s1 := h.frame_push _ _
        have hl1 : s1.live.lookup c.nextRes = some (ca ++ cb) := by
          show List.lookup c.nextRes ((s.nextRes, _) :: s.live) = _
          rw [← h.res]; exact lookup_cons_self _ _ _
        have hrun1 : run s (Ev.cat c.nextRes ra rb :: Ev.view c.nextRes ::
            readEvs c.nextRes (na + nb) reads) = .ok s1 :=
          run_cons_ok (step_cat' h.res.symm hla hlb)
            (run_cons_ok (step_view hl1) (run_readEvs hl1 (by rw [List.length_append, hna, hnb]) reads))
        obtain ⟨s5, hrun5, h5, hf5⟩ := scope_tail ihi ihr h h1 hf1 rfl []
        refine ⟨s5, ?_, h5, hf5⟩
        have := run_append_ok hrun1 hrun5
        simpa only [readEvs, List.filter_nil, List.map_nil, List.nil_append, List.append_assoc,
          List.cons_append] using this
  | catDetach n1 n2 reads rest ih =>
    intro c s h
    rw [comp_catDetach]
    have hrun := catDetach_run n1 n2 reads h.liveLt
    rw [h.res] at hrun
    have h2 : Inv { c with nextRes := c.nextRes + 3 }
        { s with nextRes := c.nextRes + 3, nextCell := s.nextCell + n1 + n2 } :=
      h.bump0 (by omega) (by omega)
    have hf2 : Frame s { s with nextRes := c.nextRes + 3, nextCell := s.nextCell + n1 + n2 } :=
      ⟨fun _ _ hl => hl, fun _ _ hl => hl⟩
    obtain ⟨s3, hrun3, h3, hf3⟩ := ih _ _ h2
    refine ⟨s3, ?_, h3, hf2.trans hf3⟩
    have := run_append_ok hrun hrun3
    simpa only [List.append_assoc, List.cons_append, List.nil_append] using this

/-- the driver's exit path: freeing every kept result empties the table -/
theorem free_all (kept : List (Nat × Nat)) : ∀ (s : St), (kept.map (·.1)).Nodup →
    (∀ e ∈ kept, ∃ cs, s.live.lookup e.1 = some cs) →
    (∀ e ∈ s.live, ∃ e' ∈ kept, e'.1 = e.1) →
    ∃ s', run s (kept.map (fun e => Ev.free e.1)) = .ok s' ∧ s'.live = [] := by
  induction kept with
  | nil =>
    intro s _ _ honly
    refine ⟨s, rfl, ?_⟩
    cases hl : s.live with
    | nil => rfl
    | cons e l =>
      obtain ⟨e', he', _⟩ := honly e (by rw [hl]; exact List.mem_cons_self)
      cases he'
  | cons k ks ih =>
    intro s hnd hhas honly
    rw [List.map_cons, List.nodup_cons] at hnd
    obtain ⟨cs, hl⟩ := hhas k List.mem_cons_self
    have hne : ∀ e ∈ ks, e.1 ≠ k.1 := fun e he heq => hnd.1 (List.mem_map.mpr ⟨e, he, heq⟩)
    obtain ⟨s', hrun, hemp⟩ := ih { s with live := s.live.filter (fun e => e.1 != k.1) } hnd.2
      (by
        intro e he
        obtain ⟨cs', hl'⟩ := hhas e (List.mem_cons_of_mem _ he)
        exact ⟨cs', by show List.lookup e.1 (s.live.filter _) = _
                       rw [lookup_filter_ne (hne e he)]; exact hl'⟩)
      (by
        intro e he
        have he := mem_filter_ne.mp he
        obtain ⟨e', he', heq⟩ := honly e he.1
        rcases List.mem_cons.mp he' with rfl | he'
        · exact absurd heq.symm he.2
        · exact ⟨e', he', heq⟩)
    exact ⟨s', run_cons_ok (step_free hl) hrun, hemp⟩

theorem Inv.init : Inv {} {} := by
  constructor <;> first | rfl | (intro e he; cases he) | exact List.nodup_nil

theorem compileAll_eq (p : Prog) :
    compileAll p = (comp p {}).1 ++ (comp p {}).2.kept.map (fun e => Ev.free e.1) := rfl

theorem run_compileAll (p : Prog) : ∃ s, run {} (compileAll p) = .ok s ∧ s.live = [] := by
  obtain ⟨s1, hrun1, h1, _⟩ := comp_sim p {} {} Inv.init
  have hop : (comp p {}).2.opened = [] := (comp_opened p {}).1
  have hnd := h1.nodup
  have hhas := h1.has
  have honly := h1.only
  rw [hop, List.nil_append] at hnd hhas honly
  obtain ⟨s2, hrun2, hemp⟩ := free_all _ s1 hnd
    (fun e he => by obtain ⟨cs, hl, _⟩ := hhas e he; exact ⟨cs, hl⟩) honly
  exact ⟨s2, by rw [compileAll_eq]; exact run_append_ok hrun1 hrun2, hemp⟩

theorem check_compileAll (p : Prog) : check (compileAll p) = true := by
  obtain ⟨s, hrun, hemp⟩ := run_compileAll p
  simp [check, finish, hrun, hemp]


/-! ### arbitrary traces -/

/-- ids of the live results -/
def St.ids (s : St) : List Nat := s.live.map (·.1)

/-- every live id was issued -/
def GInv (s : St) : Prop := ∀ r ∈ s.ids, r < s.nextRes

/-- the event creates result `r` -/
def Ev.creates (r : Nat) : Ev → Bool
  | .alloc r' _ => r' == r
  | .share r' _ _ => r' == r
  | .cat r' _ _ => r' == r
  | _ => false

/-- the event needs result `r` to be live -/
def Ev.uses (r : Nat) : Ev → Bool
  | .share _ r' _ => r' == r
  | .cat _ r1 r2 => r1 == r || r2 == r
  | .item r' _ => r' == r
  | .view r' => r' == r
  | .borrow _ r' _ => r' == r
  | .refcnt r' _ _ => r' == r
  | .free r' => r' == r
  | _ => false

theorem mem_ids_of_lookup {s : St} {r : Nat} {cs : List Nat} (h : s.live.lookup r = some cs) :
    r ∈ s.ids :=
  List.mem_map.mpr ⟨_, mem_of_lookup h, rfl⟩

theorem mem_ids_of_cells {s : St} {r : Nat} {cs : List Nat} (h : s.cells r = some cs) :
    r ∈ s.ids := mem_ids_of_lookup h

theorem mem_map_filter_ne {β} {r r0 : Nat} {l : List (Nat × β)} :
    r ∈ (l.filter (fun e => e.1 != r0)).map (·.1) ↔ r ∈ l.map (·.1) ∧ r ≠ r0 := by
  simp only [List.mem_map, mem_filter_ne]
  constructor
  · rintro ⟨e, ⟨he, hne⟩, rfl⟩; exact ⟨⟨e, he, rfl⟩, hne⟩
  · rintro ⟨⟨e, he, rfl⟩, hne⟩; exact ⟨e, ⟨he, hne⟩, rfl⟩

/-- what one accepted event does to the id bookkeeping -/
structure StepSpec (s s' : St) (e : Ev) (r : Nat) : Prop where
  ginv : GInv s'
  cr : e.creates r = true → r = s.nextRes
  nr : s'.nextRes = s.nextRes + (if e.creates s.nextRes = true then 1 else 0)
  bal : (if e = .free r then 1 else 0) + (if r ∈ s'.ids then 1 else 0) =
        (if r ∈ s.ids then 1 else 0) + (if e.creates r = true then 1 else 0)
  us : e.uses r = true → r ∈ s.ids

theorem StepSpec.same {s : St} {e : Ev} {r : Nat} (hg : GInv s) (hc : ∀ r, e.creates r = false)
    (hf : ∀ r, e ≠ .free r) (hu : e.uses r = true → r ∈ s.ids) {s' : St}
    (hl : s'.live = s.live) (hn : s'.nextRes = s.nextRes) : StepSpec s s' e r := by
  have hids : s'.ids = s.ids := by simp [St.ids, hl]
  constructor
  · intro r hr; rw [hids] at hr; rw [hn]; exact hg r hr
  · intro h; rw [hc] at h; cases h
  · rw [hc]; simpa using hn
  · rw [hc, hids, if_neg (hf r)]; simp
  · exact hu

theorem StepSpec.create {s : St} {e : Ev} {r r' : Nat} (hg : GInv s) (cs : List Nat)
    (hc : ∀ r, e.creates r = (r' == r)) (hr' : r' = s.nextRes)
    (hf : ∀ r, e ≠ .free r) (hu : e.uses r = true → r ∈ s.ids) {s' : St}
    (hl : s'.live = (r', cs) :: s.live) (hn : s'.nextRes = s.nextRes + 1) : StepSpec s s' e r := by
  have hids : s'.ids = r' :: s.ids := by simp [St.ids, hl]
  subst hr'
  constructor
  · intro r hr; rw [hids] at hr; rw [hn]
    rcases List.mem_cons.mp hr with rfl | hr
    · omega
    · have := hg r hr; omega
  · intro h; rw [hc] at h; exact (beq_iff_eq.mp h).symm
  · rw [hc]; simpa using hn
  · rw [hc, hids, if_neg (hf r)]
    by_cases h : s.nextRes = r
    · subst h
      have : s.nextRes ∉ s.ids := fun hm => by have := hg _ hm; omega
      simp [this]
    · have h' : ¬ r = s.nextRes := fun x => h x.symm
      simp [h, h']
  · exact hu

theorem step_spec {s s' : St} {e : Ev} (h : step s e = .ok s') (hg : GInv s) (r : Nat) :
    StepSpec s s' e r := by
  cases e with
  | alloc r' n =>
    simp only [step] at h
    split at h
    · cases h
      exact .create hg _ (fun _ => rfl) ‹_› (fun _ => by simp) (by simp [Ev.uses]) rfl rfl
    · cases h
  | share r' r0 k =>
    simp only [step] at h
    split at h
    · split at h
      · cases h
      · rename_i cs hcs
        split at h
        · cases h
        · cases h
          exact .create hg _ (fun _ => rfl) ‹_› (fun _ => by simp)
            (by simp only [Ev.uses, beq_iff_eq]; rintro rfl; exact mem_ids_of_cells hcs) rfl rfl
    · cases h
  | cat r' r1 r2 =>
    simp only [step] at h
    split at h
    · split at h
      · rename_i c1 c2 h1 h2
        cases h
        refine .create hg _ (fun _ => rfl) ‹_› (fun _ => by simp) ?_ rfl rfl
        simp only [Ev.uses, Bool.or_eq_true, beq_iff_eq]
        rintro (rfl | rfl)
        · exact mem_ids_of_cells h1
        · exact mem_ids_of_cells h2
      · cases h
    · cases h
  | item r0 k =>
    simp only [step] at h
    split at h
    · cases h
    · rename_i cs hcs
      split at h
      · cases h
        exact .same hg (fun _ => rfl) (fun _ => by simp)
          (by simp only [Ev.uses, beq_iff_eq]; rintro rfl; exact mem_ids_of_cells hcs) rfl rfl
      · cases h
  | view r0 =>
    simp only [step] at h
    split at h
    · cases h
    · rename_i cs hcs
      cases h
      exact .same hg (fun _ => rfl) (fun _ => by simp)
        (by simp only [Ev.uses, beq_iff_eq]; rintro rfl; exact mem_ids_of_cells hcs) rfl rfl
  | borrow p r0 k =>
    simp only [step] at h
    split at h
    · split at h
      · cases h
      · rename_i cs hcs
        split at h
        · cases h
        · cases h
          exact .same hg (fun _ => rfl) (fun _ => by simp)
            (by simp only [Ev.uses, beq_iff_eq]; rintro rfl; exact mem_ids_of_cells hcs) rfl rfl
    · cases h
  | use p =>
    simp only [step] at h
    split at h
    · cases h
    · split at h
      · cases h
        exact .same hg (fun _ => rfl) (fun _ => by simp) (by simp [Ev.uses]) rfl rfl
      · cases h
  | refcnt r0 k n =>
    simp only [step] at h
    split at h
    · cases h
    · rename_i cs hcs
      split at h
      · cases h
      · split at h
        · cases h
          exact .same hg (fun _ => rfl) (fun _ => by simp)
            (by simp only [Ev.uses, beq_iff_eq]; rintro rfl; exact mem_ids_of_cells hcs) rfl rfl
        · cases h
  | free r0 =>
    simp only [step] at h
    split at h
    · cases h
    · rename_i cs hcs
      cases h
      have hr0 := mem_ids_of_cells hcs
      constructor
      · intro r hr
        exact hg r (mem_map_filter_ne.mp hr).1
      · intro h; cases h
      · simp [Ev.creates]
      · show (if Ev.free r0 = Ev.free r then 1 else 0) +
            (if r ∈ (s.live.filter (fun e => e.1 != r0)).map (·.1) then 1 else 0) =
            (if r ∈ s.ids then 1 else 0) + (if Ev.creates r (Ev.free r0) = true then 1 else 0)
        by_cases hrr : r0 = r
        · subst hrr
          simp [mem_map_filter_ne, hr0, Ev.creates]
        · have h' : ¬ r = r0 := fun x => hrr x.symm
          have : ¬ Ev.free r0 = Ev.free r := by simpa using hrr
          have e : (r ∈ (s.live.filter (fun e => e.1 != r0)).map (·.1)) ↔ r ∈ s.ids := by
            rw [mem_map_filter_ne]; exact ⟨fun h => h.1, fun h => ⟨h, h'⟩⟩
          simp only [e, this, Ev.creates]
          simp
      · simp only [Ev.uses, beq_iff_eq]; rintro rfl; exact hr0

theorem GInv.init : GInv {} := by intro r hr; cases hr

/-- bookkeeping of a whole accepted trace -/
theorem run_spec {tr : List Ev} : ∀ {s s' : St}, run s tr = .ok s' → GInv s → ∀ r : Nat,
    GInv s' ∧ s.nextRes ≤ s'.nextRes ∧
    tr.countP (Ev.creates r) = (if s.nextRes ≤ r ∧ r < s'.nextRes then 1 else 0) ∧
    tr.count (.free r) + (if r ∈ s'.ids then 1 else 0) =
      (if r ∈ s.ids then 1 else 0) + tr.countP (Ev.creates r) := by
  induction tr with
  | nil =>
    intro s s' h hg r
    cases h
    refine ⟨hg, Nat.le_refl _, ?_, by simp⟩
    have : ¬ (s.nextRes ≤ r ∧ r < s.nextRes) := by omega
    simp [this]
  | cons e es ih =>
    intro s s' h hg r
    obtain ⟨s1, hstep, hrun⟩ := run_cons_inv h
    have sp := step_spec hstep hg r
    obtain ⟨hg', hle, hcnt, hbal⟩ := ih hrun sp.ginv r
    have hnr := sp.nr
    have hcr := sp.cr
    have hb := sp.bal
    refine ⟨hg', ?_, ?_, ?_⟩
    · split at hnr <;> omega
    · rw [List.countP_cons, hcnt]
      by_cases hc : Ev.creates r e = true
      · have hr := hcr hc
        subst hr
        rw [if_pos hc] at hnr ⊢
        have h1 : ¬ (s1.nextRes ≤ s.nextRes ∧ s.nextRes < s'.nextRes) := by omega
        have h2 : s.nextRes ≤ s.nextRes ∧ s.nextRes < s'.nextRes := by omega
        rw [if_neg h1, if_pos h2]
      · rw [if_neg hc]
        by_cases hc' : Ev.creates s.nextRes e = true
        · rw [if_pos hc'] at hnr
          have hne : r ≠ s.nextRes := fun h => hc (h ▸ hc')
          have : (s1.nextRes ≤ r ∧ r < s'.nextRes) ↔ (s.nextRes ≤ r ∧ r < s'.nextRes) := by omega
          simp only [this]; simp
        · rw [if_neg hc'] at hnr
          rw [hnr]; simp
    · rw [List.count_cons, List.countP_cons]
      have : (if (e == Ev.free r) = true then 1 else 0) = (if e = Ev.free r then 1 else 0) := by
        simp only [beq_iff_eq]
      rw [this]
      omega

theorem creates_iff {r : Nat} {e : Ev} :
    e.creates r = true ↔ (∃ n, e = .alloc r n) ∨ (∃ r0 k, e = .share r r0 k) ∨ (∃ r1 r2, e = .cat r r1 r2) := by
  cases e <;> simp [Ev.creates]

theorem uses_iff {r : Nat} {e : Ev} :
    e.uses r = true ↔ (∃ k, e = .item r k) ∨ e = .view r ∨ (∃ p k, e = .borrow p r k) ∨
      (∃ r' k, e = .share r' r k) ∨ (∃ r' r2, e = .cat r' r r2 ∨ e = .cat r' r2 r) ∨
      (∃ k c, e = .refcnt r k c) ∨ e = .free r := by
  cases e <;> simp [Ev.uses]
  case cat r' r1 r2 =>
    constructor
    · rintro (rfl | rfl)
      · exact ⟨_, _, .inl ⟨rfl, rfl, rfl⟩⟩
      · exact ⟨_, _, .inr ⟨rfl, rfl, rfl⟩⟩
    · rintro ⟨_, _, (⟨_, h, _⟩ | ⟨_, _, h⟩)⟩
      · exact .inl h
      · exact .inr h

theorem check_run {tr : List Ev} (h : check tr = true) : ∃ s, run {} tr = .ok s ∧ s.live = [] := by
  simp only [check, finish] at h
  cases hr : run {} tr with
  | error x => simp [hr] at h
  | ok s =>
    simp only [hr] at h
    refine ⟨s, rfl, ?_⟩
    by_cases he : s.live.isEmpty = true
    · simpa using he
    · simp [he] at h

/-- in an accepted complete trace, frees of `r` = creations of `r` ≤ 1 -/
theorem check_count {tr : List Ev} (h : check tr = true) (r : Nat) :
    tr.count (.free r) = tr.countP (Ev.creates r) ∧ tr.countP (Ev.creates r) ≤ 1 := by
  obtain ⟨s, hrun, hemp⟩ := check_run h
  obtain ⟨_, _, hcnt, hbal⟩ := run_spec hrun GInv.init r
  have h1 : r ∉ s.ids := by simp [St.ids, hemp]
  have h2 : r ∉ St.ids {} := by intro h; cases h
  rw [if_neg h1, if_neg h2] at hbal
  refine ⟨by omega, ?_⟩
  rw [hcnt]; split <;> omega

/-- once freed, a result id is never used (nor issued) again -/
theorem dead_stays {post : List Ev} {r : Nat} : ∀ {s s' : St}, run s post = .ok s' → GInv s →
    r ∉ s.ids → r < s.nextRes → ∀ e ∈ post, e.uses r = false ∧ e.creates r = false := by
  induction post with
  | nil => intro s s' _ _ _ _ e he; cases he
  | cons e es ih =>
    intro s s' h hg hdead hlt e' he'
    obtain ⟨s1, hstep, hrun⟩ := run_cons_inv h
    have sp := step_spec hstep hg r
    have hu : e.uses r = false := by
      cases hx : e.uses r with
      | false => rfl
      | true => exact absurd (sp.us hx) hdead
    have hc : e.creates r = false := by
      cases hx : e.creates r with
      | false => rfl
      | true => have := sp.cr hx; omega
    rcases List.mem_cons.mp he' with rfl | he'
    · exact ⟨hu, hc⟩
    · have hb := sp.bal
      have hnr := sp.nr
      rw [if_neg hdead, hc] at hb
      have hdead1 : r ∉ s1.ids := by
        intro hm; rw [if_pos hm] at hb; simp at hb
      exact ih hrun sp.ginv hdead1 (by split at hnr <;> omega) e' he'

theorem no_use_after_free {pre post : List Ev} {r : Nat}
    (h : check (pre ++ [.free r] ++ post) = true) :
    ∀ e ∈ post, e.uses r = false ∧ e.creates r = false := by
  obtain ⟨s, hrun, _⟩ := check_run h
  obtain ⟨s1, hrun1, hrun2⟩ := run_append_inv hrun
  obtain ⟨s0, hrun0, hrunf⟩ := run_append_inv hrun1
  obtain ⟨s1', hstep, hnil⟩ := run_cons_inv hrunf
  cases hnil
  have hg0 := (run_spec hrun0 GInv.init r).1
  have sp := step_spec hstep hg0 r
  have hin : r ∈ s0.ids := sp.us (by simp [Ev.uses])
  have hb := sp.bal
  have hnr := sp.nr
  have hc : Ev.creates r (Ev.free r) = false := rfl
  have hc' : Ev.creates s0.nextRes (Ev.free r) = false := rfl
  rw [if_pos rfl, if_pos hin, hc] at hb
  rw [hc'] at hnr
  have hdead : r ∉ s1.ids := by intro hm; rw [if_pos hm] at hb; simp at hb
  have := hg0 r hin
  exact dead_stays hrun2 sp.ginv hdead (by simp at hnr; omega)


/-! ### a concrete program for the non-vacuity examples -/

/-- uses all eight constructors: a kept document with a stored pointer; a scope with reads, a
    scoped pointer, uses of both pointers, an `AMresultCat` of a kept and an open result inside which
    another result is kept; then the two detach templates (with and without a valid index) and
    the cat-detach template -/
def Ex.prog : Prog :=
  .keep 2 1 (.scoped 3 [0, 2, 5] (some 1)
      (.useScoped 0 (.useKept 0 (.catOf (.kept 0) (.opened 0) [0, 4] (.keep 1 0 .done) .done)))
      (.detach 2 1 (.catDetach 1 2 [0, 2] (.useKept 1 (.detach 1 3 .done)))))

end AmVerif.Handles
