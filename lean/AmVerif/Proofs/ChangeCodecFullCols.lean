import AmVerif.Proofs.ChangeCodec
import AmVerif.Model.ChangeWF
import AmVerif.Proofs.DocCodecBool
/-
  Helper lemmas for the whole-change round trip of C18 (`Props/C18Full.lean`), COLUMN level: every
  legacy column iterator of `columnar/encoding` (`RleDecoder`, `DeltaDecoder`, `BooleanDecoder`,
  `MaybeBooleanDecoder`, the value iterator), started on the bytes the legacy encoder wrote for a
  value list, hands the values back ONE AT A TIME (the row iterator pulls the columns in lock step).
-/
namespace AmVerif.ChangeCodec.Full
open AmVerif AmVerif.Leb AmVerif.Crdt AmVerif.ChangeCodec
open AmVerif.Hexane (readU readS encU encS validUtf8 ValCodec two63 two64 cU64 cI64 Lawful readU_encU encU_ne_nil
  validU64 validI64 lawful_u64 lawful_i64 ListValid expandBool boolRuns boolEncode)

/-! ## RLE columns: the column may have been dropped for holding nothing but nulls -/

/-- the decoder stands in front of `xs`: in the sense of `Rep`, or the column was not written at all
    (every value is null) -/
def RepN {α : Type} [DecidableEq α] (c : ValCodec α) (Valid : α → Prop) (s : RleSt α) (xs : List (Option α)) : Prop :=
  Rep c Valid s xs ∨ (s = RleSt.init [] ∧ ∀ x ∈ xs, x = none)

theorem rleNext_init_nil {α : Type} (c : ValCodec α) :
    rleNext c (RleSt.init (α := α) []) = .ok (none, RleSt.init []) := by
  unfold rleNext; rw [rleFill]; simp [RleSt.init]

theorem repN_step {α : Type} [DecidableEq α] {c : ValCodec α} {Valid : α → Prop} (law : Lawful c Valid)
    (s : RleSt α) (x : Option α) (xs : List (Option α)) (h : RepN c Valid s (x :: xs)) :
    ∃ o s', rleNext c s = .ok (o, s') ∧ o.bind id = x ∧ RepN c Valid s' xs := by
  rcases h with h | ⟨rfl, h⟩
  · obtain ⟨s', h1, h2⟩ := rep_step law s x xs h
    exact ⟨some x, s', h1, by cases x <;> rfl, Or.inl h2⟩
  · refine ⟨none, RleSt.init [], rleNext_init_nil c, ?_, Or.inr ⟨rfl, fun y hy => h y (List.mem_cons_of_mem _ hy)⟩⟩
    exact (h x List.mem_cons_self).symm

theorem allNone_of_all {α : Type} {xs : List (Option α)} (h : xs.all (fun x => x.isNone) = true) :
    ∀ x ∈ xs, x = none := by
  intro x hx
  have := List.all_eq_true.mp h x hx
  cases x with
  | none => rfl
  | some v => simp at this

theorem repN_init {α : Type} [DecidableEq α] {c : ValCodec α} {Valid : α → Prop}
    (xs : List (Option α)) (hlen : xs.length < two63) (hv : ListValid Valid true xs) :
    RepN c Valid (RleSt.init (rleEnc c xs)) xs := by
  unfold rleEnc
  by_cases hall : xs.all (fun x => x.isNone) = true
  · rw [if_pos hall]; exact Or.inr ⟨rfl, allNone_of_all hall⟩
  · rw [if_neg hall]; exact Or.inl (rep_init xs hlen hv)

theorem repN_nil_done {α : Type} [DecidableEq α] {c : ValCodec α} {Valid : α → Prop}
    (s : RleSt α) (h : RepN c Valid s []) : s.done = true := by
  rcases h with h | ⟨rfl, -⟩
  · exact (rep_nil s h).2
  · rfl

theorem repN_some_not_done {α : Type} [DecidableEq α] {c : ValCodec α} {Valid : α → Prop}
    (s : RleSt α) (v : α) (xs : List (Option α)) (h : RepN c Valid s (some v :: xs)) : s.done = false := by
  rcases h with h | ⟨-, h⟩
  · exact rep_not_done s _ _ h
  · have := h (some v) List.mem_cons_self
    cases this

/-- a column of present values -/
theorem listValid_somes {α β : Type} {Valid : α → Prop} (f : β → α) (l : List β) (h : ∀ b ∈ l, Valid (f b)) :
    ListValid Valid true (l.map (fun b => some (f b))) := by
  intro x hx
  obtain ⟨b, hb, rfl⟩ := List.mem_map.mp hx
  exact h b hb

/-! ## delta columns -/

def DRep (s : DeltaSt) (xs : List (Option Int)) : Prop :=
  (Rep cI64 validI64 s.rle (deltasSat xs s.abs) ∧ NoSat xs s.abs) ∨ (s.rle = RleSt.init [] ∧ ∀ x ∈ xs, x = none)

theorem dRep_step (s : DeltaSt) (x : Option Int) (xs : List (Option Int)) (h : DRep s (x :: xs)) :
    ∃ o s', deltaNext s = .ok (o, s') ∧ o.bind id = x ∧ DRep s' xs := by
  rcases h with ⟨h, hs⟩ | ⟨h0, h⟩
  · cases x with
    | none =>
      simp only [deltasSat] at h
      simp only [NoSat] at hs
      obtain ⟨r1, h1, h2⟩ := rep_step lawful_i64 s.rle none _ h
      refine ⟨some none, { s with rle := r1 }, ?_, rfl, Or.inl ⟨h2, hs⟩⟩
      simp only [deltaNext, h1]
    | some v =>
      simp only [deltasSat] at h
      simp only [NoSat] at hs
      obtain ⟨hd, hv, hs'⟩ := hs
      have hsub : satSub v s.abs = v - s.abs := by
        unfold satSub; rw [satAdd_id _ _ (by simpa [Int.sub_eq_add_neg] using hd)]; omega
      rw [hsub] at h
      obtain ⟨r1, h1, h2⟩ := rep_step lawful_i64 s.rle (some (v - s.abs)) _ h
      have hadd : satAdd s.abs (v - s.abs) = v := by
        rw [satAdd_id _ _ (by have : s.abs + (v - s.abs) = v := by omega
                              rw [this]; exact hv)]; omega
      refine ⟨some (some v), ⟨r1, v⟩, ?_, rfl, Or.inl ⟨h2, hs'⟩⟩
      simp only [deltaNext, h1, hadd]
  · refine ⟨none, { s with rle := RleSt.init [] }, ?_, (h x List.mem_cons_self).symm,
      Or.inr ⟨rfl, fun y hy => h y (List.mem_cons_of_mem _ hy)⟩⟩
    simp only [deltaNext, h0, rleNext_init_nil]

theorem dRep_init (xs : List (Option Int)) (hlen : xs.length < two63) (hs : NoSat xs 0) :
    DRep (DeltaSt.init (deltaEnc xs)) xs := by
  unfold deltaEnc rleEnc
  by_cases hall : (deltasSat xs 0).all (fun x => x.isNone) = true
  · rw [if_pos hall]
    rw [deltasSat_all_none] at hall
    exact Or.inr ⟨rfl, allNone_of_all hall⟩
  · rw [if_neg hall]
    exact Or.inl ⟨rep_init (deltasSat xs 0) (by rw [deltasSat_length]; exact hlen) (deltasSat_valid xs 0 hs), hs⟩

/-- counters below 2^62 never saturate -/
theorem noSat_small : ∀ (xs : List (Option Int)) (a : Int), 0 ≤ a → a < 2 ^ 62 →
    (∀ x ∈ xs, ∀ v, x = some v → 0 ≤ v ∧ v < 2 ^ 62) → NoSat xs a
  | [], _, _, _, _ => trivial
  | none :: r, a, h0, h1, h => by
    simp only [NoSat]
    exact noSat_small r a h0 h1 (fun x hx => h x (List.mem_cons_of_mem _ hx))
  | some v :: r, a, h0, h1, h => by
    obtain ⟨hv0, hv1⟩ := h (some v) List.mem_cons_self v rfl
    simp only [NoSat, inI64, two63]
    refine ⟨by omega, by omega, noSat_small r v hv0 hv1 (fun x hx => h x (List.mem_cons_of_mem _ hx))⟩

/-! ## Boolean columns (`BooleanDecoder` on `BooleanEncoder`'s run lengths) -/

def encRuns (runs : List Nat) : Bytes := (runs.map encU).flatten

/-- the decoder stands in front of `xs`: what is left of the current run, then the runs not read yet -/
def BRep (s : BoolSt) (xs : List Bool) : Prop :=
  ∃ runs : List Nat, s.data = encRuns runs ∧ (∀ n ∈ runs, n < two64) ∧
    xs = List.replicate s.count s.last ++ expandBool runs (!s.last)

theorem boolFill_ok : ∀ (runs : List Nat) (s : BoolSt) (fuel : Nat) (x : Bool) (xs : List Bool),
    s.data = encRuns runs → (∀ n ∈ runs, n < two64) → s.data.length < fuel →
    x :: xs = List.replicate s.count s.last ++ expandBool runs (!s.last) →
    ∃ s1, boolFill fuel s = .ok (some s1) ∧ s1.count ≠ 0 ∧ BRep s1 (x :: xs) ∧ s1.wasEmpty = s.wasEmpty
  | runs, s, fuel, x, xs, hd, hr, hf, hx => by
    cases fuel with
    | zero => omega
    | succ f =>
      by_cases hc : s.count = 0
      · cases runs with
        | nil => simp [hc, expandBool] at hx
        | cons n r =>
          have hdata : s.data = encU n ++ encRuns r := by rw [hd]; simp [encRuns]
          have hemp : s.data.isEmpty = false := by
            rw [hdata]; exact isEmpty_append_left (encU_ne_nil n)
          have hn := hr n List.mem_cons_self
          have hlen : (encRuns r).length < f := by
            rw [hdata, List.length_append] at hf
            have := Hexane.length_pos_of_ne_nil _ (encU_ne_nil n)
            omega
          obtain ⟨s1, h1, h2, h3, h4⟩ := boolFill_ok r { s with data := encRuns r, count := n, last := !s.last } f x xs rfl
            (fun m hm => hr m (List.mem_cons_of_mem _ hm)) hlen
            (by simpa [hc, expandBool] using hx)
          refine ⟨s1, ?_, h2, h3, h4⟩
          rw [boolFill]
          simp only [hc, ne_eq, not_true_eq_false, if_false, hemp, Bool.false_eq_true]
          rw [hdata, readU_encU n _ (by unfold two64 at hn; exact hn)]
          exact h1
      · refine ⟨s, ?_, hc, ⟨runs, hd, hr, hx⟩, rfl⟩
        rw [boolFill]
        simp [hc]

theorem bRep_step (s : BoolSt) (x : Bool) (xs : List Bool) (h : BRep s (x :: xs)) :
    ∃ s', boolNext s = .ok (some x, s') ∧ BRep s' xs ∧ s'.wasEmpty = s.wasEmpty := by
  obtain ⟨runs, hd, hr, hx⟩ := h
  obtain ⟨s1, h1, h2, ⟨runs1, hd1, hr1, hx1⟩, h4⟩ := boolFill_ok runs s (s.data.length + 1) x xs hd hr (by omega) hx
  obtain ⟨k, hk⟩ : ∃ k, s1.count = k + 1 := ⟨s1.count - 1, by omega⟩
  rw [hk, List.replicate_succ, List.cons_append] at hx1
  obtain ⟨hx2, hx3⟩ := List.cons.inj hx1
  refine ⟨{ s1 with count := s1.count - 1 }, ?_, ⟨runs1, hd1, hr1, ?_⟩, h4⟩
  · unfold boolNext
    rw [h1]
    simp only [hx2]
  · simp only [hk, Nat.add_sub_cancel]
    exact hx3

theorem mem_le_sum : ∀ (l : List Nat) (n : Nat), n ∈ l → n ≤ l.sum
  | [], _, h => by cases h
  | a :: r, n, h => by
    rcases List.mem_cons.mp h with rfl | h
    · simp
    · have := mem_le_sum r n h; simp; omega

theorem bRep_init (xs : List Bool) (h : xs.length < two64) : BRep (BoolSt.init (boolEnc xs)) xs := by
  obtain ⟨-, hsum⟩ := DocCodec.boolRuns_ok xs h
  refine ⟨boolRuns xs, rfl, ?_, ?_⟩
  · intro n hn
    have := mem_le_sum _ n hn
    omega
  · simp only [BoolSt.init, List.replicate_zero, List.nil_append, Bool.not_true]
    exact (DocCodec.expandBool_boolRuns xs).symm

theorem boolEnc_ne_nil (x : Bool) (xs : List Bool) (h : (x :: xs).length < two64) : boolEnc (x :: xs) ≠ [] := by
  obtain ⟨-, hsum⟩ := DocCodec.boolRuns_ok (x :: xs) h
  unfold boolEnc boolEncode
  cases hr : boolRuns (x :: xs) with
  | nil => rw [hr] at hsum; simp at hsum
  | cons n r => exact DocCodec.flatten_encU_ne_nil n r

/-- `MaybeBooleanDecoder`: an unwritten column is all `false` -/
def MBRep (s : BoolSt) (xs : List Bool) : Prop :=
  (s.wasEmpty = true ∧ ∀ x ∈ xs, x = false) ∨ (s.wasEmpty = false ∧ BRep s xs)

theorem mbRep_step (s : BoolSt) (x : Bool) (xs : List Bool) (h : MBRep s (x :: xs)) :
    ∃ s', maybeBoolNext s = .ok (x, s') ∧ MBRep s' xs := by
  rcases h with ⟨h1, h2⟩ | ⟨h1, h2⟩
  · refine ⟨s, ?_, Or.inl ⟨h1, fun y hy => h2 y (List.mem_cons_of_mem _ hy)⟩⟩
    unfold maybeBoolNext
    rw [if_pos h1, h2 x List.mem_cons_self]
  · obtain ⟨s', e1, e2, e3⟩ := bRep_step s x xs h2
    refine ⟨s', ?_, Or.inr ⟨by rw [e3]; exact h1, e2⟩⟩
    unfold maybeBoolNext
    simp only [h1, Bool.false_eq_true, if_false, e1]

theorem mbRep_init (xs : List Bool) (h : xs.length < two64) : MBRep (BoolSt.init (maybeBoolEnc xs)) xs := by
  unfold maybeBoolEnc
  by_cases hall : xs.all (fun b => !b) = true
  · rw [if_pos hall]
    refine Or.inl ⟨rfl, ?_⟩
    intro x hx
    have := List.all_eq_true.mp hall x hx
    simpa using this
  · rw [if_neg hall]
    cases xs with
    | nil => simp at hall
    | cons x r =>
      refine Or.inr ⟨?_, bRep_init _ h⟩
      have := boolEnc_ne_nil x r h
      simp only [BoolSt.init]
      cases hb : boolEnc (x :: r) with
      | nil => exact absurd hb this
      | cons a b => rfl

/-! ## strings (`SmolStr`): length-prefixed, allocation cap, UTF-8 check -/

theorem lawful_smol : Lawful cSmol validSmol := by
  refine ⟨fun v rest h => ?_, fun v => ?_⟩
  · obtain ⟨h1, h2⟩ := h
    show unpackSmol ((encU v.length ++ v) ++ rest) = _
    unfold unpackSmol
    rw [List.append_assoc, readU_encU v.length (v ++ rest) (by unfold MAX_ALLOCATION at h1; omega)]
    simp only
    by_cases h0 : v.length = 0
    · have : v = [] := List.eq_nil_of_length_eq_zero h0
      subst this
      simp
    · have hgt : ¬ v.length > MAX_ALLOCATION := by omega
      have hlt : ¬ (v ++ rest).length < v.length := by simp
      simp only [h0, if_false, hgt, hlt, List.take_left' rfl, h2, if_true, List.drop_left' rfl]
  · show encU v.length ++ v ≠ []
    intro h; exact encU_ne_nil _ (List.append_eq_nil_iff.mp h).1

end AmVerif.ChangeCodec.Full
