import AmVerif.Proofs.MyersFullFront
/-
  C27 helper: complete inversion lemmas for one iteration of the forward and of the backward `for k`
  loop of `find_middle_snake` (including what a FAILED overlap check says), and the snake facts
  (`StepFacts.snake` / `.zero`) for both directions.
-/
namespace AmVerif.Myers
open AmVerif

section
variable {α : Type} [BEq α]

/-! ### forward -/

/-- how `x` is picked from the two neighbours (same code in both passes), `g` = read function -/
def Picked (d : Nat) (k : Int) (g : Int → Option Nat) (x : Nat) : Prop :=
  (g (k + 1) = some x ∧ (k = -(d : Int) ∨ (k ≠ d ∧ ∃ a, g (k - 1) = some a ∧ a < x)))
  ∨ (k ≠ -(d : Int) ∧ ∃ a, g (k - 1) = some a ∧ x = a + 1 ∧ (k = d ∨ ∃ b, g (k + 1) = some b ∧ ¬ a < b))

theorem fwdStep_tail {old : List α} {os oe : Nat} {new : List α} {ns ne n m : Nat} {delta : Int} {odd : Bool}
    {d : Nat} {k : Int} {vf vb : V} {r : KStep}
    (h : fwdStep old os oe new ns ne n m delta odd d k vf vb = r) :
    (∃ p, r = .panic p) ∨ ∃ x, Picked d k vf.get x ∧ fwdTail old os oe new ns ne n m delta odd d k vf vb x = r := by
  rw [fwdStep_eq] at h
  split at h
  · rename_i hk
    have hk' : k = -(d : Int) := by simpa using hk
    rcases rd_inv h with hp | ⟨x, hx, h⟩
    · exact .inl hp
    · exact .inr ⟨x, .inl ⟨hx, .inl hk'⟩, h⟩
  · rename_i hk
    have hk' : k ≠ -(d : Int) := by simpa using hk
    split at h
    · rename_i hkd
      have hkd' : k ≠ (d : Int) := by simpa using hkd
      rcases rd_inv h with hp | ⟨a, ha, h⟩
      · exact .inl hp
      rcases rd_inv h with hp | ⟨b, hb, h⟩
      · exact .inl hp
      split at h
      · rename_i hab
        rcases rd_inv h with hp | ⟨x, hx, h⟩
        · exact .inl hp
        rw [hb] at hx
        cases hx
        exact .inr ⟨b, .inl ⟨hb, .inr ⟨hkd', a, ha, hab⟩⟩, h⟩
      · rename_i hab
        rcases rd_inv h with hp | ⟨a', ha', h⟩
        · exact .inl hp
        rw [ha] at ha'
        cases ha'
        exact .inr ⟨a + 1, .inr ⟨hk', a, ha, rfl, .inr ⟨b, hb, hab⟩⟩, h⟩
    · rename_i hkd
      have hkd' : k = (d : Int) := by simpa using hkd
      rcases rd_inv h with hp | ⟨a', ha', h⟩
      · exact .inl hp
      exact .inr ⟨a' + 1, .inr ⟨hk', a', ha', rfl, .inl hkd'⟩, h⟩

/-- the forward tail, with the information a failed check carries -/
theorem fwdTail_inv2 {old : List α} {os oe : Nat} {new : List α} {ns ne n m : Nat} {delta : Int} {odd : Bool}
    {d : Nat} {k : Int} {vf vb : V} {x : Nat} {r : KStep}
    (h : fwdTail old os oe new ns ne n m delta odd d k vf vb x = r) :
    (∃ p, r = .panic p) ∨ ∃ vf', vf.set k (fwdX1 old os oe new ns ne n m k x) = some vf' ∧
      ((r = .cont vf' vb ∧ (odd = true → (k - delta).natAbs + 1 ≤ d →
          ∃ b, vb.get (-(k - delta)) = some b ∧ fwdX1 old os oe new ns ne n m k x + b < n))
      ∨ (r = .found ((x : Int) + os) ((x : Int) - k + ns) vf' vb ∧ odd = true ∧ (k - delta).natAbs + 1 ≤ d
          ∧ ∃ b, vb.get (-(k - delta)) = some b ∧ fwdX1 old os oe new ns ne n m k x + b ≥ n)) := by
  unfold fwdTail at h
  cases hs : vf.set k (fwdX1 old os oe new ns ne n m k x) with
  | none => rw [hs] at h; exact .inl ⟨_, h.symm⟩
  | some vf' =>
    rw [hs] at h
    simp only at h
    split at h
    · rename_i hc
      simp only [Bool.and_eq_true, decide_eq_true_eq] at hc
      rcases rd_inv h with hp | ⟨a, ha, h⟩
      · exact .inl hp
      · rcases rd_inv h with hp | ⟨b, hb, h⟩
        · exact .inl hp
        · have ha' := V.get_set_self hs
          rw [ha'] at ha
          cases ha
          split at h
          · rename_i hab
            exact .inr ⟨vf', rfl, .inr ⟨h.symm, hc.1, hc.2, b, hb, hab⟩⟩
          · rename_i hab
            exact .inr ⟨vf', rfl, .inl ⟨h.symm, fun _ _ => ⟨b, hb, by omega⟩⟩⟩
    · rename_i hc
      simp only [Bool.and_eq_true, decide_eq_true_eq, not_and] at hc
      exact .inr ⟨vf', rfl, .inl ⟨h.symm, fun h1 h2 => absurd h2 (hc h1)⟩⟩

/-! ### backward -/

/-- length of the backward snake followed from `x` on diagonal `k` -/
def bwdAdv (old : List α) (os : Nat) (new : List α) (ns n m : Nat) (k : Int) (x : Nat) : Nat :=
  if x < n ∧ 0 ≤ (x : Int) - k ∧ (x : Int) - k < (m : Int) then
    commonSuffixLen old os (os + n - x) new ns (ns + m - ((x : Int) - k).toNat)
  else 0

/-- the part of `bwdStep` after `x` has been picked -/
def bwdTail (old : List α) (os : Nat) (new : List α) (ns n m : Nat) (delta : Int) (odd : Bool)
    (d : Nat) (k : Int) (vf vb : V) (x : Nat) : KStep :=
  match vb.set k (x + bwdAdv old os new ns n m k x) with
  | none => .panic .sliceIndex
  | some vb =>
    if !odd && decide ((k - delta).natAbs ≤ d) then
      rd vb k fun a => rd vf (-(k - delta)) fun b =>
        if a + b ≥ n then
          .found ((n : Int) - ((x + bwdAdv old os new ns n m k x : Nat) : Int) + os)
            ((m : Int) - ((x : Int) - k + ((bwdAdv old os new ns n m k x : Nat) : Int)) + ns) vf vb
        else .cont vf vb
    else .cont vf vb

theorem bwdStep_eq (old : List α) (os : Nat) (new : List α) (ns n m : Nat) (delta : Int) (odd : Bool)
    (d : Nat) (k : Int) (vf vb : V) :
    bwdStep old os new ns n m delta odd d k vf vb =
      (if k == -(d : Int) then rd vb (k + 1) (bwdTail old os new ns n m delta odd d k vf vb)
       else if k != (d : Int) then
         rd vb (k - 1) fun a => rd vb (k + 1) fun b =>
           if a < b then rd vb (k + 1) (bwdTail old os new ns n m delta odd d k vf vb)
           else rd vb (k - 1) fun a' => bwdTail old os new ns n m delta odd d k vf vb (a' + 1)
       else rd vb (k - 1) fun a' => bwdTail old os new ns n m delta odd d k vf vb (a' + 1)) := by
  rfl

theorem bwdStep_tail {old : List α} {os : Nat} {new : List α} {ns n m : Nat} {delta : Int} {odd : Bool}
    {d : Nat} {k : Int} {vf vb : V} {r : KStep}
    (h : bwdStep old os new ns n m delta odd d k vf vb = r) :
    (∃ p, r = .panic p) ∨ ∃ x, Picked d k vb.get x ∧ bwdTail old os new ns n m delta odd d k vf vb x = r := by
  rw [bwdStep_eq] at h
  split at h
  · rename_i hk
    have hk' : k = -(d : Int) := by simpa using hk
    rcases rd_inv h with hp | ⟨x, hx, h⟩
    · exact .inl hp
    · exact .inr ⟨x, .inl ⟨hx, .inl hk'⟩, h⟩
  · rename_i hk
    have hk' : k ≠ -(d : Int) := by simpa using hk
    split at h
    · rename_i hkd
      have hkd' : k ≠ (d : Int) := by simpa using hkd
      rcases rd_inv h with hp | ⟨a, ha, h⟩
      · exact .inl hp
      rcases rd_inv h with hp | ⟨b, hb, h⟩
      · exact .inl hp
      split at h
      · rename_i hab
        rcases rd_inv h with hp | ⟨x, hx, h⟩
        · exact .inl hp
        rw [hb] at hx
        cases hx
        exact .inr ⟨b, .inl ⟨hb, .inr ⟨hkd', a, ha, hab⟩⟩, h⟩
      · rename_i hab
        rcases rd_inv h with hp | ⟨a', ha', h⟩
        · exact .inl hp
        rw [ha] at ha'
        cases ha'
        exact .inr ⟨a + 1, .inr ⟨hk', a, ha, rfl, .inr ⟨b, hb, hab⟩⟩, h⟩
    · rename_i hkd
      have hkd' : k = (d : Int) := by simpa using hkd
      rcases rd_inv h with hp | ⟨a', ha', h⟩
      · exact .inl hp
      exact .inr ⟨a' + 1, .inr ⟨hk', a', ha', rfl, .inl hkd'⟩, h⟩

theorem bwdTail_inv {old : List α} {os : Nat} {new : List α} {ns n m : Nat} {delta : Int} {odd : Bool}
    {d : Nat} {k : Int} {vf vb : V} {x : Nat} {r : KStep}
    (h : bwdTail old os new ns n m delta odd d k vf vb x = r) :
    (∃ p, r = .panic p) ∨ ∃ vb', vb.set k (x + bwdAdv old os new ns n m k x) = some vb' ∧
      ((r = .cont vf vb' ∧ (odd = false → (k - delta).natAbs ≤ d →
          ∃ b, vf.get (-(k - delta)) = some b ∧ x + bwdAdv old os new ns n m k x + b < n))
      ∨ (r = .found ((n : Int) - ((x + bwdAdv old os new ns n m k x : Nat) : Int) + os)
            ((m : Int) - ((x : Int) - k + ((bwdAdv old os new ns n m k x : Nat) : Int)) + ns) vf vb'
          ∧ odd = false ∧ (k - delta).natAbs ≤ d
          ∧ ∃ b, vf.get (-(k - delta)) = some b ∧ x + bwdAdv old os new ns n m k x + b ≥ n)) := by
  unfold bwdTail at h
  cases hs : vb.set k (x + bwdAdv old os new ns n m k x) with
  | none => rw [hs] at h; exact .inl ⟨_, h.symm⟩
  | some vb' =>
    rw [hs] at h
    simp only at h
    split at h
    · rename_i hc
      simp only [Bool.and_eq_true, Bool.not_eq_true', decide_eq_true_eq] at hc
      rcases rd_inv h with hp | ⟨a, ha, h⟩
      · exact .inl hp
      · rcases rd_inv h with hp | ⟨b, hb, h⟩
        · exact .inl hp
        · have ha' := V.get_set_self hs
          rw [ha'] at ha
          cases ha
          split at h
          · rename_i hab
            exact .inr ⟨vb', rfl, .inr ⟨h.symm, hc.1, hc.2, b, hb, hab⟩⟩
          · rename_i hab
            exact .inr ⟨vb', rfl, .inl ⟨h.symm, fun _ _ => ⟨b, hb, by omega⟩⟩⟩
    · rename_i hc
      simp only [Bool.and_eq_true, Bool.not_eq_true', decide_eq_true_eq, not_and] at hc
      exact .inr ⟨vb', rfl, .inl ⟨h.symm, fun h1 h2 => absurd h2 (hc h1)⟩⟩
end

section
variable {α : Type} [BEq α] [LawfulBEq α]

/-! ### snake facts -/

theorem fwdX1_snake (old : List α) (os : Nat) (new : List α) (ns n m : Nat) (k : Int) (x : Nat) :
    x ≤ fwdX1 old os (os + n) new ns (ns + m) n m k x ∧
    (fwdX1 old os (os + n) new ns (ns + m) n m k x = x ∨
      ((fwdX1 old os (os + n) new ns (ns + m) n m k x : Int) ≤ n ∧
       (fwdX1 old os (os + n) new ns (ns + m) n m k x : Int) - k ≤ m)) := by
  unfold fwdX1
  split
  · rename_i hc
    obtain ⟨c1, c2, c3⟩ := hc
    obtain ⟨s1, s2, _⟩ := commonPrefixLen_spec old (os + x) (os + n) new (ns + ((x : Int) - k).toNat) (ns + m)
    generalize commonPrefixLen old (os + x) (os + n) new (ns + ((x : Int) - k).toNat) (ns + m) = c at s1 s2
    have ht : (((x : Int) - k).toNat : Int) = (x : Int) - k := Int.toNat_of_nonneg c2
    refine ⟨by omega, .inr ⟨?_, ?_⟩⟩
    · push_cast; omega
    · push_cast; omega
  · exact ⟨Nat.le_refl _, .inl rfl⟩

omit [LawfulBEq α] in
theorem fwdX1_zero (old : List α) (os : Nat) (new : List α) (ns n m : Nat)
    (h0 : commonPrefixLen old os (os + n) new ns (ns + m) = 0) :
    fwdX1 old os (os + n) new ns (ns + m) n m 0 0 = 0 := by
  unfold fwdX1
  split
  · simpa using h0
  · rfl

theorem bwdAdv_snake (old : List α) (os : Nat) (new : List α) (ns n m : Nat) (k : Int) (x : Nat) :
    x + bwdAdv old os new ns n m k x = x ∨
      (((x + bwdAdv old os new ns n m k x : Nat) : Int) ≤ n ∧
       ((x + bwdAdv old os new ns n m k x : Nat) : Int) - k ≤ m) := by
  unfold bwdAdv
  split
  · rename_i hc
    obtain ⟨c1, c2, c3⟩ := hc
    obtain ⟨s1, s2, _⟩ := commonSuffixLen_spec old os (os + n - x) new ns (ns + m - ((x : Int) - k).toNat)
    generalize commonSuffixLen old os (os + n - x) new ns (ns + m - ((x : Int) - k).toNat) = c at s1 s2
    have ht : (((x : Int) - k).toNat : Int) = (x : Int) - k := Int.toNat_of_nonneg c2
    right
    constructor
    · push_cast; omega
    · push_cast; omega
  · exact .inl rfl

omit [LawfulBEq α] in
theorem bwdAdv_zero (old : List α) (os : Nat) (new : List α) (ns n m : Nat)
    (h0 : commonSuffixLen old os (os + n) new ns (ns + m) = 0) :
    0 + bwdAdv old os new ns n m 0 0 = 0 := by
  unfold bwdAdv
  split
  · simpa using h0
  · rfl

/-- a non-trivial backward snake cannot end in the start corner when the first units differ -/
theorem bwdAdv_corner (old : List α) (os : Nat) (new : List α) (ns n m : Nat) (k : Int) (x : Nat)
    (hpre : old[os]? ≠ new[ns]?)
    (hne : x + bwdAdv old os new ns n m k x ≠ x) :
    ¬ (((x + bwdAdv old os new ns n m k x : Nat) : Int) = n ∧
       ((x + bwdAdv old os new ns n m k x : Nat) : Int) - k = m) := by
  revert hne
  unfold bwdAdv
  split
  · rename_i hc
    obtain ⟨c1, c2, c3⟩ := hc
    obtain ⟨s1, s2, s3⟩ := commonSuffixLen_spec old os (os + n - x) new ns (ns + m - ((x : Int) - k).toNat)
    generalize commonSuffixLen old os (os + n - x) new ns (ns + m - ((x : Int) - k).toNat) = c at s1 s2 s3
    have ht : (((x : Int) - k).toNat : Int) = (x : Int) - k := Int.toNat_of_nonneg c2
    intro hne ⟨h1, h2⟩
    have hc0 : 0 < c := by omega
    have := (s3 0 hc0).1
    have e1 : os + n - x - c + 0 = os := by omega
    have e2 : ns + m - ((x : Int) - k).toNat - c + 0 = ns := by omega
    rw [e1, e2] at this
    exact hpre this
  · intro hne; exact absurd rfl hne

theorem commonPrefixLen_eq_zero (old : List α) (os oe : Nat) (new : List α) (ns ne : Nat)
    (h : old[os]? ≠ new[ns]?) : commonPrefixLen old os oe new ns ne = 0 := by
  unfold commonPrefixLen
  split
  · rfl
  · cases hk : min (oe - os) (ne - ns) with
    | zero => rfl
    | succ k =>
      unfold prefixCount
      split
      · rename_i a b ha hb
        split
        · rename_i hab
          have : b = a := by simpa using hab
          subst this
          exact absurd (ha.trans hb.symm) h
        · rfl
      · rfl

theorem commonSuffixLen_eq_zero (old : List α) (os oe : Nat) (new : List α) (ns ne : Nat)
    (h : old[oe - 1]? ≠ new[ne - 1]?) : commonSuffixLen old os oe new ns ne = 0 := by
  unfold commonSuffixLen
  split
  · rfl
  · cases hk : min (oe - os) (ne - ns) with
    | zero => simp [suffixCount]
    | succ k =>
      cases oe with
      | zero => simp [suffixCount]
      | succ oe' =>
        cases ne with
        | zero => simp [suffixCount]
        | succ ne' =>
          simp only [Nat.add_sub_cancel] at h
          unfold suffixCount
          simp only
          split
          · rename_i a b ha hb
            split
            · rename_i hab
              have : b = a := by simpa using hab
              subst this
              exact absurd (ha.trans hb.symm) h
            · rfl
          · rfl
end

end AmVerif.Myers
