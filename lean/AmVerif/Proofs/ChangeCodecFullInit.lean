import AmVerif.Proofs.ChangeCodecFullLayout
/-
  Helper lemmas for the whole-change round trip of C18: the column layout of the 14 op columns of a
  change, the ranges `ChangeOpsColumns::try_from` picks, and the row iterator `ChangeOpsColumns::iter`
  builds on them — every decoder stands in front of its column's values.
-/
namespace AmVerif.ChangeCodec.Full
open AmVerif AmVerif.Leb AmVerif.Crdt AmVerif.ChangeCodec
open AmVerif.DocCodec (nonEmptyCols metaPairs rangesOf colData)
open AmVerif.Hexane (two63 two64 cU64 cI64 validU64 validI64 lawful_u64 lawful_i64 ListValid)

/-- the column table of a change, by column -/
def table14 (c1 c2 c3 c4 c5 c6 c7 c8 c9 c10 c11 c12 c13 c14 : Bytes) : List (Nat × Bytes) :=
  [(1, c1), (2, c2), (17, c3), (19, c4), (21, c5), (52, c6), (66, c7), (86, c8), (87, c9), (112, c10), (113, c11),
   (115, c12), (148, c13), (165, c14)]

/-- the layout `Columns::parse2` returns for it -/
def layout14 (c1 c2 c3 c4 c5 c6 c7 c8 c9 c10 c11 c12 c13 c14 : Bytes) : List Col :=
  let o1 := 0 + c1.length
  let o2 := o1 + c2.length
  let o3 := o2 + c3.length
  let o4 := o3 + c4.length
  let o5 := o4 + c5.length
  let o6 := o5 + c6.length
  let o7 := o6 + c7.length
  let o9 := o7 + c8.length + c9.length
  let o12 := o9 + c10.length + c11.length + c12.length
  let o13 := o12 + c13.length
  [] ++ optCol 1 0 c1 ++ optCol 2 o1 c2 ++ optCol 17 o2 c3 ++ optCol 19 o3 c4 ++ optCol 21 o4 c5 ++ optCol 52 o5 c6 ++
    optCol 66 o6 c7 ++ [⟨86, .value ⟨o7, o7 + c8.length⟩ (rngD (o7 + c8.length) c9)⟩] ++
    [⟨112, .group ⟨o9, o9 + c10.length⟩ (grpCols (o9 + c10.length) c11 c12)⟩] ++ optCol 148 o12 c13 ++ optCol 165 o13 c14

theorem layout_14 (c1 c2 c3 c4 c5 c6 c7 c8 c9 c10 c11 c12 c13 c14 : Bytes) (total : Nat)
    (htot : total = c1.length + c2.length + c3.length + c4.length + c5.length + c6.length + c7.length + c8.length +
      c9.length + c10.length + c11.length + c12.length + c13.length + c14.length)
    (ht : total < 2 ^ 64) (h8 : c8 ≠ []) (h10 : c10 ≠ []) (h1112 : c11.isEmpty = c12.isEmpty) :
    parseLayout total (tbl (table14 c1 c2 c3 c4 c5 c6 c7 c8 c9 c10 c11 c12 c13 c14) 0) {} =
      .ok (layout14 c1 c2 c3 c4 c5 c6 c7 c8 c9 c10 c11 c12 c13 c14) := by
  unfold table14
  obtain ⟨e1, i1⟩ := step_simple total 1 c1 _ 0 [] (by decide) (by decide) (by decide) (endsAt_nil 0) (by omega) ht
  obtain ⟨e2, i2⟩ := step_simple total 2 c2 _ _ _ (by decide) (by decide) (by decide) i1 (by omega) ht
  obtain ⟨e3, i3⟩ := step_simple total 17 c3 _ _ _ (by decide) (by decide) (by decide) i2 (by omega) ht
  obtain ⟨e4, i4⟩ := step_simple total 19 c4 _ _ _ (by decide) (by decide) (by decide) i3 (by omega) ht
  obtain ⟨e5, i5⟩ := step_simple total 21 c5 _ _ _ (by decide) (by decide) (by decide) i4 (by omega) ht
  obtain ⟨e6, i6⟩ := step_simple total 52 c6 _ _ _ (by decide) (by decide) (by decide) i5 (by omega) ht
  obtain ⟨e7, i7⟩ := step_simple total 66 c7 _ _ _ (by decide) (by decide) (by decide) i6 (by omega) ht
  obtain ⟨e8, i8⟩ := step_value total 86 87 c8 c9 [(112, c10), (113, c11), (115, c12), (148, c13), (165, c14)] _ _
    (by decide) (by decide) (by decide) h8 (by intro c hc; simp only [List.mem_cons, List.mem_nil_iff, or_false] at hc; rcases hc with rfl | rfl | rfl | rfl | rfl <;> simp [specType, specId, T_VALUE]) i7 (by omega) ht
  obtain ⟨e9, i9⟩ := step_group total 112 113 115 c10 c11 c12 [(148, c13), (165, c14)] _ _
    (by decide) (by decide) (by decide) (by decide) (by decide) h10 h1112 (by intro c hc; simp only [List.mem_cons, List.mem_nil_iff, or_false] at hc; rcases hc with rfl | rfl <;> simp [specType, specId, T_VALUE]) i8 (by omega) ht
  obtain ⟨e10, i10⟩ := step_simple total 148 c13 _ _ _ (by decide) (by decide) (by decide) i9 (by omega) ht
  obtain ⟨e11, -⟩ := step_simple total 165 c14 [] _ _ (by decide) (by decide) (by decide) i10 (by omega) ht
  have e0 : ({} : LP) = ⟨[], .ready⟩ := rfl
  rw [e0, e1, e2, e3, e4, e5, e6, e7, e8, e9, e10, e11]
  rfl

/-! ### `ChangeOpsColumns::try_from` -/

theorem pick_objActor (off : Nat) (b : Bytes) (rest : List Col) (o : OpCols) :
    pickCols (optCol 1 off b ++ rest) o = pickCols rest { o with objActor := if b.isEmpty then o.objActor else ⟨off, off + b.length⟩ } := by
  cases b with
  | nil => rfl
  | cons x xs =>
    simp only [optCol, List.isEmpty_cons, Bool.false_eq_true, if_false, List.cons_append, List.nil_append]
    rw [pickCols]
    simp [specId, specType, Col.range, OBJ_COL_ID, KEY_COL_ID, INSERT_COL_ID, ACTION_COL_ID, VAL_COL_ID, PRED_COL_ID,
      EXPAND_COL_ID, MARK_NAME_COL_ID, T_GROUP, T_ACTOR, T_INT, T_DELTA, T_BOOL, T_STRING, T_VALMETA]

theorem pick_objCtr (off : Nat) (b : Bytes) (rest : List Col) (o : OpCols) :
    pickCols (optCol 2 off b ++ rest) o = pickCols rest { o with objCtr := if b.isEmpty then o.objCtr else ⟨off, off + b.length⟩ } := by
  cases b with
  | nil => rfl
  | cons x xs =>
    simp only [optCol, List.isEmpty_cons, Bool.false_eq_true, if_false, List.cons_append, List.nil_append]
    rw [pickCols]
    simp [specId, specType, Col.range, OBJ_COL_ID, KEY_COL_ID, INSERT_COL_ID, ACTION_COL_ID, VAL_COL_ID, PRED_COL_ID,
      EXPAND_COL_ID, MARK_NAME_COL_ID, T_GROUP, T_ACTOR, T_INT, T_DELTA, T_BOOL, T_STRING, T_VALMETA]

theorem pick_keyActor (off : Nat) (b : Bytes) (rest : List Col) (o : OpCols) :
    pickCols (optCol 17 off b ++ rest) o = pickCols rest { o with keyActor := if b.isEmpty then o.keyActor else ⟨off, off + b.length⟩ } := by
  cases b with
  | nil => rfl
  | cons x xs =>
    simp only [optCol, List.isEmpty_cons, Bool.false_eq_true, if_false, List.cons_append, List.nil_append]
    rw [pickCols]
    simp [specId, specType, Col.range, OBJ_COL_ID, KEY_COL_ID, INSERT_COL_ID, ACTION_COL_ID, VAL_COL_ID, PRED_COL_ID,
      EXPAND_COL_ID, MARK_NAME_COL_ID, T_GROUP, T_ACTOR, T_INT, T_DELTA, T_BOOL, T_STRING, T_VALMETA]

theorem pick_keyCtr (off : Nat) (b : Bytes) (rest : List Col) (o : OpCols) :
    pickCols (optCol 19 off b ++ rest) o = pickCols rest { o with keyCtr := if b.isEmpty then o.keyCtr else ⟨off, off + b.length⟩ } := by
  cases b with
  | nil => rfl
  | cons x xs =>
    simp only [optCol, List.isEmpty_cons, Bool.false_eq_true, if_false, List.cons_append, List.nil_append]
    rw [pickCols]
    simp [specId, specType, Col.range, OBJ_COL_ID, KEY_COL_ID, INSERT_COL_ID, ACTION_COL_ID, VAL_COL_ID, PRED_COL_ID,
      EXPAND_COL_ID, MARK_NAME_COL_ID, T_GROUP, T_ACTOR, T_INT, T_DELTA, T_BOOL, T_STRING, T_VALMETA]

theorem pick_keyStr (off : Nat) (b : Bytes) (rest : List Col) (o : OpCols) :
    pickCols (optCol 21 off b ++ rest) o = pickCols rest { o with keyStr := if b.isEmpty then o.keyStr else ⟨off, off + b.length⟩ } := by
  cases b with
  | nil => rfl
  | cons x xs =>
    simp only [optCol, List.isEmpty_cons, Bool.false_eq_true, if_false, List.cons_append, List.nil_append]
    rw [pickCols]
    simp [specId, specType, Col.range, OBJ_COL_ID, KEY_COL_ID, INSERT_COL_ID, ACTION_COL_ID, VAL_COL_ID, PRED_COL_ID,
      EXPAND_COL_ID, MARK_NAME_COL_ID, T_GROUP, T_ACTOR, T_INT, T_DELTA, T_BOOL, T_STRING, T_VALMETA]

theorem pick_insert (off : Nat) (b : Bytes) (rest : List Col) (o : OpCols) :
    pickCols (optCol 52 off b ++ rest) o = pickCols rest { o with insert := if b.isEmpty then o.insert else ⟨off, off + b.length⟩ } := by
  cases b with
  | nil => rfl
  | cons x xs =>
    simp only [optCol, List.isEmpty_cons, Bool.false_eq_true, if_false, List.cons_append, List.nil_append]
    rw [pickCols]
    simp [specId, specType, Col.range, OBJ_COL_ID, KEY_COL_ID, INSERT_COL_ID, ACTION_COL_ID, VAL_COL_ID, PRED_COL_ID,
      EXPAND_COL_ID, MARK_NAME_COL_ID, T_GROUP, T_ACTOR, T_INT, T_DELTA, T_BOOL, T_STRING, T_VALMETA]

theorem pick_action (off : Nat) (b : Bytes) (rest : List Col) (o : OpCols) :
    pickCols (optCol 66 off b ++ rest) o = pickCols rest { o with action := if b.isEmpty then o.action else ⟨off, off + b.length⟩ } := by
  cases b with
  | nil => rfl
  | cons x xs =>
    simp only [optCol, List.isEmpty_cons, Bool.false_eq_true, if_false, List.cons_append, List.nil_append]
    rw [pickCols]
    simp [specId, specType, Col.range, OBJ_COL_ID, KEY_COL_ID, INSERT_COL_ID, ACTION_COL_ID, VAL_COL_ID, PRED_COL_ID,
      EXPAND_COL_ID, MARK_NAME_COL_ID, T_GROUP, T_ACTOR, T_INT, T_DELTA, T_BOOL, T_STRING, T_VALMETA]

theorem pick_expand (off : Nat) (b : Bytes) (rest : List Col) (o : OpCols) :
    pickCols (optCol 148 off b ++ rest) o = pickCols rest { o with expand := if b.isEmpty then o.expand else ⟨off, off + b.length⟩ } := by
  cases b with
  | nil => rfl
  | cons x xs =>
    simp only [optCol, List.isEmpty_cons, Bool.false_eq_true, if_false, List.cons_append, List.nil_append]
    rw [pickCols]
    simp [specId, specType, Col.range, OBJ_COL_ID, KEY_COL_ID, INSERT_COL_ID, ACTION_COL_ID, VAL_COL_ID, PRED_COL_ID,
      EXPAND_COL_ID, MARK_NAME_COL_ID, T_GROUP, T_ACTOR, T_INT, T_DELTA, T_BOOL, T_STRING, T_VALMETA]

theorem pick_markName (off : Nat) (b : Bytes) (rest : List Col) (o : OpCols) :
    pickCols (optCol 165 off b ++ rest) o = pickCols rest { o with markName := if b.isEmpty then o.markName else ⟨off, off + b.length⟩ } := by
  cases b with
  | nil => rfl
  | cons x xs =>
    simp only [optCol, List.isEmpty_cons, Bool.false_eq_true, if_false, List.cons_append, List.nil_append]
    rw [pickCols]
    simp [specId, specType, Col.range, OBJ_COL_ID, KEY_COL_ID, INSERT_COL_ID, ACTION_COL_ID, VAL_COL_ID, PRED_COL_ID,
      EXPAND_COL_ID, MARK_NAME_COL_ID, T_GROUP, T_ACTOR, T_INT, T_DELTA, T_BOOL, T_STRING, T_VALMETA]

theorem pick_value (m raw : Rng) (rest : List Col) (o : OpCols) :
    pickCols (⟨86, .value m raw⟩ :: rest) o = pickCols rest { o with valMeta := m, valRaw := raw } := by
  rw [pickCols]
  simp [specId, specType, Col.range, OBJ_COL_ID, KEY_COL_ID, INSERT_COL_ID, ACTION_COL_ID, VAL_COL_ID, PRED_COL_ID,
    EXPAND_COL_ID, MARK_NAME_COL_ID, T_GROUP, T_ACTOR, T_INT, T_DELTA, T_BOOL, T_STRING, T_VALMETA]

theorem pick_group (num : Rng) (off : Nat) (a d : Bytes) (rest : List Col) (o : OpCols) :
    pickCols (⟨112, .group num (grpCols off a d)⟩ :: rest) o =
      pickCols rest { o with predNum := num,
                             predActor := if a.isEmpty then Rng.zero else ⟨off, off + a.length⟩,
                             predCtr := if a.isEmpty then Rng.zero else ⟨off + a.length, off + a.length + d.length⟩ } := by
  rw [pickCols]
  cases a <;>
  simp [grpCols, specId, specType, Col.range, OBJ_COL_ID, KEY_COL_ID, INSERT_COL_ID, ACTION_COL_ID, VAL_COL_ID, PRED_COL_ID,
    EXPAND_COL_ID, MARK_NAME_COL_ID, T_GROUP, T_ACTOR, T_INT, T_DELTA, T_BOOL, T_STRING, T_VALMETA]

/-- the ranges picked for the 14 columns -/
def cols14 (c1 c2 c3 c4 c5 c6 c7 c8 c9 c10 c11 c12 c13 c14 : Bytes) : OpCols :=
  let o1 := 0 + c1.length
  let o2 := o1 + c2.length
  let o3 := o2 + c3.length
  let o4 := o3 + c4.length
  let o5 := o4 + c5.length
  let o6 := o5 + c6.length
  let o7 := o6 + c7.length
  let o9 := o7 + c8.length + c9.length
  let o12 := o9 + c10.length + c11.length + c12.length
  let o13 := o12 + c13.length
  { objActor := rngD 0 c1, objCtr := rngD o1 c2, keyActor := rngD o2 c3, keyCtr := rngD o3 c4, keyStr := rngD o4 c5,
    insert := rngD o5 c6, action := rngD o6 c7, valMeta := ⟨o7, o7 + c8.length⟩, valRaw := rngD (o7 + c8.length) c9,
    predNum := ⟨o9, o9 + c10.length⟩, predActor := rngD (o9 + c10.length) c11,
    predCtr := if c11.isEmpty then Rng.zero else ⟨o9 + c10.length + c11.length, o9 + c10.length + c11.length + c12.length⟩,
    expand := rngD o12 c13, markName := rngD o13 c14 }

theorem pickCols_14 (c1 c2 c3 c4 c5 c6 c7 c8 c9 c10 c11 c12 c13 c14 : Bytes) :
    pickCols (layout14 c1 c2 c3 c4 c5 c6 c7 c8 c9 c10 c11 c12 c13 c14) {} =
      .ok (cols14 c1 c2 c3 c4 c5 c6 c7 c8 c9 c10 c11 c12 c13 c14) := by
  unfold layout14
  simp only [List.append_assoc, List.nil_append, List.cons_append]
  rw [pick_objActor, pick_objCtr, pick_keyActor, pick_keyCtr, pick_keyStr, pick_insert, pick_action, pick_value,
    pick_group, pick_expand]
  have := pick_markName (0 + c1.length + c2.length + c3.length + c4.length + c5.length + c6.length + c7.length + c8.length +
    c9.length + c10.length + c11.length + c12.length + c13.length) c14 []
  rw [List.append_nil] at this
  rw [this]
  rfl

/-! ### the data block -/

theorem colData_nonEmpty : ∀ L : List (Nat × Bytes), colData (nonEmptyCols L) = colData L
  | [] => rfl
  | (s, b) :: L => by
    have ih := colData_nonEmpty L
    unfold nonEmptyCols colData at *
    cases b with
    | nil => simpa using ih
    | cons x xs => simp only [List.filter_cons, List.isEmpty_cons, Bool.not_false, if_true, List.map_cons, List.flatten_cons, ih]

theorem slice_zero (data : Bytes) : slice data Rng.zero = [] := by
  simp [slice, Rng.zero]

theorem slice_rngD (data pre b post : Bytes) (off : Nat) (hd : data = pre ++ (b ++ post)) (ho : off = pre.length) :
    slice data (rngD off b) = b := by
  unfold rngD
  cases b with
  | nil => simp [slice_zero]
  | cons x xs =>
    simp only [List.isEmpty_cons, Bool.false_eq_true, if_false]
    rw [hd, ho]
    exact DocCodec.slice_mid pre (x :: xs) post

theorem slice_rng (data pre b post : Bytes) (off : Nat) (hd : data = pre ++ (b ++ post)) (ho : off = pre.length) :
    slice data ⟨off, off + b.length⟩ = b := by
  rw [hd, ho]
  exact DocCodec.slice_mid pre b post

theorem rngD_isEmpty (off : Nat) (b : Bytes) : (rngD off b).isEmpty = b.isEmpty := by
  unfold rngD
  cases b with
  | nil => rfl
  | cons x xs => simp [Rng.isEmpty]

end AmVerif.ChangeCodec.Full
