import AmVerif.Model.PatchDiff
/-
  Helper lemmas for C08: the loop of `MapDiff::next` over one key, decomposed as
  (prefix) ++ (last item visible after) :: (items only visible before).
-/
namespace AmVerif.Crdt
open AmVerif

/-- every item of the list is visible only at the `before` clock -/
def allDel (l : List DItem) : Prop := ∀ d ∈ l, d.diff = .del

theorem allDel_cons {d : DItem} {l : List DItem} : allDel (d :: l) ↔ d.diff = .del ∧ allDel l := by
  simp [allDel]

/-! ### the loop on a tail of deletions -/

/-- once only deleted items remain and a visible item is remembered, the result is that item,
    updated with the flags of the loop's end -/
theorem mapDiffLoop_dels (ds : List DItem) : ∀ (st : DState) (d : DItem) (last : DOut),
    allDel (d :: ds) → st.lastVisible = some last →
    mapDiffLoop st (d :: ds) =
      some { (last.updateMap (st.lastIsSame || last.diff == .same)) with conflict := decide (st.numNew > 1) } := by
  induction ds with
  | nil =>
    intro st d last h hl
    have hd : d.diff = .del := (allDel_cons.mp h).1
    simp [mapDiffLoop, diffCounts, hd, hl]
  | cons d2 ds ih =>
    intro st d last h hl
    have hd : d.diff = .del := (allDel_cons.mp h).1
    have h2 := (allDel_cons.mp h).2
    rw [mapDiffLoop]
    simp only [diffCounts, hd]
    have := ih ⟨st.lastIsSame, st.numNew, st.numOld + 1, st.lastVisible⟩ d2 last h2 hl
    simpa using this

/-- nothing visible after at all and nothing remembered: the result is a deletion -/
theorem mapDiffLoop_allDel (ds : List DItem) : ∀ (st : DState) (d : DItem),
    allDel (d :: ds) → st.lastVisible = none →
    ∃ o, mapDiffLoop st (d :: ds) = some o ∧ o.diff = .del := by
  induction ds with
  | nil =>
    intro st d h hl
    have hd : d.diff = .del := (allDel_cons.mp h).1
    simp [mapDiffLoop, diffCounts, hd, hl, diffItem]
  | cons d2 ds ih =>
    intro st d h hl
    have hd : d.diff = .del := (allDel_cons.mp h).1
    have h2 := (allDel_cons.mp h).2
    rw [mapDiffLoop]
    simp only [diffCounts, hd]
    have := ih ⟨st.lastIsSame, st.numNew, st.numOld + 1, st.lastVisible⟩ d2 h2 hl
    simpa using this

/-! ### skipping the prefix -/

/-- the loop state after the items of `p`, the next item being the head of `p`'s continuation -/
def skipState : DState → List DItem → DItem → DState
  | st, [], _ => st
  | st, it :: rest, w =>
    let c := diffCounts st it
    let oldConflict := it.diff == .same && decide (c.2.2.1 > 1)
    let conflict := decide (c.2.1 > 1) && !oldConflict
    let nxt := match rest with | [] => w | n :: _ => n
    let lv := if it.diff != .del && nxt.diff == .del then some (diffItem it conflict c.2.2.2) else st.lastVisible
    skipState ⟨c.1, c.2.1, c.2.2.1, lv⟩ rest w

theorem mapDiffLoop_skip (p : List DItem) : ∀ (st : DState) (w : DItem) (tl : List DItem),
    mapDiffLoop st (p ++ w :: tl) = mapDiffLoop (skipState st p w) (w :: tl) := by
  induction p with
  | nil => intro st w tl; rfl
  | cons it rest ih =>
    intro st w tl
    cases rest with
    | nil =>
      show mapDiffLoop st (it :: w :: tl) = _
      rw [mapDiffLoop]
      simp only [skipState]
    | cons n r =>
      show mapDiffLoop st (it :: (n :: r ++ w :: tl)) = _
      rw [mapDiffLoop]
      have := ih ⟨(diffCounts st it).1, (diffCounts st it).2.1, (diffCounts st it).2.2.1,
        if it.diff != .del && n.diff == .del then some (diffItem it (decide ((diffCounts st it).2.1 > 1) && !(it.diff == .same && decide ((diffCounts st it).2.2.1 > 1))) (diffCounts st it).2.2.2) else st.lastVisible⟩ w tl
      simp only [List.cons_append] at this ⊢
      simpa [skipState] using this

def cntAfter (l : List DItem) : Nat := (l.filter DItem.visAfter).length
def cntBefore (l : List DItem) : Nat := (l.filter DItem.visBefore).length

theorem skipState_counts (p : List DItem) : ∀ (st : DState) (w : DItem),
    (skipState st p w).numNew = st.numNew + cntAfter p ∧ (skipState st p w).numOld = st.numOld + cntBefore p := by
  induction p with
  | nil => intro st w; simp [skipState, cntAfter, cntBefore]
  | cons it rest ih =>
    intro st w
    simp only [skipState]
    have := ih ⟨(diffCounts st it).1, (diffCounts st it).2.1, (diffCounts st it).2.2.1,
      if it.diff != .del && (match rest with | [] => w | n :: _ => n).diff == .del then some (diffItem it (decide ((diffCounts st it).2.1 > 1) && !(it.diff == .same && decide ((diffCounts st it).2.2.1 > 1))) (diffCounts st it).2.2.2) else st.lastVisible⟩ w
    obtain ⟨h1, h2⟩ := this
    constructor
    · rw [h1]; cases hd : it.diff <;> simp [diffCounts, hd, cntAfter, List.filter_cons, DItem.visAfter] <;> omega
    · rw [h2]; cases hd : it.diff <;> simp [diffCounts, hd, cntBefore, List.filter_cons, DItem.visBefore] <;> omega

/-! ### decomposition of a register's items -/

theorem decompose : ∀ (items : List DItem), items ≠ [] →
    allDel items ∨ ∃ p w dels, items = p ++ w :: dels ∧ w.diff ≠ .del ∧ allDel dels := by
  intro items
  induction items with
  | nil => intro h; exact absurd rfl h
  | cons it rest ih =>
    intro _
    by_cases hr : rest = []
    · subst hr
      by_cases hd : it.diff = .del
      · left; simp [allDel, hd]
      · right; exact ⟨[], it, [], rfl, hd, by simp [allDel]⟩
    · rcases ih hr with hall | ⟨p, w, dels, he, hw, hd⟩
      · by_cases hd : it.diff = .del
        · left; exact allDel_cons.mpr ⟨hd, hall⟩
        · right; exact ⟨[], it, rest, rfl, hd, hall⟩
      · right; exact ⟨it :: p, w, dels, by simp [he], hw, hd⟩

theorem filter_visAfter_allDel {l : List DItem} (h : allDel l) : l.filter DItem.visAfter = [] := by
  apply List.filter_eq_nil_iff.mpr
  intro d hd
  simp [DItem.visAfter, h d hd]

theorem filter_visBefore_allDel {l : List DItem} (h : allDel l) : l.filter DItem.visBefore = l := by
  apply List.filter_eq_self.mpr
  intro d hd
  simp [DItem.visBefore, h d hd]

theorem entryAfter_decomp (p dels : List DItem) (w : DItem) (hw : w.diff ≠ .del) (hd : allDel dels) :
    entryAfter (p ++ w :: dels) = some (decide (cntAfter p + 1 > 1), w.val) := by
  have hv : DItem.visAfter w = true := by simp [DItem.visAfter, hw]
  simp [entryAfter, List.filter_append, List.filter_cons, hv, filter_visAfter_allDel hd, cntAfter]

theorem entryAfter_allDel {l : List DItem} (h : allDel l) : entryAfter l = none := by
  simp [entryAfter, filter_visAfter_allDel h]

theorem entryBefore_same_last (p : List DItem) (w : DItem) (hw : w.diff = .same) :
    entryBefore (p ++ [w]) = some (decide (cntBefore p + 1 > 1), w.valBefore) := by
  have hv : DItem.visBefore w = true := by simp [DItem.visBefore, hw]
  simp [entryBefore, List.filter_append, List.filter_cons, hv, cntBefore]

/-! ### soundness of the map diff of one register -/

theorem mapDiff_sound (items : List DItem) (hne : items ≠ []) (hwf : ∀ it ∈ items, it.wf = true) :
    ∃ o, mapDiff items = some o ∧ applyEvent (entryBefore items) o.mapEvent = .ok (entryAfter items) := by
  rcases decompose items hne with hall | ⟨p, w, dels, he, hw, hd⟩
  · -- nothing visible after: a deletion
    cases items with
    | nil => exact absurd rfl hne
    | cons d ds =>
      obtain ⟨o, ho, hdel⟩ := mapDiffLoop_allDel ds {} d hall rfl
      refine ⟨o, ho, ?_⟩
      simp [DOut.mapEvent, hdel, applyEvent, entryAfter_allDel hall]
  · subst he
    have hcnt := skipState_counts p {} w
    simp only [Nat.zero_add] at hcnt
    obtain ⟨hnn, hno⟩ := hcnt
    unfold mapDiff
    rw [mapDiffLoop_skip, entryAfter_decomp p dels w hw hd]
    cases dels with
    | nil =>
      -- the winner after is the last item
      rw [mapDiffLoop]
      cases hdw : w.diff with
      | del => exact absurd hdw hw
      | add =>
        simp [diffCounts, hdw, diffItem, DOut.mapEvent, applyEvent, hnn]
      | same =>
        have hwfw : w.wf = true := hwf w (by simp)
        rw [entryBefore_same_last p w hdw]
        simp only [diffCounts, hdw, hnn, hno]
        -- value before / after of the winner
        have hvb0 : w.inc = 0 → w.valBefore = w.val := by
          intro hinc
          unfold DItem.valBefore
          cases hv : w.val with
          | obj t => rfl
          | scalar s => cases s <;> simp [hinc]
        have hctr : w.inc ≠ 0 → ∃ c, w.val = .scalar (.counter c) := by
          intro hinc
          unfold DItem.wf at hwfw
          cases hv : w.val with
          | obj t => simp [hv, hinc] at hwfw
          | scalar s => cases s <;> simp_all
        rcases Nat.eq_zero_or_pos (cntBefore p) with hb | hb <;> rcases Nat.eq_zero_or_pos (cntAfter p) with ha | ha
        · -- unconflicted before and after
          by_cases hinc : w.inc = 0
          · simp [hb, ha, diffItem, DOut.mapEvent, applyEvent, hdw, Int.sub_add_cancel, hinc, hvb0 hinc]
          · obtain ⟨c, hc⟩ := hctr hinc
            simp [hb, ha, diffItem, DOut.mapEvent, applyEvent, hdw, Int.sub_add_cancel, hinc, DItem.valBefore, hc]
        · -- becomes conflicted: a flag, after the increment if the value changed too
          have ha' : ¬ (cntAfter p = 0) := by omega
          by_cases hinc : w.inc = 0
          · simp [hb, ha', ha, diffItem, DOut.mapEvent, applyEvent, hdw, hinc, hvb0 hinc]
          · obtain ⟨c, hc⟩ := hctr hinc
            simp [hb, ha', ha, diffItem, DOut.mapEvent, applyEvent, hdw, Int.sub_add_cancel, hinc, DItem.valBefore, hc]
        · -- the conflict disappears: a put with the flag cleared
          have hb' : ¬ (cntBefore p = 0) := by omega
          simp [ha, hb, hb', diffItem, DOut.updateMap, DOut.mapEvent, applyEvent, hdw]
        · -- conflicted before and after
          have ha' : ¬ (cntAfter p = 0) := by omega
          have hb' : ¬ (cntBefore p = 0) := by omega
          by_cases hinc : w.inc = 0
          · simp [hb, ha, ha', hb', diffItem, DOut.mapEvent, applyEvent, hdw, Int.sub_add_cancel, hinc, hvb0 hinc]
          · obtain ⟨c, hc⟩ := hctr hinc
            simp [hb, ha, ha', hb', diffItem, DOut.mapEvent, applyEvent, hdw, Int.sub_add_cancel, hinc, DItem.valBefore, hc]
    | cons d ds =>
      -- the winner after is followed by items visible only before: it is (re)put
      have hdd : d.diff = .del := (allDel_cons.mp hd).1
      rw [mapDiffLoop]
      have hstep := mapDiffLoop_dels ds
        ⟨(diffCounts (skipState {} p w) w).1, (diffCounts (skipState {} p w) w).2.1, (diffCounts (skipState {} p w) w).2.2.1,
          some (diffItem w (decide ((diffCounts (skipState {} p w) w).2.1 > 1) && !(w.diff == .same && decide ((diffCounts (skipState {} p w) w).2.2.1 > 1))) (diffCounts (skipState {} p w) w).2.2.2)⟩
        d _ hd rfl
      have hwne : (w.diff != .del) = true := by simp [hw]
      simp only [hwne, hdd, beq_self_eq_true, Bool.and_self, if_true]
      rw [hstep]
      cases hdw : w.diff with
      | del => exact absurd hdw hw
      | add => simp [diffCounts, hdw, diffItem, DOut.updateMap, DOut.mapEvent, applyEvent, hnn]
      | same => simp [diffCounts, hdw, diffItem, DOut.updateMap, DOut.mapEvent, applyEvent, hnn]

/-! ### the list loop is the map loop plus the `update` flag -/

/-- forget the put-vs-insert flag of a list item -/
def DOut.erase (o : DOut) : DOut := { o with update := false }

theorem listDiffItem_erase (it : DItem) (c e : Bool) (n : Nat) :
    (listDiffItem it c e n).erase = diffItem it c e := by
  simp [listDiffItem, diffItem, DOut.erase]

theorem updateList_erase (o : DOut) (x : Bool) (k : Bool) :
    ({ (o.updateList x) with conflict := k } : DOut).erase = { (o.erase.updateMap x) with conflict := k } := by
  simp [DOut.updateList, DOut.updateMap, DOut.erase]

theorem erase_diff (o : DOut) : o.erase.diff = o.diff := rfl

theorem diffItem_erase (it : DItem) (c e : Bool) : (diffItem it c e).erase = diffItem it c e := by
  simp [diffItem, DOut.erase]

theorem updateMap_erase (o : DOut) (x : Bool) (k : Bool) :
    ({ (o.updateMap x) with conflict := k } : DOut).erase = { (o.erase.updateMap x) with conflict := k } := by
  simp [DOut.updateMap, DOut.erase]

theorem erase_final (it : DItem) (cf ex : Bool) (n : Nat) (cond : Bool) :
    (if cond = true then (listDiffItem it cf ex n).updateList true else listDiffItem it cf ex n).erase =
      (if cond = true then (diffItem it cf ex).updateMap true else diffItem it cf ex).erase := by
  cases cond <;> simp [listDiffItem, diffItem, DOut.updateList, DOut.updateMap, DOut.erase]

theorem diffCounts_lv (a : Bool) (b c : Nat) (lv : Option DOut) (it : DItem) :
    diffCounts ⟨a, b, c, lv⟩ it = diffCounts ⟨a, b, c, none⟩ it := by
  cases h : it.diff <;> simp [diffCounts, h]

theorem listDiffLoop_erase (l : List DItem) : ∀ (a : Bool) (b c : Nat) (lv lv' : Option DOut),
    lv.map DOut.erase = lv'.map DOut.erase →
    (listDiffLoop ⟨a, b, c, lv⟩ l).map DOut.erase = (mapDiffLoop ⟨a, b, c, lv'⟩ l).map DOut.erase := by
  induction l with
  | nil => intro a b c lv lv' _; rfl
  | cons it rest ih =>
    intro a b c lv lv' h
    have e1 := diffCounts_lv a b c lv it
    have e2 := diffCounts_lv a b c lv' it
    cases rest with
    | cons nxt r =>
      rw [listDiffLoop, mapDiffLoop]
      simp only [e1, e2]
      apply ih
      by_cases hc : (it.diff != .del && nxt.diff == .del) = true
      · simp [hc, listDiffItem_erase, diffItem_erase]
      · simp [hc, h]
    | nil =>
      rw [listDiffLoop, mapDiffLoop]
      simp only [e1, e2]
      by_cases hd : (it.diff == .del) = true
      · simp only [hd, if_true]
        cases lv with
        | none =>
          cases lv' with
          | none => exact congrArg some (erase_final _ _ _ _ _)
          | some y => simp at h
        | some x =>
          cases lv' with
          | none => simp at h
          | some y =>
            have hxy : x.erase = y.erase := by simpa using h
            have hdx : x.diff = y.diff := by
              have := congrArg DOut.diff hxy; simpa [erase_diff] using this
            simp only [Option.map_some]
            rw [updateList_erase, updateMap_erase, hxy, hdx]
      · have hd' : (it.diff == .del) = false := by simpa using hd
        simp only [hd', Bool.false_eq_true, if_false, Option.map_some]
        exact congrArg some (erase_final _ _ _ _ _)

theorem listEvent_erase (e : REntry) (o : DOut) :
    applyEvent e o.listEvent = applyEvent e o.erase.mapEvent := by
  cases hd : o.diff <;> simp [DOut.listEvent, DOut.mapEvent, DOut.erase, hd]
  · by_cases hu : o.update = true <;> simp [hu, applyEvent]

/-- soundness of the list diff of one element: as for maps -/
theorem listDiff_sound (items : List DItem) (hne : items ≠ []) (hwf : ∀ it ∈ items, it.wf = true) :
    ∃ o, listDiff items = some o ∧ applyEvent (entryBefore items) o.listEvent = .ok (entryAfter items) := by
  obtain ⟨o, ho, happ⟩ := mapDiff_sound items hne hwf
  have h := listDiffLoop_erase items false 0 0 none none rfl
  have hl : (listDiff items).map DOut.erase = some o.erase := by
    unfold listDiff mapDiff at *
    have : ({} : DState) = ⟨false, 0, 0, none⟩ := rfl
    rw [this] at ho ⊢
    rw [h, ho]; rfl
  cases hlo : listDiff items with
  | none => rw [hlo] at hl; simp at hl
  | some lo =>
    rw [hlo] at hl
    have hle : lo.erase = o.erase := by simpa using hl
    refine ⟨lo, rfl, ?_⟩
    rw [listEvent_erase, hle]
    -- `o` comes from the map loop: its `update` flag is irrelevant for `mapEvent`
    have : o.erase.mapEvent = o.mapEvent := by
      cases o; rfl
    rw [this]; exact happ

end AmVerif.Crdt
