import AmVerif.Proofs.HexaneRle
/-
  Helper lemmas for C35 (third sentence): whatever the `leb128`-crate readers and the value
  unpackers RETURN is a value of the type (`readU` < 2^64, `readS` in the `i64` range, `u32`
  range-checked, byte strings no longer than the input, strings UTF-8-checked).
-/
namespace AmVerif.Hexane
open AmVerif

/-- soundness of a value codec: every value `unpack` returns is `Valid` -/
def Sound {α : Type} (c : ValCodec α) (Valid : α → Prop) : Prop :=
  ∀ bs v r, c.unpack bs = .ok (v, r) → Valid v

theorem u8_le_one_of (b : UInt8) (h : ¬ (b ≠ 0 ∧ b ≠ 1)) : b.toNat ≤ 1 := by
  by_cases h0 : b = 0
  · subst h0; decide
  · by_cases h1 : b = 1
    · subst h1; decide
    · exact absurd ⟨h0, h1⟩ h

theorem u8_lt128_of (b : UInt8) (h : ¬ (b ≠ 0 ∧ b ≠ 0x7f)) : b.toNat < 128 := by
  by_cases h0 : b = 0
  · subst h0; decide
  · by_cases h1 : b = 0x7f
    · subst h1; decide
    · exact absurd ⟨h0, h1⟩ h

theorem readULoop_lt : ∀ (bs : Bytes) (res shift v : Nat) (r : Bytes),
    shift % 7 = 0 → shift ≤ 63 → res < 2 ^ shift →
    readULoop bs res shift = .ok (v, r) → v < 2 ^ 64 := by
  intro bs
  induction bs with
  | nil => intro res shift v r _ _ _ h; simp [readULoop] at h
  | cons b rest ih =>
    intro res shift v r h7 h63 hres h
    rw [readULoop] at h
    split at h
    · simp at h
    · rename_i hc
      have hp : 0 < 2 ^ shift := Nat.pos_of_ne_zero (by simp)
      have hmul : (b.toNat % 128) * 2 ^ shift ≤ 127 * 2 ^ shift := Nat.mul_le_mul_right _ (by omega)
      simp only at h
      by_cases hs : shift = 63
      · subst hs
        have hb : b.toNat ≤ 1 := u8_le_one_of b (by intro hh; exact hc ⟨rfl, hh⟩)
        have hlt : b.toNat < 128 := by omega
        rw [if_pos hlt] at h
        simp only [Except.ok.injEq, Prod.mk.injEq] at h
        have hm : b.toNat % 128 ≤ 1 := by omega
        have : (b.toNat % 128) * 2 ^ 63 ≤ 1 * 2 ^ 63 := Nat.mul_le_mul_right _ hm
        omega
      · have hsle : shift ≤ 56 := by omega
        have hlt7 : res + (b.toNat % 128) * 2 ^ shift < 2 ^ (shift + 7) := by
          rw [pow_shift7]; omega
        have hle63 : 2 ^ (shift + 7) ≤ 2 ^ 63 := Nat.pow_le_pow_right (by omega) (by omega)
        split at h
        · simp only [Except.ok.injEq, Prod.mk.injEq] at h
          omega
        · exact ih _ (shift + 7) v r (by omega) (by omega) hlt7 h

theorem readU_lt (bs : Bytes) (v : Nat) (r : Bytes) (h : readU bs = .ok (v, r)) : v < 2 ^ 64 :=
  readULoop_lt bs 0 0 v r (by omega) (by omega) (by simp) h

theorem toI64_range (p : Nat) : -(two63 : Int) ≤ toI64 p ∧ toI64 p < (two63 : Int) := by
  unfold toI64
  have : p % two64 < two64 := Nat.mod_lt _ (by unfold two64; omega)
  unfold two63 two64 at *
  split <;> omega

theorem readSLoop_range : ∀ (bs : Bytes) (res shift : Nat) (v : Int) (r : Bytes),
    shift % 7 = 0 → shift ≤ 63 → res < 2 ^ shift →
    readSLoop bs res shift = .ok (v, r) → -(two63 : Int) ≤ v ∧ v < (two63 : Int) := by
  intro bs
  induction bs with
  | nil => intro res shift v r _ _ _ h; simp [readSLoop] at h
  | cons b rest ih =>
    intro res shift v r h7 h63 hres h
    rw [readSLoop] at h
    split at h
    · simp at h
    · rename_i hc
      have hp : 0 < 2 ^ shift := Nat.pos_of_ne_zero (by simp)
      have hmul : (b.toNat % 128) * 2 ^ shift ≤ 127 * 2 ^ shift := Nat.mul_le_mul_right _ (by omega)
      have hlt7 : res + (b.toNat % 128) * 2 ^ shift < 2 ^ (shift + 7) := by
        rw [pow_shift7]; omega
      have hmodle : (res + (b.toNat % 128) * 2 ^ shift) % two64 ≤ res + (b.toNat % 128) * 2 ^ shift :=
        Nat.mod_le _ _
      simp only at h
      split at h
      · split at h
        · rename_i hcond
          simp only [Except.ok.injEq, Prod.mk.injEq] at h
          have hle63 : 2 ^ (shift + 7) ≤ 2 ^ 63 := Nat.pow_le_pow_right (by omega) (by omega)
          have hv := h.1
          unfold two63
          generalize 2 ^ (shift + 7) = P at *
          generalize (res + (b.toNat % 128) * 2 ^ shift) % two64 = A at *
          omega
        · simp only [Except.ok.injEq, Prod.mk.injEq] at h
          rw [← h.1]; exact toI64_range _
      · rename_i hge
        have hs : shift ≠ 63 := by
          intro hs; subst hs
          have := u8_lt128_of b (by intro hh; exact hc ⟨rfl, hh⟩)
          exact hge this
        exact ih _ (shift + 7) v r (by omega) (by omega) (by omega) h

theorem readS_range (bs : Bytes) (v : Int) (r : Bytes) (h : readS bs = .ok (v, r)) :
    -(two63 : Int) ≤ v ∧ v < (two63 : Int) :=
  readSLoop_range bs 0 0 v r (by omega) (by omega) (by simp) h

/-! ### the concrete codecs return only values of their type -/

theorem sound_u64 : Sound cU64 validU64 := fun bs v r h => readU_lt bs v r h

theorem sound_u32 : Sound cU32 validU32 := by
  intro bs v r h
  change (match readU bs with
    | .ok (v, r) => if v < 2 ^ 32 then Except.ok (v, r) else .error HErr.value
    | .error e => .error e) = .ok (v, r) at h
  split at h
  · split at h
    · simp only [Except.ok.injEq, Prod.mk.injEq] at h
      rw [← h.1]; assumption
    · simp at h
  · simp at h

theorem sound_i64 : Sound cI64 validI64 := fun bs v r h => readS_range bs v r h

theorem unpackBytes_len (bs v r : Bytes) (h : unpackBytes bs = .ok (v, r)) : v.length < 2 ^ 64 := by
  unfold unpackBytes at h
  split at h
  · simp at h
  · rename_i len rest hr
    split at h
    · simp at h
    · simp only [Except.ok.injEq, Prod.mk.injEq] at h
      have := readU_lt bs len rest hr
      rw [← h.1, List.length_take]
      omega

theorem sound_bytes : Sound cBytes validBytes := fun bs v r h => unpackBytes_len bs v r h

theorem sound_str : Sound cStr validStr := by
  intro bs v r h
  change (match unpackBytes bs with
    | .ok (v, r) => if validUtf8 v then Except.ok (v, r) else .error HErr.utf8
    | .error e => .error e) = .ok (v, r) at h
  split at h
  · rename_i v' r' hu
    split at h
    · rename_i hutf
      simp only [Except.ok.injEq, Prod.mk.injEq] at h
      rw [← h.1]
      exact ⟨unpackBytes_len bs v' r' hu, hutf⟩
    · simp at h
  · simp at h

end AmVerif.Hexane
