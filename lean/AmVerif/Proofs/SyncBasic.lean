import AmVerif.Model.Sync2
/-
  Helper lemmas for the sync model: sorted hash sets, heads, topological change lists,
  `apply_changes`.
-/
namespace AmVerif.Sync
open AmVerif

/-! ### `insertSorted` / `sortDedup` as sets -/

theorem mem_insertSorted {x h : Hash} {l : List Hash} :
    x ∈ insertSorted h l ↔ x = h ∨ x ∈ l := by
  induction l with
  | nil => simp [insertSorted]
  | cons y ys ih =>
    unfold insertSorted
    split
    · rename_i heq; subst heq; simp
    · split
      · simp
      · simp [ih]; constructor
        · rintro (h1 | h1 | h1) <;> simp [h1]
        · rintro (h1 | h1 | h1) <;> simp [h1]

theorem mem_sortDedup {x : Hash} {l : List Hash} : x ∈ sortDedup l ↔ x ∈ l := by
  induction l with
  | nil => simp [sortDedup]
  | cons y ys ih =>
    have : sortDedup (y :: ys) = insertSorted y (sortDedup ys) := rfl
    rw [this, mem_insertSorted, ih]; simp

theorem mem_foldl_insertSorted {x : Hash} (hs : List Hash) (acc : List Hash) :
    x ∈ hs.foldl (fun acc h => insertSorted h acc) acc ↔ x ∈ hs ∨ x ∈ acc := by
  induction hs generalizing acc with
  | nil => simp
  | cons h hs ih =>
    simp only [List.foldl_cons, ih, mem_insertSorted, List.mem_cons]
    constructor
    · rintro (h1 | h1 | h1) <;> simp [h1]
    · rintro ((h1 | h1) | h1) <;> simp [h1]

/-! ### the order on hashes is a strict total order, so a sorted duplicate-free list is canonical -/

theorem hashLt_irrefl : ∀ a : Hash, hashLt a a = false
  | [] => rfl
  | x :: xs => by
    unfold hashLt
    have : ¬ x < x := by simp
    simp [this, hashLt_irrefl xs]

theorem hashLt_asymm : ∀ a b : Hash, hashLt a b = true → hashLt b a = false
  | [], [] => by simp [hashLt]
  | [], _ :: _ => by simp [hashLt]
  | _ :: _, [] => by simp [hashLt]
  | x :: xs, y :: ys => by
    unfold hashLt
    by_cases h1 : x < y
    · have h2 : ¬ y < x := by
        intro h; exact absurd (UInt8.lt_trans h1 h) (by simp)
      simp [h1, h2]
    · by_cases h2 : y < x
      · simp [h1, h2]
      · simp only [h1, h2, if_false]
        exact hashLt_asymm xs ys

theorem hashLt_trans : ∀ a b c : Hash, hashLt a b = true → hashLt b c = true → hashLt a c = true
  | [], [], _ => by simp [hashLt]
  | [], _ :: _, [] => by simp [hashLt]
  | [], _ :: _, _ :: _ => by simp [hashLt]
  | _ :: _, [], _ => by simp [hashLt]
  | _ :: _, _ :: _, [] => by simp [hashLt]
  | x :: xs, y :: ys, z :: zs => by
    unfold hashLt
    intro hab hbc
    by_cases h1 : x < y
    · by_cases h2 : y < z
      · simp [UInt8.lt_trans h1 h2]
      · by_cases h3 : z < y
        · simp [h2, h3] at hbc
        · have : y = z := by
            have := UInt8.le_antisymm (UInt8.not_lt.mp h3) (UInt8.not_lt.mp h2); exact this
          subst this; simp [h1]
    · by_cases h1' : y < x
      · simp [h1, h1'] at hab
      · have hxy : x = y := UInt8.le_antisymm (UInt8.not_lt.mp h1') (UInt8.not_lt.mp h1)
        subst hxy
        simp only [h1, if_false] at hab
        by_cases h2 : x < z
        · simp [h2]
        · by_cases h3 : z < x
          · simp [h2, h3] at hbc
          · simp only [h2, h3, if_false] at hbc ⊢
            exact hashLt_trans xs ys zs hab hbc

theorem hashLt_total : ∀ a b : Hash, hashLt a b = false → hashLt b a = false → a = b
  | [], [] => by simp
  | [], _ :: _ => by simp [hashLt]
  | _ :: _, [] => by simp [hashLt]
  | x :: xs, y :: ys => by
    unfold hashLt
    by_cases h1 : x < y
    · simp [h1]
    · by_cases h2 : y < x
      · simp [h1, h2]
      · have hxy : x = y := UInt8.le_antisymm (UInt8.not_lt.mp h2) (UInt8.not_lt.mp h1)
        subst hxy
        simp only [h1, if_false]
        intro h3 h4
        rw [hashLt_total xs ys h3 h4]

/-- strictly increasing -/
def Sorted : List Hash → Prop
  | [] => True
  | x :: xs => (∀ y ∈ xs, hashLt x y = true) ∧ Sorted xs

theorem sorted_insertSorted (h : Hash) : ∀ l : List Hash, Sorted l → Sorted (insertSorted h l)
  | [], _ => by simp [insertSorted, Sorted]
  | x :: xs, hs => by
    unfold insertSorted
    split
    · exact hs
    · rename_i hne
      split
      · rename_i hlt
        refine ⟨?_, hs⟩
        intro y hy
        rcases List.mem_cons.mp hy with rfl | hy
        · exact hlt
        · exact hashLt_trans _ _ _ hlt (hs.1 y hy)
      · rename_i hnlt
        refine ⟨?_, sorted_insertSorted h xs hs.2⟩
        intro y hy
        rcases mem_insertSorted.mp hy with rfl | hy
        · cases hxl : hashLt x y with
          | true => rfl
          | false =>
            exfalso; apply hne
            exact hashLt_total _ _ (by simpa using hnlt) hxl
        · exact hs.1 y hy

theorem sorted_sortDedup (l : List Hash) : Sorted (sortDedup l) := by
  induction l with
  | nil => simp [sortDedup, Sorted]
  | cons y ys ih => exact sorted_insertSorted y _ ih

theorem sorted_ext : ∀ l₁ l₂ : List Hash, Sorted l₁ → Sorted l₂ → (∀ x, x ∈ l₁ ↔ x ∈ l₂) → l₁ = l₂
  | [], [], _, _, _ => rfl
  | [], y :: ys, _, _, h => by have := (h y).mpr (by simp); simp at this
  | x :: xs, [], _, _, h => by have := (h x).mp (by simp); simp at this
  | x :: xs, y :: ys, h1, h2, h => by
    have hxy : x = y := by
      have hx := (h x).mp (by simp)
      have hy := (h y).mpr (by simp)
      rcases List.mem_cons.mp hx with hx | hx
      · exact hx
      · rcases List.mem_cons.mp hy with hy | hy
        · exact hy.symm
        · have a := h2.1 x hx
          have b := h1.1 y hy
          rw [hashLt_asymm _ _ a] at b; cases b
    subst hxy
    congr 1
    apply sorted_ext xs ys h1.2 h2.2
    intro z
    constructor
    · intro hz
      have := (h z).mp (List.mem_cons_of_mem _ hz)
      rcases List.mem_cons.mp this with rfl | h'
      · have := h1.1 z hz; rw [hashLt_irrefl] at this; cases this
      · exact h'
    · intro hz
      have := (h z).mpr (List.mem_cons_of_mem _ hz)
      rcases List.mem_cons.mp this with rfl | h'
      · have := h2.1 z hz; rw [hashLt_irrefl] at this; cases this
      · exact h'

theorem sortDedup_ext {l₁ l₂ : List Hash} (h : ∀ x, x ∈ l₁ ↔ x ∈ l₂) : sortDedup l₁ = sortDedup l₂ :=
  sorted_ext _ _ (sorted_sortDedup _) (sorted_sortDedup _) (by intro x; rw [mem_sortDedup, mem_sortDedup, h])

/-! ### documents -/

namespace Doc

theorem hasChange_iff {d : Doc} {h : Hash} : d.hasChange h = true ↔ h ∈ d.hashes := by
  simp [hasChange]

theorem mem_hashes {d : Doc} {h : Hash} : h ∈ d.hashes ↔ ∃ c ∈ d.applied, c.hash = h := by
  simp [hashes]

theorem isDep_iff {cs : List Change} {h : Hash} :
    isDep cs h = true ↔ ∃ c ∈ cs, h ∈ c.deps := by
  simp [isDep]

theorem mem_heads {d : Doc} {h : Hash} :
    h ∈ d.heads ↔ h ∈ d.hashes ∧ isDep d.applied h = false := by
  simp [heads, mem_sortDedup]

theorem heads_sub_hashes {d : Doc} {h : Hash} (hh : h ∈ d.heads) : h ∈ d.hashes :=
  (mem_heads.mp hh).1

theorem mem_of_lookup {d : Doc} {h : Hash} {c : Change} (hl : d.lookup h = some c) :
    c ∈ d.applied ∧ c.hash = h := by
  unfold lookup at hl
  have h1 := List.mem_of_find?_eq_some hl
  have h2 := List.find?_some hl
  exact ⟨h1, by simpa using h2⟩

theorem mem_changesFor {d : Doc} {hs : List Hash} {c : Change} (hc : c ∈ d.changesFor hs) :
    c ∈ d.applied := by
  unfold changesFor at hc
  rcases List.mem_filterMap.mp hc with ⟨h, _, hl⟩
  exact (mem_of_lookup hl).1

end Doc

/-! ### topological lists -/

theorem Topo.suffix : ∀ (pre suf : List Change), Topo (pre ++ suf) → Topo suf
  | [], _, h => h
  | _ :: pre, suf, h => Topo.suffix pre suf h.2.2

/-- the dependencies of every element are in the list -/
theorem Topo.deps_mem : ∀ (l : List Change), Topo l → ∀ c ∈ l, ∀ h ∈ c.deps, h ∈ l.map (·.hash)
  | [], _, c, hc, _, _ => by cases hc
  | x :: xs, ht, c, hc, h, hh => by
    rcases List.mem_cons.mp hc with rfl | hc
    · exact List.mem_cons_of_mem _ (ht.1 h hh)
    · exact List.mem_cons_of_mem _ (Topo.deps_mem xs ht.2.2 c hc h hh)

/-- in `c :: suf` every dependency of every element lies in `suf` -/
theorem Topo.deps_tail (c : Change) (suf : List Change) (ht : Topo (c :: suf)) :
    ∀ c' ∈ c :: suf, ∀ h ∈ c'.deps, h ∈ suf.map (·.hash) := by
  intro c' hc' h hh
  rcases List.mem_cons.mp hc' with rfl | hc'
  · exact ht.1 h hh
  · exact Topo.deps_mem suf ht.2.2 c' hc' h hh

/-- hashes identify the elements of a topological list -/
theorem Topo.inj : ∀ (l : List Change), Topo l → ∀ x ∈ l, ∀ y ∈ l, x.hash = y.hash → x = y
  | [], _, x, hx, _, _, _ => by cases hx
  | c :: cs, ht, x, hx, y, hy, hxy => by
    rcases List.mem_cons.mp hx with hxc | hx' <;> rcases List.mem_cons.mp hy with hyc | hy'
    · rw [hxc, hyc]
    · exfalso; apply ht.2.1; rw [← hxc, hxy]; exact List.mem_map_of_mem hy'
    · exfalso; apply ht.2.1; rw [← hyc, ← hxy]; exact List.mem_map_of_mem hx'
    · exact Topo.inj cs ht.2.2 x hx' y hy' hxy

/-- If every head of `la` is a hash of `lb`, then every hash of `la` is (both lists topological,
    and a hash means the same change in both). -/
theorem closure_of_heads (la lb : List Change) (hta : Topo la) (htb : Topo lb)
    (agree : ∀ x ∈ la, ∀ y ∈ lb, x.hash = y.hash → x = y)
    (hheads : ∀ x ∈ la, Doc.isDep la x.hash = false → x.hash ∈ lb.map (·.hash)) :
    ∀ x ∈ la, x.hash ∈ lb.map (·.hash) := by
  suffices key : ∀ (suf pre : List Change), la = pre ++ suf →
      (∀ x ∈ pre, x.hash ∈ lb.map (·.hash)) → ∀ x ∈ suf, x.hash ∈ lb.map (·.hash) from
    key la [] rfl (by simp)
  intro suf
  induction suf with
  | nil => intro _ _ _ x hx; cases hx
  | cons c suf ih =>
    intro pre hla hpre
    have hc : c.hash ∈ lb.map (·.hash) := by
      cases hdep : Doc.isDep la c.hash with
      | false => exact hheads c (by rw [hla]; simp) hdep
      | true =>
        obtain ⟨c', hc', hin⟩ := Doc.isDep_iff.mp hdep
        have htail : Topo (c :: suf) := Topo.suffix pre _ (hla ▸ hta)
        rw [hla] at hc'
        rcases List.mem_append.mp hc' with hp | hs
        · -- c' is newer: it is in lb, with the same deps, and lb is dependency closed
          obtain ⟨y, hy, hyh⟩ := List.mem_map.mp (hpre c' hp)
          have : c' = y := agree c' (by rw [hla]; exact List.mem_append_left _ hp) y hy hyh.symm
          subst this
          exact Topo.deps_mem lb htb c' hy _ hin
        · -- c' is c or older: impossible, its deps are strictly older than c
          exfalso
          exact htail.2.1 (Topo.deps_tail c suf htail c' hs _ hin)
    intro x hx
    rcases List.mem_cons.mp hx with rfl | hx
    · exact hc
    · apply ih (pre ++ [c]) (by rw [hla]; simp)
      · intro z hz
        rcases List.mem_append.mp hz with hz | hz
        · exact hpre z hz
        · simp at hz; subst hz; exact hc
      · exact hx

end AmVerif.Sync
