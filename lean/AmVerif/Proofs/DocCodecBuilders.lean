import AmVerif.Proofs.DocCodecPlaceAll
/-
  C11 (document chunk), reconstruction: the builders `try_from_change_meta` makes for well-formed change
  rows (`MetaOk`) are sorted for `builders_index`, hold nothing, and after all ops are placed the builder
  `collect` looks up for change row `i` is the one of that row's range.
-/
namespace AmVerif.DocCodec
open AmVerif AmVerif.Crdt AmVerif.ChangeCodec

/-- the change rows of a document whose changes are contiguous and causally ordered: one row per
    (actor, seq); a later change of an actor starts (even by the estimate from its dependencies) behind
    the earlier one's `max_op`; no estimate is beyond `max_op + 1` -/
structure MetaOk (changes : List ChangeMeta) : Prop where
  distinct : ∀ (i j : Nat) (ci cj : ChangeMeta), changes[i]? = some ci → changes[j]? = some cj →
    ci.actor = cj.actor → ci.seq = cj.seq → i = j
  ranges : ∀ ci ∈ changes, ∀ cj ∈ changes, ci.actor = cj.actor → ci.seq < cj.seq →
    ci.maxOp < estStart changes cj
  starts : ∀ c ∈ changes, estStart changes c ≤ c.maxOp + 1

/-- the builder of change row `c` at index `i` -/
def mkB (changes : List ChangeMeta) (p : Nat × ChangeMeta) : Builder :=
  ⟨p.1, p.2.actor, p.2.seq, estStart changes p.2, p.2.maxOp,
    if p.2.maxOp + 1 - estStart changes p.2 > PROG_THRESHOLD then .prog 0 [] []
    else .vec (List.replicate (p.2.maxOp + 1 - estStart changes p.2) none)⟩

def insertAll (changes : List ChangeMeta) (l : List (Nat × ChangeMeta)) : List Builder :=
  l.foldr (fun p acc => insertBuilder (mkB changes p) acc) []

theorem mkBuilders_eq (changes : List ChangeMeta) :
    mkBuilders changes = insertAll changes ((List.range changes.length).zip changes) := rfl

theorem mem_insertBuilder_iff {b x : Builder} {l : List Builder} : x ∈ insertBuilder b l ↔ x = b ∨ x ∈ l := by
  refine ⟨mem_insertBuilder, ?_⟩
  induction l with
  | nil => intro h; rcases h with rfl | h; exact List.mem_singleton.2 rfl; cases h
  | cons y ys ih =>
    intro h
    unfold insertBuilder
    split
    · rcases h with rfl | h
      · exact List.mem_cons_self ..
      · exact List.mem_cons_of_mem _ h
    · rcases h with rfl | h
      · exact List.mem_cons_of_mem _ (ih (Or.inl rfl))
      · cases h with
        | head => exact List.mem_cons_self ..
        | tail _ h' => exact List.mem_cons_of_mem _ (ih (Or.inr h'))

theorem mem_insertAll {changes : List ChangeMeta} {l : List (Nat × ChangeMeta)} {x : Builder} :
    x ∈ insertAll changes l ↔ ∃ p ∈ l, x = mkB changes p := by
  induction l with
  | nil => simp [insertAll]
  | cons p rest ih =>
    show x ∈ insertBuilder (mkB changes p) (insertAll changes rest) ↔ _
    rw [mem_insertBuilder_iff, ih]
    constructor
    · rintro (h | ⟨q, hq, h⟩)
      · exact ⟨p, List.mem_cons_self .., h⟩
      · exact ⟨q, List.mem_cons_of_mem _ hq, h⟩
    · rintro ⟨q, hq, h⟩
      cases hq with
      | head => exact Or.inl h
      | tail _ hq' => exact Or.inr ⟨q, hq', h⟩

theorem insertAll_sorted {changes : List ChangeMeta} {l : List (Nat × ChangeMeta)}
    (hd : l.Pairwise (fun p q => ¬ (p.2.actor = q.2.actor ∧ p.2.seq = q.2.seq))) :
    (insertAll changes l).Pairwise SLt := by
  induction l with
  | nil => exact List.Pairwise.nil
  | cons p rest ih =>
    rw [List.pairwise_cons] at hd
    show (insertBuilder (mkB changes p) (insertAll changes rest)).Pairwise SLt
    apply insertBuilder_sorted _ (ih hd.2)
    intro x hx
    obtain ⟨q, hq, rfl⟩ := mem_insertAll.1 hx
    intro h
    exact hd.1 q hq ⟨h.1.symm, h.2.symm⟩

theorem mem_zip_range {changes : List ChangeMeta} {p : Nat × ChangeMeta}
    (h : p ∈ (List.range changes.length).zip changes) : changes[p.1]? = some p.2 := by
  obtain ⟨k, hk⟩ := List.mem_iff_getElem?.1 h
  rw [List.getElem?_zip_eq_some] at hk
  obtain ⟨h1, h2⟩ := hk
  rw [List.getElem?_range (by
    rcases Nat.lt_or_ge k changes.length with h | h
    · exact h
    · rw [List.getElem?_eq_none (by simpa using h)] at h1; cases h1)] at h1
  cases h1
  exact h2

theorem zip_range_mem {changes : List ChangeMeta} {i : Nat} {c : ChangeMeta} (h : changes[i]? = some c) :
    (i, c) ∈ (List.range changes.length).zip changes := by
  have hi : i < changes.length := (List.getElem?_eq_some_iff.1 h).1
  apply List.mem_iff_getElem?.2
  refine ⟨i, ?_⟩
  rw [List.getElem?_zip_eq_some]
  exact ⟨by rw [List.getElem?_range hi], h⟩

theorem mkBuilders_sorted {changes : List ChangeMeta} (hm : MetaOk changes) :
    (mkBuilders changes).Pairwise SLt := by
  rw [mkBuilders_eq]
  apply insertAll_sorted
  rw [List.pairwise_iff_getElem]
  intro i j hi hj hij h
  have h1 := mem_zip_range (List.getElem_mem hi)
  have h2 := mem_zip_range (List.getElem_mem hj)
  have e1 : ((List.range changes.length).zip changes)[i].1 = i := by simp
  have e2 : ((List.range changes.length).zip changes)[j].1 = j := by simp
  rw [e1] at h1
  rw [e2] at h2
  have := hm.distinct i j _ _ h1 h2 h.1 h.2
  omega

theorem mem_mkBuilders_iff {changes : List ChangeMeta} {x : Builder} :
    x ∈ mkBuilders changes ↔ ∃ i c, changes[i]? = some c ∧ x = mkB changes (i, c) := by
  rw [mkBuilders_eq, mem_insertAll]
  constructor
  · rintro ⟨p, hp, rfl⟩
    exact ⟨p.1, p.2, mem_zip_range hp, rfl⟩
  · rintro ⟨i, c, h, rfl⟩
    exact ⟨(i, c), zip_range_mem h, rfl⟩

/-- **the builders are sorted for `builders_index`** -/
theorem mkBuilders_rsorted {changes : List ChangeMeta} (hm : MetaOk changes) :
    RSorted ((mkBuilders changes).map Builder.range) := by
  refine ⟨?_, ?_⟩
  · rw [List.pairwise_map]
    apply List.Pairwise.imp_of_mem _ (mkBuilders_sorted hm)
    intro a b ha hb hab
    obtain ⟨i, ci, hi, rfl⟩ := mem_mkBuilders_iff.1 ha
    obtain ⟨j, cj, hj, rfl⟩ := mem_mkBuilders_iff.1 hb
    unfold SLt at hab
    unfold RLt
    simp only [mkB, Builder.range] at hab ⊢
    rcases hab with h | ⟨h1, h2⟩
    · exact Or.inl h
    · exact Or.inr ⟨h1, hm.ranges ci (List.mem_of_getElem? hi) cj (List.mem_of_getElem? hj) h1 h2⟩
  · intro p hp
    obtain ⟨b, hb, rfl⟩ := List.mem_map.1 hp
    obtain ⟨i, c, hi, rfl⟩ := mem_mkBuilders_iff.1 hb
    exact hm.starts c (List.mem_of_getElem? hi)

theorem holds_mkB (changes : List ChangeMeta) (p : Nat × ChangeMeta) : Holds (mkB changes p) [] := by
  unfold Holds mkB
  simp only []
  split
  · rename_i slots hs
    split at hs
    · cases hs
    · cases hs
      refine ⟨by simp, fun k op => ?_⟩
      rw [List.getElem?_replicate]
      constructor
      · intro h
        split at h <;> cases h
      · rintro ⟨h, _⟩
        cases h
  · rename_i len out queue hs
    split at hs
    · cases hs
      and_intros
      · rfl
      · intro j op h; simp at h
      · intro x hx; cases hx
      · exact List.Pairwise.nil
      · intro op; simp
    · cases hs

/-- the collector's initial state -/
theorem pinv_mkBuilders {changes : List ChangeMeta} (hm : MetaOk changes) : PInv (mkBuilders changes) [] := by
  refine ⟨mkBuilders_rsorted hm, fun i b hi => ?_⟩
  obtain ⟨j, c, _, rfl⟩ := mem_mkBuilders_iff.1 (List.mem_of_getElem? hi)
  exact holds_mkB changes (j, c)

/-- **the builder `collect` finds for change row `i`** after the ops `D` were placed -/
theorem find_builder {changes : List ChangeMeta} {bs : List Builder} {D : List RecOp}
    (hinv : PInv bs D) (hr : bs.map Builder.range = (mkBuilders changes).map Builder.range)
    (hc : bs.map (·.change) = (mkBuilders changes).map (·.change))
    {i : Nat} {c : ChangeMeta} (hi : changes[i]? = some c) :
    ∃ b, bs.find? (fun b => b.change = i) = some b ∧ b.range = (c.actor, estStart changes c, c.maxOp) ∧
      Holds b (D.filter (inR b.range)) := by
  -- some builder has that index
  have hex : ∃ b ∈ bs, b.change = i := by
    have h0 : mkB changes (i, c) ∈ mkBuilders changes := mem_mkBuilders_iff.2 ⟨i, c, hi, rfl⟩
    have : i ∈ (mkBuilders changes).map (·.change) := List.mem_map.2 ⟨_, h0, rfl⟩
    rw [← hc] at this
    obtain ⟨b, hb, hbi⟩ := List.mem_map.1 this
    exact ⟨b, hb, hbi⟩
  cases hf : bs.find? (fun b => b.change = i) with
  | none =>
    obtain ⟨b, hb, hbi⟩ := hex
    have := List.find?_eq_none.1 hf b hb
    simp [hbi] at this
  | some b =>
    have hbi : b.change = i := by simpa using List.find?_some hf
    have hbm := List.mem_of_find?_eq_some hf
    obtain ⟨t, ht⟩ := List.mem_iff_getElem?.1 hbm
    refine ⟨b, rfl, ?_, hinv.holds t b ht⟩
    -- the builder at that position was made for row `i`
    have h1 : (bs.map Builder.range)[t]? = some b.range := by rw [List.getElem?_map, ht]; rfl
    have h2 : (bs.map (·.change))[t]? = some b.change := by rw [List.getElem?_map, ht]; rfl
    rw [hr, List.getElem?_map] at h1
    rw [hc, List.getElem?_map] at h2
    cases h0 : (mkBuilders changes)[t]? with
    | none => rw [h0] at h1; cases h1
    | some b0 =>
      rw [h0] at h1 h2
      simp only [Option.map_some, Option.some.injEq] at h1 h2
      obtain ⟨j, cj, hj, rfl⟩ := mem_mkBuilders_iff.1 (List.mem_of_getElem? h0)
      have hji : j = i := by rw [← hbi, ← h2]; rfl
      subst hji
      rw [hi] at hj
      cases hj
      rw [← h1]
      rfl

end AmVerif.DocCodec
