import AmVerif.Proofs.SyncProgress21PairW2
/-
  C21, n peers, part 3 (PairW, third file): phases P and Q under the weak invariants, and the pair
  lemma itself: four calm rounds end in a quiescent pair.
-/
namespace AmVerif.Sync.Prog
open AmVerif AmVerif.Sync

/-! ### phase P: a fresh, not converged pair is not calm -/

theorem phaseP_W (fp : Hash → Bool) {K : List Change} {c : Cfg} (w : WP K c) (hfr : Fresh c)
    (hth : c.stB.theirHeads = some c.docA.heads) (cm : Calm fp c) (hns : ¬ SameSet c) : False := by
  have kinj := kinj_of_topo w.topoK
  have hndB : ourNeed c.docB c.stB = c.docB.missingDepsFrom c.docA.heads := by
    rw [ourNeed_rw (d := c.docB) (s := c.stB) w.sess.b.rw.1, hth]; rfl
  have hheadsNe : c.docA.heads ≠ c.docB.heads := by
    intro e; apply hns
    apply sameSet_of_mutualW kinj w.oa w.ob
    · intro x hx; rw [e] at hx; exact Doc.heads_sub_hashes hx
    · intro x hx; rw [← e] at hx; exact Doc.heads_sub_hashes hx
  cases hnd : ourNeed c.docB c.stB with
  | cons x rest =>
    -- B asked for `x`: A sends it in the first half, so B's document changes
    have hxin : x ∈ c.docB.missingDepsFrom c.docA.heads := by rw [← hndB, hnd]; simp
    obtain ⟨hxa, hxb⟩ := need_soundW kinj w.oa w.ob (fun h hh => Doc.heads_sub_hashes hh) hxin
    obtain ⟨he, hhas⟩ := half_progressW fp w.inv2 cm.nrA w.sess.b.rw.1 hfr.linkAB hfr.flight
      hfr.theirNeed hfr.theirHave (by rw [hnd]; simp) hxa hxb
    have := cm.fB
    rw [he] at this
    rw [this, hxb] at hhas
    cases hhas
  | nil =>
    -- B needs nothing: it has everything A has; so A lacks something, asks for it, and B serves it
    have hHB : ∀ h ∈ c.docA.heads, h ∈ c.docB.hashes :=
      applied_of_missing_nil c.docB K c.docA.heads w.ob.wf.qnodup w.topoK w.ob.queue w.inv2.b.stuck
        (by rw [← hndB]; exact hnd)
    have hAB : ∀ x ∈ c.docA.applied, x ∈ c.docB.applied := sub_of_heads kinj w.oa w.ob hHB
    have hndA : ourNeed c.docA c.stA = c.docA.missingDepsFrom c.docB.heads := by
      rw [ourNeed_rw (d := c.docA) (s := c.stA) w.sess.a.rw.1, hfr.theirHeads]; rfl
    cases hndA' : ourNeed c.docA c.stA with
    | nil =>
      have hBA : ∀ h ∈ c.docB.heads, h ∈ c.docA.hashes :=
        applied_of_missing_nil c.docA K c.docB.heads w.oa.wf.qnodup w.topoK w.oa.queue
          w.inv2.a.stuck (by rw [← hndA]; exact hndA')
      exact hns (fun x => ⟨hAB x, sub_of_heads kinj w.ob w.oa hBA x⟩)
    | cons x rest =>
      have hxin : x ∈ c.docA.missingDepsFrom c.docB.heads := by rw [← hndA, hndA']; simp
      obtain ⟨hxb, hxa⟩ := need_soundW kinj w.ob w.oa (fun h hh => Doc.heads_sub_hashes hh) hxin
      rcases halfRound_cases fp c hfr.linkAB cm.nrA with ⟨hq, _⟩ | ⟨_, he⟩
      · obtain ⟨h1, _, _, _⟩ := quiet_free hq w.sess.a.rw.1 hfr.flight
        rw [hfr.theirHeads] at h1
        exact hheadsNe (by injection h1 with h1; exact h1.symm)
      · have w1 : WP K (sendA fp c) := by rw [← he]; exact w.halfRound fp
        have hdB : (sendA fp c).docB = c.docB := by have := cm.fB; rw [he] at this; exact this
        have nrB : resetCond (sendA fp c).docB (sendA fp c).stB = false := by
          have := cm.nrB; rw [he] at this; exact this
        obtain ⟨f1, _, f3, f4, _⟩ := recvState_fields c.docB c.stB
          (mkMessage c.docA c.stA (mkBuilder fp c.docA c.stA))
        have hneedB : (sendA fp c).swap.stA.theirNeed = some (ourNeed c.docA c.stA) := f4
        have hhaveB : (sendA fp c).swap.stA.theirHave = some (ourHave c.docA c.stA) := f3
        have hxB' : x ∈ (sendA fp c).swap.docA.hashes := by
          show x ∈ (sendA fp c).docB.hashes
          rw [hdB]; exact hxb
        obtain ⟨he2, hhas⟩ := half_progressW fp (c := (sendA fp c).swap) w1.inv2.swap nrB
          w1.sess.a.rw.1 hfr.linkBA f1 hneedB hhaveB (by rw [hndA']; simp) hxB' hxa
        have hfA := cm.fA
        have hround : round fp c = (halfRound fp (halfRound fp c).swap).swap := rfl
        rw [he, he2] at hround
        rw [hround] at hfA
        have hfA' : (sendA fp (sendA fp c).swap).docB = c.docA := hfA
        rw [hfA', hxa] at hhas
        cases hhas

/-! ### phase Q: converged peers go quiet -/

theorem quiet_after_recv_sameW (fp : Hash → Bool) {K : List Change} {c : Cfg} (oa : DocOK K c.docA)
    (ob : DocOK K c.docB) (hnr : c.stA.needsReset = false)
    (hthA : ∀ H, c.stA.theirHeads = some H → ∀ h ∈ H, h ∈ c.docB.hashes) (hs : SameSet c)
    (hls : c.stB.lastSentHeads = c.docB.heads) (hresp : c.stB.haveResponded = true)
    (hdoc : (sendA fp c).docB = c.docB) :
    quiet (sendA fp c).docB (sendA fp c).stB (mkBuilder fp (sendA fp c).docB (sendA fp c).stB) = true := by
  have hheads : c.docA.heads = c.docB.heads := heads_eq_of_same hs
  rw [hdoc]
  obtain ⟨_, f2, f3, f4, f5, f6, _⟩ := recvState_fields c.docB c.stB
    (mkMessage c.docA c.stA (mkBuilder fp c.docA c.stA))
  have hmh : (mkMessage c.docA c.stA (mkBuilder fp c.docA c.stA)).heads = c.docB.heads := by
    rw [mkMessage_heads hnr, hheads]
  have e1 : (sendA fp c).stB.theirHeads = some c.docB.heads := by
    show (recvState c.docB c.stB _).theirHeads = _
    rw [f2, hmh]
  have e2 : (sendA fp c).stB.lastSentHeads = c.docB.heads := by
    show (recvState c.docB c.stB _).lastSentHeads = _
    rw [recvState_lastSentHeads _ _ _ (by rw [hmh]; exact hls), hmh]
  have e3 : (sendA fp c).stB.haveResponded = true := by
    show (recvState c.docB c.stB _).haveResponded = _
    rw [f5]; exact hresp
  have e4 : (mkBuilder fp c.docB (sendA fp c).stB).hashes = [] := by
    apply mkBuilder_empty_of_same fp c.docB c.docA (sendA fp c).stB c.stA ob.wf.topo oa.wf.topo
      (fun x => (hs x).symm)
    · show (recvState c.docB c.stB _).theirHave = _
      rw [f3]; rfl
    · show (recvState c.docB c.stB _).theirNeed = _
      rw [f4]; rfl
    · show (recvState c.docB c.stB _).theirHeads = _
      rw [f2, mkMessage_heads hnr]
    · intro H hH h hh
      obtain ⟨y, hy, hyh⟩ := Doc.mem_hashes.mp (hthA H hH h hh)
      exact Doc.mem_hashes.mpr ⟨y, (hs y).mpr hy, hyh⟩
  unfold quiet
  simp [e1, e2, e3, e4]

theorem resetCond_sentState (d : Doc) (s : State) (b : Builder) :
    resetCond d (sentState d s b) = resetCond d s := rfl

theorem phaseQ_W (fp : Hash → Bool) {K : List Change} {c : Cfg} (w : WP K c) (hab : c.linkAB = [])
    (hba : c.linkBA = []) (hs : SameSet c) (cm : Calm fp c)
    (nrA' : resetCond (round fp c).docA (round fp c).stA = false) : Quiescent fp (round fp c) := by
  obtain ⟨l1, l2, _⟩ := round_frame fp c
  suffices hq : (quiet (round fp c).docA (round fp c).stA
        (mkBuilder fp (round fp c).docA (round fp c).stA) = true ∧
      quiet (round fp c).docB (round fp c).stB
        (mkBuilder fp (round fp c).docB (round fp c).stB) = true) ∧
      resetCond (round fp c).docB (round fp c).stB = false by
    refine ⟨l1, l2, ?_, ?_⟩
    · rw [generate_quiet nrA' hq.1.1]
    · have := generate_quiet (fp := fp) hq.2 hq.1.2
      exact congrArg Prod.snd this
  have hround : round fp c = (halfRound fp (halfRound fp c).swap).swap := rfl
  have hfA := cm.fA
  rcases halfRound_cases fp c hab cm.nrA with ⟨hqa, he⟩ | ⟨_, he⟩
  · have nrB : resetCond c.docB c.stB = false := by have := cm.nrB; rw [he] at this; exact this
    rw [he] at hround
    rcases halfRound_cases fp c.swap hba nrB with ⟨hqb, he2⟩ | ⟨_, he2⟩
    · rw [he2] at hround
      rw [hround]; exact ⟨⟨hqa, hqb⟩, nrB⟩
    · rw [he2] at hround
      rw [hround] at hfA ⊢
      obtain ⟨b1, b2⟩ := quiet_basic hqa
      refine ⟨⟨?_, quiet_sentState _ _ _ _⟩, nrB⟩
      exact quiet_after_recv_sameW fp (c := c.swap) w.ob w.oa w.sess.b.rw.2 w.sess.b.theirHeads
        hs.swap b1 b2 hfA
  · rw [he] at hround
    have w1 : WP K (sendA fp c) := by rw [← he]; exact w.halfRound fp
    have hdB : (sendA fp c).docB = c.docB := by have := cm.fB; rw [he] at this; exact this
    have nrB : resetCond (sendA fp c).docB (sendA fp c).stB = false := by
      have := cm.nrB; rw [he] at this; exact this
    have hs1 : SameSet (sendA fp c) := sameSet_of_docs hs rfl hdB
    rcases halfRound_cases fp (sendA fp c).swap hba nrB with ⟨hqb, he2⟩ | ⟨_, he2⟩
    · rw [he2] at hround
      rw [hround]
      exact ⟨⟨quiet_sentState _ _ _ _, hqb⟩, nrB⟩
    · rw [he2] at hround
      rw [hround] at hfA ⊢
      refine ⟨⟨?_, quiet_sentState _ _ _ _⟩, nrB⟩
      exact quiet_after_recv_sameW fp (c := (sendA fp c).swap) w1.ob w1.oa w1.sess.b.rw.2
        w1.sess.b.theirHeads hs1.swap rfl rfl hfA

/-! ### the pair lemma -/

/-- **PairW.**  A pair inside a network (weak invariants `WP`: third-party orphans in the queues,
    third-party heads in `shared_heads` allowed), any false-positive oracle: if during four rounds
    of the pair nothing arrives at either peer and no reset message is sent (`Calm`), and A is not
    about to send one, then the pair is quiescent. -/
theorem pairW (fp : Hash → Bool) {K : List Change} {c : Cfg} (w : WP K c)
    (calm : ∀ k, k < 4 → Calm fp (rounds fp k c))
    (nr : ∀ k, k ≤ 4 → resetCond (rounds fp k c).docA (rounds fp k c).stA = false) :
    Quiescent fp (rounds fp 4 c) := by
  -- names for the configurations at the round boundaries
  have e1 : rounds fp 1 c = round fp c := rfl
  have e2 : rounds fp 2 c = round fp (rounds fp 1 c) := rfl
  have e3 : rounds fp 3 c = round fp (rounds fp 2 c) := rfl
  have e4 : rounds fp 4 c = round fp (rounds fp 3 c) := rfl
  have w1 := WP.rounds fp 1 w
  have w2 := WP.rounds fp 2 w
  have w3 := WP.rounds fp 3 w
  obtain ⟨l1a, l1b, _⟩ := round_frame fp c
  have l2 := round_frame fp (rounds fp 1 c)
  have l3 := round_frame fp (rounds fp 2 c)
  rw [← e1] at l1a l1b
  rw [← e2] at l2
  rw [← e3] at l3
  -- once the peers hold the same changes, one round makes them quiet and they stay quiet
  have fromQ : ∀ k, k < 4 → (rounds fp k c).linkAB = [] → (rounds fp k c).linkBA = [] →
      SameSet (rounds fp k c) → Quiescent fp (rounds fp 4 c) := by
    intro k hk la lb hs
    have hq : Quiescent fp (rounds fp (k + 1) c) := by
      have : rounds fp (k + 1) c = round fp (rounds fp k c) := by
        rw [rounds_add fp k 1 c]; rfl
      rw [this]
      apply phaseQ_W fp (WP.rounds fp k w) la lb hs (calm k hk)
      rw [← this]; exact nr (k + 1) (by omega)
    have : 4 = (k + 1) + (4 - (k + 1)) := by omega
    rw [this, rounds_add, rounds_quiescent _ hq]
    exact hq
  rcases phaseEG_W fp w1 l1a l1b (calm 1 (by omega)) with hs | ⟨hfr, _⟩
  · rw [← e2] at hs
    exact fromQ 2 (by omega) l2.1 l2.2.1 hs
  · rw [← e2] at hfr
    rcases phaseEG_W fp w2 l2.1 l2.2.1 (calm 2 (by omega)) with hs | ⟨hfr3, hth⟩
    · rw [← e3] at hs
      exact fromQ 3 (by omega) l3.1 l3.2.1 hs
    · rw [← e3] at hfr3 hth
      by_cases hs2 : SameSet (rounds fp 2 c)
      · exact fromQ 2 (by omega) l2.1 l2.2.1 hs2
      · -- A (fresh, not converged) is not quiet in round 3, so B's picture of A is current after it
        have hnq : quiet (rounds fp 2 c).docA (rounds fp 2 c).stA
            (mkBuilder fp (rounds fp 2 c).docA (rounds fp 2 c).stA) = false := by
          cases hq : quiet (rounds fp 2 c).docA (rounds fp 2 c).stA
              (mkBuilder fp (rounds fp 2 c).docA (rounds fp 2 c).stA) with
          | false => rfl
          | true =>
            exfalso
            obtain ⟨h1, _, _, _⟩ := quiet_free hq w2.sess.a.rw.1 hfr.flight
            rw [hfr.theirHeads] at h1
            have heq : (rounds fp 2 c).docB.heads = (rounds fp 2 c).docA.heads := by injection h1
            apply hs2
            apply sameSet_of_mutualW (kinj_of_topo w2.topoK) w2.oa w2.ob
            · intro x hx; rw [← heq] at hx; exact Doc.heads_sub_hashes hx
            · intro x hx; rw [heq] at hx; exact Doc.heads_sub_hashes hx
        by_cases hs3 : SameSet (rounds fp 3 c)
        · exact fromQ 3 (by omega) l3.1 l3.2.1 hs3
        · exact (phaseP_W fp w3 hfr3 (hth hnq) (calm 3 (by omega)) hs3).elim

end AmVerif.Sync.Prog
