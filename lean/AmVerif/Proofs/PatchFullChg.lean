import AmVerif.Proofs.PatchFullDoc
/-
  C09, full register statement, part 2: the state (`doc`, `change`) of `ValueState` after any list
  of incoming operations (`process_change_op` / `do_increment`), as an invariant over the processed
  prefix `pre` and the remaining operations `rest`.
-/
namespace AmVerif.Crdt
open AmVerif

theorem bumpAll_concat_inc (pre : List ChgOp) (p : List OpId) (n : Int) (id : OpId) (v : PVal) :
    bumpAll (pre ++ [.inc p n]) id v =
      if p.contains id then (bumpAll pre id v).bump n else bumpAll pre id v := by
  simp [bumpAll, List.foldl_append]

theorem bumpAll_concat_value (pre : List ChgOp) (i : OpId) (w : PVal) (id : OpId) (v : PVal) :
    bumpAll (pre ++ [.value i w]) id v = bumpAll pre id v := by
  simp [bumpAll, List.foldl_append]

theorem valuesAfter_concat_value (pre : List ChgOp) (i : OpId) (w : PVal) :
    valuesAfter (pre ++ [.value i w]) = valuesAfter pre ++ [(i, w)] := by
  induction pre with
  | nil => simp [valuesAfter, bumpAll]
  | cons x pre ih => cases x <;> simp [valuesAfter, ih, bumpAll_concat_value]

theorem valuesAfter_concat_inc (pre : List ChgOp) (p : List OpId) (n : Int) :
    valuesAfter (pre ++ [.inc p n]) =
      (valuesAfter pre).map (fun q => (q.1, if p.contains q.1 then q.2.bump n else q.2)) := by
  induction pre with
  | nil => simp [valuesAfter]
  | cons x pre ih => cases x <;> simp [valuesAfter, ih, bumpAll_concat_inc]

theorem ovIncrement_some (c : OpValue) (n : Int) :
    ovIncrement (some c) n = some { c with val := c.val.bump n } := by
  cases c with
  | mk i v d cf e =>
    cases v with
    | scalar s => cases s <;> simp [ovIncrement, PVal.bump]
    | obj t => simp [ovIncrement, PVal.bump]

theorem bump_not_counter (v : PVal) (n : Int) (h : v.isCounter = false) : v.bump n = v := by
  cases v with
  | scalar s => cases s <;> simp_all [PVal.bump, PVal.isCounter]
  | obj t => rfl

theorem OpId.ne_of_lt_or {a b : OpId} (h : a.lt b = true ∨ b.lt a = true) : a ≠ b := by
  intro he; subst he; simp [OpId.lt_irrefl] at h

/-- what the walker guarantees about one incoming operation `x` followed by `rest`, relative to the
    value `D0` tracked for the document: an incoming value has a fresh id; an increment names the
    document's tracked value only if that is a counter or is deleted by the batch (an increment of a
    non-counter is a delete), and every later incoming value has an id above the increment's
    predecessors (op-id order: the increment's own id is above its predecessors) -/
def opOK (D0 : Option OpValue) (x : ChgOp) (rest : List ChgOp) : Prop :=
  match x with
  | .value id _ => ∀ d0, D0 = some d0 → (d0.id.lt id = true ∨ id.lt d0.id = true)
  | .inc p _ =>
    (∀ d0, D0 = some d0 → p.contains d0.id = true → d0.deleted = true ∨ ∃ k, d0.val = .scalar (.counter k))
    ∧ (∀ id v, ChgOp.value id v ∈ rest → ∀ q, p.contains q = true → q.lt id = true)

def chgOK (D0 : Option OpValue) : List ChgOp → Prop
  | [] => True
  | x :: rest => opOK D0 x rest ∧ chgOK D0 rest

/-- the modes of (`doc`, `change`) after the incoming operations `pre`, `rest` still to come -/
inductive G (D0 : Option OpValue) (pre rest : List ChgOp) : Option OpValue × Option OpValue → Prop
  /-- nothing tracked: no incoming value, no increment of the document's value so far -/
  | m0 : valuesAfter pre = [] →
      (∀ d0, D0 = some d0 → d0.deleted = false → bumpAll pre d0.id d0.val = d0.val) →
      G D0 pre rest (D0, none)
  /-- `change` is the clone of the document's counter, carrying the increments -/
  | m1 (d0 : OpValue) (k : Int) : D0 = some d0 → d0.deleted = false → d0.val = .scalar (.counter k) →
      valuesAfter pre = [] → (∀ id v, ChgOp.value id v ∈ rest → d0.id.lt id = true) →
      G D0 pre rest (some d0, some { d0 with val := bumpAll pre d0.id d0.val })
  /-- an incoming value is tracked, nothing of the document's register survives -/
  | dead (c : OpValue) : (∀ d0, D0 = some d0 → d0.deleted = true) →
      (valuesAfter pre).getLast? = some (c.id, c.val) → c.deleted = false →
      c.conflict = decide ((valuesAfter pre).length > 1) → G D0 pre rest (D0, some c)
  /-- an incoming value is tracked, the document's value carries its own increments -/
  | good (d0 c : OpValue) (e : Bool) : D0 = some d0 → d0.deleted = false →
      (valuesAfter pre).getLast? = some (c.id, c.val) → c.deleted = false →
      (d0.id.lt c.id = true ∨ c.id.lt d0.id = true) →
      (e = false → d0.expose = false ∧ bumpAll pre d0.id d0.val = d0.val) →
      G D0 pre rest (some { d0 with val := bumpAll pre d0.id d0.val, expose := e }, some c)
  /-- an incoming value replaced the clone: it and every later value are above the document's -/
  | cloned (d0 c : OpValue) (dv : PVal) (de : Bool) : D0 = some d0 → d0.deleted = false →
      (valuesAfter pre).getLast? = some (c.id, c.val) → c.deleted = false → d0.id.lt c.id = true →
      (∀ id v, ChgOp.value id v ∈ rest → d0.id.lt id = true) →
      G D0 pre rest (some { d0 with val := dv, expose := de }, some c)

theorem G_of_eq {D0 : Option OpValue} {pre rest : List ChgOp} {st st' : Option OpValue × Option OpValue}
    (h : G D0 pre rest st) (he : st = st') : G D0 pre rest st' := he ▸ h

theorem getLast?_ne_nil {α : Type} {l : List α} {a : α} (h : l.getLast? = some a) : l.length > 0 := by
  cases l with
  | nil => simp at h
  | cons x l => simp

theorem G_step_value (D0 : Option OpValue) (pre rest : List ChgOp) (i : OpId) (w : PVal)
    (st : Option OpValue × Option OpValue)
    (hG : G D0 pre (.value i w :: rest) st) (hok : opOK D0 (.value i w) rest) :
    G D0 (pre ++ [.value i w]) rest (stepChange st (.value i w)) := by
  have hfresh : ∀ d0, D0 = some d0 → (d0.id.lt i = true ∨ i.lt d0.id = true) := hok
  cases hG with
  | m0 hV hB =>
    cases hD : D0 with
    | none =>
      refine G_of_eq (G.dead ⟨i, w, false, false, false⟩ ?_ ?_ rfl ?_) ?_
      · intro d0 h; cases h
      · simp [valuesAfter_concat_value, hV]
      · simp [valuesAfter_concat_value, hV]
      · simp [stepChange, ovSet]
    | some d0 =>
      cases hdd : d0.deleted with
      | true =>
        refine G_of_eq (G.dead ⟨i, w, false, false, false⟩ ?_ ?_ rfl ?_) ?_
        · intro d h; cases h; exact hdd
        · simp [valuesAfter_concat_value, hV]
        · simp [valuesAfter_concat_value, hV]
        · simp [stepChange, ovSet]
      | false =>
        have hb := hB d0 hD hdd
        refine G_of_eq (G.good d0 ⟨i, w, false, false, false⟩ d0.expose rfl hdd ?_ rfl (hfresh d0 hD) ?_) ?_
        · simp [valuesAfter_concat_value, hV]
        · intro he; exact ⟨he, by rw [bumpAll_concat_value]; exact hb⟩
        · rw [bumpAll_concat_value, hb]; simp [stepChange, ovSet]
  | m1 d0 k hD hdd hval hV hR =>
    refine G_of_eq (G.cloned d0 ⟨i, w, false, true, false⟩ d0.val d0.expose hD hdd ?_ rfl
      (hR i w (by simp)) (fun id v hm => hR id v (by simp [hm]))) ?_
    · simp [valuesAfter_concat_value, hV]
    · simp [stepChange, ovSet, hdd]
      cases d0; simp_all
  | dead c hDead hL hcd hcc =>
    have hlen := getLast?_ne_nil hL
    refine G_of_eq (G.dead ⟨i, w, false, true, false⟩ hDead ?_ rfl ?_) ?_
    · simp [valuesAfter_concat_value]
    · simp [valuesAfter_concat_value]; omega
    · simp [stepChange, ovSet, hcd]
  | good d0 c e hD hdd hL hcd hlt hE =>
    refine G_of_eq (G.good d0 ⟨i, w, false, true, false⟩ e hD hdd ?_ rfl (hfresh d0 hD) ?_) ?_
    · simp [valuesAfter_concat_value]
    · intro he; rw [bumpAll_concat_value]; exact hE he
    · rw [bumpAll_concat_value]; simp [stepChange, ovSet, hcd]
  | cloned d0 c dv de hD hdd hL hcd hlt hR =>
    refine G_of_eq (G.cloned d0 ⟨i, w, false, true, false⟩ dv de hD hdd ?_ rfl
      (hR i w (by simp)) (fun id v hm => hR id v (by simp [hm]))) ?_
    · simp [valuesAfter_concat_value]
    · simp [stepChange, ovSet, hcd]

def incDoc (d : OpValue) (c : OpValue) (p : List OpId) (n : Int) : OpValue :=
  if c.id != d.id && !d.deleted && p.contains d.id && d.val.isCounter
  then { d with val := d.val.bump n, expose := true } else d

theorem stepChange_inc_some (d c : OpValue) (p : List OpId) (n : Int) :
    stepChange (some d, some c) (.inc p n) =
      (some (incDoc d c p n), some { c with val := if p.contains c.id then c.val.bump n else c.val }) := by
  cases hc : p.contains c.id with
  | false =>
    have : ({ c with val := c.val } : OpValue) = c := by cases c; rfl
    have hc' : c.id ∉ p := by simpa using hc
    simp [stepChange, hc', incDoc, this]
    split <;> rfl
  | true =>
    have hc' : c.id ∈ p := by simpa using hc
    simp [stepChange, hc', incDoc, ovIncrement_some]
    split <;> rfl

theorem G_step_inc (D0 : Option OpValue) (pre rest : List ChgOp) (p : List OpId) (n : Int)
    (st : Option OpValue × Option OpValue)
    (hG : G D0 pre (.inc p n :: rest) st) (hok : opOK D0 (.inc p n) rest) :
    G D0 (pre ++ [.inc p n]) rest (stepChange st (.inc p n)) := by
  have hctr : ∀ d0, D0 = some d0 → p.contains d0.id = true →
      d0.deleted = true ∨ ∃ k, d0.val = .scalar (.counter k) := hok.1
  have hord : ∀ id v, ChgOp.value id v ∈ rest → ∀ q, p.contains q = true → q.lt id = true := hok.2
  cases hG with
  | m0 hV hB =>
    cases hD : D0 with
    | none =>
      refine G_of_eq (G.m0 ?_ ?_) ?_
      · simp [valuesAfter_concat_inc, hV]
      · intro d0 h; cases h
      · simp [stepChange]
    | some d0 =>
      cases hdd : d0.deleted with
      | true =>
        refine G_of_eq (G.m0 ?_ ?_) ?_
        · simp [valuesAfter_concat_inc, hV]
        · intro d h hd; cases h; rw [hdd] at hd; cases hd
        · simp [stepChange, hdd]
      | false =>
        have hb := hB d0 hD hdd
        cases hc : p.contains d0.id with
        | false =>
          have hc' : d0.id ∉ p := by simpa using hc
          refine G_of_eq (G.m0 ?_ ?_) ?_
          · simp [valuesAfter_concat_inc, hV]
          · intro d h hd; cases h
            rw [bumpAll_concat_inc, hc]; simpa using hb
          · simp [stepChange, hdd, hc']
        | true =>
          rcases hctr d0 hD hc with hx | ⟨k, hk⟩
          · rw [hdd] at hx; cases hx
          · have hc' : d0.id ∈ p := by simpa using hc
            refine G_of_eq (G.m1 d0 k rfl hdd hk ?_ (fun id v hm => hord id v hm d0.id hc)) ?_
            · simp [valuesAfter_concat_inc, hV]
            · rw [bumpAll_concat_inc, hb, hc]; simp [stepChange, hdd, hc', ovIncrement_some]
  | m1 d0 k hD hdd hval hV hR =>
    refine G_of_eq (G.m1 d0 k hD hdd hval ?_ (fun id v hm => hR id v (by simp [hm]))) ?_
    · simp [valuesAfter_concat_inc, hV]
    · rw [stepChange_inc_some, bumpAll_concat_inc]
      simp [incDoc]
  | dead c hDead hL hcd hcc =>
    cases hD : D0 with
    | none =>
      refine G_of_eq (G.dead { c with val := if p.contains c.id then c.val.bump n else c.val }
        (by intro d h; cases h) ?_ hcd ?_) ?_
      · simp [valuesAfter_concat_inc, List.getLast?_map, hL]
      · simp [valuesAfter_concat_inc, hcc]
      · cases hc : p.contains c.id with
        | false =>
          have hc' : c.id ∉ p := by simpa using hc
          simp [stepChange, hc']
        | true =>
          have hc' : c.id ∈ p := by simpa using hc
          simp [stepChange, hc', ovIncrement_some]
    | some d0 =>
      have hdd : d0.deleted = true := hDead d0 hD
      refine G_of_eq (G.dead { c with val := if p.contains c.id then c.val.bump n else c.val }
        (by intro d h; cases h; exact hdd) ?_ hcd ?_) ?_
      · simp [valuesAfter_concat_inc, List.getLast?_map, hL]
      · simp [valuesAfter_concat_inc, hcc]
      · rw [stepChange_inc_some]; simp [incDoc, hdd]
  | good d0 c e hD hdd hL hcd hlt hE =>
    have hne : c.id ≠ d0.id := (OpId.ne_of_lt_or hlt).symm
    rw [stepChange_inc_some]
    cases hcd0 : p.contains d0.id && (bumpAll pre d0.id d0.val).isCounter with
    | true =>
      have h1 : p.contains d0.id = true := by
        cases h : p.contains d0.id <;> simp_all
      have h2 : (bumpAll pre d0.id d0.val).isCounter = true := by
        cases h : (bumpAll pre d0.id d0.val).isCounter <;> simp_all
      refine G_of_eq (G.good d0 { c with val := if p.contains c.id then c.val.bump n else c.val } true hD hdd
        ?_ hcd hlt (fun h => by cases h)) ?_
      · simp [valuesAfter_concat_inc, List.getLast?_map, hL]
      · have h1' : d0.id ∈ p := by simpa using h1
        rw [bumpAll_concat_inc, h1]
        simp [incDoc, hne, hdd, h1', h2]
    | false =>
      have hsame : bumpAll (pre ++ [.inc p n]) d0.id d0.val = bumpAll pre d0.id d0.val := by
        rw [bumpAll_concat_inc]
        cases h1 : p.contains d0.id with
        | false => simp
        | true =>
          have h2 : (bumpAll pre d0.id d0.val).isCounter = false := by
            cases h : (bumpAll pre d0.id d0.val).isCounter <;> simp_all
          simp [bump_not_counter _ n h2]
      refine G_of_eq (G.good d0 { c with val := if p.contains c.id then c.val.bump n else c.val } e hD hdd
        ?_ hcd hlt (fun h => by rw [hsame]; exact hE h)) ?_
      · simp [valuesAfter_concat_inc, List.getLast?_map, hL]
      · rw [hsame]
        have : incDoc { d0 with val := bumpAll pre d0.id d0.val, expose := e } c p n =
            { d0 with val := bumpAll pre d0.id d0.val, expose := e } := by
          unfold incDoc
          have hcd0' : (p.contains d0.id && (bumpAll pre d0.id d0.val).isCounter) = false := hcd0
          simp only [Bool.and_assoc, hcd0', Bool.and_false]
          simp
        rw [this]
  | cloned d0 c dv de hD hdd hL hcd hlt hR =>
    have hR' : ∀ id v, ChgOp.value id v ∈ rest → d0.id.lt id = true :=
      fun id v hm => hR id v (by simp [hm])
    rw [stepChange_inc_some]
    cases hx : (c.id != d0.id && !d0.deleted && p.contains d0.id && dv.isCounter) with
    | true =>
      refine G_of_eq (G.cloned d0 { c with val := if p.contains c.id then c.val.bump n else c.val }
        (dv.bump n) true hD hdd ?_ hcd hlt hR') ?_
      · simp [valuesAfter_concat_inc, List.getLast?_map, hL]
      · have hx' : (c.id != d0.id && !d0.deleted && p.contains d0.id && dv.isCounter) = true := hx
        simp only [incDoc, hx']
        simp
    | false =>
      refine G_of_eq (G.cloned d0 { c with val := if p.contains c.id then c.val.bump n else c.val }
        dv de hD hdd ?_ hcd hlt hR') ?_
      · simp [valuesAfter_concat_inc, List.getLast?_map, hL]
      · have hx' : (c.id != d0.id && !d0.deleted && p.contains d0.id && dv.isCounter) = false := hx
        simp only [incDoc, hx']
        simp

theorem G_fold (D0 : Option OpValue) (rest : List ChgOp) : ∀ (pre : List ChgOp)
    (st : Option OpValue × Option OpValue), G D0 pre rest st → chgOK D0 rest →
    G D0 (pre ++ rest) [] (rest.foldl stepChange st) := by
  induction rest with
  | nil =>
    intro pre st h _
    simpa using h
  | cons x rest ih =>
    intro pre st h hok
    have hstep : G D0 (pre ++ [x]) rest (stepChange st x) := by
      cases x with
      | value i w => exact G_step_value D0 pre rest i w st h hok.1
      | inc p n => exact G_step_inc D0 pre rest p n st h hok.1
    have := ih (pre ++ [x]) _ hstep hok.2
    simpa using this

theorem G_foldChange (D0 : Option OpValue) (cs : List ChgOp) (hok : chgOK D0 cs) :
    G D0 cs [] (foldChange D0 cs) := by
  have := G_fold D0 cs [] (D0, none) (G.m0 (by simp [valuesAfter]) (by intro d0 _ _; simp [bumpAll])) hok
  simpa [foldChange] using this

end AmVerif.Crdt
