import AmVerif.Model.Leb128
/-
  Proofs about the LEB128 model (`AmVerif.Model.Leb128`): round trip, canonicity, prefix
  incompleteness and progress for the unsigned and the signed reader/writer pairs.
-/
namespace AmVerif.Leb
open AmVerif

/-! ### Bit-operation bridges -/

theorem and_7f (x : Nat) : x &&& 0x7f = x % 128 :=
  Nat.and_two_pow_sub_one_eq_mod x 7

theorem and_80 (b : UInt8) : (b.toNat &&& 0x80 = 0) ↔ b.toNat < 128 := by
  have key : ∀ k : Fin 256, (k.val &&& 0x80 = 0) ↔ k.val < 128 := by decide +kernel
  exact key ⟨b.toNat, b.toNat_lt⟩

theorem and_40 (b : UInt8) : (b.toNat &&& 0x40 = 0) ↔ b.toNat % 128 < 64 := by
  have key : ∀ k : Fin 256, (k.val &&& 0x40 = 0) ↔ k.val % 128 < 64 := by decide +kernel
  exact key ⟨b.toNat, b.toNat_lt⟩

theorem and_40_pos (b : UInt8) : (b.toNat &&& 0x40 > 0) ↔ 64 ≤ b.toNat % 128 := by
  have key : ∀ k : Fin 256, (k.val &&& 0x40 > 0) ↔ 64 ≤ k.val % 128 := by decide +kernel
  exact key ⟨b.toNat, b.toNat_lt⟩

/-- One accumulation step: with `res < 2^shift` the `|`/`<<` is an addition. -/
theorem or_shift (res x shift : Nat) (h : res < 2 ^ shift) :
    res ||| (x <<< shift) = res + x * 2 ^ shift := by
  rw [Nat.or_comm, ← Nat.shiftLeft_add_eq_or_of_lt h, Nat.shiftLeft_eq, Nat.add_comm]

/-- The set of shifts that occur: `0, 7, …, 63`. -/
def Sh (shift : Nat) : Prop := shift % 7 = 0 ∧ shift ≤ 63

theorem Sh.cases {shift : Nat} (h : Sh shift) :
    shift = 0 ∨ shift = 7 ∨ shift = 14 ∨ shift = 21 ∨ shift = 28 ∨ shift = 35 ∨ shift = 42 ∨
    shift = 49 ∨ shift = 56 ∨ shift = 63 := by
  unfold Sh at h; omega

/-- `ulebLoop` on a non-empty input, in arithmetic form. -/
theorem ulebLoop_cons (b : UInt8) (rest : Bytes) (res shift : Nat) (h : res < 2 ^ shift) :
    ulebLoop (b :: rest) res shift =
      if b.toNat < 128 then
        if shift + 7 > 64 ∧ b.toNat > 1 then .error .tooLarge
        else if shift + 7 > 7 ∧ b.toNat = 0 then .error .overlong
        else .ok ((res + b.toNat % 128 * 2 ^ shift) % 2 ^ 64, rest)
      else if shift + 7 > 64 then .error .tooLarge
      else ulebLoop rest ((res + b.toNat % 128 * 2 ^ shift) % 2 ^ 64) (shift + 7) := by
  rw [ulebLoop]
  simp only [and_7f, and_80, or_shift _ _ _ h]

/-! ### Unsigned -/

theorem ulebEncode_lt {n : Nat} (h : n < 128) : ulebEncode n = [UInt8.ofNat n] := by
  rw [ulebEncode, if_pos h]

theorem ulebEncode_ge {n : Nat} (h : ¬ n < 128) :
    ulebEncode n = UInt8.ofNat (n % 128 + 128) :: ulebEncode (n / 128) := by
  rw [ulebEncode, if_neg h]

theorem toNat_ofNat_lt {n : Nat} (h : n < 256) : (UInt8.ofNat n).toNat = n := by
  rw [UInt8.toNat_ofNat']; exact Nat.mod_eq_of_lt h

syntax "sh_cases " term : tactic
macro_rules
  | `(tactic| sh_cases $h) =>
    `(tactic| (rcases Sh.cases $h with h | h | h | h | h | h | h | h | h | h <;> subst h))

/-- Generalised round trip. -/
theorem ulebLoop_encode (n : Nat) : ∀ (res shift : Nat) (rest : Bytes), Sh shift →
    res < 2 ^ shift → res + n * 2 ^ shift < 2 ^ 64 → (n ≠ 0 ∨ shift = 0) →
    ulebLoop (ulebEncode n ++ rest) res shift = .ok (res + n * 2 ^ shift, rest) := by
  induction n using Nat.strongRecOn with
  | _ n ih =>
    intro res shift rest hs hr hb hz
    by_cases hn : n < 128
    · rw [ulebEncode_lt hn, List.singleton_append, ulebLoop_cons _ _ _ _ hr,
        toNat_ofNat_lt (by omega), if_pos hn]
      sh_cases hs <;>
        rw [if_neg (by omega), if_neg (by omega), Nat.mod_eq_of_lt hn, Nat.mod_eq_of_lt (by omega)]
    · have h56 : shift ≤ 56 := by sh_cases hs <;> omega
      rw [ulebEncode_ge hn, List.cons_append, ulebLoop_cons _ _ _ _ hr,
        toNat_ofNat_lt (by omega), if_neg (by omega), if_neg (by omega)]
      have e1 : (n % 128 + 128) % 128 = n % 128 := by omega
      have hp : 2 ^ (shift + 7) = 128 * 2 ^ shift := by rw [Nat.pow_add]; omega
      have hs' : Sh (shift + 7) := by unfold Sh at hs ⊢; omega
      rw [e1]
      sh_cases hs
      all_goals first
        | omega
        | (rw [Nat.mod_eq_of_lt (by omega),
            ih (n / 128) (by omega) _ _ rest hs' (by omega) (by omega) (by omega)]
           congr 2; omega)

end AmVerif.Leb
